package c16

// obidistribute and the unidentified-reads file of obimultiplex: every record is
// routed to exactly one output, chosen from the record alone.

import (
	"encoding/json"
	"fmt"
	"io/fs"
	"os"
	"path/filepath"
	"sort"
	"strconv"
	"strings"
	"testing"

	"pgregory.net/rapid"

	"verifharness/internal/evid"
	"verifharness/internal/gen"
	"verifharness/internal/run"
)

// ------------------------------------------------------------------ obidistribute

type distCase struct {
	Recs   []gRec `json:"recs"`
	Fastq  bool   `json:"fastq,omitempty"`
	Mode   string `json:"mode"`              // c: --classifier [--directory], n: --batches, H: --hash
	Key    string `json:"key,omitempty"`     // -c
	DirKey string `json:"dir_key,omitempty"` // -d
	NA     string `json:"na,omitempty"`      // --na-value ("" : option not given, the documented default is NA)
	N      int    `json:"n,omitempty"`       // -n / -H
	Prefix string `json:"prefix"`            // the pattern is <Prefix>%s<ext>
	Long   bool   `json:"long,omitempty"`
	MaxCPU int    `json:"max_cpu,omitempty"`
	Batch  int    `json:"batch,omitempty"`
}

func init() {
	evid.Reg("distribute", checkDistribute)
	evid.Reg("unidentified", checkUnidentified)
}

func (c *distCase) ext() string {
	if c.Fastq {
		return ".fastq"
	}
	return ".fasta"
}

// expectedPath: the file the documentation assigns to r (ok=false: not documented, see Domain decisions).
func (c *distCase) expectedPath(r gRec) (string, bool) {
	na := c.NA
	if na == "" {
		na = "NA"
	}
	v := na
	if a, has := r.attr(c.Key); has {
		v, _ = distText(a)
	}
	name := c.Prefix + v + c.ext()
	if c.DirKey == "" {
		return name, true
	}
	a, has := r.attr(c.DirKey)
	if !has {
		return "", false
	}
	d, _ := distText(a)
	return filepath.Join(d, name), true
}

func checkDistribute(c distCase) error {
	top, err := os.MkdirTemp(run.WorkDir(), "c16dist")
	if err != nil {
		return fmt.Errorf("harness: %v", err)
	}
	defer os.RemoveAll(top)
	work := filepath.Join(top, "out")
	if err := os.Mkdir(work, 0o755); err != nil {
		return fmt.Errorf("harness: %v", err)
	}
	in := filepath.Join(top, "in"+c.ext())
	if err := os.WriteFile(in, gRender(c.Recs, c.Fastq), 0o644); err != nil {
		return fmt.Errorf("harness: %v", err)
	}
	byID := map[string]gRec{}
	for _, r := range c.Recs {
		if _, dup := byID[r.ID]; dup {
			return fmt.Errorf("harness: identifier %s generated twice", r.ID)
		}
		byID[r.ID] = r
	}
	args := gParallelArgs(c.MaxCPU, c.Batch)
	opt := func(short, long string) string {
		if c.Long {
			return long
		}
		return short
	}
	switch c.Mode {
	case "c":
		args = append(args, opt("-c", "--classifier"), c.Key)
		if c.DirKey != "" {
			args = append(args, opt("-d", "--directory"), c.DirKey)
		}
		if c.NA != "" {
			args = append(args, "--na-value", c.NA)
		}
	case "n":
		args = append(args, opt("-n", "--batches"), strconv.Itoa(c.N))
	case "H":
		args = append(args, opt("-H", "--hash"), strconv.Itoa(c.N))
	default:
		return fmt.Errorf("harness: mode %q", c.Mode)
	}
	args = append(args, opt("-p", "--pattern"), c.Prefix+"%s"+c.ext(), in)
	cmd := "obidistribute " + gQuote(args)
	res, ok := gRun(work, "obidistribute", args)
	if !ok {
		return nil
	}
	if res.Exit != 0 {
		return fmt.Errorf("%s exits %d on well-formed input and options\nstderr: %s", cmd, res.Exit, gShort(res.Stderr))
	}

	// ---- every file under the working directory
	fileOf := map[string]string{}
	var files []string
	var listing strings.Builder
	err = filepath.WalkDir(work, func(path string, d fs.DirEntry, err error) error {
		if err != nil || d.IsDir() {
			return err
		}
		rel, _ := filepath.Rel(work, path)
		recs, _, err := gReadFile(path)
		if err != nil {
			return fmt.Errorf("%s is unreadable: %v", rel, err)
		}
		files = append(files, rel)
		fmt.Fprintf(&listing, "\n  %s:", rel)
		for _, o := range recs {
			fmt.Fprintf(&listing, " %s", o.ID)
			want, known := byID[o.ID]
			if !known {
				return fmt.Errorf("%s holds record %q which is not an input record", rel, o.ID)
			}
			if prev, dup := fileOf[o.ID]; dup {
				return fmt.Errorf("record %s was written twice: in %s and in %s", o.ID, prev, rel)
			}
			fileOf[o.ID] = rel
			if err := gSame(want, o, nil); err != nil {
				return fmt.Errorf("%s: %v", rel, err)
			}
		}
		return nil
	})
	explain := func(err error) error {
		return fmt.Errorf("%s\n%v\nfiles written:%s\nstderr: %s", cmd, err, listing.String(), gShort(res.Stderr))
	}
	if err != nil {
		return explain(err)
	}
	for _, r := range c.Recs {
		if _, has := fileOf[r.ID]; !has {
			return explain(fmt.Errorf("record %s is in none of the %d output files", r.ID, len(files)))
		}
	}

	// ---- the file of a record is the one its own content designates
	switch c.Mode {
	case "c":
		group := map[string]string{} // records whose path is not documented: same values -> same file
		for _, r := range c.Recs {
			if want, ok := c.expectedPath(r); ok {
				if fileOf[r.ID] != want {
					return explain(fmt.Errorf("record %s (%s) was written to %s; its annotations designate %s", r.ID, gTitle(r), fileOf[r.ID], want))
				}
				continue
			}
			v := "\x00missing"
			if a, has := r.attr(c.Key); has {
				v, _ = distText(a)
			}
			k := fmt.Sprintf("%s|%v", v, len(r.Attrs) > 0 || r.Def != "")
			if prev, seen := group[k]; seen && prev != fileOf[r.ID] {
				return explain(fmt.Errorf("record %s was written to %s while another record with the same %s value and no %s annotation was written to %s", r.ID, fileOf[r.ID], c.Key, c.DirKey, prev))
			}
			group[k] = fileOf[r.ID]
		}
	case "n", "H":
		if len(files) > c.N {
			return explain(fmt.Errorf("%d files written, at most %d were asked for", len(files), c.N))
		}
		for _, f := range files {
			if !strings.HasPrefix(f, c.Prefix) || !strings.HasSuffix(f, c.ext()) || strings.Contains(f, string(filepath.Separator)) {
				return explain(fmt.Errorf("file %s does not follow the pattern %s%%s%s", f, c.Prefix, c.ext()))
			}
		}
		if c.Mode == "n" && len(files) != min(c.N, len(c.Recs)) {
			return explain(fmt.Errorf("%d records split in %d files, %d batches were asked for", len(c.Recs), len(files), c.N))
		}
		if c.Mode == "H" {
			bySeq := map[string]string{}
			for _, r := range c.Recs {
				if prev, seen := bySeq[r.Seq]; seen && prev != fileOf[r.ID] {
					return explain(fmt.Errorf("record %s was written to %s, another record with the same sequence to %s", r.ID, fileOf[r.ID], prev))
				}
				bySeq[r.Seq] = fileOf[r.ID]
			}
		}
	}
	return nil
}

// distText: the text of a classifier value as the class / file name shows it: decimals between
// 0.001 and 1000 are written by the tool as they stand in the file, with all their digits.
func distText(a gAttr) (string, bool) {
	if a.Kind == "f" {
		return gFloatText(a.F), true
	}
	return a.text()
}

var gClassVals = []gAttr{
	// values that are prefixes / suffixes of each other: (1,12) and (11,2) are different (class, directory) pairs
	// (first in the list: rapid draws the first entries of a list most often)
	{Kind: "s", S: "1"}, {Kind: "s", S: "11"}, {Kind: "i", I: 1}, {Kind: "i", I: 11}, {Kind: "s", S: "2"}, {Kind: "i", I: 12},
	// numbers that differ beyond the 7th significant digit (distinct classes)
	{Kind: "f", F: 0.123456789}, {Kind: "f", F: 0.123456791},
	{Kind: "s", S: "x"}, {Kind: "s", S: "y"}, {Kind: "s", S: "ab"}, {Kind: "s", S: "s1"}, {Kind: "s", S: "3"}, {Kind: "s", S: "na"},
	{Kind: "i", I: 3}, {Kind: "i", I: 0}, {Kind: "b", B: true}, {Kind: "b", B: false},
	{Kind: "f", F: 12.3456789}, {Kind: "f", F: 12.3456791}, {Kind: "f", F: 0.5},
}

func genDistCase(rt *rapid.T) distCase {
	c := distCase{Mode: rapid.SampledFrom([]string{"c", "c", "c", "n", "H"}).Draw(rt, "mode")}
	c.Fastq = rapid.IntRange(0, 2).Draw(rt, "fastq") == 0
	c.Long = rapid.IntRange(0, 3).Draw(rt, "long_names") == 0
	c.Prefix = rapid.SampledFrom([]string{"out_", "p", "x.", "part-"}).Draw(rt, "prefix")
	c.MaxCPU = rapid.SampledFrom(gMaxCPUs).Draw(rt, "max_cpu")
	c.Batch = rapid.SampledFrom(gBatches).Draw(rt, "batch_size")
	c.Key = rapid.SampledFrom([]string{"s", "sample", "k"}).Draw(rt, "key")
	if c.Mode == "c" {
		if rapid.Bool().Draw(rt, "with_dir") {
			c.DirKey = rapid.SampledFrom([]string{"d", "run"}).Draw(rt, "dir_key")
		}
		if rapid.IntRange(0, 2).Draw(rt, "na_given") == 0 {
			c.NA = rapid.SampledFrom([]string{"none", "x", "unk", "NA"}).Draw(rt, "na")
		}
	} else {
		c.N = rapid.SampledFrom([]int{1, 2, 3, 3, 4, 7}).Draw(rt, "n")
	}
	nrec := gen.Len(rt, "n_records", 1, evid.Pick(16, 60), 1, 2)
	nvals := rapid.IntRange(1, 5).Draw(rt, "n_values")
	vals := make([]gAttr, nvals)
	for i := range vals {
		vals[i] = rapid.SampledFrom(gClassVals).Draw(rt, "value")
	}
	seqPool := make([]string, rapid.IntRange(1, 4).Draw(rt, "n_seqs"))
	for i := range seqPool {
		seqPool[i] = gDrawSeq(rt, "pool_seq", rapid.IntRange(1, 20).Draw(rt, "pool_len"), false)
	}
	ctx := gRecCtx{fastq: c.Fastq, lens: []int{8, 15}}
	for i := 0; i < nrec; i++ {
		r := gDrawRec(rt, &ctx, "r"+strconv.Itoa(i))
		if rapid.IntRange(0, 3).Draw(rt, "bare") == 0 { // a record without any annotation (and maybe no definition)
			r.Attrs = nil
			if rapid.Bool().Draw(rt, "bare_nodef") {
				r.Def = ""
			}
		}
		if rapid.Bool().Draw(rt, "pooled_seq") {
			r.Seq = rapid.SampledFrom(seqPool).Draw(rt, "seq_from_pool")
			if c.Fastq {
				r.Qual = strings.Repeat("I", len(r.Seq))
			}
		}
		var kept []gAttr
		for _, a := range r.Attrs { // the generic optional key "k" must not collide with the classifier key
			if a.Key != c.Key && a.Key != c.DirKey {
				kept = append(kept, a)
			}
		}
		r.Attrs = kept
		if rapid.IntRange(0, 4).Draw(rt, "has_key") > 0 {
			a := rapid.SampledFrom(vals).Draw(rt, "key_value")
			a.Key = c.Key
			r.Attrs = append(r.Attrs, a)
		}
		if c.DirKey != "" && rapid.IntRange(0, 3).Draw(rt, "has_dir") > 0 {
			a := rapid.SampledFrom([]gAttr{{Kind: "s", S: "d1"}, {Kind: "s", S: "d2"}, {Kind: "i", I: 7}, {Kind: "s", S: "x"},
				{Kind: "s", S: "12"}, {Kind: "s", S: "2"}, {Kind: "i", I: 2}, {Kind: "s", S: "1"}, {Kind: "s", S: "11"}}).Draw(rt, "dir_value")
			a.Key = c.DirKey
			r.Attrs = append(r.Attrs, a)
		}
		c.Recs = append(c.Recs, r)
	}
	if c.DirKey != "" && len(c.Recs) >= 2 && rapid.IntRange(0, 2).Draw(rt, "colliding_pairs") == 0 {
		// by construction: two (class, directory) pairs whose texts concatenate to the same string
		pairs := [][2]gAttr{{{Kind: "s", S: "1"}, {Kind: "s", S: "12"}}, {{Kind: "s", S: "11"}, {Kind: "s", S: "2"}}}
		if rapid.Bool().Draw(rt, "colliding_ints") {
			pairs = [][2]gAttr{{{Kind: "i", I: 1}, {Kind: "i", I: 12}}, {{Kind: "i", I: 11}, {Kind: "i", I: 2}}}
		}
		at := []int{0, len(c.Recs) - 1}
		for k, pr := range pairs {
			r := &c.Recs[at[k]]
			var kept []gAttr
			for _, a := range r.Attrs {
				if a.Key != c.Key && a.Key != c.DirKey {
					kept = append(kept, a)
				}
			}
			cl, dr := pr[0], pr[1]
			cl.Key, dr.Key = c.Key, c.DirKey
			r.Attrs = append(kept, cl, dr)
		}
	}
	return c
}

func TestDistribute(t *testing.T) {
	rapid.Check(t, func(rt *rapid.T) {
		c := genDistCase(rt)
		b, _ := json.Marshal(c)
		// number of output files the options designate (a lower bound for -c with undocumented paths)
		nfiles := 0
		switch c.Mode {
		case "c":
			paths := map[string]bool{}
			for _, r := range c.Recs {
				p, ok := c.expectedPath(r)
				if !ok {
					p = "?"
				}
				paths[p] = true
			}
			nfiles = len(paths)
		case "n":
			nfiles = min(c.N, len(c.Recs))
		case "H":
			seqs := map[string]bool{}
			for _, r := range c.Recs {
				seqs[r.Seq] = true
			}
			nfiles = min(c.N, len(seqs))
		}
		classes := []string{"distribute:mode:" + c.Mode, fmt.Sprintf("distribute:max_cpu:%d", c.MaxCPU), fmt.Sprintf("distribute:batch_size:%d", c.Batch)}
		if c.DirKey != "" {
			classes = append(classes, "distribute:with_directory")
		}
		if c.NA != "" {
			classes = append(classes, "distribute:na_value_given")
		}
		if nfiles >= 2 {
			classes = append(classes, "distribute:several_files")
		}
		evid.Eval("distribute", evid.Hash(b), nfiles >= 2, c, classes...)
		if err := checkDistribute(c); err != nil {
			evid.Fail(rt, "distribute", c, err)
		}
	})
}

// ------------------------------------------------------------------ obimultiplex -u

type gSample struct {
	Name string `json:"name"`
	FTag string `json:"ftag"`
	RTag string `json:"rtag"`
}

type gRead struct {
	ID     string  `json:"id"`
	Kind   string  `json:"kind"` // good | badtag | fwdonly | revonly | none
	FTag   string  `json:"ftag,omitempty"`
	RTag   string  `json:"rtag,omitempty"`
	Insert string  `json:"insert"` // a/t only: cannot be taken for a primer (every primer holds >= 7 g/c)
	RC     bool    `json:"rc,omitempty"`
	Def    string  `json:"def,omitempty"`
	Attrs  []gAttr `json:"attrs,omitempty"`
}

type unidCase struct {
	Primers int       `json:"primers"`
	Samples []gSample `json:"samples"`
	Reads   []gRead   `json:"reads"`
	Fastq   bool      `json:"fastq,omitempty"`
	Long    bool      `json:"long,omitempty"`
	MaxCPU  int       `json:"max_cpu,omitempty"`
	Batch   int       `json:"batch,omitempty"`
}

var gPrimerPairs = [][2]string{
	{"gggcaatcctgagccaa", "ccattgagtctctgcacctatc"},
	{"ttagataccccactatgc", "tagaacaggctcctctag"},
}

// tags of 6 nucleotides, pairwise Hamming distance >= 3
var gTags = []string{"aacaag", "ttgacc", "ccgtat", "ggtcta", "acgtgt", "tgcaca", "gatcga", "ctagct"}

func gRevComp(s string) string {
	b := []byte(s)
	for i, j := 0, len(b)-1; i <= j; i, j = i+1, j-1 {
		b[i], b[j] = gComp(b[j]), gComp(b[i])
	}
	return string(b)
}

func gComp(c byte) byte {
	switch c {
	case 'a':
		return 't'
	case 'c':
		return 'g'
	case 'g':
		return 'c'
	case 't':
		return 'a'
	}
	return c
}

func (c *unidCase) readSeq(r gRead) string {
	fp, rp := gPrimerPairs[c.Primers][0], gPrimerPairs[c.Primers][1]
	var s string
	switch r.Kind {
	case "good", "badtag":
		s = r.FTag + fp + r.Insert + gRevComp(rp) + gRevComp(r.RTag)
	case "fwdonly":
		s = r.FTag + fp + r.Insert
	case "revonly":
		s = r.Insert + gRevComp(rp) + gRevComp(r.RTag)
	default:
		s = r.Insert
	}
	if r.RC {
		s = gRevComp(s)
	}
	return s
}

func checkUnidentified(c unidCase) error {
	dir, err := os.MkdirTemp(run.WorkDir(), "c16unid")
	if err != nil {
		return fmt.Errorf("harness: %v", err)
	}
	defer os.RemoveAll(dir)
	ext := ".fasta"
	if c.Fastq {
		ext = ".fastq"
	}
	declared := map[string]bool{}
	var sheet strings.Builder
	fp, rp := gPrimerPairs[c.Primers][0], gPrimerPairs[c.Primers][1]
	for _, s := range c.Samples {
		if declared[s.FTag+":"+s.RTag] {
			return fmt.Errorf("harness: tag pair %s:%s declared twice", s.FTag, s.RTag)
		}
		declared[s.FTag+":"+s.RTag] = true
		fmt.Fprintf(&sheet, "exp\t%s\t%s:%s\t%s\t%s\tF\n", s.Name, s.FTag, s.RTag, strings.ToUpper(fp), strings.ToUpper(rp))
	}
	var recs []gRec
	byID := map[string]gRec{}
	kind := map[string]string{}
	for _, r := range c.Reads {
		switch r.Kind {
		case "good":
			if !declared[r.FTag+":"+r.RTag] {
				return fmt.Errorf("harness: good read %s with undeclared tags", r.ID)
			}
		case "badtag":
			if declared[r.FTag+":"+r.RTag] {
				return fmt.Errorf("harness: badtag read %s with declared tags", r.ID)
			}
		}
		if strings.Trim(r.Insert, "at") != "" {
			return fmt.Errorf("harness: insert of %s is not a/t only", r.ID)
		}
		seq := c.readSeq(r)
		rec := gRec{ID: r.ID, Def: r.Def, Seq: seq, Attrs: r.Attrs}
		if c.Fastq {
			rec.Qual = strings.Repeat("I", len(seq))
		}
		if _, dup := byID[r.ID]; dup {
			return fmt.Errorf("harness: read %s generated twice", r.ID)
		}
		byID[r.ID] = rec
		kind[r.ID] = r.Kind
		recs = append(recs, rec)
	}
	if err := os.WriteFile(filepath.Join(dir, "sheet.txt"), []byte(sheet.String()), 0o644); err != nil {
		return fmt.Errorf("harness: %v", err)
	}
	if err := os.WriteFile(filepath.Join(dir, "in"+ext), gRender(recs, c.Fastq), 0o644); err != nil {
		return fmt.Errorf("harness: %v", err)
	}
	base := append(gParallelArgs(c.MaxCPU, c.Batch), "-t", "sheet.txt")
	if c.Long {
		base[len(base)-2] = "--tag-list"
	}
	uopt := "-u"
	if c.Long {
		uopt = "--unidentified"
	}
	args := append(append([]string{}, base...), uopt, "unid"+ext, "in"+ext)
	cmd := "obimultiplex " + gQuote(args)
	res, ok := gRun(dir, "obimultiplex", args)
	if !ok {
		return nil
	}
	var listing strings.Builder
	explain := func(err error) error {
		return fmt.Errorf("%s\n%v\nsample sheet:\n%s%s\nstderr: %s", cmd, err, sheet.String(), listing.String(), gShort(res.Stderr))
	}
	if res.Exit != 0 {
		return explain(fmt.Errorf("exit status %d on a well-formed sheet and input", res.Exit))
	}
	out, err := gParse(res.Stdout)
	if err != nil {
		return explain(fmt.Errorf("standard output is unreadable: %v", err))
	}
	unid, _, err := gReadFile(filepath.Join(dir, "unid"+ext))
	if err != nil {
		return explain(fmt.Errorf("the -u file is unreadable: %v", err))
	}
	baseID := func(id string) string { return strings.SplitN(id, "_sub[", 2)[0] }
	where := map[string]string{}
	for _, part := range []struct {
		name string
		recs []gOut
	}{{"standard output", out}, {"the -u file", unid}} {
		fmt.Fprintf(&listing, "%s:", part.name)
		for _, o := range part.recs {
			fmt.Fprintf(&listing, " %s", o.ID)
		}
		listing.WriteString("\n")
	}
	for _, part := range []struct {
		name string
		recs []gOut
		errs bool
	}{{"standard output", out, false}, {"the -u file", unid, true}} {
		for _, o := range part.recs {
			id := baseID(o.ID)
			src, known := byID[id]
			if !known {
				return explain(fmt.Errorf("%s holds record %q which comes from no input read", part.name, o.ID))
			}
			if prev, dup := where[id]; dup {
				return explain(fmt.Errorf("read %s (%s) was written twice: in %s and in %s", id, kind[id], prev, part.name))
			}
			where[id] = part.name
			_, hasErr := o.Attrs["obimultiplex_error"]
			if hasErr != part.errs {
				if part.errs {
					return explain(fmt.Errorf("read %s is in the -u file without an obimultiplex_error annotation: %v", id, o.Attrs))
				}
				return explain(fmt.Errorf("read %s is on the standard output with obimultiplex_error=%v", id, o.Attrs["obimultiplex_error"]))
			}
			if o.Def != src.Def {
				return explain(fmt.Errorf("read %s: definition %q, the input had %q", id, o.Def, src.Def))
			}
			for _, a := range src.Attrs {
				if v, has := o.Attrs[a.Key]; !has || !gValEqual(a.value(), v) {
					return explain(fmt.Errorf("read %s: annotation %q of the input (%s) is %v in %s", id, a.Key, a.json(), v, part.name))
				}
			}
		}
	}
	for _, r := range c.Reads {
		w, has := where[r.ID]
		if !has {
			return explain(fmt.Errorf("read %s (%s) is neither on the standard output nor in the -u file", r.ID, r.Kind))
		}
		switch r.Kind {
		case "good":
			if w != "standard output" {
				return explain(fmt.Errorf("read %s carries the exact amplicon of a declared sample (tags %s:%s) and was written to %s", r.ID, r.FTag, r.RTag, w))
			}
		case "badtag", "none":
			if w != "the -u file" {
				return explain(fmt.Errorf("read %s (%s, tags %s:%s) belongs to no declared sample and was written to %s", r.ID, r.Kind, r.FTag, r.RTag, w))
			}
		}
	}

	// ---- the identified reads are the same with and without -u
	args2 := append(append([]string{}, base...), "in"+ext)
	res2, ok := gRun(dir, "obimultiplex", args2)
	if !ok {
		return nil
	}
	if res2.Exit != 0 {
		return fmt.Errorf("obimultiplex %s exits %d on a well-formed sheet and input\nstderr: %s", gQuote(args2), res2.Exit, gShort(res2.Stderr))
	}
	out2, err := gParse(res2.Stdout)
	if err != nil {
		return fmt.Errorf("obimultiplex %s: standard output is unreadable: %v", gQuote(args2), err)
	}
	ids := func(l []gOut) []string {
		s := make([]string, len(l))
		for i, o := range l {
			s[i] = o.ID
		}
		sort.Strings(s)
		return s
	}
	a, b := ids(out), ids(out2)
	if strings.Join(a, " ") != strings.Join(b, " ") {
		return explain(fmt.Errorf("identified records with -u: %v; without -u: %v", a, b))
	}
	return nil
}

func genUnidCase(rt *rapid.T) unidCase {
	c := unidCase{Primers: rapid.IntRange(0, len(gPrimerPairs)-1).Draw(rt, "primers")}
	c.Fastq = rapid.IntRange(0, 2).Draw(rt, "fastq") == 0
	c.Long = rapid.IntRange(0, 3).Draw(rt, "long_names") == 0
	c.MaxCPU = rapid.SampledFrom(gMaxCPUs).Draw(rt, "max_cpu")
	c.Batch = rapid.SampledFrom(gBatches).Draw(rt, "batch_size")
	ns := rapid.IntRange(1, 3).Draw(rt, "n_samples")
	declared := map[string]bool{}
	for len(c.Samples) < ns {
		s := gSample{Name: "s" + strconv.Itoa(len(c.Samples)+1), FTag: rapid.SampledFrom(gTags[:5]).Draw(rt, "ftag"), RTag: rapid.SampledFrom(gTags[:5]).Draw(rt, "rtag")}
		if declared[s.FTag+":"+s.RTag] {
			s.FTag, s.RTag = gTags[5+len(c.Samples)], gTags[5+len(c.Samples)] // three spare tags: always a fresh pair
		}
		declared[s.FTag+":"+s.RTag] = true
		c.Samples = append(c.Samples, s)
	}
	nreads := gen.Len(rt, "n_reads", 1, evid.Pick(12, 40), 1, 2)
	ctx := gRecCtx{lens: []int{10}}
	for i := 0; i < nreads; i++ {
		r := gRead{ID: "r" + strconv.Itoa(i), Kind: rapid.SampledFrom([]string{"good", "good", "good", "badtag", "none", "none", "fwdonly", "revonly"}).Draw(rt, "kind")}
		n := rapid.IntRange(20, 60).Draw(rt, "insert_len")
		ins := make([]byte, n)
		for j := range ins {
			ins[j] = "at"[rapid.IntRange(0, 1).Draw(rt, "insert")]
		}
		r.Insert = string(ins)
		switch r.Kind {
		case "good":
			s := rapid.SampledFrom(c.Samples).Draw(rt, "sample")
			r.FTag, r.RTag = s.FTag, s.RTag
		case "badtag", "fwdonly", "revonly":
			r.FTag, r.RTag = rapid.SampledFrom(gTags).Draw(rt, "read_ftag"), rapid.SampledFrom(gTags).Draw(rt, "read_rtag")
			if r.Kind == "badtag" && declared[r.FTag+":"+r.RTag] {
				// swap in a tag that is in no declared pair with this partner
				for _, t := range gTags {
					if !declared[t+":"+r.RTag] {
						r.FTag = t
						break
					}
				}
			}
		}
		r.RC = rapid.IntRange(0, 2).Draw(rt, "reverse_strand") == 0
		tmp := gDrawRec(rt, &ctx, r.ID)
		r.Def = tmp.Def
		for _, a := range tmp.Attrs {
			if a.Key != "count" { // obimultiplex is free to use count; keep to neutral keys
				r.Attrs = append(r.Attrs, a)
			}
		}
		c.Reads = append(c.Reads, r)
	}
	return c
}

func TestUnidentified(t *testing.T) {
	rapid.Check(t, func(rt *rapid.T) {
		c := genUnidCase(rt)
		b, _ := json.Marshal(c)
		good, bad := 0, 0
		classes := []string{fmt.Sprintf("unidentified:max_cpu:%d", c.MaxCPU), fmt.Sprintf("unidentified:batch_size:%d", c.Batch)}
		seen := map[string]bool{}
		for _, r := range c.Reads {
			switch r.Kind {
			case "good":
				good++
			case "badtag", "none":
				bad++
			}
			if !seen[r.Kind] {
				seen[r.Kind] = true
				classes = append(classes, "unidentified:read_kind:"+r.Kind)
			}
		}
		nontrivial := good > 0 && bad > 0
		if nontrivial {
			classes = append(classes, "unidentified:both_outputs")
		}
		evid.Eval("unidentified", evid.Hash(b), nontrivial, c, classes...)
		if err := checkUnidentified(c); err != nil {
			evid.Fail(rt, "unidentified", c, err)
		}
	})
}
