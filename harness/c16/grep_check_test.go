package c16

// Domain decisions (obigrep / obidistribute / obimultiplex -u half of C16)
//
//   - -v is generated only together with at least one criterion that differs
//     from the option's default value (with none the code builds no predicate;
//     `-l 1`, `-c 1`, `-L 2000000000`, `-C 2000000000` are the defaults and cannot be
//     told from "option not given"; the statement does not cover the degenerate case).
//     For the same reason --paired-mode andnot / xor (which reject a pair whose two
//     mates satisfy an always-true criterion) are generated only with such a criterion.
//   - Sequences have at least one nucleotide and counts are >= 1 (an empty sequence
//     or a count of 0 makes `-l 1` / `-c 1` differ from "no criterion"; not decided).
//   - Identifiers, definitions and string annotation values are lower-case, and the
//     -I / -D / -a patterns contain lower-case letters only: the help text says the
//     -I and -D patterns are case-insensitive while the code matches them
//     case-sensitively; with lower-case text and patterns both readings agree.
//     -s patterns are generated in both cases (help, book and code agree: insensitive).
//   - -p expressions follow doc/book/expressions.qmd (variables `annotations` and
//     `sequence`); the help text of -p ("attribute keys can be used as variable
//     names") contradicts the book and the code and is not exercised.  An expression
//     reads `annotations.K` only when every record (of both files) carries K, or behind
//     `contains(annotations,"K") && …` / `!contains(annotations,"K") || …`: reading a
//     missing key stops the command with a fatal error, which is undocumented.
//     Only boolean-valued expressions; operators < <= > >= == != + - * && || !;
//     `len(annotations)` is avoided (the definition is stored as an annotation).
//   - -a is applied to string, integer and boolean annotations only (the text a map
//     or a float is matched against is not documented); patterns hold no '='.
//   - Non-repeatable options (-l -L -c -C --id-list) are given at most once.
//   - --approx-pattern (the approximate "sequence pattern" criterion) with its modifiers
//     --pattern-error, --allows-indels, --only-forward: see the Domain decisions of
//     grep_approx_test.go.  The other options of `obigrep --help` are not selection
//     options (input / output formats, compression, --no-order, --skip-empty, profiling:
//     the subject of the format properties).
//   - Taxonomic restrictions: every record carries a taxid that is a node of the
//     dump, -r/-i take taxids of nodes (the rest is C14's subject).
//   - Paired inputs are always written with -o NAME.EXT (on stdout only the forward
//     file is written; a name without extension makes BuildPairedFileNames panic —
//     both are outside the statement).  Both files have the same format.
//   - -v with paired inputs: the statement says "-v keeps exactly the others", so the
//     expected selection is the complement of the selection made by the mode table.
//   - An empty --save-discarded set may be an empty or a missing file.
//   - obidistribute: the classifier values are strings, integers or booleans made of
//     [a-z0-9] (they become file names); with -d, the directory of a record that lacks
//     the directory annotation is not documented (--na-value speaks of the classifier
//     tag only): for such records only "exactly one file, same annotation values ->
//     same file" is asserted, not the path.  -n: the statement's "chosen from the record
//     alone" cannot apply to a round-robin split; asserted: partition into at most n
//     files named by the pattern.  -H: same sequence -> same file, at most n files.
//   - obimultiplex -u: every read carries at most one amplicon (a read with several
//     barcodes yields several records, which the statement does not speak about).

import (
	"encoding/json"
	"fmt"
	"os"
	"path/filepath"
	"sort"
	"strings"

	"verifharness/internal/evid"
	"verifharness/internal/ref"
	"verifharness/internal/run"
)

// grepCase is one obigrep run.
type grepCase struct {
	Plan          string    `json:"plan"` // how the option set was chosen (label only)
	Recs          []gRec    `json:"recs"`
	Mates         []gRec    `json:"mates,omitempty"` // --paired-with file (same number of records)
	Fastq         bool      `json:"fastq,omitempty"`
	Opts          []gOpt    `json:"opts"`
	IDList        []string  `json:"idlist,omitempty"`
	IDListNoEOL   bool      `json:"idlist_noeol,omitempty"`
	Invert        bool      `json:"invert,omitempty"`
	InvertLong    bool      `json:"invert_long,omitempty"`
	SaveDiscarded bool      `json:"save_discarded,omitempty"`
	PairedMode    string    `json:"paired_mode,omitempty"` // "" : option not given
	Tree          *ref.Tree `json:"tree,omitempty"`
	OutFile       bool      `json:"out_file,omitempty"` // -o instead of stdout (always with mates)
	MaxCPU        int       `json:"max_cpu,omitempty"`
	Batch         int       `json:"batch,omitempty"`
	// modifiers of --approx-pattern (grep_approx_test.go)
	PatErr          int  `json:"pattern_error,omitempty"`
	PatErrZero      bool `json:"pattern_error_0_written,omitempty"` // `--pattern-error 0` written although it is the default
	Indels          bool `json:"allows_indels,omitempty"`
	OnlyForward     bool `json:"only_forward,omitempty"`
	ApproxModsFirst bool `json:"approx_modifiers_first,omitempty"` // written before the selection options instead of after them
}

func (c *grepCase) key() uint64 {
	b, _ := json.Marshal(c)
	return evid.Hash(b)
}

// expected selection: indices kept, in input order.
func (c *grepCase) expected() (kept []bool, why []string, err error) {
	sel := gSelection{Opts: c.Opts, IDList: c.IDList, Tree: c.Tree, Approx: c.approx()}
	kept = make([]bool, len(c.Recs))
	why = make([]string, len(c.Recs))
	for i, r := range c.Recs {
		f, wf, err := sel.keepOne(r)
		if err != nil {
			return nil, nil, err
		}
		k := f
		why[i] = wf
		if c.Mates != nil {
			m, wm, err := sel.keepOne(c.Mates[i])
			if err != nil {
				return nil, nil, err
			}
			k, err = gPairTable(c.PairedMode, f, m)
			if err != nil {
				return nil, nil, err
			}
			why[i] = fmt.Sprintf("forward read %s, reverse read %s", gVerdict(f, wf), gVerdict(m, wm))
		}
		if c.Invert {
			k = !k
		}
		kept[i] = k
	}
	return kept, why, nil
}

func gVerdict(ok bool, why string) string {
	if ok {
		return "satisfies every criterion"
	}
	return "fails " + why
}

func (c *grepCase) ext() string {
	if c.Fastq {
		return ".fastq"
	}
	return ".fasta"
}

func init() { evid.Reg("grep", checkGrep) }

func checkGrep(c grepCase) error {
	if c.Mates != nil && len(c.Mates) != len(c.Recs) {
		return fmt.Errorf("harness: %d mates for %d reads", len(c.Mates), len(c.Recs))
	}
	if c.Tree != nil {
		if err := c.Tree.Validate(); err != nil {
			return fmt.Errorf("harness: %v", err)
		}
	}
	kept, why, err := c.expected()
	if err != nil {
		return err
	}
	dir, err := os.MkdirTemp(run.WorkDir(), "c16grep")
	if err != nil {
		return fmt.Errorf("harness: %v", err)
	}
	defer os.RemoveAll(dir)
	write := func(name string, data []byte) error {
		return os.WriteFile(filepath.Join(dir, name), data, 0o644)
	}
	in := "in" + c.ext()
	if err := write(in, gRender(c.Recs, c.Fastq)); err != nil {
		return fmt.Errorf("harness: %v", err)
	}
	args := gParallelArgs(c.MaxCPU, c.Batch)
	if c.Tree != nil {
		if err := os.Mkdir(filepath.Join(dir, "tax"), 0o755); err != nil {
			return fmt.Errorf("harness: %v", err)
		}
		nodes, names, merged := c.Tree.NCBIDump(ref.DumpStyle{})
		for n, body := range map[string]string{"nodes.dmp": nodes, "names.dmp": names, "merged.dmp": merged} {
			if err := write(filepath.Join("tax", n), []byte(body)); err != nil {
				return fmt.Errorf("harness: %v", err)
			}
		}
		args = append(args, "-t", "tax")
	}
	if c.ApproxModsFirst {
		args = append(args, c.approxArgs()...)
	}
	for _, o := range c.Opts {
		name := o.Name
		if o.Long {
			name = gLongName[o.Name]
		}
		switch o.Name {
		case "-p":
			args = append(args, name, o.Expr.render())
		case "--id-list":
			body := strings.Join(c.IDList, "\n")
			if !c.IDListNoEOL && len(c.IDList) > 0 {
				body += "\n"
			}
			if err := write("ids.txt", []byte(body)); err != nil {
				return fmt.Errorf("harness: %v", err)
			}
			args = append(args, name, "ids.txt")
		default:
			args = append(args, name, o.Val)
		}
	}
	if !c.ApproxModsFirst {
		args = append(args, c.approxArgs()...)
	}
	if c.Invert {
		if c.InvertLong {
			args = append(args, "--inverse-match")
		} else {
			args = append(args, "-v")
		}
	}
	if c.Mates != nil {
		if err := write("mates"+c.ext(), gRender(c.Mates, c.Fastq)); err != nil {
			return fmt.Errorf("harness: %v", err)
		}
		args = append(args, "--paired-with", "mates"+c.ext())
	}
	if c.PairedMode != "" {
		args = append(args, "--paired-mode", c.PairedMode)
	}
	if c.SaveDiscarded {
		args = append(args, "--save-discarded", "disc"+c.ext())
	}
	toFile := c.OutFile || c.Mates != nil
	if toFile {
		args = append(args, "-o", "out"+c.ext())
	}
	args = append(args, in)
	cmd := "obigrep " + gQuote(args)

	res, ok := gRun(dir, "obigrep", args)
	if !ok {
		return nil
	}
	if res.Exit != 0 {
		return fmt.Errorf("%s exits %d on well-formed input and options\nstderr: %s", cmd, res.Exit, gShort(res.Stderr))
	}

	var wantSel, wantDisc, wantSelM, wantDiscM []gRec
	for i, r := range c.Recs {
		if kept[i] {
			wantSel = append(wantSel, r)
			if c.Mates != nil {
				wantSelM = append(wantSelM, c.Mates[i])
			}
		} else {
			wantDisc = append(wantDisc, r)
			if c.Mates != nil {
				wantDiscM = append(wantDiscM, c.Mates[i])
			}
		}
	}
	explain := func(err error) error {
		var sb strings.Builder
		for i, r := range c.Recs {
			v := "rejected"
			if kept[i] {
				v = "selected"
			}
			w := why[i]
			if w == "" {
				w = "satisfies every criterion"
			} else if c.Mates == nil {
				w = "fails " + w
			}
			fmt.Fprintf(&sb, "\n  %s: %s (%s)", r.ID, v, w)
		}
		return fmt.Errorf("%s\n%v\nreference interpreter:%s\nstderr: %s", cmd, err, sb.String(), gShort(res.Stderr))
	}
	read := func(name string) ([]gOut, bool, error) {
		recs, exists, err := gReadFile(filepath.Join(dir, name))
		if err != nil {
			return nil, exists, fmt.Errorf("%s is unreadable: %v", name, err)
		}
		return recs, exists, nil
	}

	// ---- selected records
	if c.Mates == nil {
		var got []gOut
		what := "standard output"
		if toFile {
			what = "out" + c.ext()
			got, _, err = read(what)
			if err == nil && len(res.Stdout) != 0 {
				err = fmt.Errorf("-o is given, yet %d bytes were written on the standard output", len(res.Stdout))
			}
		} else {
			got, err = gParse(res.Stdout)
			if err != nil {
				err = fmt.Errorf("standard output is unreadable: %v\n%s", err, gShort(res.Stdout))
			}
		}
		if err != nil {
			return explain(err)
		}
		if err := gSameList(what+" (selected records)", wantSel, got); err != nil {
			return explain(err)
		}
	} else {
		r1, _, err := read("out_R1" + c.ext())
		if err != nil {
			return explain(err)
		}
		r2, _, err := read("out_R2" + c.ext())
		if err != nil {
			return explain(err)
		}
		if len(r1) != len(r2) {
			return explain(fmt.Errorf("out_R1 holds %d records, out_R2 holds %d: the mates are no longer at the same rank", len(r1), len(r2)))
		}
		if err := gSameList("out_R1 (selected forward reads)", wantSel, r1); err != nil {
			return explain(err)
		}
		if err := gSameList("out_R2 (mates of the selected forward reads, same ranks)", wantSelM, r2); err != nil {
			return explain(err)
		}
	}

	// ---- discarded records: the exact complement
	if c.SaveDiscarded {
		if c.Mates == nil {
			got, _, err := read("disc" + c.ext())
			if err != nil {
				return explain(err)
			}
			if err := gSameList("--save-discarded file (records not selected)", wantDisc, got); err != nil {
				return explain(err)
			}
		} else {
			d1, _, err := read("disc_R1" + c.ext())
			if err != nil {
				return explain(err)
			}
			d2, _, err := read("disc_R2" + c.ext())
			if err != nil {
				return explain(err)
			}
			if len(d1) != len(d2) {
				return explain(fmt.Errorf("disc_R1 holds %d records, disc_R2 holds %d: the mates are no longer at the same rank", len(d1), len(d2)))
			}
			if err := gSameList("disc_R1 (forward reads not selected)", wantDisc, d1); err != nil {
				return explain(err)
			}
			if err := gSameList("disc_R2 (mates of the forward reads not selected)", wantDiscM, d2); err != nil {
				return explain(err)
			}
		}
	}
	return nil
}

// gGrepClasses labels a case for the evidence histogram and says whether it is
// non-trivial: at least two options given (selection options, -v, --save-discarded,
// paired mode) and the selection is neither empty nor total.
func gGrepClasses(c *grepCase) (bool, []string) {
	kept, _, err := c.expected()
	if err != nil {
		return false, []string{"grep:harness_error"}
	}
	n := 0
	for _, k := range kept {
		if k {
			n++
		}
	}
	sel := "some"
	switch {
	case n == 0:
		sel = "none"
	case n == len(kept):
		sel = "all"
	}
	cl := []string{"grep:plan:" + strings.SplitN(c.Plan, ":", 2)[0], "grep:selection:" + sel,
		fmt.Sprintf("grep:n_options:%d", min(len(c.Opts), 7)), fmt.Sprintf("grep:max_cpu:%d", c.MaxCPU), fmt.Sprintf("grep:batch_size:%d", c.Batch)}
	seen := map[string]int{}
	for _, o := range c.Opts {
		seen[o.Name]++
	}
	names := make([]string, 0, len(seen))
	for k := range seen {
		names = append(names, k)
	}
	sort.Strings(names)
	for _, k := range names {
		cl = append(cl, "grep:option:"+k)
		if seen[k] > 1 {
			cl = append(cl, "grep:repeated:"+k)
		}
	}
	if len(names) == 2 && len(c.Opts) == 2 {
		cl = append(cl, "grep:pair:"+names[0]+"+"+names[1])
	}
	nopt := len(c.Opts)
	if c.Invert {
		cl = append(cl, "grep:invert")
		nopt++
	}
	if c.SaveDiscarded {
		cl = append(cl, "grep:save_discarded")
		nopt++
		if c.Invert {
			cl = append(cl, "grep:invert+save_discarded")
		}
	}
	if c.Mates != nil {
		mode := c.PairedMode
		if mode == "" {
			mode = "default"
		}
		cl = append(cl, "grep:paired:"+mode)
		if c.Invert {
			cl = append(cl, "grep:paired_invert:"+mode)
		}
		if c.SaveDiscarded {
			cl = append(cl, "grep:paired_save_discarded")
		}
		nopt++
	}
	if c.Fastq {
		cl = append(cl, "grep:fastq")
	}
	if c.OutFile {
		cl = append(cl, "grep:out_file")
	}
	if c.hasApprox() { // the modifiers count as options given
		_, acl := gApproxLabels(c)
		cl = append(cl, acl...)
		nopt += len(c.approxArgs())
	}
	return nopt >= 2 && sel == "some", cl
}
