package c16

// obigrep --approx-pattern with its three modifiers --pattern-error,
// --allows-indels and --only-forward: the reference model of the criterion, the
// pattern generators and TestGrepApprox (records whose lengths lie around the
// pattern length).
//
// What the criterion means (obigrep --help: "--pattern-error: Maximum number of
// allowed error during pattern matching", "--allows-indels: Allows for indel
// during pattern matching", "--only-forward: Look for pattern only on forward
// strand"; Release-notes.md: "By default considered errors are mismatched, this
// flag allows for indels ... If no match is found on direct strand then pattern
// is looked for on the reverse complemented strand"; pattern grammar documented
// at obiapat.MakeApatPattern: IUPAC letters, [..] classes, !x negation, x# =
// position where no error is tolerated, either case):
//
//	a record satisfies `--approx-pattern P` when some substring of its sequence
//	is within --pattern-error errors of P: mismatches only (so the substring has
//	as many nucleotides as P has positions) without --allows-indels, mismatches,
//	insertions and deletions (unit-cost edit distance) with it; on the sequence
//	as written, or - unless --only-forward - on its reverse complement
//	(equivalently: the reverse-complemented pattern on the sequence).  Several
//	--approx-pattern all apply, with the same modifiers.
//
// This is the model harness/c10 validates against the matcher itself
// (Sellers' dynamic programme / brute-force Hamming scan, both written here or
// in internal/ref without any obitools4 code).
//
// Domain decisions
//   - With --allows-indels a record may be SHORTER than the pattern and still
//     match through deletions (pattern of 8, 1 error: a record of 7).  The C10
//     known finding key=indel_seq_not_longer_than_pattern (log.Panicf in
//     obialign.LocatePattern when the sequence is not longer than the pattern)
//     concerns the re-aligning entry points AllMatches / BestMatch only; the
//     predicate behind obigrep (obiapat.IsPatternMatchSequence -> IsMatching) does
//     not re-align and was observed not to panic on the unchanged tree for any
//     record length from 1 to beyond the pattern length, so no record shape is
//     kept out of the generator for that reason.  (obiannotate --pattern, which
//     re-aligns, is not exercised here.)
//   - A pattern has 1..63 positions (64: C10 known finding patlen64, never
//     matches; more: undocumented).  With --allows-indels the number of errors is
//     kept below the number of positions (otherwise the empty substring matches)
//     and no position is marked '#' (the statement of an obligatory position under
//     edit distance is not documented).  Without indels the number of errors may
//     reach or exceed the number of positions (then every record at least as long
//     as the pattern matches).
//   - The records of a case that uses --approx-pattern are over acgt (what an
//     ambiguity letter of the READ matches is C10's subject).  ![..], !!x, letters
//     that are not nucleotide codes are not generated in patterns.
//   - Sequences have at least one nucleotide (as everywhere in this package).

import (
	"fmt"
	"sort"
	"strconv"
	"strings"
	"testing"

	"pgregory.net/rapid"

	"verifharness/internal/evid"
	"verifharness/internal/gen"
	"verifharness/internal/ref"
)

const gApproxOpt = "--approx-pattern"

func init() {
	evid.Tests(
		evid.Spec{Name: "TestGrepApprox", Kind: "rapid", Quick: 960, Thorough: 24000, QuickShards: 8, ThoroughShards: 16},
	)
	ruleParts["grep_approx"] = "--approx-pattern (repeatable) with --pattern-error 0..3, --allows-indels, --only-forward belongs to the option set of TestGrepEveryPair (alone, paired with every other option, twice), " +
		"TestGrepSubsets, TestGrepPaired and TestAnnotateSelected: there the pattern is read off a record (a piece of it, the whole record, the whole record plus 1..errors+1 inserted letters so that the record is shorter than the pattern, " +
		"0..errors+1 edits, either strand, IUPAC letters / [..] classes / !x / x# drawn over it). " +
		"TestGrepApprox: 1-3 patterns of errors+1..63 positions (lengths around 2-16 and the word boundaries 31-33, 62, 63) over drawn templates; 4-12 records (and mates) each built from a template: " +
		"errors-1..errors+2 edits (substitutions, insertions, deletions in both modes) without flanks (record length = pattern length -e..+e), the same between flanks of 0-8 nucleotides, " +
		"the template truncated by 1..errors+1 nucleotides at either end, copies of every template in one record, random records of pattern length -errors-1..+errors+1, records of 1-3 nucleotides; one record in three reverse-complemented; " +
		"0-2 other selection options (values read off the records, -l / -L hence around the pattern length), -v, --save-discarded, -o, paired inputs with the six modes, --max-cpu, --batch-size as in TestGrepSubsets; " +
		"the modifiers are written before or after the patterns, --pattern-error 0 explicitly or not. " +
		"Oracle: the reference interpreter, where a record satisfies a pattern when the minimal number of errors (Hamming scan over the windows of pattern length honouring '#', or Sellers' edit-distance programme with --allows-indels) " +
		"of the pattern or - unless --only-forward - of its reverse complement against the sequence is at most --pattern-error; comparison of stdout / -o / --save-discarded / R1 / R2 files as in TestGrepSubsets. " +
		"Non-trivial (TestGrepApprox): the selection is neither empty nor total and some record (or mate) is borderline for some pattern: its minimal number of errors over the strands searched is --pattern-error or --pattern-error+1."
}

// ------------------------------------------------------------------ the model

// gApprox holds the three modifiers shared by every --approx-pattern of a command line.
type gApprox struct {
	Err         int
	Indels      bool
	OnlyForward bool
}

// aPos is one position of a parsed pattern: the set of bases (A=1,C=2,G=4,T=8)
// of the letters written there, negated or not, obligatory (#) or not.
type aPos struct {
	Bases uint8
	Neg   bool
	Oblig bool
}

// match: does the position accept the nucleotide c (a, c, g or t) of a read?
func (p aPos) match(c byte) bool {
	s := ref.IUPACSet(c)
	if s == 0 || s&(s-1) != 0 {
		return p.Neg // not one of the four bases: outside every plain set
	}
	return (p.Bases&s != 0) != p.Neg
}

// gApproxParse reads the grammar documented at MakeApatPattern:
// position := ['!'] letter ['#'] | '[' letter+ ']' ['#'].
func gApproxParse(p string) ([]aPos, error) {
	var out []aPos
	i := 0
	for i < len(p) {
		var q aPos
		if p[i] == '!' {
			q.Neg = true
			i++
			if i >= len(p) || ref.IUPACSet(p[i]) == 0 {
				return nil, fmt.Errorf("harness: pattern %q: '!' is not followed by a nucleotide code", p)
			}
		}
		if p[i] == '[' {
			i++
			n := 0
			for i < len(p) && p[i] != ']' {
				s := ref.IUPACSet(p[i])
				if s == 0 {
					return nil, fmt.Errorf("harness: pattern %q: %q is not a nucleotide code", p, p[i])
				}
				q.Bases |= s
				n++
				i++
			}
			if i >= len(p) || n == 0 {
				return nil, fmt.Errorf("harness: pattern %q: bad class", p)
			}
			i++
		} else {
			s := ref.IUPACSet(p[i])
			if s == 0 {
				return nil, fmt.Errorf("harness: pattern %q: %q is not a nucleotide code", p, p[i])
			}
			q.Bases = s
			i++
		}
		if i < len(p) && p[i] == '#' {
			q.Oblig = true
			i++
		}
		out = append(out, q)
	}
	if len(out) == 0 {
		return nil, fmt.Errorf("harness: empty pattern")
	}
	if len(out) > 63 {
		return nil, fmt.Errorf("harness: pattern %q has %d positions (1..63 are generated)", p, len(out))
	}
	return out, nil
}

// gApproxRevcomp: the pattern that accepts the reverse complements of what pp
// accepts: positions in reverse order, bases complemented, marks kept.
func gApproxRevcomp(pp []aPos) []aPos {
	out := make([]aPos, len(pp))
	for i, p := range pp {
		q := p
		q.Bases = 0
		for b, cb := range [4]uint8{8, 4, 2, 1} { // A<->T, C<->G
			if p.Bases&(1<<b) != 0 {
				q.Bases |= cb
			}
		}
		out[len(pp)-1-i] = q
	}
	return out
}

const gApproxNever = 1 << 20

// gApproxDist: the minimal number of errors of an occurrence of pp in seq
// (gApproxNever: no occurrence whatever the budget).  Without indels: windows of
// len(pp) nucleotides, mismatches counted, none at an obligatory position.
// With indels: unit-cost edit distance between the pattern and the closest
// substring (Sellers), the empty substring included.
func gApproxDist(pp []aPos, seq string, indels bool) int {
	if indels {
		ends := ref.SellersEnds(strings.Repeat("x", len(pp)), seq, func(pi int, c byte) bool { return pp[pi].match(c) })
		best := ends[0]
		for _, d := range ends {
			best = min(best, d)
		}
		return best
	}
	best := gApproxNever
	for st := 0; st+len(pp) <= len(seq); st++ {
		d := 0
		for i, p := range pp {
			if !p.match(seq[st+i]) {
				if p.Oblig {
					d = gApproxNever
					break
				}
				d++
			}
		}
		best = min(best, d)
	}
	return best
}

// dist: minimal number of errors over the strands the options search.
func (a gApprox) dist(pp []aPos, seq string) (fwd, rev int) {
	fwd = gApproxDist(pp, seq, a.Indels)
	rev = gApproxNever
	if !a.OnlyForward {
		rev = gApproxDist(gApproxRevcomp(pp), seq, a.Indels)
	}
	return fwd, rev
}

// matches: the verdict of `--approx-pattern pattern` on a sequence.
func (a gApprox) matches(pattern, seq string) (bool, error) {
	pp, err := gApproxParse(pattern)
	if err != nil {
		return false, err
	}
	if a.Indels {
		if a.Err >= len(pp) {
			return false, fmt.Errorf("harness: %d errors with indels for the %d positions of %q (Domain decisions)", a.Err, len(pp), pattern)
		}
		for _, p := range pp {
			if p.Oblig {
				return false, fmt.Errorf("harness: pattern %q marks an obligatory position and indels are allowed (Domain decisions)", pattern)
			}
		}
	}
	for i := 0; i < len(seq); i++ {
		if s := ref.IUPACSet(seq[i]); s == 0 || s&(s-1) != 0 {
			return false, fmt.Errorf("harness: --approx-pattern on the sequence %q which is not over acgt (Domain decisions)", seq)
		}
	}
	fwd, rev := a.dist(pp, seq)
	return min(fwd, rev) <= a.Err, nil
}

func (a gApprox) describe() string {
	s := "--pattern-error " + strconv.Itoa(a.Err)
	if a.Indels {
		s += " --allows-indels"
	}
	if a.OnlyForward {
		s += " --only-forward"
	}
	return s
}

// ------------------------------------------------------------------ the command line

func (c *grepCase) approx() gApprox {
	return gApprox{Err: c.PatErr, Indels: c.Indels, OnlyForward: c.OnlyForward}
}

func (c *grepCase) hasApprox() bool {
	for _, o := range c.Opts {
		if o.Name == gApproxOpt {
			return true
		}
	}
	return false
}

// approxArgs: the modifiers as written on the command line.
func (c *grepCase) approxArgs() []string {
	var args []string
	if c.PatErr != 0 || c.PatErrZero {
		args = append(args, "--pattern-error", strconv.Itoa(c.PatErr))
	}
	if c.Indels {
		args = append(args, "--allows-indels")
	}
	if c.OnlyForward {
		args = append(args, "--only-forward")
	}
	return args
}

// ------------------------------------------------------------------ pattern generators

// ambiguity letters that contain each base (a c g t), and the other bases
var gAmbigWith = map[byte]string{'a': "rmwdhvn", 'c': "ymsbhvn", 'g': "rksbdvn", 't': "ykwbdhn"}

// gPatternOver writes a pattern every position of which accepts the letter of
// tmpl (over acgt) at that position: the letter itself, or - one position in
// `rate` - an ambiguity letter containing it, a class containing it, the
// negation of another base, or the letter marked obligatory (oblig allowed).
func gPatternOver(rt *rapid.T, label, tmpl string, rate int, oblig bool) string {
	var sb strings.Builder
	upper := rapid.IntRange(0, 2).Draw(rt, label+"_case") // 0 lower, 1 upper, 2 mixed
	for i := 0; i < len(tmpl); i++ {
		b := tmpl[i]
		var pos string
		kind := 0
		if rate > 0 && rapid.IntRange(0, rate-1).Draw(rt, label+"_decorated") == 0 {
			kind = rapid.IntRange(1, 4).Draw(rt, label+"_decoration")
		}
		switch kind {
		case 1:
			amb := gAmbigWith[b]
			pos = string(amb[rapid.IntRange(0, len(amb)-1).Draw(rt, label+"_ambiguity")])
		case 2:
			others := strings.ReplaceAll("acgtry", string(b), "")
			k := rapid.IntRange(1, 2).Draw(rt, label+"_class_size")
			set := []byte{b}
			for j := 0; j < k; j++ {
				set = append(set, others[rapid.IntRange(0, len(others)-1).Draw(rt, label+"_class_letter")])
			}
			if rapid.Bool().Draw(rt, label+"_class_order") {
				set[0], set[len(set)-1] = set[len(set)-1], set[0]
			}
			pos = "[" + string(set) + "]"
		case 3:
			others := strings.ReplaceAll("acgt", string(b), "")
			pos = "!" + string(others[rapid.IntRange(0, 2).Draw(rt, label+"_negated")])
		case 4:
			pos = string(b)
			if oblig {
				pos += "#"
			}
		default:
			pos = string(b)
		}
		switch upper {
		case 1:
			pos = strings.ToUpper(pos)
		case 2:
			if rapid.Bool().Draw(rt, label+"_upper_here") {
				pos = strings.ToUpper(pos)
			}
		}
		sb.WriteString(pos)
	}
	return sb.String()
}

// gFitTemplate brings a template to a length a pattern may have under the
// modifiers: at most 63 positions, more positions than errors when indels are allowed.
func gFitTemplate(rt *rapid.T, label, tmpl string, a gApprox) string {
	if len(tmpl) > 63 {
		tmpl = tmpl[:63]
	}
	minLen := 1
	if a.Indels {
		minLen = a.Err + 1
	}
	for len(tmpl) < minLen {
		tmpl += string("acgt"[rapid.IntRange(0, 3).Draw(rt, label+"_pad")])
	}
	return tmpl
}

// gEditKinds: which elementary edits a generated copy receives.  Both modes see
// the three kinds: without --allows-indels an inserted or deleted letter must
// make the copy miss (unless the budget of mismatches absorbs the shift).
func gEditKinds(rt *rapid.T, label string, indels bool) string {
	if indels {
		return rapid.SampledFrom([]string{"sid", "d", "i", "id", "s", "sid"}).Draw(rt, label)
	}
	return rapid.SampledFrom([]string{"s", "s", "sid", "d", "s", "i"}).Draw(rt, label)
}

// approxPattern draws the value of --approx-pattern from a record of the case
// (general generator): a piece of the record, the whole record (record exactly
// as long as the pattern), the whole record with 1..errors+1 letters inserted
// (record SHORTER than the pattern: it can only match through deletions), a
// short random word; then 0..errors+1 edits, either strand, light decoration.
func (x *gOptCtx) approxPattern(rt *rapid.T, a gApprox) string {
	p := x.pivot(rt)
	whole := p.Seq
	if len(whole) > 40 {
		whole = whole[:40]
	}
	var tmpl string
	switch rapid.IntRange(0, 6).Draw(rt, "ap_kind") {
	case 0, 1:
		tmpl = gSub(rt, p.Seq, 12)
	case 2:
		tmpl = whole
	case 3, 4:
		n := rapid.IntRange(1, a.Err+1).Draw(rt, "ap_longer_by")
		tmpl, _ = gen.Mutate(rt, "ap_longer", whole, n, "acgt", "i")
	case 5:
		tmpl = gen.Seq(rt, "ap_word", rapid.IntRange(2, 5).Draw(rt, "ap_word_len"), "acgt")
	default:
		tmpl = gSub(rt, p.Seq, 30)
	}
	if e := rapid.SampledFrom([]int{0, 0, a.Err, a.Err + 1, max(0, a.Err-1), 1}).Draw(rt, "ap_edits"); e > 0 {
		tmpl, _ = gen.Mutate(rt, "ap_edit", tmpl, e, "acgt", gEditKinds(rt, "ap_edit_kinds", a.Indels))
	}
	if rapid.IntRange(0, 3).Draw(rt, "ap_reverse") == 0 {
		tmpl = ref.RevComp(tmpl)
	}
	tmpl = gFitTemplate(rt, "ap_fit", tmpl, a)
	return gPatternOver(rt, "ap_pat", tmpl, 6, !a.Indels)
}

// gDrawApproxMods draws the three modifiers and how they are written.
func gDrawApproxMods(rt *rapid.T, c *grepCase) {
	c.PatErr = rapid.SampledFrom([]int{1, 0, 2, 1, 3, 2}).Draw(rt, "pattern_error")
	c.Indels = rapid.IntRange(0, 2).Draw(rt, "allows_indels") > 0
	c.OnlyForward = rapid.IntRange(0, 2).Draw(rt, "only_forward") == 0
	c.PatErrZero = c.PatErr == 0 && rapid.Bool().Draw(rt, "pattern_error_0_written")
	c.ApproxModsFirst = rapid.Bool().Draw(rt, "modifiers_first")
}

// ------------------------------------------------------------------ TestGrepApprox

var gApproxPatLens = []int{8, 6, 4, 12, 5, 3, 10, 16, 2, 7, 20, 9, 32, 31, 33, 1, 63, 62, 40}

// gApproxExtraKinds: the other selection options TestGrepApprox combines with
// the approximate patterns (the taxonomic ones need a dump: left to the other tests).
var gApproxExtraKinds = []string{"-l", "-L", "-s", "-I", "-c", "-C", "-A", "-a", "-D", "-p", "--id-list"}

func genGrepApproxCase(rt *rapid.T) grepCase {
	c := grepCase{Plan: "approx"}
	gDrawApproxMods(rt, &c)
	a := c.approx()

	// ---- the patterns and the templates they are written over
	npat := rapid.SampledFrom([]int{1, 1, 2, 1, 2, 3}).Draw(rt, "n_patterns")
	var tmpls []string
	kinds := []string{}
	for i := 0; i < npat; i++ {
		n := rapid.SampledFrom(gApproxPatLens).Draw(rt, "pattern_len")
		if i > 0 { // several long probes in one read make long reads: the next ones stay short
			n = min(n, 12)
		}
		if a.Indels {
			n = max(n, a.Err+1)
		}
		tmpls = append(tmpls, gDrawSeq(rt, "template", n, false))
		kinds = append(kinds, gApproxOpt)
	}
	nextra := rapid.SampledFrom([]int{0, 1, 0, 2, 1}).Draw(rt, "n_other_options")
	seen := map[string]bool{}
	for len(kinds) < npat+nextra {
		k := rapid.SampledFrom(gApproxExtraKinds).Draw(rt, "other_option")
		if seen[k] && !gRepeatable[k] {
			continue
		}
		seen[k] = true
		kinds = append(kinds, k)
	}
	if rapid.Bool().Draw(rt, "options_interleaved") {
		kinds = rapid.Permutation(kinds).Draw(rt, "option_order")
	}

	// ---- the records
	paired := rapid.IntRange(0, 4).Draw(rt, "paired") == 0
	c.Fastq = rapid.IntRange(0, 2).Draw(rt, "fastq") == 0
	ctx := gRecCtx{fastq: c.Fastq}
	for _, k := range gUniKeys {
		if rapid.Bool().Draw(rt, "uni_"+k) {
			ctx.uni = append(ctx.uni, k)
		}
	}
	ctx.lens = []int{4, 4} // the sequence is replaced below
	nrec := rapid.SampledFrom([]int{6, 4, 8, 5, 10, 7, 12}).Draw(rt, "n_records")
	if evid.Thorough() && rapid.IntRange(0, 3).Draw(rt, "many_records") == 0 {
		nrec = rapid.IntRange(13, 40).Draw(rt, "n_records_large")
	}
	flank := func(label string) string {
		return gen.Seq(rt, label, rapid.SampledFrom([]int{0, 1, 3, 2, 8, 5}).Draw(rt, label+"_len"), "acgt")
	}
	copyOf := func(t string) string { // a copy of a template with around --pattern-error edits
		e := max(0, a.Err+rapid.SampledFrom([]int{0, 1, -1, 0, 1, 2}).Draw(rt, "edits"))
		out, _ := gen.Mutate(rt, "edit", t, e, "acgt", gEditKinds(rt, "edit_kinds", a.Indels))
		return out
	}
	seqOf := func() string {
		t := tmpls[rapid.IntRange(0, len(tmpls)-1).Draw(rt, "which_template")]
		var s string
		switch rapid.SampledFrom([]int{0, 2, 1, 0, 3, 2, 5, 1, 4}).Draw(rt, "shape") {
		case 0: // an edited copy and nothing else: length = pattern length -e..+e
			s = copyOf(t)
		case 1: // an edited copy between flanks
			s = flank("left") + copyOf(t) + flank("right")
		case 2: // the template without its first / last nucleotides (deletions at the ends)
			d := rapid.IntRange(1, a.Err+1).Draw(rt, "truncated_by")
			left := rapid.IntRange(0, d).Draw(rt, "truncated_left")
			if len(t) > d {
				s = t[left : len(t)-(d-left)]
			}
			if rapid.IntRange(0, 3).Draw(rt, "truncated_flank") == 0 { // the missing end replaced by other nucleotides
				s = s + flank("right")
			}
		case 3: // unrelated, of about the pattern length
			s = gDrawSeq(rt, "random", max(1, len(t)+rapid.IntRange(-a.Err-1, a.Err+1).Draw(rt, "random_len_delta")), false)
		case 4: // almost empty
			s = gen.Seq(rt, "tiny", rapid.IntRange(1, 3).Draw(rt, "tiny_len"), "acgt")
		default: // a copy of every template
			s = flank("left")
			for _, j := range rapid.Permutation(idxRange(len(tmpls))).Draw(rt, "template_order") {
				s += copyOf(tmpls[j]) + flank("between")
			}
		}
		if s == "" {
			s = string(t[0])
		}
		if rapid.IntRange(0, 2).Draw(rt, "reverse_strand") == 0 {
			s = ref.RevComp(s)
		}
		return s
	}
	mk := func(id string) gRec {
		r := gDrawRec(rt, &ctx, id)
		s := seqOf()
		if c.Fastq { // qualities of the new length
			q := make([]byte, len(s))
			for i := range q {
				q[i] = "!+5?I"[rapid.IntRange(0, 4).Draw(rt, "q")]
			}
			r.Qual = string(q)
		}
		r.Seq = s
		return r
	}
	for i := 0; i < nrec; i++ {
		base := rapid.StringOfN(rapid.SampledFrom([]rune("ab1")), 1, 3, -1).Draw(rt, "id_base")
		id := base + "_" + strconv.Itoa(i)
		c.Recs = append(c.Recs, mk(id))
		if paired {
			c.Mates = append(c.Mates, mk(id))
		}
	}

	// ---- option values
	x := gOptCtx{pool: append(append([]gRec{}, c.Recs...), c.Mates...), uni: ctx.uni}
	usedA := map[string]bool{}
	ti := 0
	for _, k := range kinds {
		if k == gApproxOpt {
			rate := rapid.SampledFrom([]int{0, 8, 4, 0, 12}).Draw(rt, "decoration_rate")
			c.Opts = append(c.Opts, gOpt{Name: k, Val: gPatternOver(rt, "pattern", tmpls[ti], rate, !a.Indels)})
			ti++
			continue
		}
		if o, ok := x.optValue(rt, &c, k, usedA); ok {
			c.Opts = append(c.Opts, o)
		}
	}

	// ---- the rest of the command line (as genGrepCase)
	if rapid.IntRange(0, 2).Draw(rt, "invert") == 0 {
		c.Invert = true
		c.InvertLong = rapid.IntRange(0, 3).Draw(rt, "invert_long") == 0
	}
	c.SaveDiscarded = rapid.IntRange(0, 2).Draw(rt, "save_discarded") == 0
	if paired {
		c.PairedMode = rapid.SampledFrom(append([]string{""}, gPairedModes...)).Draw(rt, "paired_mode")
	} else {
		c.OutFile = rapid.IntRange(0, 4).Draw(rt, "out_file") == 0
	}
	c.MaxCPU = rapid.SampledFrom(gMaxCPUs).Draw(rt, "max_cpu")
	c.Batch = rapid.SampledFrom(gBatches).Draw(rt, "batch_size")
	return c
}

func idxRange(n int) []int {
	out := make([]int, n)
	for i := range out {
		out[i] = i
	}
	return out
}

// gApproxLabels: classes of a case that uses --approx-pattern, and whether some
// record is borderline (minimal number of errors = budget or budget+1).
func gApproxLabels(c *grepCase) (borderline bool, cl []string) {
	if !c.hasApprox() {
		return false, nil
	}
	a := c.approx()
	set := map[string]bool{}
	set[fmt.Sprintf("approx:pattern_error:%d", a.Err)] = true
	if a.Indels {
		set["approx:allows_indels"] = true
		set[fmt.Sprintf("approx:indels_error:%d", a.Err)] = true
	} else {
		set["approx:mismatches_only"] = true
	}
	if a.OnlyForward {
		set["approx:only_forward"] = true
	} else {
		set["approx:both_strands"] = true
	}
	if c.PatErrZero {
		set["approx:pattern_error_0_written"] = true
	}
	np := 0
	for _, o := range c.Opts {
		if o.Name != gApproxOpt {
			continue
		}
		np++
		pp, err := gApproxParse(o.Val)
		if err != nil {
			return false, []string{"grep:harness_error"}
		}
		switch n := len(pp); {
		case n <= a.Err:
			set["approx:patlen<=errors"] = true
		case n <= 3:
			set["approx:patlen:1-3"] = true
		case n <= 16:
			set["approx:patlen:4-16"] = true
		case n <= 30:
			set["approx:patlen:17-30"] = true
		case n <= 33:
			set["approx:patlen:31-33"] = true
		case n <= 61:
			set["approx:patlen:34-61"] = true
		default:
			set["approx:patlen:62-63"] = true
		}
		for _, p := range pp {
			if p.Neg {
				set["approx:pattern:negated_position"] = true
			}
			if p.Oblig {
				set["approx:pattern:obligatory_position"] = true
			}
			if p.Bases&(p.Bases-1) != 0 {
				set["approx:pattern:ambiguity_or_class"] = true
			}
		}
		if o.Val != strings.ToLower(o.Val) {
			set["approx:pattern:upper_case"] = true
		}
		for _, r := range append(append([]gRec{}, c.Recs...), c.Mates...) {
			fwd, rev := a.dist(pp, r.Seq)
			d := min(fwd, rev)
			ok := d <= a.Err
			if d == a.Err || d == a.Err+1 {
				borderline = true
			}
			if d == a.Err {
				set["approx:errors=budget"] = true
			}
			if d == a.Err+1 {
				set["approx:errors=budget+1"] = true
			}
			switch {
			case len(r.Seq) < len(pp) && ok:
				set["approx:record_shorter_than_pattern:matches"] = true
				if len(r.Seq) == len(pp)-a.Err {
					set["approx:record_of_patlen-errors:matches"] = true
				}
			case len(r.Seq) < len(pp):
				set["approx:record_shorter_than_pattern:misses"] = true
			case len(r.Seq) == len(pp) && ok:
				set["approx:record_of_pattern_length:matches"] = true
			case len(r.Seq) == len(pp):
				set["approx:record_of_pattern_length:misses"] = true
			case len(r.Seq) <= len(pp)+a.Err && ok:
				set["approx:record_up_to_errors_longer:matches"] = true
			}
			if ok && fwd > a.Err {
				set["approx:matches_on_reverse_strand_only"] = true
			}
			if a.OnlyForward && !ok && gApproxDist(gApproxRevcomp(pp), r.Seq, a.Indels) <= a.Err {
				set["approx:only_forward_rejects_reverse_match"] = true
			}
			if !a.Indels && !ok {
				if f, rv := (gApprox{Err: a.Err, Indels: true, OnlyForward: a.OnlyForward}).dist(pp, r.Seq); a.Err < len(pp) && min(f, rv) <= a.Err {
					set["approx:mismatches_only_rejects_indel_match"] = true
				}
			}
			if a.Indels && ok {
				if f, rv := (gApprox{Err: a.Err, OnlyForward: a.OnlyForward}).dist(pp, r.Seq); min(f, rv) > a.Err {
					set["approx:matches_through_indels_only"] = true
				}
			}
		}
	}
	set[fmt.Sprintf("approx:n_patterns:%d", min(np, 3))] = true
	if c.Invert {
		set["approx:invert"] = true
	}
	if c.SaveDiscarded {
		set["approx:save_discarded"] = true
	}
	if c.Mates != nil {
		set["approx:paired"] = true
	}
	for k := range set {
		cl = append(cl, k)
	}
	sort.Strings(cl)
	return borderline, cl
}

func TestGrepApprox(t *testing.T) {
	rapid.Check(t, func(rt *rapid.T) {
		c := genGrepApproxCase(rt)
		nontrivial, classes := gGrepClasses(&c) // includes the approx: labels
		borderline, _ := gApproxLabels(&c)
		evid.Eval("grep", c.key(), nontrivial && borderline, c, classes...)
		if err := checkGrep(c); err != nil {
			evid.Fail(rt, "grep", c, err)
		}
	})
}
