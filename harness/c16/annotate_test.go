package c16

import (
	"encoding/json"
	"fmt"
	"os"
	"path/filepath"
	"strings"
	"testing"

	"pgregory.net/rapid"

	"verifharness/internal/evid"
	"verifharness/internal/run"
)

func init() {
	evid.Tests(
		evid.Spec{Name: "TestAnnotateEveryPair", Kind: "plain", QuickShards: 4, ThoroughShards: 12},
		evid.Spec{Name: "TestAnnotateSubsets", Kind: "rapid", Quick: 840, Thorough: 24000, QuickShards: 12, ThoroughShards: 16},
	)
	evid.Commands("obiannotate")
	evid.Reg("annotate", checkAnnotate)
	ruleParts["annotate"] = "a case is a FASTA or FASTQ file of 1..14 generated records (identifier, optional definition, " +
		"sequence of 1..130 nt, qualities, typed attributes: string/int/float/bool/map/list, drawn from a key pool so that options hit and miss) " +
		"and one obiannotate command: a set of edit-option families among --clear, --set-identifier, --delete-tag, --keep, --rename-tag, " +
		"--length, --set-tag, --cut (TestAnnotateEveryPair: each family alone and every pair, enumerated; TestAnnotateSubsets: random subsets " +
		"of 1..6 families), repeatable options given 1..4 times, options shuffled on the command line, --cut bounds at 1 / len-1 / len / len+1 / a=b, " +
		"--max-cpu in {default,1,2,3,4,8}, --batch-size in {default,1,2,3,5,100}. Oracle: a reference interpreter of the options on a map model " +
		"(fixed order clear, set-identifier, delete, keep, rename, length, set-tag, cut; expressions evaluated by the harness) compared with stdout read " +
		"by the harness' own FASTA/FASTQ/JSON readers: exit status 0, every input record present exactly once in input order, identifier, " +
		"definition, sequence, qualities and every attribute equal by value (numbers numerically, gcskew within 1e-9), no attribute added or lost. " +
		"Non-trivial: at least two records and the edits change at least one of them; distinct: hash of the whole case."
}

// aShort keeps the informative part of the standard error of a command.
func aShort(b []byte) string {
	var keep []string
	for _, l := range strings.Split(string(b), "\n") {
		if !strings.Contains(l, "level=info") && strings.TrimSpace(l) != "" {
			keep = append(keep, l)
		}
	}
	s := strings.Join(keep, "\n")
	if len(s) > 2500 {
		s = s[:1800] + "\n…\n" + s[len(s)-600:]
	}
	return s
}

// checkAnnotate runs the real obiannotate on the case and compares what it wrote
// with the reference interpreter.
func checkAnnotate(c aCase) error {
	if err := aValidate(c); err != nil {
		return fmt.Errorf("harness: case outside the domain of the check: %v", err)
	}
	want, err := aModel(c)
	if err != nil {
		return fmt.Errorf("harness: case outside the domain of the check: %v", err)
	}
	dir, err := os.MkdirTemp(run.WorkDir(), "c16ann")
	if err != nil {
		return fmt.Errorf("harness: %v", err)
	}
	defer os.RemoveAll(dir)
	in := filepath.Join(dir, map[bool]string{false: "in.fasta", true: "in.fastq"}[c.Fastq])
	if err := os.WriteFile(in, aRender(c), 0o644); err != nil {
		return fmt.Errorf("harness: %v", err)
	}
	args := aArgs(c)
	cmd := "obiannotate " + strings.Join(args, " ")
	res := run.Cmd(run.Opt{}, "obiannotate", append(append([]string(nil), args...), in)...)
	if res.Inconclusive() {
		evid.Class("timeout_inconclusive", 1)
		return nil
	}
	if res.Exit != 0 {
		return fmt.Errorf("%s exits %d on a well-formed input\nstderr: %s", cmd, res.Exit, aShort(res.Stderr))
	}
	got, err := aParseOut(res.Stdout, c.Fastq)
	if err != nil {
		return fmt.Errorf("%s: output unreadable: %v\nstdout: %.1500s", cmd, err, res.Stdout)
	}
	if err := aCompare(c, want, got); err != nil {
		return fmt.Errorf("%s: %v\nwarnings: %s", cmd, err, aShort(res.Stderr))
	}
	return nil
}

// aCompare aligns the written records with the model records, in input order.
// Only the records whose cut end lies beyond their length may be missing.
func aCompare(c aCase, want []aState, got []aOut) error {
	if len(got) > len(want) {
		return fmt.Errorf("%d records written for %d input records", len(got), len(want))
	}
	if len(got) == len(want) {
		for i := range want {
			if err := aSameRecord(want[i], got[i], c.Recs[i]); err != nil {
				return fmt.Errorf("record #%d (input id %s): %v", i+1, c.Recs[i].ID, err)
			}
		}
		return nil
	}
	// fewer records than expected: find an alignment where every missing record is
	// one that may be discarded (identifiers can repeat, hence the search)
	n, m := len(want), len(got)
	ok := make([][]bool, n+1) // ok[i][j]: want[i:] can be matched with got[j:]
	for i := range ok {
		ok[i] = make([]bool, m+1)
	}
	ok[n][m] = true
	for i := n - 1; i >= 0; i-- {
		for j := m; j >= 0; j-- {
			if j < m && ok[i+1][j+1] && aSameRecord(want[i], got[j], c.Recs[i]) == nil {
				ok[i][j] = true
			}
			if want[i].MayBeDiscarded && ok[i+1][j] {
				ok[i][j] = true
			}
		}
	}
	if ok[0][0] {
		evid.Class("annotate:outcome:cut_beyond_end_discarded", 1)
		return nil
	}
	// explain with the greedy alignment
	var wids, gids []string
	for _, w := range want {
		id := w.ID
		if w.MayBeDiscarded {
			id += " (or discarded)"
		}
		wids = append(wids, id)
	}
	for _, g := range got {
		gids = append(gids, g.ID)
	}
	lists := fmt.Sprintf("\nwritten identifiers:  %q\nexpected identifiers: %q", gids, wids)
	j := 0
	for i := range want {
		if j < m && aSameRecord(want[i], got[j], c.Recs[i]) == nil {
			j++
			continue
		}
		if want[i].MayBeDiscarded {
			continue
		}
		if j < m {
			return fmt.Errorf("%d records written for %d input records; record #%d (input id %s) is missing or wrong: compared with written record #%d (%s): %v%s",
				m, n, i+1, c.Recs[i].ID, j+1, got[j].ID, aSameRecord(want[i], got[j], c.Recs[i]), lists)
		}
		return fmt.Errorf("%d records written for %d input records; record #%d (input id %s, expected id %s) is missing%s", m, n, i+1, c.Recs[i].ID, want[i].ID, lists)
	}
	return fmt.Errorf("%d records written for %d input records; written record #%d (%s) matches no input record at its place%s", m, n, j+1, got[j].ID, lists)
}

// aCount registers one evaluation with its class labels.
func aCount(c aCase, mode string) {
	want, err := aModel(c)
	changed, clamp := false, false
	if err == nil {
		for i := range want {
			if aChanged(c.Recs[i], want[i]) {
				changed = true
			}
			if want[i].MayBeDiscarded {
				clamp = true
			}
		}
	}
	o := c.Opts
	fams := o.families()
	cl := []string{"annotate:mode:" + mode, fmt.Sprintf("annotate:nfam:%d", len(fams)),
		fmt.Sprintf("annotate:cpu:%d", c.MaxCPU), fmt.Sprintf("annotate:batch:%d", c.Batch),
		"annotate:format:" + map[bool]string{false: "fasta", true: "fastq"}[c.Fastq]}
	for _, f := range fams {
		cl = append(cl, "annotate:fam:"+f)
	}
	if len(fams) == 2 {
		cl = append(cl, "annotate:pair:"+fams[0]+"+"+fams[1])
	}
	if len(fams) == 1 {
		cl = append(cl, "annotate:alone:"+fams[0])
	}
	for name, k := range map[string]int{"delete": len(o.Delete), "keep": len(o.Keep), "rename": len(o.Rename), "set": len(o.Set)} {
		if k >= 2 {
			cl = append(cl, "annotate:repeated:"+name)
		}
	}
	switch n := len(c.Recs); {
	case n == 1:
		cl = append(cl, "annotate:records:1")
	case n <= 4:
		cl = append(cl, "annotate:records:2-4")
	default:
		cl = append(cl, "annotate:records:5+")
	}
	if c.Batch > 0 && len(c.Recs) > c.Batch {
		cl = append(cl, "annotate:several_batches")
	}
	if o.Cut != nil {
		lens := map[int]bool{}
		for _, r := range c.Recs {
			lens[len(r.Seq)] = true
		}
		if o.Cut.From == 1 {
			cl = append(cl, "annotate:cut:a=1")
		}
		if o.Cut.From == o.Cut.To {
			cl = append(cl, "annotate:cut:a=b")
		}
		if lens[o.Cut.To] {
			cl = append(cl, "annotate:cut:b=len")
		}
		if lens[o.Cut.To-1] {
			cl = append(cl, "annotate:cut:b=len+1")
		}
		if clamp {
			cl = append(cl, "annotate:cut:b_beyond_some_record")
		}
		if len(lens) > 1 {
			cl = append(cl, "annotate:cut:records_of_different_lengths")
		}
	}
	in := func(l []string, k string) bool {
		for _, x := range l {
			if x == k {
				return true
			}
		}
		return false
	}
	inter := map[string]bool{}
	inputKeys := map[string]bool{}
	for _, r := range c.Recs {
		for _, a := range r.Annots {
			inputKeys[a.Key] = true
		}
	}
	var fresh []string
	for _, p := range o.Rename {
		fresh = append(fresh, p[0])
		inter["rename_old_deleted"] = inter["rename_old_deleted"] || in(o.Delete, p[1])
		inter["rename_new_deleted"] = inter["rename_new_deleted"] || in(o.Delete, p[0])
		inter["rename_old_kept"] = inter["rename_old_kept"] || in(o.Keep, p[1])
		inter["rename_new_kept"] = inter["rename_new_kept"] || in(o.Keep, p[0])
	}
	for _, s := range o.Set {
		cl = append(cl, "annotate:expr:"+s.Expr.Kind)
		if strings.Contains(s.Expr.Text(), "=") {
			inter["set_expression_with_equal_sign"] = true
		}
		for _, r := range s.Expr.refs() {
			inter["set_reads_renamed"] = inter["set_reads_renamed"] || in(fresh, r)
			inter["set_reads_new_seq_length"] = inter["set_reads_new_seq_length"] || (o.Length && r == "seq_length")
		}
		inter["set_overrides_seq_length"] = inter["set_overrides_seq_length"] || (o.Length && s.Key == "seq_length")
		inter["set_overrides_input_key"] = inter["set_overrides_input_key"] || inputKeys[s.Key]
		inter["set_overrides_renamed"] = inter["set_overrides_renamed"] || in(fresh, s.Key)
	}
	inter["length_before_cut"] = o.Length && o.Cut != nil
	inter["length_after_keep"] = o.Length && len(o.Keep) > 0
	inter["added_after_clear"] = o.Clear && (o.Length || len(o.Set) > 0)
	inter["setid_then_cut"] = o.SetID != nil && o.Cut != nil
	inter["set_reads_new_id"] = false
	for _, s := range o.Set {
		if o.SetID != nil && (s.Expr.Kind == "id" || strings.HasPrefix(s.Expr.Kind, "printf_id") || s.Expr.Kind == "printf_kv") {
			inter["set_reads_new_id"] = true
		}
	}
	if o.SetID != nil {
		for _, r := range o.SetID.refs() {
			if in(o.Delete, r) || (len(o.Keep) > 0 && !in(o.Keep, r)) {
				inter["setid_reads_key_removed_later"] = true
			}
		}
	}
	for k, v := range inter {
		if v {
			cl = append(cl, "annotate:inter:"+k)
		}
	}
	if o.SetID != nil {
		cl = append(cl, "annotate:idexpr:"+o.SetID.Kind)
	}
	if !changed {
		cl = append(cl, "annotate:no_record_changed")
	}
	b, _ := json.Marshal(c)
	evid.Eval("annotate", evid.Hash(b), changed && len(c.Recs) >= 2, c, cl...)
}

// TestAnnotateSubsets: random subsets of 1..6 option families.
func TestAnnotateSubsets(t *testing.T) {
	rapid.Check(t, func(rt *rapid.T) {
		c := aGenCase(rt, nil)
		aCount(c, "subset")
		if err := checkAnnotate(c); err != nil {
			evid.Fail(rt, "annotate", c, err)
		}
	})
}

// TestAnnotateEveryPair: each option family alone and every pair of families,
// enumerated; the content of each case is generated (deterministically from
// VERIF_SEED).
func TestAnnotateEveryPair(t *testing.T) {
	var subsets [][]string
	for i, a := range aFamilies {
		subsets = append(subsets, []string{a})
		for _, b := range aFamilies[i+1:] {
			subsets = append(subsets, []string{a, b})
		}
	}
	reps := evid.Pick(4, 120)
	for i, fams := range subsets {
		if i%evid.NShards() != evid.Shard() {
			continue
		}
		fams := fams
		g := rapid.Custom(func(rt *rapid.T) aCase { return aGenCase(rt, fams) })
		for r := 0; r < reps; r++ {
			c := g.Example(int(evid.Seed())*1000003 + i*1009 + r)
			aCount(c, "everypair")
			if err := checkAnnotate(c); err != nil {
				evid.Fail(t, "annotate", c, err)
			}
		}
	}
}
