package c16

// Shared pieces of the obigrep / obidistribute / obimultiplex -u half of C16
// (all names start with g): the record model, rendering of the input files,
// reading of what the commands wrote, record comparison, command running.

import (
	"encoding/json"
	"fmt"
	"math"
	"os"
	"sort"
	"strconv"
	"strings"

	"verifharness/internal/evid"
	"verifharness/internal/ref"
	"verifharness/internal/run"
)

// gAttr is one annotation of a generated record.  Kind selects the field:
// "s" string, "i" integer, "f" float, "b" boolean, "mi" map[string]int.
type gAttr struct {
	Key  string         `json:"k"`
	Kind string         `json:"t"`
	S    string         `json:"s,omitempty"`
	I    int            `json:"i,omitempty"`
	F    float64        `json:"f,omitempty"`
	B    bool           `json:"b,omitempty"`
	M    map[string]int `json:"m,omitempty"`
}

// gRec is a generated sequence record.  Qual is the raw FASTQ quality line
// ("" when the case is FASTA).  Identifiers, definitions and string values are
// lower-case ASCII words without blanks at their ends (see Domain decisions).
type gRec struct {
	ID    string  `json:"id"`
	Def   string  `json:"def,omitempty"`
	Seq   string  `json:"seq"`
	Qual  string  `json:"qual,omitempty"`
	Attrs []gAttr `json:"attrs,omitempty"`
}

func (r gRec) attr(key string) (gAttr, bool) {
	for _, a := range r.Attrs {
		if a.Key == key {
			return a, true
		}
	}
	return gAttr{}, false
}

// gCount is the documented abundance of a record: the count attribute, 1 when absent.
func (r gRec) gCount() int {
	if a, ok := r.attr("count"); ok && a.Kind == "i" {
		return a.I
	}
	return 1
}

func (a gAttr) value() any {
	switch a.Kind {
	case "s":
		return a.S
	case "i":
		return float64(a.I)
	case "f":
		return a.F
	case "b":
		return a.B
	case "mi":
		m := map[string]any{}
		for k, v := range a.M {
			m[k] = float64(v)
		}
		return m
	}
	panic("gAttr: unknown kind " + a.Kind)
}

// text is the decimal / literal text of a scalar attribute (what a user reads
// in the file): used by -a patterns and by the obidistribute file names.
func (a gAttr) text() (string, bool) {
	switch a.Kind {
	case "s":
		return a.S, true
	case "i":
		return strconv.Itoa(a.I), true
	case "b":
		return strconv.FormatBool(a.B), true
	}
	return "", false
}

func gFloatText(f float64) string { return strconv.FormatFloat(f, 'f', -1, 64) }

func (a gAttr) json() string {
	switch a.Kind {
	case "s":
		b, _ := json.Marshal(a.S)
		return string(b)
	case "i":
		return strconv.Itoa(a.I)
	case "f":
		return gFloatText(a.F)
	case "b":
		return strconv.FormatBool(a.B)
	case "mi":
		keys := make([]string, 0, len(a.M))
		for k := range a.M {
			keys = append(keys, k)
		}
		sort.Strings(keys)
		var sb strings.Builder
		sb.WriteByte('{')
		for i, k := range keys {
			if i > 0 {
				sb.WriteByte(',')
			}
			fmt.Fprintf(&sb, "%q:%d", k, a.M[k])
		}
		sb.WriteByte('}')
		return sb.String()
	}
	panic("gAttr: unknown kind " + a.Kind)
}

// gTitle renders the title line of a record (without the leading > or @).
func gTitle(r gRec) string {
	var sb strings.Builder
	sb.WriteString(r.ID)
	if len(r.Attrs) > 0 {
		sb.WriteString(" {")
		for i, a := range r.Attrs {
			if i > 0 {
				sb.WriteByte(',')
			}
			fmt.Fprintf(&sb, "%q:%s", a.Key, a.json())
		}
		sb.WriteByte('}')
	}
	if r.Def != "" {
		sb.WriteByte(' ')
		sb.WriteString(r.Def)
	}
	return sb.String()
}

// gRender writes the records as FASTA (60 columns) or 4-line FASTQ.
func gRender(recs []gRec, fastq bool) []byte {
	var sb strings.Builder
	for _, r := range recs {
		if fastq {
			fmt.Fprintf(&sb, "@%s\n%s\n+\n%s\n", gTitle(r), r.Seq, r.Qual)
			continue
		}
		fmt.Fprintf(&sb, ">%s\n", gTitle(r))
		for p := 0; p < len(r.Seq); p += 60 {
			sb.WriteString(r.Seq[p:min(len(r.Seq), p+60)])
			sb.WriteByte('\n')
		}
	}
	return []byte(sb.String())
}

// gOut is a record as read back from a file written by a command.
type gOut struct {
	ID    string
	Def   string
	Seq   string
	Qual  string
	Attrs map[string]any // JSON values, numbers as float64; the definition is taken out
}

// gParse reads a FASTA or FASTQ file written by a command (the format is
// recognised from the first character) with the harness' own readers.
func gParse(data []byte) ([]gOut, error) {
	trim := strings.TrimLeft(string(data), "\n")
	if trim == "" {
		return nil, nil
	}
	var recs []ref.Rec
	var err error
	if trim[0] == '@' {
		recs, err = ref.ParseFastq([]byte(trim))
	} else {
		recs, err = ref.ParseFasta([]byte(trim))
	}
	if err != nil {
		return nil, err
	}
	out := make([]gOut, 0, len(recs))
	for _, r := range recs {
		o := gOut{ID: r.ID, Seq: r.Seq, Qual: string(r.Qual), Attrs: map[string]any{}}
		js, def, ok := ref.SplitJSONTitle(r.Title)
		if ok {
			if err := json.Unmarshal([]byte(js), &o.Attrs); err != nil {
				return nil, fmt.Errorf("record %s: annotations %q are not JSON: %v", r.ID, js, err)
			}
		}
		o.Def = def
		if d, has := o.Attrs["definition"]; has {
			ds, isStr := d.(string)
			if !isStr {
				return nil, fmt.Errorf("record %s: definition is not a string: %v", r.ID, d)
			}
			if def != "" && ds != def {
				return nil, fmt.Errorf("record %s carries two definitions: %q and %q", r.ID, ds, def)
			}
			o.Def = ds
			delete(o.Attrs, "definition")
		}
		out = append(out, o)
	}
	return out, nil
}

func gValEqual(a, b any) bool {
	switch x := a.(type) {
	case float64:
		y, ok := b.(float64)
		return ok && (x == y || math.Abs(x-y) <= 1e-12*math.Max(math.Abs(x), math.Abs(y)))
	case map[string]any:
		y, ok := b.(map[string]any)
		if !ok || len(x) != len(y) {
			return false
		}
		for k, v := range x {
			w, has := y[k]
			if !has || !gValEqual(v, w) {
				return false
			}
		}
		return true
	default:
		return a == b
	}
}

// gSame compares a written record with the input record it must be a copy of:
// identifier, definition, nucleotides, qualities and every annotation by value,
// nothing added.  extra lists annotation keys the command is allowed to add.
func gSame(want gRec, got gOut, extra func(key string) bool) error {
	if got.ID != want.ID {
		return fmt.Errorf("identifier %q instead of %q", got.ID, want.ID)
	}
	if got.Def != want.Def {
		return fmt.Errorf("record %s: definition %q, the input had %q", want.ID, got.Def, want.Def)
	}
	if strings.ToLower(got.Seq) != want.Seq {
		return fmt.Errorf("record %s: sequence %q, the input had %q", want.ID, got.Seq, want.Seq)
	}
	if got.Qual != want.Qual {
		return fmt.Errorf("record %s: qualities %q, the input had %q", want.ID, got.Qual, want.Qual)
	}
	for _, a := range want.Attrs {
		v, has := got.Attrs[a.Key]
		if !has {
			return fmt.Errorf("record %s: annotation %q (%s) was lost; written annotations: %v", want.ID, a.Key, a.json(), got.Attrs)
		}
		if !gValEqual(a.value(), v) {
			return fmt.Errorf("record %s: annotation %q is %v, the input had %s", want.ID, a.Key, v, a.json())
		}
	}
	for k, v := range got.Attrs {
		if _, has := want.attr(k); !has && (extra == nil || !extra(k)) {
			return fmt.Errorf("record %s: annotation %q=%v was added", want.ID, k, v)
		}
	}
	return nil
}

// gSameList compares a written file with the list of input records it must hold, in that order.
func gSameList(what string, want []gRec, got []gOut) error {
	ids := func() string {
		w := make([]string, len(want))
		for i, r := range want {
			w[i] = r.ID
		}
		g := make([]string, len(got))
		for i, r := range got {
			g[i] = r.ID
		}
		return fmt.Sprintf("written ids %v; by the options it must hold %v", g, w)
	}
	if len(want) != len(got) {
		return fmt.Errorf("%s holds %d records instead of %d: %s", what, len(got), len(want), ids())
	}
	for i := range want {
		if got[i].ID != want[i].ID {
			return fmt.Errorf("%s: record %d is %q instead of %q: %s", what, i, got[i].ID, want[i].ID, ids())
		}
		if err := gSame(want[i], got[i], nil); err != nil {
			return fmt.Errorf("%s: %v", what, err)
		}
	}
	return nil
}

// gShort keeps what matters of a command's stderr (logrus info lines dropped).
func gShort(b []byte) string {
	var keep []string
	for _, l := range strings.Split(string(b), "\n") {
		if !strings.Contains(l, "level=info") && strings.TrimSpace(l) != "" {
			keep = append(keep, l)
		}
	}
	s := strings.Join(keep, "\n")
	if len(s) > 3000 {
		s = s[:2200] + "\n…\n" + s[len(s)-700:]
	}
	return s
}

// gRun runs a command in dir; ok=false: inconclusive run (kill timer or machine out of resources).
func gRun(dir, name string, args []string) (run.Result, bool) {
	res := run.Cmd(run.Opt{Dir: dir}, name, args...)
	if res.Inconclusive() {
		evid.Class("timeout_inconclusive", 1)
		return res, false
	}
	return res, true
}

// gReadFile reads a file a command may have written; a missing file is an empty one.
func gReadFile(path string) ([]gOut, bool, error) {
	b, err := os.ReadFile(path)
	if err != nil {
		if os.IsNotExist(err) {
			return nil, false, nil
		}
		return nil, false, err
	}
	recs, err := gParse(b)
	return recs, true, err
}

func gParallelArgs(maxCPU, batch int) []string {
	args := []string{"--no-progressbar"}
	if maxCPU > 0 {
		args = append(args, "--max-cpu", strconv.Itoa(maxCPU))
	}
	if batch > 0 {
		args = append(args, "--batch-size", strconv.Itoa(batch))
	}
	return args
}

func gQuote(args []string) string {
	q := make([]string, len(args))
	for i, a := range args {
		if a == "" || strings.ContainsAny(a, " \"'()|&<>!$*[]{}^") {
			q[i] = "'" + a + "'"
		} else {
			q[i] = a
		}
	}
	return strings.Join(q, " ")
}
