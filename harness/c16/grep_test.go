package c16

import (
	"os"
	"testing"

	"pgregory.net/rapid"

	"verifharness/internal/evid"
)

func init() {
	evid.Tests(
		evid.Spec{Name: "TestGrepEveryPair", Kind: "plain", QuickShards: 4, ThoroughShards: 6},
		evid.Spec{Name: "TestGrepSubsets", Kind: "rapid", Quick: 640, Thorough: 16000, QuickShards: 8, ThoroughShards: 8},
		evid.Spec{Name: "TestGrepPaired", Kind: "rapid", Quick: 400, Thorough: 10000, QuickShards: 8, ThoroughShards: 6},
		evid.Spec{Name: "TestDistribute", Kind: "rapid", Quick: 320, Thorough: 5000, QuickShards: 4, ThoroughShards: 3},
		evid.Spec{Name: "TestUnidentified", Kind: "rapid", Quick: 200, Thorough: 3000, QuickShards: 4, ThoroughShards: 3},
	)
	evid.Commands("obigrep", "obidistribute", "obimultiplex")
	ruleParts["grep"] = "Every case is one run of the real command (built from the tree under test) on generated files. " +
		"obigrep: 1-12 (thorough up to 40) FASTA/FASTQ records with identifiers [ab1]{1,3}_<rank>, definitions of 0-3 words, lengths around two pivot lengths, " +
		"count and string/int/float/bool/map annotations from small value sets, optionally a mate file; option values are read off the records " +
		"(lengths/counts at value-1/value/value+1, patterns cut from a record's id/definition/sequence/annotation, expressions comparing with a record's values, " +
		"id lists holding about half of the ids, clades on the path of a record's taxon in a generated dump). TestGrepEveryPair enumerates each of the 15 selection options (the 14 exact ones and --approx-pattern with drawn --pattern-error / --allows-indels / --only-forward) alone, " +
		"every pair and every repeatable option twice, each with and without -v; TestGrepSubsets draws 1-6 options with repetitions; TestGrepPaired draws the six --paired-mode values; " +
		"--save-discarded, -o, --max-cpu {default,1,2,3,8}, --batch-size {default,1,2,3,5,10}, long/short option names are drawn. " +
		"Oracle: a reference interpreter of the documented options (conjunction of the criteria, mode table for pairs, complement under -v): the selected records, in input order, " +
		"identical to the input (id, definition, sequence, qualities, every annotation, nothing added), the discarded file the exact complement, R1/R2 files of equal length with mates at equal ranks. " +
		"obidistribute (-c [-d] [--na-value], -n, -H): the files named by the pattern hold every input record exactly once, unchanged; with -c the path of each record is the one its annotation values give; " +
		"-H: equal sequences share a file; at most n files for -n/-H. obimultiplex -u: reads with one exact amplicon of a declared sample, an undeclared tag pair, one primer only or no primer: " +
		"every read is written exactly once, on stdout without / in the -u file with obimultiplex_error, keeps its annotations, and stdout is the same with and without -u. " +
		"Non-trivial: obigrep: at least two options (selection options, -v, --save-discarded, paired input) and a selection that is neither empty nor total; " +
		"obidistribute: at least two output files; -u: both outputs non-empty. Distinct = distinct generated case."
}

// TestGrepEveryPair: each selection option alone, every pair of options, every
// repeatable option twice - each plan with and without -v, on generated records.
func TestGrepEveryPair(t *testing.T) {
	plans := gAllPlans()
	reps := evid.Pick(1, 16)
	done := 0
	for pi, plan := range plans {
		if pi%evid.NShards() != evid.Shard() {
			continue
		}
		for rep := 0; rep < reps; rep++ {
			for _, inv := range []int{-1, +1} {
				p := plan
				p.Invert = inv
				seed := int(evid.Hash("every-pair", evid.Seed(), pi, rep, inv) >> 2)
				c := rapid.Custom(func(rt *rapid.T) grepCase { return genGrepCase(rt, p) }).Example(seed)
				nontrivial, classes := gGrepClasses(&c)
				evid.Eval("grep", c.key(), nontrivial, c, classes...)
				if err := checkGrep(c); err != nil {
					if os.Getenv("C16_DEV_KEEP_GOING") != "" { // development aid: list every failing plan
						t.Errorf("%s: %v", p.Label, err)
						continue
					}
					evid.Fail(t, "grep", c, err)
				}
				done++
			}
		}
	}
	if done > 0 {
		evid.Exhaustive("obigrep: each of the 15 selection options (--approx-pattern with drawn modifiers included) alone, every pair of them, every repeatable option twice; each with and without -v")
	}
}

func TestGrepSubsets(t *testing.T) {
	rapid.Check(t, func(rt *rapid.T) {
		c := genGrepCase(rt, gPlan{Label: "subset", Paired: -1})
		nontrivial, classes := gGrepClasses(&c)
		evid.Eval("grep", c.key(), nontrivial, c, classes...)
		if err := checkGrep(c); err != nil {
			evid.Fail(rt, "grep", c, err)
		}
	})
}

func TestGrepPaired(t *testing.T) {
	rapid.Check(t, func(rt *rapid.T) {
		c := genGrepCase(rt, gPlan{Label: "paired", Paired: +1})
		nontrivial, classes := gGrepClasses(&c)
		evid.Eval("grep", c.key(), nontrivial, c, classes...)
		if err := checkGrep(c); err != nil {
			evid.Fail(rt, "grep", c, err)
		}
	})
}
