package c16

// obidistribute with MANY output classes (around and above 100, 200 and 400
// distinct classifier values, -n / -H above 100) and skewed class sizes: a few
// classes hold several times --batch-size records (they emit several complete
// batches, some of them before most of the other classes are met), the others
// hold 1-3 records.  The per-class bookkeeping of IBioSequence.Distribute and
// the per-file chunk writers are exercised the same way as in TestDistribute
// (same oracle: checkDistribute), on inputs the small generator never builds.
//
// A case is stored as its parameters; the records are rebuilt from them by
// distManyCase.build (pure function of the case).

import (
	"encoding/json"
	"fmt"
	"sort"
	"testing"

	"pgregory.net/rapid"

	"verifharness/internal/evid"
)

type distManyCase struct {
	Seed      uint64 `json:"seed"`            // sequences, heavy classes, shuffles
	Mode      string `json:"mode"`            // c | n | H
	Classes   int    `json:"classes"`         // c: distinct (classifier, directory) values; n / H: argument of the option
	Dirs      int    `json:"dirs,omitempty"`  // c: distinct -d values (0: no -d)
	Layout    string `json:"layout"`          // grouped | split | waves | shuffled (mode c)
	Heavy     int    `json:"heavy"`           // c: number of heavy classes; H: number of heavily repeated sequences
	HeavySize int    `json:"heavy_size"`      // records of a heavy class
	Light     int    `json:"light"`           // records of every other class (c); n / H: total = Light x Classes + heavy records
	Waves     int    `json:"waves,omitempty"` // layout waves: number of concatenated "libraries"
	Batch     int    `json:"batch"`           // --batch-size (0: the default)
	MaxCPU    int    `json:"max_cpu,omitempty"`
	Fastq     bool   `json:"fastq,omitempty"`
	Long      bool   `json:"long,omitempty"`
}

// dmRand: splitmix64, the only source of variation inside build.
type dmRand struct{ s uint64 }

func (r *dmRand) next() uint64 {
	r.s += 0x9e3779b97f4a7c15
	z := r.s
	z = (z ^ (z >> 30)) * 0xbf58476d1ce4e5b9
	z = (z ^ (z >> 27)) * 0x94d049bb133111eb
	return z ^ (z >> 31)
}

func (r *dmRand) intn(n int) int { return int(r.next() % uint64(n)) }

func (r *dmRand) seq(n int) string {
	b := make([]byte, n)
	for i := range b {
		b[i] = "acgt"[r.intn(4)]
	}
	return string(b)
}

func (r *dmRand) shuffle(n int, swap func(i, j int)) {
	for i := n - 1; i > 0; i-- {
		swap(i, r.intn(i+1))
	}
}

func (c *distManyCase) effectiveBatch() int {
	if c.Batch > 0 {
		return c.Batch
	}
	return 2000 // documented default of --batch-size
}

// build rebuilds the distCase (records included) the parameters stand for.
func (c *distManyCase) build() (distCase, error) {
	if c.Classes < 1 || c.Classes > 2000 || c.Heavy < 0 || c.Heavy > c.Classes || c.HeavySize < 0 || c.HeavySize > 20000 || c.Light < 1 || c.Light > 50 || c.Dirs < 0 {
		return distCase{}, fmt.Errorf("harness: parameters out of range: %+v", *c)
	}
	d := distCase{Mode: c.Mode, Fastq: c.Fastq, Long: c.Long, MaxCPU: c.MaxCPU, Batch: c.Batch, Prefix: "o_"}
	rnd := &dmRand{s: c.Seed}
	mk := func(i int, seq string, attrs ...gAttr) gRec {
		r := gRec{ID: fmt.Sprintf("r%05d", i), Seq: seq, Attrs: attrs}
		if i%7 == 3 {
			r.Def = "alpha beta"
		}
		if c.Fastq {
			q := make([]byte, len(seq))
			for j := range q {
				q[j] = "!+5?I"[(i+j)%5]
			}
			r.Qual = string(q)
		}
		return r
	}
	switch c.Mode {
	case "c":
		d.Key = "sample"
		if c.Dirs > 0 {
			d.DirKey = "run"
		}
		// sizes: Heavy classes drawn from the seed hold HeavySize records, the others Light
		size := make([]int, c.Classes)
		for k := range size {
			size[k] = c.Light
		}
		perm := make([]int, c.Classes)
		for k := range perm {
			perm[k] = k
		}
		rnd.shuffle(len(perm), func(i, j int) { perm[i], perm[j] = perm[j], perm[i] })
		heavy := append([]int(nil), perm[:c.Heavy]...)
		if c.Heavy > 0 && c.Seed%2 == 0 { // every other case: the first class of the file is a heavy one
			heavy[0] = 0
			for i := 1; i < len(heavy); i++ {
				if heavy[i] == 0 {
					heavy[i] = perm[c.Heavy%c.Classes]
				}
			}
		}
		sort.Ints(heavy)
		isHeavy := map[int]bool{}
		for _, k := range heavy {
			size[k] = c.HeavySize
			isHeavy[k] = true
		}
		// the class of each record, in file order
		var order []int
		switch c.Layout {
		case "grouped": // file sorted by class
			for k, n := range size {
				for i := 0; i < n; i++ {
					order = append(order, k)
				}
			}
		case "split": // two thirds of the heavy classes (interleaved), every light class, the rest of the heavy ones
			rest := map[int]int{}
			for round := 0; ; round++ {
				any := false
				for _, k := range heavy {
					if round < 2*size[k]/3 {
						order = append(order, k)
						any = true
					}
				}
				if !any {
					break
				}
			}
			for _, k := range heavy {
				rest[k] = size[k] - 2*size[k]/3
			}
			for k, n := range size {
				if !isHeavy[k] {
					for i := 0; i < n; i++ {
						order = append(order, k)
					}
				}
			}
			for _, k := range heavy {
				for i := 0; i < rest[k]; i++ {
					order = append(order, k)
				}
			}
		case "waves": // concatenated libraries: each brings its own light classes, the heavy classes are in all of them
			w := max(1, c.Waves)
			for wave := 0; wave < w; wave++ {
				var part []int
				for k, n := range size {
					if isHeavy[k] {
						lo, hi := wave*n/w, (wave+1)*n/w
						for i := lo; i < hi; i++ {
							part = append(part, k)
						}
					} else if k*w/c.Classes == wave {
						for i := 0; i < n; i++ {
							part = append(part, k)
						}
					}
				}
				rnd.shuffle(len(part), func(i, j int) { part[i], part[j] = part[j], part[i] })
				order = append(order, part...)
			}
		case "shuffled":
			for k, n := range size {
				for i := 0; i < n; i++ {
					order = append(order, k)
				}
			}
			rnd.shuffle(len(order), func(i, j int) { order[i], order[j] = order[j], order[i] })
		default:
			return distCase{}, fmt.Errorf("harness: layout %q", c.Layout)
		}
		for i, k := range order {
			attrs := []gAttr{{Key: "n", Kind: "i", I: i % 5}}
			if c.Dirs > 0 {
				attrs = append(attrs, gAttr{Key: "sample", Kind: "s", S: fmt.Sprintf("s%03d", k/c.Dirs)}, gAttr{Key: "run", Kind: "s", S: fmt.Sprintf("d%d", k%c.Dirs)})
			} else {
				attrs = append(attrs, gAttr{Key: "sample", Kind: "s", S: fmt.Sprintf("s%03d", k)})
			}
			d.Recs = append(d.Recs, mk(i, rnd.seq(8+rnd.intn(12)), attrs...))
		}
	case "n":
		d.N = c.Classes
		total := c.Light*c.Classes + c.HeavySize
		for i := 0; i < total; i++ {
			d.Recs = append(d.Recs, mk(i, rnd.seq(8+rnd.intn(12)), gAttr{Key: "n", Kind: "i", I: i % 5}))
		}
	case "H":
		d.N = c.Classes
		// a pool of distinct sequences; Heavy of them are carried by HeavySize records each, the others by Light records
		type slot struct {
			seq string
			n   int
		}
		nseq := 2 * c.Classes
		seen := map[string]bool{}
		var pool []slot
		for len(pool) < nseq {
			s := rnd.seq(10 + rnd.intn(10))
			if seen[s] {
				continue
			}
			seen[s] = true
			n := c.Light
			if len(pool) < c.Heavy {
				n = c.HeavySize
			}
			pool = append(pool, slot{s, n})
		}
		var order []int
		for k, s := range pool {
			for i := 0; i < s.n; i++ {
				order = append(order, k)
			}
		}
		if c.Layout != "grouped" {
			rnd.shuffle(len(order), func(i, j int) { order[i], order[j] = order[j], order[i] })
		}
		for i, k := range order {
			d.Recs = append(d.Recs, mk(i, pool[k].seq, gAttr{Key: "n", Kind: "i", I: i % 5}))
		}
	default:
		return distCase{}, fmt.Errorf("harness: mode %q", c.Mode)
	}
	return d, nil
}

func checkDistributeMany(c distManyCase) error {
	d, err := c.build()
	if err != nil {
		return err
	}
	if err := checkDistribute(d); err != nil {
		msg := err.Error()
		if len(msg) > 6000 { // the listing of a thousand identifiers: keep both ends
			msg = msg[:4000] + "\n…\n" + msg[len(msg)-1500:]
		}
		return fmt.Errorf("%d records, %s\n%s", len(d.Recs), c.describe(), msg)
	}
	return nil
}

func (c *distManyCase) describe() string {
	switch c.Mode {
	case "c":
		return fmt.Sprintf("%d classes (%d of %d records, the others of %d), layout %s, batch size %d", c.Classes, c.Heavy, c.HeavySize, c.Light, c.Layout, c.effectiveBatch())
	case "n":
		return fmt.Sprintf("-n %d, batch size %d", c.Classes, c.effectiveBatch())
	}
	return fmt.Sprintf("-H %d, %d sequences repeated %d times, the others %d times, layout %s, batch size %d", c.Classes, c.Heavy, c.HeavySize, c.Light, c.Layout, c.effectiveBatch())
}

func init() {
	evid.Reg("distribute_many", checkDistributeMany)
	evid.Tests(evid.Spec{Name: "TestDistributeManyClasses", Kind: "rapid", Quick: 72, Thorough: 720, QuickShards: 6, ThoroughShards: 8})
	ruleParts["distribute_many"] = "TestDistributeManyClasses: obidistribute with 90-450 output classes, biased to 99..102, 199..202, 399..402 " +
		"(-c with or without -d: that many distinct classifier values; -n / -H with that argument), --batch-size {1,2,3,5,10,50} and rarely the default 2000; " +
		"with -c, 0-4 heavy classes (one of them the first class of the file in half of the cases) hold 2-7 times --batch-size records plus a remainder, the others 1-3 records, " +
		"laid out grouped by class, split (most of the heavy classes, then every light class, then the rest of the heavy ones), as 2-5 concatenated libraries each bringing new classes, or shuffled; " +
		"with -H, equal sequences are repeated (heavy ones many times); with -n more records than classes. The case stores the parameters, the records are rebuilt from them. " +
		"Oracle: that of TestDistribute (every input record in exactly one file, unchanged, the file its annotations designate; at most n files for -n/-H, equal sequences together for -H). " +
		"Non-trivial: more than 100 output files are designated and at least one class holds more records than the batch size (it emits a complete batch and still has records to write)."
}

var dmClassCounts = []int{101, 102, 201, 130, 200, 202, 103, 150, 110, 199, 230, 100, 260, 300, 401, 99, 399, 400, 402, 450, 90}

func genDistManyCase(rt *rapid.T) distManyCase {
	c := distManyCase{Seed: rapid.Uint64().Draw(rt, "seed")}
	c.Mode = rapid.SampledFrom([]string{"c", "c", "c", "c", "n", "H"}).Draw(rt, "mode")
	c.Classes = rapid.SampledFrom(dmClassCounts).Draw(rt, "classes")
	if rapid.IntRange(0, 3).Draw(rt, "classes_free") == 0 {
		c.Classes = rapid.IntRange(90, 450).Draw(rt, "classes_any")
	}
	c.Batch = rapid.SampledFrom([]int{1, 2, 2, 3, 3, 5, 5, 10, 50}).Draw(rt, "batch_size")
	c.MaxCPU = rapid.SampledFrom(gMaxCPUs).Draw(rt, "max_cpu")
	c.Fastq = rapid.IntRange(0, 3).Draw(rt, "fastq") == 0
	c.Long = rapid.IntRange(0, 3).Draw(rt, "long_names") == 0
	c.Light = rapid.IntRange(1, 3).Draw(rt, "light")
	c.Layout = rapid.SampledFrom([]string{"grouped", "grouped", "split", "waves", "shuffled"}).Draw(rt, "layout")
	c.Waves = rapid.IntRange(2, 5).Draw(rt, "waves")
	b := c.Batch
	full := rapid.IntRange(2, 7).Draw(rt, "heavy_batches")
	rem := rapid.IntRange(0, max(0, b-1)).Draw(rt, "heavy_remainder")
	if b > 1 && rem == 0 && rapid.Bool().Draw(rt, "force_remainder") {
		rem = 1
	}
	switch c.Mode {
	case "c":
		c.Heavy = rapid.SampledFrom([]int{1, 1, 2, 3, 4, 0, 1, 2}).Draw(rt, "heavy")
		c.HeavySize = full*b + rem
		if rapid.IntRange(0, 2).Draw(rt, "with_dir") == 0 {
			c.Dirs = rapid.SampledFrom([]int{1, 2, 3, 7}).Draw(rt, "dirs")
		}
		if rapid.IntRange(0, 23).Draw(rt, "default_batch") == 0 { // the default batch size: one class of more than 4000 records
			c.Batch, c.Heavy, c.Light = 0, 1, 1
			c.HeavySize = 4000 + rapid.IntRange(1, 600).Draw(rt, "default_batch_remainder")
			c.Classes = min(c.Classes, 130)
		}
	case "n":
		c.Layout = "grouped"
		c.Batch = rapid.SampledFrom([]int{1, 1, 2, 3}).Draw(rt, "batch_size_n")
		c.Light = rapid.IntRange(2, 5).Draw(rt, "rounds")
		c.HeavySize = rapid.IntRange(0, c.Classes-1).Draw(rt, "extra_records") // a last incomplete round
	case "H":
		if c.Layout != "grouped" {
			c.Layout = "shuffled"
		}
		c.Batch = rapid.SampledFrom([]int{1, 1, 2, 3}).Draw(rt, "batch_size_h")
		c.Light = rapid.IntRange(1, 2).Draw(rt, "light_h")
		c.Heavy = rapid.IntRange(0, 6).Draw(rt, "heavy")
		c.HeavySize = full*c.Batch + rem%c.Batch + 1
	}
	return c
}

// dmClasses labels a case and applies the non-trivial rule on the rebuilt records.
func dmClasses(c *distManyCase, d *distCase) (bool, []string) {
	perFile := map[string]int{}
	switch c.Mode {
	case "c":
		for _, r := range d.Recs {
			p, _ := d.expectedPath(r)
			perFile[p]++
		}
	case "n":
		for i := range d.Recs {
			perFile[fmt.Sprint(i%c.Classes)]++
		}
	case "H": // an upper bound of the number of files: distinct sequences, at most n
		for _, r := range d.Recs {
			perFile[r.Seq]++
		}
	}
	nfiles := len(perFile)
	if c.Mode == "H" {
		nfiles = min(nfiles, c.Classes)
	}
	big := 0
	for _, n := range perFile {
		if n > c.effectiveBatch() {
			big++
		}
	}
	bucket := "<=100"
	switch {
	case nfiles > 400:
		bucket = ">400"
	case nfiles > 200:
		bucket = "201-400"
	case nfiles > 100:
		bucket = "101-200"
	}
	cl := []string{"distribute_many:mode:" + c.Mode, "distribute_many:files:" + bucket, "distribute_many:layout:" + c.Layout,
		fmt.Sprintf("distribute_many:batch_size:%d", c.Batch), fmt.Sprintf("distribute_many:max_cpu:%d", c.MaxCPU)}
	if c.Dirs > 0 {
		cl = append(cl, "distribute_many:with_directory")
	}
	if big > 0 {
		cl = append(cl, "distribute_many:class_larger_than_batch")
	}
	if big > 1 {
		cl = append(cl, "distribute_many:several_classes_larger_than_batch")
	}
	switch n := len(d.Recs); {
	case n > 2000:
		cl = append(cl, "distribute_many:records:>2000")
	case n > 500:
		cl = append(cl, "distribute_many:records:501-2000")
	default:
		cl = append(cl, "distribute_many:records:<=500")
	}
	return nfiles > 100 && big > 0, cl
}

func TestDistributeManyClasses(t *testing.T) {
	rapid.Check(t, func(rt *rapid.T) {
		c := genDistManyCase(rt)
		d, err := c.build()
		if err != nil {
			rt.Fatalf("%v", err)
		}
		b, _ := json.Marshal(c)
		nontrivial, classes := dmClasses(&c, &d)
		evid.Eval("distribute_many", evid.Hash(b), nontrivial, c, classes...)
		if err := checkDistributeMany(c); err != nil {
			evid.Fail(rt, "distribute_many", c, err)
		}
	})
}
