package c16

// Reference interpreter of the obigrep selection options: what each option
// means is taken from `obigrep --help` and doc/book (comm_sampling.qmd,
// expressions.qmd, lib/options/selection/*.qmd), not from pkg/obitools/obigrep.

import (
	"fmt"
	"regexp"
	"strconv"
	"strings"

	"verifharness/internal/ref"
)

// ------------------------------------------------------------------ expressions (-p)

// gNum is a numeric sub-expression of the documented expression language.
type gNum struct {
	Kind string  `json:"kind"`          // lit | attr | attrb | mapattr | count | len | lenfn | add | sub | mul
	Key  string  `json:"key,omitempty"` // attr, attrb (annotations["key"]), mapattr
	Sub  string  `json:"sub,omitempty"` // mapattr: annotations.key.sub
	Lit  float64 `json:"lit,omitempty"`
	X    *gNum   `json:"x,omitempty"` // add/sub/mul: X op Lit
}

// gStr is a string-valued sub-expression.
type gStr struct {
	Kind string `json:"kind"` // attr | attrb | id | def
	Key  string `json:"key,omitempty"`
}

// gExpr is a boolean expression.
type gExpr struct {
	Op  string `json:"op"`            // and | or | not | cmp | streq | strne | contains | battr | guard_and | guard_or
	Cmp string `json:"cmp,omitempty"` // cmp: < <= > >= == !=
	A   *gExpr `json:"a,omitempty"`
	B   *gExpr `json:"b,omitempty"`
	L   *gNum  `json:"l,omitempty"`
	R   *gNum  `json:"r,omitempty"`
	S   *gStr  `json:"s,omitempty"`
	Lit string `json:"lit,omitempty"` // streq / strne literal
	Key string `json:"key,omitempty"` // contains, battr, guard_*
}

func gLit(f float64) string { return strconv.FormatFloat(f, 'f', -1, 64) }

func (n *gNum) render() string {
	switch n.Kind {
	case "lit":
		return gLit(n.Lit)
	case "attr":
		return "annotations." + n.Key
	case "attrb":
		return fmt.Sprintf("annotations[%q]", n.Key)
	case "mapattr":
		return "annotations." + n.Key + "." + n.Sub
	case "count":
		return "sequence.Count()"
	case "len":
		return "sequence.Len()"
	case "lenfn":
		return "len(sequence)"
	case "add":
		return "(" + n.X.render() + " + " + gLit(n.Lit) + ")"
	case "sub":
		return "(" + n.X.render() + " - " + gLit(n.Lit) + ")"
	case "mul":
		return "(" + n.X.render() + " * " + gLit(n.Lit) + ")"
	}
	panic("gNum kind " + n.Kind)
}

func (s *gStr) render() string {
	switch s.Kind {
	case "attr":
		return "annotations." + s.Key
	case "attrb":
		return fmt.Sprintf("annotations[%q]", s.Key)
	case "id":
		return "sequence.Id()"
	case "def":
		return "sequence.Definition()"
	}
	panic("gStr kind " + s.Kind)
}

func (e *gExpr) render() string {
	switch e.Op {
	case "and":
		return "(" + e.A.render() + " && " + e.B.render() + ")"
	case "or":
		return "(" + e.A.render() + " || " + e.B.render() + ")"
	case "not":
		return "!(" + e.A.render() + ")"
	case "cmp":
		return e.L.render() + " " + e.Cmp + " " + e.R.render()
	case "streq":
		return fmt.Sprintf("%s == %q", e.S.render(), e.Lit)
	case "strne":
		return fmt.Sprintf("%s != %q", e.S.render(), e.Lit)
	case "contains":
		return fmt.Sprintf("contains(annotations,%q)", e.Key)
	case "battr":
		return "annotations." + e.Key
	case "guard_and":
		return fmt.Sprintf("(contains(annotations,%q) && %s)", e.Key, e.A.render())
	case "guard_or":
		return fmt.Sprintf("(!contains(annotations,%q) || %s)", e.Key, e.A.render())
	}
	panic("gExpr op " + e.Op)
}

func (n *gNum) eval(r gRec) (float64, error) {
	switch n.Kind {
	case "lit":
		return n.Lit, nil
	case "attr", "attrb":
		a, ok := r.attr(n.Key)
		if !ok {
			return 0, fmt.Errorf("harness: expression reads the missing annotation %q of %s", n.Key, r.ID)
		}
		switch a.Kind {
		case "i":
			return float64(a.I), nil
		case "f":
			return a.F, nil
		}
		return 0, fmt.Errorf("harness: annotation %q of %s is not numeric", n.Key, r.ID)
	case "mapattr":
		a, ok := r.attr(n.Key)
		if !ok || a.Kind != "mi" {
			return 0, fmt.Errorf("harness: annotation %q of %s is not a map", n.Key, r.ID)
		}
		v, ok := a.M[n.Sub]
		if !ok {
			return 0, fmt.Errorf("harness: map annotation %q of %s has no key %q", n.Key, r.ID, n.Sub)
		}
		return float64(v), nil
	case "count":
		return float64(r.gCount()), nil
	case "len", "lenfn":
		return float64(len(r.Seq)), nil
	case "add", "sub", "mul":
		x, err := n.X.eval(r)
		if err != nil {
			return 0, err
		}
		switch n.Kind {
		case "add":
			return x + n.Lit, nil
		case "sub":
			return x - n.Lit, nil
		}
		return x * n.Lit, nil
	}
	return 0, fmt.Errorf("harness: gNum kind %q", n.Kind)
}

func (s *gStr) eval(r gRec) (string, error) {
	switch s.Kind {
	case "attr", "attrb":
		a, ok := r.attr(s.Key)
		if !ok || a.Kind != "s" {
			return "", fmt.Errorf("harness: annotation %q of %s is not a string", s.Key, r.ID)
		}
		return a.S, nil
	case "id":
		return r.ID, nil
	case "def":
		return r.Def, nil
	}
	return "", fmt.Errorf("harness: gStr kind %q", s.Kind)
}

func (e *gExpr) eval(r gRec) (bool, error) {
	switch e.Op {
	case "and":
		a, err := e.A.eval(r)
		if err != nil || !a {
			return false, err
		}
		return e.B.eval(r)
	case "or":
		a, err := e.A.eval(r)
		if err != nil || a {
			return a, err
		}
		return e.B.eval(r)
	case "not":
		a, err := e.A.eval(r)
		return !a, err
	case "cmp":
		x, err := e.L.eval(r)
		if err != nil {
			return false, err
		}
		y, err := e.R.eval(r)
		if err != nil {
			return false, err
		}
		switch e.Cmp {
		case "<":
			return x < y, nil
		case "<=":
			return x <= y, nil
		case ">":
			return x > y, nil
		case ">=":
			return x >= y, nil
		case "==":
			return x == y, nil
		case "!=":
			return x != y, nil
		}
		return false, fmt.Errorf("harness: comparison %q", e.Cmp)
	case "streq", "strne":
		s, err := e.S.eval(r)
		if err != nil {
			return false, err
		}
		return (s == e.Lit) == (e.Op == "streq"), nil
	case "contains":
		_, ok := r.attr(e.Key)
		return ok, nil
	case "battr":
		a, ok := r.attr(e.Key)
		if !ok || a.Kind != "b" {
			return false, fmt.Errorf("harness: annotation %q of %s is not a boolean", e.Key, r.ID)
		}
		return a.B, nil
	case "guard_and":
		if _, ok := r.attr(e.Key); !ok {
			return false, nil
		}
		return e.A.eval(r)
	case "guard_or":
		if _, ok := r.attr(e.Key); !ok {
			return true, nil
		}
		return e.A.eval(r)
	}
	return false, fmt.Errorf("harness: gExpr op %q", e.Op)
}

// ------------------------------------------------------------------ options

// gOpt is one occurrence of a selection option on the command line.
type gOpt struct {
	Name string `json:"name"`           // canonical short name: -l -L -c -C -s -D -I -A -a -p --id-list -r -i --require-rank
	Long bool   `json:"long,omitempty"` // written with its long name
	Val  string `json:"val,omitempty"`  // the argument (for -a: key=pattern; unused for -p and --id-list)
	Expr *gExpr `json:"expr,omitempty"` // -p
}

var gLongName = map[string]string{
	"-l": "--min-length", "-L": "--max-length", "-c": "--min-count", "-C": "--max-count",
	"-s": "--sequence", "-D": "--definition", "-I": "--identifier", "-A": "--has-attribute",
	"-a": "--attribute", "-p": "--predicate", "--id-list": "--id-list",
	"-r": "--restrict-to-taxon", "-i": "--ignore-taxon", "--require-rank": "--require-rank",
	gApproxOpt: gApproxOpt,
}

// gOptKinds lists the selection options of the statement, in a fixed order
// (--approx-pattern, the approximate sequence pattern, comes with its modifiers
// --pattern-error, --allows-indels, --only-forward: see grep_approx_test.go).
var gOptKinds = []string{"-l", "-L", "-c", "-C", "-s", "-D", "-I", "-A", "-a", "-p", "--id-list", "-r", "-i", "--require-rank", gApproxOpt}

// gRepeatable: options documented as usable several times.
var gRepeatable = map[string]bool{"-s": true, "-D": true, "-I": true, "-A": true, "-a": true, "-p": true, "-r": true, "-i": true, "--require-rank": true, gApproxOpt: true}

func gIsTax(name string) bool { return name == "-r" || name == "-i" || name == "--require-rank" }

// gSelection is the part of a case the interpreter needs.
type gSelection struct {
	Opts   []gOpt
	IDList []string
	Tree   *ref.Tree
	Approx gApprox // --pattern-error, --allows-indels, --only-forward (apply to every --approx-pattern)
}

// keepOne: does record r satisfy every requested criterion?  The second value
// names the first criterion that fails.
func (s *gSelection) keepOne(r gRec) (bool, string, error) {
	var restrict []int
	hasRestrict := false
	node, known := -1, false
	if s.Tree != nil {
		if a, ok := r.attr("taxid"); ok {
			node, _, known = s.Tree.Resolve(a.I)
		}
	}
	for _, o := range s.Opts {
		var ok bool
		switch o.Name {
		case "-l", "-L", "-c", "-C":
			n, err := strconv.Atoi(o.Val)
			if err != nil {
				return false, "", fmt.Errorf("harness: %s %q", o.Name, o.Val)
			}
			switch o.Name {
			case "-l":
				ok = len(r.Seq) >= n
			case "-L":
				ok = len(r.Seq) <= n
			case "-c":
				ok = r.gCount() >= n
			case "-C":
				ok = r.gCount() <= n
			}
		case "-s":
			re, err := regexp.Compile("(?i)" + o.Val)
			if err != nil {
				return false, "", fmt.Errorf("harness: pattern %q: %v", o.Val, err)
			}
			ok = re.MatchString(r.Seq)
		case "-D", "-I":
			re, err := regexp.Compile(o.Val)
			if err != nil {
				return false, "", fmt.Errorf("harness: pattern %q: %v", o.Val, err)
			}
			if o.Name == "-D" {
				ok = re.MatchString(r.Def)
			} else {
				ok = re.MatchString(r.ID)
			}
		case "-A":
			_, ok = r.attr(o.Val)
		case "-a":
			key, pat, found := strings.Cut(o.Val, "=")
			if !found {
				return false, "", fmt.Errorf("harness: -a %q", o.Val)
			}
			re, err := regexp.Compile(pat)
			if err != nil {
				return false, "", fmt.Errorf("harness: pattern %q: %v", pat, err)
			}
			if a, has := r.attr(key); has {
				txt, scalar := a.text()
				if !scalar {
					return false, "", fmt.Errorf("harness: -a on the non-scalar annotation %q", key)
				}
				ok = re.MatchString(txt)
			}
		case "-p":
			var err error
			ok, err = o.Expr.eval(r)
			if err != nil {
				return false, "", err
			}
		case "--id-list":
			for _, l := range s.IDList {
				if strings.TrimSpace(l) == r.ID && r.ID != "" {
					ok = true
				}
			}
		case "-r":
			id, err := strconv.Atoi(o.Val)
			if err != nil {
				return false, "", fmt.Errorf("harness: -r %q", o.Val)
			}
			hasRestrict = true
			restrict = append(restrict, id)
			continue
		case "-i":
			id, err := strconv.Atoi(o.Val)
			if err != nil {
				return false, "", fmt.Errorf("harness: -i %q", o.Val)
			}
			clade, _, okc := s.Tree.Resolve(id)
			ok = !(known && okc && s.Tree.IsAncestorOrSelf(clade, node))
		case "--require-rank":
			ok = known && s.Tree.AtRank(node, o.Val) >= 0
		case gApproxOpt:
			var err error
			ok, err = s.Approx.matches(o.Val, r.Seq)
			if err != nil {
				return false, "", err
			}
			if !ok {
				return false, o.describe() + " " + s.Approx.describe(), nil
			}
		default:
			return false, "", fmt.Errorf("harness: unknown option %q", o.Name)
		}
		if !ok {
			return false, o.describe(), nil
		}
	}
	if hasRestrict { // several -r: the taxon belongs to one of the clades
		in := false
		for _, id := range restrict {
			if clade, _, okc := s.Tree.Resolve(id); known && okc && s.Tree.IsAncestorOrSelf(clade, node) {
				in = true
			}
		}
		if !in {
			return false, fmt.Sprintf("-r %v", restrict), nil
		}
	}
	return true, "", nil
}

func (o gOpt) describe() string {
	switch o.Name {
	case "-p":
		return "-p " + o.Expr.render()
	case "--id-list":
		return "--id-list"
	}
	return o.Name + " " + o.Val
}

// gPairedModes: the six values of --paired-mode and their documented meaning
// (which mate(s) must satisfy the criteria for the pair to be selected).
var gPairedModes = []string{"forward", "reverse", "and", "or", "andnot", "xor"}

func gPairTable(mode string, f, r bool) (bool, error) {
	switch mode {
	case "", "forward":
		return f, nil
	case "reverse":
		return r, nil
	case "and":
		return f && r, nil
	case "or":
		return f || r, nil
	case "andnot":
		return f && !r, nil
	case "xor":
		return f != r, nil
	}
	return false, fmt.Errorf("harness: paired mode %q", mode)
}
