// Property C16, obiannotate half: "obiannotate applies every requested edit (set,
// delete, rename, keep or clear attributes, set identifier, sequence length, cut)
// to every record and changes nothing else."
//
// This file holds the case structure, the generators, the writer of the input
// file and the REFERENCE INTERPRETER of the edit options (a map model that shares
// no code with obitools4).  annotate_test.go holds the check and the tests.
//
// Order of the edits.  The statement's mechanism is "one worker per requested
// edit, chained in a fixed order"; the only place that order is written down is
// CLIAnnotationWorker (the book has no obiannotate section), and it does not
// depend on the order of the options on the command line:
//
//	--clear, --set-identifier, --delete-tag, --keep, --rename-tag, --length,
//	--set-tag, --cut
//
// The reference interpreter applies the edits in that order; the command line is
// written in a generated (shuffled) order.
//
// Domain decisions (sub-cases the statement and the documentation leave open are
// not generated, or not asserted):
//
//   - obiannotate is never combined with the selection options of obigrep
//     (unselected records are dropped by SeqToSliceConditionalWorker; whether that
//     is intended is not stated), nor with the taxonomy options (C14), --pattern
//     and --aho-corasick (C10).
//   - Expressions (-S, --set-identifier) are drawn from a small grammar of the
//     documented language (doc/book/expressions.qmd + gval): numeric and string
//     constants, + - * on integer annotations, > < >= <= == != against an integer
//     constant, len(sequence), len(map annotation), sequence.Id(), annotations.key
//     and annotations["key"], printf with %s and %v, subspc, ifelse, contains,
//     gcskew (only when every record has a g or a c; composition() is left out:
//     the book names its fifth key "others", the code "o").  They only refer to annotations that every record of
//     the case still carries when the expression is evaluated (an expression that
//     cannot be evaluated makes the tool discard the record with a warning: not
//     decided by the statement), never to a key set by another -S of the same
//     command (several -S are evaluated in the iteration order of a Go map), and
//     the keys set by -S are distinct.  Numbers are compared by value (the
//     toolkit holds every header number as a float64); integer operands are small
//     enough for every result to be exact.
//   - Rename maps have disjoint old/new key sets and the new names are carried by
//     no input record (overlapping chains are iterated in Go-map order; renaming
//     onto an existing key is not documented).
//   - The reserved keys id, sequence, qualities, definition are never used as
//     option arguments.  The definition is stored by the toolkit as the attribute
//     "definition" whereas the book describes it as a field of the record distinct
//     from the attributes: whether --clear / --keep remove it is not decided, so
//     after --clear or --keep the definition must be either intact or absent; with
//     every other option it must be intact.
//   - --cut a:b is generated with 1 <= a <= b and a <= the shortest sequence of
//     the file (negative positions, a zero bound, open ends "a:" / ":b" and a start
//     beyond the end of a sequence are undocumented).  b may exceed the length of
//     some records: those records must either be cut to a..len or be discarded
//     (the implementation shows both intents: a clamp of the end and a "sequence
//     discarded" warning); every record with b <= len must be present and cut
//     to exactly a..b.  A cut appends _sub[a..b] to the identifier (Subsequence,
//     shown in the tutorial of the book).
//   - --length and the expressions see the sequence as it is when they run, i.e.
//     before --cut (fixed order above).
//   - Attribute values of the input are restricted to what the title-line codec is
//     known to carry unchanged (C02): no double quote / backslash / control
//     character in strings, decimal notation for floats.
package c16

import (
	"bytes"
	"encoding/json"
	"fmt"
	"math"
	"regexp"
	"sort"
	"strconv"
	"strings"

	"pgregory.net/rapid"

	"verifharness/internal/gen"
	"verifharness/internal/ref"
)

// ------------------------------------------------------------------ the case

// aExpr is one expression of the embedded language, kept as a structure so that
// the reference interpreter evaluates it without parsing text.
type aExpr struct {
	Kind    string `json:"kind"`
	Key     string `json:"key,omitempty"`  // annotation referred to (name at evaluation time)
	Key2    string `json:"key2,omitempty"` // second annotation (arith2)
	Op      string `json:"op,omitempty"`   // + - * (arith) or > < (gt, ifelse)
	C       int    `json:"c,omitempty"`
	Str     string `json:"str,omitempty"`
	Str2    string `json:"str2,omitempty"`
	Bracket bool   `json:"bracket,omitempty"` // annotations["key"] instead of annotations.key
}

type aSet struct {
	Key  string `json:"key"`
	Expr aExpr  `json:"expr"`
}

type aCut struct {
	From int `json:"from"`
	To   int `json:"to"`
}

type aOpts struct {
	Clear  bool        `json:"clear,omitempty"`
	SetID  *aExpr      `json:"set_id,omitempty"`
	Delete []string    `json:"delete,omitempty"`
	Keep   []string    `json:"keep,omitempty"`
	Rename [][2]string `json:"rename,omitempty"` // {new, old}
	Length bool        `json:"length,omitempty"`
	Set    []aSet      `json:"set,omitempty"`
	Cut    *aCut       `json:"cut,omitempty"`
}

type aCase struct {
	Recs   []gen.Rec `json:"recs"`
	Fastq  bool      `json:"fastq,omitempty"`
	Opts   aOpts     `json:"opts"`
	Long   bool      `json:"long,omitempty"`    // long option names instead of -k -R -S
	Perm   []int     `json:"perm,omitempty"`    // order of the option occurrences on the command line
	MaxCPU int       `json:"max_cpu,omitempty"` // 0: default
	Batch  int       `json:"batch,omitempty"`   // 0: default
}

var aFamilies = []string{"clear", "setid", "delete", "keep", "rename", "length", "set", "cut"}

func (o aOpts) families() []string {
	var f []string
	if o.Clear {
		f = append(f, "clear")
	}
	if o.SetID != nil {
		f = append(f, "setid")
	}
	if len(o.Delete) > 0 {
		f = append(f, "delete")
	}
	if len(o.Keep) > 0 {
		f = append(f, "keep")
	}
	if len(o.Rename) > 0 {
		f = append(f, "rename")
	}
	if o.Length {
		f = append(f, "length")
	}
	if len(o.Set) > 0 {
		f = append(f, "set")
	}
	if o.Cut != nil {
		f = append(f, "cut")
	}
	return f
}

// occurrences is the number of option occurrences on the command line.
func (o aOpts) occurrences() int {
	n := len(o.Delete) + len(o.Keep) + len(o.Rename) + len(o.Set)
	for _, b := range []bool{o.Clear, o.SetID != nil, o.Length, o.Cut != nil} {
		if b {
			n++
		}
	}
	return n
}

// ------------------------------------------------------------------ expressions: text

var aIdentRe = regexp.MustCompile(`^[A-Za-z_][A-Za-z0-9_]*$`)

func (e aExpr) ref(k string) string {
	if e.Bracket || !aIdentRe.MatchString(k) {
		return `annotations["` + k + `"]`
	}
	return "annotations." + k
}

// Text renders the expression in the embedded language.
func (e aExpr) Text() string {
	switch e.Kind {
	case "int":
		return strconv.Itoa(e.C)
	case "str":
		return `"` + e.Str + `"`
	case "arith":
		return fmt.Sprintf("%s %s %d", e.ref(e.Key), e.Op, e.C)
	case "arith2":
		return fmt.Sprintf("%s %s %s", e.ref(e.Key), e.Op, e.ref(e.Key2))
	case "seqlen":
		return "len(sequence)"
	case "id":
		return "sequence.Id()"
	case "ifelse":
		return fmt.Sprintf(`ifelse(%s %s %d, "%s", "%s")`, e.ref(e.Key), e.Op, e.C, e.Str, e.Str2)
	case "copy":
		return e.ref(e.Key)
	case "subspc":
		return "subspc(" + e.ref(e.Key) + ")"
	case "printf_id":
		return `printf("%s_` + e.Str + `", sequence.Id())`
	case "printf_kv":
		return `printf("%s_%v", sequence.Id(), ` + e.ref(e.Key) + `)`
	case "printf_len":
		return `printf("` + e.Str + `%v", len(sequence))`
	case "contains":
		return `contains(` + e.ref(e.Key) + `, "` + e.Str + `")`
	case "maplen":
		return "len(" + e.ref(e.Key) + ")"
	case "gt":
		return fmt.Sprintf("%s %s %d", e.ref(e.Key), e.Op, e.C)
	case "gcskew":
		return "gcskew(sequence)"
	}
	return "?" + e.Kind
}

func (e aExpr) refs() []string {
	switch e.Kind {
	case "arith", "ifelse", "copy", "subspc", "printf_kv", "contains", "maplen", "gt":
		return []string{e.Key}
	case "arith2":
		return []string{e.Key, e.Key2}
	}
	return nil
}

// ------------------------------------------------------------------ reference interpreter

// aApprox is a number computed with a division: compared with tolerance 1e-9.
type aApprox float64

// aState is the model of one record.
type aState struct {
	ID      string
	Def     string
	DefFree bool // the definition may be intact or absent (after --clear / --keep)
	Seq     string
	Qual    []int
	Attrs   map[string]any
	// MayBeDiscarded: --cut with an end beyond the sequence; the record is either
	// cut to a..len or missing from the output.
	MayBeDiscarded bool
}

// aModelVal turns a generated value into the picture used by the model: every
// number is a float64, maps are map[string]any, lists are []any.
func aModelVal(v gen.Val) any {
	switch v.Kind {
	case "str":
		return v.Str
	case "int":
		return float64(v.Int)
	case "float":
		return v.Float
	case "bool":
		return v.Bool
	case "mapint":
		m := map[string]any{}
		for k, x := range v.MapInt {
			m[k] = float64(x)
		}
		return m
	case "mapstr":
		m := map[string]any{}
		for k, x := range v.MapStr {
			m[k] = x
		}
		return m
	case "ints":
		l := make([]any, len(v.Ints))
		for i, x := range v.Ints {
			l[i] = float64(x)
		}
		return l
	}
	panic("aModelVal: unknown kind " + v.Kind)
}

func aFmtNum(f float64) string {
	// %v of a float64: plain decimal for the integers generated here (|x| < 100000)
	return fmt.Sprintf("%v", f)
}

// eval evaluates the expression on the model record.
func (e aExpr) eval(s *aState) (any, error) {
	num := func(k string) (float64, error) {
		v, ok := s.Attrs[k]
		if !ok {
			return 0, fmt.Errorf("expression %s refers to %q which record %s does not carry at that point", e.Text(), k, s.ID)
		}
		f, ok := v.(float64)
		if !ok {
			return 0, fmt.Errorf("expression %s: %q of record %s is not a number (%T)", e.Text(), k, s.ID, v)
		}
		return f, nil
	}
	any1 := func(k string) (any, error) {
		v, ok := s.Attrs[k]
		if !ok {
			return nil, fmt.Errorf("expression %s refers to %q which record %s does not carry at that point", e.Text(), k, s.ID)
		}
		return v, nil
	}
	cmp := func(f float64) bool {
		c := float64(e.C)
		switch e.Op {
		case "<":
			return f < c
		case "<=":
			return f <= c
		case ">=":
			return f >= c
		case "==":
			return f == c
		case "!=":
			return f != c
		}
		return f > c
	}
	switch e.Kind {
	case "int":
		return float64(e.C), nil
	case "str":
		return e.Str, nil
	case "arith", "arith2":
		a, err := num(e.Key)
		if err != nil {
			return nil, err
		}
		b := float64(e.C)
		if e.Kind == "arith2" {
			if b, err = num(e.Key2); err != nil {
				return nil, err
			}
		}
		switch e.Op {
		case "+":
			return a + b, nil
		case "-":
			return a - b, nil
		case "*":
			return a * b, nil
		}
		return nil, fmt.Errorf("unknown operator %q", e.Op)
	case "seqlen":
		return float64(len(s.Seq)), nil
	case "id":
		return s.ID, nil
	case "ifelse":
		f, err := num(e.Key)
		if err != nil {
			return nil, err
		}
		if cmp(f) {
			return e.Str, nil
		}
		return e.Str2, nil
	case "copy":
		return any1(e.Key)
	case "subspc":
		v, err := any1(e.Key)
		if err != nil {
			return nil, err
		}
		str, ok := v.(string)
		if !ok {
			return nil, fmt.Errorf("subspc of a %T", v)
		}
		return strings.ReplaceAll(str, " ", "_"), nil
	case "printf_id":
		return s.ID + "_" + e.Str, nil
	case "printf_kv":
		f, err := num(e.Key)
		if err != nil {
			return nil, err
		}
		return s.ID + "_" + aFmtNum(f), nil
	case "printf_len":
		return e.Str + strconv.Itoa(len(s.Seq)), nil
	case "contains":
		v, err := any1(e.Key)
		if err != nil {
			return nil, err
		}
		m, ok := v.(map[string]any)
		if !ok {
			return nil, fmt.Errorf("contains on a %T", v)
		}
		_, has := m[e.Str]
		return has, nil
	case "maplen":
		v, err := any1(e.Key)
		if err != nil {
			return nil, err
		}
		m, ok := v.(map[string]any)
		if !ok {
			return nil, fmt.Errorf("len of a %T", v)
		}
		return float64(len(m)), nil
	case "gt":
		f, err := num(e.Key)
		if err != nil {
			return nil, err
		}
		return cmp(f), nil
	case "gcskew":
		g, c := strings.Count(s.Seq, "g"), strings.Count(s.Seq, "c")
		if g+c == 0 {
			return nil, fmt.Errorf("gcskew on a sequence without g and c")
		}
		return aApprox(float64(g-c) / float64(g+c)), nil
	}
	return nil, fmt.Errorf("unknown expression kind %q", e.Kind)
}

var aReserved = map[string]bool{"id": true, "sequence": true, "qualities": true, "definition": true}

// aValidate rejects cases outside the generated domain (a hand-written replay
// file must not be judged by an oracle that does not cover it).
func aValidate(c aCase) error {
	if len(c.Recs) == 0 {
		return fmt.Errorf("no record")
	}
	minLen := math.MaxInt
	inputKeys := map[string]bool{}
	for _, r := range c.Recs {
		if len(r.Seq) == 0 || r.ID == "" {
			return fmt.Errorf("empty sequence or identifier")
		}
		if c.Fastq != (r.Qual != nil) || (c.Fastq && len(r.Qual) != len(r.Seq)) {
			return fmt.Errorf("record %s: qualities do not fit the format", r.ID)
		}
		minLen = min(minLen, len(r.Seq))
		for _, a := range r.Annots {
			if aReserved[a.Key] {
				return fmt.Errorf("reserved key %q as annotation", a.Key)
			}
			inputKeys[a.Key] = true
		}
	}
	okKey := func(k string) error {
		if k == "" || aReserved[k] || strings.ContainsAny(k, "= \t") {
			return fmt.Errorf("key %q cannot be an option argument", k)
		}
		return nil
	}
	o := c.Opts
	for _, k := range append(append([]string(nil), o.Delete...), o.Keep...) {
		if err := okKey(k); err != nil {
			return err
		}
	}
	olds, news := map[string]bool{}, map[string]bool{}
	for _, p := range o.Rename {
		if err := okKey(p[0]); err != nil {
			return err
		}
		if err := okKey(p[1]); err != nil {
			return err
		}
		if olds[p[1]] || news[p[0]] {
			return fmt.Errorf("rename: repeated name")
		}
		olds[p[1]], news[p[0]] = true, true
	}
	for k := range news {
		if olds[k] {
			return fmt.Errorf("rename: %q is both an old and a new name", k)
		}
		if inputKeys[k] {
			return fmt.Errorf("rename: new name %q is carried by an input record", k)
		}
	}
	targets, refs := map[string]bool{}, map[string]bool{}
	for _, s := range o.Set {
		if err := okKey(s.Key); err != nil {
			return err
		}
		if targets[s.Key] {
			return fmt.Errorf("-S: key %q set twice", s.Key)
		}
		targets[s.Key] = true
		for _, r := range s.Expr.refs() {
			refs[r] = true
		}
	}
	for k := range targets {
		if refs[k] {
			return fmt.Errorf("-S: key %q is set by one -S and read by another", k)
		}
	}
	if o.Cut != nil {
		if o.Cut.From < 1 || o.Cut.To < o.Cut.From || o.Cut.From > minLen {
			return fmt.Errorf("--cut %d:%d outside 1 <= a <= b, a <= shortest sequence (%d)", o.Cut.From, o.Cut.To, minLen)
		}
	}
	return nil
}

// aModel applies the edits of the case to every record, in the fixed order.
func aModel(c aCase) ([]aState, error) {
	o := c.Opts
	out := make([]aState, 0, len(c.Recs))
	for _, r := range c.Recs {
		s := aState{ID: r.ID, Def: r.Def, Seq: r.Seq, Qual: r.Qual, Attrs: map[string]any{}}
		for _, a := range r.Annots {
			s.Attrs[a.Key] = aModelVal(a.Val)
		}
		// 1. --clear
		if o.Clear {
			s.Attrs = map[string]any{}
			s.DefFree = true
		}
		// 2. --set-identifier
		if o.SetID != nil {
			v, err := o.SetID.eval(&s)
			if err != nil {
				return nil, err
			}
			switch x := v.(type) {
			case string:
				s.ID = x
			case float64:
				s.ID = aFmtNum(x)
			default:
				return nil, fmt.Errorf("--set-identifier %s evaluates to a %T", o.SetID.Text(), v)
			}
			if s.ID == "" || strings.ContainsAny(s.ID, " \t") {
				return nil, fmt.Errorf("--set-identifier %s gives the identifier %q", o.SetID.Text(), s.ID)
			}
		}
		// 3. --delete-tag
		for _, k := range o.Delete {
			delete(s.Attrs, k)
		}
		// 4. --keep
		if len(o.Keep) > 0 {
			keep := map[string]bool{}
			for _, k := range o.Keep {
				keep[k] = true
			}
			for k := range s.Attrs {
				if !keep[k] {
					delete(s.Attrs, k)
				}
			}
			s.DefFree = true
		}
		// 5. --rename-tag new=old (old and new sets are disjoint: order-free)
		for _, p := range o.Rename {
			if v, ok := s.Attrs[p[1]]; ok {
				s.Attrs[p[0]] = v
				delete(s.Attrs, p[1])
			}
		}
		// 6. --length
		if o.Length {
			s.Attrs["seq_length"] = float64(len(s.Seq))
		}
		// 7. --set-tag: every expression sees the record as it is after step 6
		//    (no expression reads a key set by another one)
		vals := make([]any, len(o.Set))
		for i, st := range o.Set {
			v, err := st.Expr.eval(&s)
			if err != nil {
				return nil, err
			}
			vals[i] = v
		}
		for i, st := range o.Set {
			s.Attrs[st.Key] = vals[i]
		}
		// 8. --cut a:b (1-based, inclusive)
		if o.Cut != nil {
			a, b := o.Cut.From, o.Cut.To
			if a > len(s.Seq) {
				return nil, fmt.Errorf("--cut %d:%d starts beyond the end of record %s (%d)", a, b, r.ID, len(s.Seq))
			}
			if b > len(s.Seq) {
				b = len(s.Seq)
				s.MayBeDiscarded = true
			}
			s.Seq = s.Seq[a-1 : b]
			if s.Qual != nil {
				s.Qual = s.Qual[a-1 : b]
			}
			s.ID = fmt.Sprintf("%s_sub[%d..%d]", s.ID, a, b)
		}
		out = append(out, s)
	}
	return out, nil
}

// ------------------------------------------------------------------ input file

func aJSONValue(v gen.Val) string {
	var b bytes.Buffer
	enc := json.NewEncoder(&b)
	enc.SetEscapeHTML(false)
	if err := enc.Encode(v.Go()); err != nil {
		panic(err)
	}
	return strings.TrimSpace(b.String())
}

func aTitle(r gen.Rec) string {
	var sb strings.Builder
	sb.WriteString(r.ID)
	if len(r.Annots) > 0 {
		sb.WriteString(" {")
		for i, a := range r.Annots {
			if i > 0 {
				sb.WriteByte(',')
			}
			sb.WriteString(aJSONValue(gen.Val{Kind: "str", Str: a.Key}))
			sb.WriteByte(':')
			sb.WriteString(aJSONValue(a.Val))
		}
		sb.WriteByte('}')
	}
	if r.Def != "" {
		sb.WriteByte(' ')
		sb.WriteString(r.Def)
	}
	return sb.String()
}

// aRender writes the records as a FASTA or FASTQ file (JSON title lines).
func aRender(c aCase) []byte {
	var sb strings.Builder
	for _, r := range c.Recs {
		if c.Fastq {
			sb.WriteString("@" + aTitle(r) + "\n" + r.Seq + "\n+\n")
			for _, q := range r.Qual {
				sb.WriteByte(byte(33 + q))
			}
			sb.WriteByte('\n')
		} else {
			sb.WriteString(">" + aTitle(r) + "\n")
			for i := 0; i < len(r.Seq); i += 60 {
				sb.WriteString(r.Seq[i:min(i+60, len(r.Seq))])
				sb.WriteByte('\n')
			}
		}
	}
	return []byte(sb.String())
}

// aArgs builds the command line (without the input file).
func aArgs(c aCase) []string {
	o := c.Opts
	name := func(short, long string) string {
		if c.Long {
			return long
		}
		return short
	}
	var occ [][]string
	if o.Clear {
		occ = append(occ, []string{"--clear"})
	}
	if o.SetID != nil {
		occ = append(occ, []string{"--set-identifier", o.SetID.Text()})
	}
	for _, k := range o.Delete {
		occ = append(occ, []string{"--delete-tag", k})
	}
	for _, k := range o.Keep {
		occ = append(occ, []string{name("-k", "--keep"), k})
	}
	for _, p := range o.Rename {
		occ = append(occ, []string{name("-R", "--rename-tag"), p[0] + "=" + p[1]})
	}
	if o.Length {
		occ = append(occ, []string{"--length"})
	}
	for _, s := range o.Set {
		occ = append(occ, []string{name("-S", "--set-tag"), s.Key + "=" + s.Expr.Text()})
	}
	if o.Cut != nil {
		occ = append(occ, []string{"--cut", fmt.Sprintf("%d:%d", o.Cut.From, o.Cut.To)})
	}
	order := make([]int, 0, len(occ))
	seen := make([]bool, len(occ))
	for _, p := range c.Perm {
		if p >= 0 && p < len(occ) && !seen[p] {
			seen[p] = true
			order = append(order, p)
		}
	}
	for i := range occ {
		if !seen[i] {
			order = append(order, i)
		}
	}
	var args []string
	for _, i := range order {
		args = append(args, occ[i]...)
	}
	if c.MaxCPU > 0 {
		args = append(args, "--max-cpu", strconv.Itoa(c.MaxCPU))
	}
	if c.Batch > 0 {
		args = append(args, "--batch-size", strconv.Itoa(c.Batch))
	}
	return append(args, "--no-progressbar")
}

// ------------------------------------------------------------------ output

type aOut struct {
	ID     string
	Def    string
	HasDef bool
	Seq    string
	Qual   []int // nil for FASTA
	Attrs  map[string]any
}

func aNormJSON(v any) (any, error) {
	switch x := v.(type) {
	case json.Number:
		f, err := strconv.ParseFloat(string(x), 64)
		if err != nil {
			return nil, err
		}
		return f, nil
	case map[string]any:
		for k, e := range x {
			n, err := aNormJSON(e)
			if err != nil {
				return nil, err
			}
			x[k] = n
		}
		return x, nil
	case []any:
		for i, e := range x {
			n, err := aNormJSON(e)
			if err != nil {
				return nil, err
			}
			x[i] = n
		}
		return x, nil
	}
	return v, nil
}

// aParseOut reads what the tool wrote with the independent readers.
func aParseOut(data []byte, fastq bool) ([]aOut, error) {
	var recs []ref.Rec
	var err error
	if fastq {
		recs, err = ref.ParseFastq(data)
	} else {
		recs, err = ref.ParseFasta(data)
	}
	if err != nil {
		return nil, err
	}
	out := make([]aOut, 0, len(recs))
	for _, r := range recs {
		o := aOut{ID: r.ID, Seq: r.Seq, Attrs: map[string]any{}}
		if fastq {
			o.Qual = make([]int, len(r.Qual))
			for i, q := range r.Qual {
				o.Qual[i] = int(q) - 33
			}
		}
		js, trailing, ok := ref.SplitJSONTitle(r.Title)
		if ok {
			d := json.NewDecoder(strings.NewReader(js))
			d.UseNumber()
			var m map[string]any
			if err := d.Decode(&m); err != nil {
				return nil, fmt.Errorf("record %s: annotations %q are not JSON: %v", r.ID, js, err)
			}
			n, err := aNormJSON(m)
			if err != nil {
				return nil, fmt.Errorf("record %s: %v", r.ID, err)
			}
			o.Attrs = n.(map[string]any)
		}
		if d, has := o.Attrs["definition"]; has {
			str, isStr := d.(string)
			if !isStr {
				return nil, fmt.Errorf("record %s: definition attribute is a %T", r.ID, d)
			}
			delete(o.Attrs, "definition")
			o.Def, o.HasDef = str, true
			if trailing != "" {
				o.Def += " " + trailing
			}
		} else if trailing != "" {
			o.Def, o.HasDef = trailing, true
		}
		out = append(out, o)
	}
	return out, nil
}

func aSameVal(want, got any) bool {
	switch w := want.(type) {
	case aApprox:
		g, ok := got.(float64)
		return ok && math.Abs(g-float64(w)) <= 1e-9
	case float64:
		g, ok := got.(float64)
		return ok && g == w
	case string:
		g, ok := got.(string)
		return ok && g == w
	case bool:
		g, ok := got.(bool)
		return ok && g == w
	case map[string]any:
		g, ok := got.(map[string]any)
		if !ok || len(g) != len(w) {
			return false
		}
		for k, v := range w {
			gv, has := g[k]
			if !has || !aSameVal(v, gv) {
				return false
			}
		}
		return true
	case []any:
		g, ok := got.([]any)
		if !ok || len(g) != len(w) {
			return false
		}
		for i := range w {
			if !aSameVal(w[i], g[i]) {
				return false
			}
		}
		return true
	}
	return false
}

func aShow(v any) string {
	if a, ok := v.(aApprox); ok {
		v = float64(a)
	}
	b, err := json.Marshal(v)
	if err != nil {
		return fmt.Sprintf("%v", v)
	}
	return string(b)
}

func aSortedKeys(m map[string]any) []string {
	k := make([]string, 0, len(m))
	for x := range m {
		k = append(k, x)
	}
	sort.Strings(k)
	return k
}

// aSameRecord compares one written record with the model; in is the input record.
func aSameRecord(want aState, got aOut, in gen.Rec) error {
	if got.ID != want.ID {
		return fmt.Errorf("identifier is %q, expected %q", got.ID, want.ID)
	}
	if got.Seq != want.Seq {
		return fmt.Errorf("sequence is %q (%d nt), expected %q (%d nt)", got.Seq, len(got.Seq), want.Seq, len(want.Seq))
	}
	if (want.Qual == nil) != (got.Qual == nil) {
		return fmt.Errorf("qualities: written=%v expected=%v", got.Qual != nil, want.Qual != nil)
	}
	if want.Qual != nil && fmt.Sprint(want.Qual) != fmt.Sprint(got.Qual) {
		return fmt.Errorf("qualities are %v, expected %v", got.Qual, want.Qual)
	}
	switch {
	case got.HasDef && got.Def != want.Def:
		return fmt.Errorf("definition is %q, expected %q", got.Def, want.Def)
	case !got.HasDef && want.Def != "" && !want.DefFree:
		return fmt.Errorf("definition %q was lost", want.Def)
	}
	for _, k := range aSortedKeys(want.Attrs) {
		g, has := got.Attrs[k]
		if !has {
			return fmt.Errorf("attribute %q is missing, expected %s", k, aShow(want.Attrs[k]))
		}
		if !aSameVal(want.Attrs[k], g) {
			return fmt.Errorf("attribute %q is %s, expected %s", k, aShow(g), aShow(want.Attrs[k]))
		}
	}
	for _, k := range aSortedKeys(got.Attrs) {
		if _, has := want.Attrs[k]; !has {
			return fmt.Errorf("attribute %q = %s is present, expected none", k, aShow(got.Attrs[k]))
		}
	}
	return nil
}

// aChanged reports whether the model output differs from the input record.
func aChanged(r gen.Rec, s aState) bool {
	if r.ID != s.ID || r.Seq != s.Seq || len(r.Annots) != len(s.Attrs) {
		return true
	}
	for _, a := range r.Annots {
		v, ok := s.Attrs[a.Key]
		if !ok || !aSameVal(aModelVal(a.Val), v) {
			return true
		}
	}
	return false
}

// ------------------------------------------------------------------ generators

// aPool is the typed pool of annotation keys: a key has the same type in every
// record so that expressions can rely on it.
var aPool = []struct{ Key, Type string }{
	{"count", "sint"},
	{"ali_length", "sint"},
	{"seq_length", "sint"},
	{"taxid", "int"},
	{"score", "float"},
	{"sample", "idstr"},
	{"direction", "idstr"},
	{"note", "text"},
	{"flag", "bool"},
	{"merged_sample", "mapint"},
	{"tags", "mapstr"},
	{"coords", "ints"},
}

var aExtraKeys = []string{"x1", "x2", "extra", "obiclean_status", "obi-tag.v2", "Zeta", "a", "rank"}
var aFreshKeys = []string{"n_a", "n_b", "renamed", "old_count", "len2"}
var aSetKeys = []string{"x", "y", "z", "new_tag", "val", "k9"}
var aMapKeys = []string{"a", "b", "k", "s1", "s2", "x-1"}

func aWord(t *rapid.T, label, alphabet string, lo, hi int) string {
	n := rapid.IntRange(lo, hi).Draw(t, label+"_n")
	b := make([]byte, n)
	for i := range b {
		b[i] = alphabet[rapid.IntRange(0, len(alphabet)-1).Draw(t, label+"_c")]
	}
	return string(b)
}

const aIDChars = "abcdefghijklmnopqrstuvwxyzABCDEFGHIJKLMNOPQRSTUVWXYZ0123456789_.-"

var aTextTokens = []string{"a", "b", "foo", "bar", "Canis lupus", "x", "1", "42", "é", "日本", "{", "}", "[", "]", ",", ":", ";", "=", "'", "(", ")", "<", ">", "#", "|", "/", "+", "*", "&", "%", "@", "~", "_", "-", ".", " ", "  "}

func aText(t *rapid.T, label string) string {
	n := rapid.IntRange(0, 5).Draw(t, label+"_n")
	var sb strings.Builder
	for i := 0; i < n; i++ {
		if i > 0 && rapid.IntRange(0, 2).Draw(t, label+"_sp") > 0 {
			sb.WriteByte(' ')
		}
		sb.WriteString(rapid.SampledFrom(aTextTokens).Draw(t, label+"_tok"))
	}
	return sb.String()
}

var aFloats = []float64{0, 0.5, -0.5, 1, 2, 3.14, 0.001, 0.75, -7, 12.125, 99.9, 0.9595959595959596}

func aGenVal(t *rapid.T, label, typ string) gen.Val {
	switch typ {
	case "sint":
		if rapid.IntRange(0, 3).Draw(t, label+"_b") == 0 {
			return gen.Val{Kind: "int", Int: int64(rapid.SampledFrom([]int{0, 1, 2, -1, 10, 100, 1000, 2000, -50}).Draw(t, label))}
		}
		return gen.Val{Kind: "int", Int: int64(rapid.IntRange(-50, 2000).Draw(t, label))}
	case "int":
		return gen.Val{Kind: "int", Int: gen.Int(t, label)}
	case "float":
		if rapid.Bool().Draw(t, label+"_sp") {
			return gen.Val{Kind: "float", Float: rapid.SampledFrom(aFloats).Draw(t, label)}
		}
		return gen.Val{Kind: "float", Float: float64(rapid.IntRange(-100000, 100000).Draw(t, label)) / 1000}
	case "idstr":
		return gen.Val{Kind: "str", Str: aWord(t, label, aIDChars, 1, 8)}
	case "text":
		return gen.Val{Kind: "str", Str: aText(t, label)}
	case "bool":
		return gen.Val{Kind: "bool", Bool: rapid.Bool().Draw(t, label)}
	case "mapint":
		n := rapid.IntRange(0, 3).Draw(t, label+"_n")
		m := map[string]int64{}
		for i := 0; i < n; i++ {
			m[rapid.SampledFrom(aMapKeys).Draw(t, label+"_k")] = int64(rapid.IntRange(0, 500).Draw(t, label+"_v"))
		}
		return gen.Val{Kind: "mapint", MapInt: m}
	case "mapstr":
		n := rapid.IntRange(0, 3).Draw(t, label+"_n")
		m := map[string]string{}
		for i := 0; i < n; i++ {
			m[rapid.SampledFrom(aMapKeys).Draw(t, label+"_k")] = aText(t, label+"_v")
		}
		return gen.Val{Kind: "mapstr", MapStr: m}
	case "ints":
		n := rapid.IntRange(0, 4).Draw(t, label+"_n")
		l := make([]int64, n)
		for i := range l {
			l[i] = int64(rapid.IntRange(-5, 300).Draw(t, label+"_v"))
		}
		return gen.Val{Kind: "ints", Ints: l}
	}
	// any
	return aGenVal(t, label, rapid.SampledFrom([]string{"sint", "int", "float", "idstr", "text", "text", "bool", "mapint", "mapstr", "ints"}).Draw(t, label+"_typ"))
}

// aAvail is an annotation an expression may refer to: its name when the
// expression is evaluated, the input key it comes from ("" when an edit
// creates it) and its type.
type aAvail struct {
	Name, Orig, Type string
	Hot              bool // renamed, or created by --length: reading it tests the order of the edits
}

func aPick(t *rapid.T, label string, avail []aAvail, types ...string) (aAvail, bool) {
	var c []aAvail
	for _, a := range avail {
		for _, ty := range types {
			if a.Type == ty || ty == "*" {
				c = append(c, a)
				break
			}
		}
	}
	if len(c) == 0 {
		return aAvail{}, false
	}
	var hot []aAvail
	for _, a := range c {
		if a.Hot {
			hot = append(hot, a)
		}
	}
	if len(hot) > 0 && rapid.Bool().Draw(t, label+"_hot") {
		return rapid.SampledFrom(hot).Draw(t, label), true
	}
	return rapid.SampledFrom(c).Draw(t, label), true
}

// aHas reports whether an annotation of one of the types can be referred to.
func aHas(avail []aAvail, types ...string) bool {
	for _, a := range avail {
		for _, ty := range types {
			if a.Type == ty || ty == "*" {
				return true
			}
		}
	}
	return false
}

const aPlain = "abcdefghijklmnopqrstuvwxyz0123456789"

// aGenExpr draws an expression; forID restricts to the kinds that give a
// non-blank string usable as identifier.  required collects the input keys the
// expression needs in every record.
func aGenExpr(t *rapid.T, label string, avail []aAvail, forID, gcOK bool, required map[string]string) aExpr {
	all := []string{"arith", "gt", "ifelse", "copy", "arith2", "subspc", "contains", "maplen", "printf_kv", "seqlen", "gcskew", "id", "printf_len", "printf_id", "int", "str"}
	if forID {
		all = []string{"printf_kv", "copy", "printf_id", "printf_len", "str"}
	}
	var kinds []string // the kinds whose operands exist
	for _, k := range all {
		ok := true
		switch k {
		case "arith", "gt", "ifelse", "printf_kv", "arith2":
			ok = aHas(avail, "sint")
		case "copy":
			ok = aHas(avail, map[bool]string{false: "*", true: "idstr"}[forID])
		case "subspc":
			ok = aHas(avail, "text", "idstr")
		case "contains", "maplen":
			ok = aHas(avail, "mapint", "mapstr")
		case "gcskew":
			ok = gcOK
		}
		if ok {
			kinds = append(kinds, k)
		}
	}
	need := func(a aAvail) {
		if a.Orig != "" {
			required[a.Orig] = a.Type
		}
	}
	for {
		e := aExpr{Kind: rapid.SampledFrom(kinds).Draw(t, label+"_kind")}
		e.Bracket = rapid.IntRange(0, 3).Draw(t, label+"_br") == 0
		switch e.Kind {
		case "int":
			e.C = rapid.IntRange(-20, 1000).Draw(t, label+"_c")
		case "str":
			e.Str = aWord(t, label+"_s", aPlain+"_.-", 1, 8)
			if !forID && rapid.IntRange(0, 2).Draw(t, label+"_blank") == 0 {
				e.Str += " " + aWord(t, label+"_s2", aPlain+" :;,()", 0, 6)
			}
		case "seqlen", "id":
		case "gcskew":
			if !gcOK {
				continue
			}
		case "arith", "gt", "ifelse", "printf_kv":
			a, ok := aPick(t, label+"_ref", avail, "sint")
			if !ok {
				continue
			}
			need(a)
			e.Key = a.Name
			e.C = rapid.IntRange(0, 60).Draw(t, label+"_c")
			switch e.Kind {
			case "arith":
				e.Op = rapid.SampledFrom([]string{"+", "-", "*"}).Draw(t, label+"_op")
			case "gt", "ifelse":
				e.Op = rapid.SampledFrom([]string{"==", ">=", ">", "<", "<=", "!="}).Draw(t, label+"_op")
				e.C = rapid.SampledFrom([]int{1, 0, 2, 10, 50, 100, 1000}).Draw(t, label+"_thr")
				e.Str, e.Str2 = aWord(t, label+"_y", aPlain, 1, 4), aWord(t, label+"_n", aPlain, 1, 4)
			}
		case "arith2":
			a, ok := aPick(t, label+"_ref", avail, "sint")
			b, ok2 := aPick(t, label+"_ref2", avail, "sint")
			if !ok || !ok2 {
				continue
			}
			need(a)
			need(b)
			e.Key, e.Key2 = a.Name, b.Name
			e.Op = rapid.SampledFrom([]string{"+", "-", "*"}).Draw(t, label+"_op")
		case "copy":
			types := []string{"*"}
			if forID {
				types = []string{"idstr"}
			}
			a, ok := aPick(t, label+"_ref", avail, types...)
			if !ok {
				continue
			}
			need(a)
			e.Key = a.Name
		case "subspc":
			a, ok := aPick(t, label+"_ref", avail, "text", "idstr")
			if !ok {
				continue
			}
			need(a)
			e.Key = a.Name
		case "printf_id":
			e.Str = aWord(t, label+"_s", aPlain, 1, 5)
		case "printf_len":
			e.Str = aWord(t, label+"_s", aPlain+"_", 1, 4)
		case "contains", "maplen":
			a, ok := aPick(t, label+"_ref", avail, "mapint", "mapstr")
			if !ok {
				continue
			}
			need(a)
			e.Key = a.Name
			if e.Kind == "contains" {
				e.Str = rapid.SampledFrom(append([]string{"zz"}, aMapKeys...)).Draw(t, label+"_mk")
			}
		}
		return e
	}
}

func aDistinct(t *rapid.T, label string, from []string, lo, hi int) []string {
	hi = min(hi, len(from))
	lo = min(lo, hi)
	return rapid.SliceOfNDistinct(rapid.SampledFrom(from), lo, hi, func(s string) string { return s }).Draw(t, label)
}

// aRepeat draws the number of occurrences of a repeatable option: 1 half of the
// time, else 2..hi.
func aRepeat(t *rapid.T, label string, hi int) int {
	if rapid.Bool().Draw(t, label+"_one") {
		return 1
	}
	return rapid.IntRange(2, hi).Draw(t, label)
}

// aGenCase draws a complete case.  fams, when not nil, is the exact set of
// option families to use; otherwise a random subset of 1..6 families is drawn.
func aGenCase(t *rapid.T, fams []string) aCase {
	var c aCase
	c.Fastq = rapid.Bool().Draw(t, "fastq")
	c.Long = rapid.Bool().Draw(t, "long")
	c.MaxCPU = rapid.SampledFrom([]int{0, 0, 1, 2, 3, 4, 8}).Draw(t, "maxcpu")
	c.Batch = rapid.SampledFrom([]int{0, 1, 1, 2, 3, 5, 100}).Draw(t, "batch")

	// ---- skeleton of the records: identifier, definition, sequence, qualities
	n := gen.Len(t, "nrec", 1, 14, 2, 6)
	maxLen := rapid.SampledFrom([]int{8, 30, 70, 130}).Draw(t, "maxlen")
	minLen, gcOK := math.MaxInt, true
	lens := []int{}
	for i := 0; i < n; i++ {
		var r gen.Rec
		r.ID = fmt.Sprintf("r%d", i+1) + aWord(t, "id", aIDChars+":#|/", 0, 5)
		if rapid.Bool().Draw(t, "hasdef") {
			nw := rapid.IntRange(1, 4).Draw(t, "defwords")
			w := make([]string, nw)
			for j := range w {
				w[j] = aWord(t, "defword", aIDChars+",;:=()", 1, 7)
			}
			r.Def = strings.Join(w, " ")
		}
		l := gen.Len(t, "len", 1, maxLen, 2, 60, 61)
		r.Seq = gen.SeqMix(t, "seq", l, gen.ACGT, gen.IUPAC, 12)
		if c.Fastq {
			r.Qual = rapid.SliceOfN(rapid.IntRange(0, 41), l, l).Draw(t, "qual")
			if rapid.Bool().Draw(t, "qual_edge") {
				r.Qual[0] = rapid.SampledFrom([]int{0, 1, 41, 62, 93}).Draw(t, "qual_first")
				r.Qual[l-1] = rapid.SampledFrom([]int{0, 1, 41, 62, 93}).Draw(t, "qual_last")
			}
		}
		if strings.Count(r.Seq, "g")+strings.Count(r.Seq, "c") == 0 {
			gcOK = false
		}
		minLen = min(minLen, l)
		lens = append(lens, l)
		c.Recs = append(c.Recs, r)
	}

	// ---- families
	if fams == nil {
		k := rapid.SampledFrom([]int{1, 2, 3, 3, 4, 4, 5, 5, 6, 6}).Draw(t, "nfam")
		fams = rapid.Permutation(aFamilies).Draw(t, "fams")[:k]
	}
	has := map[string]bool{}
	for _, f := range fams {
		has[f] = true
	}

	// keys the options talk about: pool keys (present in some records), extra
	// keys, keys no record carries, and the fresh names of the renames
	var poolKeys []string
	for _, p := range aPool {
		poolKeys = append(poolKeys, p.Key)
	}
	subject := append(append(append([]string(nil), poolKeys...), aExtraKeys...), "absent_key")
	required := map[string]string{} // input key -> type, forced into every record

	avail := []aAvail{}
	for _, p := range aPool {
		avail = append(avail, aAvail{Name: p.Key, Orig: p.Key, Type: p.Type})
	}
	remove := func(name string) {
		kept := avail[:0]
		for _, a := range avail {
			if a.Name != name {
				kept = append(kept, a)
			}
		}
		avail = kept
	}

	o := &c.Opts
	if has["clear"] {
		o.Clear = true
		avail = avail[:0]
	}
	if has["setid"] {
		e := aGenExpr(t, "setid", avail, true, gcOK, required)
		o.SetID = &e
	}
	// the names of the renames are decided first: --delete-tag and --keep like to
	// talk about them too (rapid favours the first elements of a list), which is
	// where the order of the edits matters
	var fresh, olds []string
	if has["rename"] {
		fresh = aDistinct(t, "rename_new", aFreshKeys, 1, aRepeat(t, "rename_n", 3))
		olds = aDistinct(t, "rename_old", subject, len(fresh), len(fresh))
		if rapid.Bool().Draw(t, "rename_old_typed") { // a key the expressions can read under its new name
			k := rapid.SampledFrom([]string{"count", "ali_length", "seq_length", "sample", "note", "merged_sample"}).Draw(t, "rename_old_first")
			for i := range olds {
				if olds[i] == k {
					olds[i] = olds[0]
				}
			}
			olds[0] = k
		}
	}
	talk := append(append(append([]string(nil), olds...), fresh...), subject...)
	if has["delete"] {
		o.Delete = aDistinct(t, "delete", talk, 1, aRepeat(t, "delete_n", 4))
		for _, k := range o.Delete {
			remove(k)
		}
	}
	if has["keep"] {
		o.Keep = aDistinct(t, "keep", talk, 1, aRepeat(t, "keep_n", 4))
		kept := avail[:0]
		for _, a := range avail {
			for _, k := range o.Keep {
				if a.Name == k {
					kept = append(kept, a)
				}
			}
		}
		avail = kept
	}
	if has["rename"] {
		for i, nw := range fresh {
			o.Rename = append(o.Rename, [2]string{nw, olds[i]})
			for j, a := range avail {
				if a.Name == olds[i] {
					avail[j].Name = nw
					avail[j].Hot = true
				}
			}
		}
	}
	if has["length"] {
		o.Length = true
		remove("seq_length")
		avail = append(avail, aAvail{Name: "seq_length", Type: "sint", Hot: true})
	}
	if has["set"] {
		ns := aRepeat(t, "set_n", 4)
		refs := map[string]bool{}
		var exprs []aExpr
		for i := 0; i < ns; i++ {
			e := aGenExpr(t, "set", avail, false, gcOK, required)
			for _, r := range e.refs() {
				refs[r] = true
			}
			exprs = append(exprs, e)
		}
		var cands []string
		for _, k := range append(append(append([]string{"seq_length"}, fresh...), aSetKeys...), poolKeys...) {
			if !refs[k] {
				cands = append(cands, k)
			}
		}
		keys := aDistinct(t, "set_key", cands, ns, ns)
		if o.Length && !refs["seq_length"] && rapid.IntRange(0, 3).Draw(t, "set_over_length") == 0 {
			for i := range keys { // -S on the key --length has just set
				if keys[i] == "seq_length" {
					keys[i] = keys[0]
				}
			}
			keys[0] = "seq_length"
		}
		for i, k := range keys {
			o.Set = append(o.Set, aSet{Key: k, Expr: exprs[i]})
		}
	}
	if has["cut"] {
		a := rapid.SampledFrom([]int{1, 1, min(2, minLen), minLen, max(1, minLen-1), rapid.IntRange(1, minLen).Draw(t, "cut_a_any")}).Draw(t, "cut_a")
		li := rapid.SampledFrom(lens).Draw(t, "cut_len")
		cands := []int{a, li, li - 1, li + 1, minLen, maxLen, maxLen + 3, rapid.IntRange(a, maxLen+3).Draw(t, "cut_b_any")}
		ok := cands[:0]
		for _, b := range cands {
			if b >= a {
				ok = append(ok, b)
			}
		}
		o.Cut = &aCut{From: a, To: rapid.SampledFrom(ok).Draw(t, "cut_b")}
	}
	if k := o.occurrences(); k > 1 {
		idx := make([]int, k)
		for i := range idx {
			idx[i] = i
		}
		c.Perm = rapid.Permutation(idx).Draw(t, "perm")
	}

	// ---- annotations of the records
	for i := range c.Recs {
		r := &c.Recs[i]
		for _, p := range aPool {
			typ, req := required[p.Key]
			if !req {
				if rapid.IntRange(0, 2).Draw(t, "haskey") == 0 {
					continue
				}
				typ = p.Type
			}
			v := aGenVal(t, "val_"+p.Key, typ)
			if p.Key == "seq_length" && rapid.Bool().Draw(t, "seqlen_right") {
				v = gen.Val{Kind: "int", Int: int64(len(r.Seq))}
			}
			r.Annots = append(r.Annots, gen.Annot{Key: p.Key, Val: v})
		}
		for _, k := range aDistinct(t, "extra", aExtraKeys, 0, 3) {
			r.Annots = append(r.Annots, gen.Annot{Key: k, Val: aGenVal(t, "val_extra", "any")})
		}
		if len(r.Annots) > 1 && rapid.Bool().Draw(t, "shuffle") {
			r.Annots = rapid.Permutation(r.Annots).Draw(t, "annot_order")
		}
	}
	return c
}
