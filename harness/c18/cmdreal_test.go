package c18

// Real commands on real outputs that fail part-way (complements cmd_test.go, whose
// /dev/full fails from the first byte and whose closed pipe is file descriptor 1):
//
//	file_o          -o <regular file>, file size limit of K bytes (RLIMIT_FSIZE set by
//	                `faultcmd -limitexec K`, SIGXFSZ ignored: write(2) answers EFBIG
//	                beyond K as it answers ENOSPC on a full disk)
//	file_stdout     standard output redirected to a regular file, same limit
//	fifo_o          -o <named pipe> whose reader takes K bytes and leaves
//	pipe_devstdout  -o /dev/stdout, the standard output being a pipe whose reader takes K
//	                bytes and leaves (the command writes through a descriptor that is
//	                not 1: it gets the EPIPE error, not the SIGPIPE signal)
//	fulldisk_o      -o <file on a tmpfs of K bytes> mounted in a private user+mount
//	                namespace (`unshare -Urm`): a really full disk, ENOSPC.  Skipped and
//	                counted when the machine does not allow unprivileged namespaces.
//
// Domain decisions (additions)
//
//   - T = the content of the output of the same command line without limit.
//   - file_*: K < |T| => failure required; K >= |T| => no write fails: a successful
//     exit with the complete output is required (a healthy run that fails is run
//     again up to three times, as everywhere).  Whatever K: exit status 0 with a
//     file that does not hold the complete output is a violation.
//   - fulldisk_o: the tmpfs holds at most ceil(K/4096) pages of data: |T| above
//     that => failure required.  Below, whether everything fits is the business
//     of the file system: only "exit 0 => the file holds |T| bytes" is checked.
//   - fifo_o / pipe_devstdout: |T| > K + capacity of the pipe => failure required
//     (death by SIGPIPE accepted as everywhere); K >= |T| => success required.
//     K >= 1: a reader that takes nothing may leave before the command has opened
//     its end of the pipe, and that open then waits for a reader for ever - not a
//     write failure.
//   - obicsv is driven through its standard output only (see main_test.go).

import (
	"bytes"
	"fmt"
	"io"
	"os"
	"path/filepath"
	"regexp"
	"strconv"
	"strings"
	"sync"
	"syscall"
	"testing"
	"time"

	"pgregory.net/rapid"

	"verifharness/internal/evid"
	"verifharness/internal/run"
)

func (c ccase) realCheckName() string {
	switch c.Mode {
	case "fifo_o", "pipe_devstdout":
		return "cmd_" + c.Cmd + "_realpipe"
	case "fulldisk_o":
		return "cmd_" + c.Cmd + "_fulldisk"
	}
	return "cmd_" + c.Cmd + "_file"
}

// ------------------------------------------------------------------ a full disk

var (
	fullDiskOnce sync.Once
	fullDiskOK   bool
)

const fullDiskScript = `mount -t tmpfs -o size="$1" tmpfs "$2" || exit 96
d="$2"; shift 2
"$@"
rc=$?
echo "C18DISK size=$(wc -c < "$d/out.dat" 2>/dev/null)" >&2
exit $rc`

func fullDiskArgv(k int, mnt string, argv []string) []string {
	return append([]string{"/usr/bin/unshare", "-Urm", "/bin/sh", "-c", fullDiskScript, "sh", strconv.Itoa(k), mnt}, argv...)
}

// fullDiskAvailable: can this machine mount a tmpfs in a private namespace?
func fullDiskAvailable() bool {
	fullDiskOnce.Do(func() {
		dir, err := os.MkdirTemp(run.WorkDir(), "c18probe")
		if err != nil {
			return
		}
		defer os.RemoveAll(dir)
		for attempt := 0; attempt < 3; attempt++ {
			p := spawnOnce(fullDiskArgv(4096, dir, []string{"/bin/sh", "-c", ": > \"$0\"/out.dat", dir}), nil, nil, nil)
			if p.Exit == 0 && bytes.Contains(p.Stderr, []byte("C18DISK size=0")) {
				fullDiskOK = true
				return
			}
			if !p.inconclusive() {
				return
			}
		}
	})
	return fullDiskOK
}

var reDiskSize = regexp.MustCompile(`(?m)^C18DISK size=(\d+)`)

// ------------------------------------------------------------------ one run

type realOutcome struct {
	P         procResult
	Delivered int64 // bytes in the file / taken by the reader; -1 unknown
	Content   []byte
	HaveData  bool // Content is the complete content of the output file
	PipeCap   int
	What      string
	Skip      string // the mode cannot be played here
}

func runCommandReal(c ccase, input string, k int) realOutcome {
	o := realOutcome{Delivered: -1}
	dir := filepath.Dir(input)
	args := c.args(input)
	bin := run.Bin(c.Cmd)
	out := filepath.Join(dir, "out.dat")
	os.Remove(out)
	limit := []string{run.Bin("faultcmd"), "-limitexec", strconv.Itoa(k)}
	retry := func(f func() procResult) {
		for attempt := 0; attempt < 4; attempt++ {
			if attempt > 0 {
				time.Sleep(time.Duration(attempt) * 500 * time.Millisecond)
			}
			o.P = f()
			if o.P.TimedOut || !o.P.inconclusive() {
				return
			}
		}
	}
	switch c.Mode {
	case "file_o":
		a := append([]string{"-o", out}, args...)
		o.What = fmt.Sprintf("%s %s  [file size limit %d bytes]", c.Cmd, strings.Join(a, " "), k)
		retry(func() procResult {
			os.Remove(out)
			return spawnOnce(append(append(limit, bin), a...), c.env(), nil, nil)
		})
		if b, err := os.ReadFile(out); err == nil {
			o.Content, o.HaveData, o.Delivered = b, true, int64(len(b))
		}
	case "file_stdout":
		o.What = fmt.Sprintf("%s %s > <regular file>  [file size limit %d bytes]", c.Cmd, strings.Join(args, " "), k)
		retry(func() procResult {
			f, err := os.OpenFile(out, os.O_WRONLY|os.O_CREATE|os.O_TRUNC, 0o644)
			if err != nil {
				return procResult{Exit: -1, Err: err}
			}
			defer f.Close()
			return spawnOnce(append(append(limit, bin), args...), c.env(), f, nil)
		})
		if b, err := os.ReadFile(out); err == nil {
			o.Content, o.HaveData, o.Delivered = b, true, int64(len(b))
		}
	case "fulldisk_o":
		if !fullDiskAvailable() {
			o.Skip = "fulldisk_unavailable_skipped"
			return o
		}
		mnt := filepath.Join(dir, "disk")
		os.Mkdir(mnt, 0o755)
		a := append([]string{"-o", filepath.Join(mnt, "out.dat")}, args...)
		o.What = fmt.Sprintf("%s %s  [tmpfs of %d bytes mounted on %s]", c.Cmd, strings.Join(a, " "), k, mnt)
		retry(func() procResult {
			return spawnOnce(fullDiskArgv(k, mnt, append([]string{bin}, a...)), c.env(), nil, nil)
		})
		if o.P.Exit == 96 {
			o.Skip = "fulldisk_mount_failed_skipped"
			return o
		}
		if m := reDiskSize.FindSubmatch(o.P.Stderr); m != nil {
			o.Delivered, _ = strconv.ParseInt(string(m[1]), 10, 64)
		}
	case "fifo_o":
		fifo := filepath.Join(dir, "out.fifo")
		a := append([]string{"-o", fifo}, args...)
		retry(func() procResult {
			os.Remove(fifo)
			if err := syscall.Mkfifo(fifo, 0o600); err != nil {
				return procResult{Exit: -1, Err: err}
			}
			// the reader is there before the command starts; a second writer keeps the
			// reader from meeting an end of file before the command has opened the pipe
			rd, err := os.OpenFile(fifo, os.O_RDONLY|syscall.O_NONBLOCK, 0)
			if err != nil {
				return procResult{Exit: -1, Err: err}
			}
			ka, err := os.OpenFile(fifo, os.O_WRONLY|syscall.O_NONBLOCK, 0)
			if err != nil {
				rd.Close()
				return procResult{Exit: -1, Err: err}
			}
			o.PipeCap = pipeCapacity(rd, c.PipeCap)
			p := spawnOnce(append([]string{bin}, a...), c.env(), nil, func(wait func()) {
				go func() { wait(); ka.Close() }()
				o.Delivered, _ = io.CopyN(io.Discard, rd, int64(k))
				rd.Close() // the reader goes away
			})
			rd.Close() // when the start failed
			ka.Close()
			return p
		})
		o.What = fmt.Sprintf("%s %s  [reader of the named pipe takes %d bytes and leaves; pipe capacity %d]", c.Cmd, strings.Join(a, " "), k, o.PipeCap)
	case "pipe_devstdout":
		a := append([]string{"-o", "/dev/stdout"}, args...)
		retry(func() procResult {
			pr, pw, err := os.Pipe()
			if err != nil {
				return procResult{Exit: -1, Err: err}
			}
			o.PipeCap = pipeCapacity(pw, c.PipeCap)
			p := spawnOnce(append([]string{bin}, a...), c.env(), pw, func(wait func()) {
				pw.Close()
				o.Delivered, _ = io.CopyN(io.Discard, pr, int64(k))
				pr.Close()
			})
			pw.Close() // when the start failed
			pr.Close()
			return p
		})
		o.What = fmt.Sprintf("%s %s | (take %d bytes; leave)  [pipe capacity %d]", c.Cmd, strings.Join(a, " "), k, o.PipeCap)
	}
	return o
}

// pipeCapacity asks for a capacity and returns the one the kernel reports (1 MiB,
// the largest an unprivileged pipe can have, when it does not say).
func pipeCapacity(f *os.File, want int) int {
	if want > 0 {
		syscall.Syscall(syscall.SYS_FCNTL, f.Fd(), fSetPipeSz, uintptr(want))
	}
	sz, _, errno := syscall.Syscall(syscall.SYS_FCNTL, f.Fd(), fGetPipeSz, 0)
	if errno != 0 {
		return 1 << 20
	}
	return int(sz)
}

// ------------------------------------------------------------------ the oracle

func checkCommandReal(c ccase) error {
	_, err := judgeCommandReal(c, false)
	return err
}

func judgeCommandReal(c ccase, count bool) (string, error) {
	name := c.realCheckName()
	if err := c.validate(); err != nil {
		return name, fmt.Errorf("invalid case: %v", err)
	}
	switch c.Mode {
	case "file_o", "file_stdout", "fulldisk_o":
		if c.K < 0 {
			return name, fmt.Errorf("invalid case: limit %d", c.K)
		}
	case "fifo_o", "pipe_devstdout":
		if c.K < 1 {
			return name, fmt.Errorf("invalid case: the reader must take at least one byte (domain decision)")
		}
	default:
		return name, fmt.Errorf("invalid case: mode %q is not a real-output mode", c.Mode)
	}
	input, cleanup, err := writeInput(c)
	if err != nil {
		evid.Class("infrastructure_skipped", 1)
		return name, nil
	}
	defer cleanup()
	r := getCmdRef(c, input)
	if r.Timeout {
		evid.Class("timeout_inconclusive", 1)
		return name, nil
	}
	if r.Err != nil {
		return name, r.Err
	}
	size := int64(len(r.T))

	o := runCommandReal(c, input, c.K)
	var mustFail, mustSucceed bool
	switch c.Mode {
	case "file_o", "file_stdout":
		mustFail = int64(c.K) < size
		mustSucceed = !mustFail
	case "fulldisk_o":
		pages := (int64(c.K) + 4095) / 4096
		mustFail = size > pages*4096
	default:
		mustFail = size > int64(c.K)+int64(o.PipeCap)
		mustSucceed = int64(c.K) >= size
	}
	if count {
		labels := []string{"cmd:" + c.Cmd, "format:" + c.Format, "mode:" + c.Mode, fmt.Sprintf("gzip:%v", c.Gzip)}
		switch {
		case size >= 1<<20:
			labels = append(labels, "output>=1MiB")
		case size >= 65536:
			labels = append(labels, "output>=64KiB")
		case size >= 4096:
			labels = append(labels, "output>=4KiB")
		default:
			labels = append(labels, "output<4KiB")
		}
		switch {
		case mustFail:
			labels = append(labels, "verdict:failure_required")
			if size-int64(c.K) <= 4096 && c.Mode != "fulldisk_o" {
				labels = append(labels, "fault_within_last_4KiB")
			}
		case mustSucceed:
			labels = append(labels, "verdict:success_required")
		default:
			labels = append(labels, "failure_not_certain:no_verdict")
		}
		evid.Eval(name, evid.Hash(c.key()), mustFail, c, labels...)
	}
	if o.Skip != "" {
		evid.Class(o.Skip, 1)
		return name, nil
	}
	if o.P.inconclusive() {
		evid.Class("timeout_inconclusive", 1)
		return name, nil
	}
	if o.P.Err != nil {
		evid.Class("infrastructure_skipped", 1)
		return name, nil
	}
	if o.P.Exit == 98 && bytes.Contains(o.P.Stderr, []byte("FAULTCMD usage-error")) {
		return name, fmt.Errorf("harness infrastructure: %s", tail(o.P.Stderr, 300))
	}

	failed := o.P.failed()
	// whatever the limit: a successful exit goes with the complete output
	if !failed && o.Delivered >= 0 && c.Mode != "fifo_o" && c.Mode != "pipe_devstdout" {
		if o.Delivered != size || (o.HaveData && !sameOutput(c.Gzip, o.Content, r.T)) {
			return name, fmt.Errorf("%s: exit status 0 although the output holds %d bytes and the complete output (same command without limit) %d bytes; stderr: %s",
				o.What, o.Delivered, size, tail(messagesBytes(o.P.Stderr), 600))
		}
	}
	switch {
	case mustFail:
		if !failed {
			return name, fmt.Errorf("%s: exit status 0 although only %d of the %d bytes of the complete output were delivered; stderr: %s",
				o.What, o.Delivered, size, tail(messagesBytes(o.P.Stderr), 600))
		}
		if o.P.Signaled && o.P.Signal == syscall.SIGPIPE {
			evid.Class("cmd_outcome:sigpipe", 1)
			return name, nil
		}
		evid.Class("cmd_outcome:nonzero_exit", 1)
		if len(messages(stripDiskLine(o.P.Stderr), "")) == 0 {
			return name, fmt.Errorf("%s: exit status %d (signal: %v) but no message on stderr beyond the informational log lines: %s",
				o.What, o.P.Exit, o.P.Signaled, tail(o.P.Stderr, 600))
		}
	case mustSucceed:
		// the run is then a healthy run: only a failure repeated three times is reported
		for attempt := 0; failed && attempt < 2; attempt++ {
			evid.Class("healthy_run_failed_and_retried", 1)
			o = runCommandReal(c, input, c.K)
			if o.P.inconclusive() || o.P.Err != nil {
				evid.Class("timeout_inconclusive", 1)
				return name, nil
			}
			failed = o.P.failed()
		}
		if failed {
			return name, fmt.Errorf("%s: no write can fail (complete output: %d bytes) but the command exited with status %d three times in a row; stderr: %s",
				o.What, size, o.P.Exit, tail(messagesBytes(o.P.Stderr), 600))
		}
		if (c.Mode == "fifo_o" || c.Mode == "pipe_devstdout") && o.Delivered != size {
			return name, fmt.Errorf("%s: exit status 0, the reader was ready to take the whole output (%d bytes) and received %d bytes",
				o.What, size, o.Delivered)
		}
	default:
		if failed {
			evid.Class("cmd_outcome:failed_when_not_certain", 1)
		}
	}
	return name, nil
}

func stripDiskLine(stderr []byte) []byte { return reDiskSize.ReplaceAll(stderr, nil) }

// ------------------------------------------------------------------ generator

func TestPropCommandsReal(t *testing.T) {
	rapid.Check(t, func(rt *rapid.T) {
		var c ccase
		c.Cmd = rapid.SampledFrom([]string{"obiconvert", "obiconvert", "obiconvert", "obiconvert", "obicsv"}).Draw(rt, "cmd")
		if c.Cmd == "obicsv" {
			c.Format = "csv"
			c.Mode = "file_stdout"
		} else {
			c.Format = rapid.SampledFrom([]string{"fasta", "fasta", "fastq", "json"}).Draw(rt, "format")
			c.Mode = rapid.SampledFrom([]string{"file_o", "file_o", "file_o", "file_stdout", "file_stdout", "fifo_o", "fifo_o", "pipe_devstdout", "fulldisk_o"}).Draw(rt, "mode")
		}
		c.Gzip = rapid.IntRange(0, 3).Draw(rt, "gzip") == 0
		c.MaxCPU = rapid.SampledFrom([]int{0, 0, 1, 4}).Draw(rt, "maxcpu")
		c.Jitter = rapid.SampledFrom([]int{0, 0, 100}).Draw(rt, "jitter")
		switch rapid.SampledFrom([]string{"reads", "reads", "reads", "long", "small"}).Draw(rt, "shape") {
		case "reads": // what a user converts: hundreds of KiB to MiB, chunks of the default batch size
			c.NRec = rapid.SampledFrom([]int{1500, 4000, 4000, evid.Pick(12000, 40000)}).Draw(rt, "nrec")
			c.SeqLen = rapid.SampledFrom([]int{60, 150}).Draw(rt, "seqlen")
			c.Batch = rapid.SampledFrom([]int{0, 0, 0, 100, 1000}).Draw(rt, "batch")
		case "long": // records larger than every buffer
			c.NRec = rapid.SampledFrom([]int{2, 5}).Draw(rt, "nrec")
			c.SeqLen = rapid.SampledFrom([]int{70000, 200000}).Draw(rt, "seqlen")
		default:
			c.NRec = rapid.SampledFrom([]int{1, 5, 30}).Draw(rt, "nrec")
			c.SeqLen = rapid.SampledFrom([]int{20, 80}).Draw(rt, "seqlen")
			c.Batch = rapid.SampledFrom([]int{0, 1, 7}).Draw(rt, "batch")
		}
		if c.Mode == "fifo_o" || c.Mode == "pipe_devstdout" {
			c.PipeCap = rapid.SampledFrom([]int{4096, 4096, 65536}).Draw(rt, "pipecap")
		}
		// the limit is drawn from the landmarks of the complete output
		size := 0
		if input, cleanup, err := writeInput(c); err == nil {
			if r := getCmdRef(c, input); r.Err == nil && !r.Timeout {
				size = len(r.T)
			}
			cleanup()
		}
		switch rapid.IntRange(0, 4).Draw(rt, "limit_kind") {
		case 0, 1:
			c.K = rapid.IntRange(0, size+2).Draw(rt, "k")
		case 2:
			c.K = max(0, size-rapid.IntRange(1, 4097).Draw(rt, "from_end"))
		default:
			c.K = max(0, rapid.SampledFrom([]int{0, 1, 4095, 4096, 4097, 65535, 65536, 65537, 131072, 1 << 20, size / 2, size - 1, size, size + 1, size + 5000}).Draw(rt, "mark"))
		}
		switch c.Mode {
		case "fifo_o", "pipe_devstdout":
			c.K = max(1, c.K)
		case "fulldisk_o":
			c.K = max(4096, c.K) // size=0 means "no limit" for tmpfs
		}
		name, err := judgeCommandReal(c, true)
		if err != nil {
			evid.Fail(rt, name, c, err)
		}
	})
}
