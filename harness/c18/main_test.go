// Property C18 — output write failures are reported, never followed by a
// successful exit.
//
// Every case is decided on a real process: either harness/cmd/faultcmd (the body
// of a command's main around the REAL obiformats.Write* function and a failing
// io.WriteCloser; log.Fatalf is a real os.Exit(1) there) or the real obiconvert /
// obicsv binaries writing to /dev/full or to a pipe whose reader goes away.
//
// Domain decisions
//
//   - The output stream is the io.WriteCloser handed to WriteFasta / WriteFastq /
//     WriteJSON / WriteCSV (what os.Stdout or the opened file is for a command).
//     A fault offset k counts bytes of THAT stream, i.e. compressed bytes when
//     compression is on.
//   - "The stream fails" = a Write or Close call of the stream returned a non-nil
//     error to the library (the faulty stream prints a line each time it does so).
//     Oracle: (a) the stream returned an error at least once  =>  exit status != 0
//     (death by a signal or by a Go panic counts as non-zero) and at least one
//     line on stderr that is not an info/debug/warning log line;  (b) the stream
//     never returned an error  =>  exit status 0 and the stream holds exactly the
//     bytes T of the fault-free run of the same configuration (so a fault placed
//     below |T| that the program "avoids" by writing less is a violation too).
//     Nothing is asserted on the wording of the message.
//   - Fault kinds: the Write call that would store byte k (1) accepts the bytes
//     below k and returns (n<len(p), err), (2) accepts nothing and returns (0,
//     err) — both sticky: every later Write fails too, as on a full disk — (3)
//     accepts nothing, returns (0, err) once, later calls succeed (transient
//     error: the refused bytes are lost, which is still a failure of the output
//     by the statement), (4) every Write succeeds and Close returns an error.
//     A Write returning n<len(p) with a nil error breaks the io.Writer contract
//     and is not generated.  Zero-length Write calls never fail.
//   - A failing Close matters only when the library calls Close on the caller's
//     stream, i.e. when CloseFile is requested (C04 settles when Close is called);
//     without CloseFile the fault is "never reached" and rule (b) applies.
//   - Controlled arrival orders use ONE formatting worker (as C04 does): the push
//     order of the source is then the arrival order at the writer goroutine.
//     Runs with several workers (and schedule jitter) are judged by the same
//     oracle but never counted as non-trivial: which chunk was waiting when the
//     fault hit cannot be observed there.
//   - Records have >= 1 nucleotide (an empty sequence is a fatal error of the
//     FASTA/FASTQ formatters by design, not a write failure).
//   - Real commands: obicsv does not honour -o (CLIWriteCSV is called without a
//     file name, the CSV goes to stdout whatever -o says); it is therefore only
//     driven through its standard output (redirected to /dev/full or to a pipe).
//     That -o is ignored is not a write failure and not judged here.
//   - Closed pipe on stdout: the Go runtime turns EPIPE on file descriptor 1 into
//     SIGPIPE with the default action; death by SIGPIPE is the conventional
//     report of every Unix filter (`cmd | head`) and is accepted as "reported,
//     non-zero" without a message.  The verdict is only taken when the reference
//     output is larger than (bytes read by the harness + capacity of the pipe):
//     only then is it certain that some byte could not be delivered; below that
//     the kernel may have accepted everything before the reader went away and a
//     successful exit is legitimate.
//   - /dev/full fails every write(2) with ENOSPC: a command whose reference
//     output is non-empty must fail; with an empty reference output (never
//     generated: inputs hold >= 1 record) nothing would be written.
//   - The fault-free ("healthy") run of a configuration is the yardstick, not the
//     subject.  A healthy run of a real command that exits non-zero is run again
//     (up to three times) before it is reported: under load obiconvert was seen
//     to die about once in 2000 runs with a nil-pointer panic inside
//     goccy/go-json (mapDecoder.Decode called from _parse_json_header_ by several
//     header-parsing goroutines at start-up) - a defect of the input side that
//     this property does not speak about.  When the same crash strikes a run
//     whose output is made to fail, the run counts as "reported, non-zero".
//   - A subprocess that hits its 60 s kill timer is inconclusive: the case is
//     skipped and counted (class timeout_inconclusive), never a violation.
package c18

import (
	"testing"

	"verifharness/internal/evid"
)

func TestMain(m *testing.M) {
	evid.Tests(
		evid.Spec{Name: "TestReplay", Kind: "plain", QuickShards: 1, ThoroughShards: 1},
		evid.Spec{Name: "TestEnumSmall", Kind: "plain", QuickShards: 16, ThoroughShards: 16, TimeoutS: 3000},
		evid.Spec{Name: "TestEnumAboveBuffer", Kind: "plain", QuickShards: 16, ThoroughShards: 16, TimeoutS: 3000},
		evid.Spec{Name: "TestPropRandomFaults", Kind: "rapid", Quick: 560, Thorough: 24000, QuickShards: 8, ThoroughShards: 16, TimeoutS: 3000},
		evid.Spec{Name: "TestPropCommands", Kind: "rapid", Quick: 160, Thorough: 4000, QuickShards: 8, ThoroughShards: 16, TimeoutS: 3000},
		evid.Spec{Name: "TestEnumErrno", Kind: "plain", QuickShards: 8, ThoroughShards: 16, TimeoutS: 3000},
		evid.Spec{Name: "TestPropRealFiles", Kind: "rapid", Quick: 320, Thorough: 4000, QuickShards: 8, ThoroughShards: 16, TimeoutS: 3000},
		evid.Spec{Name: "TestPropRealPipes", Kind: "rapid", Quick: 160, Thorough: 2000, QuickShards: 8, ThoroughShards: 16, TimeoutS: 3000},
		evid.Spec{Name: "TestPropCommandsReal", Kind: "rapid", Quick: 160, Thorough: 1600, QuickShards: 8, ThoroughShards: 16, TimeoutS: 3000},
	)
	evid.Helpers("faultcmd")
	evid.Commands("obiconvert", "obicsv")
	evid.Note("rule", "A fault case = writer (WriteFasta, WriteFastq, WriteJSON, WriteCSV) x batches (record count each, 0 = empty batch) x arrival permutation x gzip on/off x CloseFile on/off x fault kind (short write + error, error only, both sticky; one transient error; error at Close) x byte offset k in the stream handed to the writer. Each case is one run of harness/cmd/faultcmd: the real Write* function on a failing io.WriteCloser, iterator consumed, obiiter.WaitForLastPipe, return from main; log.Fatalf is a real exit(1). Reference T = stream of the same configuration without fault (same helper, run once per configuration, with a trace of every Write call of the stream and whether Wfile.Close was executing). Oracle: the stream returned an error at least once => exit status != 0 and a non-info line on stderr; it never did => exit 0 and stream == T byte for byte. Enumerated: EVERY offset 0..|T|+1 of outputs of 230-350 bytes (everything sits in the 4 KiB buffer until the final flush; gzip streams 130-230 bytes) and of 5.7-6 KiB (buffer flushed once during the writes; gzip streams 1.3-2.1 KiB) for the 4 writers, plain and gzip, arrival orders in order / all buffered / alternating / last-first / one early chunk, the other dimensions (kind, CloseFile) fully crossed (small outputs) or rotated with k (6 KiB outputs) in the thorough tier; the quick tier enumerates every offset of the small uncompressed outputs (every third of the gzip ones) with the other dimensions rotated, and samples the 6 KiB offsets (a stride plus every buffer, chunk and stream boundary +-1); both tiers sample outputs of 20 KiB whose four chunks each exceed the buffer (stride + every boundary +-1, up to 3 chunks waiting when the fault strikes); random configurations up to 40 KiB (rarely > 1 MiB in the thorough tier, so that gzip blocks are written before Close) with 1..4 workers. Real commands: obiconvert (fasta, fastq, json, -Z) with -o /dev/full and stdout on /dev/full, obicsv with stdout on /dev/full, and stdout on a 4 KiB pipe whose read end is closed after k bytes (verdict only if |T| > k + pipe capacity; death by SIGPIPE accepted). Non-trivial = one formatting worker and (the failing Write call of the stream is issued while Wfile.Close runs, i.e. the fault is only visible at the final flush / gzip close, or the stream's Close fails and CloseFile is set, or >= 1 chunk was waiting in the re-sequencing buffer when the chunk whose Write hits the fault was written - derived from the arrival permutation with the C04 buffer model and the chunk boundaries found in T); for real commands: /dev/full with an output below 4 KiB or compressed (error only at flush/close). Distinct = hash of the whole case. Timed-out subprocesses are skipped and counted. ADDITIONS (real descriptors). (1) In half of the random fault cases and in a second enumeration (TestEnumErrno: every boundary +-1 and a stride of the 0.3, 6 and 20 KiB outputs x 4 writers x plain/gzip) the injected error is what the OS returns for a file: an *fs.PathError around EPIPE, ENOSPC, EIO or EDQUOT instead of a private value; same oracle. (2) TestPropRealFiles: faultcmd hands the real Write* / Write*ToFile / Write*ToStdout functions a REGULAR FILE (opened by the harness helper, by the library, or being file descriptor 1) under a file size limit L (RLIMIT_FSIZE, SIGXFSZ ignored: write(2) answers EFBIG beyond L as ENOSPC on a full disk); outputs from a few bytes to 1.5 MB (6 MB thorough) with chunks below 4 KiB, of 4-64 KiB, of 64 KiB-600 KiB (what the default batch size gives) and single records of 66-400 KB; L uniform in 0..|T|+2, at buffer sizes (4 KiB, 64 KiB, 1 MiB +-1), chunk starts +-1, within the last 4 KiB (failure only met by the final flush), |T|-1, |T|, |T|+1. Oracle: L < |T| => exit != 0 and a message; L >= |T| => exit 0 and the file holds the output of the run without limit (which must itself equal the text the injected stream receives). (3) TestPropRealPipes: same configurations on the write end of an os.Pipe and on a named pipe opened by Write*ToFile, the reader takes K bytes and leaves; |T| > K + capacity (4, 16 or 64 KiB, as reported by the kernel) => failure required, K >= |T| => success and complete output required, otherwise no verdict. (4) TestPropCommandsReal: obiconvert (fasta, fastq, json, -Z, batch sizes, --max-cpu, jitter) with -o <regular file> and with stdout redirected to a regular file under the same limit, obicsv with stdout on a limited regular file, obiconvert -o <named pipe> and -o /dev/stdout (a pipe reached through a descriptor that is not 1: EPIPE error instead of SIGPIPE) whose reader takes K >= 1 bytes and leaves, obiconvert -o <file on a tmpfs of K bytes in a private user+mount namespace> (real ENOSPC; skipped and counted where namespaces are not allowed); inputs of 1500-12000 reads (0.15-2.4 MB, 40000 reads thorough), 2-5 records of 70-200 kb, 1-30 short records. Oracle as in (2)/(3), plus: exit 0 => the output file holds exactly the complete output. Non-trivial for (2)-(4) = a failure is certain (the limit lies below |T|, resp. |T| > K + pipe capacity).")
	evid.Note("level", "fault_enumeration")
	evid.Main(m, "C18")
}

func TestReplay(t *testing.T) { evid.Replay(t) }

var writers = []string{"fasta", "fastq", "json", "csv"}

// phases of a fault (part of the check name, so that violations at different
// sites are reported and saved separately)
var phases = []string{"write", "flushclose", "closeerr", "notreached"}

func init() {
	for _, w := range writers {
		for _, z := range []string{"plain", "gz"} {
			for _, p := range phases {
				evid.Reg("fault_"+w+"_"+z+"_"+p, checkFault)
			}
		}
	}
	for _, cmd := range []string{"obiconvert", "obicsv"} {
		for _, m := range []string{"devfull", "pipe"} {
			evid.Reg("cmd_"+cmd+"_"+m, checkCommand)
		}
		for _, m := range []string{"file", "realpipe", "fulldisk"} {
			evid.Reg("cmd_"+cmd+"_"+m, checkCommandReal)
		}
	}
	for _, w := range writers {
		evid.Reg("real_file_"+w, checkReal)
		evid.Reg("real_pipe_"+w, checkReal)
	}
}
