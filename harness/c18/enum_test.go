package c18

import (
	"fmt"
	"sort"
	"testing"

	"verifharness/internal/evid"
)

// Enumerations of the fault offset.  The list of cases is built in a fixed order
// and case number i is run by shard i mod nshards.

type shape struct {
	Sizes  []int
	SeqLen int
}

// outputs of 230-350 bytes: everything stays in the 4 KiB buffer of the stream
// wrapper until the final flush
var smallShape = map[string]shape{
	"fasta": {[]int{2, 1, 2}, 30},
	"fastq": {[]int{1, 1, 2}, 30},
	"json":  {[]int{1, 1, 1}, 20},
	"csv":   {[]int{2, 1, 2}, 30},
}

// outputs of 5.7-6 KiB: the buffer is flushed once while the third chunk is
// written, the rest goes out at the final flush
var mediumShape = map[string]shape{
	"fasta": {[]int{3, 2, 3, 2}, 560},
	"fastq": {[]int{3, 2, 3, 2}, 280},
	"json":  {[]int{3, 2, 3, 2}, 500},
	"csv":   {[]int{3, 2, 3, 2}, 560},
}

// outputs of 19-20 KiB, every chunk larger than the buffer: the stream is written
// to while each of the four chunks is handed over, so that a fault can strike
// while up to three later chunks wait in the re-sequencing buffer
var largeShape = map[string]shape{
	"fasta": {[]int{2, 2, 2, 2}, 2400},
	"fastq": {[]int{2, 2, 2, 2}, 1200},
	"json":  {[]int{2, 2, 2, 2}, 2400},
	"csv":   {[]int{2, 2, 2, 2}, 2400},
}

var arrivals3 = [][]int{{0, 1, 2}, {2, 1, 0}, {1, 0, 2}, {0, 2, 1}}

// for 4 batches: in order; all buffered then drained; alternating; last-first
// (three drained after the first arrives last); one early chunk
var arrivals4 = [][]int{{0, 1, 2, 3}, {3, 2, 1, 0}, {1, 0, 3, 2}, {1, 2, 3, 0}, {0, 3, 2, 1}}

var writeKinds = []string{"short", "erronly", "once"}

type combo struct {
	Arrival []int
	Kind    string
	Close   bool
}

func combos(arrivals [][]int) []combo {
	var out []combo
	for _, cl := range []bool{true, false} {
		for _, k := range writeKinds {
			for _, a := range arrivals {
				out = append(out, combo{a, k, cl})
			}
		}
	}
	return out
}

// softTB lets an enumeration go on after a failure: the first failing case of
// every check name is saved and reported, the test is marked failed.
type softTB struct{ *testing.T }

func (s softTB) Fatalf(format string, a ...any) { s.T.Errorf(format, a...) }

func runEnum(t *testing.T, cases []fcase) {
	shard, n := evid.Shard(), evid.NShards()
	reported := map[string]bool{}
	for i, c := range cases {
		if i%n != shard {
			continue
		}
		name, err := evalFault(c)
		if err != nil && !reported[name] {
			reported[name] = true
			evid.Fail(softTB{t}, name, c, err)
		}
	}
}

// refLen returns |T| of the configuration (0 when the reference is unusable: the
// first case of the configuration then reports it).
func refLen(c fcase) int {
	r := getReference(c)
	if r.Err != nil || r.Timeout {
		return 0
	}
	return len(r.T)
}

func closeCases(w string, sh shape, arrivals [][]int, z bool) []fcase {
	var out []fcase
	for _, a := range arrivals {
		for _, cl := range []bool{true, false} {
			out = append(out, fcase{Writer: w, Sizes: sh.Sizes, Arrival: a, SeqLen: sh.SeqLen, Gzip: z, Close: cl, Workers: 1, Fault: "close"})
		}
	}
	return out
}

func TestEnumSmall(t *testing.T) {
	cb := combos(arrivals3)
	var cases []fcase
	for wi, w := range writers {
		sh := smallShape[w]
		for zi, z := range []bool{false, true} {
			base := fcase{Writer: w, Sizes: sh.Sizes, Arrival: arrivals3[0], SeqLen: sh.SeqLen, Gzip: z, Close: true, Workers: 1}
			size := refLen(base) // |T| does not depend on arrival order nor on CloseFile
			for k := 0; k <= size+1; k++ {
				if evid.Thorough() {
					for _, x := range cb {
						c := base
						c.Arrival, c.Fault, c.Close, c.K = x.Arrival, x.Kind, x.Close, int64(k)
						cases = append(cases, c)
					}
					continue
				}
				// quick: every offset of the plain stream, every third one of the gzip
				// stream (plus its header, trailer and end), the other dimensions rotated
				if z && k%3 != 0 && k > 11 && k < size-9 {
					continue
				}
				x := cb[(k+wi*7+zi*13)%len(cb)]
				c := base
				c.Arrival, c.Fault, c.Close, c.K = x.Arrival, x.Kind, x.Close, int64(k)
				cases = append(cases, c)
			}
			cases = append(cases, closeCases(w, sh, arrivals3, z)...)
		}
	}
	runEnum(t, cases)
	if evid.Thorough() {
		evid.Exhaustive("faultcmd, outputs of 230-350 bytes: every stream offset 0..|T|+1 x 4 writers x plain/gzip x 4 arrival orders of 3 batches x {short write, error only, transient error} x CloseFile on/off; Close failure for every such configuration")
	} else {
		evid.Exhaustive("faultcmd, outputs of 230-350 bytes, uncompressed: every stream offset 0..|T|+1 x 4 writers (arrival order, fault kind, CloseFile rotated with the offset)")
	}
}

// keyOffsets lists the offsets around every boundary of the fault-free run: start,
// gzip header, the Write calls of the stream, the chunk starts (uncompressed
// streams), the end of the stream.
func keyOffsets(c fcase, stride int) []int {
	r := getReference(c)
	if r.Err != nil || r.Timeout {
		return []int{0}
	}
	size := len(r.T)
	set := map[int]bool{}
	add := func(v int) {
		for d := -1; d <= 1; d++ {
			if v+d >= 0 && v+d <= size+1 {
				set[v+d] = true
			}
		}
	}
	add(0)
	add(size)
	if c.Gzip {
		add(10)
		add(size - 8)
	} else {
		for _, b := range r.Bounds {
			add(b)
		}
	}
	for _, w := range r.Writes {
		add(int(w.Off))
		add(int(w.Off + w.Len))
	}
	if stride > 0 {
		for k := stride / 2; k < size; k += stride {
			set[k] = true
		}
	}
	out := make([]int, 0, len(set))
	for k := range set {
		out = append(out, k)
	}
	sort.Ints(out)
	return out
}

func TestEnumAboveBuffer(t *testing.T) {
	cb := combos(arrivals4)
	buffered := [][]int{arrivals4[1], arrivals4[3], arrivals4[4]}
	light := [][]int{arrivals4[0], arrivals4[2]}
	var cases []fcase
	for wi, w := range writers {
		sh := mediumShape[w]
		for zi, z := range []bool{false, true} {
			base := fcase{Writer: w, Sizes: sh.Sizes, Arrival: arrivals4[0], SeqLen: sh.SeqLen, Gzip: z, Close: true, Workers: 1}
			size := refLen(base)
			mk := func(k int, a []int, kind string, cl bool) {
				c := base
				c.Arrival, c.Fault, c.Close, c.K = a, kind, cl, int64(k)
				cases = append(cases, c)
			}
			if evid.Thorough() {
				// every offset x three arrival orders (kind and CloseFile rotated) ...
				for k := 0; k <= size+1; k++ {
					for ai, a := range [][]int{arrivals4[0], arrivals4[1], arrivals4[2]} {
						r := k + ai + wi + zi
						mk(k, a, writeKinds[r%3], (r/3)%2 == 0)
					}
				}
				// ... and the full cross product around every boundary
				for _, k := range keyOffsets(base, 0) {
					for _, x := range cb {
						mk(k, x.Arrival, x.Kind, x.Close)
					}
				}
			} else {
				stride := size / 24
				for i, k := range keyOffsets(base, stride) {
					r := i + wi*5 + zi*3
					mk(k, buffered[r%3], writeKinds[r%3], (r/3)%2 == 0)
					mk(k, buffered[(r+1)%3], writeKinds[(r+2)%3], (r/3)%2 == 1)
					mk(k, light[r%2], writeKinds[(r+1)%3], (r/3)%2 == 1)
				}
			}
			cases = append(cases, closeCases(w, sh, arrivals4, z)...)
		}
	}
	// sampled offsets of the 20 KiB outputs
	for wi, w := range writers {
		sh := largeShape[w]
		for zi, z := range []bool{false, true} {
			base := fcase{Writer: w, Sizes: sh.Sizes, Arrival: arrivals4[0], SeqLen: sh.SeqLen, Gzip: z, Close: true, Workers: 1}
			size := refLen(base)
			mk := func(k int, a []int, kind string, cl bool) {
				c := base
				c.Arrival, c.Fault, c.Close, c.K = a, kind, cl, int64(k)
				cases = append(cases, c)
			}
			if evid.Thorough() {
				for i, k := range keyOffsets(base, max(1, size/256)) {
					r := i + wi + zi
					for ai, a := range arrivals4 {
						mk(k, a, writeKinds[(r+ai)%3], ((r+ai)/3)%2 == 0)
					}
				}
				for _, k := range keyOffsets(base, 0) {
					for _, x := range cb {
						mk(k, x.Arrival, x.Kind, x.Close)
					}
				}
			} else {
				for i, k := range keyOffsets(base, max(1, size/8)) {
					r := i + wi*5 + zi*3
					mk(k, buffered[r%3], writeKinds[r%3], (r/3)%2 == 0)
					mk(k, arrivals4[(r+1)%5], writeKinds[(r+1)%3], (r/3)%2 == 1)
				}
			}
		}
	}
	runEnum(t, cases)
	if evid.Thorough() {
		evid.Exhaustive(fmt.Sprintf("faultcmd, outputs of 5.7-6 KiB (4 KiB buffer flushed during the writes): every stream offset 0..|T|+1 x 4 writers x plain/gzip x arrival orders %v (fault kind and CloseFile rotated with the offset)", [][]int{arrivals4[0], arrivals4[1], arrivals4[2]}))
	}
}
