package c18

// Transient output faults: the stream refuses for a while and then works again.
//
// Domain decisions (additions)
//
//   - A transient fault = the Write call of the stream that would store byte k
//     returns an error after having accepted the bytes below k (tshort) or nothing
//     (terronly); the following Repeat-1 Write calls fail as well (accepting Step
//     bytes, fewer than offered); every later call succeeds.  The error is EAGAIN
//     or EINTR - what a descriptor switched to non-blocking mode by another holder
//     of the same pipe/tty, or a write interrupted by a signal, answer - as an
//     *fs.PathError (what os.File returns), as the bare syscall.Errno, or a private
//     value.  The stream never loses nor repeats a byte it accepted.
//   - shortnil: one Write call accepts n bytes, 1 <= n < len(p), and returns a nil
//     error.  This breaks the io.Writer contract and is only generated for
//     UNCOMPRESSED outputs, where the stream is written by a bufio.Writer, which
//     defines what happens then (io.ErrShortWrite on a flush; the rest is sent
//     again on a direct write); the gzip writer ignores the count (not generated).
//   - Oracle.  The statement demands "reports the failure and exits with a
//     non-zero status" when a write fails and forbids a successful exit when some
//     bytes of the result did not reach the output.  A program may legitimately
//     ride out an error that only says "try again" - but then every byte must
//     arrive.  So, for these kinds: exit status != 0 => a message on stderr (when
//     the stream refused at least once; if it never did, rule (b) of the package:
//     exit 0 and the complete output);  exit status 0 => the bytes the stream
//     received are EXACTLY the fault-free output T: no hole, nothing twice, same
//     order.  (The unchanged code treats every such error as fatal.)
//   - Real command: the standard output is a pipe created in blocking mode; once
//     the first bytes have come through, the harness helper sets O_NONBLOCK on its
//     own copy of the write end (one open file description: the command's
//     descriptor 1 becomes non-blocking behind its back) and reads slowly, so that
//     write(2) answers EAGAIN when the pipe is full.  Whether and where the
//     command meets EAGAIN depends on the schedule; the oracle does not: exit 0 =>
//     the bytes received are exactly the output of the healthy run, exit != 0 => a
//     message.  A case counts as non-trivial only when the command observably met
//     the fault (it failed, or its output is not the healthy one).

import (
	"bytes"
	"context"
	"errors"
	"fmt"
	"os"
	"os/exec"
	"path/filepath"
	"strconv"
	"strings"
	"syscall"
	"testing"
	"time"

	"pgregory.net/rapid"

	"verifharness/internal/evid"
	"verifharness/internal/run"
)

func init() {
	evid.Tests(
		evid.Spec{Name: "TestEnumTransient", Kind: "plain", QuickShards: 16, ThoroughShards: 16, TimeoutS: 3000},
		evid.Spec{Name: "TestPropTransientFaults", Kind: "rapid", Quick: 1600, Thorough: 16000, QuickShards: 8, ThoroughShards: 16, TimeoutS: 3000},
		evid.Spec{Name: "TestPropCommandsNonblock", Kind: "rapid", Quick: 96, Thorough: 640, QuickShards: 8, ThoroughShards: 16, TimeoutS: 3000},
	)
	evid.Note("rule_transient", "TRANSIENT FAULTS. faultcmd kinds tshort / terronly: the Write call of the stream that would store byte k returns (bytes below k | 0, err), the next Repeat-1 calls return (Step < len(p), err), later calls succeed; err = EAGAIN or EINTR as *fs.PathError, as bare syscall.Errno, or a private value; shortnil (uncompressed only): one call returns (1 <= n < len(p), nil). Oracle: exit != 0 => a message on stderr; exit 0 => the stream received exactly the fault-free output T (no hole, no duplicate); fault never met => exit 0 and T. Configurations: those of the random fault cases plus MANY SMALL CHUNKS (8-60 batches of 0-4 records, every chunk well below the 4 KiB buffer, 5-40 KiB in all, so that the fault strikes the flush of a buffer that holds the tail of earlier chunks and the head of the current one), arrival in order / reversed / neighbours swapped / any permutation, plain and gzip, CloseFile on/off, 1 (mostly) to 4 workers; offsets from the boundaries of the fault-free run +-1 or uniform. TestEnumTransient: 30 chunks of 350-560 bytes (10-17 KiB, 2-4 buffer flushes before the final one) and the 5.7-6 KiB outputs, 4 writers: every chunk boundary, every stream Write boundary, start and end +-1 and a stride (quick: |T|/48; thorough: every offset for fasta and json, every third for fastq and csv), kind x errno form x arrival x CloseFile x Repeat/Step rotated with the offset; gzip: every boundary. Non-trivial = one formatting worker and the failing Write call is issued before Wfile.Close runs (output follows the fault: resuming after it must neither drop nor repeat bytes). TestPropCommandsNonblock: obiconvert (fasta, fastq, json; --batch-size 3..default; --max-cpu; one input file or, 2 cases in 3, the records spread over 80-800 input files of 1-10 records, so that the writer receives many blocks far below 4 KiB) and obicsv with stdout on a pipe of 4-64 KiB made non-blocking behind the command's back after its first bytes, reader pausing 0-3 ms per 4 KiB; 57-400 KB of output; oracle as above against the healthy run; non-trivial = the command observably met the fault (non-zero exit or output different from the healthy one).")
	for _, w := range writers {
		for _, z := range []string{"plain", "gz"} {
			evid.Reg("transient_"+w+"_"+z, checkFault)
		}
	}
	for _, cmd := range []string{"obiconvert", "obicsv"} {
		evid.Reg("cmd_"+cmd+"_nonblock", checkNonblock)
	}
}

func (c fcase) transient() bool {
	switch c.Fault {
	case "tshort", "terronly", "shortnil":
		return true
	}
	return false
}

func (c fcase) validateTransient() error {
	if c.Repeat < 0 || c.Repeat > 16 || c.Step < 0 {
		return fmt.Errorf("repeat must be in 0..16 and step >= 0")
	}
	if c.Fault == "shortnil" && c.Gzip {
		return fmt.Errorf("a short write without error is only generated for uncompressed outputs (domain decision)")
	}
	if c.Raw && c.Errno == "" {
		return fmt.Errorf("raw needs an errno")
	}
	return nil
}

// ------------------------------------------------------------------ running

// what a Go program that could not get a thread or memory prints; the text of
// EAGAIN itself ("resource temporarily unavailable"), which run.Cmd also takes for
// such a death, is here the very error the program under test has to report
var exhaustionMarksNoEagain = []string{
	"failed to create new OS thread",
	"runtime: out of memory",
	"cannot allocate memory",
	"pthread_create failed",
	"fork/exec",
}

func exhausted(r run.Result) bool {
	if r.Exit == 0 {
		return false
	}
	for _, m := range exhaustionMarksNoEagain {
		if bytes.Contains(r.Stderr, []byte(m)) {
			return true
		}
	}
	return r.Err != nil && r.Exit == -1 && !r.TimedOut
}

// runTransient runs a helper as run.Cmd does (clean environment, private working
// directory, own process group, 60 s kill timer, a death by resource exhaustion is
// retried), except that EAGAIN reported on stderr is not a reason to run it again.
func runTransient(env []string, name string, args ...string) run.Result {
	var r run.Result
	for attempt := 0; attempt < 4; attempt++ {
		r = runOnce(env, name, args...)
		if !exhausted(r) {
			return r
		}
		time.Sleep(time.Duration(attempt+1) * 500 * time.Millisecond)
	}
	return r
}

func runOnce(env []string, name string, args ...string) run.Result {
	ctx, cancel := context.WithTimeout(context.Background(), 60*time.Second)
	defer cancel()
	c := exec.CommandContext(ctx, run.Bin(name), args...)
	c.Env = append([]string{"PATH=/usr/bin:/bin", "HOME=" + run.WorkDir(), "TMPDIR=" + run.WorkDir()}, env...)
	c.Dir = run.WorkDir()
	var so, se bytes.Buffer
	c.Stdout, c.Stderr = &so, &se
	c.SysProcAttr = &syscall.SysProcAttr{Setpgid: true}
	c.Cancel = func() error { return syscall.Kill(-c.Process.Pid, syscall.SIGKILL) }
	t0 := time.Now()
	err := c.Run()
	r := run.Result{Stdout: so.Bytes(), Stderr: se.Bytes(), Wall: time.Since(t0), Err: err}
	if ctx.Err() != nil {
		r.TimedOut = true
		r.Exit = -1
		return r
	}
	var ee *exec.ExitError
	switch {
	case err == nil:
		r.Exit = 0
	case errors.As(err, &ee):
		r.Exit = ee.ExitCode()
	default:
		r.Exit = -1
	}
	return r
}

// ------------------------------------------------------------------ oracle

func firstDiff(a, b []byte) int {
	n := min(len(a), len(b))
	for i := 0; i < n; i++ {
		if a[i] != b[i] {
			return i
		}
	}
	return n
}

func around(b []byte, at int) string {
	lo, hi := max(0, at-40), min(len(b), at+60)
	if lo >= hi {
		return ""
	}
	return string(b[lo:hi])
}

func judgeTransient(c fcase, r *reference, o outcome, what string) error {
	met := o.Hits > 0 || o.ShortNil > 0
	if !met {
		evid.Class("outcome:stream_never_failed", 1)
		if o.Exit != 0 || !o.Done {
			return fmt.Errorf("%s: the stream never refused anything but the process exited with status %d (main returned normally: %v); stderr: %s",
				what, o.Exit, o.Done, tail([]byte(o.Stderr), 600))
		}
	} else {
		evid.Class("outcome:transient_fault_met", 1)
	}
	if o.Exit != 0 {
		evid.Class("outcome:transient_fault_reported_nonzero_exit", 1)
		if len(o.Messages) == 0 {
			return fmt.Errorf("%s: the output stream failed (%s), exit status %d, but nothing was reported on stderr: %q",
				what, strings.Join(o.HitLines, " | "), o.Exit, o.Stderr)
		}
		return nil
	}
	// exit status 0: every byte of the result must have reached the stream, once
	if !bytes.Equal(o.Stream, r.T) {
		d := firstDiff(o.Stream, r.T)
		return fmt.Errorf("%s: the output stream refused temporarily (%s) and then worked again; the process exited with status 0 (main returned normally: %v) and reported nothing (stderr messages: %q), but the stream received %d bytes and the complete (fault-free) output has %d bytes: first difference at offset %d, received …%q…, expected …%q… - bytes of the result did not reach the output (or reached it twice) and the exit status is 0",
			what, strings.Join(o.HitLines, " | "), o.Done, o.Messages, len(o.Stream), len(r.T), d, around(o.Stream, d), around(r.T, d))
	}
	if met {
		evid.Class("outcome:transient_fault_survived_with_complete_output", 1)
	}
	return nil
}

// classifyTransient adjusts the classification of a transient case: non-trivial =
// one worker and the fault is met by a Write call issued before Wfile.Close runs.
func classifyTransient(c fcase, r *reference, f fclass) fclass {
	f.Nontrivial = c.Workers == 1 && f.Phase == "write"
	rep := "transient_repeat:1"
	if c.Repeat > 1 {
		rep = "transient_repeat:>1"
	}
	form := "errno_form:private_value"
	if c.Errno != "" {
		form = "errno_form:patherror"
		if c.Raw {
			form = "errno_form:bare_errno"
		}
	}
	f.Labels = append(f.Labels, rep, form)
	if f.Phase == "write" && !c.Gzip {
		for _, w := range r.Writes {
			if w.Off+w.Len > c.K {
				// a bufio.Writer hands a block larger than its free space straight to the
				// stream only when it holds nothing; every other Write call of the stream
				// before Close is the flush of a full buffer of 4096 bytes
				if w.Len == 4096 {
					f.Labels = append(f.Labels, "transient_fault_in_flush_of_full_buffer")
					if w.Off <= c.K && c.K < w.Off+w.Len && c.K > w.Off {
						f.Labels = append(f.Labels, "transient_fault_inside_flushed_buffer")
					}
				} else {
					f.Labels = append(f.Labels, "transient_fault_in_direct_write_of_large_block")
				}
				break
			}
		}
	}
	return f
}

// ------------------------------------------------------------------ generators

// genManySmall: many chunks, each well below the 4 KiB buffer of the wrapper.
func genManySmall(t *rapid.T) fcase {
	c := fcase{Workers: 1}
	c.Writer = rapid.SampledFrom(writers).Draw(t, "writer")
	c.Gzip = rapid.IntRange(0, 3).Draw(t, "gzip") == 0
	c.Close = rapid.Bool().Draw(t, "close")
	n := rapid.SampledFrom([]int{8, 12, 17, 24, 30, 40, 60}).Draw(t, "nbatches")
	total := 0
	for b := 0; b < n; b++ {
		s := rapid.SampledFrom([]int{0, 1, 1, 2, 2, 3, 4}).Draw(t, "size")
		c.Sizes = append(c.Sizes, s)
		total += s
	}
	limit := 40000 / max(1, total)
	if c.Writer == "fastq" {
		limit /= 2
	}
	c.SeqLen = max(1, min(limit, rapid.SampledFrom([]int{1, 20, 60, 150, 300}).Draw(t, "seqlen")))
	id := make([]int, n)
	for i := range id {
		id[i] = i
	}
	switch rapid.IntRange(0, 9).Draw(t, "arrival_kind") {
	case 0, 1, 2:
		c.Arrival = id
	case 3:
		for i := n - 1; i >= 0; i-- {
			c.Arrival = append(c.Arrival, i)
		}
	case 4, 5, 6:
		c.Arrival = swapped(n)
	default:
		c.Arrival = rapid.Permutation(id).Draw(t, "arrival")
	}
	c.Workers = rapid.SampledFrom([]int{1, 1, 1, 1, 1, 2, 4}).Draw(t, "workers")
	if c.Workers > 1 {
		c.Jitter = rapid.SampledFrom([]int{0, 50, 400}).Draw(t, "jitter")
	}
	return c
}

// swapped: 1,0,3,2,... (every chunk waits for, or is followed by, its neighbour)
func swapped(n int) []int {
	a := make([]int, n)
	for i := range a {
		a[i] = i ^ 1
		if a[i] >= n {
			a[i] = i
		}
	}
	return a
}

var errnoForms = []struct {
	Errno string
	Raw   bool
}{{"eagain", false}, {"eagain", true}, {"eintr", false}, {"eintr", true}, {"", false}}

func TestPropTransientFaults(t *testing.T) {
	rapid.Check(t, func(rt *rapid.T) {
		var c fcase
		if rapid.IntRange(0, 9).Draw(rt, "shape") < 4 {
			c = genConfig(rt)
		} else {
			c = genManySmall(rt)
		}
		c.Fault = rapid.SampledFrom([]string{"tshort", "tshort", "terronly", "terronly", "shortnil"}).Draw(rt, "fault")
		if c.Fault == "shortnil" && c.Gzip {
			c.Fault = "tshort"
		}
		if c.Fault != "shortnil" {
			f := rapid.SampledFrom(errnoForms).Draw(rt, "errno")
			c.Errno, c.Raw = f.Errno, f.Raw
			c.Repeat = rapid.SampledFrom([]int{1, 1, 1, 1, 2, 3}).Draw(rt, "repeat")
			if c.Repeat > 1 {
				c.Step = rapid.SampledFrom([]int{0, 1, 100}).Draw(rt, "step")
			}
		}
		r := getReference(c)
		if r.Err == nil && !r.Timeout {
			c.K = genOffset(rt, c, r)
		}
		name, err := evalFault(c)
		if err != nil {
			evid.Fail(rt, name, c, err)
		}
	})
}

// ------------------------------------------------------------------ enumeration

// 30 chunks of 350-560 bytes: 10-17 KiB, the buffer is flushed 2-4 times while
// chunks are written, each time holding whole earlier chunks
var manyShape = map[string]shape{
	"fasta": {rep(2, 30), 150},
	"fastq": {rep(2, 30), 75},
	"json":  {rep(1, 30), 150},
	"csv":   {rep(2, 30), 150},
}

func rep(v, n int) []int {
	a := make([]int, n)
	for i := range a {
		a[i] = v
	}
	return a
}

func inOrder(n int) []int {
	a := make([]int, n)
	for i := range a {
		a[i] = i
	}
	return a
}

func reversed(n int) []int {
	a := make([]int, n)
	for i := range a {
		a[i] = n - 1 - i
	}
	return a
}

// transientVariant fills the dimensions other than the offset from a counter.
func transientVariant(c fcase, r int) fcase {
	n := len(c.Sizes)
	switch r % 3 {
	case 0:
		c.Arrival = inOrder(n)
	case 1:
		c.Arrival = swapped(n)
	default:
		c.Arrival = reversed(n)
	}
	c.Close = (r/3)%2 == 0
	switch {
	case !c.Gzip && r%7 == 5:
		c.Fault = "shortnil"
		return c
	case r%2 == 0:
		c.Fault = "tshort"
	default:
		c.Fault = "terronly"
	}
	f := errnoForms[(r/2)%len(errnoForms)]
	c.Errno, c.Raw = f.Errno, f.Raw
	c.Repeat = 1
	if r%11 == 7 {
		c.Repeat, c.Step = 2, (r/11)%2
	}
	return c
}

func TestEnumTransient(t *testing.T) {
	var cases []fcase
	for wi, w := range writers {
		for si, sh := range []shape{manyShape[w], mediumShape[w]} {
			for zi, z := range []bool{false, true} {
				base := fcase{Writer: w, Sizes: sh.Sizes, Arrival: inOrder(len(sh.Sizes)), SeqLen: sh.SeqLen, Gzip: z, Close: true, Workers: 1}
				size := refLen(base)
				var offs []int
				switch {
				case z:
					offs = keyOffsets(base, 0)
				case evid.Thorough() && si == 0:
					step := 1
					if w == "fastq" || w == "csv" {
						step = 3
					}
					set := map[int]bool{}
					for _, k := range keyOffsets(base, 0) {
						set[k] = true
					}
					for k := 0; k <= size+1; k++ {
						if k%step == 0 || set[k] {
							offs = append(offs, k)
						}
					}
				case si == 0:
					offs = keyOffsets(base, max(1, size/48))
				default:
					offs = keyOffsets(base, max(1, size/16))
				}
				for i, k := range offs {
					r := i + wi*5 + zi*3 + si
					c := transientVariant(base, r)
					c.K = int64(k)
					cases = append(cases, c)
					if !z && !(evid.Thorough() && si == 0) {
						c = transientVariant(base, r+4)
						c.K = int64(k)
						cases = append(cases, c)
					}
				}
			}
		}
	}
	runEnum(t, cases)
}

// ------------------------------------------------------------------ real commands, non-blocking pipe

type nbcase struct {
	C       ccase `json:"c"` // Mode = nonblock_stdout; PipeCap = requested capacity
	DelayMs int   `json:"delay_ms"`
	PauseMs int   `json:"pause_ms"`
	// Files > 1: the records are spread over that many input files given in order
	// on the command line (many small inputs = many small blocks at the writer)
	Files int `json:"files,omitempty"`
}

func (c nbcase) key() string { return fmt.Sprint(c.C.key(), c.DelayMs, c.PauseMs, c.Files) }

// splitInput writes the records of the case into c.Files files next to input and
// returns their paths in order.
func (c nbcase) splitInput(input string) ([]string, error) {
	per := 2
	if c.C.Format == "fastq" {
		per = 4
	}
	lines := bytes.SplitAfter(c.C.input(), []byte("\n"))
	nrec := len(lines) / per
	var out []string
	for f := 0; f < c.Files; f++ {
		lo, hi := nrec*f/c.Files, nrec*(f+1)/c.Files
		if lo == hi {
			continue
		}
		p := fmt.Sprintf("%s.part%04d%s", strings.TrimSuffix(input, filepath.Ext(input)), f, filepath.Ext(input))
		if err := os.WriteFile(p, bytes.Join(lines[lo*per:hi*per], nil), 0o644); err != nil {
			return nil, err
		}
		out = append(out, p)
	}
	return out, nil
}

func checkNonblock(c nbcase) error {
	_, err := judgeNonblock(c, false)
	return err
}

func judgeNonblock(c nbcase, count bool) (string, error) {
	name := "cmd_" + c.C.Cmd + "_nonblock"
	if err := c.C.validate(); err != nil {
		return name, fmt.Errorf("invalid case: %v", err)
	}
	if c.C.Mode != "nonblock_stdout" || c.Files < 0 || c.Files > 5000 || c.DelayMs < 0 || c.PauseMs < 0 || c.DelayMs > 2000 || c.PauseMs > 100 || c.C.PipeCap < 0 {
		return name, fmt.Errorf("invalid case: mode %q delay %d pause %d", c.C.Mode, c.DelayMs, c.PauseMs)
	}
	input, cleanup, err := writeInput(c.C)
	if err != nil {
		evid.Class("infrastructure_skipped", 1)
		return name, nil
	}
	defer cleanup()
	args := c.C.args(input)
	var r *cmdRef
	nparts := 0
	if c.Files > 1 {
		parts, err := c.splitInput(input)
		if err != nil || len(parts) == 0 {
			evid.Class("infrastructure_skipped", 1)
			return name, nil
		}
		nparts = len(parts)
		args = append(args[:len(args)-1], parts...)
		// the healthy run of this very command line (run again when it dies, as getCmdRef does)
		r = &cmdRef{}
		var o cmdOutcome
		for attempt := 0; attempt < 3; attempt++ {
			o = execTo(c.C.Cmd, args, c.C.env(), "capture", 0, 0)
			if o.TimedOut || o.Err != nil || o.Exit == 0 {
				break
			}
			evid.Class("healthy_run_failed_and_retried", 1)
		}
		switch {
		case o.TimedOut:
			r.Timeout = true
		case o.Err != nil:
			evid.Class("infrastructure_skipped", 1)
			return name, nil
		case o.Exit != 0:
			r.Err = fmt.Errorf("%s %v (healthy output) exited with status %d three times in a row: %s", c.C.Cmd, args, o.Exit, tail(messagesBytes(o.Stderr), 1500))
		default:
			r.T = o.Stdout
		}
	} else {
		r = getCmdRef(c.C, input)
	}
	if r.Timeout {
		evid.Class("timeout_inconclusive", 1)
		return name, nil
	}
	if r.Err != nil {
		return name, r.Err
	}
	full := append([]string{"-nbexec", strconv.Itoa(c.C.PipeCap), strconv.Itoa(c.DelayMs), strconv.Itoa(c.PauseMs), run.Bin(c.C.Cmd)}, args...)
	res := runTransient(c.C.env(), "faultcmd", full...)
	inconclusive := res.TimedOut || exhausted(res)
	shown := args
	if nparts > 1 {
		shown = append(append([]string{}, args[:len(args)-nparts+1]...), fmt.Sprintf("… (%d input files)", nparts))
	}
	what := fmt.Sprintf("%s %s | (pipe of %d bytes made non-blocking after the first bytes; reader waits %d ms, then pauses %d ms per 4 KiB)",
		c.C.Cmd, strings.Join(shown, " "), c.C.PipeCap, c.DelayMs, c.PauseMs)

	status, sig, ok := -1, 0, false
	for _, l := range strings.Split(string(res.Stderr), "\n") {
		if strings.HasPrefix(l, "FAULTCMD nbexec status=") {
			if _, err := fmt.Sscanf(l, "FAULTCMD nbexec status=%d signal=%d", &status, &sig); err == nil {
				ok = true
			}
		}
	}
	labels := []string{"cmd:" + c.C.Cmd, "format:" + c.C.Format, "mode:" + c.C.Mode, fmt.Sprintf("gzip:%v", c.C.Gzip)}
	if c.Files > 1 {
		labels = append(labels, "nonblock:many_small_input_files")
	}
	conclusive := !inconclusive && ok
	met := conclusive && (status != 0 || !bytes.Equal(res.Stdout, r.T))
	if count {
		if met {
			labels = append(labels, "nonblock:command_met_the_fault")
		} else if conclusive {
			labels = append(labels, "nonblock:fault_not_met_complete_output")
		}
		evid.Eval(name, evid.Hash(c.key()), met, c, labels...)
	}
	if inconclusive {
		evid.Class("timeout_inconclusive", 1)
		return name, nil
	}
	if !ok {
		// the helper itself failed (usage / infrastructure): no verdict on the command
		evid.Class("infrastructure_skipped", 1)
		return name, nil
	}
	msgs := messages(res.Stderr, "FAULTCMD ")
	if status != 0 {
		evid.Class("cmd_outcome:nonzero_exit", 1)
		if strings.Contains(string(res.Stderr), "temporarily unavailable") {
			evid.Class("cmd_outcome:eagain_reported", 1)
		}
		if len(msgs) == 0 && sig == 0 {
			return name, fmt.Errorf("%s: exit status %d but no message on stderr beyond the informational log lines: %s", what, status, tail(res.Stderr, 600))
		}
		return name, nil
	}
	if !bytes.Equal(res.Stdout, r.T) {
		d := firstDiff(res.Stdout, r.T)
		return name, fmt.Errorf("%s: exit status 0 and no failure reported (stderr messages: %q), but the reader received %d bytes up to the end of the stream and the healthy output has %d bytes: first difference at offset %d, received …%q…, expected …%q… - bytes of the result did not reach the output",
			what, msgs, len(res.Stdout), len(r.T), d, around(res.Stdout, d), around(r.T, d))
	}
	return name, nil
}

func TestPropCommandsNonblock(t *testing.T) {
	rapid.Check(t, func(rt *rapid.T) {
		var c nbcase
		c.C.Mode = "nonblock_stdout"
		c.C.Cmd = rapid.SampledFrom([]string{"obiconvert", "obiconvert", "obiconvert", "obicsv"}).Draw(rt, "cmd")
		if c.C.Cmd == "obicsv" {
			c.C.Format = "csv"
		} else {
			c.C.Format = rapid.SampledFrom([]string{"fasta", "fastq", "json"}).Draw(rt, "format")
		}
		// small batches: the blocks handed to the output wrapper are smaller than its buffer
		c.C.Batch = rapid.SampledFrom([]int{3, 7, 7, 20, 20, 100, 0}).Draw(rt, "batch")
		c.C.MaxCPU = rapid.SampledFrom([]int{0, 1, 2, 4}).Draw(rt, "maxcpu")
		c.C.NRec = rapid.SampledFrom([]int{300, 800, 2000}).Draw(rt, "nrec")
		if evid.Thorough() && rapid.IntRange(0, 7).Draw(rt, "big") == 0 {
			c.C.NRec = 10000
		}
		c.C.SeqLen = rapid.SampledFrom([]int{60, 150}).Draw(rt, "seqlen")
		c.C.Gzip = rapid.IntRange(0, 7).Draw(rt, "gzip") == 0
		c.C.PipeCap = rapid.SampledFrom([]int{4096, 4096, 16384, 65536}).Draw(rt, "pipecap")
		if rapid.IntRange(0, 2).Draw(rt, "many_files") > 0 {
			// many small inputs: every block handed to the output wrapper is far smaller
			// than its buffer
			per := rapid.SampledFrom([]int{1, 2, 5, 10}).Draw(rt, "records_per_file")
			c.C.NRec = min(c.C.NRec, 800)
			c.Files = max(2, c.C.NRec/per)
		}
		c.DelayMs = rapid.SampledFrom([]int{20, 40}).Draw(rt, "delay")
		c.PauseMs = rapid.SampledFrom([]int{0, 1, 3}).Draw(rt, "pause")
		name, err := judgeNonblock(c, true)
		if err != nil {
			evid.Fail(rt, name, c, err)
		}
	})
}
