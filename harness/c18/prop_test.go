package c18

import (
	"testing"

	"pgregory.net/rapid"

	"verifharness/internal/evid"
)

// ------------------------------------------------------------------ random fault cases

func genConfig(t *rapid.T) fcase {
	c := fcase{Workers: 1}
	c.Writer = rapid.SampledFrom(writers).Draw(t, "writer")
	c.Gzip = rapid.Bool().Draw(t, "gzip")
	c.Close = rapid.Bool().Draw(t, "close")

	if evid.Thorough() && rapid.IntRange(0, 119).Draw(t, "huge") == 77 {
		// > 1 MiB of text: the gzip writer emits whole blocks before Close
		c.Sizes = []int{30, 30, 30, 30}
		c.SeqLen = 10000
		if c.Writer == "fastq" {
			c.SeqLen = 5000
		}
	} else {
		n := rapid.SampledFrom([]int{1, 2, 3, 3, 4, 4, 5, 6, 8}).Draw(t, "nbatches")
		total := 0
		for b := 0; b < n; b++ {
			s := rapid.SampledFrom([]int{0, 1, 1, 2, 3, 3, 6}).Draw(t, "size")
			c.Sizes = append(c.Sizes, s)
			total += s
		}
		// up to ~40 KiB of text
		limit := 40000 / max(1, total)
		if c.Writer == "fastq" {
			limit /= 2
		}
		c.SeqLen = max(1, min(limit, rapid.SampledFrom([]int{1, 30, 100, 400, 900, 1500, 4000}).Draw(t, "seqlen")))
	}
	n := len(c.Sizes)
	id := make([]int, n)
	for i := range id {
		id[i] = i
	}
	switch rapid.IntRange(0, 9).Draw(t, "arrival_kind") {
	case 0, 1:
		c.Arrival = id
	case 2, 3:
		for i := n - 1; i >= 0; i-- {
			c.Arrival = append(c.Arrival, i)
		}
	default:
		c.Arrival = rapid.Permutation(id).Draw(t, "arrival")
	}
	c.Workers = rapid.SampledFrom([]int{1, 1, 1, 1, 2, 4}).Draw(t, "workers")
	if c.Workers > 1 {
		c.Jitter = rapid.SampledFrom([]int{0, 50, 400}).Draw(t, "jitter")
	}
	return c
}

// genOffset draws the fault offset from the boundaries of the fault-free run
// (stream Write calls, chunk starts, gzip header/trailer, end of stream) or
// uniformly.
func genOffset(t *rapid.T, c fcase, r *reference) int64 {
	size := len(r.T)
	var marks []int
	marks = append(marks, 0, size)
	for _, w := range r.Writes {
		marks = append(marks, int(w.Off), int(w.Off+w.Len))
	}
	if c.Gzip {
		marks = append(marks, 10, size-8)
	} else {
		marks = append(marks, r.Bounds...)
	}
	var k int
	if rapid.IntRange(0, 2).Draw(t, "offset_kind") == 0 {
		k = rapid.IntRange(0, size+2).Draw(t, "k")
	} else {
		k = rapid.SampledFrom(marks).Draw(t, "mark") + rapid.IntRange(-1, 1).Draw(t, "delta")
	}
	return int64(min(max(k, 0), size+2))
}

func TestPropRandomFaults(t *testing.T) {
	rapid.Check(t, func(rt *rapid.T) {
		c := genConfig(rt)
		c.Fault = rapid.SampledFrom([]string{"short", "short", "erronly", "erronly", "once", "close"}).Draw(rt, "fault")
		// half of the cases fail the way a file fails: a PathError around an errno
		c.Errno = rapid.SampledFrom([]string{"", "", "", "", "epipe", "enospc", "eio", "edquot"}).Draw(rt, "errno")
		r := getReference(c)
		if r.Err == nil && !r.Timeout && c.Fault != "close" {
			c.K = genOffset(rt, c, r)
		}
		name, err := evalFault(c)
		if err != nil {
			evid.Fail(rt, name, c, err)
		}
	})
}

// ------------------------------------------------------------------ real commands

func TestPropCommands(t *testing.T) {
	rapid.Check(t, func(rt *rapid.T) {
		var c ccase
		c.Cmd = rapid.SampledFrom([]string{"obiconvert", "obiconvert", "obiconvert", "obicsv"}).Draw(rt, "cmd")
		if c.Cmd == "obicsv" {
			c.Format = "csv"
			c.Mode = rapid.SampledFrom([]string{"devfull_stdout", "devfull_stdout", "pipe"}).Draw(rt, "mode")
		} else {
			c.Format = rapid.SampledFrom([]string{"fasta", "fastq", "json"}).Draw(rt, "format")
			c.Mode = rapid.SampledFrom([]string{"devfull_o", "devfull_o", "devfull_stdout", "pipe"}).Draw(rt, "mode")
		}
		c.Gzip = rapid.IntRange(0, 2).Draw(rt, "gzip") == 0
		c.Batch = rapid.SampledFrom([]int{0, 0, 1, 7, 100}).Draw(rt, "batch")
		c.MaxCPU = rapid.SampledFrom([]int{0, 0, 1, 4}).Draw(rt, "maxcpu")
		c.Jitter = rapid.SampledFrom([]int{0, 0, 100}).Draw(rt, "jitter")
		if c.Mode == "pipe" {
			// the healthy output must exceed what the harness reads plus the pipe capacity
			c.PipeCap = 4096
			c.NRec = rapid.SampledFrom([]int{150, 400, 1500}).Draw(rt, "nrec")
			c.SeqLen = rapid.SampledFrom([]int{60, 200}).Draw(rt, "seqlen")
			if c.Gzip {
				c.NRec *= 4
			}
			if c.Batch == 1 {
				c.Batch = 7
			}
			// the offset is drawn as a fraction of an assumed size and corrected below
			c.K = rapid.SampledFrom([]int{0, 0, 1, 100, 4095, 4096, 4097, 9000, 20000}).Draw(rt, "k")
		} else {
			c.NRec = rapid.SampledFrom([]int{1, 1, 2, 2, 5, 30, 100, 600}).Draw(rt, "nrec")
			c.SeqLen = rapid.SampledFrom([]int{1, 20, 80, 300}).Draw(rt, "seqlen")
			if c.Batch == 1 && c.NRec > 100 {
				c.Batch = 7
			}
		}
		name, err := judgeCommand(c, true)
		if err != nil {
			evid.Fail(rt, name, c, err)
		}
	})
}
