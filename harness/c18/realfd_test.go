package c18

// Real descriptors.  The injected stream of fault_test.go is an io.WriteCloser of
// the harness; an output of a real run is an *os.File: a regular file (that a full
// disk, a quota or a file size limit makes fail), a pipe or a named pipe (whose
// reader may go away).  The library is free to treat those differently from an
// anonymous io.Writer (and from each other), and the operating system reports the
// failures with errno values the library may recognise.  Three additions:
//
//   - TestEnumErrno: the injected stream of faultcmd fails with what the OS returns
//     for a file (an *fs.PathError around EPIPE, ENOSPC, EIO, EDQUOT) - same oracle
//     as every injected fault;
//   - TestPropRealFiles / TestPropRealPipes: faultcmd hands the real Write*
//     functions (also Write*ToFile and Write*ToStdout) a regular file under a file
//     size limit of L bytes (RLIMIT_FSIZE, SIGXFSZ ignored: write(2) answers EFBIG
//     beyond L exactly as it answers ENOSPC on a full disk), the write end of an
//     os.Pipe or a named pipe whose reader consumes K bytes and leaves;
//   - TestPropCommandsReal (cmdreal_test.go): the same for the real commands.
//
// Domain decisions (additions)
//
//   - The yardstick T of a real-descriptor case is the content the same target
//     receives in a run without limit (reader that reads everything).
//   - Regular file under a limit L: the file can never hold more than L bytes.
//     L < |T|  =>  some bytes of the result cannot reach the output: exit status
//     != 0 and a message are required.  L >= |T|  =>  no write fails (a write that
//     ends exactly at the limit succeeds): exit status 0 and the file holds T.
//   - Pipe of capacity C whose reader leaves after K bytes: the bytes the reader
//     did not take and the pipe cannot hold are lost.  |T| > K + C  =>  failure
//     required.  K >= |T|  =>  everything was consumed, success and T required.
//     In between the kernel may have accepted everything before the reader left:
//     no verdict.  The capacity is the one the kernel reports (F_GETPIPE_SZ) after
//     the request; when it is unknown 1 MiB is assumed.
//   - Compressed outputs are compared after decompression when the compressed
//     bytes differ (nothing in the statement fixes the compressed form).

import (
	"bytes"
	"compress/gzip"
	"context"
	"errors"
	"fmt"
	"io"
	"os"
	"os/exec"
	"path/filepath"
	"regexp"
	"strconv"
	"strings"
	"sync"
	"syscall"
	"testing"
	"time"

	"pgregory.net/rapid"

	"verifharness/internal/evid"
	"verifharness/internal/run"
)

// ------------------------------------------------------------------ errno enumeration

var osErrnos = []string{"epipe", "enospc", "eio", "edquot"}

// TestEnumErrno repeats the boundary offsets of the 6 KiB and 20 KiB outputs with
// the error values of the operating system.  Every errno meets every writer,
// plain and gzip, each fault kind, a buffered and an in-order arrival, at every
// boundary of the fault-free run (+-1) and on a stride.
func TestEnumErrno(t *testing.T) {
	var cases []fcase
	add := func(sh shape, w string, z bool, salt int, stride func(size int) int, per int) {
		arrivals := arrivals4
		if len(sh.Sizes) == 3 {
			arrivals = arrivals3
		}
		base := fcase{Writer: w, Sizes: sh.Sizes, Arrival: arrivals[0], SeqLen: sh.SeqLen, Gzip: z, Close: true, Workers: 1}
		size := refLen(base)
		for i, k := range keyOffsets(base, stride(size)) {
			for j := 0; j < per; j++ {
				r := i + salt + j*3
				c := base
				c.K = int64(k)
				c.Errno = osErrnos[(r+j)%len(osErrnos)]
				c.Fault = writeKinds[(r/4)%3]
				c.Arrival = arrivals[(r/2)%len(arrivals)]
				c.Close = (r/5)%2 == 0
				cases = append(cases, c)
			}
		}
		// a failing Close with each errno
		for ei, e := range osErrnos {
			c := base
			c.Fault, c.Errno, c.Arrival = "close", e, arrivals[(ei+salt)%len(arrivals)]
			cases = append(cases, c)
		}
	}
	for wi, w := range writers {
		for zi, z := range []bool{false, true} {
			salt := wi*5 + zi*3
			if evid.Thorough() {
				add(mediumShape[w], w, z, salt, func(size int) int { return max(1, size/64) }, 4)
				add(largeShape[w], w, z, salt, func(size int) int { return max(1, size/64) }, 4)
				add(smallShape[w], w, z, salt, func(size int) int { return 1 }, 4)
			} else {
				add(mediumShape[w], w, z, salt, func(size int) int { return max(1, size/6) }, 2)
				add(largeShape[w], w, z, salt, func(size int) int { return max(1, size/6) }, 1)
				add(smallShape[w], w, z, salt, func(size int) int { return max(1, size/8) }, 1)
			}
		}
	}
	runEnum(t, cases)
}

// ------------------------------------------------------------------ processes with a chosen standard output

type procResult struct {
	Exit     int // -1 when killed by a signal
	Signaled bool
	Signal   syscall.Signal
	TimedOut bool
	Stdout   []byte // captured standard output (not when it was redirected)
	Stderr   []byte
	Err      error // the process could not be started / waited for
}

func (p procResult) failed() bool { return p.Exit != 0 || p.Signaled }

// inconclusive: the run says nothing about the program (kill timer, machine out
// of threads or memory).
func (p procResult) inconclusive() bool {
	if p.TimedOut {
		return true
	}
	return run.Result{Exit: p.Exit, Stderr: p.Stderr, Err: p.Err}.ResourceExhausted()
}

// spawnOnce runs argv with the standard output connected to stdout (nil: captured).
// started is called once the process runs, to play the other end of a pipe; it
// receives the function that waits for the process (safe to call from a goroutine;
// the process is waited for in any case when started returns).
func spawnOnce(argv, env []string, stdout *os.File, started func(wait func())) procResult {
	var o procResult
	ctx, cancel := context.WithTimeout(context.Background(), 60*time.Second)
	defer cancel()
	cmd := exec.CommandContext(ctx, argv[0], argv[1:]...)
	cmd.Env = append([]string{"PATH=/usr/bin:/bin", "HOME=" + run.WorkDir(), "TMPDIR=" + run.WorkDir()}, env...)
	cmd.Dir = run.WorkDir()
	var se, so bytes.Buffer
	cmd.Stderr = &se
	if stdout != nil {
		cmd.Stdout = stdout
	} else {
		cmd.Stdout = &so
	}
	cmd.SysProcAttr = &syscall.SysProcAttr{Setpgid: true}
	cmd.Cancel = func() error { return syscall.Kill(-cmd.Process.Pid, syscall.SIGKILL) }
	if err := cmd.Start(); err != nil {
		o.Err, o.Exit = err, -1
		return o
	}
	var werr error
	var once sync.Once
	wait := func() { once.Do(func() { werr = cmd.Wait() }) }
	if started != nil {
		started(wait)
	}
	wait()
	o.Stdout, o.Stderr = so.Bytes(), se.Bytes()
	if ctx.Err() != nil {
		o.TimedOut, o.Exit = true, -1
		return o
	}
	var ee *exec.ExitError
	switch {
	case werr == nil:
		o.Exit = 0
	case errors.As(werr, &ee):
		o.Exit = ee.ExitCode()
		if ws, ok := ee.Sys().(syscall.WaitStatus); ok && ws.Signaled() {
			o.Signaled, o.Signal = true, ws.Signal()
		}
	default:
		o.Exit, o.Err = -1, werr
	}
	return o
}

// ------------------------------------------------------------------ the faultcmd case on a real descriptor

type rcase struct {
	Writer  string `json:"writer"`  // fasta | fastq | json | csv
	Sizes   []int  `json:"sizes"`   // records of batch b (0 = empty batch)
	Arrival []int  `json:"arrival"` // push order: permutation of 0..n-1
	SeqLen  int    `json:"seqlen"`  // nucleotides per record (>= 1)
	Gzip    bool   `json:"gzip"`
	Close   bool   `json:"close"`   // OptionCloseFile (targets file and pipe; Write*ToFile / Write*ToStdout decide themselves)
	Workers int    `json:"workers"` // formatting workers
	Jitter  int    `json:"jitter"`  // VERIF_JITTER max µs, only with Workers > 1
	Target  string `json:"target"`  // file | tofile | stdout | pipe | fifo
	// Limit: file, tofile, stdout = RLIMIT_FSIZE in bytes (-1: none);
	// pipe, fifo = bytes the reader consumes before it closes its end
	Limit   int64 `json:"limit"`
	PipeCap int   `json:"pipecap"` // pipe, fifo: requested capacity
}

func (c rcase) asFcase() fcase {
	return fcase{Writer: c.Writer, Sizes: c.Sizes, Arrival: c.Arrival, SeqLen: c.SeqLen, Gzip: c.Gzip, Close: c.Close,
		Workers: c.Workers, Jitter: c.Jitter, Fault: "none"}
}

func (c rcase) isPipe() bool { return c.Target == "pipe" || c.Target == "fifo" }

func (c rcase) configKey() string { return fmt.Sprint(c.asFcase().configKey(), c.Target) }

func (c rcase) key() string { return fmt.Sprint(c.configKey(), c.Limit, c.PipeCap) }

func (c rcase) validate() error {
	if err := c.asFcase().validate(); err != nil {
		return err
	}
	switch c.Target {
	case "file", "tofile", "stdout":
		if c.Limit < -1 {
			return fmt.Errorf("limit %d", c.Limit)
		}
	case "pipe", "fifo":
		if c.Limit < 0 {
			return fmt.Errorf("a reader cannot take %d bytes", c.Limit)
		}
	default:
		return fmt.Errorf("unknown target %q", c.Target)
	}
	return nil
}

func (c rcase) checkName() string {
	if c.isPipe() {
		return "real_pipe_" + c.Writer
	}
	return "real_file_" + c.Writer
}

type routcome struct {
	P        procResult
	Out      []byte // content of the file / bytes taken by the reader
	PipeCap  int    // capacity reported by faultcmd (0: unknown)
	Done     bool   // main of faultcmd returned
	Messages []string
	Infra    string
	Cmdline  string
}

var rePipeCap = regexp.MustCompile(`(?m)^FAULTCMD pipecap=(\d+)`)

const readAll = int64(1) << 50

// runReal runs faultcmd on the target of the case with the given limit.
func runReal(c rcase, limit int64) routcome {
	var o routcome
	dir, err := os.MkdirTemp(run.WorkDir(), "c18real")
	if err != nil {
		o.Infra = err.Error()
		return o
	}
	defer os.RemoveAll(dir)
	f := c.asFcase()
	args := f.args("none", 0, false)
	args = append(args, "-target", c.Target)
	out := filepath.Join(dir, "out")
	var stdout *os.File
	switch c.Target {
	case "file", "tofile":
		args = append(args, "-out", out, "-fsize", strconv.FormatInt(limit, 10))
	case "stdout":
		args = append(args, "-fsize", strconv.FormatInt(limit, 10))
		stdout, err = os.OpenFile(out, os.O_WRONLY|os.O_CREATE|os.O_TRUNC, 0o644)
		if err != nil {
			o.Infra = err.Error()
			return o
		}
		defer stdout.Close()
	case "pipe":
		args = append(args, "-k", strconv.FormatInt(limit, 10), "-pipecap", strconv.Itoa(c.PipeCap))
	case "fifo":
		args = append(args, "-out", filepath.Join(dir, "fifo"), "-k", strconv.FormatInt(limit, 10), "-pipecap", strconv.Itoa(c.PipeCap))
	}
	// -k is given twice for the pipe targets (args() sets -k 0 first): the last one wins
	o.Cmdline = "faultcmd " + strings.Join(args, " ")
	if c.Target == "stdout" {
		o.Cmdline += " > <regular file>"
	}
	argv := append([]string{run.Bin("faultcmd")}, args...)
	for attempt := 0; attempt < 4; attempt++ {
		if attempt > 0 {
			time.Sleep(time.Duration(attempt) * 500 * time.Millisecond)
			os.Remove(out)
			os.Remove(filepath.Join(dir, "fifo"))
			if stdout != nil {
				stdout.Truncate(0)
				stdout.Seek(0, io.SeekStart)
			}
		}
		o.P = spawnOnce(argv, f.env(), stdout, nil)
		if !o.P.inconclusive() || o.P.TimedOut {
			break
		}
	}
	if o.P.Exit == 97 || o.P.Exit == 98 {
		o.Infra = fmt.Sprintf("faultcmd exit %d: %s", o.P.Exit, tail(o.P.Stderr, 400))
	}
	if c.isPipe() {
		o.Out = o.P.Stdout
	} else if b, err := os.ReadFile(out); err == nil {
		o.Out = b
	}
	if m := rePipeCap.FindSubmatch(o.P.Stderr); m != nil {
		o.PipeCap, _ = strconv.Atoi(string(m[1]))
	}
	o.Done = bytes.Contains(o.P.Stderr, []byte("FAULTCMD done "))
	o.Messages = messages(o.P.Stderr, "FAULTCMD ")
	return o
}

type realRef struct {
	T       []byte
	Plain   []byte
	Bounds  []int
	Err     error
	Timeout bool
}

var (
	realRefMu    sync.Mutex
	realRefCache = map[string]*realRef{}
)

func gunzipAll(b []byte) ([]byte, error) {
	zr, err := gzip.NewReader(bytes.NewReader(b))
	if err != nil {
		return nil, err
	}
	return io.ReadAll(zr)
}

func getRealRef(c rcase) *realRef {
	key := c.configKey()
	realRefMu.Lock()
	if r, ok := realRefCache[key]; ok {
		realRefMu.Unlock()
		return r
	}
	realRefMu.Unlock()
	r := &realRef{}
	limit := int64(-1)
	if c.isPipe() {
		limit = readAll
	}
	var o routcome
	for attempt := 0; attempt < 3; attempt++ {
		o = runReal(c, limit)
		if o.P.inconclusive() || o.Infra != "" || (o.P.Exit == 0 && o.Done) {
			break
		}
		evid.Class("healthy_run_failed_and_retried", 1)
	}
	switch {
	case o.P.inconclusive():
		r.Timeout = true
	case o.Infra != "":
		r.Err = fmt.Errorf("harness infrastructure: %s", o.Infra)
	case o.P.Exit != 0 || !o.Done:
		r.Err = fmt.Errorf("%s (no limit) exited with status %d (main returned: %v) three times in a row; stderr: %s",
			o.Cmdline, o.P.Exit, o.Done, tail(o.P.Stderr, 600))
	default:
		r.T, r.Plain = o.Out, o.Out
		if c.Gzip {
			p, err := gunzipAll(r.T)
			if err != nil {
				r.Err = fmt.Errorf("%s (no limit) exited with status 0 but its %d bytes are not a complete gzip stream: %v", o.Cmdline, len(r.T), err)
			}
			r.Plain = p
		}
		if r.Err == nil {
			// the same records through the injected stream of the other tests: the
			// real descriptor must receive the same text
			pf := c.asFcase()
			pf.Gzip = false
			if sr := getReference(pf); sr.Err == nil && !sr.Timeout && !bytes.Equal(sr.T, r.Plain) {
				r.Err = fmt.Errorf("%s (no limit) delivered %d bytes of text, the same configuration on an io.WriteCloser of the harness %d bytes: %q vs %q",
					o.Cmdline, len(r.Plain), len(sr.T), head(r.Plain, 200), head(sr.T, 200))
			}
			r.Bounds = bounds(c.asFcase(), r.Plain)
		}
	}
	if !r.Timeout {
		realRefMu.Lock()
		realRefCache[key] = r
		realRefMu.Unlock()
	}
	return r
}

func sameOutput(gz bool, got, want []byte) bool {
	if bytes.Equal(got, want) {
		return true
	}
	if !gz {
		return false
	}
	g, err1 := gunzipAll(got)
	w, err2 := gunzipAll(want)
	return err1 == nil && err2 == nil && bytes.Equal(g, w)
}

func checkReal(c rcase) error {
	_, err := judgeReal(c, false)
	return err
}

func judgeReal(c rcase, count bool) (string, error) {
	name := c.checkName()
	if err := c.validate(); err != nil {
		return name, fmt.Errorf("invalid case: %v", err)
	}
	r := getRealRef(c)
	if r.Timeout {
		evid.Class("timeout_inconclusive", 1)
		return name, nil
	}
	if r.Err != nil {
		return name, r.Err
	}
	size := int64(len(r.T))
	o := runReal(c, c.Limit)

	// what the case decides
	pipeCap := o.PipeCap
	if pipeCap == 0 {
		pipeCap = 1 << 20
	}
	var mustFail, mustSucceed bool
	if c.isPipe() {
		mustFail = size > c.Limit+int64(pipeCap)
		mustSucceed = c.Limit >= size
	} else {
		mustFail = c.Limit >= 0 && c.Limit < size
		mustSucceed = !mustFail
	}
	if count {
		labels := []string{"target:" + c.Target, "writer:" + c.Writer, fmt.Sprintf("gzip:%v", c.Gzip), fmt.Sprintf("close_file:%v", c.Close)}
		maxChunk := 0
		for b := 0; b+1 < len(r.Bounds); b++ {
			maxChunk = max(maxChunk, r.Bounds[b+1]-r.Bounds[b])
		}
		switch {
		case maxChunk >= 1<<20:
			labels = append(labels, "largest_chunk>=1MiB")
		case maxChunk >= 65536:
			labels = append(labels, "largest_chunk>=64KiB")
		case maxChunk >= 4096:
			labels = append(labels, "largest_chunk>=4KiB")
		default:
			labels = append(labels, "largest_chunk<4KiB")
		}
		if c.Workers > 1 {
			labels = append(labels, "workers>1")
		}
		switch {
		case mustFail:
			labels = append(labels, "verdict:failure_required")
			if !c.Gzip && len(r.Bounds) > 1 {
				at := c.Limit
				if c.isPipe() {
					at += int64(pipeCap)
				}
				x := chunkAt(r.Bounds, at)
				switch {
				case size-at <= 4096:
					labels = append(labels, "fault_within_last_4KiB")
				case x == 0:
					labels = append(labels, "fault_in_first_chunk")
				default:
					labels = append(labels, "fault_in_later_chunk")
				}
				if x >= 0 && r.Bounds[x+1]-r.Bounds[x] >= 65536 {
					labels = append(labels, "fault_in_chunk>=64KiB")
				}
			}
		case mustSucceed:
			labels = append(labels, "verdict:success_required")
		default:
			labels = append(labels, "failure_not_certain:no_verdict")
		}
		evid.Eval(name, evid.Hash(c.key()), mustFail, c, labels...)
	}
	if o.P.inconclusive() {
		evid.Class("timeout_inconclusive", 1)
		return name, nil
	}
	if o.Infra != "" {
		return name, fmt.Errorf("harness infrastructure: %s", o.Infra)
	}
	if o.P.Err != nil {
		evid.Class("infrastructure_skipped", 1)
		return name, nil
	}
	what := o.Cmdline
	if c.isPipe() {
		what += fmt.Sprintf("  [reader takes %d bytes and leaves; pipe capacity %d]", c.Limit, pipeCap)
	} else {
		what += fmt.Sprintf("  [file size limit %d bytes]", c.Limit)
	}
	switch {
	case mustFail:
		if !o.P.failed() {
			return name, fmt.Errorf("%s: exit status 0 (main returned normally: %v) although only %d of the %d bytes of the complete output reached the %s; stderr messages: %q",
				what, o.Done, len(o.Out), size, c.Target, o.Messages)
		}
		evid.Class("outcome:real_descriptor_failed_and_reported", 1)
		if len(o.Messages) == 0 {
			return name, fmt.Errorf("%s: exit status %d (signal %v) but nothing was reported on stderr: %q", what, o.P.Exit, o.P.Signaled, tail(o.P.Stderr, 600))
		}
	case mustSucceed:
		if o.P.failed() || !o.Done {
			return name, fmt.Errorf("%s: no write can fail (complete output: %d bytes) but the process exited with status %d (main returned normally: %v); stderr: %s",
				what, size, o.P.Exit, o.Done, tail(o.P.Stderr, 600))
		}
		if !sameOutput(c.Gzip, o.Out, r.T) {
			return name, fmt.Errorf("%s: exit status 0 but the %s holds %d bytes and the run without limit %d bytes: got %q, expected %q",
				what, c.Target, len(o.Out), size, head(o.Out, 200), head(r.T, 200))
		}
	default: // the kernel may or may not have taken everything before the reader left
		if o.P.failed() {
			evid.Class("outcome:failed_when_not_certain", 1)
		}
	}
	return name, nil
}

// ------------------------------------------------------------------ generators

func genRealConfig(t *rapid.T) rcase {
	c := rcase{Workers: 1}
	c.Writer = rapid.SampledFrom(writers).Draw(t, "writer")
	c.Gzip = rapid.IntRange(0, 3).Draw(t, "gzip") == 0
	c.Close = rapid.Bool().Draw(t, "close")
	var nb, sizes, lens []int
	switch rapid.SampledFrom([]string{"small", "medium", "big", "big", "big", "longseq", "longseq"}).Draw(t, "shape") {
	case "small": // everything stays in the buffer until the final flush
		nb, sizes, lens = []int{1, 2, 3, 4}, []int{0, 1, 1, 2, 3}, []int{1, 30, 100}
	case "medium": // chunks of 0.4 - 15 KiB
		nb, sizes, lens = []int{2, 3, 4, 5}, []int{0, 2, 5, 10}, []int{200, 900, 1500}
	case "big": // chunks up to several hundred KiB, what the default batch size of the commands produces
		nb, sizes, lens = []int{1, 2, 3, 4, 5}, []int{0, 1, 30, 60, 120}, []int{600, 2500, 5000}
	default: // single records larger than any buffer
		nb, sizes, lens = []int{1, 2, 3}, []int{1, 1, 2, 3}, []int{66000, 70000, 150000, 400000}
	}
	n := rapid.SampledFrom(nb).Draw(t, "nbatches")
	total := 0
	for b := 0; b < n; b++ {
		s := rapid.SampledFrom(sizes).Draw(t, "size")
		c.Sizes = append(c.Sizes, s)
		total += s
	}
	if total == 0 {
		c.Sizes[0] = sizes[len(sizes)-1]
		total = c.Sizes[0]
	}
	c.SeqLen = rapid.SampledFrom(lens).Draw(t, "seqlen")
	budget := evid.Pick(1500000, 6000000) // bytes of text
	if c.Writer == "fastq" {
		budget /= 2
	}
	c.SeqLen = max(1, min(c.SeqLen, budget/total))
	id := make([]int, n)
	for i := range id {
		id[i] = i
	}
	switch rapid.IntRange(0, 4).Draw(t, "arrival_kind") {
	case 0, 1:
		c.Arrival = id
	case 2:
		for i := n - 1; i >= 0; i-- {
			c.Arrival = append(c.Arrival, i)
		}
	default:
		c.Arrival = rapid.Permutation(id).Draw(t, "arrival")
	}
	c.Workers = rapid.SampledFrom([]int{1, 1, 1, 2, 4}).Draw(t, "workers")
	if c.Workers > 1 {
		c.Jitter = rapid.SampledFrom([]int{0, 50, 400}).Draw(t, "jitter")
	}
	return c
}

// genLimit draws a limit from the landmarks of the complete output (buffer sizes,
// chunk starts, the last buffer, the end) or uniformly.
func genLimit(t *rapid.T, r *realRef) int64 {
	size := len(r.T)
	switch rapid.IntRange(0, 5).Draw(t, "limit_kind") {
	case 0, 1:
		return int64(rapid.IntRange(0, size+2).Draw(t, "limit"))
	case 2: // the failing bytes are only met by the final flush
		return int64(max(0, size-rapid.IntRange(1, 4097).Draw(t, "from_end")))
	}
	marks := []int{0, 1, 4095, 4096, 4097, 65535, 65536, 65537, 1 << 20, size - 1, size, size + 1, size + 5000}
	for _, b := range r.Bounds {
		marks = append(marks, b-1, b, b+1)
	}
	k := rapid.SampledFrom(marks).Draw(t, "mark")
	return int64(max(0, k))
}

func TestPropRealFiles(t *testing.T) {
	rapid.Check(t, func(rt *rapid.T) {
		c := genRealConfig(rt)
		c.Target = rapid.SampledFrom([]string{"file", "file", "tofile", "tofile", "stdout"}).Draw(rt, "target")
		c.Limit = -1
		if r := getRealRef(c); r.Err == nil && !r.Timeout {
			c.Limit = genLimit(rt, r)
		}
		name, err := judgeReal(c, true)
		if err != nil {
			evid.Fail(rt, name, c, err)
		}
	})
}

func TestPropRealPipes(t *testing.T) {
	rapid.Check(t, func(rt *rapid.T) {
		c := genRealConfig(rt)
		c.Target = rapid.SampledFrom([]string{"pipe", "pipe", "fifo"}).Draw(rt, "target")
		c.PipeCap = rapid.SampledFrom([]int{4096, 4096, 4096, 16384, 65536}).Draw(rt, "pipecap")
		if r := getRealRef(c); r.Err == nil && !r.Timeout {
			c.Limit = genLimit(rt, r)
		}
		name, err := judgeReal(c, true)
		if err != nil {
			evid.Fail(rt, name, c, err)
		}
	})
}
