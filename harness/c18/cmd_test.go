package c18

import (
	"bytes"
	"context"
	"errors"
	"fmt"
	"io"
	"os"
	"os/exec"
	"path/filepath"
	"strconv"
	"strings"
	"sync"
	"syscall"
	"time"

	"verifharness/internal/evid"
	"verifharness/internal/run"
)

// Real commands writing to a stream that fails: /dev/full (every write(2) answers
// ENOSPC) and a pipe whose reader goes away after K bytes.

type ccase struct {
	Cmd     string `json:"cmd"`     // obiconvert | obicsv
	Format  string `json:"format"`  // fasta | fastq | json (obiconvert), csv (obicsv)
	NRec    int    `json:"nrec"`    // records of the input file (>= 1)
	SeqLen  int    `json:"seqlen"`  // nucleotides per record (>= 1)
	Gzip    bool   `json:"gzip"`    // -Z
	Batch   int    `json:"batch"`   // --batch-size (0 = not given)
	MaxCPU  int    `json:"maxcpu"`  // --max-cpu (0 = not given)
	Jitter  int    `json:"jitter"`  // VERIF_JITTER max µs
	Mode    string `json:"mode"`    // devfull_o | devfull_stdout | pipe | (transient_test.go:) nonblock_stdout | (cmdreal_test.go:) file_o | file_stdout | fifo_o | pipe_devstdout | fulldisk_o
	K       int    `json:"k"`       // pipe: bytes read before the read end is closed; file_*: file size limit; fulldisk_o: size of the file system
	PipeCap int    `json:"pipecap"` // pipe: requested capacity (bytes)
}

// viaO: the output is named with -o (otherwise it is the standard output).
func (c ccase) viaO() bool {
	switch c.Mode {
	case "devfull_o", "file_o", "fifo_o", "pipe_devstdout", "fulldisk_o":
		return true
	}
	return false
}

func (c ccase) configKey() string {
	viaO := c.viaO()
	return fmt.Sprint(c.Cmd, c.Format, c.NRec, c.SeqLen, c.Gzip, c.Batch, c.MaxCPU, c.Jitter, viaO)
}

func (c ccase) key() string { return fmt.Sprint(c.configKey(), c.Mode, c.K, c.PipeCap) }

func (c ccase) validate() error {
	switch {
	case c.Cmd == "obiconvert" && (c.Format == "fasta" || c.Format == "fastq" || c.Format == "json"):
	case c.Cmd == "obicsv" && c.Format == "csv":
	default:
		return fmt.Errorf("command %q cannot write format %q", c.Cmd, c.Format)
	}
	if c.NRec < 1 || c.SeqLen < 1 {
		return fmt.Errorf("nrec and seqlen must be >= 1")
	}
	switch c.Mode {
	case "devfull_stdout", "pipe", "file_stdout", "nonblock_stdout":
	case "devfull_o", "file_o", "fifo_o", "pipe_devstdout", "fulldisk_o":
		if c.Cmd == "obicsv" {
			return fmt.Errorf("obicsv does not honour -o (domain decision)")
		}
	default:
		return fmt.Errorf("unknown mode %q", c.Mode)
	}
	return nil
}

func cmdSeq(i, l int) string {
	x := uint32(i*2654435761) | 1
	s := make([]byte, l)
	for j := range s {
		x ^= x << 13
		x ^= x >> 17
		x ^= x << 5
		s[j] = "acgt"[x&3]
	}
	return string(s)
}

func (c ccase) input() []byte {
	var b bytes.Buffer
	for i := 0; i < c.NRec; i++ {
		s := cmdSeq(i, c.SeqLen)
		if c.Format == "fastq" {
			fmt.Fprintf(&b, "@s%06d {\"rank\":%d}\n%s\n+\n%s\n", i, i, s, strings.Repeat("I", len(s)))
		} else {
			fmt.Fprintf(&b, ">s%06d {\"rank\":%d}\n%s\n", i, i, s)
		}
	}
	return b.Bytes()
}

func (c ccase) args(input string) []string {
	var a []string
	if c.MaxCPU > 0 {
		a = append(a, "--max-cpu", strconv.Itoa(c.MaxCPU))
	}
	if c.Batch > 0 {
		a = append(a, "--batch-size", strconv.Itoa(c.Batch))
	}
	if c.Gzip {
		a = append(a, "-Z")
	}
	switch c.Format {
	case "fasta":
		a = append(a, "--fasta-output")
	case "fastq":
		a = append(a, "--fastq-output")
	case "json":
		a = append(a, "--json-output")
	case "csv":
		a = append(a, "-i", "-s", "-k", "rank")
	}
	return append(a, input)
}

func (c ccase) env() []string {
	if c.Jitter > 0 {
		return []string{fmt.Sprintf("VERIF_JITTER=%d:%d", c.Jitter*31+3, c.Jitter)}
	}
	return nil
}

// ------------------------------------------------------------------ running

type cmdOutcome struct {
	Exit     int // exit status, -1 when killed by a signal
	Signal   syscall.Signal
	Signaled bool
	TimedOut bool
	Stdout   []byte // what the harness received (captured output / bytes read from the pipe)
	Stderr   []byte
	PipeCap  int // actual capacity of the pipe
	Err      error
}

const fSetPipeSz, fGetPipeSz = 1031, 1032

// execTo runs the command with its standard output connected as the mode says.
func execTo(name string, args, env []string, mode string, k, pipeCap int) cmdOutcome {
	var o cmdOutcome
	ctx, cancel := context.WithTimeout(context.Background(), 60*time.Second)
	defer cancel()
	cmd := exec.CommandContext(ctx, run.Bin(name), args...)
	cmd.Env = append([]string{"PATH=/usr/bin:/bin", "HOME=" + run.WorkDir(), "TMPDIR=" + run.WorkDir()}, env...)
	cmd.Dir = run.WorkDir()
	var se, so bytes.Buffer
	cmd.Stderr = &se
	cmd.SysProcAttr = &syscall.SysProcAttr{Setpgid: true}
	cmd.Cancel = func() error { return syscall.Kill(-cmd.Process.Pid, syscall.SIGKILL) }

	var pr, pw *os.File
	switch mode {
	case "capture":
		cmd.Stdout = &so
	case "devfull_stdout":
		f, err := os.OpenFile("/dev/full", os.O_WRONLY, 0)
		if err != nil {
			o.Err = err
			return o
		}
		defer f.Close()
		cmd.Stdout = f
	case "pipe":
		var err error
		pr, pw, err = os.Pipe()
		if err != nil {
			o.Err = err
			return o
		}
		if pipeCap > 0 {
			syscall.Syscall(syscall.SYS_FCNTL, pw.Fd(), fSetPipeSz, uintptr(pipeCap))
		}
		sz, _, errno := syscall.Syscall(syscall.SYS_FCNTL, pw.Fd(), fGetPipeSz, 0)
		if errno != 0 {
			sz = 1 << 20 // unknown: assume the largest capacity an unprivileged pipe can have
		}
		o.PipeCap = int(sz)
		cmd.Stdout = pw
	}
	if err := cmd.Start(); err != nil {
		o.Err = err
		if pr != nil {
			pr.Close()
			pw.Close()
		}
		return o
	}
	if mode == "pipe" {
		pw.Close()
		buf := make([]byte, k)
		n, _ := io.ReadFull(pr, buf)
		o.Stdout = buf[:n]
		pr.Close() // the reader goes away
	}
	err := cmd.Wait()
	if mode == "capture" {
		o.Stdout = so.Bytes()
	}
	o.Stderr = se.Bytes()
	if ctx.Err() != nil {
		o.TimedOut = true
		o.Exit = -1
		return o
	}
	var ee *exec.ExitError
	switch {
	case err == nil:
		o.Exit = 0
	case errors.As(err, &ee):
		o.Exit = ee.ExitCode()
		if ws, ok := ee.Sys().(syscall.WaitStatus); ok && ws.Signaled() {
			o.Signaled, o.Signal = true, ws.Signal()
		}
	default:
		o.Exit = -1
		o.Err = err
	}
	return o
}

// ------------------------------------------------------------------ reference output

type cmdRef struct {
	T       []byte
	Err     error
	Timeout bool
}

var (
	cmdRefMu    sync.Mutex
	cmdRefCache = map[string]*cmdRef{}
)

func writeInput(c ccase) (string, func(), error) {
	dir, err := os.MkdirTemp(run.WorkDir(), "c18cmd")
	if err != nil {
		return "", nil, err
	}
	ext := ".fasta"
	if c.Format == "fastq" {
		ext = ".fastq"
	}
	p := filepath.Join(dir, "in"+ext)
	if err := os.WriteFile(p, c.input(), 0o644); err != nil {
		os.RemoveAll(dir)
		return "", nil, err
	}
	return p, func() { os.RemoveAll(dir) }, nil
}

func getCmdRef(c ccase, input string) *cmdRef {
	key := c.configKey()
	cmdRefMu.Lock()
	if r, ok := cmdRefCache[key]; ok {
		cmdRefMu.Unlock()
		return r
	}
	cmdRefMu.Unlock()
	r := &cmdRef{}
	args := c.args(input)
	var outFile string
	if c.viaO() {
		outFile = filepath.Join(filepath.Dir(input), "ref.out")
		args = append([]string{"-o", outFile}, args...)
	}
	// The healthy run is the yardstick, not the subject: a command that dies for a
	// reason unrelated to its output (a rare crash while the input is parsed has
	// been seen under load) is run again; only a failure repeated three times in a
	// row is reported.
	var o cmdOutcome
	for attempt := 0; attempt < 3; attempt++ {
		if outFile != "" {
			os.Remove(outFile)
		}
		o = execTo(c.Cmd, args, c.env(), "capture", 0, 0)
		if o.TimedOut || o.Err != nil || o.Exit == 0 {
			break
		}
		evid.Class("healthy_run_failed_and_retried", 1)
	}
	switch {
	case o.TimedOut:
		r.Timeout = true
	case o.Err != nil:
		r.Err = fmt.Errorf("harness infrastructure: cannot run %s: %v", c.Cmd, o.Err)
	case o.Exit != 0:
		r.Err = fmt.Errorf("%s %v (healthy output) exited with status %d three times in a row: %s", c.Cmd, args, o.Exit, tail(messagesBytes(o.Stderr), 1500))
	default:
		r.T = o.Stdout
		if outFile != "" {
			b, err := os.ReadFile(outFile)
			if err != nil {
				r.Err = fmt.Errorf("%s %v exited 0 but the output file cannot be read: %v", c.Cmd, args, err)
			}
			r.T = b
		}
	}
	if !r.Timeout {
		cmdRefMu.Lock()
		cmdRefCache[key] = r
		cmdRefMu.Unlock()
	}
	return r
}

func messagesBytes(stderr []byte) []byte {
	return []byte(strings.Join(messages(stderr, ""), "\n"))
}

// ------------------------------------------------------------------ the oracle

func (c ccase) checkName() string {
	if c.Mode == "pipe" {
		return "cmd_" + c.Cmd + "_pipe"
	}
	return "cmd_" + c.Cmd + "_devfull"
}

func checkCommand(c ccase) error {
	_, err := judgeCommand(c, false)
	return err
}

// judgeCommand runs the case; with count it also records the evaluation.
func judgeCommand(c ccase, count bool) (string, error) {
	name := c.checkName()
	if err := c.validate(); err != nil {
		return name, fmt.Errorf("invalid case: %v", err)
	}
	input, cleanup, err := writeInput(c)
	if err != nil {
		evid.Class("infrastructure_skipped", 1)
		return name, nil
	}
	defer cleanup()
	r := getCmdRef(c, input)
	if r.Timeout {
		evid.Class("timeout_inconclusive", 1)
		return name, nil
	}
	if r.Err != nil {
		return name, r.Err
	}
	size := len(r.T)

	args := c.args(input)
	mode := c.Mode
	if c.Mode == "devfull_o" {
		args = append([]string{"-o", "/dev/full"}, args...)
		mode = "capture"
	}
	o := execTo(c.Cmd, args, c.env(), mode, c.K, c.PipeCap)
	what := fmt.Sprintf("%s %s", c.Cmd, strings.Join(args, " "))
	switch c.Mode {
	case "devfull_stdout":
		what += " >/dev/full"
	case "pipe":
		what += fmt.Sprintf(" | (read %d bytes; close)  [pipe capacity %d]", c.K, o.PipeCap)
	}

	certain := true
	if c.Mode == "pipe" {
		certain = size > c.K+o.PipeCap
	} else {
		certain = size > 0
	}
	if count {
		labels := []string{"cmd:" + c.Cmd, "format:" + c.Format, "mode:" + c.Mode, fmt.Sprintf("gzip:%v", c.Gzip)}
		nontrivial := false
		if c.Mode != "pipe" && (size < 4096 || c.Gzip) {
			nontrivial = true
			labels = append(labels, "devfull_error_only_at_flush_or_close")
		}
		if !certain {
			labels = append(labels, "failure_not_certain:no_verdict_on_success")
		}
		evid.Eval(name, evid.Hash(c.key()), nontrivial, c, labels...)
	}
	if o.TimedOut {
		evid.Class("timeout_inconclusive", 1)
		return name, nil
	}
	if o.Err != nil {
		evid.Class("infrastructure_skipped", 1)
		return name, nil
	}
	failed := o.Exit != 0 || o.Signaled
	if !certain {
		if failed {
			evid.Class("cmd_outcome:failed_when_not_certain", 1)
		}
		return name, nil
	}
	if !failed {
		return name, fmt.Errorf("%s: exit status 0 although the healthy output has %d bytes and the output stream cannot take them (%d bytes were delivered); stderr: %s",
			what, size, len(o.Stdout), tail(o.Stderr, 600))
	}
	if o.Signaled && o.Signal == syscall.SIGPIPE && c.Mode == "pipe" {
		evid.Class("cmd_outcome:sigpipe", 1)
		return name, nil
	}
	evid.Class("cmd_outcome:nonzero_exit", 1)
	if len(messages(o.Stderr, "")) == 0 {
		return name, fmt.Errorf("%s: exit status %d (signal: %v) but no message on stderr beyond the informational log lines: %s",
			what, o.Exit, o.Signaled, tail(o.Stderr, 600))
	}
	return name, nil
}
