package c18

import (
	"bytes"
	"compress/gzip"
	"fmt"
	"io"
	"os"
	"regexp"
	"strconv"
	"strings"
	"sync"

	"verifharness/internal/evid"
	"verifharness/internal/run"
)

// ------------------------------------------------------------------ the case

// fcase is one complete input of the faultcmd check.
type fcase struct {
	Writer  string `json:"writer"`  // fasta | fastq | json | csv
	Sizes   []int  `json:"sizes"`   // records of batch b (0 = empty batch)
	Arrival []int  `json:"arrival"` // push order: permutation of 0..n-1
	SeqLen  int    `json:"seqlen"`  // nucleotides per record (>= 1)
	Gzip    bool   `json:"gzip"`
	Close   bool   `json:"close"`   // OptionCloseFile
	Workers int    `json:"workers"` // formatting workers; 1 = arrival order is the push order
	Jitter  int    `json:"jitter"`  // VERIF_JITTER max µs (0 = off), only with Workers > 1
	Fault   string `json:"fault"`   // none | short | erronly | once | close | (transient_test.go:) tshort | terronly | shortnil
	K       int64  `json:"k"`       // byte offset of the fault in the stream
	// Errno: "" = the injected error is a private error value; epipe | enospc |
	// eio | edquot | efbig = it is an *fs.PathError wrapping that errno, what the
	// operating system returns for a file
	Errno string `json:"errno,omitempty"`
	// transient kinds (transient_test.go): number of consecutive failing Write
	// calls (0 = 1), bytes accepted by the second and later ones, bare
	// syscall.Errno instead of a PathError around it
	Repeat int  `json:"repeat,omitempty"`
	Step   int  `json:"step,omitempty"`
	Raw    bool `json:"raw,omitempty"`
}

func (c fcase) configKey() string {
	return fmt.Sprint(c.Writer, c.Sizes, c.Arrival, c.SeqLen, c.Gzip, c.Close, c.Workers, c.Jitter)
}

func (c fcase) key() string {
	if c.transient() {
		return fmt.Sprint(c.configKey(), c.Fault, c.K, c.Errno, c.Repeat, c.Step, c.Raw)
	}
	if c.Errno != "" {
		return fmt.Sprint(c.configKey(), c.Fault, c.K, c.Errno)
	}
	return fmt.Sprint(c.configKey(), c.Fault, c.K)
}

func (c fcase) zname() string {
	if c.Gzip {
		return "gz"
	}
	return "plain"
}

func joinInts(v []int) string {
	s := make([]string, len(v))
	for i, x := range v {
		s[i] = strconv.Itoa(x)
	}
	return strings.Join(s, ",")
}

func (c fcase) validate() error {
	n := len(c.Sizes)
	if len(c.Arrival) != n {
		return fmt.Errorf("arrival has %d entries for %d batches", len(c.Arrival), n)
	}
	seen := make([]bool, n)
	for _, b := range c.Arrival {
		if b < 0 || b >= n || seen[b] {
			return fmt.Errorf("arrival %v is not a permutation of 0..%d", c.Arrival, n-1)
		}
		seen[b] = true
	}
	if c.SeqLen < 1 || c.Workers < 1 {
		return fmt.Errorf("seqlen and workers must be >= 1")
	}
	ok := false
	for _, w := range writers {
		ok = ok || w == c.Writer
	}
	if !ok {
		return fmt.Errorf("unknown writer %q", c.Writer)
	}
	switch c.Fault {
	case "none", "short", "erronly", "once", "close":
	case "tshort", "terronly", "shortnil":
		if err := c.validateTransient(); err != nil {
			return err
		}
	default:
		return fmt.Errorf("unknown fault kind %q", c.Fault)
	}
	switch c.Errno {
	case "", "epipe", "enospc", "eio", "edquot", "efbig", "eagain", "eintr":
	default:
		return fmt.Errorf("unknown errno %q", c.Errno)
	}
	return nil
}

func (c fcase) args(fault string, k int64, trace bool) []string {
	a := []string{"-writer", c.Writer, "-sizes", joinInts(c.Sizes), "-seqlen", strconv.Itoa(c.SeqLen),
		"-workers", strconv.Itoa(c.Workers), "-fault", fault, "-k", strconv.FormatInt(k, 10)}
	if len(c.Arrival) > 0 {
		a = append(a, "-arrival", joinInts(c.Arrival))
	}
	if c.Gzip {
		a = append(a, "-gzip")
	}
	if c.Close {
		a = append(a, "-close")
	}
	if trace {
		a = append(a, "-trace")
	}
	if c.Errno != "" && fault != "none" {
		a = append(a, "-errno", c.Errno)
		if c.Raw {
			a = append(a, "-rawerrno")
		}
	}
	if c.transient() && fault != "none" {
		a = append(a, "-repeat", strconv.Itoa(max(1, c.Repeat)), "-step", strconv.Itoa(c.Step))
	}
	return a
}

func (c fcase) env() []string {
	if c.Workers > 1 && c.Jitter > 0 {
		return []string{fmt.Sprintf("VERIF_JITTER=%d:%d", c.Jitter*31+7, c.Jitter)}
	}
	return nil
}

// ------------------------------------------------------------------ one run of faultcmd

type wr struct {
	Off, Len int64
	InClose  bool
}

type outcome struct {
	Stream   []byte // bytes accepted by the stream (= stdout of faultcmd)
	Exit     int
	TimedOut bool
	Hits     int      // number of Write/Close calls of the stream that returned an error
	ShortNil int      // number of Write calls cut short without an error (kind shortnil)
	HitLines []string // their descriptions
	Closes   int      // Close calls on the stream
	Done     bool     // main returned normally
	Writes   []wr     // only with -trace
	Messages []string // stderr lines that are not FAULTCMD lines nor info/debug/warning log lines
	Infra    string   // the helper could not do its job (usage error, stdout copy failed)
	Stderr   string
}

var (
	reWrite = regexp.MustCompile(`^FAULTCMD write off=(\d+) len=(\d+) inclose=(\d)`)
	reQuiet = regexp.MustCompile(`level=(info|debug|trace|warning)\b`)
)

// messages keeps the stderr lines that report something: not the helper's own
// lines, not the informational log lines of a normal run.
func messages(stderr []byte, ownPrefix string) []string {
	var out []string
	for _, l := range strings.Split(string(stderr), "\n") {
		if strings.TrimSpace(l) == "" || (ownPrefix != "" && strings.HasPrefix(l, ownPrefix)) || reQuiet.MatchString(l) {
			continue
		}
		out = append(out, l)
	}
	return out
}

func runFault(c fcase, fault string, k int64, trace bool) outcome {
	var r run.Result
	if c.transient() && fault != "none" {
		// run.Cmd takes the text of EAGAIN on stderr for a machine out of threads and
		// runs the command again after pauses
		r = runTransient(c.env(), "faultcmd", c.args(fault, k, trace)...)
	} else {
		r = run.Cmd(run.Opt{Env: c.env()}, "faultcmd", c.args(fault, k, trace)...)
	}
	o := outcome{Stream: r.Stdout, Exit: r.Exit, TimedOut: r.TimedOut, Stderr: string(r.Stderr)}
	if r.Err != nil && r.Exit == -1 && !r.TimedOut {
		o.Stderr += "\n[wait: " + r.Err.Error() + "]"
	}
	for _, l := range strings.Split(string(r.Stderr), "\n") {
		switch {
		case strings.HasPrefix(l, "FAULTCMD hit "):
			o.Hits++
			o.HitLines = append(o.HitLines, l)
		case strings.HasPrefix(l, "FAULTCMD shortnil "):
			o.ShortNil++
			o.HitLines = append(o.HitLines, l)
		case strings.HasPrefix(l, "FAULTCMD close "):
			o.Closes++
		case strings.HasPrefix(l, "FAULTCMD done "):
			o.Done = true
		case strings.HasPrefix(l, "FAULTCMD write "):
			if m := reWrite.FindStringSubmatch(l); m != nil {
				off, _ := strconv.ParseInt(m[1], 10, 64)
				ln, _ := strconv.ParseInt(m[2], 10, 64)
				o.Writes = append(o.Writes, wr{off, ln, m[3] == "1"})
			}
		case strings.HasPrefix(l, "FAULTCMD usage-error"), strings.HasPrefix(l, "FAULTCMD infrastructure"):
			o.Infra = l
		}
	}
	if r.Exit == 97 || r.Exit == 98 {
		o.Infra = fmt.Sprintf("faultcmd exit %d: %s", r.Exit, tail(r.Stderr, 400))
	}
	o.Messages = messages(r.Stderr, "FAULTCMD ")
	return o
}

func tail(b []byte, n int) string {
	if len(b) > n {
		return "…" + string(b[len(b)-n:])
	}
	return string(b)
}

func head(b []byte, n int) string {
	if len(b) > n {
		return string(b[:n]) + "…"
	}
	return string(b)
}

// ------------------------------------------------------------------ the reference run

type reference struct {
	T       []byte // the fault-free stream
	Writes  []wr   // every Write call of the fault-free stream
	Closes  int
	Plain   []byte // T, gunzipped when compression is on
	Bounds  []int  // Bounds[b] = offset in Plain where the text of batch b starts (len n+1)
	PWrites []wr   // trace of the uncompressed configuration (== Writes when !Gzip)
	Err     error  // the reference run itself misbehaved
	Timeout bool
}

var (
	refMu    sync.Mutex
	refCache = map[string]*reference{}
)

func recID(b, i int) string { return fmt.Sprintf("b%02d_r%03d", b, i) }

// bounds locates the start of each batch's text in the uncompressed output from
// the identifier of its first record (the records are a pure function of the case).
func bounds(c fcase, plain []byte) []int {
	n := len(c.Sizes)
	out := make([]int, n+1)
	out[n] = len(plain)
	for b := n - 1; b >= 0; b-- {
		out[b] = out[b+1]
		if c.Sizes[b] == 0 {
			continue
		}
		id := recID(b, 0)
		p := -1
		switch c.Writer {
		case "fasta":
			p = bytes.Index(plain, []byte(">"+id))
		case "fastq":
			p = bytes.Index(plain, []byte("@"+id))
		case "csv":
			if p = bytes.Index(plain, []byte("\n"+id+",")); p >= 0 {
				p++
			}
		case "json":
			if q := bytes.Index(plain, []byte(`"id": "`+id+`"`)); q >= 0 {
				if s := bytes.LastIndex(plain[:q], []byte("\n  {\n")); s >= 0 {
					p = s + 1
				}
			}
		}
		if p >= 0 {
			out[b] = p
		}
	}
	if n > 0 && c.Writer == "csv" {
		out[0] = 0 // the header line belongs to batch 0
	}
	return out
}

func getReference(c fcase) *reference {
	key := c.configKey()
	refMu.Lock()
	if r, ok := refCache[key]; ok {
		refMu.Unlock()
		return r
	}
	refMu.Unlock()

	r := &reference{}
	var o outcome
	for attempt := 0; attempt < 3; attempt++ { // only a failure repeated three times is reported
		o = runFault(c, "none", 0, true)
		if o.TimedOut || o.Infra != "" || (o.Exit == 0 && o.Done) {
			break
		}
		evid.Class("healthy_run_failed_and_retried", 1)
	}
	switch {
	case o.TimedOut:
		fmt.Fprintf(os.Stderr, "C18 inconclusive: 60 s kill timer hit by the fault-free run faultcmd %s\n", strings.Join(c.args("none", 0, true), " "))
		r.Timeout = true
	case o.Infra != "":
		r.Err = fmt.Errorf("harness infrastructure: %s", o.Infra)
	case o.Exit != 0 || !o.Done:
		r.Err = fmt.Errorf("faultcmd %v (no fault injected) exited with status %d (main returned: %v) three times in a row; stderr: %s",
			c.args("none", 0, false), o.Exit, o.Done, tail([]byte(o.Stderr), 600))
	default:
		r.T, r.Writes, r.Closes = o.Stream, o.Writes, o.Closes
		r.Plain, r.PWrites = r.T, r.Writes
		if c.Gzip {
			if zr, err := gzip.NewReader(bytes.NewReader(r.T)); err == nil {
				r.Plain, _ = io.ReadAll(zr)
			} else {
				r.Plain = nil
			}
			pc := c
			pc.Gzip = false
			if pr := getReference(pc); pr.Err == nil && !pr.Timeout {
				r.PWrites = pr.Writes
				if r.Plain == nil {
					r.Plain = pr.T
				}
			}
		}
		r.Bounds = bounds(c, r.Plain)
	}
	if !r.Timeout { // a timed-out reference is retried by the next case
		refMu.Lock()
		refCache[key] = r
		refMu.Unlock()
	}
	return r
}

// ------------------------------------------------------------------ classification (evidence only)

type fclass struct {
	Phase      string // write | flushclose | closeerr | notreached
	Nontrivial bool
	Labels     []string
}

// chunkAt returns the batch whose text holds the uncompressed offset off.
func chunkAt(bounds []int, off int64) int {
	n := len(bounds) - 1
	x := -1
	for b := 0; b < n; b++ {
		if int64(bounds[b]) <= off && off < int64(bounds[b+1]) {
			x = b
		}
	}
	if x < 0 && n > 0 {
		x = n - 1
	}
	return x
}

// classify says where the fault of the case falls, from the trace of the
// fault-free run (deterministic: the Write calls of the stream depend only on the
// sequence of chunk texts, which the writers emit in batch order) and the model of
// the re-sequencing buffer (a chunk is written when all lower numbers have arrived).
func classify(c fcase, r *reference) fclass {
	f := fclass{}
	sizeClass := "out<4KiB"
	switch n := len(r.Plain); {
	case n > 1<<20:
		sizeClass = "out>1MiB"
	case n > 16384:
		sizeClass = "out>16KiB"
	case n > 4096:
		sizeClass = "out>4KiB"
	}
	f.Labels = append(f.Labels, "writer:"+c.Writer, "stream:"+c.zname(), "kind:"+c.Fault, sizeClass,
		fmt.Sprintf("close_file:%v", c.Close))
	if c.Errno != "" && c.Fault != "none" {
		f.Labels = append(f.Labels, "error:os_errno", "errno:"+c.Errno)
	} else {
		f.Labels = append(f.Labels, "error:private_value")
	}
	if c.Workers > 1 {
		f.Labels = append(f.Labels, "workers>1")
	}
	inOrder := true
	for i, b := range c.Arrival {
		inOrder = inOrder && i == b
	}
	if inOrder {
		f.Labels = append(f.Labels, "arrival:in_order")
	} else {
		f.Labels = append(f.Labels, "arrival:with_buffered_chunks")
	}

	if c.Fault == "close" {
		if c.Close {
			f.Phase = "closeerr"
			f.Nontrivial = c.Workers == 1
		} else {
			f.Phase = "notreached"
		}
		return f
	}
	if c.Fault == "none" || c.K >= int64(len(r.T)) {
		f.Phase = "notreached"
		return f
	}
	// the Write call of the stream that carries byte K
	wi := -1
	for i, w := range r.Writes {
		if w.Off+w.Len > c.K {
			wi = i
			break
		}
	}
	if wi < 0 {
		f.Phase = "write"
		return f
	}
	w := r.Writes[wi]
	if w.InClose {
		f.Phase = "flushclose"
		f.Nontrivial = c.Workers == 1
		if c.Gzip {
			f.Labels = append(f.Labels, "visible_only_at_gzip_close")
		} else {
			f.Labels = append(f.Labels, "visible_only_at_final_flush")
		}
		return f
	}
	f.Phase = "write"
	if c.Workers != 1 || len(r.Bounds) < 2 {
		return f
	}
	// which chunk was being handed to the wrapper when this Write call was issued:
	// the one holding the last uncompressed byte the call carries
	var plainEnd int64
	if !c.Gzip {
		plainEnd = w.Off + w.Len - 1
	} else {
		// a gzip stream Write outside Close: the 10-byte header goes out at the first
		// flush of the 4 KiB buffer into the compressor; later ones are 1 MiB blocks
		nth := 0
		for i := 0; i < wi; i++ {
			if !r.Writes[i].InClose {
				nth++
			}
		}
		var pw []wr
		for _, x := range r.PWrites {
			if !x.InClose {
				pw = append(pw, x)
			}
		}
		switch {
		case nth == 0 && len(pw) > 0:
			plainEnd = pw[0].Off + pw[0].Len - 1
		default:
			plainEnd = int64(nth)<<20 - 1
		}
	}
	x := chunkAt(r.Bounds, plainEnd)
	if x < 0 {
		return f
	}
	pos := make([]int, len(c.Arrival))
	for i, b := range c.Arrival {
		pos[b] = i
	}
	emit := 0
	for j := 0; j <= x; j++ {
		emit = max(emit, pos[j])
	}
	waiting := 0
	for j := x + 1; j < len(pos); j++ {
		if pos[j] < emit {
			waiting++
		}
	}
	if pos[x] < emit {
		f.Labels = append(f.Labels, "fault_in_drained_chunk_write")
	} else {
		f.Labels = append(f.Labels, "fault_in_in_order_chunk_write")
	}
	if waiting > 0 {
		f.Nontrivial = true
		f.Labels = append(f.Labels, "fault_while_chunks_waiting")
		if waiting > 1 {
			f.Labels = append(f.Labels, "fault_while_>=2_chunks_waiting")
		}
	}
	return f
}

func (c fcase) checkName(f fclass) string {
	if c.transient() {
		return "transient_" + c.Writer + "_" + c.zname()
	}
	return "fault_" + c.Writer + "_" + c.zname() + "_" + f.Phase
}

// ------------------------------------------------------------------ the oracle

// checkFault runs the case and judges it.  It is a pure function of the case.
func checkFault(c fcase) error {
	if err := c.validate(); err != nil {
		return fmt.Errorf("invalid case: %v", err)
	}
	r := getReference(c)
	if r.Timeout {
		evid.Class("timeout_inconclusive", 1)
		return nil
	}
	if r.Err != nil {
		return r.Err
	}
	o := runFault(c, c.Fault, c.K, false)
	if o.TimedOut {
		fmt.Fprintf(os.Stderr, "C18 inconclusive: 60 s kill timer hit by faultcmd %s\n", strings.Join(c.args(c.Fault, c.K, false), " "))
		evid.Class("timeout_inconclusive", 1)
		return nil
	}
	if o.Infra != "" {
		return fmt.Errorf("harness infrastructure: %s", o.Infra)
	}
	what := fmt.Sprintf("faultcmd %s", strings.Join(c.args(c.Fault, c.K, false), " "))
	if c.transient() {
		return judgeTransient(c, r, o, what)
	}
	if o.Hits > 0 {
		evid.Class("outcome:stream_failed", 1)
		if o.Exit == 0 {
			return fmt.Errorf("%s: the output stream returned an error to the writer (%s) and the process exited with status 0 (main returned normally: %v); the fault-free output has %d bytes, %d reached the stream; stderr messages: %q",
				what, strings.Join(o.HitLines, " | "), o.Done, len(r.T), len(o.Stream), o.Messages)
		}
		if len(o.Messages) == 0 {
			return fmt.Errorf("%s: the output stream failed (%s), exit status %d, but nothing was reported on stderr: %q",
				what, strings.Join(o.HitLines, " | "), o.Exit, o.Stderr)
		}
		return nil
	}
	evid.Class("outcome:stream_never_failed", 1)
	if o.Exit != 0 || !o.Done {
		return fmt.Errorf("%s: the stream never returned an error but the process exited with status %d (main returned normally: %v); stderr: %s",
			what, o.Exit, o.Done, tail([]byte(o.Stderr), 600))
	}
	if !bytes.Equal(o.Stream, r.T) {
		return fmt.Errorf("%s: the stream never returned an error and the process exited with status 0, but the stream holds %d bytes and the fault-free run %d bytes: got %q, expected %q",
			what, len(o.Stream), len(r.T), head(o.Stream, 300), head(r.T, 300))
	}
	return nil
}

// evalFault counts the case and runs the check; it returns the check name too.
func evalFault(c fcase) (string, error) {
	r := getReference(c)
	if r.Timeout {
		evid.Class("timeout_inconclusive", 1)
		return "fault_" + c.Writer + "_" + c.zname() + "_notreached", nil
	}
	if r.Err != nil {
		return "fault_" + c.Writer + "_" + c.zname() + "_notreached", r.Err
	}
	f := classify(c, r)
	if c.transient() {
		f = classifyTransient(c, r, f)
	}
	name := c.checkName(f)
	evid.Eval(name, evid.Hash(c.key()), f.Nontrivial, c, append(f.Labels, "phase:"+f.Phase)...)
	return name, checkFault(c)
}
