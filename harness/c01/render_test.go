package c01

import (
	"fmt"
	"strings"
)

// Rec is the harness' model of one record of a sequence file.
type Rec struct {
	ID    string
	Def   string // definition (FASTA/FASTQ: rest of the title line; flat files: DEFINITION / DE text)
	Seq   string // as written in the file (any case)
	Qual  []int  // phred scores, FASTQ only
	Taxid int    // flat files: 0 = the record has no /db_xref="taxon:N"
	Sci   string // flat files: SOURCE / OS
	NFeat int    // flat files: number of extra feature lines
}

// Layout holds the generated formatting choices.
type Layout struct {
	Format      string // fasta, fastq, genbank, embl
	Fold        int    // FASTA line width (0 = one line)
	CRLF        bool
	BlankLines  bool // FASTA: an empty line after each record
	PlusRepeats bool // FASTQ: the separator line repeats the identifier
	NoFinalEOL  bool
	DefLines    int // flat files: the definition is folded over this many lines (>=1)
}

func (l Layout) eol() string {
	if l.CRLF {
		return "\r\n"
	}
	return "\n"
}

// Render writes the records in the requested format and returns the bytes and
// the byte offsets at which records start (offset of the first byte of each
// record, plus the total length).
func Render(recs []Rec, l Layout) ([]byte, []int) {
	var b strings.Builder
	var starts []int
	eol := l.eol()
	for _, r := range recs {
		starts = append(starts, b.Len())
		switch l.Format {
		case "fasta":
			b.WriteString(">" + r.ID)
			if r.Def != "" {
				b.WriteString(" " + r.Def)
			}
			b.WriteString(eol)
			if l.Fold <= 0 {
				b.WriteString(r.Seq + eol)
			} else {
				for p := 0; p < len(r.Seq); p += l.Fold {
					b.WriteString(r.Seq[p:min(len(r.Seq), p+l.Fold)] + eol)
				}
			}
			if l.BlankLines {
				b.WriteString(eol)
			}
		case "fastq":
			b.WriteString("@" + r.ID)
			if r.Def != "" {
				b.WriteString(" " + r.Def)
			}
			b.WriteString(eol + r.Seq + eol + "+")
			if l.PlusRepeats {
				b.WriteString(r.ID)
			}
			b.WriteString(eol)
			for _, q := range r.Qual {
				b.WriteByte(byte(q + 33))
			}
			b.WriteString(eol)
		case "genbank":
			fmt.Fprintf(&b, "LOCUS       %s %d bp    DNA     linear   PLN 01-JAN-2000\n", r.ID, len(r.Seq))
			for i, part := range foldDef(r.Def, max(1, l.DefLines)) {
				if i == 0 {
					b.WriteString("DEFINITION  " + part + "\n")
				} else {
					b.WriteString("            " + part + "\n")
				}
			}
			b.WriteString("ACCESSION   " + r.ID + "\n")
			b.WriteString("VERSION     " + r.ID + ".1\n")
			b.WriteString("KEYWORDS    .\n")
			b.WriteString("SOURCE      " + r.Sci + "\n")
			b.WriteString("  ORGANISM  " + r.Sci + "\n")
			b.WriteString("            Eukaryota; Viridiplantae.\n")
			b.WriteString(strings.Join(gbFeatures(r), "\n") + "\n")
			b.WriteString("ORIGIN\n")
			s := strings.ToLower(r.Seq)
			for p := 0; p < len(s); p += 60 {
				fmt.Fprintf(&b, "%9d", p+1)
				for q := p; q < min(len(s), p+60); q += 10 {
					b.WriteString(" " + s[q:min(len(s), q+10)])
				}
				b.WriteString("\n")
			}
			b.WriteString("//\n")
		case "embl":
			fmt.Fprintf(&b, "ID   %s; SV 1; linear; genomic DNA; STD; PLN; %d BP.%s", r.ID, len(r.Seq), eol)
			b.WriteString("XX" + eol)
			b.WriteString("AC   " + r.ID + ";" + eol)
			b.WriteString("XX" + eol)
			for _, part := range foldDef(r.Def, max(1, l.DefLines)) {
				b.WriteString("DE   " + part + eol)
			}
			b.WriteString("XX" + eol)
			b.WriteString("OS   " + r.Sci + eol)
			b.WriteString("OC   Eukaryota; Viridiplantae." + eol)
			b.WriteString("XX" + eol)
			b.WriteString(strings.Join(emblFeatures(r), eol) + eol)
			b.WriteString("XX" + eol)
			fmt.Fprintf(&b, "SQ   Sequence %d BP; 0 A; 0 C; 0 G; 0 T; 0 other;%s", len(r.Seq), eol)
			s := strings.ToLower(r.Seq)
			for p := 0; p < len(s); p += 60 {
				line := "    "
				for q := p; q < min(len(s), p+60); q += 10 {
					line += " " + s[q:min(len(s), q+10)]
				}
				cnt := fmt.Sprint(min(len(s), p+60))
				line += strings.Repeat(" ", max(1, 80-len(line)-len(cnt))) + cnt
				b.WriteString(line + eol)
			}
			b.WriteString("//" + eol)
		}
	}
	out := b.String()
	if l.NoFinalEOL && (l.Format == "fasta" || l.Format == "fastq") {
		out = strings.TrimRight(out, "\r\n")
	}
	starts = append(starts, len(out))
	return []byte(out), starts
}

// foldDef cuts a definition into n parts at blanks (fewer if it has fewer words).
func foldDef(def string, n int) []string {
	words := strings.Fields(def)
	if len(words) == 0 {
		return []string{""}
	}
	n = min(n, len(words))
	parts := make([]string, 0, n)
	per := (len(words) + n - 1) / n
	for i := 0; i < len(words); i += per {
		parts = append(parts, strings.Join(words[i:min(len(words), i+per)], " "))
	}
	return parts
}

func gbFeatures(r Rec) []string {
	f := []string{
		"FEATURES             Location/Qualifiers",
		fmt.Sprintf("     source          1..%d", len(r.Seq)),
		fmt.Sprintf("                     /organism=\"%s\"", r.Sci),
		"                     /mol_type=\"genomic DNA\"",
	}
	if r.Taxid > 0 {
		f = append(f, fmt.Sprintf("                     /db_xref=\"taxon:%d\"", r.Taxid))
	}
	for i := 0; i < r.NFeat; i++ {
		f = append(f, fmt.Sprintf("     gene            %d..%d", i+1, len(r.Seq)), fmt.Sprintf("                     /gene=\"g%d\"", i))
	}
	return f
}

func emblFeatures(r Rec) []string {
	f := []string{
		"FH   Key             Location/Qualifiers",
		"FH",
		fmt.Sprintf("FT   source          1..%d", len(r.Seq)),
		fmt.Sprintf("FT                   /organism=\"%s\"", r.Sci),
		"FT                   /mol_type=\"genomic DNA\"",
	}
	if r.Taxid > 0 {
		f = append(f, fmt.Sprintf("FT                   /db_xref=\"taxon:%d\"", r.Taxid))
	}
	for i := 0; i < r.NFeat; i++ {
		f = append(f, fmt.Sprintf("FT   gene            %d..%d", i+1, len(r.Seq)), fmt.Sprintf("FT                   /gene=\"g%d\"", i))
	}
	return f
}

// expectation of what a reader must deliver for a record
type Want struct {
	ID, Def, Seq string
	Qual         []int
	Flat         bool
	Taxid        int
	Sci          string
	Features     string
}

func wantOf(r Rec, l Layout) Want {
	w := Want{ID: r.ID, Def: r.Def, Seq: strings.ToLower(r.Seq)}
	switch l.Format {
	case "fastq":
		w.Qual = r.Qual
	case "genbank", "embl":
		w.Flat = true
		w.Def = strings.Join(strings.Fields(r.Def), " ")
		w.Sci = r.Sci
		w.Taxid = r.Taxid // 0: no cross-reference, the value is then judged against the record parsed alone
		if l.Format == "genbank" {
			w.Features = strings.Join(gbFeatures(r), "\n")
		} else {
			w.Features = strings.Join(emblFeatures(r), "\n")
		}
	}
	return w
}
