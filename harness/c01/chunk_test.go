// Property C01 — parsed records do not depend on chunk boundaries, transport or
// parser workers.
//
// Domain decisions
//   - Only well-formed input is generated.  FASTQ is the strict 4-line layout;
//     GenBank is LF-terminated (its parser does not strip CR; CRLF GenBank files
//     are rejected with an error, which is not what this property is about);
//     GenBank lines stay below the parser's 100-column limit.
//   - Read buffers of at least 2 bytes (with 1 byte the extension read has
//     length 0; production uses 1 MiB / 128 MiB).
//   - One blank between identifier and definition in the every-cut checks: what
//     the definition is when several blanks follow the identifier is only looked
//     at in the two-parsers check (class multi_blank_title).
//   - Compressed standard input is exercised for FASTA/FASTQ only (the stdin
//     reader of the flat-file formats does not decompress; not listed among the
//     observation points of the property).
//   - A flat-file record without a taxon cross-reference must get the same
//     taxid as when it is parsed on its own (whatever default that is).
package c01

import (
	"bytes"
	"fmt"
	"io"
	"reflect"
	"strings"
	"testing"
	"time"

	"git.metabarcoding.org/obitools/obitools4/obitools4/pkg/obiformats"
	"git.metabarcoding.org/obitools/obitools4/obitools4/pkg/obiseq"

	"verifharness/internal/evid"
	"verifharness/internal/fatal"
)

// ---------------------------------------------------------------- readers with generated behaviour

type schedReader struct {
	data  []byte
	pos   int
	kind  string
	sched []int
	k     int
}

func (r *schedReader) Read(p []byte) (int, error) {
	if len(p) == 0 {
		return 0, nil
	}
	if r.pos >= len(r.data) {
		return 0, io.EOF
	}
	n := len(p)
	switch r.kind {
	case "onebyte":
		n = 1
	case "half":
		n = max(1, len(p)/2)
	case "sched":
		if len(r.sched) > 0 {
			n = max(1, min(len(p), r.sched[r.k%len(r.sched)]))
			r.k++
		}
	}
	n = min(n, len(r.data)-r.pos)
	copy(p, r.data[r.pos:r.pos+n])
	r.pos += n
	if r.kind == "eofdata" && r.pos == len(r.data) {
		return n, io.EOF
	}
	return n, nil
}

var readerKinds = []string{"bytes", "onebyte", "half", "eofdata", "sched"}

// ---------------------------------------------------------------- the real code under test

type parserFn func(string, io.Reader) (obiseq.BioSequenceSlice, error)

func splitterOf(format string) obiformats.LastSeqRecord {
	switch format {
	case "fasta":
		return obiformats.EndOfLastFastaEntry
	case "fastq":
		return obiformats.EndOfLastFastqEntry
	}
	return obiformats.EndOfLastFlatFileEntry
}

func parserOf(format string, withFeatures bool) parserFn {
	switch format {
	case "fasta":
		return obiformats.FastaChunkParser()
	case "fastq":
		return obiformats.FastqChunkParser(33, true)
	case "genbank":
		return obiformats.GenbankChunkParser(withFeatures)
	}
	return obiformats.EmblChunkParser(withFeatures)
}

// Got is what the reader delivered for one record.
type Got struct {
	ID, Def, Seq string
	Qual         []int
	Taxid        int
	HasTaxid     bool
	Sci          string
	Features     string
}

func gotOf(s *obiseq.BioSequence) Got {
	g := Got{ID: s.Id(), Def: s.Definition(), Seq: s.String(), Qual: []int{}}
	if s.HasQualities() {
		for _, q := range s.Qualities() {
			g.Qual = append(g.Qual, int(q))
		}
	}
	if s.HasAnnotation() {
		a := s.Annotations()
		if v, ok := a["taxid"]; ok {
			g.HasTaxid = true
			switch x := v.(type) {
			case int:
				g.Taxid = x
			default:
				g.Taxid = -12345
			}
		}
		if v, ok := a["scientific_name"]; ok {
			g.Sci = fmt.Sprint(v)
		}
	}
	g.Features = string(s.Features())
	return g
}

// parseChunk runs the real chunk parser on one chunk of text.
func parseChunk(format string, withFeatures bool, raw []byte) ([]Got, error) {
	var seqs obiseq.BioSequenceSlice
	var err error
	out := fatal.Run(func() { seqs, err = parserOf(format, withFeatures)("src", bytes.NewBuffer(bytes.Clone(raw))) })
	if !out.Completed {
		return nil, fmt.Errorf("parser did not accept the chunk: %v", out)
	}
	if err != nil {
		return nil, fmt.Errorf("parser returned error %v", err)
	}
	gots := make([]Got, len(seqs))
	for i, s := range seqs {
		gots[i] = gotOf(s)
	}
	return gots, nil
}

// readChunks drains the real ReadSeqFileChunk.
func readChunks(format string, data []byte, bufSize int, kind string, sched []int) ([][]byte, error) {
	var rd io.Reader
	if kind == "bytes" {
		rd = bytes.NewReader(data)
	} else {
		rd = &schedReader{data: data, kind: kind, sched: sched}
	}
	fatal.Install()
	before := fatal.Count()
	ch := obiformats.ReadSeqFileChunk("src", rd, make([]byte, bufSize), splitterOf(format))
	var chunks [][]byte
	timeout := time.After(20 * time.Second)
	tick := time.NewTicker(20 * time.Millisecond)
	defer tick.Stop()
	for i := 0; ; {
		select {
		case <-tick.C:
			if fatal.Count() != before {
				return nil, fmt.Errorf("chunk reader called log.Fatal: %s", fatal.LastMessage())
			}
		case c, ok := <-ch:
			if !ok {
				if fatal.Count() != before {
					return nil, fmt.Errorf("chunk reader called log.Fatal: %s", fatal.LastMessage())
				}
				return chunks, nil
			}
			if c.Order != i {
				return nil, fmt.Errorf("chunk number %d delivered at rank %d", c.Order, i)
			}
			chunks = append(chunks, bytes.Clone(c.Raw.Bytes()))
			i++
		case <-timeout:
			if fatal.Count() != before {
				return nil, fmt.Errorf("chunk reader called log.Fatal: %s", fatal.LastMessage())
			}
			return nil, fmt.Errorf("chunk reader delivered nothing for 20 s (after %d chunks)", len(chunks))
		}
	}
}

func compareRec(g Got, w Want, alone Got, withFeatures bool) error {
	if g.ID != w.ID {
		return fmt.Errorf("identifier %q, file has %q", g.ID, w.ID)
	}
	if g.Def != w.Def {
		return fmt.Errorf("record %s: definition %q, file has %q", w.ID, g.Def, w.Def)
	}
	if g.Seq != w.Seq {
		return fmt.Errorf("record %s: sequence %q, file has %q", w.ID, g.Seq, w.Seq)
	}
	if !(len(g.Qual) == 0 && len(w.Qual) == 0) && !reflect.DeepEqual(g.Qual, w.Qual) {
		return fmt.Errorf("record %s: qualities %v, file has %v", w.ID, g.Qual, w.Qual)
	}
	if w.Flat {
		if g.Sci != w.Sci {
			return fmt.Errorf("record %s: scientific_name %q, file has %q", w.ID, g.Sci, w.Sci)
		}
		if !g.HasTaxid {
			return fmt.Errorf("record %s: no taxid annotation", w.ID)
		}
		if w.Taxid > 0 && g.Taxid != w.Taxid {
			return fmt.Errorf("record %s: taxid %d, file has taxon:%d", w.ID, g.Taxid, w.Taxid)
		}
		if withFeatures && g.Features != w.Features {
			return fmt.Errorf("record %s: feature table differs from the file:\n got  %q\n want %q", w.ID, g.Features, w.Features)
		}
	}
	// the record read among its neighbours equals the record read on its own
	if !reflect.DeepEqual(g, alone) {
		return fmt.Errorf("record %s depends on its neighbours / the cut: read in the stream as %+v, read alone as %+v", w.ID, g, alone)
	}
	return nil
}

// ---------------------------------------------------------------- check 1+2: every cut position

type ChunkCase struct {
	Recs         []Rec
	L            Layout
	WithFeatures bool
	Kind         string // reader behaviour
	Sched        []int
	Bufs         []int // buffer sizes to try; empty = every size 2..len+2
}

func init() { evid.Reg("chunks", func(c ChunkCase) error { _, err := checkChunks(c, false); return err }) }

type cutStats struct{ cuts, nontrivial int }

func checkChunks(c ChunkCase, count bool) (cutStats, error) {
	var st cutStats
	data, starts := Render(c.Recs, c.L)
	isStart := map[int]bool{}
	for _, s := range starts {
		isStart[s] = true
	}
	wants := make([]Want, len(c.Recs))
	alone := make([]Got, len(c.Recs))
	for i, r := range c.Recs {
		wants[i] = wantOf(r, c.L)
		one, _ := Render([]Rec{r}, c.L)
		one = bytes.TrimRight(one, "\r\n")
		g, err := parseChunk(c.L.Format, c.WithFeatures, one)
		if err != nil || len(g) != 1 {
			return st, fmt.Errorf("record %d (%s) parsed on its own: %v (%d records)\n%s", i, r.ID, err, len(g), one)
		}
		alone[i] = g[0]
	}
	bufs := c.Bufs
	if len(bufs) == 0 {
		for b := 2; b <= len(data)+2; b++ {
			bufs = append(bufs, b)
		}
	}
	for _, b := range bufs {
		if b < 2 {
			continue
		}
		chunks, err := readChunks(c.L.Format, data, b, c.Kind, c.Sched)
		if err != nil {
			return st, fmt.Errorf("buffer of %d bytes, reader %s: %v", b, c.Kind, err)
		}
		var gots []Got
		for ci, raw := range chunks {
			g, err := parseChunk(c.L.Format, c.WithFeatures, raw)
			if err != nil {
				return st, fmt.Errorf("buffer of %d bytes, reader %s: chunk %d/%d %v\nchunk text: %q", b, c.Kind, ci, len(chunks), err, clip(raw))
			}
			gots = append(gots, g...)
		}
		if len(gots) != len(wants) {
			return st, fmt.Errorf("buffer of %d bytes, reader %s: %d records delivered in %d chunks, the file has %d", b, c.Kind, len(gots), len(chunks), len(wants))
		}
		for i := range gots {
			if err := compareRec(gots[i], wants[i], alone[i], c.WithFeatures); err != nil {
				return st, fmt.Errorf("buffer of %d bytes, reader %s, %d chunks: %v", b, c.Kind, len(chunks), err)
			}
		}
		st.cuts++
		nt := len(chunks) >= 2 && b < len(data) && !isStart[b]
		if nt {
			st.nontrivial++
		}
		if count {
			evid.Eval("chunks", evid.Hash(c.L.Format, fmt.Sprint(c.L), len(c.Recs), len(data), b, c.Kind), nt, nil)
		}
	}
	return st, nil
}

func clip(b []byte) string {
	if len(b) > 300 {
		return string(b[:150]) + " … " + string(b[len(b)-150:])
	}
	return string(b)
}

// ---------------------------------------------------------------- layout classes

func layoutClasses(recs []Rec, l Layout) []string {
	cl := []string{"format:" + l.Format}
	if l.CRLF {
		cl = append(cl, "crlf")
	}
	if l.NoFinalEOL {
		cl = append(cl, "no_final_eol")
	}
	sawXref := false
	for _, r := range recs {
		if strings.ContainsAny(r.ID+r.Def, ">") {
			cl = append(cl, "title_has_>")
		}
		if strings.ContainsAny(r.ID+r.Def, "@") {
			cl = append(cl, "title_has_@")
		}
		if strings.ContainsAny(r.ID+r.Def, "+") {
			cl = append(cl, "title_has_+")
		}
		if len(r.Qual) > 0 && r.Qual[0] == '@'-33 {
			cl = append(cl, "quality_line_starts_with_@")
		}
		if len(r.Qual) > 0 && r.Qual[0] == '+'-33 {
			cl = append(cl, "quality_line_starts_with_+")
		}
		if r.Taxid == 0 && sawXref && (l.Format == "genbank" || l.Format == "embl") {
			cl = append(cl, "no_xref_after_xref")
		}
		if r.Taxid > 0 {
			sawXref = true
		}
	}
	return dedup(cl)
}

func dedup(s []string) []string {
	seen := map[string]bool{}
	out := s[:0]
	for _, x := range s {
		if !seen[x] {
			seen[x] = true
			out = append(out, x)
		}
	}
	return out
}

func TestMain(m *testing.M) {
	registerTests()
	evid.Main(m, "C01")
}
