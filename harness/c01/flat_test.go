package c01

import (
	"bytes"
	"fmt"
	"testing"

	"git.metabarcoding.org/obitools/obitools4/obitools4/pkg/obiformats"
	"git.metabarcoding.org/obitools/obitools4/obitools4/pkg/obiiter"
	"pgregory.net/rapid"

	"verifharness/internal/evid"
	"verifharness/internal/fatal"
)

// The complete GenBank / EMBL readers (128 MiB buffer, parsing workers, optional
// full-file batch) on generated files: records sorted by batch number equal the model.

type FlatCase struct {
	Recs         []Rec
	L            Layout
	Workers      int
	FullFile     bool
	WithFeatures bool
}

func init() {
	evid.Reg("flat_readers", checkFlatReaders)
	evid.Tests(evid.Spec{Name: "TestPropFlatReaders", Kind: "rapid", Quick: 160, Thorough: 4000, QuickShards: 8, ThoroughShards: 16})
}

func checkFlatReaders(c FlatCase) error {
	data, _ := Render(c.Recs, c.L)
	fatal.Install()
	before := fatal.Count()
	opts := []obiformats.WithOption{obiformats.OptionsParallelWorkers(c.Workers), obiformats.OptionsSource("src"),
		obiformats.OptionsFullFileBatch(c.FullFile), obiformats.WithFeatureTable(c.WithFeatures)}
	var it obiiter.IBioSequence
	var err error
	if c.L.Format == "genbank" {
		it, err = obiformats.ReadGenbank(bytes.NewReader(data), opts...)
	} else {
		it, err = obiformats.ReadEMBL(bytes.NewReader(data), opts...)
	}
	if err != nil {
		return fmt.Errorf("reader returned %v", err)
	}
	gots, err := drainAll(it)
	if err != nil || fatal.Count() != before {
		return fmt.Errorf("reader failed on a well-formed %s file: %v %s", c.L.Format, err, fatal.LastMessage())
	}
	if len(gots) != len(c.Recs) {
		return fmt.Errorf("%d records delivered, the file has %d", len(gots), len(c.Recs))
	}
	for i, r := range c.Recs {
		one, _ := Render([]Rec{r}, c.L)
		alone, perr := parseChunk(c.L.Format, c.WithFeatures, bytes.TrimRight(one, "\r\n"))
		if perr != nil || len(alone) != 1 {
			return fmt.Errorf("record %s parsed on its own: %v", r.ID, perr)
		}
		if err := compareRec(gots[i], wantOf(r, c.L), alone[0], c.WithFeatures); err != nil {
			return fmt.Errorf("%s reader, %d workers, full-file=%v: %v", c.L.Format, c.Workers, c.FullFile, err)
		}
	}
	return nil
}

func TestPropFlatReaders(t *testing.T) {
	rapid.Check(t, func(rt *rapid.T) {
		var c FlatCase
		format := rapid.SampledFrom([]string{"genbank", "embl"}).Draw(rt, "format")
		c.Recs = genRecs(rt, format, rapid.Bool().Draw(rt, "large"))
		c.L = genLayout(rt, format)
		c.Workers = rapid.IntRange(1, 4).Draw(rt, "workers")
		c.FullFile = rapid.Bool().Draw(rt, "fullfile")
		c.WithFeatures = rapid.Bool().Draw(rt, "withfeatures")
		cl := append(layoutClasses(c.Recs, c.L), "flat_reader")
		evid.Eval("flat_readers", evid.Hash(fmt.Sprintf("%+v", c)), len(c.Recs) >= 2, c, cl...)
		if err := checkFlatReaders(c); err != nil {
			evid.Fail(rt, "flat_readers", c, err)
		}
	})
}
