package c01

import (
	"bytes"
	"fmt"
	"os"
	"path/filepath"
	"reflect"
	"sort"
	"strings"
	"testing"
	"time"

	"git.metabarcoding.org/obitools/obitools4/obitools4/pkg/obiformats"
	"git.metabarcoding.org/obitools/obitools4/obitools4/pkg/obiiter"
	"git.metabarcoding.org/obitools/obitools4/obitools4/pkg/obiseq"
	"pgregory.net/rapid"

	"verifharness/internal/codec"
	"verifharness/internal/evid"
	"verifharness/internal/fatal"
	"verifharness/internal/run"
)

func registerTests() {
	evid.Tests(
		evid.Spec{Name: "TestReplay", Kind: "plain", QuickShards: 1, ThoroughShards: 1},
		evid.Spec{Name: "TestPropEveryCut", Kind: "rapid", Quick: 3200, Thorough: 64000, QuickShards: 16, ThoroughShards: 16},
		evid.Spec{Name: "TestPropFullReaders", Kind: "rapid", Quick: 32, Thorough: 800, QuickShards: 8, ThoroughShards: 16},
		evid.Spec{Name: "TestPropTwoParsers", Kind: "rapid", Quick: 2400, Thorough: 48000, QuickShards: 8, ThoroughShards: 16},
		evid.Spec{Name: "TestPropTransport", Kind: "rapid", Quick: 64, Thorough: 1600, QuickShards: 16, ThoroughShards: 16},
	)
	evid.Commands("obiconvert")
	evid.Note("rule", "a file model (records with ids/definitions containing > @ + and JSON, IUPAC sequences in any case, qualities 0..93 with quality lines starting with @ or +, flat-file records with and without taxon cross-reference) is rendered as FASTA (fold 0..80, LF/CRLF, blank lines, with/without final EOL), strict FASTQ, GenBank or EMBL. chunks: for EVERY read-buffer size 2..len+2 (64 sampled sizes for files > 400 bytes) and a generated reader behaviour (whole reads, 1-byte reads, half reads, data+EOF, short-read schedule) the real ReadSeqFileChunk is drained: chunk numbers 0,1,2.., every chunk parses alone with the real chunk parser, the concatenation equals the model and every record equals the same record parsed on its own. readers: ReadFasta/ReadFastq on 1.1-3 MiB inputs with 1..8 parsing workers (+ push jitter): batches sorted by Order() are 0..n-1 and equal the model. two_parsers: Go state machines vs kseq on the same file. transport: obiconvert FILE / < FILE / cat FILE | / FILE.gz .bz2 .xz .zst, and the same bytes as a gzip file of two or three members (file and standard input), give byte-identical output. multifile: 2..5 FASTA or FASTQ files (any of them empty), title lines of one style per file (free text / JSON annotations / legacy OBI key=value;): obiconvert F1..Fn, obiconvert cat(F1..Fn) and obiconvert < cat(F1..Fn) give the concatenation of the outputs of obiconvert Fi, --no-order (--max-cpu 1 and 8) the same multiset of records; non-trivial = at least two title styles and three records. Non-trivial (chunks) = >= 2 chunks and the first read ended strictly inside a record; distinct = hash(format, layout, #records, file length, buffer size, reader kind).")
}

func TestReplay(t *testing.T) { evid.Replay(t) }

// ---------------------------------------------------------------- generators

const idChars = "abcdefghijklmnopqrstuvwxyzABCDEFGHIJKLMNOPQRSTUVWXYZ0123456789_-.:|"
const hostile = ">@+{}\"=;"

func genToken(t *rapid.T, label string, minLen, maxLen int, hostileRate int) string {
	n := rapid.IntRange(minLen, maxLen).Draw(t, label+"_len")
	b := make([]byte, n)
	for i := range b {
		if hostileRate > 0 && rapid.IntRange(0, hostileRate).Draw(t, label+"_h") == 0 {
			b[i] = hostile[rapid.IntRange(0, len(hostile)-1).Draw(t, label+"_hc")]
		} else {
			b[i] = idChars[rapid.IntRange(0, len(idChars)-1).Draw(t, label+"_c")]
		}
	}
	return string(b)
}

func genSeqText(t *rapid.T, label string, n int, mixedCase bool) string {
	alpha := rapid.SampledFrom([]string{"acgt", "acgt", "acgtrymkwsbdhvn", "acgtn.-[]"}).Draw(t, label+"_alpha")
	b := make([]byte, n)
	for i := range b {
		c := alpha[rapid.IntRange(0, len(alpha)-1).Draw(t, label+"_c")]
		if mixedCase && c >= 'a' && c <= 'z' && rapid.Bool().Draw(t, label+"_up") {
			c -= 32
		}
		b[i] = c
	}
	return string(b)
}

func genRecs(t *rapid.T, format string, large bool) []Rec {
	maxRec, maxLen := 6, 30
	if large {
		maxRec, maxLen = 40, 150
	}
	n := rapid.IntRange(1, maxRec).Draw(t, "nrec")
	flat := format == "genbank" || format == "embl"
	recs := make([]Rec, n)
	for i := range recs {
		r := &recs[i]
		if flat {
			r.ID = fmt.Sprintf("AB%05d", rapid.IntRange(0, 99999).Draw(t, "acc"))
			nw := rapid.IntRange(0, 6).Draw(t, "defwords")
			var w []string
			for j := 0; j < nw; j++ {
				w = append(w, genToken(t, "defw", 1, 8, 0))
			}
			r.Def = strings.Join(w, " ")
			r.Sci = genToken(t, "genus", 3, 8, 0) + " " + genToken(t, "species", 3, 8, 0)
			if rapid.IntRange(0, 9).Draw(t, "hasxref") < 6 {
				r.Taxid = rapid.IntRange(2, 999999).Draw(t, "taxid")
			}
			r.NFeat = rapid.IntRange(0, 2).Draw(t, "nfeat")
			r.Seq = genSeqText(t, "seq", rapid.IntRange(1, maxLen).Draw(t, "seqlen"), false)
			// flat files hold plain nucleotide codes
			r.Seq = strings.Map(func(c rune) rune {
				if strings.ContainsRune(".-[]", c) {
					return 'n'
				}
				return c
			}, r.Seq)
			continue
		}
		r.ID = genToken(t, "id", 1, 10, 6)
		if r.ID[0] == ' ' {
			r.ID = "x" + r.ID
		}
		nw := rapid.IntRange(0, 4).Draw(t, "defwords")
		var w []string
		for j := 0; j < nw; j++ {
			w = append(w, genToken(t, "defw", 1, 8, 5))
		}
		if nw > 0 && rapid.IntRange(0, 3).Draw(t, "jsondef") == 0 {
			w = append([]string{fmt.Sprintf(`{"count":%d,"k":"v>@+"}`, i)}, w...)
		}
		r.Def = strings.Join(w, " ")
		if strings.HasPrefix(r.Def, "{") && !strings.HasPrefix(r.Def, `{"count":`) {
			// a title starting with '{' announces JSON annotations: anything else there is
			// refused by the header parser (not a well-formed obitools title)
			r.Def = "x" + r.Def
		}
		r.Seq = genSeqText(t, "seq", rapid.IntRange(1, maxLen).Draw(t, "seqlen"), true)
		if format == "fastq" {
			r.Qual = make([]int, len(r.Seq))
			for j := range r.Qual {
				r.Qual[j] = rapid.IntRange(0, 93).Draw(t, "q")
			}
			switch rapid.IntRange(0, 5).Draw(t, "qstart") {
			case 0:
				r.Qual[0] = '@' - 33
			case 1:
				r.Qual[0] = '+' - 33
			case 2:
				for j := range r.Qual { // a quality line that looks like a title line followed by letters
					r.Qual[j] = int("@ACGT+>"[j%7]) - 33
				}
			}
		}
	}
	return recs
}

func genLayout(t *rapid.T, format string) Layout {
	l := Layout{Format: format}
	switch format {
	case "fasta":
		l.Fold = rapid.SampledFrom([]int{0, 1, 2, 7, 10, 60, 80}).Draw(t, "fold")
		l.CRLF = rapid.IntRange(0, 3).Draw(t, "crlf") == 0
		l.BlankLines = rapid.IntRange(0, 4).Draw(t, "blank") == 0
		l.NoFinalEOL = rapid.IntRange(0, 3).Draw(t, "nofinaleol") == 0
	case "fastq":
		l.CRLF = rapid.IntRange(0, 3).Draw(t, "crlf") == 0
		l.PlusRepeats = rapid.IntRange(0, 2).Draw(t, "plus") == 0
		l.NoFinalEOL = rapid.IntRange(0, 3).Draw(t, "nofinaleol") == 0
	case "embl":
		l.CRLF = rapid.IntRange(0, 3).Draw(t, "crlf") == 0
		l.DefLines = rapid.IntRange(1, 3).Draw(t, "deflines")
	case "genbank":
		l.DefLines = rapid.IntRange(1, 3).Draw(t, "deflines")
	}
	return l
}

var formats = []string{"fasta", "fastq", "fasta", "fastq", "genbank", "embl"}

// ---------------------------------------------------------------- check 1+2

func TestPropEveryCut(t *testing.T) {
	rapid.Check(t, func(rt *rapid.T) {
		var c ChunkCase
		format := rapid.SampledFrom(formats).Draw(rt, "format")
		large := rapid.IntRange(0, 5).Draw(rt, "large") == 0
		c.Recs = genRecs(rt, format, large)
		c.L = genLayout(rt, format)
		longRec := rapid.IntRange(0, 24).Draw(rt, "long_record") == 0
		if longRec {
			// one record far larger than any internal buffer (bufio 4 KiB, scanner 64 KiB): a 70-200 KB sequence
			// and, for FASTA/FASTQ, a title of several KB
			i := rapid.IntRange(0, len(c.Recs)-1).Draw(rt, "long_index")
			n := rapid.IntRange(70000, 200000).Draw(rt, "long_len")
			unit := genSeqText(rt, "long_unit", 97, false)
			if format == "genbank" || format == "embl" {
				unit = strings.Map(func(r rune) rune {
					if strings.ContainsRune(".-[]", r) {
						return 'n'
					}
					return r
				}, unit)
			}
			c.Recs[i].Seq = strings.Repeat(unit, n/97+1)[:n]
			if format == "fastq" {
				c.Recs[i].Qual = make([]int, n)
				for j := range c.Recs[i].Qual {
					c.Recs[i].Qual[j] = (j*7 + 3) % 94
				}
			}
			if format == "fasta" || format == "fastq" {
				c.Recs[i].Def = fmt.Sprintf(`{"count":%d,"k":"%s"} tail`, i, strings.Repeat("v>@+", rapid.SampledFrom([]int{1000, 3000, 16500, 20000}).Draw(rt, "long_title"))) // 4 KB .. 80 KB: beyond bufio's 4 KiB and a scanner's 64 KiB
			}
		}
		c.WithFeatures = rapid.Bool().Draw(rt, "withfeatures")
		c.Kind = rapid.SampledFrom(readerKinds).Draw(rt, "reader")
		if longRec && c.Kind == "onebyte" {
			c.Kind = "half"
		}
		if c.Kind == "sched" {
			c.Sched = rapid.SliceOfN(rapid.IntRange(1, 40), 1, 6).Draw(rt, "sched")
		}
		data, starts := Render(c.Recs, c.L)
		if len(data) > 400 {
			// sampled sizes: the smallest ones, record lengths +-1, and random ones
			set := map[int]bool{2: true, 3: true, 4: true, len(data): true, len(data) + 1: true, len(data) - 1: true}
			for i := 1; i < len(starts) && len(set) < 40; i++ {
				for d := -1; d <= 1; d++ {
					set[starts[i]-starts[i-1]+d] = true
					set[starts[i]+d] = true
				}
			}
			for len(set) < 64 {
				set[rapid.IntRange(2, len(data)).Draw(rt, "bufsize")] = true
			}
			for b := range set {
				// the splitter re-scans the whole accumulated buffer after every extension read: with a
				// record of n bytes and a buffer of b the work is n*n/b - tiny buffers are only for small files
				if b >= 2 && (!longRec || b >= 2048) {
					c.Bufs = append(c.Bufs, b)
				}
			}
			sort.Ints(c.Bufs)
		}
		st, err := checkChunks(c, true)
		cl := layoutClasses(c.Recs, c.L)
		cl = append(cl, "reader:"+c.Kind)
		if longRec {
			cl = append(cl, "record_longer_than_64KiB")
		}
		if large {
			cl = append(cl, "sampled_cuts")
		} else {
			cl = append(cl, "all_cuts")
		}
		evid.Eval("chunks_files", evid.Hash(fmt.Sprintf("%+v", c)), st.nontrivial > 0, c, cl...)
		if err != nil {
			evid.Fail(rt, "chunks", c, err)
		}
	})
}

// ---------------------------------------------------------------- check 3: full readers, workers racing

type ReaderCase struct {
	Format  string // fasta, fastq
	NRec    int
	SeqLen  int
	Fold    int
	CRLF    bool
	Workers int
	Jitter  int
	JSON    bool // titles carry a JSON object and the header parser is on
	Giant   int  // when > 0 the middle record is a single sequence of this many nucleotides (a genome: several read-buffer extensions)
}

func init() { evid.Reg("readers", checkReaders) }

func bigRecs(c ReaderCase) []Rec {
	recs := make([]Rec, c.NRec)
	for i := range recs {
		n := c.SeqLen + i%17
		if c.Giant > 0 && i == c.NRec/2 {
			n = c.Giant
		}
		s := make([]byte, n)
		x := uint32(i)*2654435761 + 99
		for j := range s {
			x = x*1664525 + 1013904223
			s[j] = "acgt"[(x>>24)&3]
		}
		r := Rec{ID: fmt.Sprintf("seq%07d", i), Seq: string(s)}
		if c.JSON {
			r.Def = fmt.Sprintf(`{"rank":%d} word%d`, i, i%7)
		} else {
			r.Def = fmt.Sprintf("word%d other%d", i, i%7)
		}
		if c.Format == "fastq" {
			r.Qual = make([]int, n)
			for j := range r.Qual {
				x = x*1664525 + 1013904223
				r.Qual[j] = int((x >> 20) % 94)
			}
			if i%5 == 0 {
				r.Qual[0] = '@' - 33
			}
		}
		recs[i] = r
	}
	return recs
}

func checkReaders(c ReaderCase) error {
	l := Layout{Format: c.Format, Fold: c.Fold, CRLF: c.CRLF}
	recs := bigRecs(c)
	data, _ := Render(recs, l)
	fatal.Install()
	before := fatal.Count()
	if c.Jitter > 0 {
		obiiter.VerifSetJitter(uint64(c.Jitter)+17, uint64(c.Jitter))
		defer obiiter.VerifSetJitter(0, 0)
	}
	opts := []obiformats.WithOption{obiformats.OptionsParallelWorkers(c.Workers), obiformats.OptionsSource("src")}
	if c.JSON {
		opts = append(opts, obiformats.OptionsFastSeqHeaderParser(obiformats.ParseFastSeqJsonHeader))
	} else {
		opts = append(opts, obiformats.OptionsFastSeqHeaderParser(nil))
	}
	var it obiiter.IBioSequence
	var err error
	if c.Format == "fasta" {
		it, err = obiformats.ReadFasta(bytes.NewReader(data), opts...)
	} else {
		it, err = obiformats.ReadFastq(bytes.NewReader(data), opts...)
	}
	if err != nil {
		return fmt.Errorf("reader returned %v", err)
	}
	type batch struct {
		order int
		seqs  obiseq.BioSequenceSlice
	}
	var batches []batch
	done := make(chan struct{})
	go func() {
		defer close(done)
		for it.Next() {
			b := it.Get()
			batches = append(batches, batch{b.Order(), b.Slice()})
		}
	}()
	select {
	case <-done:
	case <-time.After(60 * time.Second):
		if fatal.Count() != before {
			return fmt.Errorf("reader called log.Fatal: %s", fatal.LastMessage())
		}
		return fmt.Errorf("reader did not finish within 60 s")
	}
	if fatal.Count() != before {
		return fmt.Errorf("reader called log.Fatal: %s", fatal.LastMessage())
	}
	arrival := make([]int, len(batches))
	for i, b := range batches {
		arrival[i] = b.order
	}
	sort.SliceStable(batches, func(i, j int) bool { return batches[i].order < batches[j].order })
	for i, b := range batches {
		if b.order != i {
			return fmt.Errorf("batch numbers are not 0..%d: arrival %v", len(batches)-1, arrival)
		}
	}
	k := 0
	for _, b := range batches {
		for _, s := range b.seqs {
			if k >= len(recs) {
				return fmt.Errorf("more records delivered than the file holds (%d)", len(recs))
			}
			w := recs[k]
			wantDef := w.Def
			if c.JSON {
				wantDef = fmt.Sprintf("word%d", k%7)
				v, ok := s.GetAttribute("rank")
				if !ok || fmt.Sprint(v) != fmt.Sprint(k) {
					return fmt.Errorf("record at rank %d (%s): annotation rank=%v, file has %d", k, s.Id(), v, k)
				}
			}
			if s.Id() != w.ID || s.String() != w.Seq || s.Definition() != wantDef {
				return fmt.Errorf("record at rank %d is (%s, %q, %d nt), the file has (%s, %q, %d nt); %d batches, arrival %v", k, s.Id(), s.Definition(), s.Len(), w.ID, wantDef, len(w.Seq), len(batches), arrival)
			}
			if c.Format == "fastq" {
				q := s.Qualities()
				if len(q) != len(w.Qual) {
					return fmt.Errorf("record %s: %d qualities for %d", w.ID, len(q), len(w.Qual))
				}
				for j := range q {
					if int(q[j]) != w.Qual[j] {
						return fmt.Errorf("record %s: quality %d is %d, file has %d", w.ID, j, q[j], w.Qual[j])
					}
				}
			}
			k++
		}
	}
	if k != len(recs) {
		return fmt.Errorf("%d records delivered, the file holds %d (%d batches, arrival %v)", k, len(recs), len(batches), arrival)
	}
	if len(batches) >= 2 && !sort.IntsAreSorted(arrival) {
		evid.Class("readers_batches_arrived_out_of_order", 1)
	}
	return nil
}

func TestPropFullReaders(t *testing.T) {
	rapid.Check(t, func(rt *rapid.T) {
		c := ReaderCase{
			Format:  rapid.SampledFrom([]string{"fasta", "fastq"}).Draw(rt, "format"),
			SeqLen:  rapid.IntRange(60, 140).Draw(rt, "seqlen"),
			Fold:    rapid.SampledFrom([]int{0, 60, 70}).Draw(rt, "fold"),
			CRLF:    rapid.IntRange(0, 4).Draw(rt, "crlf") == 0,
			Workers: rapid.IntRange(1, 8).Draw(rt, "workers"),
			Jitter:  rapid.SampledFrom([]int{0, 100, 1000}).Draw(rt, "jitter"),
			JSON:    rapid.Bool().Draw(rt, "json"),
		}
		perRec := c.SeqLen + 40
		if c.Format == "fastq" {
			perRec = 2*c.SeqLen + 45
		}
		target := rapid.IntRange(1150, 3200).Draw(rt, "kib") * 1024
		c.NRec = target / perRec
		if rapid.IntRange(0, 3).Draw(rt, "giant") == 0 {
			c.Giant = rapid.IntRange(2200, 6500).Draw(rt, "giant_kb") * 1000
			c.NRec = rapid.IntRange(3, 2000).Draw(rt, "nrec_with_giant")
		}
		rcl := []string{"format:" + c.Format, fmt.Sprintf("workers:%d", c.Workers)}
		if c.Giant > 0 {
			rcl = append(rcl, "one_record_of_several_MB")
		}
		evid.Eval("readers", evid.Hash(fmt.Sprintf("%+v", c)), c.Workers >= 2, c, rcl...)
		if err := checkReaders(c); err != nil {
			evid.Fail(rt, "readers", c, err)
		}
	})
}

// ---------------------------------------------------------------- check 4: the two FASTA/FASTQ parsers agree

type TwoCase struct {
	Recs      []Rec
	L         Layout
	DefBlanks int // number of blanks between identifier and definition (1 = the layout the tool writes)
	DefTab    bool
}

func init() { evid.Reg("two_parsers", checkTwoParsers) }

func drainAll(it obiiter.IBioSequence) ([]Got, error) {
	type ob struct {
		o int
		g []Got
	}
	var bs []ob
	done := make(chan struct{})
	go func() {
		defer close(done)
		for it.Next() {
			b := it.Get()
			var g []Got
			for _, s := range b.Slice() {
				g = append(g, gotOf(s))
			}
			bs = append(bs, ob{b.Order(), g})
		}
	}()
	select {
	case <-done:
	case <-time.After(30 * time.Second):
		return nil, fmt.Errorf("reader did not finish within 30 s (%s)", fatal.LastMessage())
	}
	_ = bs
	sort.SliceStable(bs, func(i, j int) bool { return bs[i].o < bs[j].o })
	var out []Got
	for _, b := range bs {
		out = append(out, b.g...)
	}
	return out, nil
}

func checkTwoParsers(c TwoCase) error {
	data, _ := Render(c.Recs, c.L)
	if c.DefBlanks > 1 || c.DefTab {
		// widen the separator between identifier and definition
		sep := strings.Repeat(" ", max(1, c.DefBlanks))
		if c.DefTab {
			sep = "\t" + sep[1:]
		}
		var out []string
		for _, line := range strings.Split(string(data), "\n") {
			if (c.L.Format == "fasta" && strings.HasPrefix(line, ">")) || (c.L.Format == "fastq" && isTitle(line, c.Recs)) {
				if i := strings.IndexByte(line, ' '); i > 0 {
					line = line[:i] + sep + line[i+1:]
				}
			}
			out = append(out, line)
		}
		data = []byte(strings.Join(out, "\n"))
	}
	dir, err := os.MkdirTemp(run.WorkDir(), "c01two")
	if err != nil {
		return nil
	}
	defer os.RemoveAll(dir)
	path := filepath.Join(dir, "in."+c.L.Format)
	if err := os.WriteFile(path, data, 0o644); err != nil {
		return nil
	}
	fatal.Install()
	before := fatal.Count()
	opts := []obiformats.WithOption{obiformats.OptionsFastSeqHeaderParser(nil), obiformats.OptionsParallelWorkers(2)}
	var goIt obiiter.IBioSequence
	if c.L.Format == "fasta" {
		goIt, err = obiformats.ReadFastaFromFile(path, opts...)
	} else {
		goIt, err = obiformats.ReadFastqFromFile(path, opts...)
	}
	if err != nil {
		return fmt.Errorf("Go reader: %v", err)
	}
	goRecs, err := drainAll(goIt)
	if err != nil || fatal.Count() != before {
		return fmt.Errorf("Go reader failed on a well-formed file: %v %s\n%q", err, fatal.LastMessage(), clip(data))
	}
	kIt, err := obiformats.ReadFastSeqFromFile(path, opts...)
	if err != nil {
		return fmt.Errorf("kseq reader: %v", err)
	}
	kRecs, err := drainAll(kIt)
	if err != nil || fatal.Count() != before {
		return fmt.Errorf("kseq reader failed on a well-formed file: %v %s", err, fatal.LastMessage())
	}
	if len(goRecs) != len(kRecs) {
		return fmt.Errorf("Go parser delivers %d records, kseq parser %d, the file has %d\n%q", len(goRecs), len(kRecs), len(c.Recs), clip(data))
	}
	for i := range goRecs {
		g, k := goRecs[i], kRecs[i]
		g.Seq, k.Seq = strings.ToLower(g.Seq), strings.ToLower(k.Seq)
		if !reflect.DeepEqual(g, k) {
			return fmt.Errorf("record %d: the two parsers disagree\n Go   %q\n kseq %q\n file %q", i, fmt.Sprintf("%+v", g), fmt.Sprintf("%+v", k), clip(data))
		}
	}
	return nil
}

func isTitle(line string, recs []Rec) bool {
	if !strings.HasPrefix(line, "@") {
		return false
	}
	for _, r := range recs {
		if strings.HasPrefix(line, "@"+r.ID+" ") {
			return true
		}
	}
	return false
}

func TestPropTwoParsers(t *testing.T) {
	rapid.Check(t, func(rt *rapid.T) {
		var c TwoCase
		format := rapid.SampledFrom([]string{"fasta", "fastq"}).Draw(rt, "format")
		c.Recs = genRecs(rt, format, false)
		c.L = genLayout(rt, format)
		c.L.BlankLines = false
		c.DefBlanks = rapid.SampledFrom([]int{1, 1, 1, 2, 4}).Draw(rt, "defblanks")
		c.DefTab = rapid.IntRange(0, 5).Draw(rt, "deftab") == 0
		cl := layoutClasses(c.Recs, c.L)
		if c.DefBlanks > 1 {
			cl = append(cl, "multi_blank_title")
		}
		if c.DefTab {
			cl = append(cl, "tab_after_identifier")
		}
		hasDef := false
		for _, r := range c.Recs {
			hasDef = hasDef || r.Def != ""
		}
		evid.Eval("two_parsers", evid.Hash(fmt.Sprintf("%+v", c)), hasDef && len(c.Recs) >= 2, c, cl...)
		if err := checkTwoParsers(c); err != nil {
			evid.Fail(rt, "two_parsers", c, err)
		}
	})
}

// ---------------------------------------------------------------- check 5: transports

type TransportCase struct {
	Recs []Rec
	L    Layout
	Big  bool // pad the file beyond 1 MiB with extra records (several read chunks)
	// HugeFirst > 0: the first record holds this many nucleotides (rebuilt here, not stored):
	// longer than the 1 MiB the format detection and the first read chunk see
	HugeFirst int
}

func init() { evid.Reg("transport", checkTransport) }

func checkTransport(c TransportCase) error {
	recs := c.Recs
	if c.HugeFirst > 0 && len(recs) > 0 {
		recs = append([]Rec{}, recs...)
		unit := "acgtaggctatccgattacgcatgcatcgtagctagcatcgatcgatgcactgactgac"
		recs[0].Seq = strings.Repeat(unit, c.HugeFirst/len(unit)+1)[:c.HugeFirst]
		if c.L.Format == "fastq" {
			recs[0].Qual = make([]int, c.HugeFirst)
			for j := range recs[0].Qual {
				recs[0].Qual[j] = (j*11 + 5) % 94
			}
		}
	}
	if c.Big {
		extra := bigRecs(ReaderCase{Format: c.L.Format, NRec: 9000, SeqLen: 100})
		recs = append(append([]Rec{}, recs...), extra...)
	}
	data, _ := Render(recs, c.L)
	dir, err := os.MkdirTemp(run.WorkDir(), "c01tr")
	if err != nil {
		return nil
	}
	defer os.RemoveAll(dir)
	ext := map[string]string{"fasta": ".fasta", "fastq": ".fastq", "genbank": ".gb", "embl": ".dat"}[c.L.Format]
	plain := filepath.Join(dir, "in"+ext)
	if os.WriteFile(plain, data, 0o644) != nil {
		return nil
	}
	base := run.Cmd(run.Opt{}, "obiconvert", plain)
	if base.Inconclusive() {
		evid.Class("timeout_inconclusive", 1)
		return nil
	}
	if base.Exit != 0 {
		return fmt.Errorf("obiconvert FILE exits %d on a well-formed %s file: %s", base.Exit, c.L.Format, tailStr(base.Stderr))
	}
	cmp := func(what string, r run.Result) error {
		if r.Inconclusive() {
			evid.Class("timeout_inconclusive", 1)
			return nil
		}
		if r.Exit != 0 {
			return fmt.Errorf("obiconvert %s exits %d (obiconvert FILE succeeded): %s", what, r.Exit, tailStr(r.Stderr))
		}
		if !bytes.Equal(r.Stdout, base.Stdout) {
			return fmt.Errorf("obiconvert %s and obiconvert FILE give different output (%d vs %d bytes); first difference at byte %d\n%s", what, len(r.Stdout), len(base.Stdout), firstDiff(r.Stdout, base.Stdout), diffContext(r.Stdout, base.Stdout))
		}
		return nil
	}
	var fmtFlag []string
	switch c.L.Format {
	case "genbank":
		fmtFlag = []string{"--genbank"}
	case "embl":
		fmtFlag = []string{"--embl"}
	}
	if err := cmp("< FILE", run.Cmd(run.Opt{Stdin: data}, "obiconvert", fmtFlag...)); err != nil {
		return err
	}
	for _, k := range codec.Kinds {
		if (c.Big || c.HugeFirst > 0) && k != "gzip" && k != "zstd" {
			continue // the slow codecs are exercised on the small files
		}
		z, err := codec.Compress(k, data)
		if err != nil {
			return nil
		}
		p := plain + codec.Ext(k)
		if os.WriteFile(p, z, 0o644) != nil {
			return nil
		}
		if err := cmp("FILE"+codec.Ext(k), run.Cmd(run.Opt{}, "obiconvert", p)); err != nil {
			return err
		}
		// compressed standard input is decoded by the FASTA/FASTQ stdin reader only
		if k == "gzip" && (c.L.Format == "fasta" || c.L.Format == "fastq") {
			if err := cmp("< FILE.gz", run.Cmd(run.Opt{Stdin: z}, "obiconvert", fmtFlag...)); err != nil {
				return err
			}
		}
		if k == "gzip" && len(data) >= 2 {
			// the same bytes as a multi-member gzip file (cat a.gz b.gz, bgzip, pigz -i): two or
			// three members cut at arbitrary byte positions decompress to the same stream
			cuts := []int{len(data) / 2}
			if len(data) >= 9 {
				cuts = []int{len(data) / 3, len(data) - 2}
			}
			var mz []byte
			prev := 0
			for _, cut := range append(cuts, len(data)) {
				part, err := codec.Compress("gzip", data[prev:cut])
				if err != nil {
					return nil
				}
				mz = append(mz, part...)
				prev = cut
			}
			mp := plain + ".members.gz"
			if os.WriteFile(mp, mz, 0o644) != nil {
				return nil
			}
			if err := cmp(fmt.Sprintf("FILE.gz made of %d gzip members", len(cuts)+1), run.Cmd(run.Opt{}, "obiconvert", mp)); err != nil {
				return err
			}
			if c.L.Format == "fasta" || c.L.Format == "fastq" {
				if err := cmp(fmt.Sprintf("< FILE.gz made of %d gzip members", len(cuts)+1), run.Cmd(run.Opt{Stdin: mz}, "obiconvert", fmtFlag...)); err != nil {
					return err
				}
			}
		}
	}
	return nil
}

func tailStr(b []byte) string {
	if len(b) > 500 {
		b = b[len(b)-500:]
	}
	return string(b)
}

func firstDiff(a, b []byte) int {
	n := min(len(a), len(b))
	for i := 0; i < n; i++ {
		if a[i] != b[i] {
			return i
		}
	}
	return n
}

func diffContext(a, b []byte) string {
	d := firstDiff(a, b)
	lo := max(0, d-80)
	return fmt.Sprintf(" this: %q\n file: %q", a[lo:min(len(a), d+80)], b[lo:min(len(b), d+80)])
}

func TestPropTransport(t *testing.T) {
	rapid.Check(t, func(rt *rapid.T) {
		var c TransportCase
		format := rapid.SampledFrom(formats).Draw(rt, "format")
		huge := rapid.IntRange(0, 5).Draw(rt, "huge_first") == 5
		if huge {
			format = rapid.SampledFrom([]string{"fastq", "fasta", "fastq"}).Draw(rt, "huge_format")
		}
		c.Recs = genRecs(rt, format, true)
		c.L = genLayout(rt, format)
		c.Big = !huge && (format == "fasta" || format == "fastq") && rapid.IntRange(0, 7).Draw(rt, "big") == 0
		if (format == "fasta" || format == "fastq") && rapid.IntRange(0, 2).Draw(rt, "long_first") == 0 {
			// a long read first: what the format detection sees of the file is one title line and part of a sequence line
			n := rapid.IntRange(3000, 40000).Draw(rt, "long_first_len")
			c.Recs[0].Seq = strings.Repeat(genSeqText(rt, "long_unit", 53, false), n/53+1)[:n]
			if format == "fastq" {
				c.Recs[0].Qual = make([]int, n)
				for j := range c.Recs[0].Qual {
					c.Recs[0].Qual[j] = (j*11 + 5) % 94
				}
			}
		}
		if huge {
			c.HugeFirst = rapid.IntRange(1048000, 1700000).Draw(rt, "huge_first_len")
		}
		cl := append(layoutClasses(c.Recs, c.L), "transport")
		if c.HugeFirst > 0 {
			cl = append(cl, "transport_first_record_longer_than_1MiB")
		}
		if c.Big {
			cl = append(cl, "transport_multi_chunk")
		}
		evid.Eval("transport", evid.Hash(fmt.Sprintf("%+v", c)), len(c.Recs) >= 2, c, cl...)
		if err := checkTransport(c); err != nil {
			evid.Fail(rt, "transport", c, err)
		}
	})
}
