package c01

import (
	"bytes"
	"fmt"
	"os"
	"path/filepath"
	"sort"
	"strings"
	"testing"

	"pgregory.net/rapid"

	"verifharness/internal/evid"
	"verifharness/internal/run"
)

// Several input files, mixed title-line styles.
//
// "The content of a record depends only on that record's own text, never on
// its neighbours": the records a command reads from the files F1..Fn given
// together are the records it reads from F1, then from F2, ... each given
// alone; so are the records of the single file cat(F1..Fn) (FASTA and FASTQ
// files ending with an end of line concatenate into a well-formed file), on a
// file argument and on standard input.  With --no-order the file order is given
// up, not the records: the multiset of records is the same.
//
// The title lines of a file are of one style, drawn per file: free text, JSON
// annotations ({"k":v,...}) or the legacy OBI style (k=v; k=v;), so that the
// concatenation holds records of different styles side by side; files can be
// empty at any place of the list.
type MultiCase struct {
	Format string
	Files  [][]Rec
	Styles []string // per file: text, json, obi
	Lay    []Layout
}

func init() {
	evid.Reg("multifile", checkMultiFile)
	evid.Tests(evid.Spec{Name: "TestPropMultiFile", Kind: "rapid", Quick: 192, Thorough: 4000, QuickShards: 16, ThoroughShards: 16})
}

// splitRecords cuts the text written by obiconvert into records (FASTA: a
// title line starts with '>' - sequence lines never do; FASTQ: four lines).
func splitRecords(format string, out []byte) []string {
	var recs []string
	lines := strings.SplitAfter(string(out), "\n")
	if format == "fastq" {
		for i := 0; i+3 < len(lines); i += 4 {
			recs = append(recs, strings.Join(lines[i:i+4], ""))
		}
		if rest := strings.Join(lines[len(lines)/4*4:], ""); rest != "" {
			recs = append(recs, rest)
		}
		return recs
	}
	cur := ""
	for _, l := range lines {
		if strings.HasPrefix(l, ">") && cur != "" {
			recs = append(recs, cur)
			cur = ""
		}
		cur += l
	}
	if cur != "" {
		recs = append(recs, cur)
	}
	return recs
}

func checkMultiFile(c MultiCase) error {
	dir, err := os.MkdirTemp(run.WorkDir(), "c01mf")
	if err != nil {
		return nil
	}
	defer os.RemoveAll(dir)
	ext := "." + c.Format
	var paths []string
	var cat []byte
	var want []byte
	for i, recs := range c.Files {
		l := c.Lay[i]
		l.NoFinalEOL = false // the files are concatenated
		data, _ := Render(recs, l)
		p := filepath.Join(dir, fmt.Sprintf("in%d%s", i, ext))
		if os.WriteFile(p, data, 0o644) != nil {
			return nil
		}
		paths = append(paths, p)
		cat = append(cat, data...)
		if len(recs) == 0 {
			continue
		}
		alone := run.Cmd(run.Opt{}, "obiconvert", p)
		if alone.Inconclusive() {
			evid.Class("timeout_inconclusive", 1)
			return nil
		}
		if alone.Exit != 0 {
			return fmt.Errorf("obiconvert in%d%s (title style %s) exits %d on a well-formed file: %s", i, ext, c.Styles[i], alone.Exit, tailStr(alone.Stderr))
		}
		want = append(want, alone.Stdout...)
	}
	describe := func() string {
		var sb strings.Builder
		for i := range c.Files {
			fmt.Fprintf(&sb, " in%d%s: %d records, titles in style %s;", i, ext, len(c.Files[i]), c.Styles[i])
		}
		return sb.String()
	}
	same := func(what string, r run.Result, ordered bool) error {
		if r.Inconclusive() {
			evid.Class("timeout_inconclusive", 1)
			return nil
		}
		if r.Exit != 0 {
			return fmt.Errorf("%s exits %d although every file is read without error when given alone (%s): %s", what, r.Exit, describe(), tailStr(r.Stderr))
		}
		if ordered {
			if !bytes.Equal(r.Stdout, want) {
				return fmt.Errorf("%s does not give the records of the files read one by one (%s): %d vs %d bytes, first difference at byte %d\n%s", what, describe(), len(r.Stdout), len(want), firstDiff(r.Stdout, want), diffContext(r.Stdout, want))
			}
			return nil
		}
		got, exp := splitRecords(c.Format, r.Stdout), splitRecords(c.Format, want)
		sort.Strings(got)
		sort.Strings(exp)
		if len(got) != len(exp) {
			return fmt.Errorf("%s delivers %d records, the files read one by one hold %d (%s)", what, len(got), len(exp), describe())
		}
		for i := range got {
			if got[i] != exp[i] {
				return fmt.Errorf("%s: the multiset of records differs from the files read one by one (%s): e.g. %q vs %q", what, describe(), got[i], exp[i])
			}
		}
		return nil
	}
	if err := same("obiconvert "+strings.Join(baseNames(paths), " "), run.Cmd(run.Opt{}, "obiconvert", paths...), true); err != nil {
		return err
	}
	for _, cpu := range []string{"1", "8"} {
		args := append([]string{"--no-order", "--max-cpu", cpu}, paths...)
		if err := same("obiconvert --no-order --max-cpu "+cpu+" "+strings.Join(baseNames(paths), " "), run.Cmd(run.Opt{}, "obiconvert", args...), false); err != nil {
			return err
		}
	}
	if len(cat) == 0 {
		return nil
	}
	catp := filepath.Join(dir, "cat"+ext)
	if os.WriteFile(catp, cat, 0o644) != nil {
		return nil
	}
	if err := same("obiconvert cat(FILES)", run.Cmd(run.Opt{}, "obiconvert", catp), true); err != nil {
		return err
	}
	return same("obiconvert < cat(FILES)", run.Cmd(run.Opt{Stdin: cat}, "obiconvert"), true)
}

func baseNames(p []string) []string {
	out := make([]string, len(p))
	for i := range p {
		out[i] = filepath.Base(p[i])
	}
	return out
}

func genStyledDef(t *rapid.T, style string, i int) string {
	word := func(label string) string { return genToken(t, label, 1, 8, 0) }
	switch style {
	case "json":
		def := fmt.Sprintf(`{"count":%d,"%s":"%s","n%s":%d}`, 1+i%7, word("jk"), word("jv"), word("jn"), rapid.IntRange(-5, 3000000).Draw(t, "jint"))
		if rapid.Bool().Draw(t, "jtail") {
			def += " " + word("jt")
		}
		return def
	case "obi":
		def := fmt.Sprintf(`count=%d; %s=%s; n%s=%d;`, 1+i%7, word("ok"), word("ov"), word("on"), rapid.IntRange(-5, 3000000).Draw(t, "oint"))
		if rapid.Bool().Draw(t, "otail") {
			def += " " + word("ot")
		}
		return def
	}
	n := rapid.IntRange(0, 3).Draw(t, "nwords")
	var w []string
	for j := 0; j < n; j++ {
		w = append(w, word("tw"))
	}
	return strings.Join(w, " ")
}

func TestPropMultiFile(t *testing.T) {
	rapid.Check(t, func(rt *rapid.T) {
		c := MultiCase{Format: rapid.SampledFrom([]string{"fasta", "fastq"}).Draw(rt, "format")}
		nf := rapid.IntRange(2, 5).Draw(rt, "nfiles")
		styles := map[string]bool{}
		total := 0
		for f := 0; f < nf; f++ {
			var recs []Rec
			if rapid.IntRange(0, 5).Draw(rt, "empty") != 0 {
				recs = genRecs(rt, c.Format, false)
			}
			style := rapid.SampledFrom([]string{"text", "json", "obi", "json", "obi"}).Draw(rt, "style")
			for i := range recs {
				recs[i].ID = fmt.Sprintf("f%dr%d_%s", f, i, strings.Map(func(r rune) rune {
					if strings.ContainsRune(hostile, r) {
						return '_'
					}
					return r
				}, recs[i].ID))
				recs[i].Def = genStyledDef(rt, style, i)
			}
			if len(recs) > 0 {
				styles[style] = true
			}
			total += len(recs)
			c.Files = append(c.Files, recs)
			c.Styles = append(c.Styles, style)
			c.Lay = append(c.Lay, genLayout(rt, c.Format))
		}
		cl := []string{"multifile", fmt.Sprintf("multifile:styles_%d", len(styles))}
		if len(c.Files[0]) == 0 {
			cl = append(cl, "multifile:first_file_empty")
		}
		for i := 1; i+1 < len(c.Files); i++ {
			if len(c.Files[i]) == 0 {
				cl = append(cl, "multifile:empty_file_in_the_middle")
				break
			}
		}
		evid.Eval("multifile", evid.Hash(fmt.Sprintf("%+v", c)), len(styles) >= 2 && total >= 3, c, cl...)
		if err := checkMultiFile(c); err != nil {
			evid.Fail(rt, "multifile", c, err)
		}
	})
}
