package c07

// Stateful, model-based part of C07: a generated list of operations is run
// against real obiseq objects (build tag verif: recycled slices are poisoned with
// '!') and against plain values; after every operation every live object must
// equal its model.

import (
	"encoding/json"
	"fmt"
	"strings"
	"testing"

	"git.metabarcoding.org/obitools/obitools4/obitools4/pkg/obiseq"
	"pgregory.net/rapid"

	"verifharness/internal/evid"
	"verifharness/internal/fatal"
	"verifharness/internal/gen"
	"verifharness/internal/ref"
)

// op is one operation.  Object selectors are positions in the list of live
// objects, reduced modulo its length; numeric parameters are reduced into their
// valid range by the check, so that every op list is a valid history.
type op struct {
	K       string         `json:"k"`
	I       int            `json:"i,omitempty"`
	J       int            `json:"j,omitempty"`
	Obj     *spec          `json:"obj,omitempty"`     // new, setseq
	Inplace bool           `json:"inplace,omitempty"` // rc, join
	Circ    bool           `json:"circ,omitempty"`    // sub
	Start   int            `json:"start,omitempty"`
	Len     int            `json:"len,omitempty"`
	Form    int            `json:"form,omitempty"` // which caller form of a circular window
	Data    string         `json:"data,omitempty"` // append, setfeat
	Qual    []byte         `json:"qual,omitempty"` // append, setqual
	Mode    int            `json:"mode,omitempty"` // append: Write / WriteString / WriteByte; setseq: SetSequence / Clear+Grow+Write
	Key     string         `json:"key,omitempty"`  // setattr, delattr, nested
	Val     any            `json:"val,omitempty"`
	Mism    map[string]int `json:"mism,omitempty"`  // setmism
	Sizes   []int          `json:"sizes,omitempty"` // churn
	Hold    bool           `json:"hold,omitempty"`  // churn: keep the slices for a later release
	N       int            `json:"n,omitempty"`     // release
}

func (o op) String() string {
	b, _ := json.Marshal(o)
	return clip(string(b))
}

type modelCase struct {
	Ops []op `json:"ops"`
}

// ------------------------------------------------------------------ shape tracker

// shape is what the generator and the evidence need to know about an object:
// its length, whether it has qualities, its relatives.
type shape struct {
	id      int
	n       int
	hasQ    bool
	parents []*shape
	kids    []*shape
	dead    bool
	rcSrc   *shape // the object this one was reverse-complemented from (copying form)
	stale   bool   // ... and that object, or this one, changed since
}

type tracker struct {
	live       []*shape
	next       int
	held       int
	classes    map[string]bool
	nontrivial bool
}

func newTracker() *tracker { return &tracker{classes: map[string]bool{}} }

func (t *tracker) sel(i int) *shape {
	return t.live[((i%len(t.live))+len(t.live))%len(t.live)]
}

func (t *tracker) add(n int, hasQ bool, parent *shape) *shape {
	s := &shape{id: t.next, n: n, hasQ: hasQ}
	t.next++
	if parent != nil {
		s.parents = append(s.parents, parent)
		parent.kids = append(parent.kids, s)
	}
	t.live = append(t.live, s)
	return s
}

// touched records a mutation ("mutate") or a recycling ("recycle") of s.
func (t *tracker) touched(s *shape, what string) {
	for _, k := range s.kids {
		if !k.dead {
			t.nontrivial = true
			t.classes["model:"+what+"_source_while_derived_lives"] = true
		}
	}
	for _, p := range s.parents {
		if !p.dead {
			t.nontrivial = true
			t.classes["model:"+what+"_derived_while_source_lives"] = true
		}
	}
	s.stale = true
	for _, x := range t.live {
		if x.rcSrc == s {
			x.stale = true
		}
	}
}

func winParams(o op, n int) (start, length int) {
	start = ((o.Start % n) + n) % n
	span := n
	if !o.Circ {
		span = n - start
	}
	length = 1 + (((o.Len-1)%span)+span)%span
	return
}

// apply mirrors exactly which ops checkModel executes and what they do to shapes.
// It reports whether the op is executed.
func (t *tracker) apply(o op) bool {
	needs := map[string]bool{"new": false, "churn": false, "release": false}
	if need, known := needs[o.K]; (!known || need) && len(t.live) == 0 {
		return false
	}
	switch o.K {
	case "new":
		if o.Obj == nil || len(o.Obj.Seq) == 0 {
			return false
		}
		t.add(len(o.Obj.Seq), o.Obj.Qual != nil, nil)
	case "copy":
		x := t.sel(o.I)
		t.add(x.n, x.hasQ, x)
	case "rc":
		x := t.sel(o.I)
		if x.rcSrc != nil {
			t.classes["model:rc_of_an_rc_copy"] = true
			if x.stale {
				t.classes["model:rc_of_an_rc_copy_after_either_changed"] = true
				t.nontrivial = true
			}
		}
		if o.Inplace {
			t.touched(x, "mutate")
		} else {
			s := t.add(x.n, x.hasQ, x)
			s.rcSrc = x
		}
	case "sub":
		x := t.sel(o.I)
		start, length := winParams(o, x.n)
		if o.Circ {
			t.classes["model:circular_window"] = true
			if start+length > x.n {
				t.classes["model:circular_window_wraps"] = true
			}
		}
		t.add(length, x.hasQ, x)
	case "setseq":
		if o.Obj == nil || len(o.Obj.Seq) == 0 {
			return false
		}
		x := t.sel(o.I)
		x.n = len(o.Obj.Seq)
		t.touched(x, "mutate")
	case "append":
		if o.Data == "" {
			return false
		}
		x := t.sel(o.I)
		x.n += len(o.Data)
		t.touched(x, "mutate")
	case "setqual":
		x := t.sel(o.I)
		if x.hasQ {
			t.classes["model:setqualities_replacing_qualities"] = true
		}
		x.hasQ = true
		t.touched(x, "mutate")
	case "clearqual":
		x := t.sel(o.I)
		x.hasQ = false
		t.touched(x, "mutate")
	case "setattr", "delattr", "setmism", "nested", "setfeat":
		t.touched(t.sel(o.I), "mutate")
	case "join":
		x, y := t.sel(o.I), t.sel(o.J)
		if x.hasQ {
			return false
		}
		if o.Inplace {
			x.n += y.n
			t.touched(x, "mutate")
		} else {
			t.add(x.n+y.n, false, x)
		}
	case "recycle":
		x := t.sel(o.I)
		t.touched(x, "recycle")
		x.dead = true
		for i, s := range t.live {
			if s == x {
				t.live = append(t.live[:i:i], t.live[i+1:]...)
				break
			}
		}
	case "churn":
		if o.Hold {
			t.held += len(o.Sizes)
		} else if len(o.Sizes) > 0 {
			t.classes["model:pool_churn"] = true
		}
	case "release":
		if t.held > 0 {
			t.classes["model:pool_churn"] = true
		}
		t.held -= min(t.held, max(o.N, 0))
	default:
		return false
	}
	return true
}

func (t *tracker) indexOf(s *shape) int {
	for i, x := range t.live {
		if x == s {
			return i
		}
	}
	return -1
}

// ------------------------------------------------------------------ the check

type object struct {
	real *obiseq.BioSequence
	v    value
	desc string
}

func checkModel(c modelCase) (err error) {
	resetPools()
	out := fatal.Run(func() { noGC(func() { err = modelBody(c) }) })
	if !out.Completed {
		return fmt.Errorf("operation list did not complete: %v\n%s", out, out.Stack)
	}
	return err
}

func modelBody(c modelCase) error {
	t := newTracker()
	var live []*object
	var held []*[]byte
	sel := func(i int) *object { return live[((i%len(live))+len(live))%len(live)] }
	pos := func(x *object) int {
		for i, o := range live {
			if o == x {
				return i
			}
		}
		return -1
	}

	for idx, o := range c.Ops {
		fail := func(format string, args ...any) error {
			return fmt.Errorf("op %d %s: %s", idx, o, fmt.Sprintf(format, args...))
		}
		// decide with the tracker (on a copy of the selection state) whether the op runs
		nlive := len(t.live)
		if nlive != len(live) {
			return fail("internal: tracker has %d live objects, check has %d", nlive, len(live))
		}
		var x, y *object
		if len(live) > 0 {
			x, y = sel(o.I), sel(o.J)
		}
		if !t.apply(o) {
			continue
		}
		switch o.K {
		case "new":
			r, v, e := build(fmt.Sprintf("o%d", idx), *o.Obj)
			if e != nil {
				return fail("%v", e)
			}
			live = append(live, &object{r, v, fmt.Sprintf("new by op %d", idx)})
		case "copy":
			r := x.real.Copy()
			if r != nil && r.Id() != x.real.Id() {
				return fail("Copy() has id %q, source %q", r.Id(), x.real.Id())
			}
			live = append(live, &object{r, x.v.clone(), fmt.Sprintf("Copy of #%d by op %d", pos(x), idx)})
		case "rc":
			if o.Inplace {
				ret := x.real.ReverseComplement(true)
				x.v = x.v.revcomp()
				if e := compare(x.real, x.v, false); e != nil {
					return fail("receiver #%d (%s) after ReverseComplement(true): %v", pos(x), x.desc, e)
				}
				if e := compare(ret, x.v, false); e != nil {
					return fail("value returned by ReverseComplement(true) on #%d (%s): %v", pos(x), x.desc, e)
				}
			} else {
				r := x.real.ReverseComplement(false)
				live = append(live, &object{r, x.v.revcomp(), fmt.Sprintf("ReverseComplement(false) of #%d by op %d", pos(x), idx)})
			}
		case "sub":
			n := len(x.v.Seq)
			start, length := winParams(o, n)
			from, to := start, start+length
			if o.Circ {
				forms := circularForms(n, start, length)
				f := forms[((o.Form%len(forms))+len(forms))%len(forms)]
				from, to = f[0], f[1]
			}
			r, e := x.real.Subsequence(from, to, o.Circ)
			if e != nil {
				return fail("Subsequence(%d,%d,%v) on #%d of length %d: error %v", from, to, o.Circ, pos(x), n, e)
			}
			live = append(live, &object{r, x.v.window(start, length), fmt.Sprintf("Subsequence(%d,%d,%v) of #%d by op %d", from, to, o.Circ, pos(x), idx)})
		case "setseq":
			n := len(o.Obj.Seq)
			rewrite := o.Mode%2 != 0 // Clear + Grow + Write into the object's own buffer instead of SetSequence
			if rewrite {
				x.real.Clear()
				x.real.Grow(n)
				x.real.Write([]byte(o.Obj.Seq))
			} else {
				x.real.SetSequence([]byte(o.Obj.Seq))
			}
			x.v.Seq = ref.LowerASCII(o.Obj.Seq)
			if x.v.Qual != nil {
				q := o.Obj.Qual
				if q == nil {
					q = []byte{20}
				}
				q = fitQual(q, n)
				if rewrite {
					x.real.ClearQualities()
					x.real.WriteQualities(append([]byte(nil), q...))
				} else {
					x.real.SetQualities(append([]byte(nil), q...))
				}
				x.v.Qual = q
			}
			if len(o.Obj.Mism) > 0 {
				m := fitMism(o.Obj.Mism, n)
				cm, e := ref.CanonMismatches(m)
				if e != nil {
					return fail("%v", e)
				}
				x.real.SetAttribute(mismKey, mismValue(m, o.Obj.AsAny))
				x.v.Mism = cm
			} else {
				x.real.DeleteAttribute(mismKey)
				x.v.Mism = nil
			}
		case "append":
			switch ((o.Mode % 3) + 3) % 3 {
			case 0:
				x.real.Write([]byte(o.Data))
			case 1:
				x.real.WriteString(o.Data)
			case 2:
				for i := 0; i < len(o.Data); i++ {
					x.real.WriteByte(o.Data[i])
				}
			}
			x.v.Seq += ref.LowerASCII(o.Data)
			if x.v.Qual != nil {
				q := o.Qual
				if q == nil {
					q = []byte{25}
				}
				q = fitQual(q, len(o.Data))
				if o.Mode%2 == 0 {
					x.real.WriteQualities(append([]byte(nil), q...))
				} else {
					for _, b := range q {
						x.real.WriteByteQualities(b)
					}
				}
				x.v.Qual = append(x.v.Qual, q...)
			}
		case "setqual":
			q := o.Qual
			if q == nil {
				q = []byte{33}
			}
			q = fitQual(q, len(x.v.Seq))
			x.real.SetQualities(append([]byte(nil), q...))
			x.v.Qual = q
		case "clearqual":
			x.real.SetQualities(nil)
			x.v.Qual = nil
		case "setattr":
			val := normScalar(o.Val)
			x.real.SetAttribute(attrKey(o.Key), val)
			if x.v.Attr == nil {
				x.v.Attr = map[string]string{}
			}
			x.v.Attr[attrKey(o.Key)] = fmt.Sprint(val)
		case "delattr":
			x.real.DeleteAttribute(attrKey(o.Key))
			delete(x.v.Attr, attrKey(o.Key))
		case "setmism":
			if len(o.Mism) == 0 {
				x.real.DeleteAttribute(mismKey)
				x.v.Mism = nil
				break
			}
			m := fitMism(o.Mism, len(x.v.Seq))
			cm, e := ref.CanonMismatches(m)
			if e != nil {
				return fail("%v", e)
			}
			x.real.SetAttribute(mismKey, mismValue(m, false))
			x.v.Mism = cm
		case "nested":
			k := o.Key
			if k == "" {
				k = "sa"
			}
			var m map[string]int
			ok := false
			if x.real.HasAnnotation() {
				m, ok = x.real.Annotations()[nestedKey].(map[string]int)
			}
			if ok {
				m[k]++
			} else {
				x.real.SetAttribute(nestedKey, map[string]int{k: 1})
			}
			if x.v.Nested == nil {
				x.v.Nested = map[string]int{}
			}
			x.v.Nested[k]++
		case "setfeat":
			x.real.SetFeatures([]byte(o.Data))
			x.v.Feat, x.v.FeatOK = o.Data, true
		case "join":
			r := x.real.Join(y.real, o.Inplace)
			if o.Inplace {
				x.v.Seq += y.v.Seq
				if e := compare(r, x.v, false); e != nil {
					return fail("value returned by Join(#%d, true) on #%d: %v", pos(y), pos(x), e)
				}
			} else {
				v := x.v.clone()
				v.Seq += y.v.Seq
				live = append(live, &object{r, v, fmt.Sprintf("Join(#%d,false) on #%d by op %d", pos(y), pos(x), idx)})
			}
		case "recycle":
			x.real.Recycle()
			i := pos(x)
			live = append(live[:i:i], live[i+1:]...)
		case "churn":
			for _, size := range o.Sizes {
				size = min(max(size, 0), 4096)
				p := new([]byte)
				*p = obiseq.GetSlice(size)
				if cap(*p) < size {
					return fail("GetSlice(%d) returned capacity %d", size, cap(*p))
				}
				b := (*p)[:cap(*p)] // the caller owns the whole slice
				for i := range b {
					b[i] = '#'
				}
				*p = b[:size]
				if o.Hold {
					held = append(held, p)
				} else {
					obiseq.RecycleSlice(p)
				}
			}
		case "release":
			for k := 0; k < o.N && len(held) > 0; k++ {
				p := held[len(held)-1]
				held = held[:len(held)-1]
				obiseq.RecycleSlice(p)
			}
		}
		// invariant: every live object equals its model
		for i, ob := range live {
			if e := compare(ob.real, ob.v, false); e != nil {
				note := ""
				for j, other := range live {
					if j != i && other.real == ob.real {
						note = fmt.Sprintf(" [live objects #%d and #%d are the same Go object]", i, j)
					}
				}
				return fail("afterwards live object #%d (%s) no longer equals its model: %v%s\nhistory:\n%s", i, ob.desc, e, note, history(c.Ops[:idx+1]))
			}
		}
	}
	return nil
}

func history(ops []op) string {
	var b strings.Builder
	for i, o := range ops {
		if o.K == "nop" {
			continue
		}
		fmt.Fprintf(&b, "  %d: %s\n", i, o)
	}
	return b.String()
}

func attrKey(k string) string {
	for _, a := range attrKeys {
		if a == k {
			return k
		}
	}
	return attrKeys[0]
}

// ------------------------------------------------------------------ generator

var kinds = func() []string {
	// "nop" comes first: shrinking a kind towards index 0 deletes the operation
	w := map[string]int{"nop": 1, "new": 5, "copy": 8, "rc_in": 6, "rc_cp": 8, "sub": 5, "subc": 4, "setseq": 4, "append": 5,
		"setqual": 6, "clearqual": 1, "setattr": 3, "delattr": 1, "setmism": 2, "nested": 3, "setfeat": 2,
		"join": 3, "recycle": 8, "churn": 5, "release": 3, "m_rcstale": 3, "m_pool": 3}
	var ks []string
	for _, k := range []string{"nop", "new", "copy", "rc_in", "rc_cp", "sub", "subc", "setseq", "append", "setqual", "clearqual", "setattr",
		"delattr", "setmism", "nested", "setfeat", "join", "recycle", "churn", "release", "m_rcstale", "m_pool"} {
		for i := 0; i < w[k]; i++ {
			ks = append(ks, k)
		}
	}
	return ks
}()

func genSpec(t *rapid.T, n int, wantQ int) *spec {
	s := &spec{Seq: genSeq(t, "seq", n)}
	switch wantQ {
	case 1:
		s.Qual = gen.Quals(t, "qual", n, 1, 93)
	case -1:
		s.Qual = genQual(t, "qual", n)
	}
	s.Mism = genMism(t, "mism", n, n/2)
	s.AsAny = rapid.IntRange(0, 3).Draw(t, "as_any") == 0
	return s
}

var churnSizes = []int{0, 1, 8, 40, 299, 300, 301, 1024, 1025, 2000}

func genModel(t *rapid.T, maxOps int) (modelCase, *tracker) {
	nops := gen.Len(t, "nops", 3, maxOps)
	tr := newTracker()
	var ops []op
	push := func(o op) {
		ops = append(ops, o)
		tr.apply(o)
	}
	pick := func(label string) (int, *shape) {
		i := rapid.IntRange(0, len(tr.live)-1).Draw(t, label)
		return i, tr.live[i]
	}
	mutate := func(i int, s *shape) op {
		switch rapid.IntRange(0, 5).Draw(t, "mut_kind") {
		case 0:
			q := 0
			if s.hasQ {
				q = 1
			}
			return op{K: "setseq", I: i, Obj: genSpec(t, genLen(t, "n"), q), Mode: rapid.IntRange(0, 1).Draw(t, "rewrite")}
		case 1:
			d := genSeq(t, "data", rapid.IntRange(1, 12).Draw(t, "dlen"))
			return op{K: "append", I: i, Data: d, Qual: gen.Quals(t, "aq", len(d), 1, 93), Mode: rapid.IntRange(0, 2).Draw(t, "mode")}
		case 2:
			return op{K: "setqual", I: i, Qual: gen.Quals(t, "sq", s.n, 1, 93)}
		case 3:
			return op{K: "rc", I: i, Inplace: true}
		case 4:
			return op{K: "setattr", I: i, Key: attrKeys[rapid.IntRange(0, 2).Draw(t, "ak")], Val: genScalar(t, "av")}
		default:
			return op{K: "recycle", I: i}
		}
	}
	for len(ops) < nops {
		if len(tr.live) == 0 {
			push(op{K: "new", Obj: genSpec(t, genLen(t, "n"), -1), Key: ""})
			continue
		}
		k := rapid.SampledFrom(kinds).Draw(t, "kind")
		if len(tr.live) >= 9 && (k == "new" || k == "copy" || k == "rc_cp" || k == "sub" || k == "subc") {
			k = "recycle"
		}
		switch k {
		case "nop":
			push(op{K: "nop"})
		case "new":
			s := genSpec(t, genLen(t, "n"), -1)
			s.Attr = genAttr(t, "attr")
			s.Nested = genNested(t, "nested")
			push(op{K: "new", Obj: s})
		case "copy":
			i, _ := pick("i")
			push(op{K: "copy", I: i})
		case "rc_in":
			i, _ := pick("i")
			push(op{K: "rc", I: i, Inplace: true})
		case "rc_cp":
			i, _ := pick("i")
			push(op{K: "rc", I: i})
		case "sub", "subc":
			i, s := pick("i")
			start := gen.Len(t, "start", 0, s.n-1)
			o := op{K: "sub", I: i, Start: start, Circ: k == "subc"}
			if o.Circ {
				o.Len = gen.Len(t, "wlen", 1, s.n, s.n-start)
				o.Form = rapid.IntRange(0, 3).Draw(t, "form")
			} else {
				o.Len = gen.Len(t, "wlen", 1, s.n-start)
			}
			push(o)
		case "setseq", "append", "setqual":
			i, s := pick("i")
			var o op
			switch k {
			case "setseq":
				q := 0
				if s.hasQ {
					q = 1
				}
				o = op{K: "setseq", I: i, Obj: genSpec(t, genLen(t, "n"), q), Mode: rapid.IntRange(0, 1).Draw(t, "rewrite")}
			case "append":
				d := genSeq(t, "data", rapid.IntRange(1, 12).Draw(t, "dlen"))
				o = op{K: "append", I: i, Data: d, Qual: gen.Quals(t, "aq", len(d), 1, 93), Mode: rapid.IntRange(0, 2).Draw(t, "mode")}
			case "setqual":
				o = op{K: "setqual", I: i, Qual: gen.Quals(t, "sq", s.n, 1, 93)}
			}
			push(o)
		case "clearqual":
			i, _ := pick("i")
			push(op{K: "clearqual", I: i})
		case "setattr":
			i, _ := pick("i")
			push(op{K: "setattr", I: i, Key: attrKeys[rapid.IntRange(0, 2).Draw(t, "ak")], Val: genScalar(t, "av")})
		case "delattr":
			i, _ := pick("i")
			push(op{K: "delattr", I: i, Key: attrKeys[rapid.IntRange(0, 2).Draw(t, "ak")]})
		case "setmism":
			i, s := pick("i")
			push(op{K: "setmism", I: i, Mism: genMism(t, "mism", s.n, s.n/2)})
		case "nested":
			i, _ := pick("i")
			push(op{K: "nested", I: i, Key: nestedKeys[rapid.IntRange(0, 2).Draw(t, "nk")]})
		case "setfeat":
			i, _ := pick("i")
			push(op{K: "setfeat", I: i, Data: rapid.SampledFrom([]string{"", "FT   source 1..10", "FT   CDS 3..8\nFT   /gene=x"}).Draw(t, "feat")})
		case "join":
			i, _ := pick("i")
			j, _ := pick("j")
			push(op{K: "join", I: i, J: j, Inplace: rapid.Bool().Draw(t, "inplace")})
		case "recycle":
			i, _ := pick("i")
			push(op{K: "recycle", I: i})
		case "churn":
			n := rapid.IntRange(1, 4).Draw(t, "nchurn")
			var sizes []int
			for c := 0; c < n; c++ {
				sizes = append(sizes, rapid.SampledFrom(churnSizes).Draw(t, "size"))
			}
			push(op{K: "churn", Sizes: sizes, Hold: rapid.IntRange(0, 2).Draw(t, "hold") == 0})
		case "release":
			push(op{K: "release", N: rapid.IntRange(1, 4).Draw(t, "nrel")})
		case "m_rcstale":
			// R = rc(A) (copy); change or recycle A or change R; rc(R)
			i, a := pick("i")
			push(op{K: "rc", I: i})
			r := tr.live[len(tr.live)-1]
			switch rapid.IntRange(0, 2).Draw(t, "who") {
			case 0, 1:
				push(mutate(tr.indexOf(a), a))
			default:
				o := mutate(tr.indexOf(r), r)
				if o.K == "recycle" {
					o = op{K: "setattr", I: o.I, Key: "count", Val: 2}
				}
				push(o)
			}
			if ri := tr.indexOf(r); ri >= 0 {
				push(op{K: "rc", I: ri, Inplace: rapid.Bool().Draw(t, "inplace")})
			}
		case "m_pool":
			// something goes to the pool, an object replaces its qualities, somebody copies
			if rapid.Bool().Draw(t, "via_recycle") && len(tr.live) > 1 {
				i, _ := pick("i")
				push(op{K: "recycle", I: i})
			} else {
				push(op{K: "churn", Sizes: []int{rapid.SampledFrom(churnSizes).Draw(t, "size")}})
			}
			i, s := pick("i")
			push(op{K: "setqual", I: i, Qual: gen.Quals(t, "sq", s.n, 1, 93)})
			if rapid.Bool().Draw(t, "twice") {
				push(op{K: "setqual", I: i, Qual: gen.Quals(t, "sq2", s.n, 1, 93)})
			}
			j, _ := pick("j")
			if rapid.Bool().Draw(t, "copy_or_sub") {
				push(op{K: "copy", I: j})
			} else {
				push(op{K: "rc", I: j})
			}
		}
	}
	return modelCase{ops}, tr
}

func TestPropModel(t *testing.T) {
	maxOps := evid.Pick(30, 60)
	rapid.Check(t, func(rt *rapid.T) {
		c, tr := genModel(rt, maxOps)
		cl := make([]string, 0, len(tr.classes))
		for k := range tr.classes {
			cl = append(cl, k)
		}
		seen := map[string]bool{}
		for _, o := range c.Ops {
			if !seen[o.K] {
				seen[o.K] = true
				cl = append(cl, "op:"+o.K)
			}
		}
		b, _ := json.Marshal(c)
		evid.Eval("model", evid.Hash(b), tr.nontrivial, c, cl...)
		evid.Class("model:operations", int64(len(c.Ops)))
		if err := checkModel(c); err != nil {
			evid.Fail(rt, "model", c, err)
		}
	})
}
