// Property C07 — reverse complement, subsequence and copy obey their algebraic
// laws; derived objects share no mutable state with their source.
//
// Domain decisions
//
//   - Letter case.  The container normalises to lower case (SetSequence, the
//     complement function) while Write/WriteByte store the bytes they are given.
//     The property speaks of nucleotides, not of letter case: nucleotide strings are
//     compared after ASCII lower-casing on both sides.  Upper-case input is generated.
//   - Lengths >= 1.  An empty sequence has no window and no circular reading
//     (Subsequence divides by the length); the property quantifies over lengths 1,
//     odd, even.
//   - Windows.  Linear: 0 <= from < to <= len.  Circular: a start in [0,len) and a
//     length in [1,len] (a window longer than the circle is not decided by the
//     statement), written in every form a caller of obiapat/pcr.go produces: to
//     beyond the end (from+length), to wrapped (to <= from, to == from meaning the
//     full circle, to == 0 meaning "up to the end"), from beyond the end (from+len).
//     Invalid windows (error returns) are not part of the property.
//   - Position-bearing annotation = "pairing_mismatches" (the only one the library
//     transforms).  Convention taken from its producer obialign.BuildQualityConsensus:
//     value = 1-based position, key "(X:qq)->(Y:qq)" upper case, qualities 00..93.
//     Positions are generated inside 1..len (the producer never emits others) and
//     re-generated whenever SetSequence replaces the sequence.  What is asserted:
//     exactly the entries whose position falls in the window survive (none lost, none
//     added) with position p-from (p+len-from on the wrapped part of a circular
//     window); under reverse complement p -> len-p+1 and both bases are complemented.
//     Which read is written first in the key after a strand change and the letter
//     case of the key are presentation choices: keys are compared as unordered pairs
//     of (BASE, quality).  An attribute that became empty may be absent or an empty map.
//   - Qualities.  An object has qualities or not; when it has, they have the length
//     of the sequence (appends write both, as JoinPairedSequence does).  Join is
//     exercised only on receivers without qualities (it appends nucleotides only).
//   - Identifiers are compared for Copy only (Subsequence renames by design).
//   - Features are compared only on objects whose features were set or copied
//     (Subsequence does not document whether it carries them).
//   - A recycled object is dead: it is never used again.  Everything else (recycling
//     a source while its copy lives and vice versa, as obipairing / obiapat / obigrep
//     do) is a legitimate history.
//   - obikmer's complement table is reachable through the exported API for a,c,g,t
//     only (NormalizedKmerSlice resets on ambiguity codes); it is compared on all
//     words of length exactly k (k = 2, 4), where the canonical code does not depend
//     on any masking of longer reads (that is C19's subject).
//   - obiapat patterns: IUPAC letters and [..] groups; '#' and '!' modifiers have no
//     counterpart in obiseq and are left out.
package c07

import (
	"bytes"
	"encoding/json"
	"fmt"
	"runtime"
	"runtime/debug"
	"sort"
	"strings"
	"testing"

	"git.metabarcoding.org/obitools/obitools4/obitools4/pkg/obiapat"
	"git.metabarcoding.org/obitools/obitools4/obitools4/pkg/obifp"
	"git.metabarcoding.org/obitools/obitools4/obitools4/pkg/obikmer"
	"git.metabarcoding.org/obitools/obitools4/obitools4/pkg/obiseq"
	"pgregory.net/rapid"

	"verifharness/internal/evid"
	"verifharness/internal/fatal"
	"verifharness/internal/gen"
	"verifharness/internal/ref"
)

func TestMain(m *testing.M) {
	// one P: sync.Pool hands slices back in a fixed (LIFO) order, so that a case
	// replays identically; shards are separate processes.
	runtime.GOMAXPROCS(1)
	evid.Tests(
		evid.Spec{Name: "TestReplay", Kind: "plain", QuickShards: 1, ThoroughShards: 1},
		evid.Spec{Name: "TestExhaustiveTables", Kind: "plain", QuickShards: 1, ThoroughShards: 1},
		evid.Spec{Name: "TestPropLaws", Kind: "rapid", Quick: 20000, Thorough: 640000, QuickShards: 4, ThoroughShards: 16},
		evid.Spec{Name: "TestPropPattern", Kind: "rapid", Quick: 4000, Thorough: 64000, QuickShards: 1, ThoroughShards: 4},
		evid.Spec{Name: "TestPropModel", Kind: "rapid", Quick: 16000, Thorough: 560000, QuickShards: 8, ThoroughShards: 16},
	)
	evid.Note("rule", "laws: one fresh object per case over the 38-symbol alphabet (IUPAC + . - [ ], both cases), lengths 1..1100 biased to 1,2,3,299-301,1023-1025, with/without qualities, with/without pairing_mismatches whose positions are biased to the window edges; checked against string-level references: rc, rc.rc, in-place rc, linear window, rc(sub)=sub(rc) mirrored, circular window in every caller form = window of s+s, its mirror law, Copy equality, source untouched. tables: every sequence of length 1 and 2 over the 38 symbols (obiseq), every IUPAC pattern of length 1-2 and generated patterns up to 64 positions with [..] groups (obiapat vs obiseq vs reference), every acgt word of length k=2,4 (obikmer canonical code classes = {w, rc(w)}). model: the case is a generated list of operations (New, Copy, RC in place / copy, Subsequence linear / circular, SetSequence or Clear+Grow+Write, Write/WriteString/WriteByte(+qualities), SetQualities, SetQualities(nil), SetAttribute/DeleteAttribute, nested-map update, SetFeatures, Join, Recycle, GetSlice/RecycleSlice churn) run against real objects with recycled-slice poisoning on and against a value model; after every operation every live object's String, Qualities, annotations, features must equal its model. Non-trivial: laws = window strictly inside or wrapping with a mismatch position on a window edge or odd length >= 3; model = an object was mutated or recycled while a live object derived from it (or its source) was subsequently read. Distinct = hash of the whole case.")
	evid.Main(m, "C07")
}

func TestReplay(t *testing.T) { evid.Replay(t) }

func init() {
	evid.Reg("laws", checkLaws)
	evid.Reg("pattern", checkPattern)
	evid.Reg("model", checkModel)
}

// resetPools empties the library's sync.Pools (two collections drop the victim
// cache) so that a check is a function of its case only.
func resetPools() {
	runtime.GC()
	runtime.GC()
}

// noGC runs f with the collector off: a collection in the middle of a case would
// empty the slice pool at a point that depends on the allocation history of the
// process, not on the case.
func noGC(f func()) {
	old := debug.SetGCPercent(-1)
	defer debug.SetGCPercent(old)
	f()
}

// ------------------------------------------------------------------ values

// value is the model of one sequence object.
type value struct {
	Seq    string            // lower case
	Qual   []byte            // nil = no qualities
	Mism   map[string]int    // canonical key -> 1-based position (nil/empty = none)
	Attr   map[string]string // scalar attributes, values rendered with fmt.Sprint
	Nested map[string]int    // the "merged_sample" nested map (nil = attribute absent)
	Feat   string
	FeatOK bool // features are asserted
	ID     string
}

func (v value) clone() value {
	c := v
	c.Qual = append([]byte(nil), v.Qual...)
	if v.Qual == nil {
		c.Qual = nil
	}
	c.Mism = cloneIntMap(v.Mism)
	c.Nested = cloneIntMap(v.Nested)
	if v.Attr != nil {
		c.Attr = map[string]string{}
		for k, x := range v.Attr {
			c.Attr[k] = x
		}
	}
	return c
}

func cloneIntMap(m map[string]int) map[string]int {
	if m == nil {
		return nil
	}
	c := make(map[string]int, len(m))
	for k, v := range m {
		c[k] = v
	}
	return c
}

func (v value) revcomp() value {
	r := v.clone()
	r.Seq = ref.LowerASCII(ref.RevComp(v.Seq))
	r.Qual = ref.ReverseBytes(v.Qual)
	if len(v.Mism) > 0 {
		r.Mism = ref.MismatchesRevComp(v.Mism, len(v.Seq))
	}
	return r
}

// window models Subsequence: annotations are carried over, the mismatch map is
// restricted and shifted, features are not asserted.
func (v value) window(start, length int) value {
	r := v.clone()
	r.Seq = ref.CircularWindow(v.Seq, start, length)
	r.Qual = ref.CircularWindowBytes(v.Qual, start, length)
	if len(v.Mism) > 0 {
		r.Mism = ref.MismatchesWindow(v.Mism, len(v.Seq), start, length)
	}
	r.FeatOK = false
	return r
}

const (
	mismKey   = "pairing_mismatches"
	nestedKey = "merged_sample"
)

func fmtMap(m map[string]int) string {
	keys := make([]string, 0, len(m))
	for k := range m {
		keys = append(keys, k)
	}
	sort.Strings(keys)
	var b strings.Builder
	b.WriteByte('{')
	for i, k := range keys {
		if i > 0 {
			b.WriteByte(' ')
		}
		fmt.Fprintf(&b, "%s@%d", k, m[k])
	}
	b.WriteByte('}')
	return b.String()
}

func clip(s string) string {
	if len(s) > 120 {
		return fmt.Sprintf("%s…(%d)", s[:120], len(s))
	}
	return s
}

// compare reports the first difference between a real object and its model.
func compare(o *obiseq.BioSequence, v value, withID bool) error {
	if o == nil {
		return fmt.Errorf("object is nil, model holds %q", clip(v.Seq))
	}
	if got := ref.LowerASCII(o.String()); got != v.Seq {
		return fmt.Errorf("String() = %q, model %q", clip(got), clip(v.Seq))
	}
	if o.Len() != len(v.Seq) {
		return fmt.Errorf("Len() = %d, model %d", o.Len(), len(v.Seq))
	}
	if o.HasQualities() != (len(v.Qual) > 0) {
		return fmt.Errorf("HasQualities() = %v, model has %d quality values", o.HasQualities(), len(v.Qual))
	}
	if len(v.Qual) > 0 {
		if q := []byte(o.Qualities()); !bytes.Equal(q, v.Qual) {
			return fmt.Errorf("Qualities() = %v, model %v", clipBytes(q), clipBytes(v.Qual))
		}
	} else if q := o.Qualities(); len(q) != len(v.Seq) {
		return fmt.Errorf("Qualities() of an object without qualities has length %d, sequence length %d", len(q), len(v.Seq))
	}
	if withID && o.Id() != v.ID {
		return fmt.Errorf("Id() = %q, model %q", o.Id(), v.ID)
	}
	if v.FeatOK && o.Features() != v.Feat {
		return fmt.Errorf("Features() = %q, model %q", clip(o.Features()), clip(v.Feat))
	}
	// annotations, both directions
	seen := map[string]bool{}
	if o.HasAnnotation() {
		for k, x := range o.Annotations() {
			seen[k] = true
			switch k {
			case mismKey:
				m, ok := o.GetIntMap(mismKey)
				if !ok {
					return fmt.Errorf("attribute %s is no longer an integer map: %v", mismKey, x)
				}
				cm, err := ref.CanonMismatches(m)
				if err != nil {
					return fmt.Errorf("attribute %s = %v: %v", mismKey, m, err)
				}
				if fmtMap(cm) != fmtMap(v.Mism) {
					return fmt.Errorf("%s = %v i.e. %s, model %s (unordered (BASE:quality) pairs @ 1-based position)", mismKey, m, fmtMap(cm), fmtMap(v.Mism))
				}
			case nestedKey:
				m, ok := x.(map[string]int)
				if !ok {
					return fmt.Errorf("attribute %s changed type: %T", nestedKey, x)
				}
				if v.Nested == nil || fmtMap(m) != fmtMap(v.Nested) {
					return fmt.Errorf("%s = %s, model %s", nestedKey, fmtMap(m), fmtMap(v.Nested))
				}
			default:
				want, ok := v.Attr[k]
				if !ok {
					return fmt.Errorf("unexpected attribute %q = %v (model has none)", k, x)
				}
				if got := fmt.Sprint(x); got != want {
					return fmt.Errorf("attribute %q = %q, model %q", k, got, want)
				}
			}
		}
	}
	if len(v.Mism) > 0 && !seen[mismKey] {
		return fmt.Errorf("attribute %s is missing, model %s", mismKey, fmtMap(v.Mism))
	}
	if v.Nested != nil && !seen[nestedKey] {
		return fmt.Errorf("attribute %s is missing, model %s", nestedKey, fmtMap(v.Nested))
	}
	for k, want := range v.Attr {
		if !seen[k] {
			return fmt.Errorf("attribute %q is missing, model %q", k, want)
		}
	}
	return nil
}

func clipBytes(b []byte) string {
	if len(b) > 60 {
		return fmt.Sprintf("%v…(%d)", b[:60], len(b))
	}
	return fmt.Sprint(b)
}

// spec is the generated description of a fresh object.
type spec struct {
	Seq    string         `json:"seq"`
	Qual   []byte         `json:"qual,omitempty"` // nil = no qualities; else same length as Seq
	Mism   map[string]int `json:"mism,omitempty"` // producer-format keys
	AsAny  bool           `json:"as_any,omitempty"`
	Attr   map[string]any `json:"attr,omitempty"`
	Nested map[string]int `json:"nested,omitempty"`
}

// fitQual makes q a quality vector for a sequence of length n (replayed or
// shrunk cases may carry another length).
func fitQual(q []byte, n int) []byte {
	if q == nil {
		return nil
	}
	out := make([]byte, n)
	for i := range out {
		if len(q) > 0 {
			out[i] = q[i%len(q)]
		} else {
			out[i] = 30
		}
	}
	return out
}

// fitMism maps every position into 1..n.
func fitMism(m map[string]int, n int) map[string]int {
	if m == nil {
		return nil
	}
	out := make(map[string]int, len(m))
	for k, p := range m {
		out[k] = 1 + (((p-1)%n)+n)%n
	}
	return out
}

func mismValue(m map[string]int, asAny bool) any {
	if asAny { // the shape a header parsed from a file has
		a := make(map[string]interface{}, len(m))
		for k, p := range m {
			a[k] = p
		}
		return a
	}
	return cloneIntMap(m)
}

// build creates the real object and its model from a spec.
func build(id string, s spec) (*obiseq.BioSequence, value, error) {
	if len(s.Seq) == 0 {
		return nil, value{}, fmt.Errorf("empty sequence in case")
	}
	n := len(s.Seq)
	q := fitQual(s.Qual, n)
	var o *obiseq.BioSequence
	if q != nil {
		o = obiseq.NewBioSequenceWithQualities(id, []byte(s.Seq), "", append([]byte(nil), q...))
	} else {
		o = obiseq.NewBioSequence(id, []byte(s.Seq), "")
	}
	v := value{Seq: ref.LowerASCII(s.Seq), Qual: q, ID: id, FeatOK: true}
	if len(s.Mism) > 0 {
		m := fitMism(s.Mism, n)
		cm, err := ref.CanonMismatches(m)
		if err != nil {
			return nil, value{}, err
		}
		o.SetAttribute(mismKey, mismValue(m, s.AsAny))
		v.Mism = cm
	}
	if len(s.Attr) > 0 {
		v.Attr = map[string]string{}
		keys := make([]string, 0, len(s.Attr))
		for k := range s.Attr {
			keys = append(keys, k)
		}
		sort.Strings(keys)
		for _, k := range keys {
			x := normScalar(s.Attr[k])
			o.SetAttribute(k, x)
			v.Attr[k] = fmt.Sprint(x)
		}
	}
	if s.Nested != nil {
		o.SetAttribute(nestedKey, cloneIntMap(s.Nested))
		v.Nested = cloneIntMap(s.Nested)
	}
	return o, v, nil
}

// normScalar undoes what a JSON round trip does to an int (replay files).
func normScalar(x any) any {
	if f, ok := x.(float64); ok && f == float64(int(f)) {
		return int(f)
	}
	return x
}

// ------------------------------------------------------------------ generators

// 38 symbols: IUPAC + . - [ ] in both cases
var alphabetBoth = gen.FullAlphabet + strings.ToUpper(gen.IUPAC)

func genSeq(t *rapid.T, label string, n int) string {
	switch rapid.IntRange(0, 5).Draw(t, label+"_alpha") {
	case 0:
		return gen.Seq(t, label, n, gen.ACGT)
	case 1:
		return gen.Seq(t, label, n, gen.IUPAC)
	case 2:
		return gen.Seq(t, label, n, gen.FullAlphabet)
	default:
		return gen.Seq(t, label, n, alphabetBoth)
	}
}

func genLen(t *rapid.T, label string) int {
	switch rapid.IntRange(0, 19).Draw(t, label+"_scale") {
	case 0:
		return gen.Len(t, label, 1, 1100, 300, 1024)
	case 1, 2:
		return gen.Len(t, label, 1, 320, 300)
	default:
		return gen.Len(t, label, 1, 40, 1, 2, 3)
	}
}

const mismNucs = "ACGTRYMKWSBDHVN"

// genMism builds k producer-format keys whose canonical forms cannot collide
// (disjoint quality ranges per entry and per side) with positions drawn around
// the given anchors.
func genMism(t *rapid.T, label string, n int, anchors ...int) map[string]int {
	// up to 23 entries: Go maps change their iteration behaviour beyond 8 entries
	// (one bucket), which matters to code that walks the map while transforming it
	k := rapid.SampledFrom([]int{0, 0, 1, 2, 3, 4, 4, 9, 12, 17, 23}).Draw(t, label+"_k")
	step, spread := 9, 8
	if k > 4 {
		step, spread = 2, 1
	}
	if k == 0 {
		return nil
	}
	m := map[string]int{}
	for j := 0; j < k; j++ {
		a := ref.MismatchSide{Nuc: mismNucs[rapid.IntRange(0, len(mismNucs)-1).Draw(t, label+"_na")], Qual: j*step + rapid.IntRange(0, spread).Draw(t, label+"_qa")}
		// the producer records mismatches only: the second base differs from the first
		b := ref.MismatchSide{Nuc: mismNucs[(strings.IndexByte(mismNucs, a.Nuc)+rapid.IntRange(1, len(mismNucs)-1).Draw(t, label+"_nb"))%len(mismNucs)], Qual: 47 + rapid.IntRange(0, 46).Draw(t, label+"_qb")}
		cands := []int{1, n}
		for _, x := range anchors {
			for _, d := range []int{-1, 0, 1, 2} {
				if x+d >= 1 && x+d <= n {
					cands = append(cands, x+d)
				}
			}
		}
		p := rapid.IntRange(1, n).Draw(t, label+"_p")
		if rapid.IntRange(0, 2).Draw(t, label+"_edge") > 0 {
			p = rapid.SampledFrom(cands).Draw(t, label+"_pe")
		}
		m[ref.FormatMismatchKey(a, b)] = p
	}
	return m
}

func genQual(t *rapid.T, label string, n int) []byte {
	if rapid.Bool().Draw(t, label+"_has") {
		return gen.Quals(t, label, n, 1, 93) // 0 would be fine too; all-zero vectors add nothing
	}
	return nil
}

func genAttr(t *rapid.T, label string) map[string]any {
	if rapid.IntRange(0, 2).Draw(t, label+"_has") == 0 {
		return nil
	}
	return map[string]any{attrKeys[rapid.IntRange(0, len(attrKeys)-1).Draw(t, label+"_k")]: genScalar(t, label)}
}

var attrKeys = []string{"count", "sample", "direction"}

func genScalar(t *rapid.T, label string) any {
	if rapid.Bool().Draw(t, label+"_int") {
		return rapid.IntRange(0, 9).Draw(t, label+"_iv")
	}
	return rapid.SampledFrom([]string{"direct", "reverse", "s1", ""}).Draw(t, label+"_sv")
}

func genNested(t *rapid.T, label string) map[string]int {
	if rapid.IntRange(0, 2).Draw(t, label+"_has") > 0 {
		return nil
	}
	return map[string]int{nestedKeys[rapid.IntRange(0, 2).Draw(t, label+"_k")]: rapid.IntRange(1, 5).Draw(t, label+"_v")}
}

var nestedKeys = []string{"sa", "sb", "sc"}

// ------------------------------------------------------------------ laws on fresh objects

type lawCase struct {
	Obj   spec `json:"obj"`
	Start int  `json:"start"` // window start, reduced mod len
	Len   int  `json:"len"`   // window length, reduced into 1..len
}

// circularForms lists the (from, to) pairs by which a caller may denote the
// circular window (start, length) of a sequence of length n.
func circularForms(n, start, length int) [][2]int {
	end := start + length // 1 .. 2n-1
	forms := [][2]int{{start, end}} // to = from + length, possibly beyond the end
	if end > n {
		forms = append(forms,
			[2]int{start, end - n},     // wrapped: to <= from (to == from: the full circle)
			[2]int{start + n, end - n}) // from beyond the end (a primer match spanning the junction)
	} else {
		forms = append(forms, [2]int{start + n, end})
	}
	if end == n {
		forms = append(forms, [2]int{start, 0}) // "up to the end of the circle"
	}
	return forms
}

func objErr(what string, err error) error { return fmt.Errorf("%s: %v", what, err) }

func checkLaws(c lawCase) (err error) {
	out := fatal.Run(func() { err = lawsBody(c) })
	if !out.Completed {
		return fmt.Errorf("law checks on %q did not return: %v\n%s", clip(c.Obj.Seq), out, out.Stack)
	}
	return err
}

func lawsBody(c lawCase) error {
	fresh := func() (*obiseq.BioSequence, value) {
		o, v, err := build("s", c.Obj)
		if err != nil {
			panic(err)
		}
		return o, v
	}
	if len(c.Obj.Seq) == 0 {
		return fmt.Errorf("empty sequence in case")
	}
	o, v := fresh()
	n := len(v.Seq)
	if err := compare(o, v, true); err != nil {
		return objErr("freshly built object", err)
	}

	// --- Copy
	cp := o.Copy()
	if err := compare(cp, v, true); err != nil {
		return objErr("Copy()", err)
	}

	// --- reverse complement, copying
	r := o.ReverseComplement(false)
	if r == o {
		return fmt.Errorf("ReverseComplement(false) returned its receiver")
	}
	if err := compare(r, v.revcomp(), false); err != nil {
		return objErr(fmt.Sprintf("ReverseComplement(false) of %q", clip(v.Seq)), err)
	}
	if err := compare(o, v, true); err != nil {
		return objErr("source after ReverseComplement(false)", err)
	}
	rr := r.ReverseComplement(false)
	if err := compare(rr, v, false); err != nil {
		return objErr(fmt.Sprintf("ReverseComplement(false) twice on %q", clip(v.Seq)), err)
	}

	// --- reverse complement, in place, twice
	ip := cp.ReverseComplement(true)
	if err := compare(cp, v.revcomp(), false); err != nil {
		return objErr(fmt.Sprintf("receiver after ReverseComplement(true) on %q", clip(v.Seq)), err)
	}
	if err := compare(ip, v.revcomp(), false); err != nil {
		return objErr("value returned by ReverseComplement(true)", err)
	}
	cp.ReverseComplement(true)
	if err := compare(cp, v, false); err != nil {
		return objErr(fmt.Sprintf("receiver after two ReverseComplement(true) on %q", clip(v.Seq)), err)
	}

	// --- linear window
	start := ((c.Start % n) + n) % n
	llen := 1 + (((c.Len-1)%(n-start))+(n-start))%(n-start)
	from, to := start, start+llen
	sub, e := o.Subsequence(from, to, false)
	if e != nil {
		return fmt.Errorf("Subsequence(%d,%d,false) on length %d: error %v", from, to, n, e)
	}
	wv := v.window(start, llen)
	if err := compare(sub, wv, false); err != nil {
		return objErr(fmt.Sprintf("Subsequence(%d,%d,false) of %q (mismatches %s)", from, to, clip(v.Seq), fmtMap(v.Mism)), err)
	}
	if err := compare(o, v, true); err != nil {
		return objErr("source after Subsequence", err)
	}
	// rc(sub(s,a,b)) = sub(rc(s), n-b, n-a)
	left := sub.ReverseComplement(false)
	o2, _ := fresh()
	right, e := o2.ReverseComplement(false).Subsequence(n-to, n-from, false)
	if e != nil {
		return fmt.Errorf("Subsequence(%d,%d,false) of the reverse complement: error %v", n-to, n-from, e)
	}
	if err := compare(left, wv.revcomp(), false); err != nil {
		return objErr(fmt.Sprintf("rc(Subsequence(%d,%d)) of %q", from, to, clip(v.Seq)), err)
	}
	if err := compare(right, wv.revcomp(), false); err != nil {
		return objErr(fmt.Sprintf("Subsequence(%d,%d) of rc(%q) (mismatches %s)", n-to, n-from, clip(v.Seq), fmtMap(v.Mism)), err)
	}

	// --- circular window, every caller form
	clen := 1 + (((c.Len-1)%n)+n)%n
	cv := v.window(start, clen)
	for _, f := range circularForms(n, start, clen) {
		cs, e := o.Subsequence(f[0], f[1], true)
		if e != nil {
			return fmt.Errorf("Subsequence(%d,%d,true) on length %d: error %v", f[0], f[1], n, e)
		}
		if err := compare(cs, cv, false); err != nil {
			return objErr(fmt.Sprintf("Subsequence(%d,%d,true) of %q (length %d, mismatches %s): expected (s+s)[%d:%d]", f[0], f[1], clip(v.Seq), n, fmtMap(v.Mism), start, start+clen), err)
		}
		if err := compare(o, v, true); err != nil {
			return objErr("source after circular Subsequence", err)
		}
	}
	// mirror law on the circle
	o3, _ := fresh()
	mstart := (((n-start-clen)%n)+n) % n
	mf := circularForms(n, mstart, clen)[0]
	mirror, e := o3.ReverseComplement(true).Subsequence(mf[0], mf[1], true)
	if e != nil {
		return fmt.Errorf("Subsequence(%d,%d,true) of the reverse complement: error %v", mf[0], mf[1], e)
	}
	if err := compare(mirror, cv.revcomp(), false); err != nil {
		return objErr(fmt.Sprintf("Subsequence(%d,%d,true) of rc(%q) against rc of the circular window (%d,+%d)", mf[0], mf[1], clip(v.Seq), start, clen), err)
	}
	return nil
}

func genLaw(t *rapid.T) lawCase {
	n := genLen(t, "n")
	start := gen.Len(t, "start", 0, n-1)
	ln := gen.Len(t, "wlen", 1, n, n-start)
	return lawCase{
		Obj: spec{
			Seq:    genSeq(t, "seq", n),
			Qual:   genQual(t, "qual", n),
			Mism:   genMism(t, "mism", n, start, start+ln, (start+ln)%n),
			AsAny:  rapid.IntRange(0, 3).Draw(t, "as_any") == 0,
			Attr:   genAttr(t, "attr"),
			Nested: genNested(t, "nested"),
		},
		Start: start, Len: ln,
	}
}

func TestPropLaws(t *testing.T) {
	rapid.Check(t, func(rt *rapid.T) {
		c := genLaw(rt)
		n := len(c.Obj.Seq)
		cl := []string{}
		if c.Obj.Qual != nil {
			cl = append(cl, "law:qualities")
		} else {
			cl = append(cl, "law:no_qualities")
		}
		if n%2 == 1 {
			cl = append(cl, "law:odd_length")
		}
		if n == 1 {
			cl = append(cl, "law:length_1")
		}
		if n == 2 {
			cl = append(cl, "law:length_2")
		}
		if n >= 299 {
			cl = append(cl, "law:length>=299")
		}
		wraps := c.Start+c.Len > n
		if wraps {
			cl = append(cl, "law:circular_wraps")
		}
		if c.Len == n {
			cl = append(cl, "law:full_circle")
		}
		if strings.ContainsAny(c.Obj.Seq, ".-[]") {
			cl = append(cl, "law:has_.-[]")
		}
		if c.Obj.Seq != ref.LowerASCII(c.Obj.Seq) {
			cl = append(cl, "law:upper_case")
		}
		edge := false
		for _, p := range c.Obj.Mism {
			for _, x := range []int{c.Start, c.Start + 1, c.Start + c.Len, c.Start + c.Len + 1, c.Start + c.Len - n, c.Start + c.Len - n + 1} {
				if p == x {
					edge = true
				}
			}
		}
		if len(c.Obj.Mism) > 0 {
			cl = append(cl, "law:mismatches")
		}
		if edge {
			cl = append(cl, "law:mismatch_on_window_edge")
		}
		nontrivial := edge || (n%2 == 1 && n >= 3) || (wraps && c.Start > 0)
		b, _ := json.Marshal(c)
		evid.Eval("laws", evid.Hash(b), nontrivial, c, cl...)
		if err := checkLaws(c); err != nil {
			evid.Fail(rt, "laws", c, err)
		}
	})
}

// ------------------------------------------------------------------ complement tables

// rcObiseq is the container's reverse complement of a raw string.
func rcObiseq(s string) string {
	return obiseq.NewBioSequence("x", []byte(s), "").ReverseComplement(true).String()
}

type patCase struct {
	Pattern string `json:"pattern"`
}

func checkPattern(c patCase) (err error) {
	out := fatal.Run(func() {
		p, e := obiapat.MakeApatPattern(c.Pattern, 0, false)
		if e != nil {
			err = fmt.Errorf("MakeApatPattern(%q): %v", c.Pattern, e)
			return
		}
		cp, e := p.ReverseComplement()
		if e != nil {
			err = fmt.Errorf("MakeApatPattern(%q).ReverseComplement(): %v", c.Pattern, e)
			return
		}
		want := ref.LowerASCII(ref.RevComp(c.Pattern))
		if got := ref.LowerASCII(cp.String()); got != want {
			err = fmt.Errorf("ApatPattern(%q).ReverseComplement().String() = %q, reference reverse complement %q", c.Pattern, got, want)
			return
		}
		if got := ref.LowerASCII(rcObiseq(c.Pattern)); got != want {
			err = fmt.Errorf("BioSequence(%q).ReverseComplement = %q, reference %q (pattern table gives %q)", c.Pattern, got, want, cp.String())
			return
		}
		cc, e := cp.ReverseComplement()
		if e != nil {
			err = fmt.Errorf("second ReverseComplement of pattern %q: %v", c.Pattern, e)
			return
		}
		if got := ref.LowerASCII(cc.String()); got != ref.LowerASCII(c.Pattern) {
			err = fmt.Errorf("pattern %q reverse-complemented twice = %q", c.Pattern, got)
		}
	})
	if !out.Completed {
		return fmt.Errorf("pattern %q: %v\n%s", c.Pattern, out, out.Stack)
	}
	return err
}

func TestPropPattern(t *testing.T) {
	rapid.Check(t, func(rt *rapid.T) {
		npos := gen.Len(rt, "npos", 1, 64, 1, 2, 32)
		var b strings.Builder
		groups := 0
		for i := 0; i < npos; i++ {
			if rapid.IntRange(0, 7).Draw(rt, "group") == 0 {
				k := rapid.IntRange(1, 3).Draw(rt, "gsize")
				b.WriteByte('[')
				b.WriteString(gen.Seq(rt, "g", k, "ACGT"))
				b.WriteByte(']')
				groups++
			} else {
				b.WriteString(gen.Seq(rt, "p", 1, strings.ToUpper(gen.IUPAC)))
			}
		}
		c := patCase{b.String()}
		cl := []string{}
		if groups > 0 {
			cl = append(cl, "pattern:with_groups")
		}
		evid.Eval("pattern", evid.Hash(c.Pattern), npos >= 2 && c.Pattern != ref.RevComp(c.Pattern), c, cl...)
		if err := checkPattern(c); err != nil {
			evid.Fail(rt, "pattern", c, err)
		}
	})
}

func TestExhaustiveTables(t *testing.T) {
	// obiseq: every sequence of length 1 and 2 over the 38 symbols
	var words []string
	for i := 0; i < len(alphabetBoth); i++ {
		words = append(words, alphabetBoth[i:i+1])
		for j := 0; j < len(alphabetBoth); j++ {
			words = append(words, string([]byte{alphabetBoth[i], alphabetBoth[j]}))
		}
	}
	for _, w := range words {
		c := lawCase{Obj: spec{Seq: w, Qual: []byte{7, 9}[:len(w)]}, Start: 0, Len: len(w)}
		evid.Eval("laws", evid.Hash("x", w), len(w) == 2, c, "exhaustive")
		if err := checkLaws(c); err != nil {
			evid.Fail(t, "laws", c, err)
		}
	}
	// obiapat against obiseq and the reference: every IUPAC pattern of 1 and 2 letters
	up := strings.ToUpper(gen.IUPAC)
	for i := 0; i < len(up); i++ {
		for j := -1; j < len(up); j++ {
			p := up[i : i+1]
			if j >= 0 {
				p += up[j : j+1]
			}
			for _, pc := range []patCase{{p}, {strings.ToLower(p)}} {
				evid.Eval("pattern", evid.Hash("x", pc.Pattern), len(p) == 2, pc, "exhaustive")
				if err := checkPattern(pc); err != nil {
					evid.Fail(t, "pattern", pc, err)
				}
			}
		}
	}
	// obikmer: canonical code of every word of length exactly k
	for _, k := range []int{2, 4} {
		if err := checkKmerTable(k); err != nil {
			evid.Fail(t, "kmer_table", map[string]int{"k": k}, err)
		}
	}
	evid.Exhaustive("reverse complement laws on every sequence of length 1 and 2 over IUPAC + . - [ ] in both cases; obiapat vs obiseq vs reference complement on every IUPAC pattern of length 1 and 2; obikmer canonical-code classes on every acgt word of length 2 and 4")
}

func init() {
	evid.Reg("kmer_table", func(c map[string]int) error { return checkKmerTable(c["k"]) })
}

func checkKmerTable(k int) (err error) {
	out := fatal.Run(func() {
		km := obikmer.NewKmerMap[obifp.Uint64](nil, uint(k), false, -1)
		words := []string{""}
		for i := 0; i < k; i++ {
			var next []string
			for _, w := range words {
				for _, c := range gen.ACGT {
					next = append(next, w+string(c))
				}
			}
			words = next
		}
		code := map[string]obifp.Uint64{}
		for _, w := range words {
			ks := km.NormalizedKmerSlice(obiseq.NewBioSequence("w", []byte(w), ""), nil)
			if len(ks) != 1 {
				err = fmt.Errorf("NormalizedKmerSlice(%q) with k=%d returned %d codes, 1 expected", w, k, len(ks))
				return
			}
			code[w] = ks[0]
		}
		for _, w1 := range words {
			rc1 := ref.RevComp(w1)
			if rs := ref.LowerASCII(rcObiseq(w1)); rs != rc1 {
				err = fmt.Errorf("obiseq reverse complement of %q is %q, reference %q", w1, rs, rc1)
				return
			}
			for _, w2 := range words {
				same := code[w1] == code[w2]
				want := w2 == w1 || w2 == rc1
				evid.Eval("kmer_table", evid.Hash(k, w1, w2), want && w1 != w2, nil, "exhaustive")
				if same != want {
					err = fmt.Errorf("k=%d: canonical codes of %q and %q are equal=%v, but %q is the reverse complement of %q (obiseq and reference tables agree on that): equal=%v expected", k, w1, w2, same, rc1, w1, want)
					return
				}
			}
		}
	})
	if !out.Completed {
		return fmt.Errorf("obikmer table check k=%d: %v\n%s", k, out, out.Stack)
	}
	return err
}
