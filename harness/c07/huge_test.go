package c07

import (
	"fmt"
	"strings"
	"testing"

	"git.metabarcoding.org/obitools/obitools4/obitools4/pkg/obioptions"
	"pgregory.net/rapid"

	"verifharness/internal/evid"
)

// The same laws on chromosome-sized sequences (beyond every pool, buffer and
// possible parallelisation threshold), under several settings of the global
// worker count.  The case stays small: the sequence is a repeated unit plus a tail.
type hugeCase struct {
	Unit    string `json:"unit"`
	N       int    `json:"n"`
	Qual    bool   `json:"qual"`
	Start   int    `json:"start"`
	Len     int    `json:"len"`
	MaxCPU  int    `json:"max_cpu"`
	MismPos []int  `json:"mism_pos"`
}

func init() {
	evid.Reg("laws_huge", checkHuge)
	evid.Tests(evid.Spec{Name: "TestPropHugeLaws", Kind: "rapid", Quick: 48, Thorough: 1200, QuickShards: 8, ThoroughShards: 16})
}

func (c hugeCase) law() lawCase {
	seq := strings.Repeat(c.Unit, c.N/len(c.Unit)+1)[:c.N]
	var q []byte
	if c.Qual {
		q = make([]byte, c.N)
		for i := range q {
			q[i] = byte(1 + (i*7+i/251)%93)
		}
	}
	var mism map[string]int
	if len(c.MismPos) > 0 {
		mism = map[string]int{}
		for j, p := range c.MismPos {
			mism[fmt.Sprintf("(A:%02d)->(C:%02d)", j%40, 50+j%40)] = 1 + p%c.N
		}
	}
	return lawCase{Obj: spec{Seq: seq, Qual: q, Mism: mism}, Start: c.Start % c.N, Len: 1 + (c.Len-1)%c.N}
}

func checkHuge(c hugeCase) error {
	if len(c.Unit) == 0 || c.N < 1 {
		return nil
	}
	old := obioptions.CLIMaxCPU()
	defer obioptions.SetMaxCPU(old)
	if c.MaxCPU > 0 {
		obioptions.SetMaxCPU(c.MaxCPU)
	}
	if err := checkLaws(c.law()); err != nil {
		return fmt.Errorf("sequence of %d symbols (unit %q repeated), max-cpu %d: %v", c.N, c.Unit, c.MaxCPU, clipErr(err))
	}
	return nil
}

func clipErr(err error) string {
	s := err.Error()
	if len(s) > 1500 {
		return s[:700] + " … " + s[len(s)-700:]
	}
	return s
}

func TestPropHugeLaws(t *testing.T) {
	rapid.Check(t, func(rt *rapid.T) {
		c := hugeCase{
			Unit:   genSeq(rt, "unit", rapid.SampledFrom([]int{7, 61, 97, 251}).Draw(rt, "unit_len")),
			N:      rapid.IntRange(1<<20, 1<<20+300000).Draw(rt, "n"),
			Qual:   rapid.Bool().Draw(rt, "qual"),
			MaxCPU: rapid.SampledFrom([]int{0, 1, 2, 3, 5, 6, 7, 12, 16}).Draw(rt, "max_cpu"),
		}
		c.Start = rapid.IntRange(0, c.N-1).Draw(rt, "start")
		c.Len = rapid.IntRange(1, c.N).Draw(rt, "len")
		for i := rapid.IntRange(0, 4).Draw(rt, "nmism"); i > 0; i-- {
			c.MismPos = append(c.MismPos, rapid.IntRange(0, c.N-1).Draw(rt, "mism_pos"))
		}
		evid.Eval("laws_huge", evid.Hash(fmt.Sprintf("%+v", c)), c.N%2 == 1, c, "law:longer_than_1Mi")
		if err := checkHuge(c); err != nil {
			evid.Fail(rt, "laws_huge", c, err)
		}
	})
}
