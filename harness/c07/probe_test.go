package c07

import (
	"fmt"
	"runtime"
	"testing"

	"git.metabarcoding.org/obitools/obitools4/obitools4/pkg/obiseq"
)

func TestProbe(t *testing.T) {
	runtime.GOMAXPROCS(1)
	// 1. pointer-to-field aliasing through SetQualities
	a := obiseq.NewBioSequenceWithQualities("a", []byte("acgtacgtac"), "", []byte{1, 2, 3, 4, 5, 6, 7, 8, 9, 10})
	b := obiseq.NewBioSequenceWithQualities("b", []byte("ttttt"), "", []byte{1, 2, 3, 4, 5})
	b.Recycle()
	a.SetQualities([]byte{11, 12, 13, 14, 15, 16, 17, 18, 19, 20})
	fmt.Println("a quals before copy", a.Qualities())
	c := a.Copy()
	fmt.Println("a quals after copy ", a.Qualities(), "c", c.String(), c.Qualities())

	// 2. revcomp cache
	x := obiseq.NewBioSequence("x", []byte("aaccg"), "")
	r := x.ReverseComplement(false)
	fmt.Println("r", r.String())
	x.SetSequence([]byte("tttttttt"))
	rr := r.ReverseComplement(false)
	fmt.Println("rc(r) after x mutated:", rr.String(), rr == x)
	r2 := r.ReverseComplement(true)
	fmt.Println("rc inplace(r):", r2.String(), "r now", r.String(), r2 == r)

	// 3. F6
	m := obiseq.NewBioSequence("m", []byte("acgtacgtacgtacgtacgtacgtacgtac"), "")
	m.SetAttribute("pairing_mismatches", map[string]int{"(A:10)->(G:34)": 15, "(C:10)->(G:30)": 5, "(T:10)->(G:30)": 25})
	s, _ := m.Subsequence(10, 20, false)
	fmt.Println("sub", s.String(), s.Annotations())
	sc, _ := m.Subsequence(20, 5, true)
	fmt.Println("subcirc", sc.String(), sc.Annotations())
	mr := m.ReverseComplement(false)
	fmt.Println("rc", mr.String(), mr.Annotations())
	mrr := mr.ReverseComplement(false)
	fmt.Println("rcrc", mrr.String(), mrr.Annotations(), mrr == m)
}
