package c07

// Stateful model of the ANNOTATION side of "copies, subsequences and reverse
// complements share no mutable state with their source".
//
// The annotation map of a sequence holds values of many dynamic Go types: scalars,
// plain maps and slices, NAMED map and slice types defined elsewhere in the code
// base (obiseq.StatsOnValues = the merged_* statistics produced in memory by
// StatsOn / StatsPlusOne / Merge, obiseq.Annotation, obiseq.Quality...), maps keyed
// by integers (the reference index of obirefidx/obitag), nested containers (what a
// JSON header or a Lua table produces).  A derived object must own a copy of every
// one of them, at every depth.
//
// The case is a list of operations: new object, SetAttribute of a container of one
// of the types below, statistics computed through the real API (StatsOn,
// StatsPlusOne, Merge in place or not), derivations (Copy, ReverseComplement(false),
// Subsequence linear/circular, Merge(inplace=false)), in-place updates of a
// container reached through GetAttribute (element replaced, key added, key deleted,
// at any depth), scalar updates, Recycle.  The model holds, for every live object,
// independent values of the same types; after EVERY operation EVERY live object
// must render like its model (sequence, qualities, all annotations in both
// directions).
//
// Domain decisions
//   - nil annotation values and pointers are not generated (no producer in the code
//     base stores them; what a copy should do with a pointer is not decided by the
//     statement).
//   - the type of a container is not compared (StatsOn legitimately converts a
//     map[string]interface{} into StatsOnValues), only its content, rendered with
//     fmt (%v: maps in key order).
//   - Merge is used as a producer of statistics and as a derivation
//     (inplace=false leaves the receiver untouched); its result is modelled after its
//     documentation and code: count = sum, merged_k = statistics of both sides,
//     other attributes kept only when both sides agree, qualities dropped.
//   - attribute values the statistics are computed on are strings or integers
//     (StatsPlusOne is fatal on anything else by design).

import (
	"encoding/json"
	"fmt"
	"reflect"
	"sort"
	"strings"
	"testing"

	"git.metabarcoding.org/obitools/obitools4/obitools4/pkg/obiseq"
	"pgregory.net/rapid"

	"verifharness/internal/evid"
	"verifharness/internal/fatal"
	"verifharness/internal/gen"
	"verifharness/internal/ref"
)

func init() {
	evid.Reg("annot", checkAnnot)
	evid.Tests(evid.Spec{Name: "TestPropAnnotModel", Kind: "rapid", Quick: 16000, Thorough: 480000, QuickShards: 4, ThoroughShards: 16})
	evid.Note("rule_annot", "annot: the case is a generated list of operations on up to 9 live objects: new (scalars, count, containers), SetAttribute of a container of one of 27 dynamic types (plain and NAMED maps/slices: StatsOnValues, Annotation, Quality, harness-named; int-keyed maps; nested maps of maps / slices of maps / maps of slices, interface-typed trees, array of slices; sizes 0..12), statistics through the real API (StatsOn, StatsPlusOne, Merge inplace true/false over 1-3 keys, merged_* preset in the three shapes a file or the memory gives), derivations (Copy, ReverseComplement(false), Subsequence linear/circular, Merge(inplace=false)), in-place container updates through GetAttribute at any depth (replace element, add key, delete key), scalar SetAttribute/DeleteAttribute/SetCount, ReverseComplement(true), Recycle. Oracle: independent model values of the same types; after every operation every live object's sequence, qualities and complete annotation map (both directions, content rendered with fmt) must equal its model. Non-trivial: a container was updated in place (directly or by StatsPlusOne/Merge) while another live object held a copy of that very container (same lineage: obtained through a derivation). Distinct = hash of the whole case.")
}

// ------------------------------------------------------------------ container types

type namedInts []int
type namedStrMap map[string]string
type namedNested map[string][]int

type lcg struct{ x uint32 }

func (r *lcg) next(n int) int {
	r.x = r.x*1664525 + 1013904223
	if n <= 0 {
		return 0
	}
	return int((r.x >> 8) % uint32(n))
}

func (r *lcg) key(i int) string { return fmt.Sprintf("%c%d", 'a'+byte(r.next(4)), i) }

type contType struct {
	name string
	mk   func(r *lcg, n int) any
}

func mkIntMap(r *lcg, n int) map[string]int {
	m := make(map[string]int, n)
	for i := 0; i < n; i++ {
		m[r.key(i)] = 1 + r.next(9)
	}
	return m
}

func mkInts(r *lcg, n int) []int {
	s := make([]int, n)
	for i := range s {
		s[i] = r.next(50)
	}
	return s
}

func mkAnyMap(r *lcg, n int, depth int) map[string]interface{} {
	m := make(map[string]interface{}, n)
	for i := 0; i < n; i++ {
		m[r.key(i)] = mkAny(r, depth)
	}
	return m
}

func mkAny(r *lcg, depth int) interface{} {
	k := r.next(9)
	if depth <= 0 && k >= 4 {
		k = r.next(4)
	}
	switch k {
	case 0:
		return r.next(100)
	case 1:
		return "v" + fmt.Sprint(r.next(10))
	case 2:
		return float64(r.next(20)) + 0.25
	case 3:
		return r.next(2) == 0
	case 4:
		return mkAnyMap(r, 1+r.next(3), depth-1)
	case 5:
		n := 1 + r.next(3)
		s := make([]interface{}, n)
		for i := range s {
			s[i] = mkAny(r, depth-1)
		}
		return s
	case 6:
		return mkIntMap(r, 1+r.next(3))
	case 7:
		return mkInts(r, 1+r.next(3))
	default:
		return obiseq.StatsOnValues(mkIntMap(r, 1+r.next(3)))
	}
}

var contTypes = []contType{
	{"map[string]int", func(r *lcg, n int) any { return mkIntMap(r, n) }},
	{"obiseq.StatsOnValues", func(r *lcg, n int) any { return obiseq.StatsOnValues(mkIntMap(r, n)) }},
	{"map[string]interface{}(int)", func(r *lcg, n int) any {
		m := make(map[string]interface{}, n)
		for k, v := range mkIntMap(r, n) {
			m[k] = v
		}
		return m
	}},
	{"map[string]string", func(r *lcg, n int) any {
		m := make(map[string]string, n)
		for i := 0; i < n; i++ {
			m[r.key(i)] = "v" + fmt.Sprint(r.next(10))
		}
		return m
	}},
	{"named map[string]string", func(r *lcg, n int) any {
		m := make(namedStrMap, n)
		for i := 0; i < n; i++ {
			m[r.key(i)] = "v" + fmt.Sprint(r.next(10))
		}
		return m
	}},
	{"map[int]string", func(r *lcg, n int) any {
		m := make(map[int]string, n)
		for i := 0; i < n; i++ {
			m[i*7+r.next(7)] = "t" + fmt.Sprint(r.next(10))
		}
		return m
	}},
	{"map[string]float64", func(r *lcg, n int) any {
		m := make(map[string]float64, n)
		for i := 0; i < n; i++ {
			m[r.key(i)] = float64(r.next(40)) / 4
		}
		return m
	}},
	{"map[string]bool", func(r *lcg, n int) any {
		m := make(map[string]bool, n)
		for i := 0; i < n; i++ {
			m[r.key(i)] = r.next(2) == 0
		}
		return m
	}},
	{"[]int", func(r *lcg, n int) any { return mkInts(r, n) }},
	{"named []int", func(r *lcg, n int) any { return namedInts(mkInts(r, n)) }},
	{"[]string", func(r *lcg, n int) any {
		s := make([]string, n)
		for i := range s {
			s[i] = "p" + fmt.Sprint(r.next(10))
		}
		return s
	}},
	{"[]float64", func(r *lcg, n int) any {
		s := make([]float64, n)
		for i := range s {
			s[i] = float64(r.next(40)) / 4
		}
		return s
	}},
	{"[]bool", func(r *lcg, n int) any {
		s := make([]bool, n)
		for i := range s {
			s[i] = r.next(2) == 0
		}
		return s
	}},
	{"[]byte", func(r *lcg, n int) any {
		s := make([]byte, n)
		for i := range s {
			s[i] = byte(r.next(90))
		}
		return s
	}},
	{"obiseq.Quality", func(r *lcg, n int) any {
		s := make(obiseq.Quality, n)
		for i := range s {
			s[i] = uint8(r.next(90))
		}
		return s
	}},
	{"[]interface{}", func(r *lcg, n int) any {
		s := make([]interface{}, n)
		for i := range s {
			s[i] = mkAny(r, 0)
		}
		return s
	}},
	{"[][]int", func(r *lcg, n int) any {
		s := make([][]int, n)
		for i := range s {
			s[i] = mkInts(r, 1+r.next(3))
		}
		return s
	}},
	{"[]map[string]int", func(r *lcg, n int) any {
		s := make([]map[string]int, n)
		for i := range s {
			s[i] = mkIntMap(r, 1+r.next(3))
		}
		return s
	}},
	{"[]map[string]interface{}", func(r *lcg, n int) any {
		s := make([]map[string]interface{}, n)
		for i := range s {
			s[i] = mkAnyMap(r, 1+r.next(3), 1)
		}
		return s
	}},
	{"map[string][]int", func(r *lcg, n int) any {
		m := make(map[string][]int, n)
		for i := 0; i < n; i++ {
			m[r.key(i)] = mkInts(r, 1+r.next(3))
		}
		return m
	}},
	{"named map[string][]int", func(r *lcg, n int) any {
		m := make(namedNested, n)
		for i := 0; i < n; i++ {
			m[r.key(i)] = mkInts(r, 1+r.next(3))
		}
		return m
	}},
	{"map[string][]string", func(r *lcg, n int) any {
		m := make(map[string][]string, n)
		for i := 0; i < n; i++ {
			m[r.key(i)] = []string{"x" + fmt.Sprint(r.next(10)), "y"}
		}
		return m
	}},
	{"map[string]map[string]int", func(r *lcg, n int) any {
		m := make(map[string]map[string]int, n)
		for i := 0; i < n; i++ {
			m[r.key(i)] = mkIntMap(r, 1+r.next(3))
		}
		return m
	}},
	{"map[string]obiseq.StatsOnValues", func(r *lcg, n int) any {
		m := make(map[string]obiseq.StatsOnValues, n)
		for i := 0; i < n; i++ {
			m[r.key(i)] = obiseq.StatsOnValues(mkIntMap(r, 1+r.next(3)))
		}
		return m
	}},
	{"map[string]interface{}(tree)", func(r *lcg, n int) any { return mkAnyMap(r, n, 2) }},
	{"obiseq.Annotation(tree)", func(r *lcg, n int) any { return obiseq.Annotation(mkAnyMap(r, n, 2)) }},
	{"[2][]int", func(r *lcg, n int) any { return [2][]int{mkInts(r, 1+n), mkInts(r, n)} }},
}

func mkCont(typ, seed, n int) (any, string) {
	t := contTypes[((typ%len(contTypes))+len(contTypes))%len(contTypes)]
	n = ((n % 13) + 13) % 13
	return t.mk(&lcg{uint32(seed)*2654435761 + 17}, n), t.name
}

// ------------------------------------------------------------------ reflection helpers (harness side only)

func isContainerKind(k reflect.Kind) bool {
	return k == reflect.Map || k == reflect.Slice || k == reflect.Array
}

func isContainer(x any) bool {
	return x != nil && isContainerKind(reflect.TypeOf(x).Kind())
}

func deepCloneValue(v reflect.Value) reflect.Value {
	switch v.Kind() {
	case reflect.Map:
		m := reflect.MakeMapWithSize(v.Type(), v.Len())
		it := v.MapRange()
		for it.Next() {
			m.SetMapIndex(it.Key(), deepCloneValue(it.Value()))
		}
		return m
	case reflect.Slice:
		s := reflect.MakeSlice(v.Type(), v.Len(), v.Len())
		for i := 0; i < v.Len(); i++ {
			s.Index(i).Set(deepCloneValue(v.Index(i)))
		}
		return s
	case reflect.Array:
		a := reflect.New(v.Type()).Elem()
		for i := 0; i < v.Len(); i++ {
			a.Index(i).Set(deepCloneValue(v.Index(i)))
		}
		return a
	case reflect.Interface:
		if v.IsNil() {
			return v
		}
		r := reflect.New(v.Type()).Elem()
		r.Set(deepCloneValue(v.Elem()))
		return r
	}
	return v
}

func cloneAny(x any) any {
	if x == nil {
		return nil
	}
	return deepCloneValue(reflect.ValueOf(x)).Interface()
}

func unwrap(v reflect.Value) reflect.Value {
	for v.IsValid() && v.Kind() == reflect.Interface && !v.IsNil() {
		v = v.Elem()
	}
	return v
}

func mod(a, n int) int { return ((a % n) + n) % n }

// wrapAs makes dyn assignable to a slot of static type t (an interface type or dyn's own).
func wrapAs(t reflect.Type, dyn reflect.Value) reflect.Value {
	if t.Kind() == reflect.Interface {
		r := reflect.New(t).Elem()
		r.Set(dyn)
		return r
	}
	return dyn.Convert(t)
}

// changedLeaf returns a value for a slot of static type t that differs from old.
func changedLeaf(t reflect.Type, old reflect.Value, nv int) (reflect.Value, bool) {
	o := unwrap(old)
	if !o.IsValid() || (o.Kind() == reflect.Interface && o.IsNil()) {
		return wrapAs(t, reflect.ValueOf(1000+mod(nv, 50))), true
	}
	d := reflect.New(o.Type()).Elem()
	switch o.Kind() {
	case reflect.Int, reflect.Int8, reflect.Int16, reflect.Int32, reflect.Int64:
		d.SetInt(o.Int() + 1 + int64(mod(nv, 5)))
	case reflect.Uint, reflect.Uint8, reflect.Uint16, reflect.Uint32, reflect.Uint64:
		d.SetUint((o.Uint() + 1 + uint64(mod(nv, 5))) & 0x7f)
	case reflect.Float32, reflect.Float64:
		d.SetFloat(o.Float() + 0.5 + float64(mod(nv, 3)))
	case reflect.String:
		d.SetString(o.String() + "x")
	case reflect.Bool:
		d.SetBool(!o.Bool())
	case reflect.Map:
		if o.Len() == 0 {
			return reflect.Value{}, false
		}
		d.Set(reflect.MakeMap(o.Type()))
	case reflect.Slice:
		if o.Len() == 0 {
			return reflect.Value{}, false
		}
		d.Set(reflect.MakeSlice(o.Type(), 0, 0))
	default:
		return reflect.Value{}, false
	}
	return wrapAs(t, d), true
}

// freshFor builds a value for a new entry of a map whose element type is t.
func freshFor(t reflect.Type, nv int) (reflect.Value, bool) {
	switch t.Kind() {
	case reflect.Interface:
		return wrapAs(t, reflect.ValueOf(2000+mod(nv, 50))), true
	case reflect.Map:
		return reflect.MakeMap(t), true
	case reflect.Slice:
		return reflect.MakeSlice(t, 1, 1), true
	case reflect.Array:
		return reflect.Value{}, false
	}
	return changedLeaf(t, reflect.Zero(t), nv)
}

func sortedKeys(m reflect.Value) []reflect.Value {
	keys := m.MapKeys()
	sort.Slice(keys, func(i, j int) bool {
		return fmt.Sprintf("%T%v", keys[i].Interface(), keys[i].Interface()) < fmt.Sprintf("%T%v", keys[j].Interface(), keys[j].Interface())
	})
	return keys
}

// mutateIn updates the container c IN PLACE, at the place the selectors lead to:
// an element is replaced, a key added or deleted.  It reports the depth at which
// the change was made (0 = nothing could be changed).
func mutateIn(c reflect.Value, sel []int, nv int) int {
	c = unwrap(c)
	s := 0
	var rest []int
	if len(sel) > 0 {
		s, rest = sel[0], sel[1:]
	}
	switch c.Kind() {
	case reflect.Map:
		if c.IsNil() {
			return 0
		}
		keys := sortedKeys(c)
		n := len(keys)
		choice := mod(s, n+2)
		if n == 0 || choice == n {
			var k reflect.Value
			switch c.Type().Key().Kind() {
			case reflect.String:
				k = reflect.ValueOf(fmt.Sprintf("n%d", mod(nv, 5))).Convert(c.Type().Key())
			case reflect.Int:
				k = reflect.ValueOf(100 + mod(nv, 7)).Convert(c.Type().Key())
			default:
				return 0
			}
			old := c.MapIndex(k)
			var v reflect.Value
			var ok bool
			if old.IsValid() {
				v, ok = changedLeaf(c.Type().Elem(), old, nv)
			} else {
				v, ok = freshFor(c.Type().Elem(), nv)
			}
			if !ok {
				return 0
			}
			c.SetMapIndex(k, v)
			return 1
		}
		if choice == n+1 {
			c.SetMapIndex(keys[mod(nv, n)], reflect.Value{})
			return 1
		}
		k := keys[choice]
		e := c.MapIndex(k)
		inner := unwrap(e)
		if inner.Kind() == reflect.Map || inner.Kind() == reflect.Slice {
			if d := mutateIn(inner, rest, nv); d > 0 {
				return d + 1
			}
		}
		v, ok := changedLeaf(c.Type().Elem(), e, nv)
		if !ok {
			return 0
		}
		c.SetMapIndex(k, v)
		return 1
	case reflect.Slice, reflect.Array:
		n := c.Len()
		if n == 0 {
			return 0
		}
		e := c.Index(mod(s, n))
		inner := unwrap(e)
		if inner.Kind() == reflect.Map || inner.Kind() == reflect.Slice {
			if d := mutateIn(inner, rest, nv); d > 0 {
				return d + 1
			}
		}
		if !e.CanSet() {
			return 0
		}
		v, ok := changedLeaf(e.Type(), e, nv)
		if !ok {
			return 0
		}
		e.Set(v)
		return 1
	}
	return 0
}

// ------------------------------------------------------------------ case

type contSpec struct {
	Slot string `json:"slot"`
	T    int    `json:"t"`
	S    int    `json:"s"`
	N    int    `json:"n"`
}

type aop struct {
	K       string         `json:"k"`
	I       int            `json:"i,omitempty"`
	J       int            `json:"j,omitempty"`
	Seq     string         `json:"seq,omitempty"`   // new
	Qual    bool           `json:"qual,omitempty"`  // new
	Attr    map[string]any `json:"attr,omitempty"`  // new: scalar attributes
	Count   int            `json:"count,omitempty"` // new, setcount
	Conts   []contSpec     `json:"conts,omitempty"` // new
	Cont    *contSpec      `json:"cont,omitempty"`  // setc, preset (Slot = statistics key)
	Inplace bool           `json:"inplace,omitempty"`
	Circ    bool           `json:"circ,omitempty"`
	Start   int            `json:"start,omitempty"`
	Len     int            `json:"len,omitempty"`
	Keys    []string       `json:"keys,omitempty"` // merge: statistics keys; statson / plusone: Keys[0]
	Slot    string         `json:"slot,omitempty"` // mutc, delattr: attribute name ("" = pick with Pick)
	Pick    int            `json:"pick,omitempty"`
	Sel     []int          `json:"sel,omitempty"` // mutc
	NV      int            `json:"nv,omitempty"`  // mutc
	Key     string         `json:"key,omitempty"` // setattr
	Val     any            `json:"val,omitempty"` // setattr
}

func (o aop) String() string {
	b, _ := json.Marshal(o)
	return clip(string(b))
}

type annotCase struct {
	Ops []aop `json:"ops"`
}

var statKeys = []string{"sample", "direction", "tag"}
var contSlots = []string{"c0", "c1", "c2", "obiclean_weight", "ref_index"}

func statKey(k string) string {
	for _, s := range statKeys {
		if s == k {
			return k
		}
	}
	return statKeys[0]
}

func contSlot(k string) string {
	for _, s := range contSlots {
		if s == k {
			return k
		}
	}
	return contSlots[0]
}

const mergedPrefix = "merged_"

// ------------------------------------------------------------------ model

type aobj struct {
	real *obiseq.BioSequence
	seq  string
	qual []byte
	ann  map[string]any // independent values, same dynamic types as what was given to the real object
	lin  map[string]int // lineage of container-valued attributes
	desc string
}

func (o *aobj) cloneModel() *aobj {
	c := &aobj{seq: o.seq, ann: map[string]any{}, lin: map[string]int{}}
	if o.qual != nil {
		c.qual = append([]byte{}, o.qual...)
	}
	for k, v := range o.ann {
		c.ann[k] = cloneAny(v)
	}
	for k, v := range o.lin {
		c.lin[k] = v
	}
	return c
}

func (o *aobj) count() int {
	if c, ok := o.ann["count"].(int); ok {
		return c
	}
	return 1
}

func (o *aobj) statValue(key string) string {
	switch v := o.ann[key].(type) {
	case string:
		return v
	case int:
		return fmt.Sprint(v)
	}
	return "NA"
}

func annotCompare(o *aobj) error {
	r := o.real
	if r == nil {
		return fmt.Errorf("object is nil")
	}
	if got := ref.LowerASCII(r.String()); got != o.seq {
		return fmt.Errorf("String() = %q, model %q", clip(got), clip(o.seq))
	}
	if r.HasQualities() != (len(o.qual) > 0) {
		return fmt.Errorf("HasQualities() = %v, model has %d quality values", r.HasQualities(), len(o.qual))
	}
	if len(o.qual) > 0 {
		if q := []byte(r.Qualities()); string(q) != string(o.qual) {
			return fmt.Errorf("Qualities() = %v, model %v", clipBytes(q), clipBytes(o.qual))
		}
	}
	var got map[string]any
	if r.HasAnnotation() {
		got = r.Annotations()
	}
	for k, want := range o.ann {
		x, ok := got[k]
		if !ok {
			return fmt.Errorf("attribute %q is missing, model %v (%T)", k, want, want)
		}
		if g, w := fmt.Sprint(x), fmt.Sprint(want); g != w {
			return fmt.Errorf("attribute %q = %s (%T), model %s (%T)", k, clip(g), x, clip(w), want)
		}
	}
	for k, x := range got {
		if _, ok := o.ann[k]; !ok {
			return fmt.Errorf("unexpected attribute %q = %v (%T), the model has none", k, x, x)
		}
	}
	return nil
}

type annotStats struct {
	nontrivial bool
	classes    map[string]bool
	executed   int
}

func checkAnnot(c annotCase) error {
	_, err := runAnnot(c)
	return err
}

func runAnnot(c annotCase) (st annotStats, err error) {
	st.classes = map[string]bool{}
	out := fatal.Run(func() { err = annotBody(c, &st) })
	if !out.Completed {
		return st, fmt.Errorf("operation list did not complete: %v\n%s", out, out.Stack)
	}
	return st, err
}

func annotHistory(ops []aop) string {
	var b strings.Builder
	for i, o := range ops {
		fmt.Fprintf(&b, "  %d: %s\n", i, o)
	}
	return b.String()
}

func annotBody(c annotCase, st *annotStats) error {
	var live []*aobj
	nextLin := 1
	newLin := func() int { nextLin++; return nextLin }
	sel := func(i int) *aobj { return live[mod(i, len(live))] }
	pos := func(x *aobj) int {
		for i, o := range live {
			if o == x {
				return i
			}
		}
		return -1
	}
	// shared reports whether another live object holds a container of that lineage
	shared := func(x *aobj, slot string) bool {
		l, ok := x.lin[slot]
		if !ok {
			return false
		}
		for _, o := range live {
			if o == x {
				continue
			}
			for _, ol := range o.lin {
				if ol == l {
					return true
				}
			}
		}
		return false
	}
	touch := func(x *aobj, slot, how string) {
		if shared(x, slot) {
			st.nontrivial = true
			st.classes["annot:inplace_update_of_a_copied_container:"+how] = true
			st.classes[fmt.Sprintf("annot:inplace_update_of_a_copied:%T", x.ann[slot])] = true
		}
	}
	setCont := func(x *aobj, slot string, cs contSpec) {
		v, name := mkCont(cs.T, cs.S, cs.N)
		m, _ := mkCont(cs.T, cs.S, cs.N)
		x.real.SetAttribute(slot, v)
		x.ann[slot] = m
		x.lin[slot] = newLin()
		st.classes["annot:type:"+name] = true
	}
	// model of StatsOn followed by an update: creates the slot when absent; a
	// map[string]interface{} (file shape) is replaced by a converted copy, which the
	// library stores with the update
	ensureStats := func(x *aobj, key string) map[string]int {
		slot := mergedPrefix + key
		switch m := x.ann[slot].(type) {
		case map[string]int:
			return m
		case obiseq.StatsOnValues:
			return m
		case map[string]interface{}:
			conv := make(map[string]int, len(m))
			for k, v := range m {
				conv[k] = v.(int)
			}
			x.ann[slot] = conv
			x.lin[slot] = newLin()
			return conv
		}
		m := map[string]int{x.statValue(key): x.count()}
		x.ann[slot] = m
		x.lin[slot] = newLin()
		return m
	}
	inPlaceStats := func(x *aobj, slot string) bool {
		switch x.ann[slot].(type) {
		case map[string]int, obiseq.StatsOnValues:
			return true
		}
		return false
	}
	descOf := func(key string) obiseq.StatsOnDescription { return obiseq.MakeStatsOnDescription(key) }

	for idx, o := range c.Ops {
		fail := func(format string, args ...any) error {
			return fmt.Errorf("op %d %s: %s", idx, o, fmt.Sprintf(format, args...))
		}
		if o.K != "new" && len(live) == 0 {
			continue
		}
		var x, y *aobj
		if len(live) > 0 {
			x, y = sel(o.I), sel(o.J)
		}
		derive := func(r *obiseq.BioSequence, m *aobj, how string) {
			m.real = r
			m.desc = fmt.Sprintf("%s of #%d by op %d", how, pos(x), idx)
			for slot := range m.lin {
				st.classes["annot:derived_with_container:"+how] = true
				if strings.HasPrefix(slot, mergedPrefix) {
					st.classes["annot:derived_with_statistics:"+how] = true
				}
			}
			live = append(live, m)
		}
		switch o.K {
		case "new":
			if len(o.Seq) == 0 {
				continue
			}
			n := len(o.Seq)
			m := &aobj{seq: ref.LowerASCII(o.Seq), ann: map[string]any{}, lin: map[string]int{}, desc: fmt.Sprintf("new by op %d", idx)}
			if o.Qual {
				m.qual = make([]byte, n)
				for i := range m.qual {
					m.qual[i] = byte(1 + (i*7+idx)%90)
				}
				m.real = obiseq.NewBioSequenceWithQualities(fmt.Sprintf("a%d", idx), []byte(o.Seq), "", append([]byte(nil), m.qual...))
			} else {
				m.real = obiseq.NewBioSequence(fmt.Sprintf("a%d", idx), []byte(o.Seq), "")
			}
			keys := make([]string, 0, len(o.Attr))
			for k := range o.Attr {
				keys = append(keys, k)
			}
			sort.Strings(keys)
			for _, k := range keys {
				v := normScalar(o.Attr[k])
				m.real.SetAttribute(statKey(k), v)
				m.ann[statKey(k)] = v
			}
			if o.Count > 0 {
				m.real.SetCount(o.Count)
				m.ann["count"] = o.Count
			}
			for _, cs := range o.Conts {
				setCont(m, contSlot(cs.Slot), cs)
			}
			live = append(live, m)
		case "copy":
			derive(x.real.Copy(), x.cloneModel(), "Copy")
		case "rc":
			if o.Inplace {
				x.real.ReverseComplement(true)
				x.seq = ref.LowerASCII(ref.RevComp(x.seq))
				x.qual = ref.ReverseBytes(x.qual)
			} else {
				m := x.cloneModel()
				m.seq = ref.LowerASCII(ref.RevComp(x.seq))
				m.qual = ref.ReverseBytes(x.qual)
				derive(x.real.ReverseComplement(false), m, "ReverseComplement(false)")
			}
		case "sub":
			n := len(x.seq)
			start := mod(o.Start, n)
			span := n
			if !o.Circ {
				span = n - start
			}
			length := 1 + mod(o.Len-1, span)
			r, e := x.real.Subsequence(start, start+length, o.Circ)
			if e != nil {
				return fail("Subsequence(%d,%d,%v) on #%d of length %d: error %v", start, start+length, o.Circ, pos(x), n, e)
			}
			m := x.cloneModel()
			m.seq = ref.CircularWindow(x.seq, start, length)
			m.qual = ref.CircularWindowBytes(x.qual, start, length)
			derive(r, m, "Subsequence")
		case "setc":
			if o.Cont == nil {
				continue
			}
			setCont(x, contSlot(o.Cont.Slot), *o.Cont)
		case "preset":
			// merged_<key> in one of the shapes it has in memory or after a file round trip
			if o.Cont == nil {
				continue
			}
			slot := mergedPrefix + statKey(o.Cont.Slot)
			cs := *o.Cont
			cs.T = mod(cs.T, 3) // map[string]int, StatsOnValues, map[string]interface{} of ints
			setCont(x, slot, cs)
		case "statson", "plusone":
			key := statKeys[0]
			if len(o.Keys) > 0 {
				key = statKey(o.Keys[0])
			}
			slot := mergedPrefix + key
			_, had := x.ann[slot]
			if o.K == "statson" {
				x.real.StatsOn(descOf(key), "NA")
				if !had {
					ensureStats(x, key)
					st.classes["annot:statistics_created_by_StatsOn"] = true
				}
			} else {
				if had && inPlaceStats(x, slot) {
					touch(x, slot, "StatsPlusOne")
				}
				// the model reads y before the update (x may be y)
				val, cnt := y.statValue(key), y.count()
				x.real.StatsPlusOne(descOf(key), y.real, "NA")
				ensureStats(x, key)[val] += cnt
			}
		case "merge":
			if x == y || len(live) < 2 {
				continue
			}
			keys := []string{}
			seen := map[string]bool{}
			for _, k := range o.Keys {
				if k = statKey(k); !seen[k] {
					seen[k] = true
					keys = append(keys, k)
				}
			}
			descs := obiseq.StatsOnDescriptions{}
			for _, k := range keys {
				descs[k] = descOf(k)
			}
			target := x
			if !o.Inplace {
				target = x.cloneModel()
			} else {
				for _, k := range keys {
					if inPlaceStats(x, mergedPrefix+k) {
						touch(x, mergedPrefix+k, "Merge(inplace)")
					}
				}
			}
			cx, cy := x.count(), y.count()
			r := x.real.Merge(y.real, "NA", o.Inplace, descs)
			// model
			target.qual = nil
			for _, k := range keys {
				if _, has := y.ann[mergedPrefix+k]; has {
					ts := ensureStats(target, k)
					switch m := y.ann[mergedPrefix+k].(type) {
					case map[string]int:
						for kk, v := range m {
							ts[kk] += v
						}
					case obiseq.StatsOnValues:
						for kk, v := range m {
							ts[kk] += v
						}
					case map[string]interface{}:
						for kk, v := range m {
							ts[kk] += v.(int)
						}
					}
				} else {
					ensureStats(target, k)[y.statValue(k)] += cy
				}
			}
			for k, va := range target.ann {
				if strings.HasPrefix(k, mergedPrefix) {
					continue
				}
				vm, ok := y.ann[k]
				if !ok || !reflect.DeepEqual(va, vm) {
					delete(target.ann, k)
					delete(target.lin, k)
				}
			}
			target.ann["count"] = cx + cy
			if o.Inplace {
				if r != x.real {
					return fail("Merge(inplace=true) did not return its receiver")
				}
			} else {
				if r == x.real {
					return fail("Merge(inplace=false) returned its receiver")
				}
				derive(r, target, "Merge(inplace=false)")
			}
		case "mutc":
			// in-place update of a container reached through GetAttribute
			var slots []string
			for k, v := range x.ann {
				if isContainer(v) {
					slots = append(slots, k)
				}
			}
			if len(slots) == 0 {
				continue
			}
			sort.Strings(slots)
			slot := slots[mod(o.Pick, len(slots))]
			if _, ok := x.ann[o.Slot]; ok && isContainer(x.ann[o.Slot]) {
				slot = o.Slot
			}
			rv, ok := x.real.GetAttribute(slot)
			if !ok {
				return fail("GetAttribute(%q) on #%d (%s): absent, model %v", slot, pos(x), x.desc, x.ann[slot])
			}
			before := fmt.Sprint(x.ann[slot])
			dm := mutateIn(reflect.ValueOf(x.ann[slot]), o.Sel, o.NV)
			dr := mutateIn(reflect.ValueOf(rv), o.Sel, o.NV)
			if dm != dr {
				return fail("in-place update of attribute %q of #%d (%s) reached depth %d on the object (%v) and %d on the model (%v)", slot, pos(x), x.desc, dr, rv, dm, x.ann[slot])
			}
			if dm == 0 || fmt.Sprint(x.ann[slot]) == before {
				continue
			}
			touch(x, slot, "element")
			if dm > 1 && shared(x, slot) {
				st.classes["annot:inplace_update_of_a_copied_container:nested_level"] = true
			}
		case "setattr":
			v := normScalar(o.Val)
			switch v.(type) {
			case string, int:
			default:
				continue
			}
			x.real.SetAttribute(statKey(o.Key), v)
			x.ann[statKey(o.Key)] = v
		case "setcount":
			n := max(o.Count, 1)
			x.real.SetCount(n)
			x.ann["count"] = n
		case "delattr":
			var keys []string
			for k := range x.ann {
				keys = append(keys, k)
			}
			if len(keys) == 0 {
				continue
			}
			sort.Strings(keys)
			k := keys[mod(o.Pick, len(keys))]
			x.real.DeleteAttribute(k)
			delete(x.ann, k)
			delete(x.lin, k)
		case "recycle":
			x.real.Recycle()
			i := pos(x)
			live = append(live[:i:i], live[i+1:]...)
		default:
			continue
		}
		st.executed++
		for i, ob := range live {
			if e := annotCompare(ob); e != nil {
				return fail("afterwards live object #%d (%s) no longer equals its model: %v\nhistory:\n%s", i, ob.desc, e, annotHistory(c.Ops[:idx+1]))
			}
		}
	}
	return nil
}

// ------------------------------------------------------------------ generator

func genContSpec(t *rapid.T, slot string) contSpec {
	return contSpec{
		Slot: slot,
		T:    rapid.IntRange(0, len(contTypes)-1).Draw(t, "ctype"),
		S:    rapid.IntRange(0, 1<<20).Draw(t, "cseed"),
		N:    rapid.SampledFrom([]int{0, 1, 1, 2, 2, 3, 3, 4, 5, 9, 12}).Draw(t, "csize"),
	}
}

func genStatScalar(t *rapid.T) any {
	if rapid.IntRange(0, 3).Draw(t, "sv_int") == 0 {
		return rapid.IntRange(0, 3).Draw(t, "sv_i")
	}
	return rapid.SampledFrom([]string{"s1", "s2", "s3", "s4", ""}).Draw(t, "sv_s")
}

var annotKinds = func() []string {
	w := []struct {
		k string
		n int
	}{{"new", 4}, {"copy", 6}, {"rc_cp", 5}, {"rc_in", 1}, {"sub", 5}, {"setc", 7}, {"preset", 2}, {"statson", 4}, {"plusone", 6},
		{"merge_in", 4}, {"merge_cp", 4}, {"mutc", 10}, {"setattr", 3}, {"setcount", 1}, {"delattr", 1}, {"recycle", 5}, {"m_alias", 12}}
	var ks []string
	for _, e := range w {
		for i := 0; i < e.n; i++ {
			ks = append(ks, e.k)
		}
	}
	return ks
}()

func genAnnot(t *rapid.T, maxOps int) annotCase {
	nops := gen.Len(t, "nops", 3, maxOps)
	var ops []aop
	nlive := 0
	push := func(o aop) {
		// mirrors which operations annotBody executes and what they do to the number of live objects
		switch o.K {
		case "new":
			nlive++
		case "copy", "sub":
			nlive++
		case "rc":
			if !o.Inplace {
				nlive++
			}
		case "merge":
			if nlive < 2 || mod(o.I, nlive) == mod(o.J, nlive) {
				break
			}
			if !o.Inplace {
				nlive++
			}
		case "recycle":
			nlive--
		}
		ops = append(ops, o)
	}
	pick := func(label string) int { return rapid.IntRange(0, nlive-1).Draw(t, label) }
	genNew := func() aop {
		o := aop{K: "new", Seq: gen.Seq(t, "seq", rapid.IntRange(1, 24).Draw(t, "n"), gen.ACGT), Qual: rapid.IntRange(0, 2).Draw(t, "qual") == 0}
		for _, k := range statKeys {
			if rapid.IntRange(0, 2).Draw(t, "has_"+k) > 0 {
				if o.Attr == nil {
					o.Attr = map[string]any{}
				}
				o.Attr[k] = genStatScalar(t)
			}
		}
		if rapid.IntRange(0, 2).Draw(t, "has_count") == 0 {
			o.Count = rapid.IntRange(1, 5).Draw(t, "count")
		}
		for i := rapid.IntRange(0, 2).Draw(t, "nconts"); i > 0; i-- {
			o.Conts = append(o.Conts, genContSpec(t, rapid.SampledFrom(contSlots).Draw(t, "slot")))
		}
		return o
	}
	genKeys := func() []string {
		n := rapid.IntRange(1, 3).Draw(t, "nkeys")
		var ks []string
		for i := 0; i < n; i++ {
			ks = append(ks, rapid.SampledFrom(statKeys).Draw(t, "skey"))
		}
		return ks
	}
	genSel := func() []int {
		return rapid.SliceOfN(rapid.IntRange(0, 13), 1, 3).Draw(t, "sel")
	}
	genDerive := func(i int) aop {
		switch rapid.IntRange(0, 3).Draw(t, "derive") {
		case 0:
			return aop{K: "copy", I: i}
		case 1:
			return aop{K: "rc", I: i}
		case 2:
			return aop{K: "sub", I: i, Start: rapid.IntRange(0, 23).Draw(t, "start"), Len: rapid.IntRange(1, 24).Draw(t, "wlen"), Circ: rapid.Bool().Draw(t, "circ")}
		default:
			if nlive < 2 {
				return aop{K: "copy", I: i}
			}
			j := rapid.IntRange(0, nlive-2).Draw(t, "j")
			if j >= i {
				j++
			}
			return aop{K: "merge", I: i, J: j, Keys: genKeys()}
		}
	}
	for len(ops) < nops {
		if nlive == 0 {
			push(genNew())
			continue
		}
		k := rapid.SampledFrom(annotKinds).Draw(t, "kind")
		if nlive >= 9 && (k == "new" || k == "copy" || k == "rc_cp" || k == "sub" || k == "merge_cp" || k == "m_alias") {
			k = "recycle"
		}
		switch k {
		case "new":
			push(genNew())
		case "copy":
			push(aop{K: "copy", I: pick("i")})
		case "rc_cp":
			push(aop{K: "rc", I: pick("i")})
		case "rc_in":
			push(aop{K: "rc", I: pick("i"), Inplace: true})
		case "sub":
			push(aop{K: "sub", I: pick("i"), Start: rapid.IntRange(0, 23).Draw(t, "start"), Len: rapid.IntRange(1, 24).Draw(t, "wlen"), Circ: rapid.Bool().Draw(t, "circ")})
		case "setc":
			cs := genContSpec(t, rapid.SampledFrom(contSlots).Draw(t, "slot"))
			push(aop{K: "setc", I: pick("i"), Cont: &cs})
		case "preset":
			cs := genContSpec(t, rapid.SampledFrom(statKeys).Draw(t, "skey"))
			push(aop{K: "preset", I: pick("i"), Cont: &cs})
		case "statson":
			push(aop{K: "statson", I: pick("i"), Keys: genKeys()[:1]})
		case "plusone":
			push(aop{K: "plusone", I: pick("i"), J: pick("j"), Keys: genKeys()[:1]})
		case "merge_in", "merge_cp":
			push(aop{K: "merge", I: pick("i"), J: pick("j"), Inplace: k == "merge_in", Keys: genKeys()})
		case "mutc":
			push(aop{K: "mutc", I: pick("i"), Pick: rapid.IntRange(0, 7).Draw(t, "pick"), Sel: genSel(), NV: rapid.IntRange(0, 60).Draw(t, "nv")})
		case "setattr":
			push(aop{K: "setattr", I: pick("i"), Key: rapid.SampledFrom(statKeys).Draw(t, "skey"), Val: genStatScalar(t)})
		case "setcount":
			push(aop{K: "setcount", I: pick("i"), Count: rapid.IntRange(1, 5).Draw(t, "count")})
		case "delattr":
			push(aop{K: "delattr", I: pick("i"), Pick: rapid.IntRange(0, 7).Draw(t, "pick")})
		case "recycle":
			push(aop{K: "recycle", I: pick("i")})
		case "m_alias":
			// a container or statistics on an object; a derivation; an update of that
			// very attribute on the source or on the derived object (or a recycling)
			i := pick("i")
			slot := ""
			skey := rapid.SampledFrom(statKeys).Draw(t, "skey")
			how := rapid.IntRange(0, 6).Draw(t, "produce") % 5 // 0 (a container of any type) twice as often
			switch how {
			case 0:
				cs := genContSpec(t, rapid.SampledFrom(contSlots).Draw(t, "slot"))
				cs.N = max(cs.N, 1)
				slot = cs.Slot
				push(aop{K: "setc", I: i, Cont: &cs})
			case 1:
				push(aop{K: "statson", I: i, Keys: []string{skey}})
			case 2:
				push(aop{K: "plusone", I: i, J: pick("j"), Keys: []string{skey}})
			case 3:
				if nlive >= 2 {
					j := rapid.IntRange(0, nlive-2).Draw(t, "j")
					if j >= i {
						j++
					}
					push(aop{K: "merge", I: i, J: j, Inplace: true, Keys: []string{skey}})
				} else {
					push(aop{K: "statson", I: i, Keys: []string{skey}})
				}
			default:
				cs := genContSpec(t, skey)
				cs.N = max(cs.N, 1)
				push(aop{K: "preset", I: i, Cont: &cs})
			}
			if how > 0 {
				slot = mergedPrefix + skey
			}
			d := genDerive(i)
			push(d)
			di := nlive - 1 // the derived object is the last live one
			who := i
			if rapid.Bool().Draw(t, "on_derived") {
				who = di
			}
			for n := rapid.IntRange(1, 2).Draw(t, "nupd"); n > 0; n-- {
				switch u := rapid.IntRange(0, 5).Draw(t, "update"); {
				case how > 0 && u <= 1:
					push(aop{K: "plusone", I: who, J: pick("j"), Keys: []string{skey}})
				case how > 0 && u == 2 && nlive >= 2:
					j := rapid.IntRange(0, nlive-2).Draw(t, "j")
					if j >= who {
						j++
					}
					push(aop{K: "merge", I: who, J: j, Inplace: true, Keys: []string{skey}})
				default:
					push(aop{K: "mutc", I: who, Slot: slot, Sel: genSel(), NV: rapid.IntRange(0, 60).Draw(t, "nv")})
				}
			}
		}
	}
	return annotCase{ops}
}

func TestPropAnnotModel(t *testing.T) {
	maxOps := evid.Pick(24, 48)
	rapid.Check(t, func(rt *rapid.T) {
		c := genAnnot(rt, maxOps)
		st, err := runAnnot(c)
		cl := make([]string, 0, len(st.classes)+8)
		for k := range st.classes {
			cl = append(cl, k)
		}
		seen := map[string]bool{}
		for _, o := range c.Ops {
			if !seen[o.K] {
				seen[o.K] = true
				cl = append(cl, "annot:op:"+o.K)
			}
		}
		b, _ := json.Marshal(c)
		evid.Eval("annot", evid.Hash(b), st.nontrivial, c, cl...)
		evid.Class("annot:operations_executed", int64(st.executed))
		if err != nil {
			evid.Fail(rt, "annot", c, err)
		}
	})
}
