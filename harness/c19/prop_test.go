// Property C19 — exact De Bruijn weights and heaviest path; strand-invariant
// canonical k-mers; exact 4-mer tables.
//
// Domain decisions
//
//   - "A single sequence without repeated k-mer is returned unchanged" is checked
//     for sequences without repeated (k-1)-mer: nodes are k-mers and the edges of
//     the graph are inferred from node membership, so a repeated (k-1)-mer
//     legitimately creates a branch or a cycle.
//   - Weights are compared for windows made of a, c, g, t only.  When a sequence
//     carries an ambiguity code the statement defines no occurrence count for the
//     k-mers it spells: only the node set (every expansion of every window, nothing
//     else) is compared, and the heaviest-path claims are then judged against the
//     weights the graph itself reports.  At most 3 ambiguity codes per sequence
//     (Push expands them recursively: cost 4^n).
//   - Sequences handed to the graph are lower-case IUPAC nucleotides (obiseq lowers
//     the case itself); '.', '-', 'u' and non-nucleotide bytes are not generated
//     for the graph and the index (the statement says nothing about them).
//   - Counts are >= 1 (obiseq.SetCount clamps) or absent (= one read).
//   - The empty graph (every sequence shorter than k) is checked for weights and
//     HasCycle only: HaviestPath is reached by callers through LongestConsensus,
//     which answers "graph is empty" before calling it; the statement does not
//     decide which path a graph without node has.
//   - LongestConsensus is called with min_cov = 0 (the default of obiconsensus)
//     on arbitrary acyclic graphs; 0, 0.5 and 1 on the single-sequence case
//     (all weights equal, so nothing may be trimmed).  It is not called on cyclic
//     graphs (obiconsensus raises k until the graph is acyclic first).
//   - Canonical k-mers are compared as multisets (the statement says multiset),
//     for k the constructor accepts unchanged: even k in dense mode, odd k in
//     sparse mode.  Limb types: Uint64 for k <= 32, Uint128 for k <= 64 (the type
//     obikmersim uses), Uint256 for k <= 64.
//   - Query/Push of the k-mer index (match counting, max-occurrence filter) are
//     outside the statement and not checked.
//   - 4-mer tables: lengths 0..; a, c, g, t, plus the documented rule "u counts as
//     t, any other letter as a" on IUPAC letters; sequences stay far below the
//     uint16 capacity of a table cell (65 535).  FastShiftFourMer is not part of
//     the statement.
package c19

import (
	"fmt"
	"os"
	"slices"
	"sort"
	"testing"

	"git.metabarcoding.org/obitools/obitools4/obitools4/pkg/obifp"
	"git.metabarcoding.org/obitools/obitools4/obitools4/pkg/obikmer"
	"git.metabarcoding.org/obitools/obitools4/obitools4/pkg/obiseq"
	"pgregory.net/rapid"

	"verifharness/internal/evid"
	"verifharness/internal/fatal"
	"verifharness/internal/gen"
)

func TestMain(m *testing.M) {
	evid.Tests(
		evid.Spec{Name: "TestReplay", Kind: "plain", QuickShards: 1, ThoroughShards: 1},
		evid.Spec{Name: "TestExhaustiveSmall", Kind: "plain", QuickShards: 8, ThoroughShards: 16, TimeoutS: 3000},
		evid.Spec{Name: "TestPropGraph", Kind: "rapid", Quick: 64000, Thorough: 1600000, QuickShards: 8, ThoroughShards: 16},
		evid.Spec{Name: "TestPropIndex", Kind: "rapid", Quick: 60000, Thorough: 800000, QuickShards: 6, ThoroughShards: 16},
		evid.Spec{Name: "TestPropFourmer", Kind: "rapid", Quick: 20000, Thorough: 600000, QuickShards: 2, ThoroughShards: 8},
	)
	evid.Note("rule", "graph: sets of 1..6 (thorough 10) sequences with counts, k = 2..31, built (a) at random over small alphabets with k = 2..4, (b) as edited/truncated variants of a template (all edit kinds, or substitutions only on a repeat-free template with unequal counts: bubbles and dead-end branches), (c) with a duplicated segment, (d) as one sequence whose (k-1)-mers are all distinct, (e) as pieces of length k-1, k, k+1 of a template; plus every single sequence and every ordered pair of short sequences over {a,c,g,t}. Oracle: dictionary of string k-mers -> sum of count x occurrences; edges rebuilt from the k-mer strings; Kahn's algorithm; longest-path DP over the topological order. Non-trivial graph case = the graph has a cycle or a node with two successors or two predecessors. index: reads of 0..400 nt (thorough 1000) with ambiguity codes and n runs, k = 2..64 with Uint64/Uint128/Uint256, dense (even k) and sparse (odd k); oracle: string windows vs their reverse complement; non-trivial = some window is canonical as itself and some other as its reverse complement. 4-mers: 1..3 successive calls sharing buffers, lengths 0..300 biased to 0..5; oracle: naive window enumeration; non-trivial = some 4-mer occurs twice. Distinct = hash of the whole case."+bigRule+cliRule+histRule)
	// NewKmerMap draws a progress bar on os.Stderr
	if f, err := os.OpenFile(os.DevNull, os.O_WRONLY, 0); err == nil {
		os.Stderr = f
	}
	evid.Main(m, "C19")
}

func TestReplay(t *testing.T) { evid.Replay(t) }

func init() {
	evid.Reg("graph", checkGraph)
	evid.Reg("index", checkIndex)
	evid.Reg("fourmer", checkFourmer)
}

func bs(s string, count int) *obiseq.BioSequence {
	b := obiseq.NewBioSequence("s", []byte(s), "")
	if count > 0 {
		b.SetCount(count)
	}
	return b
}

// ------------------------------------------------------------------ De Bruijn graph

type graphCase struct {
	K      int
	Seqs   []seqCount
	MinCov float64 // coverage threshold given to LongestConsensus in the single-sequence sub-check
}

func (c graphCase) String() string { return fmt.Sprintf("k=%d seqs=%v", c.K, c.Seqs) }

func sameSet(got []uint64, want []int, g *dbg) bool {
	if len(got) != len(want) {
		return false
	}
	w := map[uint64]bool{}
	for _, j := range want {
		w[encodeKmer(g.nodes[j])] = true
	}
	seen := map[uint64]bool{}
	for _, x := range got {
		if !w[x] || seen[x] {
			return false
		}
		seen[x] = true
	}
	return true
}

func names(g *dbg, ix []int) []string {
	out := []string{}
	for _, j := range ix {
		out = append(out, g.nodes[j])
	}
	return out
}

func decodeAll(p []uint64, k int) []string {
	out := []string{}
	for _, x := range p {
		out = append(out, decodeKmer(x, k))
	}
	return out
}

// judgeWalk checks that the k-mer words form a walk of the model graph starting
// at a source node and returns its total weight.
func judgeWalk(words []string, g *dbg, weight func(string) int) (int, error) {
	total := 0
	for i, w := range words {
		j, ok := g.idx[w]
		if !ok {
			return 0, fmt.Errorf("node %d (%s) is not a k-mer of the graph", i, w)
		}
		if i == 0 {
			if len(g.pred[j]) > 0 {
				return 0, fmt.Errorf("first node %s is not a source: it has predecessors %v", w, names(g, g.pred[j]))
			}
		} else if words[i-1][1:] != w[:len(w)-1] {
			return 0, fmt.Errorf("nodes %d and %d (%s, %s) do not overlap by k-1", i-1, i, words[i-1], w)
		}
		total += weight(w)
	}
	return total, nil
}

func checkGraph(c graphCase) error {
	k := c.K
	var g *obikmer.DeBruijnGraph
	out := fatal.Run(func() {
		g = obikmer.MakeDeBruijnGraph(k)
		for _, s := range c.Seqs {
			g.Push(bs(s.Seq, s.Count))
		}
	})
	if !out.Completed {
		return fmt.Errorf("building the graph (%v) did not return: %v\n%s", c, out, out.Stack)
	}

	// ---- weights / node set
	want, exact := kmerWeights(c.Seqs, k)
	if g.Len() != len(want) {
		return fmt.Errorf("graph of %v holds %d k-mers, the sequences spell %d distinct ones", c, g.Len(), len(want))
	}
	m := buildDBG(want, k)
	for _, n := range m.nodes {
		got := g.Weight(encodeKmer(n))
		if exact && got != want[n] {
			return fmt.Errorf("graph of %v: weight of %s is %d, sum of count x occurrences is %d", c, n, got, want[n])
		}
		if !exact && got <= 0 {
			return fmt.Errorf("graph of %v: k-mer %s spelled by the sequences is not in the graph", c, n)
		}
	}
	weight := func(n string) int { return g.Weight(encodeKmer(n)) }

	// ---- edges
	for i, n := range m.nodes {
		var nx, pv []uint64
		out := fatal.Run(func() { nx = g.Nexts(encodeKmer(n)); pv = g.Previouses(encodeKmer(n)) })
		if !out.Completed {
			return fmt.Errorf("graph of %v: Nexts/Previouses(%s) did not return: %v", c, n, out)
		}
		if !sameSet(nx, m.succ[i], m) {
			return fmt.Errorf("graph of %v: Nexts(%s) = %v, the k-mers overlapping it by k-1 are %v", c, n, decodeAll(nx, k), names(m, m.succ[i]))
		}
		if !sameSet(pv, m.pred[i], m) {
			return fmt.Errorf("graph of %v: Previouses(%s) = %v, the k-mers overlapping it by k-1 are %v", c, n, decodeAll(pv, k), names(m, m.pred[i]))
		}
	}

	// ---- cycle
	order, cyclic := m.kahn()
	var hc bool
	out = fatal.Run(func() { hc = g.HasCycle() })
	if !out.Completed {
		return fmt.Errorf("graph of %v: HasCycle did not return: %v", c, out)
	}
	if hc != cyclic {
		return fmt.Errorf("graph of %v: HasCycle = %v, Kahn's algorithm orders %d of %d nodes (cycle = %v)", c, hc, len(order), len(m.nodes), cyclic)
	}
	if len(m.nodes) == 0 {
		return nil
	}

	// ---- heaviest path
	var path []uint64
	out = fatal.Run(func() { path = g.HaviestPath() })
	if !out.Completed {
		return fmt.Errorf("graph of %v: HaviestPath did not return: %v\n%s", c, out, out.Stack)
	}
	if cyclic {
		if len(path) != 0 {
			return fmt.Errorf("graph of %v has a cycle but HaviestPath returned %v", c, decodeAll(path, k))
		}
		return nil
	}
	if len(path) == 0 {
		return fmt.Errorf("graph of %v has no cycle but HaviestPath returned no path", c)
	}
	opt := m.heaviest(order, weight)
	words := decodeAll(path, k)
	total, err := judgeWalk(words, m, weight)
	if err != nil {
		return fmt.Errorf("graph of %v: HaviestPath = %v: %v", c, words, err)
	}
	if total != opt {
		return fmt.Errorf("graph of %v: HaviestPath = %v weighs %d, the heaviest walk from a source weighs %d", c, words, total, opt)
	}

	// ---- consensus
	cons, err := consensus(g, 0)
	if err != nil {
		return fmt.Errorf("graph of %v: LongestConsensus(min_cov=0): %v", c, err)
	}
	var cw []string
	for i := 0; i+k <= len(cons); i++ {
		cw = append(cw, cons[i:i+k])
	}
	total, err = judgeWalk(cw, m, weight)
	if err != nil {
		return fmt.Errorf("graph of %v: LongestConsensus = %q: %v", c, cons, err)
	}
	if total != opt || len(cw) == 0 {
		return fmt.Errorf("graph of %v: LongestConsensus = %q weighs %d, the heaviest walk from a source weighs %d", c, cons, total, opt)
	}
	if single, s := singleDistinct(c); single {
		for _, mc := range []float64{0, c.MinCov} {
			cons, err := consensus(g, mc)
			if err != nil {
				return fmt.Errorf("graph of %v: LongestConsensus(min_cov=%v): %v", c, mc, err)
			}
			if cons != s {
				return fmt.Errorf("single sequence %q (k=%d, no repeated (k-1)-mer): LongestConsensus(min_cov=%v) = %q", s, k, mc, cons)
			}
		}
	}
	return nil
}

func consensus(g *obikmer.DeBruijnGraph, minCov float64) (string, error) {
	var seq *obiseq.BioSequence
	var err error
	out := fatal.Run(func() { seq, err = g.LongestConsensus("cons", minCov) })
	if !out.Completed {
		return "", fmt.Errorf("did not return: %v\n%s", out, out.Stack)
	}
	if err != nil || seq == nil {
		return "", fmt.Errorf("returned no sequence (error %v) on an acyclic non-empty graph", err)
	}
	return seq.String(), nil
}

// singleDistinct: the case is one a/c/g/t sequence of length >= k whose
// (k-1)-mers are all different.
func singleDistinct(c graphCase) (bool, string) {
	if len(c.Seqs) != 1 {
		return false, ""
	}
	s := c.Seqs[0].Seq
	return len(s) >= c.K && isACGT(s) && distinctSubwords(s, c.K-1), s
}

func graphClasses(c graphCase) (nontrivial bool, cl []string) {
	want, exact := kmerWeights(c.Seqs, c.K)
	m := buildDBG(want, c.K)
	_, cyclic := m.kahn()
	switch {
	case len(m.nodes) == 0:
		cl = append(cl, "graph:empty")
	case cyclic:
		cl = append(cl, "graph:cyclic")
		if m.selfLoop() {
			cl = append(cl, "graph:self_loop")
		}
	case m.branching():
		cl = append(cl, "graph:dag_branching")
	default:
		cl = append(cl, "graph:dag_linear")
	}
	if !cyclic && m.sources() > 1 {
		cl = append(cl, "graph:dag_several_sources")
	}
	if !cyclic && len(m.nodes) > 0 && exact {
		// is the locally greedy walk (heaviest source, then heaviest successor) lighter than the optimum?
		order, _ := m.kahn()
		w := func(n string) int { return want[n] }
		opt := m.heaviest(order, w)
		best := 0
		for i := range m.nodes {
			if len(m.pred[i]) > 0 {
				continue
			}
			tot, cur := 0, i
			for {
				tot += want[m.nodes[cur]]
				nxt := -1
				for _, j := range m.succ[cur] {
					if nxt < 0 || want[m.nodes[j]] > want[m.nodes[nxt]] {
						nxt = j
					}
				}
				if nxt < 0 {
					break
				}
				cur = nxt
			}
			best = max(best, tot)
		}
		if best < opt {
			cl = append(cl, "graph:greedy_walk_suboptimal")
		}
	}
	if !exact {
		cl = append(cl, "graph:ambiguity_codes")
	}
	repeated := false
	for _, s := range c.Seqs {
		switch len(s.Seq) {
		case c.K - 1:
			cl = append(cl, "graph:len==k-1")
		case c.K:
			cl = append(cl, "graph:len==k")
		case c.K + 1:
			cl = append(cl, "graph:len==k+1")
		}
		if s.Count > 1 {
			repeated = true
		}
	}
	if repeated {
		cl = append(cl, "graph:count>1")
	}
	if len(c.Seqs) > 1 {
		cl = append(cl, "graph:several_sequences")
	}
	if ok, _ := singleDistinct(c); ok {
		cl = append(cl, "graph:single_sequence_distinct_(k-1)mers")
	}
	switch {
	case c.K >= 30:
		cl = append(cl, "graph:k>=30")
	case c.K <= 4:
		cl = append(cl, "graph:k<=4")
	}
	return len(m.nodes) > 0 && (cyclic || m.branching()), cl
}

// distinctSeq builds, base by base, a sequence of at most n symbols whose words
// of length m are all different (it stops early when no symbol can be added).
func distinctSeq(t *rapid.T, label string, n, m int) string {
	choices := rapid.SliceOfN(rapid.IntRange(0, 3), n, n).Draw(t, label)
	seen := map[string]bool{}
	b := []byte{}
	for i := 0; i < n; i++ {
		placed := false
		for d := 0; d < 4 && !placed; d++ {
			x := gen.ACGT[(choices[i]+d)%4]
			b = append(b, x)
			if len(b) < m {
				placed = true
			} else if w := string(b[len(b)-m:]); !seen[w] {
				seen[w] = true
				placed = true
			} else {
				b = b[:len(b)-1]
			}
		}
		if !placed {
			break
		}
	}
	return string(b)
}

func genCount(t *rapid.T) int {
	return rapid.SampledFrom([]int{0, 0, 1, 2, 3, 5, 17, 100}).Draw(t, "count")
}

func genK(t *rapid.T) int { return gen.Len(t, "k", 2, 31, 3, 8, 16, 30) }

func genGraph(t *rapid.T) graphCase {
	big := evid.Thorough()
	maxSeqs, maxTail := 6, 80
	if big {
		maxSeqs, maxTail = 10, 250
	}
	c := graphCase{MinCov: rapid.SampledFrom([]float64{0, 0.5, 1}).Draw(t, "mincov")}
	switch rapid.SampledFrom([]string{"tiny", "tiny", "variants", "variants", "bubbles", "bubbles", "bubbles", "repeat", "single", "pieces"}).Draw(t, "shape") {
	case "tiny":
		c.K = rapid.IntRange(2, 4).Draw(t, "k")
		alpha := rapid.SampledFrom([]string{"acgt", "acgt", "ac", "acg", "a"}).Draw(t, "alphabet")
		n := rapid.IntRange(1, 4).Draw(t, "nseq")
		for i := 0; i < n; i++ {
			l := gen.Len(t, "len", 0, 14, c.K)
			c.Seqs = append(c.Seqs, seqCount{gen.Seq(t, "seq", l, alpha), genCount(t)})
		}
	case "variants":
		c.K = genK(t)
		l := gen.Len(t, "len", c.K-1, c.K+maxTail, c.K, 2*c.K)
		var tpl string
		if rapid.Bool().Draw(t, "distinct_template") {
			tpl = distinctSeq(t, "template", l, c.K-1)
		} else {
			tpl = gen.Seq(t, "template", l, gen.ACGT)
		}
		n := rapid.IntRange(1, maxSeqs).Draw(t, "nseq")
		amb := rapid.IntRange(0, 5).Draw(t, "ambiguity") == 0
		for i := 0; i < n; i++ {
			e := rapid.SampledFrom([]int{0, 0, 1, 1, 2, 3}).Draw(t, "edits")
			s, _ := gen.Mutate(t, "mut", tpl, e, gen.ACGT, "sssid")
			if len(s) > 0 && rapid.Bool().Draw(t, "truncate") {
				from := rapid.IntRange(0, len(s)/2).Draw(t, "from")
				to := rapid.IntRange(from, len(s)).Draw(t, "to")
				if rapid.Bool().Draw(t, "keep_end") {
					to = len(s)
				}
				s = s[from:to]
			}
			if amb && len(s) > 0 {
				b := []byte(s)
				for j := rapid.IntRange(0, 3).Draw(t, "namb"); j > 0; j-- {
					b[rapid.IntRange(0, len(b)-1).Draw(t, "ambpos")] = gen.IUPAC[4+rapid.IntRange(0, 10).Draw(t, "ambsym")]
				}
				s = string(b)
			}
			c.Seqs = append(c.Seqs, seqCount{s, genCount(t)})
		}
	case "bubbles":
		// substitution variants of a repeat-free template, cut at both ends, with unequal counts:
		// acyclic graphs with bubbles, several sources and branches whose heavy start is a dead end
		c.K = gen.Len(t, "k", 3, 31, 5, 8, 12)
		tpl := distinctSeq(t, "template", rapid.IntRange(c.K+2, c.K+maxTail).Draw(t, "len"), c.K-1)
		n := rapid.IntRange(2, maxSeqs).Draw(t, "nseq")
		for i := 0; i < n; i++ {
			e := rapid.SampledFrom([]int{0, 1, 1, 2}).Draw(t, "edits")
			s, edits := gen.Mutate(t, "mut", tpl, e, gen.ACGT, "s")
			from, to := 0, len(s)
			if rapid.IntRange(0, 2).Draw(t, "cut_start") == 0 {
				from = rapid.IntRange(0, len(s)/2).Draw(t, "from")
			}
			switch rapid.SampledFrom([]string{"full", "anywhere", "dead_end", "dead_end"}).Draw(t, "cut_end") {
			case "anywhere":
				to = rapid.IntRange(from, len(s)).Draw(t, "to")
			case "dead_end": // stop a few bases after the last substitution: the variant branch is short
				if len(edits) > 0 {
					to = max(from, min(len(s), edits[len(edits)-1].Pos+1+rapid.IntRange(0, 4).Draw(t, "after")))
				}
			}
			c.Seqs = append(c.Seqs, seqCount{s[from:to], rapid.SampledFrom([]int{0, 1, 2, 3, 4, 6, 9, 20}).Draw(t, "count")})
		}
	case "repeat":
		c.K = genK(t)
		l := gen.Len(t, "len", c.K, c.K+maxTail, c.K+1)
		s := gen.Seq(t, "template", l, gen.ACGT)
		rl := rapid.IntRange(max(1, c.K-2), min(len(s), c.K+3)).Draw(t, "replen")
		from := rapid.IntRange(0, len(s)-rl).Draw(t, "repfrom")
		at := rapid.IntRange(0, len(s)).Draw(t, "repat")
		s = s[:at] + s[from:from+rl] + s[at:]
		c.Seqs = append(c.Seqs, seqCount{s, genCount(t)})
		if rapid.Bool().Draw(t, "second") {
			c.Seqs = append(c.Seqs, seqCount{gen.Seq(t, "other", gen.Len(t, "olen", 0, c.K+10, c.K), gen.ACGT), genCount(t)})
		}
	case "single":
		c.K = genK(t)
		l := gen.Len(t, "len", c.K, c.K+maxTail, c.K+1)
		c.Seqs = []seqCount{{distinctSeq(t, "seq", l, c.K-1), genCount(t)}}
	case "pieces":
		c.K = genK(t)
		tpl := gen.Seq(t, "template", c.K+rapid.IntRange(2, 12).Draw(t, "extra"), gen.ACGT)
		n := rapid.IntRange(1, maxSeqs).Draw(t, "nseq")
		for i := 0; i < n; i++ {
			l := c.K + rapid.SampledFrom([]int{-1, 0, 0, 0, 1, 1, 2}).Draw(t, "dlen")
			from := rapid.IntRange(0, len(tpl)-l).Draw(t, "from")
			c.Seqs = append(c.Seqs, seqCount{tpl[from : from+l], genCount(t)})
		}
	}
	return c
}

func TestPropGraph(t *testing.T) {
	rapid.Check(t, func(rt *rapid.T) {
		c := genGraph(rt)
		nt, cl := graphClasses(c)
		evid.Eval("graph", evid.Hash(c.String(), c.MinCov), nt, c, cl...)
		if err := checkGraph(c); err != nil {
			evid.Fail(rt, "graph", c, err)
		}
	})
}

// ------------------------------------------------------------------ canonical k-mers of the index

type indexCase struct {
	Seq    string
	K      int
	Sparse bool
	Limb   int // 64, 128, 256: obifp.Uint64 / Uint128 / Uint256
}

func checkIndex(c indexCase) error {
	switch c.Limb {
	case 64:
		return checkIndexT[obifp.Uint64](c)
	case 128:
		return checkIndexT[obifp.Uint128](c)
	case 256:
		return checkIndexT[obifp.Uint256](c)
	}
	return fmt.Errorf("case names limb width %d", c.Limb)
}

func checkIndexT[T obifp.FPUint[T]](c indexCase) error {
	what := fmt.Sprintf("Uint%d index k=%d sparse=%v", c.Limb, c.K, c.Sparse)
	var km *obikmer.KmerMap[T]
	out := fatal.Run(func() { km = obikmer.NewKmerMap[T](nil, uint(c.K), c.Sparse, -1) })
	if !out.Completed {
		return fmt.Errorf("NewKmerMap (%s) did not return: %v\n%s", what, out, out.Stack)
	}
	if int(km.Kmersize) != c.K || (km.SparseAt >= 0) != c.Sparse {
		return fmt.Errorf("NewKmerMap (%s) built an index with k=%d sparse-at=%d", what, km.Kmersize, km.SparseAt)
	}
	slice := func(s string, buf *[]T) ([]T, []string, error) {
		var ks []T
		var str []string
		out := fatal.Run(func() {
			ks = km.NormalizedKmerSlice(bs(s, 0), buf)
			for _, x := range ks {
				str = append(str, km.KmerAsString(x))
			}
		})
		if !out.Completed {
			return nil, nil, fmt.Errorf("NormalizedKmerSlice(%q) (%s) did not return: %v\n%s", s, what, out, out.Stack)
		}
		return ks, str, nil
	}
	fw, fwStr, err := slice(c.Seq, nil)
	if err != nil {
		return err
	}
	want, _, _ := canonicalKmers(c.Seq, c.K, c.Sparse)
	if d := multisetDiff(fwStr, want); d != "" {
		return fmt.Errorf("canonical k-mers of %q (%s): %s", c.Seq, what, d)
	}
	// equal strings <=> equal keys
	key := map[string]T{}
	for i, s := range fwStr {
		if k0, ok := key[s]; ok && k0 != fw[i] {
			return fmt.Errorf("canonical k-mers of %q (%s): two occurrences of %s have different keys %v and %v", c.Seq, what, s, k0, fw[i])
		}
		key[s] = fw[i]
	}
	// strand invariance, on the keys themselves
	rc := revcomp(c.Seq)
	rv, rvStr, err := slice(rc, nil)
	if err != nil {
		return err
	}
	if d := multisetDiff(rvStr, fwStr); d != "" {
		return fmt.Errorf("%s: canonical k-mers of the reverse complement %q differ from those of %q: %s", what, rc, c.Seq, d)
	}
	cnt := map[T]int{}
	for _, x := range fw {
		cnt[x]++
	}
	for i, x := range rv {
		cnt[x]--
		if cnt[x] < 0 {
			return fmt.Errorf("%s: key %v (%s) of the reverse complement %q is not a key of %q (same strings, different keys)", what, x, rvStr[i], rc, c.Seq)
		}
	}
	// a caller-provided buffer gives the same answer
	buf := make([]T, 3, 5)
	again, _, err := slice(c.Seq, &buf)
	if err != nil {
		return err
	}
	if len(again) != len(fw) {
		return fmt.Errorf("%s: NormalizedKmerSlice(%q) with a buffer returns %d k-mers, %d without", what, c.Seq, len(again), len(fw))
	}
	for i := range fw {
		if again[i] != fw[i] {
			return fmt.Errorf("%s: NormalizedKmerSlice(%q) with a buffer differs at %d", what, c.Seq, i)
		}
	}
	return nil
}

// multisetDiff returns "" when the two lists hold the same strings the same number of times.
func multisetDiff(got, want []string) string {
	cnt := map[string]int{}
	for _, s := range want {
		cnt[s]++
	}
	for _, s := range got {
		cnt[s]--
	}
	var keys []string
	for s, n := range cnt {
		if n != 0 {
			keys = append(keys, s)
		}
	}
	if len(keys) == 0 {
		return ""
	}
	sort.Strings(keys)
	msg := fmt.Sprintf("%d returned, %d expected;", len(got), len(want))
	for i, s := range keys {
		if i == 4 {
			msg += fmt.Sprintf(" … (%d differing k-mers)", len(keys))
			break
		}
		if cnt[s] > 0 {
			msg += fmt.Sprintf(" %s missing x%d", s, cnt[s])
		} else {
			msg += fmt.Sprintf(" %s unexpected x%d", s, -cnt[s])
		}
	}
	return msg
}

func maxK(limb int) int {
	if limb == 64 {
		return 32
	}
	return 64
}

func indexClasses(c indexCase) (bool, []string) {
	ks, nfw, nrv := canonicalKmers(c.Seq, c.K, c.Sparse)
	cl := []string{fmt.Sprintf("index:Uint%d", c.Limb)}
	if c.Sparse {
		cl = append(cl, "index:sparse")
	} else {
		cl = append(cl, "index:dense")
	}
	if 2*len(c.Seq) > c.Limb && len(ks) > 0 {
		cl = append(cl, "index:read_longer_than_word")
	}
	if c.K == maxK(c.Limb) || c.Sparse && c.K == maxK(c.Limb)-1 {
		cl = append(cl, "index:k_fills_word")
	}
	if c.K == 64 {
		cl = append(cl, "index:k==64")
	}
	switch len(c.Seq) {
	case c.K - 1:
		cl = append(cl, "index:len==k-1")
	case c.K:
		cl = append(cl, "index:len==k")
	case c.K + 1:
		cl = append(cl, "index:len==k+1")
	}
	if !isACGT(c.Seq) {
		cl = append(cl, "index:ambiguity_codes")
	}
	if len(ks) == 0 {
		cl = append(cl, "index:no_kmer")
	}
	return nfw > 0 && nrv > 0, cl
}

func genIndexParams(t *rapid.T) (limb, k int, sparse bool) {
	limb = rapid.SampledFrom([]int{64, 128, 128, 256}).Draw(t, "limb")
	sparse = rapid.Bool().Draw(t, "sparse")
	hi := maxK(limb)
	// h = k/2 (dense: k = 2h, sparse: k = 2h+1 <= hi-1)
	lo := 1
	top := hi / 2
	if sparse {
		top = (hi - 1) / 2
	}
	h := gen.Len(t, "halfk", lo, top, 4, 8, 15, 16, 31)
	k = 2 * h
	if sparse {
		k++
	}
	return
}

func genIndex(t *rapid.T) indexCase {
	limb, k, sparse := genIndexParams(t)
	maxLen := evid.Pick(400, 1000)
	l := gen.Len(t, "len", 0, maxLen, k, 2*k, 32, 64, 128)
	if l < k && rapid.IntRange(0, 3).Draw(t, "longer") > 0 {
		l += k
	}
	alpha := rapid.SampledFrom([]string{"acgt", "acgt", "acgt", "at", "ac", "cg"}).Draw(t, "alphabet")
	rate := rapid.SampledFrom([]int{0, 0, 0, 250, 60}).Draw(t, "iupac_rate")
	s := []byte(gen.SeqMix(t, "seq", l, alpha, gen.IUPAC[4:], rate))
	if len(s) > 0 && rapid.IntRange(0, 5).Draw(t, "nrun") == 0 {
		from := rapid.IntRange(0, len(s)-1).Draw(t, "nfrom")
		n := rapid.IntRange(1, 12).Draw(t, "nlen")
		for i := from; i < len(s) && i < from+n; i++ {
			s[i] = 'n'
		}
	}
	return indexCase{string(s), k, sparse, limb}
}

func TestPropIndex(t *testing.T) {
	rapid.Check(t, func(rt *rapid.T) {
		c := genIndex(rt)
		nt, cl := indexClasses(c)
		evid.Eval("index", evid.Hash(c.Seq, c.K, c.Sparse, c.Limb), nt, c, cl...)
		if err := checkIndex(c); err != nil {
			evid.Fail(rt, "index", c, err)
		}
	})
}

// ------------------------------------------------------------------ 4-mer tables

// fourmerCase: successive calls sharing the code buffer, the count table and the
// position index (the way obirefidx / obialign reuse them).
type fourmerCase struct{ Seqs []string }

func checkFourmer(c fourmerCase) error {
	var buffer []byte
	var table obikmer.Table4mer
	var index [][]int
	for n, s := range c.Seqs {
		want := fourmers(s)
		wcount := [256]int{}
		wpos := [256][]int{}
		for p, code := range want {
			wcount[code]++
			wpos[code] = append(wpos[code], p)
		}
		for _, shared := range []bool{false, true} {
			what := fmt.Sprintf("call %d on %q (shared buffers: %v)", n, s, shared)
			var codes []byte
			var counts *obikmer.Table4mer
			var idx [][]int
			out := fatal.Run(func() {
				if shared {
					codes = append([]byte{}, obikmer.Encode4mer(bs(s, 0), &buffer)...)
					counts = obikmer.Count4Mer(bs(s, 0), &buffer, &table)
					idx = obikmer.Index4mer(bs(s, 0), &index, &buffer)
				} else {
					codes = obikmer.Encode4mer(bs(s, 0), nil)
					counts = obikmer.Count4Mer(bs(s, 0), nil, nil)
					idx = obikmer.Index4mer(bs(s, 0), nil, nil)
				}
			})
			if !out.Completed {
				return fmt.Errorf("Encode4mer/Count4Mer/Index4mer, %s: did not return: %v\n%s", what, out, out.Stack)
			}
			if len(codes) != len(want) {
				return fmt.Errorf("Encode4mer, %s: %d codes, the sequence has %d 4-mers", what, len(codes), len(want))
			}
			for p := range want {
				if int(codes[p]) != want[p] {
					return fmt.Errorf("Encode4mer, %s: code %d at position %d, the 4-mer %q there is %d", what, codes[p], p, s[p:p+4], want[p])
				}
			}
			if counts == nil || len(idx) < 256 {
				return fmt.Errorf("Count4Mer/Index4mer, %s: table %v, index of %d cells", what, counts, len(idx))
			}
			for code := 0; code < 256; code++ {
				if int(counts[code]) != wcount[code] {
					return fmt.Errorf("Count4Mer, %s: 4-mer %d counted %d times, occurs %d times", what, code, counts[code], wcount[code])
				}
				if !slices.Equal(idx[code], wpos[code]) {
					return fmt.Errorf("Index4mer, %s: positions of 4-mer %d are %v, it occurs at %v", what, code, idx[code], wpos[code])
				}
			}
		}
	}
	return nil
}

func fourmerClasses(c fourmerCase) (bool, []string) {
	var cl []string
	nt := false
	for _, s := range c.Seqs {
		if len(s) <= 5 {
			cl = append(cl, fmt.Sprintf("fourmer:len==%d", len(s)))
		}
		if !isACGT(s) {
			cl = append(cl, "fourmer:other_letters")
		}
		seen := map[int]bool{}
		for _, code := range fourmers(s) {
			if seen[code] {
				nt = true
			}
			seen[code] = true
		}
	}
	if len(c.Seqs) > 1 {
		cl = append(cl, "fourmer:shared_buffers_reused")
	}
	return nt, cl
}

func TestPropFourmer(t *testing.T) {
	rapid.Check(t, func(rt *rapid.T) {
		var c fourmerCase
		n := rapid.IntRange(1, 3).Draw(rt, "ncalls")
		for i := 0; i < n; i++ {
			var l int
			if rapid.IntRange(0, 2).Draw(rt, "short") == 0 {
				l = rapid.IntRange(0, 6).Draw(rt, "len")
			} else {
				l = gen.Len(rt, "len", 0, 300, 3, 4, 5)
			}
			alpha := rapid.SampledFrom([]string{"acgt", "acgt", "ac", "a", "acgtu" + gen.IUPAC[4:]}).Draw(rt, "alphabet")
			c.Seqs = append(c.Seqs, gen.Seq(rt, "seq", l, alpha))
		}
		nt, cl := fourmerClasses(c)
		evid.Eval("fourmer", evid.Hash(fmt.Sprint(c.Seqs)), nt, c, cl...)
		if err := checkFourmer(c); err != nil {
			evid.Fail(rt, "fourmer", c, err)
		}
	})
}

// ------------------------------------------------------------------ enumeration

func allStrings(maxLen int) []string {
	out := []string{""}
	prev := []string{""}
	for l := 1; l <= maxLen; l++ {
		var cur []string
		for _, p := range prev {
			for _, c := range gen.ACGT {
				cur = append(cur, p+string(c))
			}
		}
		out = append(out, cur...)
		prev = cur
	}
	return out
}

func TestExhaustiveSmall(t *testing.T) {
	single := evid.Pick(7, 9)
	pair := evid.Pick(4, 5)
	shard, n := evid.Shard(), evid.NShards()
	failed := map[string]bool{}
	fail := func(check string, c any, err error) {
		// record the first failure of each check and go on (t.Fatalf would hide the other checks)
		if !failed[check] {
			failed[check] = true
			evid.Fail(noStop{t}, check, c, err)
		}
	}
	for i, s := range allStrings(single) {
		if i%n != shard {
			continue
		}
		fc := fourmerCase{[]string{s}}
		nt, _ := fourmerClasses(fc)
		evid.Eval("fourmer", evid.Hash(fmt.Sprint(fc.Seqs)), nt, fc, "exhaustive")
		if err := checkFourmer(fc); err != nil {
			fail("fourmer", fc, err)
		}
		for k := 2; k <= 4; k++ {
			gc := graphCase{K: k, Seqs: []seqCount{{s, 0}}}
			nt, _ := graphClasses(gc)
			evid.Eval("graph", evid.Hash(gc.String(), gc.MinCov), nt, gc, "exhaustive")
			if err := checkGraph(gc); err != nil {
				fail("graph", gc, err)
			}
		}
		for k := 2; k <= 6; k++ {
			ic := indexCase{s, k, k%2 == 1, 64}
			nt, _ := indexClasses(ic)
			evid.Eval("index", evid.Hash(ic.Seq, ic.K, ic.Sparse, ic.Limb), nt, ic, "exhaustive")
			if err := checkIndex(ic); err != nil {
				fail("index", ic, err)
			}
		}
	}
	strs := allStrings(pair)
	for i, a := range strs {
		if i%n != shard {
			continue
		}
		for _, b := range strs {
			for k := 2; k <= 3; k++ {
				gc := graphCase{K: k, Seqs: []seqCount{{a, 0}, {b, 2}}}
				nt, _ := graphClasses(gc)
				evid.Eval("graph", evid.Hash(gc.String(), gc.MinCov), nt, gc, "exhaustive")
				if err := checkGraph(gc); err != nil {
					fail("graph", gc, err)
				}
			}
		}
	}
	if len(failed) > 0 {
		t.FailNow()
	}
	evid.Exhaustive(fmt.Sprintf("every sequence over {a,c,g,t} of length 0..%d: 4-mer tables, graph with k=2..4, Uint64 index with k=2,4,6 dense and 3,5 sparse; every ordered pair of sequences of length 0..%d (counts 1 and 2): graph with k=2,3", single, pair))
}

// noStop lets evid.Fail record a failure without stopping the enumeration.
type noStop struct{ t *testing.T }

func (n noStop) Helper() {}
func (n noStop) Fatalf(format string, args ...any) {
	n.t.Errorf(format, args...)
}
func (n noStop) Logf(format string, args ...any) { n.t.Logf(format, args...) }
