package c19

// Large De Bruijn graphs (tens of thousands to a few hundred thousand k-mers).
//
// The statement quantifies over all sequence sets: nothing in it limits the size
// of the graph.  The cases of TestPropGraph stay below a few thousand nodes; this
// test builds graphs of 20 000 .. 150 000 nodes (thorough: 400 000), many of them
// just around 65 536 = 1<<16 nodes, out of
//
//   - 1..8 long "backbone" sequences with counts (several sources),
//   - planted variant reads: substitution bubbles, insertion and deletion bubbles
//     (sides of different lengths, with counts chosen so that the longer side is
//     lighter per node and heavier in total, or the other way round, or free),
//     dead-end branches (a read that leaves a backbone and stops), late starts (a
//     read that begins with unrelated sequence and joins a backbone: an extra
//     source), chimeras (a read that leaves one backbone and continues on a later
//     one), partial covers (uneven weights along a backbone), a "shotgun" of
//     100..2 500 (thorough 20 000) short reads cut out of a backbone (many
//     sequences, weights summed over many reads), and - rarely - a duplication
//     (a read that jumps back on the same backbone: a cycle),
//   - a last unrelated sequence that completes the graph to the wanted node count.
//
// The case stores parameters only (k, a seed, lengths, the list of planted reads
// as positions/lengths/counts); the sequences are rebuilt deterministically by
// buildBig.  Every (k-1)-mer that a backbone or a planted read introduces is new
// by construction (a set of the (k-1)-mers in use is kept while the bases are
// drawn), so that the only shared (k-1)-mers are the copied flanks and the graph
// without duplication is acyclic: all edges go forward in the order "backbone 0,
// backbone 1, ...".  The oracle does not rely on it: it is the same as in
// checkGraph (weights from the k-mer dictionary, edges rebuilt from the k-mer
// strings, Kahn's algorithm, longest-path dynamic programme over the topological
// order; everything linear in the size of the graph).

import (
	"fmt"
	"sort"
	"testing"

	"git.metabarcoding.org/obitools/obitools4/obitools4/pkg/obikmer"
	"pgregory.net/rapid"

	"verifharness/internal/evid"
	"verifharness/internal/fatal"
	"verifharness/internal/gen"
)

const bigRule = " Large graphs (check biggraph): 20 000..150 000 k-mers (thorough 400 000), one case in three at 65 530..65 545 nodes, k = 12..31, built from 1..8 backbones whose (k-1)-mers are all distinct plus planted reads (substitution / insertion / deletion bubbles with counts tuned so that the longer side is lighter per node but heavier in total or the reverse, dead ends, late starts, chimeras between backbones, partial covers, one case in three with 100..2 500 (thorough 20 000) short reads cut out of a backbone, rarely a duplication = cycle) and a filler sequence that brings the graph to the exact node count; the case stores parameters and a seed, sequences are rebuilt deterministically. Same oracle as the small graphs (all weights, all edges, HasCycle, HaviestPath and LongestConsensus: valid walk from a source of maximal weight by the linear-time DAG dynamic programme). Non-trivial = at least 20 000 nodes and (cycle or branching)."

func init() {
	evid.Reg("biggraph", checkBigGraph)
	evid.Tests(evid.Spec{Name: "TestBigGraphs", Kind: "plain", QuickShards: 8, ThoroughShards: 16, TimeoutS: 3000})
}

type bigFeature struct {
	Kind  string // sub, ins, del, deadend, latestart, chimera, cover, shotgun, dup
	B     int    // backbone
	Pos   int    // position of the edit on backbone B
	Len   int    // inserted / deleted / tail / head / covered length
	Flank int    // backbone bases copied on each side of the edit (>= k-1)
	Count int    // count of the planted read (0 = no count attribute)
	B2    int    `json:",omitempty"` // chimera: backbone the read continues on
	Pos2  int    `json:",omitempty"` // chimera / dup: position it continues at
	N     int    `json:",omitempty"` // shotgun: number of reads of Len nt taken at positions drawn by the builder
}

type bigCase struct {
	K         int
	Seed      uint64
	Backbones []int // lengths
	Counts    []int // counts of the backbones
	Features  []bigFeature
	Target    int // node count completed to by an unrelated filler sequence (0: no filler)
}

func (c bigCase) String() string {
	kinds := map[string]int{}
	for _, f := range c.Features {
		kinds[f.Kind]++
	}
	return fmt.Sprintf("large graph k=%d seed=%d backbones=%v counts=%v planted=%v target=%d", c.K, c.Seed, c.Backbones, c.Counts, kinds, c.Target)
}

type splitmix struct{ s uint64 }

func (r *splitmix) next() uint64 {
	r.s += 0x9e3779b97f4a7c15
	z := r.s
	z = (z ^ (z >> 30)) * 0xbf58476d1ce4e5b9
	z = (z ^ (z >> 27)) * 0x94d049bb133111eb
	return z ^ (z >> 31)
}

// bigBuilder draws sequences whose (k-1)-mers are all new.
type bigBuilder struct {
	k    int
	rng  splitmix
	seen map[uint64]struct{} // (k-1)-mers in use, 2 bits per base
	mask uint64
}

func code2(b byte) uint64 {
	switch b {
	case 'c':
		return 1
	case 'g':
		return 2
	case 't':
		return 3
	}
	return 0
}

// compose returns left + alt + right where alt is altLen new bases, or "" when
// it cannot be done with new (k-1)-mers only.  left and right are pieces of
// backbones; contL is what follows left on its backbone and preR what precedes
// right on its backbone: the result coincides with the backbone of left over
// len(left) + (common prefix of alt+right and contL) bases and with the backbone
// of right over len(right) + (common suffix of left+alt and preR) bases (the
// place of an insertion or deletion is not unique when neighbouring bases are
// equal).  Every word of length k-1 of the result outside these two stretches
// must be unused so far; they are marked used on success.  avoid (if not 0) is a
// base alt[0] must differ from.
func (b *bigBuilder) compose(left string, altLen int, right string, avoid byte, contL, preR string) string {
	m := b.k - 1
	for attempt := 0; attempt < 24; attempt++ {
		pending := map[uint64]struct{}{}
		s := make([]byte, 0, len(left)+altLen+len(right))
		s = append(s, left...)
		var w uint64
		for i := max(0, len(left)-(m-1)); i < len(left); i++ {
			w = (w<<2 | code2(left[i])) & b.mask
		}
		used := func(x uint64) bool {
			if _, ok := b.seen[x]; ok {
				return true
			}
			_, ok := pending[x]
			return ok
		}
		ok := true
		for i := 0; i < altLen && ok; i++ {
			r := int(b.rng.next() & 3)
			placed := false
			for d := 0; d < 4; d++ {
				c := gen.ACGT[(r+d)&3]
				if i == 0 && c == avoid {
					continue
				}
				x := (w<<2 | code2(c)) & b.mask
				if len(s)+1 >= m && used(x) {
					continue
				}
				if len(s)+1 >= m {
					pending[x] = struct{}{}
				}
				s = append(s, c)
				w = x
				placed = true
				break
			}
			ok = placed
		}
		if ok && len(right) > 0 {
			s = append(s, right...)
			asLeft := len(left)
			for asLeft < len(s) && asLeft-len(left) < len(contL) && s[asLeft] == contL[asLeft-len(left)] {
				asLeft++
			}
			asRight := len(right) // counted from the end
			for asRight < len(s) && asRight-len(right) < len(preR) && s[len(s)-1-asRight] == preR[len(preR)-1-(asRight-len(right))] {
				asRight++
			}
			// words that end in the first m-1 bases of right reach back before right
			for end := len(left) + altLen + 1; end <= len(s) && end < len(left)+altLen+m && ok; end++ {
				st := end - m
				if st < 0 || end <= asLeft || st >= len(s)-asRight {
					continue
				}
				var x uint64
				for i := st; i < end; i++ {
					x = x<<2 | code2(s[i])
				}
				if used(x) {
					ok = false
				} else {
					pending[x] = struct{}{}
				}
			}
		}
		if ok {
			for x := range pending {
				b.seen[x] = struct{}{}
			}
			return string(s)
		}
		if altLen == 0 {
			break // nothing random to draw again
		}
	}
	return ""
}

// buildBig rebuilds the sequence set of the case.  Planted reads that cannot be
// placed (parameters out of the backbone, no new (k-1)-mers available) are left
// out; skipped counts them.
func buildBig(c bigCase) (seqs []seqCount, kinds map[string]int, skipped int) {
	kinds = map[string]int{}
	k := c.K
	if k < 3 || k > 31 || len(c.Counts) < len(c.Backbones) {
		return nil, kinds, len(c.Features)
	}
	b := &bigBuilder{k: k, rng: splitmix{c.Seed}, seen: map[uint64]struct{}{}, mask: 1<<(2*uint(k-1)) - 1}
	var bb []string
	for i, l := range c.Backbones {
		s := b.compose("", l, "", 0, "", "")
		bb = append(bb, s)
		seqs = append(seqs, seqCount{s, c.Counts[i]})
	}
	for _, f := range c.Features {
		if f.B < 0 || f.B >= len(bb) {
			skipped++
			continue
		}
		s := bb[f.B]
		fl := max(f.Flank, k-1)
		read := ""
		switch f.Kind {
		case "sub", "ins", "del":
			alt, del := f.Len, 0
			var avoid byte
			switch f.Kind {
			case "sub":
				alt, del = 1, 1
				if f.Pos >= 0 && f.Pos < len(s) {
					avoid = s[f.Pos]
				}
			case "del":
				alt, del = 0, f.Len
			}
			if f.Len < 1 || f.Pos-fl < 0 || f.Pos+del+fl > len(s) {
				break
			}
			read = b.compose(s[f.Pos-fl:f.Pos], alt, s[f.Pos+del:f.Pos+del+fl], avoid, s[f.Pos:], s[:f.Pos+del])
		case "deadend":
			if f.Len < 1 || f.Pos-fl < 0 || f.Pos > len(s) {
				break
			}
			read = b.compose(s[f.Pos-fl:f.Pos], f.Len, "", 0, "", "")
		case "latestart":
			if f.Len < 1 || f.Pos < 0 || f.Pos+fl > len(s) {
				break
			}
			read = b.compose("", f.Len, s[f.Pos:f.Pos+fl], 0, "", s[:f.Pos])
		case "chimera":
			if f.B2 <= f.B || f.B2 >= len(bb) || f.Pos-fl < 0 || f.Pos > len(s) || f.Pos2 < 0 || f.Pos2+fl > len(bb[f.B2]) {
				break
			}
			read = b.compose(s[f.Pos-fl:f.Pos], 0, bb[f.B2][f.Pos2:f.Pos2+fl], 0, s[f.Pos:], bb[f.B2][:f.Pos2])
		case "dup": // jumps back on the same backbone: a cycle
			if f.Pos2 < 0 || f.Pos2 >= f.Pos || f.Pos-fl < 0 || f.Pos > len(s) || f.Pos2+fl > len(s) {
				break
			}
			read = b.compose(s[f.Pos-fl:f.Pos], 0, s[f.Pos2:f.Pos2+fl], 0, s[f.Pos:], s[:f.Pos2])
		case "cover":
			if f.Len < 1 || f.Pos < 0 || f.Pos+f.Len > len(s) {
				break
			}
			read = s[f.Pos : f.Pos+f.Len]
		case "shotgun": // many reads: pieces of the backbone
			if f.Len < 1 || f.Len > len(s) || f.N < 1 {
				break
			}
			for i := 0; i < f.N; i++ {
				from := int(b.rng.next() % uint64(len(s)-f.Len+1))
				seqs = append(seqs, seqCount{s[from : from+f.Len], f.Count})
			}
			kinds[f.Kind]++
			continue
		}
		if read == "" {
			skipped++
			continue
		}
		kinds[f.Kind]++
		seqs = append(seqs, seqCount{read, f.Count})
	}
	if c.Target > 0 {
		distinct := map[string]struct{}{}
		for _, s := range seqs {
			for i := 0; i+k <= len(s.Seq); i++ {
				distinct[s.Seq[i:i+k]] = struct{}{}
			}
		}
		if miss := c.Target - len(distinct); miss > 0 {
			if s := b.compose("", miss+k-1, "", 0, "", ""); s != "" {
				seqs = append(seqs, seqCount{s, 0})
				kinds["filler"]++
			}
		}
	}
	return seqs, kinds, skipped
}

// bigModel is the reference graph of a large case and what the oracle derives from it.
type bigModel struct {
	k      int
	seqs   []seqCount
	want   map[string]int
	m      *dbg
	order  []int
	cyclic bool
	opt    int // weight of the heaviest walk from a source (acyclic graphs)
	optLen int // number of nodes of one such walk
	greedy int // weight of the best "heaviest successor" walk from a source
	kinds  map[string]int
}

func modelBig(c bigCase) *bigModel {
	seqs, kinds, skipped := buildBig(c)
	kinds["skipped"] = skipped
	want, _ := kmerWeights(seqs, c.K)
	b := &bigModel{k: c.K, seqs: seqs, want: want, kinds: kinds}
	b.m = buildDBG(want, c.K)
	b.order, b.cyclic = b.m.kahn()
	if b.cyclic {
		return b
	}
	m := b.m
	best := make([]int, len(m.nodes))
	length := make([]int, len(m.nodes))
	for _, n := range b.order {
		bw, bl := 0, 0
		for _, p := range m.pred[n] {
			if best[p] > bw {
				bw, bl = best[p], length[p]
			}
		}
		best[n], length[n] = bw+want[m.nodes[n]], bl+1
		if best[n] > b.opt {
			b.opt, b.optLen = best[n], length[n]
		}
	}
	if h := m.heaviest(b.order, func(n string) int { return want[n] }); h != b.opt {
		panic(fmt.Sprintf("harness: the two longest-path programmes disagree (%d, %d)", h, b.opt))
	}
	for i := range m.nodes {
		if len(m.pred[i]) > 0 {
			continue
		}
		tot, cur := 0, i
		for {
			tot += want[m.nodes[cur]]
			nxt := -1
			for _, j := range m.succ[cur] {
				if nxt < 0 || want[m.nodes[j]] > want[m.nodes[nxt]] {
					nxt = j
				}
			}
			if nxt < 0 {
				break
			}
			cur = nxt
		}
		b.greedy = max(b.greedy, tot)
	}
	return b
}

func checkBigGraph(c bigCase) error { return checkBigModel(c, modelBig(c)) }

func checkBigModel(c bigCase, b *bigModel) error {
	k, m, want := c.K, b.m, b.want
	what := fmt.Sprintf("%v (%d sequences, %d distinct k-mers)", c, len(b.seqs), len(m.nodes))
	if len(m.nodes) == 0 {
		return nil
	}
	var g *obikmer.DeBruijnGraph
	out := fatal.Run(func() {
		g = obikmer.MakeDeBruijnGraph(k)
		for _, s := range b.seqs {
			g.Push(bs(s.Seq, s.Count))
		}
	})
	if !out.Completed {
		return fmt.Errorf("building the %s did not return: %v\n%s", what, out, out.Stack)
	}
	if g.Len() != len(want) {
		return fmt.Errorf("%s: the graph holds %d k-mers", what, g.Len())
	}
	for _, n := range m.nodes {
		if got := g.Weight(encodeKmer(n)); got != want[n] {
			return fmt.Errorf("%s: weight of %s is %d, sum of count x occurrences is %d", what, n, got, want[n])
		}
	}
	weight := func(n string) int { return want[n] }
	var bad error
	out = fatal.Run(func() {
		for i, n := range m.nodes {
			nx, pv := g.Nexts(encodeKmer(n)), g.Previouses(encodeKmer(n))
			if !sameSet(nx, m.succ[i], m) {
				bad = fmt.Errorf("%s: Nexts(%s) = %v, the k-mers overlapping it by k-1 are %v", what, n, decodeAll(nx, k), names(m, m.succ[i]))
				return
			}
			if !sameSet(pv, m.pred[i], m) {
				bad = fmt.Errorf("%s: Previouses(%s) = %v, the k-mers overlapping it by k-1 are %v", what, n, decodeAll(pv, k), names(m, m.pred[i]))
				return
			}
		}
	})
	if !out.Completed {
		return fmt.Errorf("%s: Nexts/Previouses did not return: %v", what, out)
	}
	if bad != nil {
		return bad
	}
	var hc bool
	out = fatal.Run(func() { hc = g.HasCycle() })
	if !out.Completed {
		return fmt.Errorf("%s: HasCycle did not return: %v\n%s", what, out, out.Stack)
	}
	if hc != b.cyclic {
		return fmt.Errorf("%s: HasCycle = %v, Kahn's algorithm orders %d of %d nodes (cycle = %v)", what, hc, len(b.order), len(m.nodes), b.cyclic)
	}
	var path []uint64
	out = fatal.Run(func() { path = g.HaviestPath() })
	if !out.Completed {
		return fmt.Errorf("%s: HaviestPath did not return: %v\n%s", what, out, out.Stack)
	}
	if b.cyclic {
		if len(path) != 0 {
			return fmt.Errorf("%s has a cycle but HaviestPath returned a path of %d nodes", what, len(path))
		}
		return nil
	}
	if len(path) == 0 {
		return fmt.Errorf("%s has no cycle but HaviestPath returned no path", what)
	}
	words := decodeAll(path, k)
	total, err := judgeWalk(words, m, weight)
	if err != nil {
		return fmt.Errorf("%s: HaviestPath (%d nodes, from %s): %v", what, len(words), words[0], err)
	}
	if total != b.opt {
		return fmt.Errorf("%s: HaviestPath returns a walk of %d nodes from %s weighing %d; the heaviest walk from a source weighs %d (%d nodes; the walk that follows the heaviest successor at each branching weighs %d)",
			what, len(words), words[0], total, b.opt, b.optLen, b.greedy)
	}
	cons, err := consensus(g, 0)
	if err != nil {
		return fmt.Errorf("%s: LongestConsensus(min_cov=0): %v", what, err)
	}
	var cw []string
	for i := 0; i+k <= len(cons); i++ {
		cw = append(cw, cons[i:i+k])
	}
	total, err = judgeWalk(cw, m, weight)
	if err != nil {
		return fmt.Errorf("%s: LongestConsensus (%d nt): %v", what, len(cons), err)
	}
	if total != b.opt || len(cw) == 0 {
		return fmt.Errorf("%s: LongestConsensus returns %d nt, a walk weighing %d; the heaviest walk from a source weighs %d (%d nodes)", what, len(cons), total, b.opt, b.optLen)
	}
	return nil
}

func bigClasses(c bigCase, b *bigModel) (bool, []string) {
	n := len(b.m.nodes)
	var cl []string
	switch {
	case n == 0:
		cl = append(cl, "big:empty")
	case n < 1<<16:
		cl = append(cl, "big:nodes<65536")
	case n == 1<<16:
		cl = append(cl, "big:nodes==65536")
	case n <= 1<<16+16:
		cl = append(cl, "big:nodes==65537..65552")
	case n <= 100000:
		cl = append(cl, "big:nodes<=100000")
	default:
		cl = append(cl, "big:nodes>100000")
	}
	if n >= 1<<16-16 && n < 1<<16 {
		cl = append(cl, "big:nodes==65520..65535")
	}
	if b.cyclic {
		cl = append(cl, "big:cyclic")
	} else if n > 0 {
		cl = append(cl, "big:acyclic")
		if b.greedy < b.opt {
			cl = append(cl, "big:greedy_walk_suboptimal")
			if n > 1<<16 {
				cl = append(cl, "big:greedy_walk_suboptimal,nodes>65536")
			}
		}
		if b.m.sources() > 1 {
			cl = append(cl, "big:several_sources")
		}
	}
	var ks []string
	for kind := range b.kinds {
		ks = append(ks, kind)
	}
	sort.Strings(ks)
	for _, kind := range ks {
		if b.kinds[kind] > 0 {
			cl = append(cl, "big:planted_"+kind)
		}
	}
	maxw := 0
	for _, w := range b.want {
		maxw = max(maxw, w)
	}
	if maxw > 1<<32 {
		cl = append(cl, "big:weight>2^32")
	} else if maxw > 1<<16 {
		cl = append(cl, "big:weight>2^16")
	}
	if len(b.seqs) > 1000 {
		cl = append(cl, "big:more_than_1000_sequences")
	}
	switch {
	case c.K >= 30:
		cl = append(cl, "big:k>=30")
	case c.K <= 16:
		cl = append(cl, "big:k<=16")
	}
	return n >= 20000 && (b.cyclic || b.m.branching()), cl
}

// tunedCount returns the count of a variant read next to a backbone of count cb
// (>= 1): relation "long" makes the longer side of the bubble lighter per node
// and heavier in total, "short" makes the shorter side win in total, anything
// else is free.  The variant side has k-1+ins nodes, the backbone side k-1+del.
func tunedCount(t *rapid.T, relation string, k, cb, ins, del int) int {
	free := rapid.SampledFrom([]int{0, 1, 2, 3, 5, 10, 50, 1000, 4000, 70000, 1 << 33}).Draw(t, "count")
	short, long := k-1, k-1+ins+del // ins or del is 0
	switch {
	case relation == "long" && ins > 0: // variant is the long side: cb*short < cv*long, cv < cb
		if cv := cb*short/long + 1; cv < cb {
			return cv
		}
	case relation == "long" && del > 0: // backbone is the long side: cv*short < cb*long, cb < cv
		if cv := cb + 1; cv*short < cb*long {
			return cv
		}
	case relation == "short" && ins > 0: // cv*long < cb*short
		if cv := (cb*short - 1) / long; cv >= 1 {
			return cv
		}
	case relation == "short" && del > 0: // cb*long < cv*short
		return cb*long/short + 1
	}
	return free
}

func genBigGraph(t *rapid.T) bigCase {
	c := bigCase{
		K:    gen.Len(t, "k", 12, 31, 16, 21, 30),
		Seed: rapid.Uint64().Draw(t, "seed"),
	}
	// rapid draws small values of a wide range much more often than large ones:
	// sizes and positions, which should spread evenly, are derived from the seed
	u := splitmix{c.Seed ^ 0x5bd1e995c19}
	uni := func(lo, hi int) int {
		if hi <= lo {
			return lo
		}
		return lo + int(u.next()%uint64(hi-lo+1))
	}
	hi := evid.Pick(150000, 400000)
	switch rapid.SampledFrom([]string{"boundary", "boundary", "boundary", "above", "above", "above", "above", "above", "below", "below"}).Draw(t, "size") {
	case "boundary":
		c.Target = 1<<16 + rapid.IntRange(-6, 9).Draw(t, "around_65536")
	case "above":
		c.Target = uni(66000, hi)
	default:
		c.Target = uni(20000, 65000)
	}
	// backbones: 80..97 % of the nodes; none longer than maxBackbone (the path
	// reconstruction of HaviestPath is quadratic in the length of the path)
	maxBackbone := evid.Pick(30000, 60000)
	total := c.Target * uni(80, 97) / 100
	nb := max((total+maxBackbone-1)/maxBackbone, rapid.IntRange(1, 6).Draw(t, "nbackbones"))
	for i := 0; i < nb; i++ {
		l := total / nb
		if i%2 == 1 { // uneven lengths
			l = l * uni(30, 100) / 100
		}
		c.Backbones = append(c.Backbones, max(l, 8*c.K))
		c.Counts = append(c.Counts, rapid.SampledFrom([]int{0, 1, 2, 3, 5, 10, 50, 1000, 3000, 66000}).Draw(t, "backbone_count"))
	}
	kindsOf := []string{"sub", "ins", "ins", "ins", "del", "del", "del", "deadend", "latestart", "chimera", "cover"}
	if rapid.IntRange(0, 9).Draw(t, "with_cycle") == 0 {
		kindsOf = append(kindsOf, "dup")
	}
	manyReads := rapid.IntRange(0, 2).Draw(t, "many_reads") == 0
	maxPlanted := evid.Pick(6, 12)
	for b := 0; b < nb; b++ {
		l := c.Backbones[b]
		cb := max(1, c.Counts[b])
		for i := rapid.IntRange(1, maxPlanted).Draw(t, "nplanted"); i > 0; i-- {
			f := bigFeature{Kind: rapid.SampledFrom(kindsOf).Draw(t, "kind"), B: b}
			if manyReads && b == 0 && i == 1 {
				f.Kind = "shotgun"
			}
			f.Flank = c.K - 1 + rapid.SampledFrom([]int{0, 0, 1, 5, 40}).Draw(t, "flank")
			relation := rapid.SampledFrom([]string{"long", "long", "short", "free"}).Draw(t, "relation")
			switch f.Kind {
			case "sub":
				f.Len = 1
				f.Pos = uni(f.Flank, l-f.Flank-1)
				f.Count = tunedCount(t, "free", c.K, cb, 0, 0)
			case "ins":
				f.Len = gen.Len(t, "inslen", 1, 3*c.K, c.K-1, c.K)
				f.Pos = uni(f.Flank, l-f.Flank)
				f.Count = tunedCount(t, relation, c.K, cb, f.Len, 0)
			case "del":
				f.Len = gen.Len(t, "dellen", 1, 3*c.K, c.K-1, c.K)
				f.Pos = uni(f.Flank, l-f.Flank-f.Len)
				f.Count = tunedCount(t, relation, c.K, cb, 0, f.Len)
			case "deadend", "latestart":
				f.Len = gen.Len(t, "taillen", 1, 4*c.K, c.K-1, c.K)
				f.Pos = uni(f.Flank, l-f.Flank)
				f.Count = tunedCount(t, "free", c.K, cb, 0, 0)
			case "chimera":
				f.Pos = uni(f.Flank, l-f.Flank)
				if b == nb-1 {
					f.Kind, f.Len = "deadend", c.K
				} else {
					f.B2 = rapid.IntRange(b+1, nb-1).Draw(t, "backbone2")
					f.Pos2 = uni(0, c.Backbones[f.B2]-f.Flank)
				}
				f.Count = tunedCount(t, "free", c.K, cb, 0, 0)
			case "dup":
				f.Pos = uni(f.Flank+1, l-f.Flank)
				f.Pos2 = uni(0, min(f.Pos-1, l-f.Flank))
				f.Count = tunedCount(t, "free", c.K, cb, 0, 0)
			case "shotgun":
				f.Len = gen.Len(t, "readlen", c.K-1, 400, c.K, c.K+1)
				f.N = uni(100, evid.Pick(2500, 20000))
				f.Count = rapid.SampledFrom([]int{0, 0, 1, 2, 7}).Draw(t, "count")
			case "cover":
				f.Len = uni(c.K, l)
				f.Pos = uni(0, l-f.Len)
				f.Count = tunedCount(t, "free", c.K, cb, 0, 0)
			}
			c.Features = append(c.Features, f)
		}
	}
	return c
}

// TestBigGraphs is a plain test: the driver gives neighbouring rapid seeds to the
// shards of a rapid test and rapid derives the seeds of its first checks from
// them by small increments, so that with a handful of (expensive) checks per
// shard many cases would be drawn twice.  Every case gets its own seed here.
func TestBigGraphs(t *testing.T) {
	cases := evid.Pick(32, 320)
	shard, n := evid.Shard(), evid.NShards()
	g := rapid.Custom(genBigGraph)
	for i := 0; i < cases; i++ {
		if i%n != shard {
			continue
		}
		c := g.Example(int(evid.Hash(evid.Seed(), "biggraph", i) >> 1))
		b := modelBig(c)
		nt, cl := bigClasses(c, b)
		evid.Eval("biggraph", evid.Hash(fmt.Sprintf("%+v", c)), nt, c, cl...)
		if err := checkBigModel(c, b); err != nil {
			evid.Fail(t, "biggraph", c, err)
		}
	}
}
