package c19

// Command level: the canonical k-mers as the obikmersim commands use them.
//
// obikmersimcount and obikmermatch index the reference sequences (-r) by their
// canonical k-mers (-k, --sparse) and look every read up in that index.  The
// commands choose the word type of the index and hand k over to it themselves,
// so the strand invariance and the exactness of the canonical k-mers are checked
// once more through what the commands print, for every k = 2..64, dense and
// sparse.
//
// Domain decisions
//
//   - NewKmerMap turns an odd k into k-1 in dense mode and an even k into k+1 in
//     sparse mode (with a warning); the reference uses that effective size, and
//     obikmersimcount must report it (obikmer_kmer_size, obikmer_sparse_kmer).
//     --sparse -k 64 (effective 65, outside k = 2..64) is not generated.
//   - What "number of shared k-mers" (-m) means when a k-mer occurs several times
//     is not decided by the statement, and KmerMap.Query is outside it: with
//     d = number of distinct canonical k-mers common to the read and a reference
//     and p = number of pairs (window of the read, window of the reference) with
//     equal canonical k-mers, d <= p, a reference MUST be counted when d >= m and
//     MUST NOT when p = 0 or p+2 <= m (Query reports p+1); nothing is asserted in
//     between.  With -m 1 (the default, most cases) this is exact: a reference is
//     counted iff it shares a canonical k-mer with the read.
//   - obikmermatch writes one record per (read, candidate reference) whose
//     alignment passes its identity filter; the alignment is outside C19: only
//     the candidate set is judged (obikmer_match_count within the bounds above,
//     obikmer_match_id never a reference that shares nothing, no record at all
//     for a read without candidate).
//   - --self, --max-kmers are not used.  Sequences: lower-case IUPAC, 1..250 nt.

import (
	"encoding/json"
	"fmt"
	"os"
	"path/filepath"
	"strconv"
	"strings"
	"testing"

	"pgregory.net/rapid"

	"verifharness/internal/evid"
	"verifharness/internal/gen"
	"verifharness/internal/ref"
	"verifharness/internal/run"
)

const cliRule = " Commands (check kmercli): obikmersimcount and obikmermatch run on 1..4 generated references and 2..10 reads (copies, pieces of length k-1/k/k+1, reverse complements, substituted copies, chimeras, unrelated and low-complexity reads, ambiguity codes) for every requested k = 2..64, dense and sparse (both parities: the effective k is k-1 / k+1 when the parity does not fit the mode), -m 1 or a threshold placed on a decided side of an actual shared count, --max-cpu 1..4. Oracle: canonical k-mers of the string model; a reference is a match iff it shares a canonical k-mer (see Domain decisions of cli_test.go for -m > 1); every read is also given as its reverse complement and must get the same answer. Non-trivial = some read has a matching reference and some (read, reference) pair that both hold a k-mer shares none."

func init() {
	evid.Reg("kmercli", checkKmerCLI)
	evid.Commands("obikmersimcount", "obikmermatch")
	evid.Tests(evid.Spec{Name: "TestCLIKmerSweep", Kind: "plain", QuickShards: 8, ThoroughShards: 16, TimeoutS: 3000})
}

type kmerCLICase struct {
	Cmd       string // obikmersimcount or obikmermatch
	K         int    // -k
	Sparse    bool   // --sparse
	MinShared int    // -m
	MaxCPU    int    // --max-cpu
	LongOpt   bool   `json:",omitempty"` // --kmer-size / --min-shared-kmers / --reference / --sparse instead of -k / -m / -r / -S
	Refs      []string
	Reads     []string
}

func effectiveK(k int, sparse bool) int {
	if sparse && k%2 == 0 {
		return k + 1
	}
	if !sparse && k%2 == 1 {
		return k - 1
	}
	return k
}

// sharedKmers returns d (distinct canonical k-mers in common) and p (pairs of
// windows with equal canonical k-mers).
func sharedKmers(read, reference []string) (d, p int) {
	occ := map[string]int{}
	for _, s := range reference {
		occ[s]++
	}
	seen := map[string]bool{}
	for _, s := range read {
		if n := occ[s]; n > 0 {
			p += n
			if !seen[s] {
				seen[s] = true
				d++
			}
		}
	}
	return
}

type cliExpect struct {
	must, mustNot [][]bool // [read][ref]
	lo, hi        []int    // bounds of the number of matching references per read
	nkmers        []int    // canonical k-mers per read
	refKmers      []int
}

func expectCLI(c kmerCLICase) cliExpect {
	k := effectiveK(c.K, c.Sparse)
	var rk [][]string
	var e cliExpect
	for _, r := range c.Refs {
		ks, _, _ := canonicalKmers(r, k, c.Sparse)
		rk = append(rk, ks)
		e.refKmers = append(e.refKmers, len(ks))
	}
	for _, q := range c.Reads {
		qk, _, _ := canonicalKmers(q, k, c.Sparse)
		must, mustNot := make([]bool, len(rk)), make([]bool, len(rk))
		lo, hi := 0, 0
		for j := range rk {
			d, p := sharedKmers(qk, rk[j])
			must[j] = d >= 1 && d >= c.MinShared
			mustNot[j] = p == 0 || p+2 <= c.MinShared
			if must[j] {
				lo++
			}
			if !mustNot[j] {
				hi++
			}
		}
		e.must, e.mustNot = append(e.must, must), append(e.mustNot, mustNot)
		e.lo, e.hi = append(e.lo, lo), append(e.hi, hi)
		e.nkmers = append(e.nkmers, len(qk))
	}
	return e
}

func fasta(prefix string, seqs []string) []byte {
	var b strings.Builder
	for i, s := range seqs {
		fmt.Fprintf(&b, ">%s%d\n%s\n", prefix, i, s)
	}
	return []byte(b.String())
}

func index(id, prefix string, n int) (int, bool) {
	if !strings.HasPrefix(id, prefix) {
		return 0, false
	}
	i, err := strconv.Atoi(id[len(prefix):])
	return i, err == nil && i >= 0 && i < n
}

func annInt(ann map[string]any, key string) (int, bool) {
	f, ok := ann[key].(float64)
	return int(f), ok && f == float64(int(f))
}

func checkKmerCLI(c kmerCLICase) error {
	if c.Cmd != "obikmersimcount" && c.Cmd != "obikmermatch" {
		return fmt.Errorf("case names the command %q", c.Cmd)
	}
	if !run.Have(c.Cmd) {
		return nil
	}
	k := effectiveK(c.K, c.Sparse)
	e := expectCLI(c)
	dir, err := os.MkdirTemp(run.WorkDir(), "c19cli")
	if err != nil {
		return nil
	}
	defer os.RemoveAll(dir)
	refFile, readFile := filepath.Join(dir, "refs.fasta"), filepath.Join(dir, "reads.fasta")
	if os.WriteFile(refFile, fasta("ref", c.Refs), 0o644) != nil || os.WriteFile(readFile, fasta("q", c.Reads), 0o644) != nil {
		return nil
	}
	args := []string{"--no-progressbar", "--max-cpu", strconv.Itoa(c.MaxCPU), "-k", strconv.Itoa(c.K), "-m", strconv.Itoa(c.MinShared), "-r", refFile}
	if c.LongOpt {
		args[3], args[5], args[7] = "--kmer-size", "--min-shared-kmers", "--reference"
	}
	if c.Sparse && c.LongOpt {
		args = append(args, "--sparse")
	} else if c.Sparse {
		args = append(args, "-S")
	}
	args = append(args, readFile)
	what := fmt.Sprintf("%s %s (effective k=%d; refs=%q reads=%q)", c.Cmd, strings.Join(args[1:len(args)-1], " "), k, c.Refs, c.Reads)
	r := run.Cmd(run.Opt{}, c.Cmd, args...)
	if r.Inconclusive() {
		evid.Class("timeout_inconclusive", 1)
		return nil
	}
	if r.Exit != 0 {
		return fmt.Errorf("%s: exit status %d\nstderr: %s", what, r.Exit, tail(r.Stderr))
	}
	var recs []ref.Rec
	if c.Cmd == "obikmermatch" && len(r.Stdout) > 0 && r.Stdout[0] == '@' {
		recs, err = ref.ParseFastq(r.Stdout)
	} else {
		recs, err = ref.ParseFasta(r.Stdout)
	}
	if err != nil {
		return fmt.Errorf("%s: output does not parse: %v\n%s", what, err, tail(r.Stdout))
	}
	seen := map[string]bool{}
	counts := make([]int, len(c.Reads))
	for i := range counts {
		counts[i] = -1
	}
	for _, rec := range recs {
		i, ok := index(rec.ID, "q", len(c.Reads))
		if !ok {
			return fmt.Errorf("%s: output record %q is none of the reads", what, rec.ID)
		}
		ann := map[string]any{}
		if js, _, ok := ref.SplitJSONTitle(rec.Title); ok {
			if err := json.Unmarshal([]byte(js), &ann); err != nil {
				return fmt.Errorf("%s: annotations of %s do not parse: %v", what, rec.ID, err)
			}
		}
		n, ok := annInt(ann, "obikmer_match_count")
		if !ok {
			return fmt.Errorf("%s: record %s carries no integer obikmer_match_count: %s", what, rec.ID, rec.Title)
		}
		if n < e.lo[i] || n > e.hi[i] {
			return fmt.Errorf("%s: read q%d (%d canonical k-mers) is reported with %d matching reference(s) (-m %d); by the canonical k-mers of the string model %s (per reference: must match %v, must not match %v)",
				what, i, e.nkmers[i], n, c.MinShared, bounds(e.lo[i], e.hi[i]), e.must[i], e.mustNot[i])
		}
		if counts[i] >= 0 && counts[i] != n {
			return fmt.Errorf("%s: two records of read q%d report %d and %d matching references", what, i, counts[i], n)
		}
		counts[i] = n
		if c.Cmd == "obikmersimcount" {
			if seen[rec.ID] {
				return fmt.Errorf("%s: read %s is written twice", what, rec.ID)
			}
			seen[rec.ID] = true
			if rec.Seq != c.Reads[i] {
				return fmt.Errorf("%s: read %s comes out as %q", what, rec.ID, rec.Seq)
			}
			if ks, ok := annInt(ann, "obikmer_kmer_size"); !ok || ks != k {
				return fmt.Errorf("%s: read %s: obikmer_kmer_size = %v, the effective k-mer size is %d", what, rec.ID, ann["obikmer_kmer_size"], k)
			}
			if sp, ok := ann["obikmer_sparse_kmer"].(bool); !ok || sp != c.Sparse {
				return fmt.Errorf("%s: read %s: obikmer_sparse_kmer = %v", what, rec.ID, ann["obikmer_sparse_kmer"])
			}
			continue
		}
		id, _ := ann["obikmer_match_id"].(string)
		j, ok := index(strings.TrimSuffix(id, "-rev"), "ref", len(c.Refs))
		if !ok {
			return fmt.Errorf("%s: record of read q%d: obikmer_match_id = %v is none of the references", what, i, ann["obikmer_match_id"])
		}
		if e.mustNot[i][j] {
			return fmt.Errorf("%s: read q%d is aligned with ref%d, which shares no canonical k-mer with it (-m %d; must not match: %v)", what, i, j, c.MinShared, e.mustNot[i])
		}
		key := fmt.Sprintf("%d/%d", i, j)
		if seen[key] {
			return fmt.Errorf("%s: read q%d is aligned twice with ref%d", what, i, j)
		}
		seen[key] = true
	}
	if c.Cmd == "obikmersimcount" {
		for i := range c.Reads {
			if counts[i] < 0 {
				return fmt.Errorf("%s: read q%d is missing from the output (%d records)", what, i, len(recs))
			}
		}
	}
	// a read and its reverse complement get the same answer (generated in pairs: 2i, 2i+1)
	for i := 0; i+1 < len(c.Reads); i += 2 {
		if c.Reads[i+1] == revcomp(c.Reads[i]) && counts[i] >= 0 && counts[i+1] >= 0 && counts[i] != counts[i+1] && e.lo[i] == e.hi[i] {
			return fmt.Errorf("%s: read q%d has %d matching reference(s), its reverse complement q%d has %d", what, i, counts[i], i+1, counts[i+1])
		}
	}
	return nil
}

func bounds(lo, hi int) string {
	if lo == hi {
		return fmt.Sprintf("exactly %d reference(s) match", lo)
	}
	return fmt.Sprintf("between %d and %d references match", lo, hi)
}

func kmerCLIClasses(c kmerCLICase) (bool, []string) {
	e := expectCLI(c)
	k := effectiveK(c.K, c.Sparse)
	cl := []string{"cli:" + c.Cmd}
	if c.Sparse {
		cl = append(cl, "cli:sparse")
	} else {
		cl = append(cl, "cli:dense")
	}
	if k != c.K {
		cl = append(cl, "cli:k_parity_adjusted")
	}
	switch {
	case k <= 8:
		cl = append(cl, "cli:k<=8")
	case k <= 31:
		cl = append(cl, "cli:k=9..31")
	case k <= 33:
		cl = append(cl, "cli:k=32,33")
	case k <= 62:
		cl = append(cl, "cli:k=34..62")
	default:
		cl = append(cl, "cli:k=63,64")
	}
	if c.MinShared > 1 {
		cl = append(cl, "cli:-m>1")
	}
	matched, apart, undecided := false, false, false
	for i := range c.Reads {
		if e.lo[i] > 0 {
			matched = true
		}
		if e.lo[i] != e.hi[i] {
			undecided = true
		}
		for j := range c.Refs {
			if e.mustNot[i][j] && e.nkmers[i] > 0 && e.refKmers[j] > 0 {
				apart = true
			}
		}
		switch len(c.Reads[i]) {
		case k - 1:
			cl = append(cl, "cli:read_len==k-1")
		case k:
			cl = append(cl, "cli:read_len==k")
		case k + 1:
			cl = append(cl, "cli:read_len==k+1")
		}
		if !isACGT(c.Reads[i]) {
			cl = append(cl, "cli:ambiguity_codes")
		}
	}
	if matched {
		cl = append(cl, "cli:some_read_matches")
	}
	if apart {
		cl = append(cl, "cli:some_pair_shares_nothing")
	}
	if undecided {
		cl = append(cl, "cli:-m_in_undecided_zone")
	}
	uniq := cl[:0]
	have := map[string]bool{}
	for _, x := range cl {
		if !have[x] {
			have[x] = true
			uniq = append(uniq, x)
		}
	}
	return matched && apart, uniq
}

func genKmerCLI(t *rapid.T, cmd string, k int, sparse bool, threshold bool) kmerCLICase {
	c := kmerCLICase{Cmd: cmd, K: k, Sparse: sparse, MinShared: 1, MaxCPU: rapid.IntRange(1, 4).Draw(t, "maxcpu"), LongOpt: rapid.Bool().Draw(t, "long_options")}
	ke := effectiveK(k, sparse)
	alpha := rapid.SampledFrom([]string{"acgt", "acgt", "acgt", "acgt", "at", "acg"}).Draw(t, "alphabet")
	nref := rapid.IntRange(1, 4).Draw(t, "nref")
	for i := 0; i < nref; i++ {
		l := gen.Len(t, "reflen", 1, ke+150, ke-1, ke, ke+1, 2*ke)
		if l < ke && rapid.IntRange(0, 3).Draw(t, "longer") > 0 {
			l += ke
		}
		c.Refs = append(c.Refs, gen.Seq(t, "ref", l, alpha))
	}
	nread := rapid.IntRange(1, 5).Draw(t, "nread")
	for i := 0; i < nread; i++ {
		var s string
		src := c.Refs[rapid.IntRange(0, nref-1).Draw(t, "from")]
		piece := func(s string) string {
			if len(s) == 0 {
				return s
			}
			l := min(len(s), gen.Len(t, "piecelen", 1, len(s), ke-1, ke, ke+1))
			from := rapid.IntRange(0, len(s)-l).Draw(t, "piecefrom")
			return s[from : from+l]
		}
		switch rapid.SampledFrom([]string{"copy", "piece", "piece", "subst", "subst", "chimera", "unrelated", "unrelated", "extended"}).Draw(t, "readkind") {
		case "copy":
			s = src
		case "piece":
			s = piece(src)
		case "subst":
			s, _ = gen.Mutate(t, "mut", src, rapid.IntRange(1, 3).Draw(t, "nsub"), alpha, "s")
			if rapid.Bool().Draw(t, "cut") {
				s = piece(s)
			}
		case "chimera":
			s = piece(src) + piece(c.Refs[rapid.IntRange(0, nref-1).Draw(t, "from2")])
		case "unrelated":
			s = gen.Seq(t, "read", gen.Len(t, "readlen", 1, ke+100, ke-1, ke, ke+1), alpha)
		case "extended":
			s = gen.Seq(t, "head", rapid.IntRange(0, 20).Draw(t, "headlen"), alpha) + piece(src) + gen.Seq(t, "tail", rapid.IntRange(0, 20).Draw(t, "taillen"), alpha)
		}
		if len(s) > 250 {
			s = s[:250]
		}
		if s == "" {
			s = "a"
		}
		if rapid.IntRange(0, 5).Draw(t, "ambiguity") == 0 {
			b := []byte(s)
			b[rapid.IntRange(0, len(b)-1).Draw(t, "ambpos")] = gen.IUPAC[4+rapid.IntRange(0, 10).Draw(t, "ambsym")]
			s = string(b)
		}
		if rapid.Bool().Draw(t, "given_reversed") {
			s = revcomp(s)
		}
		c.Reads = append(c.Reads, s, revcomp(s))
	}
	if threshold {
		// -m on a decided side of the shared count of one (read, reference) pair
		i := rapid.IntRange(0, len(c.Reads)-1).Draw(t, "m_read")
		j := rapid.IntRange(0, nref-1).Draw(t, "m_ref")
		qk, _, _ := canonicalKmers(c.Reads[i], ke, sparse)
		rk, _, _ := canonicalKmers(c.Refs[j], ke, sparse)
		d, p := sharedKmers(qk, rk)
		c.MinShared = max(1, rapid.SampledFrom([]int{d, d, d - 1, p + 2, p + 2, p + 3, d / 2, 2 * p}).Draw(t, "m"))
	}
	return c
}

func TestCLIKmerSweep(t *testing.T) {
	if !run.Have("obikmersimcount") || !run.Have("obikmermatch") {
		t.Skip("commands not built")
	}
	reps := evid.Pick(4, 16)
	shard, n := evid.Shard(), evid.NShards()
	job := 0
	for _, cmd := range []string{"obikmersimcount", "obikmermatch"} {
		for k := 2; k <= 64; k++ {
			for _, sparse := range []bool{false, true} {
				if effectiveK(k, sparse) > 64 {
					continue
				}
				nrep := reps
				switch effectiveK(k, sparse) {
				case 2, 3, 31, 32, 33, 63, 64: // a k-mer fills 64 / 128 bits or nearly so; smallest sizes
					nrep *= 3
				}
				for rep := 0; rep < nrep; rep++ {
					job++
					if job%n != shard {
						continue
					}
					seed := int(evid.Hash(evid.Seed(), cmd, k, sparse, rep) >> 1)
					c := rapid.Custom(func(rt *rapid.T) kmerCLICase {
						return genKmerCLI(rt, cmd, k, sparse, rep%2 == 1)
					}).Example(seed)
					nt, cl := kmerCLIClasses(c)
					evid.Eval("kmercli", evid.Hash(fmt.Sprintf("%+v", c)), nt, c, cl...)
					if err := checkKmerCLI(c); err != nil {
						evid.Fail(t, "kmercli", c, err)
					}
				}
			}
		}
	}
	if shard == 0 {
		evid.Class("cli:every_k_2..64_dense_and_sparse_both_commands", 1)
	}
}

func tail(b []byte) string {
	if len(b) > 1500 {
		b = b[len(b)-1500:]
	}
	return string(b)
}
