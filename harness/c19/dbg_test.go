package c19
import ("testing"; "pgregory.net/rapid"; "fmt")
func TestDbgShapes(t *testing.T) {
	cnt := map[string]int{}
	rapid.Check(t, func(rt *rapid.T) {
		c := genGraph(rt)
		_, cl := graphClasses(c)
		shape := "?"
		_ = shape
		for _, x := range cl { cnt[fmt.Sprintf("%d/%s", len(c.Seqs), x)]++ }
	})
	for k, v := range cnt { if v > 50 { fmt.Println(k, v) } }
}
