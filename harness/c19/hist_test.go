// Property C19 — histories on live De Bruijn graph objects (model-based test).
//
// The statement speaks about "the graph built from a set of sequences" and about
// what HasCycle / HaviestPath / LongestConsensus answer for "the graph": the
// answer must describe the k-mers the object holds at the moment of the call,
// whatever was asked or changed before.  The one-shot checks build a graph, ask
// every question once and drop the object; here a list of operations is run on
// one or two live objects and every answer is compared with a string model that
// is updated in step.
//
// Domain decisions (in addition to those of prop_test.go)
//
//   - Mutating methods of the type: Push and FilterMinWeight (nothing else writes
//     the k-mer map).  FilterMinWeight(min) is documented as "removing nodes with
//     weight less than the specified minimum": the model deletes exactly the
//     k-mers whose weight is < min.  min >= 0 only (the documentation does not
//     say what a negative minimum means).
//   - Queries compared: Len, Weight (held k-mers, k-mers removed earlier, absent
//     neighbours: 0), MaxWeight / WeightSpectrum / WeightMean (as documented, on
//     non-empty graphs), Gml (number of node and edge records only), Nexts,
//     Previouses, Heads (= the k-mers without predecessor), HasCycle, HaviestPath,
//     LongestConsensus(min_cov = 0).  On a non-empty graph with a cycle
//     LongestConsensus must return no sequence ("no path is returned exactly when
//     the graph has a cycle"); on the empty graph HaviestPath / LongestConsensus /
//     MaxWeight / WeightMean are not called (undecided, see prop_test.go).
//   - MaxPath / BestConsensus / LongestPath (greedy walks whose ties depend on the
//     map iteration order, MaxPath does not terminate on a cycle), WeightMode
//     (ties undecided) and HammingDistance are not part of the statement.
//   - A pushed sequence with an ambiguity code: the statement defines no
//     occurrence count (see prop_test.go).  The model then takes over, for the
//     k-mers spelled by that sequence only, the weight the graph reports right
//     after the push, after checking that each grew by at least the count of the
//     sequence; from there on these weights are compared exactly like the others
//     (a filter must remove exactly those below the minimum).
package c19

import (
	"fmt"
	"math"
	"sort"
	"strings"
	"testing"

	"git.metabarcoding.org/obitools/obitools4/obitools4/pkg/obikmer"
	"pgregory.net/rapid"

	"verifharness/internal/evid"
	"verifharness/internal/fatal"
	"verifharness/internal/gen"
)

const histRule = " Histories (check graphhist): 1 or 2 live DeBruijnGraph objects (k = 2..31 each) receive a generated list of 2..10 (thorough 16) mutations - Push of reads with counts (template shapes: full amplicon, edited copies, pieces, two-piece chimeras that jump backwards = cycle through rare k-mers or forwards, duplicated segments, unrelated reads, up to 2 ambiguity codes; or random reads over 1..4 letters with k = 2..4) and FilterMinWeight(min) with min drawn at 0, 1, 2, at and just above the weights present and above the maximum - interleaved with query operations (len/stats/Gml, weights incl. removed and absent k-mers, edges/Heads, HasCycle, HaviestPath, LongestConsensus, or all of them; sometimes none between two mutations); every object is asked everything once more at the end. Oracle: dictionary k-mer string -> weight updated in step (push: + count x occurrences; filter: delete weight < min), edges rebuilt from the strings, Kahn, longest-path DP. Non-trivial history = two successive cycle-reporting queries on the same object whose expected answers differ (cyclic -> acyclic by a filter, acyclic -> cyclic by a push). Distinct = hash of the whole history."

func init() {
	evid.Reg("graphhist", checkHist)
	evid.Tests(evid.Spec{Name: "TestPropGraphHistory", Kind: "rapid", Quick: 32000, Thorough: 100000, QuickShards: 8, ThoroughShards: 16})
}

// histOp is one operation of a history.
//
//	push:   G, Seq, Count            g.Push(sequence with count)
//	filter: G, Min                   g.FilterMinWeight(Min)
//	query:  G, What                  What = len | weights | edges | cycle | path | consensus | all
type histOp struct {
	G     int    `json:"g"`
	Kind  string `json:"kind"`
	Seq   string `json:"seq,omitempty"`
	Count int    `json:"count,omitempty"`
	Min   int    `json:"min,omitempty"`
	What  string `json:"what,omitempty"`
}

func (o histOp) String() string {
	switch o.Kind {
	case "push":
		return fmt.Sprintf("g%d.Push(%q x%d)", o.G, o.Seq, o.Count)
	case "filter":
		return fmt.Sprintf("g%d.FilterMinWeight(%d)", o.G, o.Min)
	}
	return fmt.Sprintf("g%d.query(%s)", o.G, o.What)
}

type histCase struct {
	K   []int // k-mer size of every graph object
	Ops []histOp
}

func (c histCase) String() string { return fmt.Sprintf("k=%v ops=%v", c.K, c.Ops) }

// histGraph: one live object and its model.
type histGraph struct {
	id   int
	k    int
	g    *obikmer.DeBruijnGraph
	w    map[string]int  // model: k-mer -> weight
	gone map[string]bool // k-mers a filter removed at some point

	// model graph, rebuilt when the k-mer set or the weights changed
	dirty  bool
	m      *dbg
	order  []int
	cyclic bool

	lastCyclic int // expected answer of the previous cycle-reporting query: -1 none yet, 0 acyclic, 1 cyclic
	lastOpt    int // optimum at the previous path query on an acyclic graph (-1: none)
	lastMut    string
	filtered   bool
}

func (h *histGraph) model() *dbg {
	if h.dirty || h.m == nil {
		h.m = buildDBG(h.w, h.k)
		h.order, h.cyclic = h.m.kahn()
		h.dirty = false
	}
	return h.m
}

type histStats struct {
	nontrivial bool
	classes    map[string]bool
}

func (s *histStats) add(c string) { s.classes["hist:"+c] = true }

func (s *histStats) list() []string {
	var out []string
	for c := range s.classes {
		out = append(out, c)
	}
	sort.Strings(out)
	return out
}

func checkHist(c histCase) error {
	_, err := runHist(c)
	return err
}

var histQueries = []string{"len", "weights", "edges", "cycle", "path", "consensus"}

// runHist replays the history on real objects and on the model.
func runHist(c histCase) (*histStats, error) {
	st := &histStats{classes: map[string]bool{}}
	if len(c.K) == 0 {
		return st, fmt.Errorf("history without graph object")
	}
	hs := make([]*histGraph, len(c.K))
	for i, k := range c.K {
		if k < 2 || k > 31 {
			return st, fmt.Errorf("history names k=%d", k)
		}
		h := &histGraph{id: i, k: k, w: map[string]int{}, gone: map[string]bool{}, dirty: true, lastCyclic: -1, lastOpt: -1}
		out := fatal.Run(func() { h.g = obikmer.MakeDeBruijnGraph(k) })
		if !out.Completed || h.g == nil {
			return st, fmt.Errorf("MakeDeBruijnGraph(%d) did not return a graph: %v", k, out)
		}
		hs[i] = h
	}
	if len(hs) > 1 {
		st.add("two_live_objects")
	}
	where := func(i int) string {
		if i >= len(c.Ops) {
			return fmt.Sprintf("history %v, final questions after the %d operations", c, len(c.Ops))
		}
		return fmt.Sprintf("history %v, operation %d (%v)", c, i, c.Ops[i])
	}
	for i, op := range c.Ops {
		if op.G < 0 || op.G >= len(hs) {
			return st, fmt.Errorf("operation %d names graph %d", i, op.G)
		}
		h := hs[op.G]
		switch op.Kind {
		case "push":
			if err := h.push(op, st); err != nil {
				return st, fmt.Errorf("%s: %v", where(i), err)
			}
		case "filter":
			if op.Min < 0 {
				return st, fmt.Errorf("operation %d: negative minimum", i)
			}
			if err := h.filter(op, st); err != nil {
				return st, fmt.Errorf("%s: %v", where(i), err)
			}
		case "query":
			if err := h.query(op.What, st); err != nil {
				return st, fmt.Errorf("%s: %v", where(i), err)
			}
		default:
			return st, fmt.Errorf("operation %d: unknown kind %q", i, op.Kind)
		}
	}
	for _, h := range hs {
		if err := h.query("all", st); err != nil {
			return st, fmt.Errorf("%s, graph g%d: %v", where(len(c.Ops)), h.id, err)
		}
	}
	return st, nil
}

func (h *histGraph) push(op histOp, st *histStats) error {
	s := seqCount{op.Seq, op.Count}
	out := fatal.Run(func() { h.g.Push(bs(op.Seq, op.Count)) })
	if !out.Completed {
		return fmt.Errorf("Push did not return: %v\n%s", out, out.Stack)
	}
	if h.filtered {
		st.add("push_after_filter")
	}
	if len(op.Seq) < h.k {
		st.add("push_shorter_than_k")
		return nil
	}
	h.lastMut = "push"
	h.dirty = true
	add, exact := kmerWeights([]seqCount{s}, h.k)
	readded := false
	for n := range add {
		if _, held := h.w[n]; !held && h.gone[n] {
			readded = true
		}
	}
	if readded {
		st.add("push_brings_back_a_removed_kmer")
	}
	if exact {
		for n, x := range add {
			h.w[n] += x
		}
		return nil
	}
	// ambiguity codes: the graph decides the weights of the k-mers this sequence spells
	st.add("push_with_ambiguity_codes")
	nodes := make([]string, 0, len(add))
	for n := range add {
		nodes = append(nodes, n)
	}
	sort.Strings(nodes)
	for _, n := range nodes {
		got := h.g.Weight(encodeKmer(n))
		if got < h.w[n]+s.weight() {
			return fmt.Errorf("k-mer %s is spelled by the pushed sequence (count %d): its weight was %d before the push and is %d after", n, s.weight(), h.w[n], got)
		}
		h.w[n] = got
	}
	return nil
}

func (h *histGraph) filter(op histOp, st *histStats) error {
	out := fatal.Run(func() { h.g.FilterMinWeight(op.Min) })
	if !out.Completed {
		return fmt.Errorf("FilterMinWeight did not return: %v\n%s", out, out.Stack)
	}
	before := len(h.w)
	for n, x := range h.w {
		if x < op.Min {
			delete(h.w, n)
			h.gone[n] = true
		}
	}
	h.filtered = true
	switch {
	case before == 0:
		st.add("filter_on_empty_graph")
	case len(h.w) == before:
		st.add("filter_removes_nothing")
	case len(h.w) == 0:
		st.add("filter_removes_everything")
		h.lastMut = "filter"
		h.dirty = true
	default:
		st.add("filter_removes_some")
		h.lastMut = "filter"
		h.dirty = true
	}
	return nil
}

func (h *histGraph) query(what string, st *histStats) error {
	if what == "all" {
		for _, q := range histQueries {
			if err := h.query(q, st); err != nil {
				return err
			}
		}
		return nil
	}
	g, k := h.g, h.k
	m := h.model()
	held := fmt.Sprintf("the graph must now hold %d k-mers", len(m.nodes))
	if len(m.nodes) <= 12 {
		held += fmt.Sprintf(" %v", h.w)
	}
	// noteCycle records the expected answer of a cycle-reporting query
	noteCycle := func() {
		cur := 0
		if h.cyclic {
			cur = 1
		}
		if h.lastCyclic >= 0 && h.lastCyclic != cur {
			st.nontrivial = true
			if cur == 1 {
				st.add("acyclic->cyclic_by_push")
			} else {
				st.add("cyclic->acyclic_by_filter")
			}
		}
		h.lastCyclic = cur
	}
	weight := func(n string) int { return h.w[n] }

	switch what {
	case "len":
		var n, mw int
		var spec []int
		var mean float64
		var gml string
		out := fatal.Run(func() {
			n = g.Len()
			if len(m.nodes) > 0 {
				mw = g.MaxWeight()
				mean = g.WeightMean()
			}
			spec = g.WeightSpectrum()
			gml = g.Gml()
		})
		if !out.Completed {
			return fmt.Errorf("Len/MaxWeight/WeightSpectrum/WeightMean/Gml did not return: %v\n%s", out, out.Stack)
		}
		if n != len(m.nodes) {
			return fmt.Errorf("Len = %d; %s", n, held)
		}
		wantSpec := map[int]int{}
		wmax, sum := 0, 0
		for _, x := range h.w {
			wantSpec[x]++
			wmax = max(wmax, x)
			sum += x
		}
		total := 0
		for v, cnt := range spec {
			total += cnt
			if cnt != wantSpec[v] {
				return fmt.Errorf("WeightSpectrum()[%d] = %d, %d k-mers have that weight; %s", v, cnt, wantSpec[v], held)
			}
		}
		if total != len(m.nodes) {
			return fmt.Errorf("WeightSpectrum() = %v counts %d k-mers; %s", spec, total, held)
		}
		if len(m.nodes) > 0 {
			if mw != wmax {
				return fmt.Errorf("MaxWeight = %d, the heaviest k-mer weighs %d; %s", mw, wmax, held)
			}
			want := float64(sum) / float64(len(m.nodes))
			if math.IsNaN(mean) || math.Abs(mean-want) > 1e-9*math.Max(1, want) {
				return fmt.Errorf("WeightMean = %v, the weights sum to %d over %d k-mers (%v); %s", mean, sum, len(m.nodes), want, held)
			}
		}
		edges := 0
		for i := range m.nodes {
			edges += len(m.succ[i])
		}
		if gn, ge := strings.Count(gml, "node ["), strings.Count(gml, "edge ["); gn != len(m.nodes) || ge != edges {
			return fmt.Errorf("Gml describes %d nodes and %d edges, the graph has %d k-mers and %d edges; %s", gn, ge, len(m.nodes), edges, held)
		}

	case "weights":
		for _, n := range m.nodes {
			if got := g.Weight(encodeKmer(n)); got != h.w[n] {
				return fmt.Errorf("Weight(%s) = %d, expected %d; %s", n, got, h.w[n], held)
			}
		}
		// k-mers the graph must not hold: removed earlier, or never seen
		var absent []string
		for n := range h.gone {
			if _, ok := h.w[n]; !ok {
				absent = append(absent, n)
			}
		}
		sort.Strings(absent)
		for i, n := range m.nodes {
			if i >= 8 {
				break
			}
			for _, x := range "acgt" {
				for _, v := range []string{n[1:] + string(x), string(x) + n[:k-1]} {
					if _, ok := h.w[v]; !ok {
						absent = append(absent, v)
					}
				}
			}
		}
		if len(h.gone) > 0 {
			st.add("weight_of_removed_kmer_asked")
		}
		for _, n := range absent {
			if got := g.Weight(encodeKmer(n)); got != 0 {
				return fmt.Errorf("Weight(%s) = %d for a k-mer the graph does not hold (removed by a filter: %v); %s", n, got, h.gone[n], held)
			}
		}
		if n := g.Len(); n != len(m.nodes) {
			return fmt.Errorf("Len = %d after asking weights; %s", n, held)
		}

	case "edges":
		for i, n := range m.nodes {
			var nx, pv []uint64
			out := fatal.Run(func() { nx = g.Nexts(encodeKmer(n)); pv = g.Previouses(encodeKmer(n)) })
			if !out.Completed {
				return fmt.Errorf("Nexts/Previouses(%s) did not return: %v; %s", n, out, held)
			}
			if !sameSet(nx, m.succ[i], m) {
				return fmt.Errorf("Nexts(%s) = %v, the held k-mers overlapping it by k-1 are %v; %s", n, decodeAll(nx, k), names(m, m.succ[i]), held)
			}
			if !sameSet(pv, m.pred[i], m) {
				return fmt.Errorf("Previouses(%s) = %v, the held k-mers overlapping it by k-1 are %v; %s", n, decodeAll(pv, k), names(m, m.pred[i]), held)
			}
		}
		var heads []uint64
		out := fatal.Run(func() { heads = g.Heads() })
		if !out.Completed {
			return fmt.Errorf("Heads did not return: %v; %s", out, held)
		}
		var src []int
		for i := range m.nodes {
			if len(m.pred[i]) == 0 {
				src = append(src, i)
			}
		}
		if !sameSet(heads, src, m) {
			return fmt.Errorf("Heads = %v, the k-mers without predecessor are %v; %s", decodeAll(heads, k), names(m, src), held)
		}

	case "cycle":
		var hc bool
		out := fatal.Run(func() { hc = g.HasCycle() })
		if !out.Completed {
			return fmt.Errorf("HasCycle did not return: %v", out)
		}
		if hc != h.cyclic {
			return fmt.Errorf("HasCycle = %v, Kahn's algorithm orders %d of the %d held k-mers (cycle = %v; last change of the k-mer set: %s); %s", hc, len(h.order), len(m.nodes), h.cyclic, h.lastMut, held)
		}
		noteCycle()

	case "path":
		if len(m.nodes) == 0 {
			return nil
		}
		var path []uint64
		out := fatal.Run(func() { path = g.HaviestPath() })
		if !out.Completed {
			return fmt.Errorf("HaviestPath did not return: %v\n%s", out, out.Stack)
		}
		noteCycle()
		if h.cyclic {
			if len(path) != 0 {
				return fmt.Errorf("the graph has a cycle but HaviestPath returned %v; %s", decodeAll(path, k), held)
			}
			return nil
		}
		if len(path) == 0 {
			return fmt.Errorf("the graph has no cycle (last change of the k-mer set: %s) but HaviestPath returned no path; %s", h.lastMut, held)
		}
		opt := m.heaviest(h.order, weight)
		words := decodeAll(path, k)
		total, err := judgeWalk(words, m, weight)
		if err != nil {
			return fmt.Errorf("HaviestPath = %v: %v; %s", words, err, held)
		}
		if total != opt {
			return fmt.Errorf("HaviestPath = %v weighs %d, the heaviest walk from a source weighs %d; %s", words, total, opt, held)
		}
		if h.lastOpt >= 0 && h.lastOpt != opt {
			st.add("heaviest_walk_changed_between_two_path_queries")
		}
		h.lastOpt = opt

	case "consensus":
		if len(m.nodes) == 0 {
			return nil
		}
		noteCycle()
		if h.cyclic {
			var err error
			var none bool
			out := fatal.Run(func() {
				seq, e := g.LongestConsensus("cons", 0)
				err, none = e, seq == nil
			})
			if !out.Completed {
				return fmt.Errorf("LongestConsensus did not return on a graph with a cycle: %v\n%s", out, out.Stack)
			}
			if err == nil || !none {
				return fmt.Errorf("the graph has a cycle but LongestConsensus returned a sequence (error %v); %s", err, held)
			}
			return nil
		}
		cons, err := consensus(g, 0)
		if err != nil {
			return fmt.Errorf("LongestConsensus(min_cov=0) (last change of the k-mer set: %s): %v; %s", h.lastMut, err, held)
		}
		var cw []string
		for i := 0; i+k <= len(cons); i++ {
			cw = append(cw, cons[i:i+k])
		}
		opt := m.heaviest(h.order, weight)
		total, err := judgeWalk(cw, m, weight)
		if err != nil {
			return fmt.Errorf("LongestConsensus = %q: %v; %s", cons, err, held)
		}
		if total != opt || len(cw) == 0 {
			return fmt.Errorf("LongestConsensus = %q weighs %d, the heaviest walk from a source weighs %d; %s", cons, total, opt, held)
		}

	default:
		return fmt.Errorf("unknown query %q", what)
	}
	return nil
}

// ------------------------------------------------------------------ generator

// histGen mirrors, while the history is drawn, what each graph will hold (string
// model, ambiguity codes counted once per expansion: good enough to place filter
// thresholds; the check itself does not use it).
type histGen struct {
	k     int
	shape string // "tiny" or "amplicon"
	alpha string
	tpl   string
	w     map[string]int
}

func (hg *histGen) read(t *rapid.T) string {
	k := hg.k
	if hg.shape == "tiny" {
		return gen.Seq(t, "seq", gen.Len(t, "len", 0, 14, k), hg.alpha)
	}
	tpl := hg.tpl
	L := len(tpl)
	piece := func(label string) string {
		// a piece of the template, most of the time long enough to overlap its neighbours by k-1
		lo := min(L, k-1)
		if rapid.IntRange(0, 5).Draw(t, label+"_short") == 0 {
			lo = 0
		}
		l := rapid.IntRange(lo, min(L, max(lo, k+6))).Draw(t, label+"_len")
		var from int
		switch rapid.SampledFrom([]string{"start", "end", "any"}).Draw(t, label+"_where") {
		case "start":
			from = 0
		case "end":
			from = L - l
		default:
			from = rapid.IntRange(0, L-l).Draw(t, label+"_from")
		}
		return tpl[from : from+l]
	}
	var s string
	switch rapid.SampledFrom([]string{"full", "full", "variant", "variant", "chimera", "chimera", "chimera", "piece", "dup", "unrelated"}).Draw(t, "read") {
	case "full":
		s = tpl
	case "variant":
		s, _ = gen.Mutate(t, "mut", tpl, rapid.IntRange(1, 2).Draw(t, "edits"), gen.ACGT, "sssid")
		if rapid.IntRange(0, 2).Draw(t, "truncate") == 0 && len(s) > 0 {
			from := rapid.IntRange(0, len(s)/2).Draw(t, "from")
			s = s[from:rapid.IntRange(from, len(s)).Draw(t, "to")]
		}
	case "chimera":
		// two pieces glued: end + start closes a cycle through the junction k-mers
		if rapid.Bool().Draw(t, "end_to_start") {
			a := rapid.IntRange(min(L, k-1), min(L, k+5)).Draw(t, "tail")
			b := rapid.IntRange(min(L, k-1), min(L, k+5)).Draw(t, "head")
			s = tpl[L-a:] + tpl[:b]
		} else {
			s = piece("p1") + piece("p2")
		}
	case "piece":
		from := rapid.IntRange(0, L).Draw(t, "from")
		s = tpl[from:rapid.IntRange(from, L).Draw(t, "to")]
	case "dup":
		rl := rapid.IntRange(max(1, min(L, k-2)), min(L, k+3)).Draw(t, "replen")
		from := rapid.IntRange(0, L-rl).Draw(t, "repfrom")
		at := rapid.IntRange(0, L).Draw(t, "repat")
		s = tpl[:at] + tpl[from:from+rl] + tpl[at:]
	case "unrelated":
		s = gen.Seq(t, "other", gen.Len(t, "olen", 0, k+10, k), gen.ACGT)
	}
	if len(s) > 0 && rapid.IntRange(0, 9).Draw(t, "ambiguity") == 0 {
		b := []byte(s)
		for j := rapid.IntRange(1, 2).Draw(t, "namb"); j > 0; j-- {
			b[rapid.IntRange(0, len(b)-1).Draw(t, "ambpos")] = gen.IUPAC[4+rapid.IntRange(0, 10).Draw(t, "ambsym")]
		}
		s = string(b)
	}
	return s
}

func (hg *histGen) threshold(t *rapid.T) int {
	cands := []int{0, 1, 2, 2}
	seen := map[int]bool{}
	wmax := 0
	for _, x := range hg.w {
		seen[x] = true
		wmax = max(wmax, x)
	}
	var ws []int
	for x := range seen {
		ws = append(ws, x)
	}
	sort.Ints(ws)
	for _, x := range ws {
		cands = append(cands, x, x+1)
	}
	cands = append(cands, wmax+1, wmax+1000)
	if rapid.IntRange(0, 9).Draw(t, "min_any") == 0 {
		return rapid.IntRange(0, wmax+2).Draw(t, "min")
	}
	return rapid.SampledFrom(cands).Draw(t, "min")
}

func genHist(t *rapid.T) histCase {
	maxMut, maxTail := 10, 40
	if evid.Thorough() {
		maxMut, maxTail = 16, 100
	}
	ng := rapid.SampledFrom([]int{1, 1, 1, 2}).Draw(t, "ngraphs")
	var c histCase
	gs := make([]*histGen, ng)
	for i := range gs {
		hg := &histGen{w: map[string]int{}}
		hg.shape = rapid.SampledFrom([]string{"tiny", "amplicon", "amplicon"}).Draw(t, "shape")
		if hg.shape == "tiny" {
			hg.k = rapid.IntRange(2, 4).Draw(t, "k")
			hg.alpha = rapid.SampledFrom([]string{"acgt", "acgt", "ac", "acg", "a"}).Draw(t, "alphabet")
		} else {
			hg.k = gen.Len(t, "k", 2, 31, 4, 8, 16, 30)
			l := rapid.IntRange(hg.k+2, hg.k+maxTail).Draw(t, "len")
			if rapid.IntRange(0, 3).Draw(t, "distinct_template") > 0 {
				hg.tpl = distinctSeq(t, "template", l, hg.k-1)
			} else {
				hg.tpl = gen.Seq(t, "template", l, gen.ACGT)
			}
		}
		gs[i] = hg
		c.K = append(c.K, hg.k)
	}
	nmut := rapid.IntRange(2, maxMut).Draw(t, "nmut")
	for i := 0; i < nmut; i++ {
		gi := 0
		if ng > 1 {
			gi = rapid.IntRange(0, ng-1).Draw(t, "graph")
		}
		hg := gs[gi]
		if rapid.IntRange(0, 9).Draw(t, "op") < 6 || len(hg.w) == 0 && rapid.IntRange(0, 5).Draw(t, "filter_empty") > 0 {
			s := hg.read(t)
			n := rapid.SampledFrom([]int{0, 1, 1, 1, 2, 3, 5, 9, 20}).Draw(t, "count")
			c.Ops = append(c.Ops, histOp{G: gi, Kind: "push", Seq: s, Count: n})
			add, _ := kmerWeights([]seqCount{{s, n}}, hg.k)
			for km, x := range add {
				hg.w[km] += x
			}
		} else {
			min := hg.threshold(t)
			c.Ops = append(c.Ops, histOp{G: gi, Kind: "filter", Min: min})
			for km, x := range hg.w {
				if x < min {
					delete(hg.w, km)
				}
			}
		}
		// questions before the next mutation: usually everything, sometimes one or two, sometimes none;
		// with two objects the other one is asked too now and then
		switch rapid.SampledFrom([]string{"all", "all", "all", "all", "some", "some", "none"}).Draw(t, "ask") {
		case "all":
			c.Ops = append(c.Ops, histOp{G: gi, Kind: "query", What: "all"})
		case "some":
			for j := rapid.IntRange(1, 3).Draw(t, "nq"); j > 0; j-- {
				c.Ops = append(c.Ops, histOp{G: gi, Kind: "query", What: rapid.SampledFrom([]string{"len", "weights", "edges", "cycle", "cycle", "path", "path", "consensus", "consensus"}).Draw(t, "what")})
			}
		}
		if ng > 1 && rapid.IntRange(0, 3).Draw(t, "ask_other") == 0 {
			c.Ops = append(c.Ops, histOp{G: 1 - gi, Kind: "query", What: rapid.SampledFrom([]string{"all", "cycle", "path", "consensus"}).Draw(t, "what_other")})
		}
	}
	return c
}

func TestPropGraphHistory(t *testing.T) {
	rapid.Check(t, func(rt *rapid.T) {
		c := genHist(rt)
		st, err := runHist(c)
		for _, k := range c.K {
			switch {
			case k >= 30:
				st.add("k>=30")
			case k <= 4:
				st.add("k<=4")
			}
		}
		evid.Eval("graphhist", evid.Hash(c.String()), st.nontrivial, c, st.list()...)
		if err != nil {
			evid.Fail(rt, "graphhist", c, err)
		}
	})
}
