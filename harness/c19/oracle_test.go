package c19

// Reference models of property C19.  Everything in this file works on plain
// strings; nothing here imports obitools4.

import (
	"sort"
	"strings"
)

var iupacExpansion = map[byte]string{
	'a': "a", 'c': "c", 'g': "g", 't': "t",
	'r': "ag", 'y': "ct", 's': "cg", 'w': "at", 'k': "gt", 'm': "ac",
	'b': "cgt", 'd': "agt", 'h': "act", 'v': "acg", 'n': "acgt",
}

func isACGT(s string) bool {
	for i := 0; i < len(s); i++ {
		switch s[i] {
		case 'a', 'c', 'g', 't':
		default:
			return false
		}
	}
	return true
}

// expansions lists every acgt word spelled by the IUPAC word w.
func expansions(w string) []string {
	out := []string{""}
	for i := 0; i < len(w); i++ {
		var next []string
		for _, p := range out {
			for _, c := range iupacExpansion[w[i]] {
				next = append(next, p+string(c))
			}
		}
		out = next
	}
	return out
}

// encodeKmer is the documented encoding of the graph: 2 bits per base
// (a=0,c=1,g=2,t=3), first base in the most significant position.
func encodeKmer(w string) uint64 {
	var v uint64
	for i := 0; i < len(w); i++ {
		v = v<<2 | uint64(strings.IndexByte("acgt", w[i]))
	}
	return v
}

func decodeKmer(v uint64, k int) string {
	b := make([]byte, k)
	for i := k - 1; i >= 0; i-- {
		b[i] = "acgt"[v&3]
		v >>= 2
	}
	return string(b)
}

type seqCount struct {
	Seq   string
	Count int // 0: no count attribute (a sequence without count stands for one read)
}

func (s seqCount) weight() int {
	if s.Count < 1 {
		return 1
	}
	return s.Count
}

// kmerWeights returns k-mer -> sum over sequences of count x occurrences.  When
// a window holds an ambiguity code the k-mers it spells are members of the graph
// but the statement defines no occurrence count for them: exact is then false
// and only the key set is meaningful.
func kmerWeights(seqs []seqCount, k int) (w map[string]int, exact bool) {
	w = map[string]int{}
	exact = true
	for _, s := range seqs {
		for i := 0; i+k <= len(s.Seq); i++ {
			win := s.Seq[i : i+k]
			if isACGT(win) {
				w[win] += s.weight()
				continue
			}
			exact = false
			for _, e := range expansions(win) {
				w[e] += s.weight()
			}
		}
	}
	return w, exact
}

// dbg is the De Bruijn graph rebuilt from k-mer strings: an edge u -> v exists
// iff both are nodes and the last k-1 symbols of u are the first k-1 of v.
type dbg struct {
	k     int
	nodes []string
	idx   map[string]int
	succ  [][]int
	pred  [][]int
}

func buildDBG(nodeSet map[string]int, k int) *dbg {
	g := &dbg{k: k, idx: map[string]int{}}
	for n := range nodeSet {
		g.nodes = append(g.nodes, n)
	}
	sort.Strings(g.nodes)
	for i, n := range g.nodes {
		g.idx[n] = i
	}
	g.succ = make([][]int, len(g.nodes))
	g.pred = make([][]int, len(g.nodes))
	for i, n := range g.nodes {
		for _, c := range "acgt" {
			if j, ok := g.idx[n[1:]+string(c)]; ok {
				g.succ[i] = append(g.succ[i], j)
				g.pred[j] = append(g.pred[j], i)
			}
		}
	}
	return g
}

// kahn returns a topological order of the nodes that can be ordered; the graph
// has a cycle iff some node is left out.
func (g *dbg) kahn() (order []int, cyclic bool) {
	indeg := make([]int, len(g.nodes))
	for i := range g.nodes {
		indeg[i] = len(g.pred[i])
	}
	var queue []int
	for i, d := range indeg {
		if d == 0 {
			queue = append(queue, i)
		}
	}
	for len(queue) > 0 {
		n := queue[0]
		queue = queue[1:]
		order = append(order, n)
		for _, m := range g.succ[n] {
			indeg[m]--
			if indeg[m] == 0 {
				queue = append(queue, m)
			}
		}
	}
	return order, len(order) < len(g.nodes)
}

// heaviest returns the maximal total node weight of a walk of the acyclic graph
// that starts at a source node (longest-path dynamic programme over a
// topological order; every walk of a DAG is a path).
func (g *dbg) heaviest(order []int, weight func(node string) int) int {
	best := make([]int, len(g.nodes))
	opt := 0
	for _, n := range order {
		b := 0
		for _, p := range g.pred[n] {
			if best[p] > b {
				b = best[p]
			}
		}
		best[n] = b + weight(g.nodes[n])
		if best[n] > opt {
			opt = best[n]
		}
	}
	return opt
}

func (g *dbg) branching() bool {
	for i := range g.nodes {
		if len(g.succ[i]) > 1 || len(g.pred[i]) > 1 {
			return true
		}
	}
	return false
}

func (g *dbg) sources() int {
	n := 0
	for i := range g.nodes {
		if len(g.pred[i]) == 0 {
			n++
		}
	}
	return n
}

func (g *dbg) selfLoop() bool {
	for i := range g.nodes {
		for _, j := range g.succ[i] {
			if i == j {
				return true
			}
		}
	}
	return false
}

// distinctSubwords reports whether all words of length m of s are different.
func distinctSubwords(s string, m int) bool {
	seen := map[string]bool{}
	for i := 0; i+m <= len(s); i++ {
		if seen[s[i:i+m]] {
			return false
		}
		seen[s[i:i+m]] = true
	}
	return true
}

// ------------------------------------------------------------------ canonical k-mers

func complement(c byte) byte {
	switch c {
	case 'a':
		return 't'
	case 'c':
		return 'g'
	case 'g':
		return 'c'
	case 't':
		return 'a'
	case 'r':
		return 'y'
	case 'y':
		return 'r'
	case 'm':
		return 'k'
	case 'k':
		return 'm'
	case 'b':
		return 'v'
	case 'v':
		return 'b'
	case 'd':
		return 'h'
	case 'h':
		return 'd'
	}
	return c // s, w, n are their own complement
}

func revcomp(s string) string {
	b := make([]byte, len(s))
	for i := 0; i < len(s); i++ {
		b[len(s)-1-i] = complement(s[i])
	}
	return string(b)
}

// canonical returns the smaller of the window and its reverse complement; in
// sparse mode (k odd) the central base of both is replaced by '#' before the
// comparison, i.e. ignored.  With a < c < g < t the string order is the order of
// the 2-bit encodings.
func canonical(w string, sparse bool) (canon string, usedReverse bool) {
	r := revcomp(w)
	if sparse {
		mid := len(w) / 2
		w = w[:mid] + "#" + w[mid+1:]
		r = r[:mid] + "#" + r[mid+1:]
	}
	if r < w {
		return r, true
	}
	return w, false
}

// canonicalKmers lists the canonical k-mers of every window of s made of
// a, c, g, t only, in position order; nfw / nrv count the windows whose
// canonical form is the window itself / its reverse complement.
func canonicalKmers(s string, k int, sparse bool) (out []string, nfw, nrv int) {
	for i := 0; i+k <= len(s); i++ {
		w := s[i : i+k]
		if !isACGT(w) {
			continue
		}
		c, rev := canonical(w, sparse)
		out = append(out, c)
		if rev {
			nrv++
		} else if revcomp(w) != w {
			nfw++
		}
	}
	return
}

// ------------------------------------------------------------------ 4-mers

// code4 is the documented 4-mer alphabet: a=0, c=1, g=2, t=u=3, any other
// letter counts as a.
func code4(c byte) int {
	switch c {
	case 'c':
		return 1
	case 'g':
		return 2
	case 't', 'u':
		return 3
	}
	return 0
}

// fourmers returns the code (0..255, first base most significant) of the 4-mer
// starting at every position of s.
func fourmers(s string) []int {
	var out []int
	for i := 0; i+4 <= len(s); i++ {
		out = append(out, code4(s[i])<<6|code4(s[i+1])<<4|code4(s[i+2])<<2|code4(s[i+3]))
	}
	return out
}
