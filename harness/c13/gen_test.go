package c13

import (
	"fmt"

	"pgregory.net/rapid"

	"verifharness/internal/gen"
)

var sampleNames = []string{"A", "B", "15a_F730814", "d-4"}

// ------------------------------------------------------------------ one-difference variants

// homopolymerPositions lists the positions of s lying in a run of at least two
// identical symbols.
func homopolymerPositions(s string) []int {
	var ps []int
	for i := range s {
		if (i > 0 && s[i-1] == s[i]) || (i+1 < len(s) && s[i+1] == s[i]) {
			ps = append(ps, i)
		}
	}
	return ps
}

func otherSymbol(t *rapid.T, label string, c byte) byte {
	o := gen.ACGT[rapid.IntRange(0, 3).Draw(t, label)]
	if o == c {
		o = gen.ACGT[(indexOf(gen.ACGT, c)+1)%4]
	}
	return o
}

// ambCodes are the IUPAC ambiguity codes (n several times: the no-call of a
// sequencer is by far the most frequent one in real data).
const ambCodes = "nnnnrykmswbdhv"

// editSymbol draws the symbol written by a substitution (differs from not) or
// an insertion (not = 0).  amb > 0: about one symbol in amb is an ambiguity code.
func editSymbol(t *rapid.T, label string, not byte, amb int) byte {
	if amb > 0 && rapid.IntRange(0, amb-1).Draw(t, label+"_amb") == 0 {
		o := ambCodes[rapid.IntRange(0, len(ambCodes)-1).Draw(t, label+"_code")]
		if o != not {
			return o
		}
	}
	if not == 0 {
		return gen.ACGT[rapid.IntRange(0, 3).Draw(t, label)]
	}
	return otherSymbol(t, label, not)
}

// hasAmbiguity says whether s holds a symbol outside a, c, g, t.
func hasAmbiguity(s string) bool {
	for i := 0; i < len(s); i++ {
		switch s[i] {
		case 'a', 'c', 'g', 't':
		default:
			return true
		}
	}
	return false
}

func indexOf(s string, c byte) int {
	for i := 0; i < len(s); i++ {
		if s[i] == c {
			return i
		}
	}
	return 0
}

// oneVariant applies one edit to s.  The position is drawn inside a homopolymer
// half of the time (when there is one); an insertion extends the neighbouring
// run half of the time.  amb > 0: about one written symbol in amb is an IUPAC
// ambiguity code.  Returns the variant and a class label.
func oneVariant(t *rapid.T, s string, amb int) (string, string) {
	kind := rapid.SampledFrom([]byte{'s', 's', 'i', 'd'}).Draw(t, "kind")
	if len(s) <= 1 && kind == 'd' {
		kind = 'i'
	}
	hp := homopolymerPositions(s)
	inHP := len(hp) > 0 && rapid.Bool().Draw(t, "in_homopolymer")
	pos := 0
	if inHP {
		pos = rapid.SampledFrom(hp).Draw(t, "hp_pos")
	} else if kind == 'i' {
		pos = rapid.IntRange(0, len(s)).Draw(t, "pos")
	} else {
		pos = rapid.IntRange(0, len(s)-1).Draw(t, "pos")
	}
	label := string(kind)
	if inHP {
		label += "_homopolymer"
	}
	switch kind {
	case 's':
		return s[:pos] + string(editSymbol(t, "sym", s[pos], amb)) + s[pos+1:], label
	case 'i':
		var c byte
		if len(s) > 0 && rapid.Bool().Draw(t, "extend_run") {
			c = s[min(pos, len(s)-1)]
		} else {
			c = editSymbol(t, "sym", 0, amb)
		}
		return s[:pos] + string(c) + s[pos:], label
	default:
		return s[:pos] + s[pos+1:], label
	}
}

// ------------------------------------------------------------------ small data sets (exactness, CLI)

// genDataset builds 1-4 samples around a few seed sequences: stars, chains and
// two-level hubs of one-difference variants, a few two-/three-difference
// variants, unrelated sequences, abundance ties.
func genDataset(t *rapid.T, maxSeqs int) ([]rec, []string) {
	classes := map[string]bool{}
	nsamples := rapid.SampledFrom([]int{1, 1, 2, 3, 4}).Draw(t, "nsamples")
	samples := sampleNames[:nsamples]
	alphabet := rapid.SampledFrom([]string{"acgt", "acgt", "acgt", "ac", "aaac"}).Draw(t, "alphabet")
	// ambiguity codes: none (half of the data sets), or about one symbol in amb of
	// the seeds and of the symbols written by the edits
	amb := rapid.SampledFrom([]int{0, 0, 0, 12, 4, 2}).Draw(t, "ambiguity")
	draw := func(label string, l int) string {
		if amb == 0 {
			return gen.Seq(t, label, l, alphabet)
		}
		return gen.SeqMix(t, label, l, alphabet, ambCodes, amb)
	}
	n := gen.Len(t, "nseqs", 1, maxSeqs, 2, 3)

	type item struct {
		seq    string
		parent int
	}
	var items []item
	seen := map[string]bool{}
	add := func(s string, parent int) bool {
		if len(s) == 0 {
			return false
		}
		if seen[s] {
			// two records with the same sequence do not come out of obiuniq; kept rarely
			if rapid.IntRange(0, 7).Draw(t, "keep_duplicate") != 0 {
				return false
			}
			classes["duplicate_sequence"] = true
		}
		seen[s] = true
		items = append(items, item{s, parent})
		return true
	}

	seedLen := gen.Len(t, "seedlen", 1, 40, 1, 2, 3, 8)
	add(draw("seed", seedLen), -1)
	shape := rapid.SampledFrom([]string{"star", "chain", "hub2", "mixed", "mixed"}).Draw(t, "shape")
	classes["shape:"+shape] = true
	hubChild := -1
	for tries := 0; len(items) < n && tries < 4*n; tries++ {
		what := rapid.IntRange(0, 11).Draw(t, "what")
		switch {
		case what == 0: // unrelated sequence of about the same length
			l := max(1, seedLen+rapid.IntRange(-1, 1).Draw(t, "dl"))
			add(draw("unrelated", l), -1)
			continue
		case what == 1 && len(items) > 1: // a new seed
			add(draw("seed2", gen.Len(t, "seedlen2", 1, 40, 1, 2, 3)), -1)
			continue
		}
		parent := 0
		switch shape {
		case "star":
			parent = 0
		case "chain":
			parent = len(items) - 1
		case "hub2":
			if hubChild < 0 || rapid.IntRange(0, 2).Draw(t, "level") == 0 {
				parent = 0
			} else {
				parent = hubChild
			}
		default:
			parent = rapid.IntRange(0, len(items)-1).Draw(t, "parent")
		}
		s := items[parent].seq
		k := rapid.SampledFrom([]int{1, 1, 1, 1, 1, 1, 2, 3}).Draw(t, "nedits")
		for e := 0; e < k && len(s) > 0; e++ {
			var lab string
			s, lab = oneVariant(t, s, amb)
			if k == 1 {
				classes["variant:"+lab] = true
			}
		}
		if add(s, parent) {
			if shape == "hub2" && parent == 0 && hubChild < 0 {
				hubChild = len(items) - 1
			}
			// the classes the strict comparison of symbols is decided on: a variant at one /
			// two or three edits of its parent, one of the two carrying an ambiguity code
			if hasAmbiguity(s) || hasAmbiguity(items[parent].seq) {
				classes[fmt.Sprintf("ambiguity_code_within_%d_edits_of_parent", k)] = true
			}
		}
	}
	if amb > 0 {
		classes["alphabet:with_ambiguity_codes"] = true
	}

	countMode := rapid.SampledFrom([]string{"tiny", "mid", "skew", "derived", "derived"}).Draw(t, "countmode")
	classes["counts:"+countMode] = true
	recs := make([]rec, len(items))
	for i, it := range items {
		r := rec{Id: fmt.Sprintf("q%d", i), Seq: it.seq, Counts: map[string]int{}}
		for _, sname := range samples {
			if nsamples > 1 && rapid.IntRange(0, 3).Draw(t, "absent") == 0 {
				continue
			}
			c := 1
			switch {
			case countMode == "tiny":
				c = rapid.IntRange(1, 3).Draw(t, "count")
			case countMode == "mid":
				c = rapid.IntRange(1, 12).Draw(t, "count")
			case countMode == "skew" || it.parent < 0 || recs[it.parent].Counts[sname] == 0:
				c = rapid.SampledFrom([]int{1, 1, 2, 2, 3, 5, 10, 10, 11, 100, 1000, 100000}).Draw(t, "count")
			default: // derived from the parent's count in the same sample: below, tie, or above
				pc := recs[it.parent].Counts[sname]
				switch rapid.IntRange(0, 5).Draw(t, "rel") {
				case 0:
					c = pc
				case 1:
					c = pc + rapid.IntRange(1, 3).Draw(t, "above")
				default:
					c = max(1, pc/rapid.SampledFrom([]int{2, 3, 10, 100}).Draw(t, "div"))
				}
			}
			r.Counts[sname] = c
		}
		if len(r.Counts) == 0 {
			r.Counts[rapid.SampledFrom(samples).Draw(t, "fallback_sample")] = rapid.IntRange(1, 5).Draw(t, "count")
		}
		if len(r.Counts) == 1 && rapid.IntRange(0, 5).Draw(t, "plain") == 0 {
			r.Plain = true
			classes["record_without_merged_sample"] = true
			if nsamples == 1 && rapid.IntRange(0, 2).Draw(t, "na") == 0 {
				// no sample attribute at all: obiclean files the record under "NA"
				only := sortedKeys(r.Counts)[0]
				r.Counts = map[string]int{"NA": r.Counts[only]}
				classes["record_without_sample_attribute"] = true
			}
		}
		recs[i] = r
	}
	classes[fmt.Sprintf("samples:%d", nsamples)] = true
	return recs, keysOf(classes)
}

func keysOf(m map[string]bool) []string { return sortedKeys(m) }

// ------------------------------------------------------------------ contention data sets

// variantByIndex enumerates the one-difference variants of s: indices
// 0..3L-1 substitutions, 3L..3L+4(L+1)-1 insertions, then L deletions.
func variantByIndex(s string, v int) string {
	L := len(s)
	switch {
	case v < 3*L:
		p, k := v/3, v%3
		c := gen.ACGT[(indexOf(gen.ACGT, s[p])+1+k)%4]
		return s[:p] + string(c) + s[p+1:]
	case v < 3*L+4*(L+1):
		v -= 3 * L
		p, k := v/4, v%4
		return s[:p] + string(gen.ACGT[k]) + s[p:]
	default:
		p := (v - 3*L - 4*(L+1)) % L
		return s[:p] + s[p+1:]
	}
}

// variantByIndexAmb is variantByIndex with the symbol written by a substitution
// or an insertion replaced by the ambiguity code amb (kept as it is when the
// father already carries amb there, and for deletions).
func variantByIndexAmb(s string, v int, amb byte) string {
	L := len(s)
	switch {
	case v < 3*L:
		if p := v / 3; s[p] != amb {
			return s[:p] + string(amb) + s[p+1:]
		}
	case v < 3*L+4*(L+1):
		p := (v - 3*L) / 4
		return s[:p] + string(amb) + s[p:]
	}
	return variantByIndex(s, v)
}

func gcd(a, b int) int {
	for b != 0 {
		a, b = b, a%b
	}
	return a
}

type starOpt struct {
	maxSons int
	maxLen  int
	edits   int // sons carry 1..edits differences
}

// genContention builds one sample (sometimes two) in which a few abundant
// sequences receive very many sons: the shape on which the workers of the
// pairwise comparison loop all update the same nodes.
func genContention(t *rapid.T, o starOpt) ([]rec, []string) {
	classes := map[string]bool{}
	shape := rapid.SampledFrom([]string{"star", "star", "two_level", "multi_star"}).Draw(t, "shape")
	classes["shape:"+shape] = true
	nsons := gen.Len(t, "nsons", 100, o.maxSons, 290)
	// enough room for nsons distinct substitution variants of one father
	minLen := nsons/3 + 2
	L := rapid.IntRange(minLen, max(minLen, o.maxLen)).Draw(t, "len")
	// ambiguity codes: in a third of the data sets the fathers carry a few of them and
	// every amb-th son is written with one at the place of its (first) difference
	amb := rapid.SampledFrom([]int{0, 0, 0, 0, 2, 5}).Draw(t, "ambiguity")
	father := gen.SeqMix(t, "father", L, gen.ACGT, ambCodes, 20*min(amb, 1))
	if amb > 0 {
		classes["alphabet:with_ambiguity_codes"] = true
	}
	sonCounts := rapid.SampledFrom([]string{"all_equal", "all_equal", "one_two_three", "spread"}).Draw(t, "soncounts")
	classes["son_counts:"+sonCounts] = true
	nsamples := rapid.SampledFrom([]int{1, 1, 1, 2}).Draw(t, "nsamples")

	var recs []rec
	seen := map[string]bool{}
	add := func(id, s string, count int) {
		if len(s) == 0 || (seen[s] && id[0] != 'F') {
			return
		}
		seen[s] = true
		r := rec{Id: id, Seq: s, Counts: map[string]int{"A": count}}
		if nsamples == 2 && len(recs)%3 != 1 {
			// second sample: same graph, other abundances (ranks partly inverted)
			r.Counts["B"] = 1 + (count*7+len(recs))%5
		}
		recs = append(recs, r)
	}
	sonCount := func(i int) int {
		switch sonCounts {
		case "all_equal":
			return 1
		case "one_two_three":
			return 1 + i%3
		}
		return 1 + (i*i+3*i)%17
	}
	// fathers first or last in the file (the implementation sorts by count anyway)
	fathers := []string{father}
	switch shape {
	case "two_level":
		fathers = append(fathers, variantByIndex(father, rapid.IntRange(0, 3*L-1).Draw(t, "hub_child")))
	case "multi_star":
		for k := rapid.IntRange(1, 2).Draw(t, "more_fathers"); k > 0; k-- {
			if rapid.Bool().Draw(t, "related_father") {
				fathers = append(fathers, variantByIndex(father, rapid.IntRange(0, 3*L-1).Draw(t, "father_variant")))
			} else {
				fathers = append(fathers, gen.SeqMix(t, "father2", L, gen.ACGT, ambCodes, 20*min(amb, 1)))
			}
		}
	}
	for k, f := range fathers {
		if seen[f] { // a drawn father equal to an earlier one: make it differ
			f = variantByIndex(f, k)
			fathers[k] = f
		}
		seen[f] = true // no son may take the sequence of a father
	}
	fathersLast := rapid.Bool().Draw(t, "fathers_last")
	addFathers := func() {
		for k, f := range fathers {
			add(fmt.Sprintf("F%d", k), f, 100000/(1+9*k))
		}
	}
	if !fathersLast {
		addFathers()
	}
	for k, f := range fathers {
		if shape == "two_level" && k == 0 {
			continue // level one has the single son F1
		}
		space := 3*len(f) + 4*(len(f)+1) + len(f)
		subsOnly := rapid.Bool().Draw(t, "subs_only")
		if subsOnly {
			space = 3 * len(f)
		}
		stride := rapid.IntRange(1, space-1).Draw(t, "stride")
		for gcd(stride, space) != 1 {
			stride++
		}
		start := rapid.IntRange(0, space-1).Draw(t, "start")
		per := nsons / len(fathers)
		if shape == "two_level" {
			per = nsons
		}
		for i := 0; i < per; i++ {
			s := variantByIndex(f, (start+i*stride)%space)
			if amb > 0 && i%amb == 0 {
				s = variantByIndexAmb(f, (start+i*stride)%space, ambCodes[(i/amb)%len(ambCodes)])
			}
			for e := 1; e < o.edits && len(s) > 2; e++ {
				// further differences (distance 2..3 data sets): taken from a second progression
				if (i+e)%o.edits == 0 {
					continue
				}
				sp := 3 * len(s)
				s = variantByIndex(s, (start*31+i*7+e*stride)%sp)
			}
			add(fmt.Sprintf("s%d_%d", k, i), s, sonCount(i))
		}
	}
	if fathersLast {
		addFathers()
	}
	classes[fmt.Sprintf("samples:%d", nsamples)] = true
	return recs, keysOf(classes)
}
