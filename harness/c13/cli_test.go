package c13

import (
	"bytes"
	"encoding/json"
	"fmt"
	"os"
	"sort"
	"strconv"
	"strings"
	"testing"
	"time"

	"pgregory.net/rapid"

	"verifharness/internal/evid"
	"verifharness/internal/ref"
	"verifharness/internal/run"
)

// cliRun is one way of running the command on the same file with the same
// distance / ratio: only the parallelism and the reader schedule change.
type cliRun struct {
	MaxCPU int
	Jitter string `json:",omitempty"` // VERIF_JITTER value ("" = none)
}

// prevRun is the first step of a two-step history: obiclean was run once on
// Recs with these options; every record of the case proper that has the
// identifier of a record of that output inherits its obiclean_* annotations.
type prevRun struct {
	Recs   []rec
	Dist   int
	Ratio  float64
	MaxCPU int
}

type cliCase struct {
	Recs      []rec
	Prev      *prevRun `json:",omitempty"`
	Dist      int
	Ratio     float64
	BatchSize int      `json:",omitempty"` // --batch-size of every run (0: default)
	Runs      []cliRun // the first one is the reference
	TimeoutS  int      `json:",omitempty"` // kill timer of one run in seconds (0: the default of run.Cmd, 60 s)
	NoHeadRun bool     `json:",omitempty"` // the additional run with -H is left out (large files)
}

// fastaOf writes the data set the way obiuniq -m sample would.
func fastaOf(recs []rec) []byte {
	var b bytes.Buffer
	for _, r := range recs {
		ann := map[string]any{}
		for k, v := range r.Stale {
			ann[k] = v
		}
		ann["count"] = r.total()
		if r.Plain {
			for _, k := range sortedKeys(r.Counts) {
				if k != "NA" {
					ann["sample"] = k
				}
			}
		} else {
			ann["merged_sample"] = r.Counts
		}
		j, _ := json.Marshal(ann)
		fmt.Fprintf(&b, ">%s %s\n%s\n", r.Id, j, r.Seq)
	}
	return b.Bytes()
}

// outRec is what the command wrote for one record.
type outRec struct {
	Seq       string
	Status    map[string]string
	Weight    map[string]int
	Mutation  map[string]string
	Merged    map[string]int
	Count     int
	Head      bool
	HeadCount int
	Internal  int
	Singleton int
	Samples   int
	Canon     string // canonical text of all of the above, for comparison
	// not part of Canon (history checks)
	MergedAlt map[string]int // merged_pcr: the counts per PCR of the data sets that have the two levels
	Title     string         // the title line as written
	Qual      string         // the quality line (FASTQ)
}

func asInt(v any) (int, bool) {
	f, ok := v.(float64)
	if !ok || f != float64(int(f)) {
		return 0, false
	}
	return int(f), true
}

func parseOutput(out []byte) (map[string]outRec, []string, error) {
	return parseOutputAs(out, "fasta", "json")
}

// parseOutputAs reads what the command wrote: a FASTA or FASTQ file whose title
// lines carry the annotations as a JSON object (the default) or in the OBI
// style key=value; (only when the run asked for it).
func parseOutputAs(out []byte, format, header string) (map[string]outRec, []string, error) {
	var recs []ref.Rec
	var err error
	if format == "fastq" {
		recs, err = ref.ParseFastq(out)
	} else {
		recs, err = ref.ParseFasta(out)
	}
	if err != nil {
		return nil, nil, err
	}
	res := map[string]outRec{}
	var order []string
	for _, r := range recs {
		var ann map[string]any
		if header == "obi" {
			if ann, err = obiTitleAnnotations(r.Title); err != nil {
				return nil, nil, fmt.Errorf("record %s: title %q: %v", r.ID, r.Title, err)
			}
		} else {
			js, _, ok := ref.SplitJSONTitle(r.Title)
			if !ok {
				return nil, nil, fmt.Errorf("record %s: title %q carries no JSON annotations", r.ID, r.Title)
			}
			if err := json.Unmarshal([]byte(js), &ann); err != nil {
				return nil, nil, fmt.Errorf("record %s: annotations do not parse: %v", r.ID, err)
			}
		}
		o := outRec{Seq: r.Seq, Title: r.Title, Qual: string(r.Qual), MergedAlt: map[string]int{}, Status: map[string]string{}, Weight: map[string]int{}, Mutation: map[string]string{}, Merged: map[string]int{}}
		for _, key := range []string{"obiclean_status", "obiclean_weight", "obiclean_head", "obiclean_headcount",
			"obiclean_internalcount", "obiclean_singletoncount", "obiclean_samplecount", "count"} {
			if _, ok := ann[key]; !ok {
				return nil, nil, fmt.Errorf("record %s: attribute %s is missing from the output", r.ID, key)
			}
		}
		bad := func(key string) error {
			return fmt.Errorf("record %s: attribute %s has an unexpected value %v", r.ID, key, ann[key])
		}
		if m, ok := ann["obiclean_status"].(map[string]any); ok {
			for k, v := range m {
				s, ok := v.(string)
				if !ok {
					return nil, nil, bad("obiclean_status")
				}
				o.Status[k] = s
			}
		} else {
			return nil, nil, bad("obiclean_status")
		}
		intMap := func(key string, dst map[string]int, required bool) error {
			raw, present := ann[key]
			if !present && !required {
				return nil
			}
			m, ok := raw.(map[string]any)
			if !ok {
				return bad(key)
			}
			for k, v := range m {
				n, ok := asInt(v)
				if !ok {
					return bad(key)
				}
				dst[k] = n
			}
			return nil
		}
		if err := intMap("obiclean_weight", o.Weight, true); err != nil {
			return nil, nil, err
		}
		if err := intMap("merged_sample", o.Merged, false); err != nil {
			return nil, nil, err
		}
		if err := intMap("merged_pcr", o.MergedAlt, false); err != nil {
			return nil, nil, err
		}
		if raw, present := ann["obiclean_mutation"]; present {
			m, ok := raw.(map[string]any)
			if !ok {
				return nil, nil, bad("obiclean_mutation")
			}
			for k, v := range m {
				s, ok := v.(string)
				if !ok {
					return nil, nil, bad("obiclean_mutation")
				}
				o.Mutation[k] = s
			}
		}
		var okb bool
		if o.Head, okb = ann["obiclean_head"].(bool); !okb {
			return nil, nil, bad("obiclean_head")
		}
		for key, dst := range map[string]*int{"obiclean_headcount": &o.HeadCount, "obiclean_internalcount": &o.Internal,
			"obiclean_singletoncount": &o.Singleton, "obiclean_samplecount": &o.Samples, "count": &o.Count} {
			n, ok := asInt(ann[key])
			if !ok {
				return nil, nil, bad(key)
			}
			*dst = n
		}
		c, _ := json.Marshal([]any{o.Seq, o.Status, o.Weight, o.Mutation, o.Merged, o.Count, o.Head, o.HeadCount, o.Internal, o.Singleton, o.Samples})
		o.Canon = string(c)
		if _, dup := res[r.ID]; dup {
			return nil, nil, fmt.Errorf("record %s is written twice", r.ID)
		}
		res[r.ID] = o
		order = append(order, r.ID)
	}
	return res, order, nil
}

func (c cliCase) args(r cliRun, file string, head bool) []string {
	a := []string{"-d", strconv.Itoa(c.Dist), "-r", strconv.FormatFloat(c.Ratio, 'g', -1, 64), "--max-cpu", strconv.Itoa(r.MaxCPU)}
	if c.BatchSize > 0 {
		a = append(a, "--batch-size", strconv.Itoa(c.BatchSize))
	}
	if head {
		a = append(a, "-H")
	}
	return append(a, file)
}

var errInconclusive = fmt.Errorf("inconclusive")

func runClean(c cliCase, r cliRun, file string, head bool) (map[string]outRec, string, error) {
	args := c.args(r, file, head)
	var env []string
	if r.Jitter != "" {
		env = append(env, "VERIF_JITTER="+r.Jitter)
	}
	res := run.Cmd(run.Opt{Env: env, Timeout: time.Duration(c.TimeoutS) * time.Second}, "obiclean", args...)
	desc := "obiclean " + strings.Join(args[:len(args)-1], " ") + " <file>"
	if r.Jitter != "" {
		desc = "VERIF_JITTER=" + r.Jitter + " " + desc
	}
	if res.TimedOut {
		return nil, desc, errInconclusive
	}
	if res.Exit != 0 {
		return nil, desc, fmt.Errorf("%s: exit status %d\nstderr: %s", desc, res.Exit, tail(res.Stderr, 1500))
	}
	out, _, err := parseOutput(res.Stdout)
	if err != nil {
		return nil, desc, fmt.Errorf("%s: output not readable: %v", desc, err)
	}
	return out, desc, nil
}

// tail keeps the last n bytes of the error stream and, for a Go runtime crash,
// the lines announcing it (they come first, before the stacks).
func tail(b []byte, n int) string {
	head := ""
	for _, mark := range []string{"panic:", "fatal error:"} {
		if i := bytes.Index(b, []byte(mark)); i >= 0 && len(b)-i > n {
			head = string(b[i:min(len(b), i+600)]) + "\n[...]\n"
			break
		}
	}
	if len(b) > n {
		b = b[len(b)-n:]
	}
	return strings.ReplaceAll(head+string(b), "\r", "\n")
}

// checkRecordConsistency: what the attribute names say about one output record.
func checkRecordConsistency(id string, r rec, o outRec) error {
	if o.Seq != r.Seq {
		return fmt.Errorf("record %s: sequence changed from %s to %s", id, r.Seq, o.Seq)
	}
	if o.Count != r.total() {
		return fmt.Errorf("record %s: count %d, the input says %d", id, o.Count, r.total())
	}
	if len(o.Merged) > 0 || !r.Plain {
		if fmt.Sprint(o.Merged) != fmt.Sprint(r.Counts) {
			return fmt.Errorf("record %s: merged_sample %v, the input says %v", id, o.Merged, r.Counts)
		}
	}
	if len(o.Status) != len(r.Counts) || len(o.Weight) != len(r.Counts) {
		return fmt.Errorf("record %s: belongs to samples %v but obiclean_status=%v obiclean_weight=%v", id, sortedKeys(r.Counts), o.Status, o.Weight)
	}
	h, i, s := 0, 0, 0
	for _, k := range sortedKeys(r.Counts) {
		st, ok := o.Status[k]
		if _, okw := o.Weight[k]; !ok || !okw {
			return fmt.Errorf("record %s: no status/weight for its sample %q (status %v, weight %v)", id, k, o.Status, o.Weight)
		}
		switch st {
		case "h":
			h++
		case "i":
			i++
		case "s":
			s++
		default:
			return fmt.Errorf("record %s: status %q in sample %q is none of i, h, s", id, st, k)
		}
	}
	if o.HeadCount != h || o.Internal != i || o.Singleton != s || o.Samples != h+i+s || o.Head != (h+s > 0) {
		return fmt.Errorf("record %s: status %v but obiclean_head=%v headcount=%d internalcount=%d singletoncount=%d samplecount=%d",
			id, o.Status, o.Head, o.HeadCount, o.Internal, o.Singleton, o.Samples)
	}
	return nil
}

// checkCLIModel compares the reference run at the defaults with the model
// (quadratic(levOne) on the small data sets).
func checkCLIModel(c cliCase, out map[string]outRec, model graphModel) error {
	seqOf := map[string]string{}
	for _, r := range c.Recs {
		seqOf[r.Id] = r.Seq
	}
	wantMut := map[string]map[string]bool{} // son -> fathers (any sample)
	samples := refSamples(c.Recs)
	for _, name := range sortedKeys(samples) {
		g := model(samples[name])
		for _, n := range samples[name] {
			want := statusOf(len(g.Fathers[n.Id]), g.Sons[n.Id])
			if got := out[n.Id].Status[name]; got != want {
				return fmt.Errorf("record %s (%s, count %d) has status %q in sample %q; the model says %q (fathers %v, %d sons)",
					n.Id, n.Seq, n.Count, got, name, want, g.Fathers[n.Id], g.Sons[n.Id])
			}
			if w := out[n.Id].Weight[name]; w < n.Count || (g.Sons[n.Id] == 0 && w != n.Count) {
				return fmt.Errorf("record %s has weight %d in sample %q with count %d and %d sons", n.Id, w, name, n.Count, g.Sons[n.Id])
			}
			for _, f := range g.Fathers[n.Id] {
				if wantMut[n.Id] == nil {
					wantMut[n.Id] = map[string]bool{}
				}
				wantMut[n.Id][f] = true
			}
		}
		// what is asserted of the weights through hook H4 holds for the weights the command writes
		o := &obsSample{Nodes: map[string]obsNode{}}
		for _, n := range samples[name] {
			o.Nodes[n.Id] = obsNode{Count: n.Count, Weight: out[n.Id].Weight[name]}
		}
		if err := checkWeights(name, samples[name], g, o); err != nil {
			return fmt.Errorf("obiclean_weight: %v", err)
		}
	}
	for _, r := range c.Recs {
		got := out[r.Id].Mutation
		for _, f := range sortedKeys(got) {
			if !wantMut[r.Id][f] {
				return fmt.Errorf("record %s: obiclean_mutation names %s which is not one of its fathers in any sample (model fathers %v)", r.Id, f, sortedKeys(wantMut[r.Id]))
			}
			if err := checkMutationText(got[f], seqOf[f], r.Seq); err != nil {
				return fmt.Errorf("record %s (%s) -> father %s (%s): %v", r.Id, r.Seq, f, seqOf[f], err)
			}
		}
		for _, f := range sortedKeys(wantMut[r.Id]) {
			if _, ok := got[f]; !ok {
				return fmt.Errorf("record %s: obiclean_mutation %v does not report its father %s", r.Id, got, f)
			}
		}
	}
	return nil
}

func checkCLI(c cliCase) error { return checkCLIWith(c, quadratic(levOne)) }

// staleOf rebuilds the obiclean annotations of an output record.
func staleOf(o outRec) map[string]any {
	m := map[string]any{"obiclean_status": o.Status, "obiclean_weight": o.Weight, "obiclean_head": o.Head,
		"obiclean_headcount": o.HeadCount, "obiclean_internalcount": o.Internal,
		"obiclean_singletoncount": o.Singleton, "obiclean_samplecount": o.Samples}
	if len(o.Mutation) > 0 {
		m["obiclean_mutation"] = o.Mutation
	}
	return m
}

func writeFasta(recs []rec) (string, error) {
	f, err := os.CreateTemp(run.WorkDir(), "c13-*.fasta")
	if err != nil {
		return "", err
	}
	defer f.Close()
	if _, err := f.Write(fastaOf(recs)); err != nil {
		return "", err
	}
	return f.Name(), nil
}

// withHistory runs the first step of a two-step history and returns the records
// of the case carrying the annotations that step wrote.
func withHistory(c cliCase) ([]rec, error) {
	if c.Prev == nil {
		return c.Recs, nil
	}
	file, err := writeFasta(c.Prev.Recs)
	if err != nil {
		return nil, err
	}
	defer os.Remove(file)
	p := cliCase{Recs: c.Prev.Recs, Dist: c.Prev.Dist, Ratio: c.Prev.Ratio, TimeoutS: c.TimeoutS}
	out, desc, err := runClean(p, cliRun{MaxCPU: c.Prev.MaxCPU}, file, false)
	if err != nil {
		if err == errInconclusive {
			return nil, err
		}
		return nil, fmt.Errorf("first step of the history: %v", err)
	}
	if len(out) != len(c.Prev.Recs) {
		return nil, fmt.Errorf("first step of the history: %s: %d records written for %d records read", desc, len(out), len(c.Prev.Recs))
	}
	recs := append([]rec(nil), c.Recs...)
	for i, r := range recs {
		if o, ok := out[r.Id]; ok {
			recs[i].Stale = staleOf(o)
		}
	}
	return recs, nil
}

func checkCLIWith(c cliCase, model graphModel) error {
	if !run.Have("obiclean") {
		return fmt.Errorf("the obiclean command was not built")
	}
	hrecs, err := withHistory(c)
	if err == errInconclusive {
		evid.Class("timeout_inconclusive", 1)
		return nil
	}
	if err != nil {
		return err
	}
	c.Recs = hrecs
	file, err := writeFasta(c.Recs)
	if err != nil {
		return err
	}
	defer os.Remove(file)
	stale := false
	for _, r := range c.Recs {
		stale = stale || len(r.Stale) > 0
	}

	byId := map[string]rec{}
	for _, r := range c.Recs {
		byId[r.Id] = r
	}
	var base map[string]outRec
	var baseDesc string
	for k, r := range c.Runs {
		out, desc, err := runClean(c, r, file, false)
		if err == errInconclusive {
			evid.Class("timeout_inconclusive", 1)
			return nil
		}
		if err != nil {
			return err
		}
		if len(out) != len(c.Recs) {
			return fmt.Errorf("%s: %d records written for %d records read", desc, len(out), len(c.Recs))
		}
		for _, rc := range c.Recs {
			o, ok := out[rc.Id]
			if !ok {
				return fmt.Errorf("%s: record %s is missing from the output", desc, rc.Id)
			}
			if err := checkRecordConsistency(rc.Id, rc, o); err != nil {
				return fmt.Errorf("%s: %v", desc, err)
			}
		}
		if k == 0 {
			base, baseDesc = out, desc
			if stale {
				// the annotations of a previous run are results, not inputs: the same file
				// without them gives the same output
				clean := append([]rec(nil), c.Recs...)
				for i := range clean {
					clean[i].Stale = nil
				}
				cfile, err := writeFasta(clean)
				if err != nil {
					return err
				}
				defer os.Remove(cfile)
				cout, cdesc, err := runClean(c, r, cfile, false)
				if err == errInconclusive {
					evid.Class("timeout_inconclusive", 1)
					return nil
				}
				if err != nil {
					return err
				}
				for _, rc := range c.Recs {
					if cout[rc.Id].Canon != base[rc.Id].Canon {
						st, _ := json.Marshal(rc.Stale)
						return fmt.Errorf("record %s: the obiclean annotations the input file already carried (on this record: %s) change the result of %s:\n  input with these annotations   : %s\n  same input without them (%s): %s",
							rc.Id, st, baseDesc, base[rc.Id].Canon, cdesc, cout[rc.Id].Canon)
					}
				}
			}
			if c.Dist == 1 && c.Ratio == 1.0 {
				if err := checkCLIModel(c, out, model); err != nil {
					return fmt.Errorf("%s: %v", desc, err)
				}
			}
			if c.Dist >= 2 && c.Ratio == 1.0 {
				if err := checkCLIModelDist(c.Recs, c.Dist, out); err != nil {
					return fmt.Errorf("%s: %v", desc, err)
				}
			}
			if c.NoHeadRun {
				continue
			}
			// -H keeps exactly the records flagged obiclean_head, unchanged
			hout, hdesc, err := runClean(c, r, file, true)
			if err == errInconclusive {
				evid.Class("timeout_inconclusive", 1)
				return nil
			}
			if err != nil {
				return err
			}
			for _, rc := range c.Recs {
				o, kept := hout[rc.Id]
				if kept != base[rc.Id].Head {
					return fmt.Errorf("%s: record %s kept=%v although the run without -H flags obiclean_head=%v (status %v)", hdesc, rc.Id, kept, base[rc.Id].Head, base[rc.Id].Status)
				}
				if kept && o.Canon != base[rc.Id].Canon {
					return fmt.Errorf("record %s differs between\n  %s: %s\n  %s: %s", rc.Id, baseDesc, base[rc.Id].Canon, hdesc, o.Canon)
				}
			}
			continue
		}
		var diffs []string
		for _, rc := range c.Recs {
			if out[rc.Id].Canon != base[rc.Id].Canon {
				diffs = append(diffs, rc.Id)
			}
		}
		if len(diffs) > 0 {
			sort.Strings(diffs)
			id := diffs[0]
			return fmt.Errorf("%d records differ (first: %s) between\n  run 0  %s: %s\n  run %d  %s: %s", len(diffs), id, baseDesc, base[id].Canon, k, desc, out[id].Canon)
		}
	}
	return nil
}

func TestPropCLI(t *testing.T) {
	rapid.Check(t, func(rt *rapid.T) {
		kind := rapid.IntRange(0, 4).Draw(rt, "big")
		big := kind == 0
		dataDist := 0
		var recs []rec
		var cl []string
		switch {
		case big:
			// several reader batches with many ties: the shape on which the order of arrival matters
			recs, cl = genContention(rt, starOpt{maxSons: 150, maxLen: 50, edits: rapid.IntRange(1, 3).Draw(rt, "edits")})
			cl = append(cl, "cli:contention_shape")
		case kind == 4:
			// variants at about d true differences plus compatible ambiguity codes, for --distance d (dist_test.go)
			dataDist = rapid.IntRange(2, 3).Draw(rt, "data_distance")
			recs, cl = genDistDataset(rt, dataDist, evid.Pick(30, 50))
			cl = append(cl, "cli:bounded_variants_shape")
		default:
			recs, cl = genDatasetZ(rt, evid.Pick(40, 60))
		}
		// history of the file: fresh from obiuniq, annotated by an earlier obiclean run on an
		// earlier state of the data set (two steps), or carrying arbitrary obiclean_* annotations
		history := "none"
		if !big {
			history = rapid.SampledFrom([]string{"none", "none", "two_step", "stale"}).Draw(rt, "history")
		}
		var prev *prevRun
		switch history {
		case "two_step":
			prev = &prevRun{Recs: recs,
				Dist:   rapid.SampledFrom([]int{1, 1, 2}).Draw(rt, "prev_distance"),
				Ratio:  rapid.SampledFrom([]float64{1, 1, 0.5}).Draw(rt, "prev_ratio"),
				MaxCPU: rapid.SampledFrom([]int{2, 4}).Draw(rt, "prev_maxcpu")}
			var hcl []string
			recs, hcl = genSecondStep(rt, recs)
			cl = append(cl, hcl...)
		case "stale":
			recs = genStale(rt, recs)
		}
		cl = append(cl, "cli:history:"+history)
		c := cliCase{Recs: recs, Prev: prev,
			Dist:      rapid.SampledFrom([]int{1, 1, 2, 3}).Draw(rt, "distance"),
			Ratio:     rapid.SampledFrom([]float64{1, 1, 0.5, 0.1}).Draw(rt, "ratio"),
			BatchSize: rapid.SampledFrom([]int{0, 0, 1, 7, 50}).Draw(rt, "batchsize")}
		if dataDist > 0 && rapid.IntRange(0, 3).Draw(rt, "use_data_distance") != 0 {
			c.Dist = dataDist
			c.Ratio = rapid.SampledFrom([]float64{1, 1, 1, 0.5}).Draw(rt, "ratio_d")
		}
		extension := 0
		if c.Dist >= 2 {
			var dcl []string
			extension, dcl = distClasses(recs, c.Dist)
			if c.Ratio == 1 {
				for _, x := range dcl {
					cl = append(cl, "cli:"+x)
				}
			}
		}
		nruns := rapid.IntRange(4, 6).Draw(rt, "nruns")
		for k := 0; k < nruns; k++ {
			r := cliRun{MaxCPU: rapid.SampledFrom([]int{1, 2, 3, 4, 8, 16, 32}).Draw(rt, "maxcpu")}
			if k > 0 && rapid.IntRange(0, 3).Draw(rt, "same_as_first") == 0 {
				r = c.Runs[0] // plain repetition of the reference run
			} else {
				if rapid.Bool().Draw(rt, "jitter") {
					r.Jitter = fmt.Sprintf("%d:%d", rapid.IntRange(1, 1000).Draw(rt, "jseed"), rapid.SampledFrom([]int{200, 2000}).Draw(rt, "jmax"))
				}
			}
			c.Runs = append(c.Runs, r)
		}
		_, mcl := modelClasses(recs)
		internal := extension > 0 // a link of the second pass of --distance >= 2 makes its son internal
		for _, x := range mcl {
			if x == "status:i" {
				internal = true
			}
		}
		cl = append(cl, fmt.Sprintf("cli:distance:%d", c.Dist), fmt.Sprintf("cli:ratio:%v", c.Ratio), fmt.Sprintf("cli:batch-size:%d", c.BatchSize))
		if internal {
			cl = append(cl, "cli:nontrivial")
		}
		hkey := uint64(0)
		if prev != nil {
			hkey = evid.Hash(hashRecs(prev.Recs), prev.Dist, prev.Ratio)
		}
		for _, r := range recs {
			if len(r.Stale) > 0 {
				j, _ := json.Marshal(r.Stale)
				hkey = evid.Hash(hkey, r.Id, string(j))
			}
		}
		evid.Eval("cli", evid.Hash(hashRecs(recs), c.Dist, c.Ratio, c.BatchSize, fmt.Sprint(c.Runs), hkey), internal,
			map[string]any{"records": len(recs), "distance": c.Dist, "ratio": c.Ratio, "batch_size": c.BatchSize, "runs": c.Runs, "first_record": recs[0], "history": history}, cl...)
		evid.Class("cli_runs", int64(len(c.Runs)+1))
		switch history {
		case "stale": // the run on the file without annotations
			evid.Class("cli_runs", 1)
		case "two_step": // the same, and the first step
			evid.Class("cli_runs", 2)
		}
		if err := checkCLI(c); err != nil {
			evid.Fail(rt, "cli", c, err)
		}
	})
}

// ------------------------------------------------------------------ files that already went through obiclean

var staleSampleNames = []string{"A", "B", "15a_F730814", "d-4", "NA", "Z9", "old sample"}

// genStale gives arbitrary (well-typed) obiclean_* annotations to about half of
// the records: statuses and weights for samples the record belongs to or not,
// mutations naming records of the data set or records that do not exist.
func genStale(t *rapid.T, recs []rec) []rec {
	out := append([]rec(nil), recs...)
	some := false
	for i := range out {
		if i == len(out)-1 && !some || rapid.Bool().Draw(t, "stale") {
			some = true
			st := map[string]any{}
			status, weight := map[string]string{}, map[string]int{}
			keys := sortedKeys(out[i].Counts)
			for k := rapid.IntRange(0, 2).Draw(t, "foreign_samples"); k > 0; k-- {
				keys = append(keys, rapid.SampledFrom(staleSampleNames).Draw(t, "foreign"))
			}
			for _, k := range keys {
				if rapid.IntRange(0, 3).Draw(t, "skip") == 0 {
					continue
				}
				status[k] = rapid.SampledFrom([]string{"h", "i", "s"}).Draw(t, "status")
				weight[k] = rapid.SampledFrom([]int{1, 2, 7, 1000, 123456}).Draw(t, "weight")
			}
			mut := map[string]string{}
			for k := rapid.IntRange(0, 2).Draw(t, "nmut"); k > 0; k-- {
				id := "ghost"
				if rapid.Bool().Draw(t, "real_father") {
					id = recs[rapid.IntRange(0, len(recs)-1).Draw(t, "father")].Id
				}
				mut[id] = fmt.Sprintf("(%c)->(%c)@%d", "acgt-"[rapid.IntRange(0, 4).Draw(t, "from")], "acgt"[rapid.IntRange(0, 3).Draw(t, "to")], rapid.IntRange(1, 40).Draw(t, "pos"))
			}
			all := map[string]any{"obiclean_status": status, "obiclean_weight": weight, "obiclean_mutation": mut,
				"obiclean_head":           rapid.Bool().Draw(t, "head"),
				"obiclean_headcount":      rapid.IntRange(0, 3).Draw(t, "hc"),
				"obiclean_internalcount":  rapid.IntRange(0, 3).Draw(t, "ic"),
				"obiclean_singletoncount": rapid.IntRange(0, 3).Draw(t, "sc"),
				"obiclean_samplecount":    rapid.IntRange(0, 5).Draw(t, "nc")}
			for _, k := range sortedKeys(all) {
				if rapid.IntRange(0, 3).Draw(t, "keep_key") != 0 {
					st[k] = all[k]
				}
			}
			if len(st) == 0 {
				st["obiclean_status"] = status
			}
			out[i].Stale = st
		}
	}
	return out
}

// genSecondStep derives the second state of a data set from the first one:
// abundances change (ranks get inverted), records disappear, samples are added
// to or removed from a record, new variants appear.
func genSecondStep(t *rapid.T, recs []rec) ([]rec, []string) {
	classes := map[string]bool{}
	seen := map[string]bool{}
	for _, r := range recs {
		seen[r.Seq] = true
	}
	var out []rec
	for _, r := range recs {
		n := rec{Id: r.Id, Seq: r.Seq, Plain: r.Plain, Counts: map[string]int{}}
		for k, v := range r.Counts {
			n.Counts[k] = v
		}
		switch op := rapid.IntRange(0, 7).Draw(t, "op"); {
		case op == 0 && len(recs) > 1:
			classes["cli:second_step:record_dropped"] = true
			continue
		case op <= 3:
			for _, k := range sortedKeys(n.Counts) {
				c := n.Counts[k]
				n.Counts[k] = rapid.SampledFrom([]int{1, c + 1, 5*c + 1, max(1, c/4), 100001}).Draw(t, "newcount")
			}
			classes["cli:second_step:counts_changed"] = true
		case op == 4 && !n.Plain:
			ks := sortedKeys(n.Counts)
			if len(ks) > 1 && rapid.Bool().Draw(t, "remove_sample") {
				delete(n.Counts, ks[rapid.IntRange(0, len(ks)-1).Draw(t, "which")])
				classes["cli:second_step:sample_removed"] = true
			} else {
				n.Counts[rapid.SampledFrom(sampleNames).Draw(t, "new_sample")] = rapid.SampledFrom([]int{1, 3, 50, 5000}).Draw(t, "count")
				classes["cli:second_step:sample_added_or_recounted"] = true
			}
		}
		out = append(out, n)
	}
	if len(out) == 0 {
		out = append(out, recs[0])
	}
	for k := rapid.IntRange(0, 3).Draw(t, "new_records"); k > 0; k-- {
		p := out[rapid.IntRange(0, len(out)-1).Draw(t, "parent")]
		s, _ := oneVariant(t, p.Seq, 0)
		if len(s) == 0 || seen[s] {
			continue
		}
		seen[s] = true
		n := rec{Id: fmt.Sprintf("n%d", k), Seq: s, Counts: map[string]int{}}
		for _, sname := range sortedKeys(p.Counts) {
			n.Counts[sname] = rapid.SampledFrom([]int{1, 2, 20, 200000}).Draw(t, "count")
		}
		if len(n.Counts) == 1 && n.Counts["NA"] > 0 {
			n.Plain = true // "NA" is the name given to records without sample, not a sample of a merged_sample map
		}
		out = append(out, n)
		classes["cli:second_step:record_added"] = true
	}
	return out, keysOf(classes)
}
