package c13

// Counts of 0 in merged_sample maps.
//
// A merged_sample map produced from a dense sample x sequence table (or edited
// by a script) lists samples in which the sequence has no read: {"A":0,"B":3}.
// obiclean takes the KEYS of the map as the samples of the record
// (obiseq.StatsOn keeps the entry, buildSamples makes one node per entry): the
// record is a node of sample A with count 0.  The statement applies to it as
// to any other node: it is linked to every strictly more abundant sequence at
// one difference (every sequence with at least one read), never receives a son
// (nothing is strictly less abundant than 0; two zero-count sequences at one
// difference tie), gets a status ("i" below a father, "s" otherwise) and a weight
// of 0, and brings nothing to the weights of its ancestors - which must still be
// computed: the weight of a father is its count plus the weights of its sons,
// whether one of them is 0 or not.
//
// Every record keeps at least one read in total (a record with count 0 is not a
// record obiuniq or any table import writes), and zero counts only appear in
// merged_sample maps (the sample/count pair of attributes of a record that did
// not go through obiuniq always carries the count of the record).

import (
	"fmt"

	"pgregory.net/rapid"
)

// genDatasetZ is genDataset followed, in a part of the data sets, by one of
//
//	zeros       : some counts set to 0, some absent samples listed with 0, and a few
//	              new one-difference variants listed with 0 reads in the samples
//	              of their parent (leaves with count 0 below stars and chains)
//	zeros_dense : every record lists every sample of the data set, absent ones with 0
func genDatasetZ(t *rapid.T, maxSeqs int) ([]rec, []string) {
	recs, cl := genDataset(t, maxSeqs)
	mode := rapid.SampledFrom([]string{"none", "none", "none", "zeros", "zeros", "zeros_dense"}).Draw(t, "zero_mode")
	if mode == "none" {
		return recs, cl
	}
	classes := map[string]bool{}
	universe := map[string]bool{}
	for _, r := range recs {
		if r.Plain {
			continue
		}
		for k := range r.Counts {
			universe[k] = true
		}
	}
	if len(universe) == 0 {
		return recs, cl // records without merged_sample map only
	}
	// one more sample, so that a record of a single-sample data set can be listed with 0 somewhere
	for _, s := range sampleNames {
		if !universe[s] {
			if len(universe) == 1 || rapid.IntRange(0, 2).Draw(t, "extra_sample") == 0 {
				universe[s] = true
			}
			break
		}
	}
	names := sortedKeys(universe)
	positive := func(r rec) int {
		n := 0
		for _, v := range r.Counts {
			if v > 0 {
				n++
			}
		}
		return n
	}
	out := make([]rec, len(recs))
	for i, r := range recs {
		n := rec{Id: r.Id, Seq: r.Seq, Plain: r.Plain, Counts: map[string]int{}}
		for k, v := range r.Counts {
			n.Counts[k] = v
		}
		out[i] = n
		if r.Plain {
			continue
		}
		for _, s := range names {
			c, listed := n.Counts[s]
			switch {
			case mode == "zeros_dense":
				if !listed {
					n.Counts[s] = 0
					classes["zero:dense_table"] = true
				}
			case listed && c > 0:
				if rapid.IntRange(0, 5).Draw(t, "to_zero") == 0 {
					if positive(n) == 1 {
						// the reads move to another sample: the record keeps its total
						o := names[(indexOfString(names, s)+1)%len(names)]
						if o == s {
							continue
						}
						n.Counts[o] += c
					}
					n.Counts[s] = 0
					classes["zero:count_set_to_zero"] = true
				}
			case !listed:
				if rapid.IntRange(0, 3).Draw(t, "list_absent") == 0 {
					n.Counts[s] = 0
					classes["zero:absent_sample_listed_with_zero"] = true
				}
			}
		}
	}
	if mode == "zeros" {
		// leaves with count 0: new one-difference variants of existing records, listed with 0
		// reads in the samples of their parent
		seen := map[string]bool{}
		for _, r := range out {
			seen[r.Seq] = true
		}
		for k := rapid.IntRange(1, 4).Draw(t, "zero_leaves"); k > 0; k-- {
			p := out[rapid.IntRange(0, len(out)-1).Draw(t, "zero_parent")]
			s, _ := oneVariant(t, p.Seq, 0)
			if len(s) == 0 || seen[s] {
				continue
			}
			seen[s] = true
			z := rec{Id: fmt.Sprintf("z%d", k), Seq: s, Counts: map[string]int{}}
			for _, sname := range sortedKeys(p.Counts) {
				if sname == "NA" {
					continue // the name of "no sample attribute", not a key of a merged_sample map
				}
				if rapid.IntRange(0, 3).Draw(t, "zero_leaf_reads") == 0 {
					z.Counts[sname] = rapid.SampledFrom([]int{1, 2, 100000}).Draw(t, "zero_leaf_count")
				} else {
					z.Counts[sname] = 0
				}
			}
			if positive(z) == 0 {
				// its reads are in another sample
				other := rapid.SampledFrom(names).Draw(t, "zero_leaf_sample")
				z.Counts[other] += rapid.SampledFrom([]int{1, 3, 50}).Draw(t, "zero_leaf_count")
			}
			out = append(out, z)
			classes["zero:leaf_variant_listed_with_zero"] = true
		}
	}
	for _, c := range zeroClasses(out) {
		classes[c] = true
	}
	return out, append(cl, keysOf(classes)...)
}

func indexOfString(s []string, x string) int {
	for i, v := range s {
		if v == x {
			return i
		}
	}
	return 0
}

// zeroClasses labels, from the model graph, where the zero counts of a data set sit.
func zeroClasses(recs []rec) []string {
	cl := map[string]bool{}
	for _, nodes := range refSamples(recs) {
		zero := false
		for _, n := range nodes {
			zero = zero || n.Count == 0
		}
		if !zero {
			continue
		}
		cl["zero:sample_with_zero_count_entry"] = true
		g := refGraphFast(nodes)
		for i, n := range nodes {
			if n.Count != 0 {
				continue
			}
			fs := g.Fathers[n.Id]
			switch {
			case len(fs) == 0:
				cl["zero:zero_count_singleton"] = true
			case len(fs) == 1:
				cl["zero:zero_count_son"] = true
			default:
				cl["zero:zero_count_son_with_several_fathers"] = true
			}
			for _, f := range fs {
				if len(g.Fathers[f]) > 0 {
					cl["zero:zero_count_son_below_chain_depth>=2"] = true
				}
				if g.Sons[f] > 1 {
					cl["zero:zero_count_son_in_star"] = true
				}
			}
			for j := i + 1; j < len(nodes); j++ {
				if nodes[j].Count == 0 && oneEdit(n.Seq, nodes[j].Seq) {
					cl["zero:tie_of_zero_counts_at_distance_one"] = true
				}
			}
		}
	}
	return sortedKeys(cl)
}
