package c13

import (
	"fmt"
	"slices"
	"sort"
)

// refGraphFast builds the same graph as refGraph(nodes, oneEdit) without testing
// every pair, for the samples of thousands of sequences.
//
// Two strings differ by exactly one edit iff
//   - they have the same length and become equal when the SAME position p is
//     removed from both (one substitution at p), the two strings being different, or
//   - the shorter one is the longer one with one position removed (one indel).
//
// Every string is therefore indexed by the hashes of its L one-position deletions;
// strings sharing a (hash, position) pair are candidates for a substitution, a
// string whose own hash equals a deletion hash of another one is a candidate for
// an indel.  Equal strings have equal hashes, so no neighbour can be missed; every
// candidate is confirmed with oneEdit, so a hash collision cannot add a link.
// modelClasses cross-checks it against refGraph on every small data set.
func refGraphFast(nodes []refNode) *refSample {
	g := &refSample{Nodes: nodes, Fathers: map[string][]string{}, Sons: map[string]int{}}
	const B = 0x9e3779b97f4a7c15 | 1
	// inverse of B modulo 2^64 (Newton iteration)
	binv := uint64(B)
	for i := 0; i < 6; i++ {
		binv *= 2 - B*binv
	}
	type entry struct {
		key uint64
		idx int32
	}
	var subs []entry                     // (hash of the string without position p, mixed with p and the length)
	full := map[uint64][]int32{}         // hash of the whole string -> nodes
	dels := make([][]uint64, len(nodes)) // deletion hashes of node i (consecutive duplicates removed)
	var pre, pw []uint64
	for i, n := range nodes {
		s := n.Seq
		L := len(s)
		pre = append(pre[:0], 0)
		pw = append(pw[:0], 1)
		for p := 0; p < L; p++ {
			pre = append(pre, pre[p]+(uint64(s[p])+1)*pw[p])
			pw = append(pw, pw[p]*B)
		}
		h := pre[L]
		full[h] = append(full[h], int32(i))
		for p := 0; p < L; p++ {
			d := pre[p] + (h-pre[p+1])*binv
			subs = append(subs, entry{(d ^ uint64(p+1)*0xd6e8feb86659fd93) + uint64(L)*0xa0761d6478bd642f, int32(i)})
			if k := len(dels[i]); k == 0 || dels[i][k-1] != d {
				dels[i] = append(dels[i], d)
			}
		}
	}
	link := func(i, j int32) {
		a, b := nodes[i], nodes[j]
		if a.Count == b.Count || !oneEdit(a.Seq, b.Seq) {
			return
		}
		if a.Count > b.Count {
			a, b = b, a
		}
		g.Fathers[a.Id] = append(g.Fathers[a.Id], b.Id)
	}
	slices.SortFunc(subs, func(x, y entry) int {
		switch {
		case x.key < y.key:
			return -1
		case x.key > y.key:
			return 1
		}
		return int(x.idx) - int(y.idx)
	})
	for lo := 0; lo < len(subs); {
		hi := lo + 1
		for hi < len(subs) && subs[hi].key == subs[lo].key {
			hi++
		}
		for x := lo; x < hi; x++ {
			for y := x + 1; y < hi; y++ {
				if subs[x].idx != subs[y].idx && len(nodes[subs[x].idx].Seq) == len(nodes[subs[y].idx].Seq) {
					link(subs[x].idx, subs[y].idx)
				}
			}
		}
		lo = hi
	}
	for i := range nodes {
		for _, d := range dels[i] {
			for _, j := range full[d] {
				if len(nodes[j].Seq)+1 == len(nodes[i].Seq) {
					link(int32(i), j)
				}
			}
		}
	}
	// a pair can be found several times (identifiers are unique within a data set)
	for id, f := range g.Fathers {
		sort.Strings(f)
		f = slices.Compact(f)
		g.Fathers[id] = f
		for _, x := range f {
			g.Sons[x]++
		}
	}
	return g
}

// sameGraph describes the first difference between two model graphs ("" if none).
func sameGraph(a, b *refSample) string {
	for _, n := range a.Nodes {
		if fmt.Sprint(a.Fathers[n.Id]) != fmt.Sprint(b.Fathers[n.Id]) {
			return fmt.Sprintf("fathers of %s (%s, count %d): %v vs %v", n.Id, n.Seq, n.Count, a.Fathers[n.Id], b.Fathers[n.Id])
		}
		if a.Sons[n.Id] != b.Sons[n.Id] {
			return fmt.Sprintf("sons of %s: %d vs %d", n.Id, a.Sons[n.Id], b.Sons[n.Id])
		}
	}
	if len(a.Fathers) != len(b.Fathers) {
		return fmt.Sprintf("%d vs %d sons with fathers", len(a.Fathers), len(b.Fathers))
	}
	return ""
}

// linksOf returns the number of links of the model graph.
func linksOf(g *refSample) int {
	n := 0
	for _, f := range g.Fathers {
		n += len(f)
	}
	return n
}
