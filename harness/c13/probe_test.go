package c13

import (
	"fmt"
	"os"
	"testing"
	"time"
)

func TestProbe(t *testing.T) {
	dn, _ := os.OpenFile("/dev/null", os.O_WRONLY, 0)
	os.Stderr = dn
	father := ""
	for i := 0; i < 100; i++ {
		father += string("acgt"[(i*7+i/3)%4])
	}
	recs := []rec{{Id: "F", Seq: father, Counts: map[string]int{"A": 1000}}}
	for i := 0; i < 290; i++ {
		p := i % 100
		b := []byte(father)
		c := "acgt"[(i/100+1+indexOfB(b[p]))%4]
		b[p] = c
		recs = append(recs, rec{Id: fmt.Sprintf("s%d", i), Seq: string(b), Counts: map[string]int{"A": 1}})
	}
	for _, w := range []int{1, 4, 16, 32} {
		bad := 0
		t0 := time.Now()
		for r := 0; r < 30; r++ {
			o, err := build(recs, 1, 1.0, w)
			if err != nil {
				t.Fatal(err)
			}
			if err := selfConsistent("A", o["A"]); err != nil {
				bad++
				if bad == 1 {
					fmt.Println(err)
				}
			}
		}
		fmt.Printf("workers %d: bad %d/30  %.1f ms/build\n", w, bad, float64(time.Since(t0).Milliseconds())/30)
	}
}

func indexOfB(c byte) int {
	for i := 0; i < 4; i++ {
		if "acgt"[i] == c {
			return i
		}
	}
	return 0
}
