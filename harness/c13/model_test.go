package c13

import (
	"fmt"
	"sort"
	"strconv"
	"strings"

	"git.metabarcoding.org/obitools/obitools4/obitools4/pkg/obiseq"
	"git.metabarcoding.org/obitools/obitools4/obitools4/pkg/obitools/obiclean"

	"verifharness/internal/fatal"
)

// ------------------------------------------------------------------ data sets

// rec is one sequence record of a generated data set.
//
//	Counts : sample name -> number of reads (the merged_sample map written by obiuniq -m sample)
//	Plain  : the record carries no merged_sample map but the two attributes
//	         sample=<the single key of Counts> and count=<its value>
//	         (a record that never went through obiuniq);
//	         with the sample name "NA" the sample attribute is left out altogether.
//	Stale  : obiclean_* annotations the record already carries in the input FILE (what a
//	         previous obiclean run left behind); results, not inputs: they must not
//	         influence anything.  Only used by the command-line checks.
type rec struct {
	Id     string
	Seq    string
	Counts map[string]int
	Plain  bool           `json:",omitempty"`
	Stale  map[string]any `json:",omitempty"`
	// Alt : a second level of counts, PCR name -> number of reads (the merged_pcr map written
	// by obiuniq -m pcr), for the runs with --sample pcr.  Only used by the history checks.
	Alt map[string]int `json:",omitempty"`
}

func (r rec) total() int {
	n := 0
	for _, v := range r.Counts {
		n += v
	}
	return n
}

func sortedKeys[V any](m map[string]V) []string {
	ks := make([]string, 0, len(m))
	for k := range m {
		ks = append(ks, k)
	}
	sort.Strings(ks)
	return ks
}

// bioseqs builds fresh obitools4 sequence objects for the records.
func bioseqs(recs []rec) obiseq.BioSequenceSlice {
	out := make(obiseq.BioSequenceSlice, 0, len(recs))
	for _, r := range recs {
		s := obiseq.NewBioSequence(r.Id, []byte(r.Seq), "")
		s.SetCount(r.total())
		if r.Plain {
			for _, k := range sortedKeys(r.Counts) {
				if k != "NA" {
					s.SetAttribute("sample", k)
				}
			}
		} else {
			m := make(map[string]int, len(r.Counts))
			for k, v := range r.Counts {
				m[k] = v
			}
			s.SetAttribute("merged_sample", m)
		}
		out = append(out, s)
	}
	return out
}

// ------------------------------------------------------------------ observed graph

type obsEdge struct {
	Son, Father string // ids
	Pos         int
	From, To    byte
	Dist        int
	Mutation    string
}

type obsNode struct {
	Count, SonCount, Weight int
	Status                  string
}

type obsSample struct {
	Nodes map[string]obsNode
	Order []string  // node ids in the order of the node array of the implementation
	Edges []obsEdge // sorted by (son, father)
}

// build runs the real graph construction through hook H4.
func build(recs []rec, dist int, ratio float64, workers int) (map[string]*obsSample, error) {
	seqs := bioseqs(recs)
	var raw map[string]*obiclean.VerifSample
	out := fatal.Run(func() { raw = obiclean.VerifBuildGraph(seqs, "sample", dist, ratio, workers) })
	if !out.Completed {
		return nil, fmt.Errorf("VerifBuildGraph(%d sequences, sample, distance %d, ratio %v, %d workers) did not return: %v\n%s",
			len(recs), dist, ratio, workers, out, out.Stack)
	}
	res := make(map[string]*obsSample, len(raw))
	for name, vs := range raw {
		o := &obsSample{Nodes: map[string]obsNode{}}
		for i, id := range vs.Ids {
			if _, dup := o.Nodes[id]; dup {
				return nil, fmt.Errorf("sample %q: id %q listed twice in the node array", name, id)
			}
			o.Nodes[id] = obsNode{Count: vs.Counts[i], SonCount: vs.SonCount[i], Weight: vs.Weight[i], Status: vs.Status[i]}
			o.Order = append(o.Order, id)
		}
		for _, e := range vs.Edges {
			if e.Son < 0 || e.Son >= len(vs.Ids) || e.Father < 0 || e.Father >= len(vs.Ids) {
				return nil, fmt.Errorf("sample %q: edge %+v points outside the node array (%d nodes)", name, e, len(vs.Ids))
			}
			o.Edges = append(o.Edges, obsEdge{Son: vs.Ids[e.Son], Father: vs.Ids[e.Father], Pos: e.Pos, From: e.From, To: e.To, Dist: e.Dist, Mutation: e.Mutation})
		}
		sort.Slice(o.Edges, func(i, j int) bool {
			if o.Edges[i].Son != o.Edges[j].Son {
				return o.Edges[i].Son < o.Edges[j].Son
			}
			return o.Edges[i].Father < o.Edges[j].Father
		})
		res[name] = o
	}
	return res, nil
}

// selfConsistent checks what must hold for every distance and ratio: no edge is
// listed twice, the son counter of every node is its in-degree in the returned
// edge list, and the status follows from edges and in-degree.
func selfConsistent(name string, o *obsSample) error {
	indeg := map[string]int{}
	outdeg := map[string]int{}
	for i, e := range o.Edges {
		if i > 0 && o.Edges[i-1].Son == e.Son && o.Edges[i-1].Father == e.Father {
			return fmt.Errorf("sample %q: edge %s -> %s is listed twice", name, e.Son, e.Father)
		}
		if e.Son == e.Father {
			return fmt.Errorf("sample %q: %s is linked to itself", name, e.Son)
		}
		indeg[e.Father]++
		outdeg[e.Son]++
	}
	for _, id := range o.Order {
		n := o.Nodes[id]
		if n.SonCount != indeg[id] {
			return fmt.Errorf("sample %q: node %s has SonCount %d but %d edges point to it", name, id, n.SonCount, indeg[id])
		}
		want := statusOf(outdeg[id], indeg[id])
		if n.Status != want {
			return fmt.Errorf("sample %q: node %s has status %q; with %d fathers and %d sons it is %q", name, id, n.Status, outdeg[id], indeg[id], want)
		}
	}
	return nil
}

func statusOf(fathers, sons int) string {
	switch {
	case fathers > 0:
		return "i"
	case sons > 0:
		return "h"
	}
	return "s"
}

// diffSamples describes the first difference between two observed results.
func diffSamples(a, b map[string]*obsSample) string {
	for _, name := range sortedKeys(a) {
		x, y := a[name], b[name]
		if y == nil {
			return fmt.Sprintf("sample %q missing", name)
		}
		if len(x.Nodes) != len(y.Nodes) {
			return fmt.Sprintf("sample %q: %d vs %d nodes", name, len(x.Nodes), len(y.Nodes))
		}
		for _, id := range sortedKeys(x.Nodes) {
			if x.Nodes[id] != y.Nodes[id] {
				return fmt.Sprintf("sample %q node %s: {count,sons,weight,status} = %+v vs %+v", name, id, x.Nodes[id], y.Nodes[id])
			}
		}
		if len(x.Edges) != len(y.Edges) {
			return fmt.Sprintf("sample %q: %d vs %d edges", name, len(x.Edges), len(y.Edges))
		}
		for i := range x.Edges {
			if x.Edges[i] != y.Edges[i] {
				return fmt.Sprintf("sample %q: edge %+v vs %+v", name, x.Edges[i], y.Edges[i])
			}
		}
	}
	if len(a) != len(b) {
		return fmt.Sprintf("%d vs %d samples", len(a), len(b))
	}
	return ""
}

// ------------------------------------------------------------------ reference model

// oneEdit says whether a and b differ by exactly one substitution, one
// insertion or one deletion.  Written without dynamic programming (common
// prefix + common suffix must cover all but one symbol of the longer string) so
// that it can be used on the 1000-node contention data sets; on the small data
// sets it is cross-checked against ref.Levenshtein.
func oneEdit(a, b string) bool {
	if len(a) > len(b) {
		a, b = b, a
	}
	if len(b)-len(a) > 1 || a == b {
		return false
	}
	p := 0
	for p < len(a) && a[p] == b[p] {
		p++
	}
	if len(a) == len(b) {
		return a[p+1:] == b[p+1:]
	}
	return a[p:] == b[p+1:]
}

type refNode struct {
	Id    string
	Seq   string
	Count int
}

type refSample struct {
	Nodes   []refNode
	Fathers map[string][]string // son -> ids of the fathers
	Sons    map[string]int      // in-degree
}

// refSamples distributes the records over the samples.
func refSamples(recs []rec) map[string][]refNode {
	out := map[string][]refNode{}
	for _, r := range recs {
		for _, k := range sortedKeys(r.Counts) {
			out[k] = append(out[k], refNode{r.Id, r.Seq, r.Counts[k]})
		}
	}
	return out
}

// refGraph is the statement of the property at distance one: s is linked to f
// iff f is strictly more abundant and the two differ by exactly one edit.
func refGraph(nodes []refNode, one func(a, b string) bool) *refSample {
	g := &refSample{Nodes: nodes, Fathers: map[string][]string{}, Sons: map[string]int{}}
	for i := range nodes {
		for j := range nodes {
			if i != j && nodes[j].Count > nodes[i].Count && one(nodes[i].Seq, nodes[j].Seq) {
				g.Fathers[nodes[i].Id] = append(g.Fathers[nodes[i].Id], nodes[j].Id)
				g.Sons[nodes[j].Id]++
			}
		}
	}
	for _, f := range g.Fathers {
		sort.Strings(f)
	}
	return g
}

// applyMutation checks that the reported mutation turns the father into the son:
// substitution from->to at pos, from=='-': to inserted (it sits at pos of the
// son), to=='-': from deleted (it sits at pos of the father).  pos is 0-based.
func applyMutation(father, son string, pos int, from, to byte) error {
	switch {
	case from != '-' && to != '-':
		if len(father) != len(son) || pos < 0 || pos >= len(father) {
			return fmt.Errorf("a substitution at %d does not fit lengths %d (father) and %d (son)", pos, len(father), len(son))
		}
		if father[pos] != from || son[pos] != to || from == to {
			return fmt.Errorf("the father carries %q and the son %q at %d", father[pos], son[pos], pos)
		}
		if father[:pos]+string(to)+father[pos+1:] != son {
			return fmt.Errorf("substituting at %d in the father does not give the son", pos)
		}
	case from == '-' && to != '-':
		if pos < 0 || pos >= len(son) || son[pos] != to {
			return fmt.Errorf("the son does not carry the inserted %q at %d", to, pos)
		}
		if son[:pos]+son[pos+1:] != father {
			return fmt.Errorf("inserting %q at %d in the father does not give the son", to, pos)
		}
	case from != '-' && to == '-':
		if pos < 0 || pos >= len(father) || father[pos] != from {
			return fmt.Errorf("the father does not carry the deleted %q at %d", from, pos)
		}
		if father[:pos]+father[pos+1:] != son {
			return fmt.Errorf("deleting position %d of the father does not give the son", pos)
		}
	default:
		return fmt.Errorf("both symbols are gaps")
	}
	return nil
}

// parseMutation decodes the obiclean_mutation text "(x)->(y)@p" (p is 1-based).
func parseMutation(s string) (from, to byte, pos int, err error) {
	if len(s) < 10 || s[0] != '(' || s[2] != ')' || s[3:5] != "->" || s[5] != '(' || s[7] != ')' || s[8] != '@' {
		return 0, 0, 0, fmt.Errorf("mutation text %q is not of the form (x)->(y)@position", s)
	}
	p, e := strconv.Atoi(strings.TrimSpace(s[9:]))
	if e != nil {
		return 0, 0, 0, fmt.Errorf("mutation text %q: position is not a number", s)
	}
	return s[1], s[6], p, nil
}
