package c13

// Two-step histories through the command: obiclean run on a file that obiclean
// wrote before.  The annotations of the first run are results, not inputs: the
// second run must write what it writes for the same records without them,
// whatever
//   - the options of the two runs (drawn independently: -d, -r, -s, --min-eval-rate,
//     -H for the first one, --max-cpu),
//   - the format of the intermediate file: FASTA or FASTQ, title lines carrying a
//     JSON object (default) or the OBI style key=value; (-O / --output-OBI-header:
//     the two parsers do not give the same Go types to the maps they read back),
//   - what happened to the data set in between (nothing, records dropped or added,
//     counts changed, samples added or removed).
//
// The intermediate file is the real output of the first run: the records that
// did not change are passed on verbatim (title line as written), the records
// whose counts changed keep every field of their title line but count, sample,
// merged_sample and merged_pcr.

import (
	"bytes"
	"encoding/json"
	"fmt"
	"os"
	"sort"
	"strconv"
	"strings"
	"testing"
	"time"

	"pgregory.net/rapid"

	"verifharness/internal/evid"
	"verifharness/internal/run"
)

func init() {
	evid.Reg("cli_history", checkCLIHistory)
}

// ------------------------------------------------------------------ title lines

// dataKeys are the attributes describing the data set (inputs of obiclean).
var dataKeys = []string{"count", "sample", "merged_sample", "merged_pcr"}

// dataAnnotations gives the input attributes of a record.
func dataAnnotations(r rec) map[string]any {
	ann := map[string]any{"count": r.total()}
	if r.Plain {
		for _, k := range sortedKeys(r.Counts) {
			if k != "NA" {
				ann["sample"] = k
			}
		}
	} else {
		ann["merged_sample"] = r.Counts
	}
	if r.Alt != nil {
		ann["merged_pcr"] = r.Alt
	}
	return ann
}

// obiField writes one attribute the way the OBI style writer of obitools4 does
// (WriteFastSeqOBIHeade): key=value; with maps as JSON objects in single quotes.
func obiField(key string, v any) string {
	switch t := v.(type) {
	case map[string]int, map[string]string, map[string]any:
		j, _ := json.Marshal(t)
		return key + "=" + strings.ReplaceAll(string(j), `"`, "'") + "; "
	}
	return fmt.Sprintf("%s=%v; ", key, v)
}

func titleOf(ann map[string]any, header string) string {
	if header == "obi" {
		var b strings.Builder
		for _, k := range sortedKeys(ann) {
			b.WriteString(obiField(k, ann[k]))
		}
		return b.String()
	}
	j, _ := json.Marshal(ann)
	return string(j)
}

type obiFieldText struct{ Key, Raw string } // Raw: the value as written, without the closing ';'

// splitOBITitle cuts an OBI style title line into its key=value; fields.
func splitOBITitle(title string) ([]obiFieldText, string, error) {
	var fields []obiFieldText
	s := title
	for {
		s = strings.TrimLeft(s, " \t")
		eq := strings.IndexByte(s, '=')
		if eq <= 0 || strings.ContainsAny(s[:eq], " \t;{}'") {
			return fields, strings.TrimSpace(s), nil // the rest is the definition
		}
		key := s[:eq]
		v := strings.TrimLeft(s[eq+1:], " \t")
		end := -1
		if strings.HasPrefix(v, "{") {
			depth, quote := 0, byte(0)
			for i := 0; i < len(v) && end < 0; i++ {
				c := v[i]
				switch {
				case quote != 0:
					if c == quote {
						quote = 0
					}
				case c == '\'' || c == '"':
					quote = c
				case c == '{':
					depth++
				case c == '}':
					depth--
					if depth == 0 {
						end = i + 1
					}
				}
			}
			if end < 0 {
				return nil, "", fmt.Errorf("map value of %s is not closed", key)
			}
			rest := strings.TrimLeft(v[end:], " \t")
			if !strings.HasPrefix(rest, ";") {
				return nil, "", fmt.Errorf("map value of %s is not followed by ';'", key)
			}
			fields = append(fields, obiFieldText{key, v[:end]})
			s = rest[1:]
			continue
		}
		semi := strings.IndexByte(v, ';')
		if semi < 0 {
			return nil, "", fmt.Errorf("value of %s is not closed by ';'", key)
		}
		fields = append(fields, obiFieldText{key, strings.TrimSpace(v[:semi])})
		s = v[semi+1:]
	}
}

// obiTitleAnnotations decodes an OBI style title line into the shape
// encoding/json gives to a JSON title (numbers are float64, maps map[string]any).
func obiTitleAnnotations(title string) (map[string]any, error) {
	fields, _, err := splitOBITitle(title)
	if err != nil {
		return nil, err
	}
	if len(fields) == 0 {
		return nil, fmt.Errorf("no key=value; field")
	}
	ann := map[string]any{}
	for _, f := range fields {
		if _, dup := ann[f.Key]; dup {
			return nil, fmt.Errorf("attribute %s is written twice", f.Key)
		}
		switch {
		case strings.HasPrefix(f.Raw, "{"):
			var m map[string]any
			if err := json.Unmarshal([]byte(strings.ReplaceAll(f.Raw, "'", `"`)), &m); err != nil {
				return nil, fmt.Errorf("map value of %s does not decode: %v", f.Key, err)
			}
			ann[f.Key] = m
		case f.Raw == "true":
			ann[f.Key] = true
		case f.Raw == "false":
			ann[f.Key] = false
		default:
			if x, err := strconv.ParseFloat(f.Raw, 64); err == nil {
				ann[f.Key] = x
			} else {
				ann[f.Key] = f.Raw
			}
		}
	}
	return ann, nil
}

// retitle returns the title line `title` (as the first run wrote it) with the
// input attributes replaced by those of r; every other field stays as written.
func retitle(title string, r rec) (string, error) {
	data := dataAnnotations(r)
	if strings.HasPrefix(strings.TrimLeft(title, " \t"), "{") {
		var ann map[string]any
		dec := json.NewDecoder(strings.NewReader(title))
		dec.UseNumber()
		if err := dec.Decode(&ann); err != nil {
			return "", err
		}
		for _, k := range dataKeys {
			delete(ann, k)
		}
		for k, v := range data {
			ann[k] = v
		}
		j, err := json.Marshal(ann)
		return string(j), err
	}
	fields, _, err := splitOBITitle(title)
	if err != nil {
		return "", err
	}
	var b strings.Builder
	for _, f := range fields {
		if !containsString(dataKeys, f.Key) {
			b.WriteString(f.Key + "=" + f.Raw + "; ")
		}
	}
	for _, k := range sortedKeys(data) {
		b.WriteString(obiField(k, data[k]))
	}
	return b.String(), nil
}

func containsString(s []string, x string) bool {
	for _, v := range s {
		if v == x {
			return true
		}
	}
	return false
}

// fileRec is one record of a file to be written.
type fileRec struct {
	Id, Title, Seq, Qual string
}

func qualOf(r rec) string {
	b := make([]byte, len(r.Seq))
	for i := range b {
		b[i] = byte('5' + (i*7+len(r.Seq))%20)
	}
	return string(b)
}

func writeSeqFile(recs []fileRec, format string) (string, error) {
	var b bytes.Buffer
	for _, r := range recs {
		if format == "fastq" {
			fmt.Fprintf(&b, "@%s %s\n%s\n+\n%s\n", r.Id, r.Title, r.Seq, r.Qual)
		} else {
			fmt.Fprintf(&b, ">%s %s\n%s\n", r.Id, r.Title, r.Seq)
		}
	}
	f, err := os.CreateTemp(run.WorkDir(), "c13h-*."+format)
	if err != nil {
		return "", err
	}
	defer f.Close()
	if _, err := f.Write(b.Bytes()); err != nil {
		return "", err
	}
	return f.Name(), nil
}

func freshFile(recs []rec, header string) []fileRec {
	out := make([]fileRec, len(recs))
	for i, r := range recs {
		out[i] = fileRec{r.Id, titleOf(dataAnnotations(r), header), r.Seq, qualOf(r)}
	}
	return out
}

// ------------------------------------------------------------------ the case

// stepOpt holds the options of one run.
type stepOpt struct {
	Dist        int
	Ratio       float64
	Attr        string `json:",omitempty"` // "": -s is not given (sample); "sample", "pcr": -s <Attr>
	Long        bool   `json:",omitempty"` // --distance / --ratio / --sample instead of -d / -r / -s
	MinEvalRate int    `json:",omitempty"` // > 0: --min-eval-rate
	Head        bool   `json:",omitempty"` // -H (first run): the intermediate file holds the head records only
	MaxCPU      int
}

func (o stepOpt) attr() string {
	if o.Attr == "" {
		return "sample"
	}
	return o.Attr
}

func (o stepOpt) args() []string {
	d, r, s := "-d", "-r", "-s"
	if o.Long {
		d, r, s = "--distance", "--ratio", "--sample"
	}
	a := []string{d, strconv.Itoa(o.Dist), r, strconv.FormatFloat(o.Ratio, 'g', -1, 64), "--max-cpu", strconv.Itoa(o.MaxCPU)}
	if o.Attr != "" {
		a = append(a, s, o.Attr)
	}
	if o.MinEvalRate > 0 {
		a = append(a, "--min-eval-rate", strconv.Itoa(o.MinEvalRate))
	}
	if o.Head {
		a = append(a, "-H")
	}
	return a
}

type histCase struct {
	First     []rec   // the data set the first run is given
	Format    string  // "fasta" | "fastq"
	InHeader  string  // title lines of the files that did not go through obiclean: "json" | "obi"
	MidOption string  // output option of the first run: "" (JSON title lines) | "--output-json-header" | "-O" | "--output-OBI-header"
	Step1     stepOpt // the first run
	Recs      []rec   // the data set at the time of the second run (same identifier = same record)
	Step2     stepOpt
	BatchSize int      `json:",omitempty"`
	Runs      []cliRun `json:",omitempty"` // further runs of the second step on the intermediate file
}

func (c histCase) midHeader() string {
	if c.MidOption == "-O" || c.MidOption == "--output-OBI-header" {
		return "obi"
	}
	return "json"
}

// view gives the records as the run sees them: Counts are the counts of the
// levels named by --sample.
func view(recs []rec, attr string) []rec {
	if attr != "pcr" {
		return recs
	}
	out := make([]rec, len(recs))
	for i, r := range recs {
		n := r
		n.Plain = false
		n.Counts = r.Alt
		if n.Counts == nil {
			n.Counts = map[string]int{"NA": r.total()}
		}
		out[i] = n
	}
	return out
}

func sameData(a, b rec) bool {
	return a.Seq == b.Seq && a.Plain == b.Plain && fmt.Sprint(a.Counts) == fmt.Sprint(b.Counts) && fmt.Sprint(a.Alt) == fmt.Sprint(b.Alt)
}

// runStep runs obiclean once and reads its output.
func runStep(o stepOpt, extra []string, jitter string, file, format, header string) (map[string]outRec, []string, string, error) {
	args := append(o.args(), extra...)
	desc := "obiclean " + strings.Join(args, " ") + " <file>"
	var env []string
	if jitter != "" {
		env = append(env, "VERIF_JITTER="+jitter)
		desc = "VERIF_JITTER=" + jitter + " " + desc
	}
	res := run.Cmd(run.Opt{Env: env, Timeout: 120 * time.Second}, "obiclean", append(args, file)...)
	if res.Inconclusive() {
		return nil, nil, desc, errInconclusive
	}
	if res.Exit != 0 {
		return nil, nil, desc, fmt.Errorf("%s: exit status %d\nstderr: %s", desc, res.Exit, tail(res.Stderr, 1500))
	}
	out, order, err := parseOutputAs(res.Stdout, format, header)
	if err != nil {
		return nil, nil, desc, fmt.Errorf("%s: output not readable: %v", desc, err)
	}
	return out, order, desc, nil
}

// checkStepOutput: what holds for the output of any run on the records recs (file order).
func checkStepOutput(desc string, recs []rec, o stepOpt, out map[string]outRec, headOnly bool) error {
	v := view(recs, o.attr())
	for i, rc := range recs {
		w, ok := out[rc.Id]
		if !ok {
			if headOnly {
				continue
			}
			return fmt.Errorf("%s: record %s is missing from the output", desc, rc.Id)
		}
		// the input attributes go through unchanged
		if !rc.Plain && fmt.Sprint(w.Merged) != fmt.Sprint(rc.Counts) {
			return fmt.Errorf("%s: record %s: merged_sample %v, the input says %v", desc, rc.Id, w.Merged, rc.Counts)
		}
		if rc.Alt != nil && fmt.Sprint(w.MergedAlt) != fmt.Sprint(rc.Alt) {
			return fmt.Errorf("%s: record %s: merged_pcr %v, the input says %v", desc, rc.Id, w.MergedAlt, rc.Alt)
		}
		wv := w
		if o.attr() == "pcr" {
			wv.Merged = w.MergedAlt
		}
		if err := checkRecordConsistency(rc.Id, v[i], wv); err != nil {
			return fmt.Errorf("%s (samples are the values of %q): %v", desc, o.attr(), err)
		}
		if headOnly && !w.Head {
			return fmt.Errorf("%s: record %s is written although it is not flagged obiclean_head (status %v)", desc, rc.Id, w.Status)
		}
	}
	if !headOnly && len(out) != len(recs) {
		return fmt.Errorf("%s: %d records written for %d records read", desc, len(out), len(recs))
	}
	if o.Ratio == 1.0 && !headOnly {
		if o.Dist == 1 {
			if err := checkCLIModel(cliCase{Recs: v}, out, quadratic(levOne)); err != nil {
				return fmt.Errorf("%s: %v", desc, err)
			}
		} else if err := checkCLIModelDist(v, o.Dist, out); err != nil {
			return fmt.Errorf("%s: %v", desc, err)
		}
	}
	return nil
}

func checkCLIHistory(c histCase) error {
	if !run.Have("obiclean") {
		return fmt.Errorf("the obiclean command was not built")
	}
	inconclusive := func() error { evid.Class("timeout_inconclusive", 1); return nil }
	var batch []string
	if c.BatchSize > 0 {
		batch = []string{"--batch-size", strconv.Itoa(c.BatchSize)}
	}
	// ---- first run
	file1, err := writeSeqFile(freshFile(c.First, c.InHeader), c.Format)
	if err != nil {
		return err
	}
	defer os.Remove(file1)
	extra1 := batch
	if c.MidOption != "" {
		extra1 = append(append([]string(nil), batch...), c.MidOption)
	}
	out1, order1, desc1, err := runStep(c.Step1, extra1, "", file1, c.Format, c.midHeader())
	if err == errInconclusive {
		return inconclusive()
	}
	if err != nil {
		return fmt.Errorf("first run: %v", err)
	}
	if err := checkStepOutput("first run: "+desc1, c.First, c.Step1, out1, c.Step1.Head); err != nil {
		return err
	}
	if c.Format == "fastq" {
		for _, r := range c.First {
			if w, ok := out1[r.Id]; ok && w.Qual != qualOf(r) {
				return fmt.Errorf("first run: %s: record %s: quality line %q, the input says %q", desc1, r.Id, w.Qual, qualOf(r))
			}
		}
	}
	_ = order1
	// ---- the intermediate file at the time of the second run
	var mid []fileRec
	carried := 0
	for _, r := range c.Recs {
		w, ok := out1[r.Id]
		if !ok {
			// not in the output of the first run (new record, or not a head with -H): as it comes from upstream
			mid = append(mid, fileRec{r.Id, titleOf(dataAnnotations(r), c.InHeader), r.Seq, qualOf(r)})
			continue
		}
		carried++
		title := w.Title
		for _, f := range c.First {
			if f.Id == r.Id && !sameData(f, r) {
				if title, err = retitle(w.Title, r); err != nil {
					return fmt.Errorf("first run: %s: title line %q of record %s: %v", desc1, w.Title, r.Id, err)
				}
			}
		}
		q := w.Qual
		if q == "" {
			q = qualOf(r)
		}
		mid = append(mid, fileRec{r.Id, title, r.Seq, q})
	}
	file2, err := writeSeqFile(mid, c.Format)
	if err != nil {
		return err
	}
	defer os.Remove(file2)
	fresh, err := writeSeqFile(freshFile(c.Recs, c.InHeader), c.Format)
	if err != nil {
		return err
	}
	defer os.Remove(fresh)
	// ---- second run, on the intermediate file and on the same records fresh from upstream
	outH, _, descH, err := runStep(c.Step2, batch, "", file2, c.Format, "json")
	if err == errInconclusive {
		return inconclusive()
	}
	if err != nil {
		return fmt.Errorf("second run, on the output of [%s] (%d records carried over): %v", desc1, carried, err)
	}
	outF, _, descF, err := runStep(c.Step2, batch, "", fresh, c.Format, "json")
	if err == errInconclusive {
		return inconclusive()
	}
	if err != nil {
		return fmt.Errorf("second run on the records without obiclean annotations: %v", err)
	}
	if err := checkStepOutput("second run on the records without obiclean annotations: "+descF, c.Recs, c.Step2, outF, false); err != nil {
		return err
	}
	// (the input attributes are judged by checkStepOutput: a run adds a merged_<attribute> map to
	// the records that have none, so a record without merged_sample map that went through
	// `obiclean -s sample` carries one and the fresh one does not)
	if err := checkStepOutput("second run "+descH+" on the output of ["+desc1+"]", c.Recs, c.Step2, outH, false); err != nil {
		return err
	}
	show := func(o outRec) string {
		j, _ := json.Marshal([]any{o.Seq, o.Status, o.Weight, o.Mutation, o.Count, o.Head, o.HeadCount, o.Internal, o.Singleton, o.Samples})
		return string(j)
	}
	differ := func(a, b outRec) bool { return show(a) != show(b) }
	if len(outH) != len(c.Recs) {
		return fmt.Errorf("second run %s on the output of [%s]: %d records written for %d records read", descH, desc1, len(outH), len(c.Recs))
	}
	for k, r := range c.Recs {
		h, ok := outH[r.Id]
		if !ok {
			return fmt.Errorf("second run %s on the output of [%s]: record %s is missing from the output", descH, desc1, r.Id)
		}
		if differ(h, outF[r.Id]) {
			return fmt.Errorf("record %s: the annotations left by the first run [%s] (title line in the intermediate %s file: %q) change the result of the second run %s:\n  on the intermediate file           : %s\n  same records without them (fresh)  : %s",
				r.Id, desc1, c.Format, mid[k].Title, descH, show(h), show(outF[r.Id]))
		}
	}
	// ---- other schedules of the second run on the intermediate file
	for k, r := range c.Runs {
		o := c.Step2
		o.MaxCPU = r.MaxCPU
		out, _, desc, err := runStep(o, batch, r.Jitter, file2, c.Format, "json")
		if err == errInconclusive {
			return inconclusive()
		}
		if err != nil {
			return err
		}
		var diffs []string
		for _, rc := range c.Recs {
			if differ(out[rc.Id], outH[rc.Id]) {
				diffs = append(diffs, rc.Id)
			}
		}
		if len(diffs) > 0 || len(out) != len(outH) {
			sort.Strings(diffs)
			id := ""
			if len(diffs) > 0 {
				id = diffs[0]
			}
			return fmt.Errorf("%d records differ (first: %s; %d vs %d records) on the same intermediate file between\n  %s: %s\n  run %d  %s: %s", len(diffs), id, len(outH), len(out), descH, show(outH[id]), k+1, desc, show(out[id]))
		}
	}
	return nil
}

// ------------------------------------------------------------------ generator

// withPCR gives every record a second level of counts: the reads of each sample
// are split over one or two PCRs of that sample.
func withPCR(t *rapid.T, recs []rec) []rec {
	out := make([]rec, len(recs))
	for i, r := range recs {
		n := r
		n.Alt = map[string]int{}
		for _, s := range sortedKeys(r.Counts) {
			c := r.Counts[s]
			switch rapid.IntRange(0, 2).Draw(t, "pcr_split") {
			case 0:
				n.Alt[s+"_1"] = c
			case 1:
				n.Alt[s+"_2"] = c
			default:
				a := rapid.IntRange(0, c).Draw(t, "pcr_first")
				n.Alt[s+"_1"] = a
				n.Alt[s+"_2"] = c - a
			}
		}
		out[i] = n
	}
	return out
}

func hashAlt(recs []rec) uint64 {
	var parts []any
	for _, r := range recs {
		parts = append(parts, fmt.Sprint(r.Alt))
	}
	return evid.Hash(parts...)
}

func genStep(t *rapid.T, label string, pcr bool) stepOpt {
	o := stepOpt{
		Dist:   rapid.SampledFrom([]int{1, 1, 1, 2, 3}).Draw(t, label+"_distance"),
		Ratio:  rapid.SampledFrom([]float64{1, 1, 1, 0.5, 0.1}).Draw(t, label+"_ratio"),
		Long:   rapid.IntRange(0, 3).Draw(t, label+"_long") == 0,
		MaxCPU: rapid.SampledFrom([]int{1, 2, 3, 4, 8, 16}).Draw(t, label+"_maxcpu"),
	}
	if pcr {
		o.Attr = rapid.SampledFrom([]string{"", "sample", "pcr", "pcr"}).Draw(t, label+"_attr")
	} else {
		o.Attr = rapid.SampledFrom([]string{"", "", "sample"}).Draw(t, label+"_attr")
	}
	if rapid.IntRange(0, 3).Draw(t, label+"_mer") == 0 {
		o.MinEvalRate = rapid.SampledFrom([]int{1, 10, 100000}).Draw(t, label+"_min_eval_rate")
	}
	return o
}

func TestPropCLIHistory(t *testing.T) {
	rapid.Check(t, func(rt *rapid.T) {
		var first []rec
		var cl []string
		dataDist := 0
		if rapid.IntRange(0, 3).Draw(rt, "generator") == 0 {
			dataDist = rapid.IntRange(2, 3).Draw(rt, "data_distance")
			first, cl = genDistDataset(rt, dataDist, 24)
		} else {
			first, cl = genDatasetZ(rt, evid.Pick(30, 50))
		}
		c := histCase{
			Format:    rapid.SampledFrom([]string{"fasta", "fasta", "fastq"}).Draw(rt, "format"),
			InHeader:  rapid.SampledFrom([]string{"json", "json", "obi"}).Draw(rt, "in_header"),
			MidOption: rapid.SampledFrom([]string{"", "", "--output-json-header", "-O", "-O", "--output-OBI-header"}).Draw(rt, "mid_option"),
			BatchSize: rapid.SampledFrom([]int{0, 0, 0, 1, 7}).Draw(rt, "batchsize"),
		}
		pcr := rapid.IntRange(0, 2).Draw(rt, "pcr_level") == 0
		c.Step1 = genStep(rt, "step1", pcr)
		c.Step1.Head = rapid.IntRange(0, 4).Draw(rt, "step1_head") == 0
		c.Step2 = genStep(rt, "step2", pcr)
		if dataDist > 0 && rapid.Bool().Draw(rt, "use_data_distance") {
			c.Step2.Dist, c.Step2.Ratio = dataDist, 1
		}
		// what happened to the data set in between
		second := first
		evolution := rapid.SampledFrom([]string{"same_records", "same_records", "evolved"}).Draw(rt, "evolution")
		if evolution == "evolved" {
			var scl []string
			second, scl = genSecondStep(rt, first)
			cl = append(cl, scl...)
		}
		if pcr {
			first = withPCR(rt, first)
			if evolution == "evolved" {
				// the records that did not change keep their PCR counts
				byId := map[string]rec{}
				for _, r := range first {
					byId[r.Id] = r
				}
				second = withPCR(rt, second)
				for i, r := range second {
					if f, ok := byId[r.Id]; ok && f.Seq == r.Seq && f.Plain == r.Plain && fmt.Sprint(f.Counts) == fmt.Sprint(r.Counts) {
						second[i].Alt = f.Alt
					}
				}
			} else {
				second = first
			}
			cl = append(cl, "hist:data_set_with_pcr_level")
		}
		c.First, c.Recs = first, second
		for k := rapid.IntRange(0, 2).Draw(rt, "more_runs"); k > 0; k-- {
			r := cliRun{MaxCPU: rapid.SampledFrom([]int{1, 2, 3, 4, 8, 16, 32}).Draw(rt, "maxcpu")}
			if rapid.Bool().Draw(rt, "jitter") {
				r.Jitter = fmt.Sprintf("%d:%d", rapid.IntRange(1, 1000).Draw(rt, "jseed"), rapid.SampledFrom([]int{200, 2000}).Draw(rt, "jmax"))
			}
			c.Runs = append(c.Runs, r)
		}

		// classes
		s1, s2 := c.Step1, c.Step2
		optionsDiffer := s1.Dist != s2.Dist || s1.Ratio != s2.Ratio || s1.attr() != s2.attr()
		cl = append(cl, "hist:format:"+c.Format, "hist:in_header:"+c.InHeader, "hist:intermediate_header:"+c.midHeader(), "hist:evolution:"+evolution,
			fmt.Sprintf("hist:step1:distance:%d", c.Step1.Dist), fmt.Sprintf("hist:step2:distance:%d", c.Step2.Dist),
			fmt.Sprintf("hist:step1:ratio:%v", c.Step1.Ratio), fmt.Sprintf("hist:step2:ratio:%v", c.Step2.Ratio),
			"hist:step1:sample_attribute:"+c.Step1.attr(), "hist:step2:sample_attribute:"+c.Step2.attr())
		if c.MidOption != "" {
			cl = append(cl, "hist:intermediate_option:"+c.MidOption)
		}
		if optionsDiffer {
			cl = append(cl, "hist:options_of_the_two_runs_differ")
		}
		if c.Step1.attr() != c.Step2.attr() {
			cl = append(cl, "hist:sample_attribute_changes_between_the_runs")
		}
		if c.Step1.Head {
			cl = append(cl, "hist:first_run_with_-H")
		}
		if c.Step1.MinEvalRate > 0 || c.Step2.MinEvalRate > 0 {
			cl = append(cl, "hist:--min-eval-rate")
		}
		if c.Step2.Dist >= 2 && c.Step2.Ratio == 1 {
			_, dcl := distClasses(view(c.Recs, c.Step2.attr()), c.Step2.Dist)
			for _, x := range dcl {
				cl = append(cl, "hist:"+x)
			}
			cl = append(cl, "hist:second_run_compared_with_the_model_of_distance>=2")
		}
		// non-trivial: the first run links something (there is a result to leave behind) and
		// the second run is not the first one again
		edges1, _ := modelClasses(view(c.First, c.Step1.attr()))
		nontrivial := edges1 > 0 && (optionsDiffer || evolution == "evolved")
		if nontrivial {
			cl = append(cl, "cli_history:nontrivial")
			if c.midHeader() == "obi" {
				cl = append(cl, "cli_history:nontrivial_with_OBI_style_intermediate")
			}
		}
		evid.Eval("cli_history", evid.Hash(hashRecs(c.First), hashRecs(c.Recs), hashAlt(c.First), hashAlt(c.Recs), fmt.Sprintf("%+v|%+v|%s|%s|%s|%d|%v", c.Step1, c.Step2, c.Format, c.InHeader, c.MidOption, c.BatchSize, c.Runs)), nontrivial,
			map[string]any{"records_first": len(c.First), "records_second": len(c.Recs), "format": c.Format, "in_header": c.InHeader, "mid_option": c.MidOption,
				"step1": c.Step1, "step2": c.Step2, "runs": c.Runs, "first_record": c.First[0]}, cl...)
		evid.Class("cli_runs", int64(3+len(c.Runs)))
		if err := checkCLIHistory(c); err != nil {
			evid.Fail(rt, "cli_history", c, err)
		}
	})
}
