// Property C13 — the obiclean graph is exact (default distance) and identical for
// any worker count and from run to run (every distance and ratio).
//
// Domain decisions
//
//   - Sequences are non-empty lower case strings (what obiuniq writes) over
//     {a,c,g,t}; in a part of the data sets a few symbols are IUPAC ambiguity
//     codes (n, r, y, ...: no-calls kept by the upstream steps).  "Differ by one
//     substitution or one indel" is the unit-cost edit distance under plain
//     symbol equality, for every symbol: "acg" and "acn" are two different
//     sequences for obiuniq (two records), they differ by one substitution, and
//     the one-difference test obiclean is built on answers on plain equality
//     (statement of C09: 0 exactly for identical sequences, 1 exactly for edit
//     distance one).  Nothing is asserted about how ambiguity codes compare for
//     --distance > 1 (only that the result does not depend on the schedule).
//   - obiclean_* annotations already present in the input file (a file that went
//     through obiclean before) are results, not inputs: the output must be the
//     one obtained from the same file without them (command-line checks only;
//     the values are well typed: maps of strings / integers, a boolean head flag).
//   - Record identifiers are unique (obiclean_mutation is keyed by the father's
//     identifier).  Two records with the same sequence are kept as a rare class:
//     they do not "differ by one" and must not be linked at distance one.
//   - Counts are >= 1.  A sample map may be replaced by the pair of attributes
//     sample/count (a record that did not go through obiuniq) or be absent
//     altogether (sample "NA").
//   - Exactness is asserted at the defaults only (distance 1, ratio 1: the ratio
//     filter is not run, as in the command).  Weights have no written
//     definition; what is asserted about them in the exactness check is only
//     what "number of reads associated to a sequence after clustering" implies:
//     a sequence without sons keeps its count, a father whose sons all have this
//     single father receives their whole weight, and the weights of the heads and
//     singletons of a sample add up to the reads of the sample up to one half
//     read of rounding per link of a son with several fathers.
//   - For distance 2..3 and ratio < 1 nothing is modelled: the result must equal
//     the one-worker result, the son counter must be the in-degree of the edge
//     list and the status must follow from both.  Edge lists are compared as sets
//     per son (their order is not observable in the output).
//   - The mutation text is "(x)->(y)@p" with p counted from one (what the
//     command writes); any position that turns the father into the son is
//     accepted (an indel in a homopolymer has several).
//   - Command runs: the order of the records in the output is not part of the
//     statement; records are compared by identifier.  --max-cpu 1 is mapped to 2
//     by the option parser and is therefore only another spelling of 2.
//     Option --batch-size (how the reader cuts the file) is fixed within a case (runs with
//     different batch sizes are not compared with each other); the arrival-order
//     jitter of hook H2 is a pure schedule perturbation of the reader: the statement
//     ("from run to run") covers it.
//   - A -race run is not wired into the driver; detection of an unsynchronised
//     shared write relies on the contention runs.
//   - Counts of 0 inside a merged_sample map (round 3, zero_test.go): the keys of
//     the map are the samples of the record, so the record is a node of count 0
//     of that sample (linked to every one-difference sequence with at least one
//     read, never a father, weight 0).  Every record keeps at least one read in
//     total, and the sample/count pair of attributes never carries a 0.
//   - --distance >= 2 at --ratio 1 (round 3, dist_test.go) IS modelled, edges and
//     statuses only: second pass over the sequences without one-difference father,
//     candidates = the sequences after it in the stable sort by count (ties: file
//     order), number of differences = the one of the LCS kernel of C09
//     (IUPAC-compatible symbols match).  The previous item "for distance 2..3
//     nothing is modelled" now only holds for ratio < 1 and for the weights.
//   - Two-step histories (history_test.go): the sample names and identifiers hold
//     no quote, semicolon or brace (the OBI style title line cannot carry them);
//     a run adds a merged_<attribute> map to the records that had none, so
//     merged_sample / merged_pcr of the second run are compared with the input,
//     not between the intermediate and the fresh file.
package c13

import (
	"fmt"
	"os"
	"sort"
	"testing"

	"pgregory.net/rapid"

	"verifharness/internal/evid"
	"verifharness/internal/ref"
)

func TestMain(m *testing.M) {
	// the progress bars of obiclean write to the os.Stderr variable even in library calls
	if dn, err := os.OpenFile(os.DevNull, os.O_WRONLY, 0); err == nil {
		os.Stderr = dn
	}
	evid.Tests(
		evid.Spec{Name: "TestReplay", Kind: "plain", QuickShards: 1, ThoroughShards: 1},
		evid.Spec{Name: "TestPropExact", Kind: "rapid", Quick: 6000, Thorough: 300000, QuickShards: 4, ThoroughShards: 16},
		evid.Spec{Name: "TestPropWorkers", Kind: "rapid", Quick: 240, Thorough: 4800, QuickShards: 8, ThoroughShards: 16},
		evid.Spec{Name: "TestPropWorkersSmall", Kind: "rapid", Quick: 1200, Thorough: 40000, QuickShards: 2, ThoroughShards: 8},
		evid.Spec{Name: "TestPropCLI", Kind: "rapid", Quick: 80, Thorough: 2000, QuickShards: 4, ThoroughShards: 16},
		evid.Spec{Name: "TestPropLarge", Kind: "rapid", Quick: 8, Thorough: 64, QuickShards: 8, ThoroughShards: 16},
		evid.Spec{Name: "TestPropCLILarge", Kind: "rapid", Quick: 3, Thorough: 32, QuickShards: 3, ThoroughShards: 16},
		evid.Spec{Name: "TestPropExactDist", Kind: "rapid", Quick: 6000, Thorough: 120000, QuickShards: 4, ThoroughShards: 16},
		evid.Spec{Name: "TestPropCLIHistory", Kind: "rapid", Quick: 192, Thorough: 3200, QuickShards: 6, ThoroughShards: 16},
	)
	evid.Commands("obiclean")
	evid.Note("rule", "exact: 1-4 samples of up to 60 sequences (seeds, stars, chains, two-level hubs of one-difference variants in and out of homopolymers, 2-3 difference variants, unrelated sequences, ties; in half of the data sets a part of the symbols of the seeds and of the edits are IUPAC ambiguity codes, compared strictly; counts through merged_sample maps or sample/count attributes) built through hook H4 at distance 1, ratio 1 with 1-8 workers and compared with the model edge(s->f) <=> count(f)>count(s) and Levenshtein(s,f)=1 (full-matrix DP), status from out-/in-degree, mutation applied to the father gives the son; non-trivial = the model graph has at least one edge. workers: one to three abundant sequences with 100-1000 sons at distance 1 (100-230 sons carrying 1-3 differences at distance 2..3; a third of the data sets with ambiguity codes in fathers and sons), every distance 1..3 x ratio {1,0.5,0.1}, H4 with 1 worker vs three worker counts from 2..32, repeated 3 (distance>1: 2) times: nodes (count, SonCount, weight, status) and edge sets equal, SonCount = in-degree, and at the defaults equal to the model; non-trivial = some node has at least 2 x (largest worker count) sons. workers_small: the same comparison on the small data sets. large: a compact description (seed, shape) rebuilt into 4 000 - 40 000 records forming clusters (pairs, stars, big stars, two-level; dense or sparse; 1-5 samples; reversed abundances = sons with hundreds of fathers; ties; ambiguity codes) with 8 600 - 30 000 links in ONE sample, distance 1, ratio 1 or 0.5: H4 with 1 worker equals the model (indexed neighbour search, every candidate confirmed by the one-edit predicate, cross-checked against the pairwise model on every small data set) and H4 with two worker counts from 2..32 equals the 1-worker result; non-trivial = the largest sample holds at least 8 000 links. cli: the obiclean command on generated files, --max-cpu 1..32 x --batch-size x arrival-order jitter, repeated runs: per record obiclean_status, obiclean_weight, obiclean_head, the four counters, obiclean_mutation, merged_sample and count equal in all runs, -H keeps exactly the head records, and at the defaults status/mutation/weights equal to the model; a quarter of the files carry the annotations of an earlier obiclean run on an earlier state of the data set (counts changed, records and samples dropped or added), a quarter arbitrary well-typed obiclean_* annotations: the output must equal the output for the same file without them; non-trivial = at least one record is internal in some sample. cli_large: the command on a large file (at least 17 200 links in one sample), reference run with 1-3 cpus against the model and against a run with another --max-cpu; non-trivial = at least 8 000 links per worker of the reference run. Distinct = hash of the data set (or of its description) and options. zero counts (exact, workers_small, cli, exact_dist, cli_history): in 40 % of the small data sets merged_sample maps list samples with 0 reads (counts set to 0, absent samples listed with 0, dense sample x sequence tables, new one-difference variants listed with 0 reads in the samples of their parent): such a record is a node of count 0 of that sample, a leaf below stars and chains, judged by the same models. exact_dist: hook H4 at --distance 2..3, ratio 1, 1-8 workers on the small data sets or on data sets of 2-40 variants at 0..distance+1 true differences plus 0-3 positions carrying a different but IUPAC-compatible symbol (spread, anywhere or clustered; lengths 4-64 biased to 3+4*distance and 7+4*distance; ties; shuffled file order) compared with the model: one-difference links as above, then every sequence without one-difference father is linked to each sequence placed after it in the stable sort by count that is neither identical nor at one difference and that the LCS (full-matrix DP, IUPAC-compatible symbols match, shortest alignment) puts within the bound, the edge carrying that number of differences; status from both; non-trivial = the model holds at least one link of the second pass. The same model judges the one-worker graph of workers / workers_small and the statuses and obiclean_mutation keys of cli at distance >= 2, ratio 1 (in a fifth of the cli files and half of the workers_small data sets of distance >= 2 the data set comes from the bounded-variant generator). cli_history: two runs of the command, options of both drawn independently (-d 1..3, -r 1/0.5/0.1, -s absent/sample/pcr on data sets carrying merged_sample and merged_pcr, --min-eval-rate, long or short spellings, --max-cpu, -H for the first), files in FASTA or FASTQ, title lines of upstream files in JSON or OBI style, intermediate file = real output of the first run with JSON title lines or OBI style ones (-O / --output-OBI-header), records passed on verbatim or, when the data set evolved in between (counts changed, records dropped / added, samples added / removed), with only their input attributes rewritten: the second run on the intermediate file must write the same status, weight, mutation, head flag and counters as on the same records without obiclean annotations, the same with other --max-cpu / jitter, every output is checked for per record consistency and against the model (distance 1 or >= 2) at ratio 1; non-trivial = the model graph of the first run has a link and the second run differs from the first in distance, ratio, sample attribute or data.")
	evid.Main(m, "C13")
}

func TestReplay(t *testing.T) { evid.Replay(t) }

func init() {
	evid.Reg("exact", checkExact)
	evid.Reg("workers", checkWorkers)
	evid.Reg("workers_small", checkWorkers)
	evid.Reg("cli", checkCLI)
}

// ------------------------------------------------------------------ exactness at the defaults

type exactCase struct {
	Recs    []rec
	Workers int
}

func levOne(a, b string) bool {
	l := ref.Levenshtein(a, b) == 1
	if l != oneEdit(a, b) {
		panic(fmt.Sprintf("harness bug: oneEdit(%q,%q) disagrees with the Levenshtein DP", a, b))
	}
	return l
}

// graphModel builds the model graph of one sample.
type graphModel func(nodes []refNode) *refSample

// quadratic is the model as the statement words it: every pair is tested with one.
func quadratic(one func(a, b string) bool) graphModel {
	return func(nodes []refNode) *refSample { return refGraph(nodes, one) }
}

// compareWithModel judges one observed sample (distance 1, ratio 1) against the model.
func compareWithModel(name string, nodes []refNode, o *obsSample, model graphModel) error {
	g := model(nodes)
	seqOf := map[string]string{}
	if len(o.Nodes) != len(nodes) {
		return fmt.Errorf("sample %q has %d nodes, the data set puts %d records in it", name, len(o.Nodes), len(nodes))
	}
	for _, n := range nodes {
		seqOf[n.Id] = n.Seq
		on, ok := o.Nodes[n.Id]
		if !ok {
			return fmt.Errorf("sample %q: record %s is missing from the graph", name, n.Id)
		}
		if on.Count != n.Count {
			return fmt.Errorf("sample %q: record %s enters the graph with count %d, the data set says %d", name, n.Id, on.Count, n.Count)
		}
	}
	// edges, both directions
	got := map[string][]string{}
	for _, e := range o.Edges {
		got[e.Son] = append(got[e.Son], e.Father)
	}
	cnt := func(id string) int { return o.Nodes[id].Count }
	for _, n := range nodes {
		w, h := g.Fathers[n.Id], got[n.Id]
		sort.Strings(h)
		for _, f := range h {
			if !contains(w, f) {
				return fmt.Errorf("sample %q: %s (count %d, %s) is linked to %s (count %d, %s): edit distance %d, the father must be strictly more abundant and at distance 1",
					name, n.Id, n.Count, n.Seq, f, cnt(f), seqOf[f], ref.Levenshtein(n.Seq, seqOf[f]))
			}
		}
		for _, f := range w {
			if !contains(h, f) {
				return fmt.Errorf("sample %q: %s (count %d, %s) is NOT linked to %s (count %d, %s) although they differ by one edit and the second is strictly more abundant",
					name, n.Id, n.Count, n.Seq, f, cnt(f), seqOf[f])
			}
		}
	}
	// mutation of every edge
	for _, e := range o.Edges {
		if e.Dist != 1 {
			return fmt.Errorf("sample %q: edge %s -> %s carries distance %d at the default distance of one", name, e.Son, e.Father, e.Dist)
		}
		if err := applyMutation(seqOf[e.Father], seqOf[e.Son], e.Pos, e.From, e.To); err != nil {
			return fmt.Errorf("sample %q: edge %s (%s) -> %s (%s) reports (%c)->(%c) at %d (0-based): %v", name, e.Son, seqOf[e.Son], e.Father, seqOf[e.Father], e.From, e.To, e.Pos, err)
		}
		if err := checkMutationText(e.Mutation, seqOf[e.Father], seqOf[e.Son]); err != nil {
			return fmt.Errorf("sample %q: edge %s (%s) -> %s (%s): %v", name, e.Son, seqOf[e.Son], e.Father, seqOf[e.Father], err)
		}
	}
	// status and son counters
	for _, n := range nodes {
		on := o.Nodes[n.Id]
		if on.SonCount != g.Sons[n.Id] {
			return fmt.Errorf("sample %q: %s has SonCount %d, the model gives %d sons", name, n.Id, on.SonCount, g.Sons[n.Id])
		}
		want := statusOf(len(g.Fathers[n.Id]), g.Sons[n.Id])
		if on.Status != want {
			return fmt.Errorf("sample %q: %s has status %q, the model says %q (%d fathers, %d sons)", name, n.Id, on.Status, want, len(g.Fathers[n.Id]), g.Sons[n.Id])
		}
	}
	return checkWeights(name, nodes, g, o)
}

func checkMutationText(text, father, son string) error {
	from, to, p, err := parseMutation(text)
	if err != nil {
		return err
	}
	if err := applyMutation(father, son, p-1, from, to); err != nil {
		return fmt.Errorf("obiclean_mutation %q: %v", text, err)
	}
	return nil
}

func contains(sorted []string, x string) bool {
	i := sort.SearchStrings(sorted, x)
	return i < len(sorted) && sorted[i] == x
}

// checkWeights: see "Domain decisions".
func checkWeights(name string, nodes []refNode, g *refSample, o *obsSample) error {
	multi := 0 // links of sons having several fathers
	for _, fs := range g.Fathers {
		if len(fs) > 1 {
			multi += len(fs)
		}
	}
	total, roots := 0, 0
	for _, n := range nodes {
		total += n.Count
		w := o.Nodes[n.Id].Weight
		if w < n.Count {
			return fmt.Errorf("sample %q: %s has weight %d below its own count %d", name, n.Id, w, n.Count)
		}
		if g.Sons[n.Id] == 0 && w != n.Count {
			return fmt.Errorf("sample %q: %s has no son but weight %d differs from its count %d", name, n.Id, w, n.Count)
		}
		if len(g.Fathers[n.Id]) == 0 {
			roots += w
		}
	}
	if 2*abs(roots-total) > multi {
		return fmt.Errorf("sample %q: the weights of heads and singletons add up to %d, the sample holds %d reads (%d links of sons with several fathers can each round by one half)", name, roots, total, multi)
	}
	if multi == 0 {
		// forest: weight = count + weights of the sons
		want := map[string]int{}
		for _, n := range nodes {
			want[n.Id] += n.Count
		}
		order := append([]refNode(nil), nodes...)
		sort.SliceStable(order, func(i, j int) bool { return order[i].Count < order[j].Count })
		for _, n := range order {
			for _, f := range g.Fathers[n.Id] {
				want[f] += want[n.Id]
			}
		}
		for _, n := range nodes {
			if w := o.Nodes[n.Id].Weight; w != want[n.Id] {
				return fmt.Errorf("sample %q: %s has weight %d; its count %d plus the weights of its sons (every son has a single father) is %d", name, n.Id, w, n.Count, want[n.Id])
			}
		}
	}
	return nil
}

func abs(x int) int {
	if x < 0 {
		return -x
	}
	return x
}

func compareAllWithModel(recs []rec, obs map[string]*obsSample, model graphModel) error {
	samples := refSamples(recs)
	for _, name := range sortedKeys(samples) {
		o := obs[name]
		if o == nil {
			return fmt.Errorf("sample %q (%d records) is missing from the result (samples returned: %v)", name, len(samples[name]), sortedKeys(obs))
		}
		if err := selfConsistent(name, o); err != nil {
			return err
		}
		if err := compareWithModel(name, samples[name], o, model); err != nil {
			return err
		}
	}
	for _, name := range sortedKeys(obs) {
		if _, ok := samples[name]; !ok {
			return fmt.Errorf("result holds a sample %q that no record belongs to", name)
		}
	}
	return nil
}

func checkExact(c exactCase) error {
	obs, err := build(c.Recs, 1, 1.0, c.Workers)
	if err != nil {
		return err
	}
	if err := compareAllWithModel(c.Recs, obs, quadratic(levOne)); err != nil {
		return fmt.Errorf("VerifBuildGraph(distance 1, ratio 1, %d workers): %v", c.Workers, err)
	}
	return nil
}

// modelClasses labels what the model graph of a data set contains.
func modelClasses(recs []rec) (edges int, classes []string) {
	cl := map[string]bool{}
	for _, nodes := range refSamples(recs) {
		g := refGraph(nodes, oneEdit)
		if d := sameGraph(g, refGraphFast(nodes)); d != "" {
			panic("harness bug: the indexed model (refGraphFast) disagrees with the pairwise model (refGraph): " + d)
		}
		seqOf := map[string]string{}
		for _, n := range nodes {
			seqOf[n.Id] = n.Seq
		}
		for i := range nodes {
			for j := i + 1; j < len(nodes); j++ {
				if nodes[i].Count == nodes[j].Count && oneEdit(nodes[i].Seq, nodes[j].Seq) {
					cl["tie_at_distance_one"] = true
				}
			}
		}
		depth := map[string]int{}
		order := append([]refNode(nil), nodes...)
		sort.SliceStable(order, func(i, j int) bool { return order[i].Count > order[j].Count })
		for _, n := range order {
			fs := g.Fathers[n.Id]
			edges += len(fs)
			if len(fs) > 1 {
				cl["son_with_several_fathers"] = true
			}
			for _, f := range fs {
				depth[n.Id] = max(depth[n.Id], depth[f]+1)
				if len(seqOf[f]) != len(n.Seq) {
					cl["indel_edge"] = true
					long, short := seqOf[f], n.Seq
					if len(long) < len(short) {
						long, short = short, long
					}
					// ambiguous position: removing two different positions of the longer gives the shorter
					k := 0
					for p := range long {
						if long[:p]+long[p+1:] == short {
							k++
						}
					}
					if k > 1 {
						cl["indel_edge_in_homopolymer"] = true
					}
				} else {
					cl["substitution_edge"] = true
				}
			}
			if depth[n.Id] >= 2 {
				cl["chain_depth>=2"] = true
			}
			cl["status:"+statusOf(len(fs), g.Sons[n.Id])] = true
			if g.Sons[n.Id] >= 2 && len(fs) > 0 {
				cl["internal_hub"] = true
			}
		}
	}
	if edges == 0 {
		cl["no_edge"] = true
	}
	return edges, sortedKeys(cl)
}

func hashRecs(recs []rec) uint64 {
	parts := make([]any, 0, 3*len(recs))
	for _, r := range recs {
		parts = append(parts, r.Id, r.Seq)
		for _, k := range sortedKeys(r.Counts) {
			parts = append(parts, k, r.Counts[k])
		}
		parts = append(parts, r.Plain)
	}
	return evid.Hash(parts...)
}

func TestPropExact(t *testing.T) {
	rapid.Check(t, func(rt *rapid.T) {
		recs, cl := genDatasetZ(rt, evid.Pick(40, 60))
		c := exactCase{Recs: recs, Workers: rapid.SampledFrom([]int{1, 2, 3, 8}).Draw(rt, "workers")}
		edges, mcl := modelClasses(recs)
		if edges > 0 {
			cl = append(cl, "exact:nontrivial")
		}
		evid.Eval("exact", hashRecs(recs), edges > 0, c, append(cl, mcl...)...)
		if err := checkExact(c); err != nil {
			evid.Fail(rt, "exact", c, err)
		}
	})
}

// ------------------------------------------------------------------ determinism over worker counts

type workersCase struct {
	Recs    []rec
	Dist    int
	Ratio   float64
	Workers []int
	Reps    int
}

func checkWorkers(c workersCase) error { return checkWorkersWith(c, quadratic(oneEdit)) }

func checkWorkersWith(c workersCase, model graphModel) error {
	base, err := build(c.Recs, c.Dist, c.Ratio, 1)
	if err != nil {
		return err
	}
	what := fmt.Sprintf("VerifBuildGraph(%d records, distance %d, ratio %v", len(c.Recs), c.Dist, c.Ratio)
	for _, name := range sortedKeys(base) {
		if err := selfConsistent(name, base[name]); err != nil {
			return fmt.Errorf("%s, 1 worker): %v", what, err)
		}
	}
	if c.Dist == 1 && c.Ratio == 1.0 {
		if err := compareAllWithModel(c.Recs, base, model); err != nil {
			return fmt.Errorf("%s, 1 worker): %v", what, err)
		}
	}
	if c.Dist >= 2 && c.Ratio == 1.0 {
		// the model of --distance >= 2 (dist_test.go)
		if err := compareAllWithDistModel(c.Recs, base, c.Dist); err != nil {
			return fmt.Errorf("%s, 1 worker): %v", what, err)
		}
	}
	for rep := 0; rep < c.Reps; rep++ {
		for _, w := range c.Workers {
			obs, err := build(c.Recs, c.Dist, c.Ratio, w)
			if err != nil {
				return err
			}
			for _, name := range sortedKeys(obs) {
				if err := selfConsistent(name, obs[name]); err != nil {
					return fmt.Errorf("%s, %d workers), repetition %d: %v (one worker gives SonCount = in-degree on the same input)", what, w, rep, err)
				}
			}
			if d := diffSamples(base, obs); d != "" {
				return fmt.Errorf("%s, ...): the result with 1 worker and with %d workers (repetition %d) differ: %s", what, w, rep, d)
			}
		}
	}
	return nil
}

var workerCounts = []int{2, 3, 4, 8, 16, 32}

func drawWorkers(rt *rapid.T) []int {
	p := rapid.Permutation(workerCounts).Draw(rt, "workers")
	w := append([]int(nil), p[:3]...)
	sort.Ints(w)
	return w
}

func maxInDegree(recs []rec) int {
	// cheap bound used for the non-trivial rule: the number of strictly less abundant
	// one-difference neighbours of the most loaded node, at distance one
	best := 0
	for _, nodes := range refSamples(recs) {
		g := refGraph(nodes, oneEdit)
		for _, n := range g.Sons {
			best = max(best, n)
		}
	}
	return best
}

func TestPropWorkers(t *testing.T) {
	rapid.Check(t, func(rt *rapid.T) {
		dist := rapid.SampledFrom([]int{1, 1, 1, 1, 2, 3}).Draw(rt, "distance")
		ratio := rapid.SampledFrom([]float64{1, 0.5, 0.1}).Draw(rt, "ratio")
		o := starOpt{maxSons: evid.Pick(600, 1000), maxLen: 200, edits: 1}
		reps := 3
		if dist > 1 {
			// the extension pass aligns every pair of still unlinked sequences: smaller sets
			o = starOpt{maxSons: evid.Pick(140, 230), maxLen: evid.Pick(50, 80), edits: dist}
			reps = 2
		}
		recs, cl := genContention(rt, o)
		c := workersCase{Recs: recs, Dist: dist, Ratio: ratio, Workers: drawWorkers(rt), Reps: reps}
		deg := maxInDegree(recs)
		cl = append(cl, fmt.Sprintf("distance:%d", dist), fmt.Sprintf("ratio:%v", ratio))
		switch {
		case deg >= 500:
			cl = append(cl, "sons>=500")
		case deg >= 250:
			cl = append(cl, "sons>=250")
		default:
			cl = append(cl, "sons<250")
		}
		if deg >= 2*c.Workers[len(c.Workers)-1] {
			cl = append(cl, "workers:nontrivial")
		}
		evid.Eval("workers", evid.Hash(hashRecs(recs), dist, ratio, fmt.Sprint(c.Workers)), deg >= 2*c.Workers[len(c.Workers)-1],
			map[string]any{"records": len(recs), "max_sons_at_distance_one": deg, "distance": dist, "ratio": ratio, "workers": c.Workers, "repetitions": reps, "first_record": recs[0]}, cl...)
		evid.Class("builds_with_several_workers", int64(c.Reps*len(c.Workers)))
		if err := checkWorkers(c); err != nil {
			evid.Fail(rt, "workers", c, err)
		}
	})
}

func TestPropWorkersSmall(t *testing.T) {
	rapid.Check(t, func(rt *rapid.T) {
		dist := rapid.IntRange(1, 3).Draw(rt, "distance")
		var recs []rec
		scl := []string{}
		if dist >= 2 && rapid.Bool().Draw(rt, "bounded_variants") {
			// variants at about `dist` true differences plus compatible ambiguity codes (dist_test.go)
			recs, _ = genDistDataset(rt, dist, evid.Pick(30, 50))
			scl = append(scl, "small:generator:bounded_variants")
		} else {
			recs, _ = genDatasetZ(rt, evid.Pick(40, 60))
		}
		ratio := rapid.SampledFrom([]float64{1, 0.5, 0.1}).Draw(rt, "ratio")
		c := workersCase{Recs: recs, Dist: dist, Ratio: ratio, Workers: drawWorkers(rt), Reps: 1}
		edges, _ := modelClasses(recs)
		nontrivial := edges > 0
		if dist >= 2 {
			ext, dcl := distClasses(recs, dist)
			nontrivial = nontrivial || ext > 0
			for _, x := range dcl {
				scl = append(scl, "small:"+x)
			}
		}
		scl = append(scl, fmt.Sprintf("small:distance:%d", dist), fmt.Sprintf("small:ratio:%v", ratio))
		evid.Eval("workers_small", evid.Hash(hashRecs(recs), dist, ratio, fmt.Sprint(c.Workers)), nontrivial, c, scl...)
		if err := checkWorkers(c); err != nil {
			evid.Fail(rt, "workers_small", c, err)
		}
	})
}
