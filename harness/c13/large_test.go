package c13

// Large samples: thousands of sequences and 9 000 - 60 000 one-difference links in
// ONE sample, i.e. thousands of links found by each worker of the pairwise
// comparison loop (the small data sets give a worker a few dozen links, the
// contention data sets at most a thousand).  The case is a compact description
// (seed + shape parameters); the data set is rebuilt from it inside the check.

import (
	"fmt"
	"sort"
	"testing"

	"pgregory.net/rapid"

	"verifharness/internal/evid"
)

func init() {
	evid.Reg("large", checkLarge)
	evid.Reg("cli_large", checkCLILarge)
}

// largeSpec describes a data set made of clusters: a head sequence, L1
// one-difference variants of the head and L2 one-difference variants of those.
type largeSpec struct {
	Seed     uint64
	Samples  int // 1..: sample 0 receives three clusters out of four when there are several
	Clusters int
	L1       int // first-level variants per cluster (one edit of the head)
	L2       int // second-level variants per cluster (one edit of a first-level variant)
	MinLen   int // length of the heads
	MaxLen   int
	Amb      int  `json:",omitempty"` // > 0: about one head symbol in 10*Amb and one edit symbol in Amb is an IUPAC ambiguity code
	Inverted int  `json:",omitempty"` // > 0: in every Inverted-th cluster the abundances are reversed (the head is the rarest: a son with very many fathers)
	Ties     int  `json:",omitempty"` // > 0: every Ties-th first-level variant is as abundant as its head (no link)
	Shuffle  bool `json:",omitempty"` // records written in a shuffled order instead of cluster by cluster
}

// splitmix64: the data set must be a pure function of the case.
type smix struct{ s uint64 }

func (r *smix) next() uint64 {
	r.s += 0x9e3779b97f4a7c15
	z := r.s
	z = (z ^ (z >> 30)) * 0xbf58476d1ce4e5b9
	z = (z ^ (z >> 27)) * 0x94d049bb133111eb
	return z ^ (z >> 31)
}

func (r *smix) intn(n int) int { return int(r.next() % uint64(n)) }

// largeInfo is what is known of the data set by construction.
type largeInfo struct {
	Records      int
	Designed     map[string]int // sample -> links that exist by construction (variant -> strictly more abundant parent)
	MaxDesigned  int            // the largest of them
	WithAmbig    int            // records carrying an ambiguity code
	ManyFathers  int            // largest number of designed fathers of one record (inverted clusters)
	DroppedEqual int            // generated variants dropped because the sequence was already in the data set
}

// buildLarge rebuilds the data set of a largeSpec.
func buildLarge(sp largeSpec) ([]rec, largeInfo) {
	rng := &smix{s: sp.Seed}
	info := largeInfo{Designed: map[string]int{}}
	seen := map[string]bool{}
	var recs []rec
	names := make([]string, sp.Samples)
	for i := range names {
		names[i] = fmt.Sprintf("L%d", i)
	}
	symbol := func(not byte, rate int) byte {
		if rate > 0 && rng.intn(rate) == 0 {
			if c := ambCodes[rng.intn(len(ambCodes))]; c != not {
				return c
			}
		}
		for {
			if c := "acgt"[rng.intn(4)]; c != not {
				return c
			}
		}
	}
	edit := func(s string) string {
		kind := rng.intn(4) // 0,1 substitution; 2 insertion; 3 deletion
		if kind == 3 && len(s) < 3 {
			kind = 2
		}
		switch kind {
		case 2:
			p := rng.intn(len(s) + 1)
			return s[:p] + string(symbol(0, sp.Amb)) + s[p:]
		case 3:
			p := rng.intn(len(s))
			return s[:p] + s[p+1:]
		}
		p := rng.intn(len(s))
		return s[:p] + string(symbol(s[p], sp.Amb)) + s[p+1:]
	}
	const top = 5000
	for k := 0; k < sp.Clusters; k++ {
		sample := names[0]
		if sp.Samples > 1 && k%4 == 3 {
			sample = names[1+(k/4)%(sp.Samples-1)]
		}
		second := "" // one cluster in five of a multi-sample data set also lives in a second sample, ranks reversed
		if sp.Samples > 1 && k%5 == 0 {
			if second = names[(k/5)%sp.Samples]; second == sample {
				second = ""
			}
		}
		inverted := sp.Inverted > 0 && k%sp.Inverted == sp.Inverted-1
		counts := func(c int) map[string]int {
			if inverted {
				c = top - c
			}
			m := map[string]int{sample: c}
			if second != "" {
				m[second] = top - c
			}
			return m
		}
		designed := func(n int) {
			info.Designed[sample] += n
			if second != "" {
				info.Designed[second] += n
			}
		}
		L := sp.MinLen + rng.intn(sp.MaxLen-sp.MinLen+1)
		hb := make([]byte, L)
		for i := range hb {
			hb[i] = symbol(0, 10*sp.Amb)
		}
		head := string(hb)
		if seen[head] {
			info.DroppedEqual++
			continue
		}
		seen[head] = true
		headCount := 1000 + rng.intn(1000)
		recs = append(recs, rec{Id: fmt.Sprintf("c%dh", k), Seq: head, Counts: counts(headCount)})
		type lvl1 struct {
			seq   string
			count int
		}
		var first []lvl1
		fathersOfHead := 0
		for i := 0; i < sp.L1; i++ {
			s := edit(head)
			if seen[s] {
				info.DroppedEqual++
				continue
			}
			seen[s] = true
			c := 2 + rng.intn(40)
			if sp.Ties > 0 && i%sp.Ties == sp.Ties-1 {
				c = headCount
			} else {
				designed(1)
				fathersOfHead++
			}
			first = append(first, lvl1{s, c})
			recs = append(recs, rec{Id: fmt.Sprintf("c%da%d", k, i), Seq: s, Counts: counts(c)})
		}
		if inverted || second != "" {
			info.ManyFathers = max(info.ManyFathers, fathersOfHead)
		}
		for i := 0; i < sp.L2 && len(first) > 0; i++ {
			p := first[rng.intn(len(first))]
			s := edit(p.seq)
			if seen[s] {
				info.DroppedEqual++
				continue
			}
			seen[s] = true
			designed(1)
			recs = append(recs, rec{Id: fmt.Sprintf("c%db%d", k, i), Seq: s, Counts: counts(1)})
		}
	}
	if sp.Shuffle {
		for i := len(recs) - 1; i > 0; i-- {
			j := rng.intn(i + 1)
			recs[i], recs[j] = recs[j], recs[i]
		}
	}
	info.Records = len(recs)
	for _, r := range recs {
		if hasAmbiguity(r.Seq) {
			info.WithAmbig++
		}
	}
	for _, n := range info.Designed {
		info.MaxDesigned = max(info.MaxDesigned, n)
	}
	return recs, info
}

var largeShapes = []string{"pairs", "stars", "stars", "big_stars", "big_stars", "two_level", "two_level", "two_level"}

// genLargeSpec draws a spec whose largest sample holds about minLinks..maxLinks
// links of the model graph.  Short heads with almost equal lengths make dense
// clusters (variants of one head touching the same position are linked with each
// other: up to two links and more per record), long heads sparse ones (one link
// per record); the shape "pairs" has half a link per record.  The number of
// clusters is scaled from a pilot data set of the same shape.
func genLargeSpec(t *rapid.T, shapes []string, samples []int, sparse bool, minLinks, maxLinks int) largeSpec {
	// (rapid draws small values first: the shard and run seeds are mixed in so that two
	// processes drawing the same shape do not rebuild the same data set)
	sp := largeSpec{Seed: rapid.Uint64().Draw(t, "seed") ^ (uint64(evid.Seed())*1000003+uint64(evid.Shard()))*0x9e3779b97f4a7c15}
	sp.Samples = rapid.SampledFrom(samples).Draw(t, "samples")
	shape := rapid.SampledFrom(shapes).Draw(t, "shape")
	dense := !sparse || rapid.IntRange(0, 3).Draw(t, "dense") != 0
	links := minLinks + (maxLinks-minLinks)*rapid.SampledFrom([]int{0, 0, 1, 2, 4, 8}).Draw(t, "links_eighths")/8
	links += rapid.IntRange(0, 200).Draw(t, "links_more")
	switch shape {
	case "pairs": // independent (head, variant) pairs: every father has a single son
		sp.L1 = 1
		// the pairwise comparison is quadratic in the number of records: no more than needed
		links = minLinks + (links-minLinks)/8
	case "stars":
		sp.L1 = rapid.IntRange(5, 60).Draw(t, "l1")
	case "big_stars":
		sp.L1 = rapid.IntRange(200, 600).Draw(t, "l1")
	default:
		sp.L1 = rapid.IntRange(3, 40).Draw(t, "l1")
		sp.L2 = rapid.IntRange(1, 3*sp.L1).Draw(t, "l2")
	}
	if dense {
		sp.MinLen = rapid.SampledFrom([]int{16, 20, 24, 30}).Draw(t, "minlen")
		sp.MaxLen = sp.MinLen + rapid.SampledFrom([]int{0, 1, 3}).Draw(t, "lenspan")
	} else {
		sp.MinLen = rapid.SampledFrom([]int{60, 100}).Draw(t, "minlen")
		sp.MaxLen = sp.MinLen + rapid.SampledFrom([]int{3, 40, 120}).Draw(t, "lenspan")
	}
	if shape == "big_stars" {
		// room for the variants of one head (a string of length L has about 8 L neighbours)
		sp.MinLen = max(sp.MinLen, sp.L1/5)
		sp.MaxLen = max(sp.MaxLen, sp.MinLen)
	}
	sp.Amb = rapid.SampledFrom([]int{0, 0, 0, 25, 5}).Draw(t, "amb")
	sp.Inverted = rapid.SampledFrom([]int{0, 0, 7, 2}).Draw(t, "inverted")
	sp.Ties = rapid.SampledFrom([]int{0, 0, 9, 3}).Draw(t, "ties")
	sp.Shuffle = rapid.Bool().Draw(t, "shuffle")
	// pilot: about 2000 records (at least 20 clusters, so that every sample receives some)
	sp.Clusters = max(20, 2000/(1+sp.L1+sp.L2))
	pilot, _ := buildLarge(sp)
	got := max(1, largestSample(pilot))
	sp.Clusters = max(1, (sp.Clusters*links+got-1)/got)
	return sp
}

// largestSample returns the number of links of the model graph of the sample
// holding most of them.
func largestSample(recs []rec) int {
	best := 0
	for _, nodes := range refSamples(recs) {
		best = max(best, linksOf(refGraphFast(nodes)))
	}
	return best
}

func largeClasses(prefix string, sp largeSpec, info largeInfo, links, workers int) []string {
	cl := []string{fmt.Sprintf("%s:samples:%d", prefix, sp.Samples)}
	switch {
	case sp.L2 > 0:
		cl = append(cl, prefix+":shape:two_level")
	case sp.L1 == 1:
		cl = append(cl, prefix+":shape:pairs")
	case sp.L1 >= 200:
		cl = append(cl, prefix+":shape:big_stars")
	default:
		cl = append(cl, prefix+":shape:stars")
	}
	for _, b := range []int{65536, 32768, 16384, 8192, 4096, 0} {
		if links >= b {
			cl = append(cl, fmt.Sprintf("%s:links_in_largest_sample>=%d", prefix, b))
			break
		}
	}
	for _, b := range []int{16384, 8192, 4096, 1024, 0} {
		if links/workers >= b {
			cl = append(cl, fmt.Sprintf("%s:links_per_worker(fewest_workers)>=%d", prefix, b))
			break
		}
	}
	if info.WithAmbig > 0 {
		cl = append(cl, prefix+":with_ambiguity_codes")
	}
	if info.ManyFathers >= 100 {
		cl = append(cl, prefix+":son_with>=100_fathers")
	}
	if sp.Ties > 0 {
		cl = append(cl, prefix+":ties")
	}
	return cl
}

// ------------------------------------------------------------------ through hook H4

type largeCase struct {
	Data    largeSpec
	Ratio   float64
	Workers []int // compared with the one-worker result
}

// checkLarge: the one-worker graph equals the model at the defaults (distance 1,
// ratio 1), and the graph of every other worker count equals the one-worker graph.
func checkLarge(c largeCase) error {
	recs, info := buildLarge(c.Data)
	if len(recs) == 0 {
		return nil
	}
	err := checkWorkersWith(workersCase{Recs: recs, Dist: 1, Ratio: c.Ratio, Workers: c.Workers, Reps: 1}, refGraphFast)
	if err != nil {
		return fmt.Errorf("data set rebuilt from %+v (%d records, %d links by construction in the largest sample): %v", c.Data, info.Records, info.MaxDesigned, err)
	}
	return nil
}

func TestPropLarge(t *testing.T) {
	rapid.Check(t, func(rt *rapid.T) {
		sp := genLargeSpec(rt, largeShapes, []int{1, 1, 1, 2, 5}, true, 8600, evid.Pick(12000, 30000))
		c := largeCase{Data: sp, Ratio: rapid.SampledFrom([]float64{1, 1, 1, 0.5}).Draw(rt, "ratio")}
		// few workers = many links per worker
		p := rapid.Permutation([]int{2, 2, 3, 4, 8, 32}).Draw(rt, "workers")
		c.Workers = append([]int(nil), p[:2]...)
		if sp.L1 == 1 && !evid.Thorough() {
			c.Workers = c.Workers[:1] // twice as many records as the other shapes for the same number of links
		}
		sort.Ints(c.Workers)
		recs, info := buildLarge(sp)
		links := largestSample(recs)
		nontrivial := links >= 8000
		cl := largeClasses("large", sp, info, links, 1)
		cl = append(cl, fmt.Sprintf("large:ratio:%v", c.Ratio))
		if nontrivial {
			cl = append(cl, "large:nontrivial")
		}
		evid.Eval("large", evid.Hash(fmt.Sprintf("%+v", c)), nontrivial, c, cl...)
		evid.Class("large:records", int64(info.Records))
		evid.Class("builds_with_several_workers", int64(len(c.Workers)))
		if err := checkLarge(c); err != nil {
			evid.Fail(rt, "large", c, err)
		}
	})
}

// ------------------------------------------------------------------ through the command

type cliLargeCase struct {
	Data      largeSpec
	Ratio     float64
	BatchSize int `json:",omitempty"`
	Runs      []cliRun
}

func checkCLILarge(c cliLargeCase) error {
	recs, info := buildLarge(c.Data)
	if len(recs) == 0 {
		return nil
	}
	err := checkCLIWith(cliCase{Recs: recs, Dist: 1, Ratio: c.Ratio, BatchSize: c.BatchSize, Runs: c.Runs, TimeoutS: 600, NoHeadRun: true}, refGraphFast)
	if err != nil {
		return fmt.Errorf("file rebuilt from %+v (%d records, %d links by construction in the largest sample): %v", c.Data, info.Records, info.MaxDesigned, err)
	}
	return nil
}

func TestPropCLILarge(t *testing.T) {
	rapid.Check(t, func(rt *rapid.T) {
		// shapes in which most fathers are themselves sons or have a single son: a wrong
		// son counter then shows in the weights and statuses the command writes
		// (quick: one sample and dense clusters only, the cheapest way to 2 x 8600 links in a sample)
		samples, sparse := []int{1}, false
		if evid.Thorough() {
			samples, sparse = []int{1, 1, 2, 5}, true
		}
		sp := genLargeSpec(rt, []string{"two_level", "two_level", "two_level", "stars"}, samples, sparse, 17200, evid.Pick(20000, 40000))
		c := cliLargeCase{Data: sp,
			Ratio:     rapid.SampledFrom([]float64{1, 1, 1, 0.5}).Draw(rt, "ratio"),
			BatchSize: rapid.SampledFrom([]int{0, 0, 500}).Draw(rt, "batchsize")}
		// the reference run uses few workers (many links per worker), the others any number
		first := []int{1, 2, 2} // (1 is another spelling of 2)
		if evid.Thorough() {
			first = []int{1, 2, 2, 3, 4}
		}
		c.Runs = []cliRun{{MaxCPU: rapid.SampledFrom(first).Draw(rt, "maxcpu0")}}
		for k := rapid.IntRange(1, evid.Pick(1, 2)).Draw(rt, "more_runs"); k > 0; k-- {
			r := cliRun{MaxCPU: rapid.SampledFrom([]int{2, 3, 4, 8, 16}).Draw(rt, "maxcpu")}
			if rapid.Bool().Draw(rt, "jitter") {
				r.Jitter = fmt.Sprintf("%d:%d", rapid.IntRange(1, 1000).Draw(rt, "jseed"), 200)
			}
			c.Runs = append(c.Runs, r)
		}
		recs, info := buildLarge(sp)
		links := largestSample(recs)
		w := max(2, c.Runs[0].MaxCPU)
		nontrivial := links >= 8000*w
		cl := largeClasses("cli_large", sp, info, links, w)
		cl = append(cl, fmt.Sprintf("cli_large:ratio:%v", c.Ratio))
		if nontrivial {
			cl = append(cl, "cli_large:nontrivial")
		}
		evid.Eval("cli_large", evid.Hash(fmt.Sprintf("%+v", c)), nontrivial, c, cl...)
		evid.Class("cli_large:records", int64(info.Records))
		evid.Class("cli_runs", int64(len(c.Runs)))
		if err := checkCLILarge(c); err != nil {
			evid.Fail(rt, "cli_large", c, err)
		}
	})
}
