package c13

// --distance 2 and more, --ratio 1: the graph is compared with a model.
//
// What `obiclean -d k` (k >= 2) builds, as read from BuildSeqGraph /
// extendSimilarityGraph and from the statements of C13 and C09:
//
//  1. the one-difference graph of the statement (strictly more abundant father,
//     exactly one substitution or indel under plain symbol equality);
//  2. every sequence that found NO father in step 1 is then compared with the
//     sequences placed after it in the sample sorted by increasing count (the
//     sort is stable: equally abundant sequences stay in file order - the order
//     CLIOBIClean restores on purpose, see its comment); a pair that is
//     identical or at one difference (step 1 dealt with it) is skipped; the
//     others are aligned with the LCS kernel bounded by k, and linked when the
//     number of differences it implies - length of the shortest alignment
//     realising the LCS minus the LCS, IUPAC-compatible symbols match (statement
//     of C09) - is at most k.  The edge carries that number (0..k).
//
// The kernel answers exactly within its bound and never gives a spurious
// within-bound answer (C09), so the model is: edge iff ref.LCS gives at most k
// differences.  Nothing is asserted about the weights at distance >= 2 (they
// are those of step 1: no written definition) nor about --ratio < 1 combined
// with distance >= 2; there only the identity over worker counts and runs holds.

import (
	"fmt"
	"sort"
	"strings"
	"testing"

	"pgregory.net/rapid"

	"verifharness/internal/evid"
	"verifharness/internal/gen"
	"verifharness/internal/ref"
)

func init() {
	evid.Reg("exact_dist", checkExactDist)
}

type distEdge struct {
	Father string
	Dist   int
}

type distGraph struct {
	Fathers map[string][]distEdge // son -> edges sorted by father id
	Sons    map[string]int
	// what the model met on the way (class labels)
	Classes map[string]bool
}

// kernelDiff is the number of differences the LCS kernel reports for a pair.
func kernelDiff(a, b string) int {
	lcs, ali := ref.LCS(a, b, ref.IUPACCompatible)
	return ali - lcs
}

// refGraphDist is the model graph of one sample at --distance step >= 2.
// nodes are in file order.
func refGraphDist(nodes []refNode, step int) *distGraph {
	g := &distGraph{Fathers: map[string][]distEdge{}, Sons: map[string]int{}, Classes: map[string]bool{}}
	order := append([]refNode(nil), nodes...)
	sort.SliceStable(order, func(i, j int) bool { return order[i].Count < order[j].Count })
	for i := range order {
		for j := i + 1; j < len(order); j++ {
			if order[j].Count > order[i].Count && oneEdit(order[i].Seq, order[j].Seq) {
				g.Fathers[order[i].Id] = append(g.Fathers[order[i].Id], distEdge{order[j].Id, 1})
				g.Sons[order[j].Id]++
			}
		}
	}
	first := map[string]bool{}
	for id := range g.Fathers {
		first[id] = true
	}
	for i := range order {
		son := order[i]
		if first[son.Id] {
			continue
		}
		for j := i + 1; j < len(order); j++ {
			f := order[j]
			if son.Seq == f.Seq || oneEdit(son.Seq, f.Seq) {
				continue
			}
			if d := len(son.Seq) - len(f.Seq); d > step+1 || -d > step+1 {
				continue // at least |d| gap columns: beyond the bound (and beyond the next class)
			}
			d := kernelDiff(son.Seq, f.Seq)
			if d == step+1 {
				g.Classes["dist:pair_one_beyond_the_bound"] = true
			}
			if d > step {
				continue
			}
			g.Fathers[son.Id] = append(g.Fathers[son.Id], distEdge{f.Id, d})
			g.Sons[f.Id]++
			g.Classes["dist:extension_edge"] = true
			g.Classes[fmt.Sprintf("dist:extension_edge_of_%d_differences", d)] = true
			if d == step {
				g.Classes["dist:extension_edge_at_the_bound"] = true
			}
			if f.Count == son.Count {
				g.Classes["dist:extension_edge_between_equally_abundant"] = true
			}
			if first[f.Id] {
				g.Classes["dist:extension_father_is_a_one_difference_son"] = true
			}
			if strict := ref.Levenshtein(son.Seq, f.Seq); strict > d {
				// ambiguity codes facing compatible symbols: fewer differences for the kernel
				// than symbols that differ
				g.Classes["dist:extension_edge_with_compatible_ambiguity_codes"] = true
				if strict > step {
					g.Classes["dist:extension_edge_with_more_differing_symbols_than_the_bound"] = true
					if min(len(son.Seq), len(f.Seq)) > 3+4*step+4 {
						g.Classes["dist:same_on_sequences_longer_than_7+4*distance"] = true
					}
				}
			} else if hasAmbiguity(son.Seq) || hasAmbiguity(f.Seq) {
				g.Classes["dist:extension_edge_with_ambiguity_codes_elsewhere"] = true
			}
		}
	}
	for _, e := range g.Fathers {
		sort.Slice(e, func(i, j int) bool { return e[i].Father < e[j].Father })
	}
	return g
}

// compareWithDistModel judges one observed sample (distance step >= 2, ratio 1).
func compareWithDistModel(name string, nodes []refNode, o *obsSample, step int, g *distGraph) error {
	seqOf := map[string]string{}
	cntOf := map[string]int{}
	if len(o.Nodes) != len(nodes) {
		return fmt.Errorf("sample %q has %d nodes, the data set puts %d records in it", name, len(o.Nodes), len(nodes))
	}
	for _, n := range nodes {
		seqOf[n.Id], cntOf[n.Id] = n.Seq, n.Count
		on, ok := o.Nodes[n.Id]
		if !ok {
			return fmt.Errorf("sample %q: record %s is missing from the graph", name, n.Id)
		}
		if on.Count != n.Count {
			return fmt.Errorf("sample %q: record %s enters the graph with count %d, the data set says %d", name, n.Id, on.Count, n.Count)
		}
	}
	got := map[string][]distEdge{}
	for _, e := range o.Edges { // sorted by (son, father)
		got[e.Son] = append(got[e.Son], distEdge{e.Father, e.Dist})
	}
	describe := func(s, f string) string {
		return fmt.Sprintf("%s (count %d, %s) -> %s (count %d, %s): %d differences for the LCS kernel (IUPAC-compatible symbols match), edit distance %d under plain equality",
			s, cntOf[s], seqOf[s], f, cntOf[f], seqOf[f], kernelDiff(seqOf[s], seqOf[f]), ref.Levenshtein(seqOf[s], seqOf[f]))
	}
	for _, n := range nodes {
		w, h := g.Fathers[n.Id], got[n.Id]
		hw := map[string]int{}
		for _, e := range w {
			hw[e.Father] = e.Dist
		}
		hh := map[string]int{}
		for _, e := range h {
			hh[e.Father] = e.Dist
			d, ok := hw[e.Father]
			if !ok {
				return fmt.Errorf("sample %q: link %s is not in the model of --distance %d (model fathers of %s: %v)", name, describe(n.Id, e.Father), step, n.Id, w)
			}
			if d != e.Dist {
				return fmt.Errorf("sample %q: link %s carries distance %d, the model says %d", name, describe(n.Id, e.Father), e.Dist, d)
			}
		}
		for _, e := range w {
			if _, ok := hh[e.Father]; !ok {
				why := "they are at one difference and the second is strictly more abundant"
				if e.Dist != 1 || !oneEdit(n.Seq, seqOf[e.Father]) {
					why = fmt.Sprintf("%s has no father at one difference, %s comes after it in the sample sorted by count and the two are within %d differences", n.Id, e.Father, step)
				}
				return fmt.Errorf("sample %q: link %s is MISSING at --distance %d although %s (fathers found: %v)", name, describe(n.Id, e.Father), step, why, h)
			}
		}
	}
	for _, n := range nodes {
		on := o.Nodes[n.Id]
		if on.SonCount != g.Sons[n.Id] {
			return fmt.Errorf("sample %q: %s has SonCount %d, the model gives %d sons", name, n.Id, on.SonCount, g.Sons[n.Id])
		}
		want := statusOf(len(g.Fathers[n.Id]), g.Sons[n.Id])
		if on.Status != want {
			return fmt.Errorf("sample %q: %s has status %q, the model says %q (%d fathers, %d sons)", name, n.Id, on.Status, want, len(g.Fathers[n.Id]), g.Sons[n.Id])
		}
	}
	return nil
}

type exactDistCase struct {
	Recs    []rec
	Dist    int
	Workers int
}

func checkExactDist(c exactDistCase) error {
	if c.Dist < 2 {
		return fmt.Errorf("harness: exact_dist is for --distance >= 2")
	}
	obs, err := build(c.Recs, c.Dist, 1.0, c.Workers)
	if err != nil {
		return err
	}
	if err := compareAllWithDistModel(c.Recs, obs, c.Dist); err != nil {
		return fmt.Errorf("VerifBuildGraph(distance %d, ratio 1, %d workers): %v", c.Dist, c.Workers, err)
	}
	return nil
}

// compareAllWithDistModel judges every observed sample (distance dist >= 2, ratio 1).
func compareAllWithDistModel(recs []rec, obs map[string]*obsSample, dist int) error {
	samples := refSamples(recs)
	for _, name := range sortedKeys(samples) {
		o := obs[name]
		if o == nil {
			return fmt.Errorf("sample %q (%d records) is missing from the result (samples returned: %v)", name, len(samples[name]), sortedKeys(obs))
		}
		if err := selfConsistent(name, o); err != nil {
			return err
		}
		if err := compareWithDistModel(name, samples[name], o, dist, refGraphDist(samples[name], dist)); err != nil {
			return err
		}
	}
	for _, name := range sortedKeys(obs) {
		if _, ok := samples[name]; !ok {
			return fmt.Errorf("result holds a sample %q that no record belongs to", name)
		}
	}
	return nil
}

// distClasses runs the model on every sample and returns its class labels.
func distClasses(recs []rec, step int) (extension int, classes []string) {
	cl := map[string]bool{}
	for _, nodes := range refSamples(recs) {
		g := refGraphDist(nodes, step)
		for c := range g.Classes {
			cl[c] = true
		}
		if g.Classes["dist:extension_edge"] {
			extension++
		}
	}
	return extension, sortedKeys(cl)
}

// ------------------------------------------------------------------ data sets for distance >= 2

// compatibleCode draws a symbol different from c that the LCS kernel matches
// with c: an ambiguity code whose set holds the base c, or, for an ambiguity
// code c, one of its bases or another code sharing a base with it.
func compatibleCode(t *rapid.T, c byte) byte {
	var cands []byte
	for i := 0; i < len(gen.IUPAC); i++ {
		x := gen.IUPAC[i]
		if x != c && ref.IUPACCompatible(x, c) {
			cands = append(cands, x)
		}
	}
	if len(cands) == 0 {
		return 'n'
	}
	// n is the usual no-call
	if c != 'n' && rapid.Bool().Draw(t, "n") {
		return 'n'
	}
	return cands[rapid.IntRange(0, len(cands)-1).Draw(t, "code")]
}

// spreadPositions draws k distinct positions of 0..n-1: one in each of k equal
// segments (spread), anywhere, or next to each other (clustered).
func spreadPositions(t *rapid.T, n, k int) []int {
	if k > n {
		k = n
	}
	if k <= 0 {
		return nil
	}
	var ps []int
	switch rapid.SampledFrom([]string{"spread", "spread", "any", "clustered"}).Draw(t, "placement") {
	case "spread":
		for i := 0; i < k; i++ {
			lo, hi := i*n/k, (i+1)*n/k-1
			ps = append(ps, rapid.IntRange(lo, max(lo, hi)).Draw(t, "pos"))
		}
	case "clustered":
		start := rapid.IntRange(0, n-k).Draw(t, "pos")
		for i := 0; i < k; i++ {
			ps = append(ps, start+i)
		}
	default:
		seen := map[int]bool{}
		for len(ps) < k {
			p := rapid.IntRange(0, n-1).Draw(t, "pos")
			for seen[p] {
				p = (p + 1) % n
			}
			seen[p] = true
			ps = append(ps, p)
		}
		sort.Ints(ps)
	}
	return ps
}

// distVariant derives a variant of s carrying `real` true differences
// (substitutions by an incompatible base, insertions, deletions) and `amb`
// positions at which the symbol is replaced by a different but IUPAC-compatible
// one (no difference for the LCS kernel, one for a symbol-by-symbol comparison).
func distVariant(t *rapid.T, s string, real, amb int) string {
	ps := spreadPositions(t, len(s), real+amb)
	// which of the positions are true differences
	kinds := make([]byte, len(ps))
	perm := rapid.Permutation(seqInts(len(ps))).Draw(t, "which")
	for i, p := range perm {
		if i < amb {
			kinds[p] = 'a'
		} else {
			kinds[p] = rapid.SampledFrom([]byte{'s', 's', 's', 'i', 'd'}).Draw(t, "kind")
		}
	}
	var b strings.Builder
	next := 0
	for i := 0; i < len(s); i++ {
		if next < len(ps) && ps[next] == i {
			switch kinds[next] {
			case 'a':
				b.WriteByte(compatibleCode(t, s[i]))
			case 's':
				// a base the symbol is not compatible with (n: nothing is incompatible, the position stays)
				c := s[i]
				for k, start := 0, rapid.IntRange(0, 3).Draw(t, "base"); k < 4; k++ {
					if x := gen.ACGT[(start+k)%4]; !ref.IUPACCompatible(x, s[i]) {
						c = x
						break
					}
				}
				b.WriteByte(c)
			case 'i':
				b.WriteByte(gen.ACGT[rapid.IntRange(0, 3).Draw(t, "base")])
				b.WriteByte(s[i])
			case 'd':
			}
			next++
			continue
		}
		b.WriteByte(s[i])
	}
	return b.String()
}

func seqInts(n int) []int {
	out := make([]int, n)
	for i := range out {
		out[i] = i
	}
	return out
}

// genDistDataset builds 1-2 samples for --distance step: seeds (a few of their
// symbols may be ambiguity codes) and variants at 0..step+1 true differences
// plus 0..3 compatible ambiguous positions of their parent (a seed or another
// variant), most of them less abundant than the parent, some tied, some more
// abundant.  Lengths are biased to the neighbourhood of 3+4*step, the length
// below which two sequences within the bound need not share any 4-mer.
func genDistDataset(t *rapid.T, step, maxSeqs int) ([]rec, []string) {
	classes := map[string]bool{}
	nsamples := rapid.SampledFrom([]int{1, 1, 2}).Draw(t, "nsamples")
	ambSeed := rapid.SampledFrom([]int{0, 0, 15, 6}).Draw(t, "seed_ambiguity")
	n := gen.Len(t, "nseqs", 2, maxSeqs, 3, 4)
	type item struct {
		seq    string
		parent int
	}
	var items []item
	seen := map[string]bool{}
	add := func(s string, parent int) {
		if len(s) == 0 || seen[s] {
			return
		}
		seen[s] = true
		items = append(items, item{s, parent})
	}
	newSeed := func() {
		L := gen.Len(t, "seedlen", 4, 64, 3+4*step, 7+4*step, 20, 40)
		add(gen.SeqMix(t, "seed", L, gen.ACGT, ambCodes, ambSeed), -1)
	}
	newSeed()
	for tries := 0; len(items) < n && tries < 4*n; tries++ {
		if len(items) == 0 || rapid.IntRange(0, 9).Draw(t, "what") == 0 {
			newSeed()
			continue
		}
		parent := 0
		if rapid.IntRange(0, 2).Draw(t, "from_seed") != 0 {
			parent = rapid.IntRange(0, len(items)-1).Draw(t, "parent")
		}
		real := rapid.SampledFrom([]int{0, 1, step - 1, step, step, step + 1}).Draw(t, "real_differences")
		amb := rapid.SampledFrom([]int{0, 0, 1, 1, 2, 3}).Draw(t, "compatible_positions")
		if real+amb == 0 {
			real = step
		}
		add(distVariant(t, items[parent].seq, real, amb), parent)
		if amb > 0 {
			classes[fmt.Sprintf("dist:variant:%d_true_differences+compatible_positions(bound %d)", real, step)] = true
		}
	}
	recs := make([]rec, len(items))
	for i, it := range items {
		r := rec{Id: fmt.Sprintf("q%d", i), Seq: it.seq, Counts: map[string]int{}}
		for _, sname := range sampleNames[:nsamples] {
			if nsamples > 1 && rapid.IntRange(0, 3).Draw(t, "absent") == 0 {
				continue
			}
			c := rapid.SampledFrom([]int{1, 1, 2, 3, 10, 1000}).Draw(t, "count")
			if it.parent >= 0 && recs[it.parent].Counts[sname] > 0 {
				pc := recs[it.parent].Counts[sname]
				switch rapid.IntRange(0, 7).Draw(t, "rel") {
				case 0:
					c = pc // tie: the direction of the link is the file order
				case 1:
					c = pc + rapid.IntRange(1, 3).Draw(t, "above")
				default:
					c = max(1, pc/rapid.SampledFrom([]int{2, 3, 10}).Draw(t, "div"))
				}
			}
			r.Counts[sname] = c
		}
		if len(r.Counts) == 0 {
			r.Counts[sampleNames[0]] = rapid.IntRange(1, 5).Draw(t, "count")
		}
		recs[i] = r
	}
	// the file order decides between equally abundant sequences: shuffle it
	if rapid.Bool().Draw(t, "shuffle") {
		perm := rapid.Permutation(seqInts(len(recs))).Draw(t, "file_order")
		sh := make([]rec, len(recs))
		for i, p := range perm {
			sh[i] = recs[p]
		}
		recs = sh
		classes["dist:file_order_shuffled"] = true
	}
	classes[fmt.Sprintf("samples:%d", nsamples)] = true
	return recs, keysOf(classes)
}

func TestPropExactDist(t *testing.T) {
	rapid.Check(t, func(rt *rapid.T) {
		dist := rapid.SampledFrom([]int{2, 2, 3}).Draw(rt, "distance")
		var recs []rec
		var cl []string
		if rapid.IntRange(0, 3).Draw(rt, "generator") == 0 {
			// the data sets of the exactness check (one-difference stars and chains, 2-3 difference
			// variants, ambiguity codes in half of them, zero counts)
			recs, cl = genDatasetZ(rt, evid.Pick(30, 50))
			cl = append(cl, "dist:generator:small_data_sets")
		} else {
			recs, cl = genDistDataset(rt, dist, evid.Pick(24, 40))
			cl = append(cl, "dist:generator:bounded_variants")
		}
		c := exactDistCase{Recs: recs, Dist: dist, Workers: rapid.SampledFrom([]int{1, 2, 3, 8}).Draw(rt, "workers")}
		ext, mcl := distClasses(recs, dist)
		cl = append(cl, mcl...)
		cl = append(cl, fmt.Sprintf("dist:distance:%d", dist))
		amb := false
		for _, r := range recs {
			amb = amb || hasAmbiguity(r.Seq)
		}
		if amb {
			cl = append(cl, "dist:data_set_with_ambiguity_codes")
		}
		if ext > 0 {
			cl = append(cl, "exact_dist:nontrivial")
		}
		evid.Eval("exact_dist", evid.Hash(hashRecs(recs), dist), ext > 0, c, cl...)
		if err := checkExactDist(c); err != nil {
			evid.Fail(rt, "exact_dist", c, err)
		}
	})
}

// ------------------------------------------------------------------ the command at distance >= 2

// checkCLIModelDist compares what the command wrote at --distance dist >= 2,
// --ratio 1 with the model: the status of every record in every sample and the
// fathers named by obiclean_mutation.  recs are in file order.
func checkCLIModelDist(recs []rec, dist int, out map[string]outRec) error {
	seqOf := map[string]string{}
	for _, r := range recs {
		seqOf[r.Id] = r.Seq
	}
	wantMut := map[string]map[string]bool{}
	samples := refSamples(recs)
	for _, name := range sortedKeys(samples) {
		g := refGraphDist(samples[name], dist)
		for _, n := range samples[name] {
			want := statusOf(len(g.Fathers[n.Id]), g.Sons[n.Id])
			if got := out[n.Id].Status[name]; got != want {
				var fs []string
				for _, e := range g.Fathers[n.Id] {
					fs = append(fs, fmt.Sprintf("%s (%s, %d differences for the LCS kernel)", e.Father, seqOf[e.Father], e.Dist))
				}
				return fmt.Errorf("record %s (%s, count %d) has status %q in sample %q; the model of --distance %d says %q (fathers %v, %d sons)",
					n.Id, n.Seq, n.Count, got, name, dist, want, fs, g.Sons[n.Id])
			}
			for _, e := range g.Fathers[n.Id] {
				if wantMut[n.Id] == nil {
					wantMut[n.Id] = map[string]bool{}
				}
				wantMut[n.Id][e.Father] = true
			}
		}
	}
	for _, r := range recs {
		got := out[r.Id].Mutation
		for _, f := range sortedKeys(got) {
			if !wantMut[r.Id][f] {
				return fmt.Errorf("record %s: obiclean_mutation names %s which is not one of its fathers in any sample at --distance %d (model fathers %v)", r.Id, f, dist, sortedKeys(wantMut[r.Id]))
			}
			if oneEdit(r.Seq, seqOf[f]) {
				if err := checkMutationText(got[f], seqOf[f], r.Seq); err != nil {
					return fmt.Errorf("record %s (%s) -> father %s (%s): %v", r.Id, r.Seq, f, seqOf[f], err)
				}
			}
		}
		for _, f := range sortedKeys(wantMut[r.Id]) {
			if _, ok := got[f]; !ok {
				return fmt.Errorf("record %s (%s): obiclean_mutation %v does not report its father %s (%s) of --distance %d", r.Id, r.Seq, got, f, seqOf[f], dist)
			}
		}
	}
	return nil
}
