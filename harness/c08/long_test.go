package c08

import (
	"fmt"
	"math"
	"testing"

	"pgregory.net/rapid"

	"verifharness/internal/evid"
	"verifharness/internal/gen"
)

func init() {
	evid.Tests(
		evid.Spec{Name: "TestPropLongReads", Kind: "rapid", Quick: 160, Thorough: 4000, QuickShards: 8, ThoroughShards: 16},
		evid.Spec{Name: "TestPropIdentityEdge", Kind: "rapid", Quick: 480, Thorough: 12000, QuickShards: 8, ThoroughShards: 16},
	)
}

// Reads far longer than the 150-300 nt of short-read platforms (Sanger F/R,
// long amplicons): overhangs and indel runs of more than 512 columns, arenas
// grown well beyond their initial 150 x 150, reused for a shorter pair afterwards.
func TestPropLongReads(t *testing.T) {
	rapid.Check(t, func(rt *rapid.T) {
		var ac arenaCase
		ac.ArenaA, ac.ArenaB = 150, 150
		n := rapid.IntRange(2, 4).Draw(rt, "npairs")
		long := false
		for i := 0; i < n; i++ {
			maxLen := rapid.SampledFrom([]int{300, 900, 1500}).Draw(rt, "maxlen")
			c := genPair(rt, maxLen)
			ac.Pairs = append(ac.Pairs, c)
			if abs(len(c.A)-len(c.B)) > 512 || len(c.A) > 512 || len(c.B) > 512 {
				long = true
			}
		}
		evid.Eval("arena", evid.Hash(fmt.Sprintf("%+v", ac)), long, nil, "arena_sequences", "reads_longer_than_512")
		if err := checkArena(ac); err != nil {
			evid.Fail(rt, "arena", ac, err)
		}
	})
}

// The accept/join decision exactly at the --min-identity threshold: an overlap
// of L columns holding the largest number of mismatches that still reaches the
// threshold, or one more.  No ambiguity code, no quality 0: the strict and the
// loose reading of "identity" coincide, so the expected mode is decided.
func TestPropIdentityEdge(t *testing.T) {
	rapid.Check(t, func(rt *rapid.T) {
		var c pairCase
		c.Fast = rapid.Bool().Draw(rt, "fast")
		c.Rel = rapid.Bool().Draw(rt, "relative")
		c.Delta = 5
		c.Gap, c.Scale = 2, 1
		c.MinOverlap = 20
		c.MinIdentity = rapid.SampledFrom([]float64{0.8, 0.9, 0.9, 0.95, 0.99}).Draw(rt, "min_identity")
		L := rapid.IntRange(60, 420).Draw(rt, "overlap")
		// the smallest number of matches reaching the threshold
		need := int(math.Ceil(c.MinIdentity*float64(L) - 1e-9))
		matches := need - rapid.IntRange(0, 1).Draw(rt, "one_below")
		mism := L - matches
		if mism < 0 || mism > L/3 {
			rt.Skip("no such overlap")
		}
		la := L + rapid.IntRange(5, 60).Draw(rt, "a_only")
		lb := L + rapid.IntRange(5, 60).Draw(rt, "b_only")
		frag, _ := fragment(rt, la+lb-L)
		c.Frag, c.A0, c.B0 = frag, 0, la-L
		c.A = frag[:la]
		b := []byte(frag[la-L:])
		// mismatches spread over the overlap, never adjacent, each a plain substitution
		pos := rapid.Permutation(seqInts(L / 2)).Draw(rt, "mismatch_slots")[:mism]
		for _, p := range pos {
			i := 2 * p
			b[i] = "acgt"[(indexOf("acgt", b[i])+1+rapid.IntRange(0, 2).Draw(rt, "sub"))%4]
		}
		c.B = string(b)
		c.QA = make([]int, len(c.A))
		c.QB = make([]int, len(c.B))
		for i := range c.QA {
			c.QA[i] = 35
		}
		for i := range c.QB {
			c.QB[i] = 30
		}
		c.Kind = "identity_edge"
		o, err := checkPairAnswer(c)
		diag, acl := answerClasses(c, o)
		cl := append([]string{"identity_edge", fmt.Sprintf("identity_edge:threshold_%v", c.MinIdentity)}, acl...)
		if matches < need {
			cl = append(cl, "identity_edge:just_below")
		} else {
			cl = append(cl, "identity_edge:just_reached")
		}
		evid.Eval("pair", evid.Hash(fmt.Sprintf("%+v", c)), diag, c, cl...)
		if err != nil {
			evid.Fail(rt, "pair", c, err)
		}
	})
}

func seqInts(n int) []int {
	s := make([]int, n)
	for i := range s {
		s[i] = i
	}
	return s
}

func indexOf(s string, c byte) int {
	for i := 0; i < len(s); i++ {
		if s[i] == c {
			return i
		}
	}
	return 0
}

var _ = gen.ACGT
