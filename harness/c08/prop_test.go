// Property C08 — paired-end assembly: valid path, optimal score, correct consensus.
//
// Observation points: the tuple returned by obialign.PEAlign and the record
// returned by obipairing.AssemblePESequences (both called exactly as the
// obipairing worker calls them: one arena and one shift map per worker, reused
// from pair to pair).
//
// Oracles (numbers as in DESIGN.md §C08):
//
//	(1) path validity: (indel, diagonal) pairs, diagonal runs >= 0, both reads
//	    consumed exactly;
//	(2) the reported score equals the score recomputed along the returned path
//	    with the column score / gap penalty exported by hook H3 under the
//	    documented one-side-free end-gap scheme named by the returned direction
//	    (scores are integers: the comparison is exact, tolerance 0);
//	(3) exact mode: the reported score equals max(left optimum, right optimum) of
//	    an independent full-matrix dynamic program (ref.PEOptimum);
//	(4) the consensus holds one base and one quality per path column, the base
//	    of the higher quality read winning (single read columns: that read's
//	    base; equal qualities and different bases: the IUPAC ambiguity code, as
//	    documented by BuildQualityConsensus); mode / ali_length / seq_a_single /
//	    seq_b_single / score agree with the path and with the returned length;
//	    join mode returns A + ten dots + B (quality 0 under the dots);
//	(5) two error-free reads cut from one fragment and overlapping by at least
//	    min-overlap are reassembled into the fragment — under the conditions
//	    listed below.
//
// Domain decisions (sub-cases the statement does not decide; not asserted):
//
//   - Consensus quality: the statement says "one quality per column" and gives
//     no formula; neither does the documentation.  Checked: one quality per
//     column, inside the quality domain of the property (0..93), and identical
//     for a fresh and a reused arena.  The actual rule (sum of the two qualities
//     on a match, a corrected maximum on a mismatch, cap 90) is not asserted.
//   - Quality 0: the mismatch table entry for two qualities 0 is built from
//     log(0)-log(0) (NaN converted to int).  Such pairs are generated and go
//     through (1), (2), (4); (3) and (5) skip pairs in which both reads carry a
//     quality 0 when the table entry read through H3 is not finite.
//   - Identity used for min-identity is not defined by the documentation for
//     IUPAC codes and quality-0 bases.  mode is required to be "alignment" when
//     overlap >= min-overlap and the strictest reading (equal symbols, both
//     qualities > 0) reaches min-identity, "join" when the overlap is too short
//     or the loosest reading (IUPAC compatible symbols) misses min-identity;
//     in between both answers are accepted.
//   - seq_a_single / seq_b_single: always ali_length + seq_a_single +
//     seq_b_single = length of the returned sequence and ali_length = columns
//     outside the first and last indel runs.  Which of the two gets which end
//     is asserted only when the end runs have the sign the reported direction
//     documents (left: A first, B last; right: B first, A last).  When an end
//     run has the other sign (one read contained in the other: outside the
//     "3'-end gap free" model of the documentation) only the sum is checked.
//   - In join mode only mode, sequence and qualities are checked (the statement
//     does not say what ali_length means for a rejected alignment).
//   - Reassembly (5), exact mode: claimed only when the independent DP says the
//     alignment at the true offset is the unique optimum of max(left, right)
//     (if both schemes reach the optimum, in both) — otherwise another
//     alignment is as good or better under the documented scoring and the
//     fragment is not determined (repeats, containment: the model penalises the
//     overhang of a containing read).
//   - Reassembly (5), fast mode: claimed only when the true offset is the strict
//     maximiser of the harness's own 4-mer diagonal score (absolute: number of
//     shared 4-mers on the diagonal; relative: that number divided by the number
//     of 4-mers of the diagonal's overlap — under both readings of "overlap" for
//     a diagonal on which one read ends inside the other: shared columns, or
//     distance from the offset to the read end as FastShiftFourMer computes it;
//     the documentation defines neither) with at least one shared 4-mer, and,
//     when the geometry puts a penalised overhang on the scheme selected by the
//     offset (left for offset > 0, right for offset < 0, either for offset 0),
//     additionally only when the independent DP for that scheme has the true
//     alignment as unique optimum (the documentation aligns the predicted
//     overlap with the one-side-free scheme; containment is outside that model).
//   - Empty reads, reads without qualities, symbols outside the 15 IUPAC
//     nucleotide codes, '.' and '-', gap factor or scale <= 0, negative delta
//     and a nil arena (obipairing never passes one) are outside the quantifier.
package c08

import (
	"fmt"
	"reflect"
	"strings"
	"testing"

	"git.metabarcoding.org/obitools/obitools4/obitools4/pkg/obialign"
	"git.metabarcoding.org/obitools/obitools4/obitools4/pkg/obiseq"
	"git.metabarcoding.org/obitools/obitools4/obitools4/pkg/obitools/obipairing"
	"pgregory.net/rapid"

	"verifharness/internal/evid"
	"verifharness/internal/fatal"
	"verifharness/internal/ref"
)

func TestMain(m *testing.M) {
	evid.Tests(
		evid.Spec{Name: "TestReplay", Kind: "plain", QuickShards: 1, ThoroughShards: 1},
		evid.Spec{Name: "TestExhaustiveTiny", Kind: "plain", QuickShards: 4, ThoroughShards: 16, TimeoutS: 3000},
		evid.Spec{Name: "TestPropPair", Kind: "rapid", Quick: 40000, Thorough: 640000, QuickShards: 16, ThoroughShards: 16, TimeoutS: 3000},
		evid.Spec{Name: "TestPropArena", Kind: "rapid", Quick: 8000, Thorough: 160000, QuickShards: 8, ThoroughShards: 16, TimeoutS: 3000},
	)
	evid.Note("rule", "pair: two reads (1..300 nt, qualities 0..93) cut by construction from one generated fragment (all 4-mers distinct / free / two-letter / tandem repeat) in a chosen geometry (3' overlap 'left', 5' overlap 'right', either read contained in the other, identical start, identical end, identical reads, overlap 0..3, gap, unrelated), then optionally edited (substitutions, indels, lowered quality) and sprinkled with IUPAC codes; settings fast/exact x relative/absolute x delta 0..10 x gap 0.5..4 x scale 0.5..2 x min-overlap x min-identity x inplace. arena: 2..6 such pairs of alternating sizes through ONE arena and ONE shift map (as an obipairing worker does), every answer compared with the answer of a fresh arena. tiny: every pair over {a,c} up to length 5 (quick) / {a,c,g} up to length 5 (thorough) x 3 modes x 2 quality patterns. Oracles: path validity; score recomputed along the path with the H3 column score and gap penalty under the reported one-side-free scheme (exact integer equality); exact mode score = max(left, right) of an independent full-matrix DP; consensus base per column (higher quality wins, IUPAC code on ties), one quality per column, annotations vs path; join = A + 10 dots + B; error-free reads reassemble the fragment when the DP optimum is unique at the true offset (exact) / the true offset strictly maximises the 4-mer diagonal score (fast). Non-trivial = the returned path has a diagonal run and the reads overlap by >= 4 columns by construction (arena: a pair smaller than its predecessor; tiny: both reads hold a 4-mer). Distinct = hash of the whole case.")
	evid.Main(m, "C08")
}

func TestReplay(t *testing.T) { evid.Replay(t) }

func init() {
	evid.Reg("pair", checkPair)
	evid.Reg("arena", checkArena)
}

// ------------------------------------------------------------------ the case

// pairCase is one read pair with the complete settings of one assembly.
type pairCase struct {
	A, B        string
	QA, QB      []int
	Fast, Rel   bool
	Delta       int
	Gap, Scale  float64
	MinOverlap  int
	MinIdentity float64
	Inplace     bool
	// construction record: before editing, A = Frag[A0:A0+|A|], B = Frag[B0:B0+|B|]
	// (Frag == "" for unrelated reads)
	Frag   string
	A0, B0 int
	Kind   string
}

type arenaCase struct {
	ArenaA, ArenaB int // dimensions given to MakePEAlignArena
	Pairs          []pairCase
}

// errorFree says whether the reads are verbatim pieces of the fragment over acgt.
func (c pairCase) errorFree() bool {
	if c.Frag == "" || c.A0 < 0 || c.B0 < 0 || c.A0+len(c.A) > len(c.Frag) || c.B0+len(c.B) > len(c.Frag) {
		return false
	}
	if c.Frag[c.A0:c.A0+len(c.A)] != c.A || c.Frag[c.B0:c.B0+len(c.B)] != c.B {
		return false
	}
	for i := 0; i < len(c.A); i++ {
		if !isACGT(c.A[i]) {
			return false
		}
	}
	for i := 0; i < len(c.B); i++ {
		if !isACGT(c.B[i]) {
			return false
		}
	}
	return true
}

func isACGT(x byte) bool { return x == 'a' || x == 'c' || x == 'g' || x == 't' }

// overlap is the constructed number of columns shared by the two reads.
func (c pairCase) overlap() int {
	if c.Frag == "" {
		return 0
	}
	return ref.DiagonalOverlap(len(c.A), len(c.B), c.B0-c.A0)
}

func (c pairCase) validate() error {
	if len(c.A) == 0 || len(c.B) == 0 || len(c.A) != len(c.QA) || len(c.B) != len(c.QB) {
		return fmt.Errorf("malformed case: |A|=%d |QA|=%d |B|=%d |QB|=%d", len(c.A), len(c.QA), len(c.B), len(c.QB))
	}
	for _, q := range append(append([]int{}, c.QA...), c.QB...) {
		if q < 0 || q > 93 {
			return fmt.Errorf("malformed case: quality %d", q)
		}
	}
	return nil
}

func quals(q []int) []byte {
	b := make([]byte, len(q))
	for i, v := range q {
		b[i] = byte(v)
	}
	return b
}

func mkseq(id, s string, q []int) *obiseq.BioSequence {
	bs := obiseq.NewBioSequence(id, []byte(s), "")
	bs.SetQualities(quals(q))
	return bs
}

// ------------------------------------------------------------------ running the real code

type outcome struct {
	IsLeft    bool
	Score     int
	Path      []int
	FastCount int
	Over      int
	FastScore float64
	Seq       string
	Qual      []byte
	Annot     map[string]any
}

// runReal aligns and assembles one pair with the given arena / shift map.
func runReal(c pairCase, arena obialign.PEAlignArena, shifts *map[int]int) (outcome, error) {
	var o outcome
	out := fatal.Run(func() {
		a, b := mkseq("a", c.A, c.QA), mkseq("b", c.B, c.QB)
		isLeft, score, path, fc, over, fs := obialign.PEAlign(a, b, c.Gap, c.Scale, c.Fast, c.Delta, c.Rel, arena, shifts)
		o.IsLeft, o.Score, o.FastCount, o.Over, o.FastScore = isLeft, score, fc, over, fs
		o.Path = append([]int{}, path...) // the returned path lives in the arena
	})
	if !out.Completed {
		return o, fmt.Errorf("PEAlign(%s) did not return: %v\n%s", c.brief(), out, out.Stack)
	}
	out = fatal.Run(func() {
		a, b := mkseq("a", c.A, c.QA), mkseq("b", c.B, c.QB)
		cons := obipairing.AssemblePESequences(a, b, c.Gap, c.Scale, c.Delta, c.MinOverlap, c.MinIdentity,
			true, c.Inplace, c.Fast, c.Rel, arena, shifts)
		o.Seq = string(cons.Sequence())
		o.Qual = append([]byte{}, cons.Qualities()...)
		o.Annot = map[string]any{}
		for k, v := range cons.Annotations() {
			o.Annot[k] = v
		}
	})
	if !out.Completed {
		return o, fmt.Errorf("AssemblePESequences(%s) did not return: %v\n%s", c.brief(), out, out.Stack)
	}
	return o, nil
}

func (c pairCase) brief() string {
	mode := "exact"
	if c.Fast {
		mode = "fast/absolute"
		if c.Rel {
			mode = "fast/relative"
		}
	}
	return fmt.Sprintf("A=%q B=%q QA=%v QB=%v %s delta=%d gap=%v scale=%v min-overlap=%d min-identity=%v inplace=%v",
		c.A, c.B, c.QA, c.QB, mode, c.Delta, c.Gap, c.Scale, c.MinOverlap, c.MinIdentity, c.Inplace)
}

// ------------------------------------------------------------------ oracles

var tableFinite = func() bool {
	_, mm := obialign.VerifScoreTables(0, 0)
	m, _ := obialign.VerifScoreTables(0, 0)
	return abs(mm) < 1<<40 && abs(m) < 1<<40
}()

func abs(x int) int {
	if x < 0 {
		return -x
	}
	return x
}

func hasZero(q []int) bool {
	for _, v := range q {
		if v == 0 {
			return true
		}
	}
	return false
}

// iupacLetter is the inverse of ref.IUPACSet over the 15 lower case codes.
func iupacLetter(set uint8) byte {
	for i := 0; i < len(ref.IUPACLetters); i++ {
		if ref.IUPACSet(ref.IUPACLetters[i]) == set {
			return ref.IUPACLetters[i]
		}
	}
	return '?'
}

// truePath is the ungapped alignment that puts the reads back at their places
// in the fragment.
func truePath(c pairCase) []int {
	s := c.B0 - c.A0
	ov := c.overlap()
	la, lb := len(c.A), len(c.B)
	if ov == 0 {
		// no shared column: the reads follow each other
		if s > 0 {
			return []int{-la, 0, lb, 0}
		}
		return []int{lb, 0, -la, 0}
	}
	var p []int
	switch {
	case s > 0:
		p = append(p, -s, ov)
	case s < 0:
		p = append(p, -s, ov)
	default:
		p = append(p, 0, ov)
	}
	ea, eb := la, s+lb // ends in A coordinates
	switch {
	case eb > ea:
		p = append(p, eb-ea, 0)
	case ea > eb:
		p = append(p, -(ea - eb), 0)
	}
	return p
}

// strictMaxDiagonal: is offset s the strict maximiser of the 4-mer diagonal score?
// Absolute score: number of shared 4-mers on the diagonal.  Relative score: that
// number divided by the number of 4-mers of the diagonal's overlap; the
// documentation does not say what the overlap of a diagonal is when one read
// ends inside the other (columns really shared, or distance from the offset to
// the end of the read, which is what FastShiftFourMer uses), so the offset has to
// win under both readings.
func strictMaxDiagonal(a, b string, s int, rel bool) bool {
	diag := ref.FourMerDiagonals(a, b)
	n := diag[s]
	if n == 0 {
		return false
	}
	la, lb := len(a), len(b)
	shared := func(d int) int { return ref.DiagonalOverlap(la, lb, d) }
	toEnd := func(d int) int {
		switch {
		case d > 0:
			return la - d
		case d < 0:
			return lb + d
		}
		return min(la, lb)
	}
	wins := func(over func(d int) int) bool {
		score := func(d, n int) float64 {
			if !rel {
				return float64(n)
			}
			return float64(n) / float64(over(d)-3)
		}
		best := score(s, n)
		for d, k := range diag {
			if d != s && score(d, k) >= best {
				return false
			}
		}
		return true
	}
	return wins(shared) && (!rel || wins(toEnd))
}

// judge applies oracles (1)-(5) to one answer of the real code.
func judge(c pairCase, o outcome) error {
	la, lb := len(c.A), len(c.B)
	qa, qb := quals(c.QA), quals(c.QB)
	colScore := func(i, j int) int { return obialign.VerifPairScore(c.A[i], qa[i], c.B[j], qb[j], c.Scale) }
	gapPen := obialign.VerifGapPenalty(c.Gap, c.Scale)
	said := fmt.Sprintf("PEAlign(%s) = (isLeft %v, score %d, path %v, fastcount %d, over %d, fastscore %v)",
		c.brief(), o.IsLeft, o.Score, o.Path, o.FastCount, o.Over, o.FastScore)

	// (1) path validity
	cols, err := ref.PEColumns(o.Path, la, lb)
	if err != nil {
		return fmt.Errorf("%s: invalid path: %v", said, err)
	}

	// (2) reported score == score along the path under the reported scheme
	if got := ref.PEPathScore(cols, la, lb, colScore, gapPen, o.IsLeft); got != o.Score {
		return fmt.Errorf("%s: the score recomputed along the path under the %s end-gap-free scheme is %d (gap penalty %d), reported %d",
			said, dirName(o.IsLeft), got, gapPen, o.Score)
	}

	finite := tableFinite || !(hasZero(c.QA) && hasZero(c.QB))

	// (3) exact mode: optimum of the two schemes
	var optL, optR, nL, nR int
	haveOpt := false
	optimum := func() {
		if !haveOpt {
			optL, nL = ref.PEOptimum(la, lb, colScore, gapPen, true)
			optR, nR = ref.PEOptimum(la, lb, colScore, gapPen, false)
			haveOpt = true
		}
	}
	if !c.Fast && finite {
		optimum()
		if want := max(optL, optR); o.Score != want {
			return fmt.Errorf("%s: exact mode; independent DP optimum is max(left %d, right %d) = %d, reported score %d",
				said, optL, optR, want, o.Score)
		}
	}

	// (4) consensus and annotations
	mode, _ := o.Annot["mode"].(string)
	assembled := fmt.Sprintf("AssemblePESequences(%s) = %q qualities %v annotations %v; path %v", c.brief(), o.Seq, o.Qual, o.Annot, o.Path)
	if sc, ok := o.Annot["score"].(int); !ok || sc != o.Score {
		return fmt.Errorf("%s: annotation score=%v, PEAlign reported %d", assembled, o.Annot["score"], o.Score)
	}
	if len(o.Qual) != len(o.Seq) {
		return fmt.Errorf("%s: %d bases but %d qualities", assembled, len(o.Seq), len(o.Qual))
	}
	for i, q := range o.Qual {
		if q > 93 {
			return fmt.Errorf("%s: quality %d at column %d is outside 0..93", assembled, q, i)
		}
	}
	// columns outside the first and the last indel run
	p := o.Path
	for len(p) > 2 && p[len(p)-1] == 0 && p[len(p)-2] == 0 {
		p = p[:len(p)-2]
	}
	first := p[0]
	last := 0
	if p[len(p)-1] == 0 && len(p) > 2 {
		last = p[len(p)-2]
	}
	aliLen := len(cols) - abs(first) - abs(last)
	strict, loose := 0, 0
	for _, col := range cols[abs(first) : len(cols)-abs(last)] {
		if col.IA < 0 || col.IB < 0 {
			continue
		}
		if ref.IUPACCompatible(c.A[col.IA], c.B[col.IB]) {
			loose++
		}
		if c.A[col.IA] == c.B[col.IB] && qa[col.IA] > 0 && qb[col.IB] > 0 {
			strict++
		}
	}
	mustAlign := aliLen >= c.MinOverlap && aliLen > 0 && float64(strict)/float64(aliLen) >= c.MinIdentity
	mustJoin := aliLen < c.MinOverlap || (aliLen > 0 && float64(loose)/float64(aliLen) < c.MinIdentity) || (aliLen == 0 && c.MinIdentity > 0)
	switch mode {
	case "alignment":
		if mustJoin {
			return fmt.Errorf("%s: mode=alignment although the path overlaps by %d columns (%d compatible) with min-overlap %d, min-identity %v",
				assembled, aliLen, loose, c.MinOverlap, c.MinIdentity)
		}
		if len(o.Seq) != len(cols) {
			return fmt.Errorf("%s: consensus of %d symbols for a path of %d columns", assembled, len(o.Seq), len(cols))
		}
		for k, col := range cols {
			var want byte
			switch {
			case col.IB < 0:
				want = c.A[col.IA]
			case col.IA < 0:
				want = c.B[col.IB]
			case qa[col.IA] > qb[col.IB]:
				want = c.A[col.IA]
			case qb[col.IB] > qa[col.IA]:
				want = c.B[col.IB]
			case c.A[col.IA] == c.B[col.IB]:
				want = c.A[col.IA]
			default:
				want = iupacLetter(ref.IUPACSet(c.A[col.IA]) | ref.IUPACSet(c.B[col.IB]))
			}
			if o.Seq[k] != want {
				return fmt.Errorf("%s: consensus column %d is %q; the column holds A[%d] / B[%d] (-1 = gap) so %q is expected (higher quality wins, IUPAC code on equal qualities)",
					assembled, k, string(o.Seq[k]), col.IA, col.IB, string(want))
			}
		}
		al, ok1 := o.Annot["ali_length"].(int)
		sa, ok2 := o.Annot["seq_a_single"].(int)
		sb, ok3 := o.Annot["seq_b_single"].(int)
		if !ok1 || !ok2 || !ok3 {
			return fmt.Errorf("%s: ali_length / seq_a_single / seq_b_single missing or not integers", assembled)
		}
		if al != aliLen {
			return fmt.Errorf("%s: ali_length=%d, the path has %d columns outside its end runs", assembled, al, aliLen)
		}
		if al+sa+sb != len(o.Seq) {
			return fmt.Errorf("%s: ali_length %d + seq_a_single %d + seq_b_single %d != returned length %d", assembled, al, sa, sb, len(o.Seq))
		}
		// which end belongs to which read, when the end runs have the documented sign
		if o.IsLeft && first <= 0 && last >= 0 && (sa != -first || sb != last) {
			return fmt.Errorf("%s: left alignment with %d leading columns of A alone and %d trailing columns of B alone, but seq_a_single=%d seq_b_single=%d", assembled, -first, last, sa, sb)
		}
		if !o.IsLeft && first >= 0 && last <= 0 && (sb != first || sa != -last) {
			return fmt.Errorf("%s: right alignment with %d leading columns of B alone and %d trailing columns of A alone, but seq_a_single=%d seq_b_single=%d", assembled, first, -last, sa, sb)
		}
	case "join":
		if mustAlign {
			return fmt.Errorf("%s: mode=join although the path overlaps by %d columns, %d of them identical with non-zero qualities (min-overlap %d, min-identity %v)",
				assembled, aliLen, strict, c.MinOverlap, c.MinIdentity)
		}
		if want := c.A + ".........." + c.B; o.Seq != want {
			return fmt.Errorf("%s: join mode must return A + ten dots + B = %q", assembled, want)
		}
		wq := append(append(append([]byte{}, qa...), make([]byte, 10)...), qb...)
		if !reflect.DeepEqual(o.Qual, wq) {
			return fmt.Errorf("%s: join mode must return the qualities of A, ten zeros, the qualities of B = %v", assembled, wq)
		}
	default:
		return fmt.Errorf("%s: mode annotation is %v, neither alignment nor join", assembled, o.Annot["mode"])
	}

	// (5) reassembly of error-free reads
	if claimed, why := reassemblyClaimed(c, colScore, gapPen, finite, optimum, &optL, &optR, &nL, &nR); claimed {
		s := c.B0 - c.A0
		lo := min(c.A0, c.B0)
		hi := max(c.A0+la, c.B0+lb)
		want := c.Frag[lo:hi]
		if mode != "alignment" || o.Seq != want {
			return fmt.Errorf("%s: error-free reads cut from fragment %q at %d and %d (offset %d, overlap %d >= min-overlap %d; %s) must be reassembled into %q, got mode=%s %q",
				assembled, c.Frag, c.A0, c.B0, s, c.overlap(), c.MinOverlap, why, want, mode, o.Seq)
		}
	}
	return nil
}

func dirName(left bool) string {
	if left {
		return "left"
	}
	return "right"
}

// reassemblyClaimed decides whether oracle (5) applies (see Domain decisions).
func reassemblyClaimed(c pairCase, colScore func(i, j int) int, gapPen int, finite bool,
	optimum func(), optL, optR, nL, nR *int) (bool, string) {
	if !c.errorFree() || !finite {
		return false, ""
	}
	ov := c.overlap()
	if ov < 1 || ov < c.MinOverlap {
		return false, ""
	}
	if hasZero(c.QA) || hasZero(c.QB) {
		// a base of quality 0 does not count as a match for min-identity (undocumented): left out
		return false, ""
	}
	la, lb := len(c.A), len(c.B)
	tp := truePath(c)
	tcols, err := ref.PEColumns(tp, la, lb)
	if err != nil {
		panic(fmt.Sprintf("harness bug: true path %v invalid: %v", tp, err))
	}
	tL := ref.PEPathScore(tcols, la, lb, colScore, gapPen, true)
	tR := ref.PEPathScore(tcols, la, lb, colScore, gapPen, false)
	uniqueL := func() bool { optimum(); return *nL == 1 && tL == *optL }
	uniqueR := func() bool { optimum(); return *nR == 1 && tR == *optR }
	s := c.B0 - c.A0
	if !c.Fast {
		optimum()
		switch {
		case *optL > *optR:
			return uniqueL(), "the true alignment is the unique optimum of the independent DP"
		case *optR > *optL:
			return uniqueR(), "the true alignment is the unique optimum of the independent DP"
		default:
			return uniqueL() && uniqueR(), "the true alignment is the unique optimum of both schemes of the independent DP"
		}
	}
	if !strictMaxDiagonal(c.A, c.B, s, c.Rel) {
		return false, ""
	}
	why := "the true offset is the strict maximiser of the 4-mer diagonal score"
	// overhang penalised by the scheme the offset selects?
	ea, eb := la, s+lb
	penalL := ea > eb // left scheme: A must not end after B (its start is free)
	penalR := eb > ea // right scheme: B must not end after A
	switch {
	case s > 0:
		if penalL {
			return uniqueL(), why + " and the unique optimum of the left scheme"
		}
	case s < 0:
		if penalR {
			return uniqueR(), why + " and the unique optimum of the right scheme"
		}
	default:
		if penalL || penalR {
			return uniqueL() && uniqueR(), why + " and the unique optimum of both schemes"
		}
	}
	return true, why
}

// ------------------------------------------------------------------ the checks

func checkPair(c pairCase) error {
	_, err := checkPairAnswer(c)
	return err
}

// checkPairAnswer is checkPair; it also hands back the answer of the real code
// (nil when it did not return) so that the property can label the case.
func checkPairAnswer(c pairCase) (*outcome, error) {
	if err := c.validate(); err != nil {
		return nil, err
	}
	shifts := map[int]int{}
	o, err := runReal(c, obialign.MakePEAlignArena(len(c.A), len(c.B)), &shifts)
	if err != nil {
		return nil, err
	}
	return &o, judge(c, o)
}

func checkArena(ac arenaCase) error {
	shared := obialign.MakePEAlignArena(ac.ArenaA, ac.ArenaB)
	shifts := map[int]int{}
	for i, c := range ac.Pairs {
		if err := c.validate(); err != nil {
			return err
		}
		o, err := runReal(c, shared, &shifts)
		if err != nil {
			return fmt.Errorf("pair %d of %d through one arena made with (%d,%d): %v", i, len(ac.Pairs), ac.ArenaA, ac.ArenaB, err)
		}
		if err := judge(c, o); err != nil {
			return fmt.Errorf("pair %d of %d through one arena made with (%d,%d): %v", i, len(ac.Pairs), ac.ArenaA, ac.ArenaB, err)
		}
		fs := map[int]int{}
		f, err := runReal(c, obialign.MakePEAlignArena(len(c.A), len(c.B)), &fs)
		if err != nil {
			return fmt.Errorf("pair %d with a fresh arena: %v", i, err)
		}
		if !reflect.DeepEqual(o, f) {
			return fmt.Errorf("pair %d of %d (%s): the reused arena made with (%d,%d) answers\n  %+v\nthe fresh arena answers\n  %+v",
				i, len(ac.Pairs), c.brief(), ac.ArenaA, ac.ArenaB, o, f)
		}
		if len(shifts) != 0 {
			return fmt.Errorf("pair %d: the shared shift map still holds %d entries after the call", i, len(shifts))
		}
	}
	return nil
}

// ------------------------------------------------------------------ classes

func classesOf(c pairCase) (cl []string) {
	for i, part := range strings.Split(c.Kind, "/") {
		switch {
		case i == 0:
			cl = append(cl, "kind:"+part)
		case part == "indels":
			cl = append(cl, "edited_with_indels")
		default:
			cl = append(cl, "fragment:"+part)
		}
	}
	if c.Fast {
		if c.Rel {
			cl = append(cl, "mode:fast_relative")
		} else {
			cl = append(cl, "mode:fast_absolute")
		}
	} else {
		cl = append(cl, "mode:exact")
	}
	ov := c.overlap()
	switch {
	case c.Frag == "":
	case ov == 0:
		cl = append(cl, "overlap:0")
	case ov < 4:
		cl = append(cl, "overlap:1-3")
	default:
		cl = append(cl, "overlap:>=4")
	}
	if c.Frag != "" && c.A0 == c.B0 {
		cl = append(cl, "offset_0")
	}
	if c.errorFree() {
		cl = append(cl, "error_free")
	} else if c.Frag != "" {
		cl = append(cl, "edited")
	}
	amb := false
	for _, s := range []string{c.A, c.B} {
		for i := 0; i < len(s); i++ {
			if !isACGT(s[i]) {
				amb = true
			}
		}
	}
	if amb {
		cl = append(cl, "iupac")
	}
	if hasZero(c.QA) || hasZero(c.QB) {
		cl = append(cl, "quality_0")
	}
	if min(len(c.A), len(c.B)) < 4 {
		cl = append(cl, "read_shorter_than_4")
	}
	if max(len(c.A), len(c.B)) > 150 {
		cl = append(cl, "read_longer_than_150")
	}
	if c.Delta == 0 {
		cl = append(cl, "delta_0")
	}
	return cl
}

// answerClasses labels a case by what the real code answered; the first result
// says whether the returned path has a diagonal run.
func answerClasses(c pairCase, o *outcome) (bool, []string) {
	if o == nil {
		return false, []string{"answer:none"}
	}
	var cl []string
	if m, _ := o.Annot["mode"].(string); m != "" {
		cl = append(cl, "answer:mode_"+m)
	}
	cl = append(cl, "answer:dir_"+dirName(o.IsLeft))
	diag, inner := false, false
	for k := 0; k+1 < len(o.Path); k += 2 {
		if o.Path[k+1] > 0 {
			diag = true
		}
		if k > 0 && o.Path[k] != 0 && o.Path[k+1] > 0 {
			inner = true
		}
	}
	if diag {
		cl = append(cl, "answer:has_diagonal")
	}
	if inner {
		cl = append(cl, "answer:indel_inside_overlap")
	}
	if c.Fast {
		if o.FastCount == 0 {
			cl = append(cl, "answer:fast_no_shared_4mer")
		} else if o.FastCount+3 < o.Over {
			cl = append(cl, "answer:fast_then_dp")
		} else {
			cl = append(cl, "answer:fast_identical_overlap")
		}
	}
	if len(o.Path) >= 2 {
		first, last := o.Path[0], 0
		if o.Path[len(o.Path)-1] == 0 {
			last = o.Path[len(o.Path)-2]
		}
		if (first < 0 && last < 0) || (first > 0 && last > 0) {
			cl = append(cl, "answer:containment_path")
		}
		if (o.IsLeft && (first > 0 || last < 0)) || (!o.IsLeft && (first < 0 || last > 0)) {
			cl = append(cl, "answer:end_run_against_direction")
		}
	}
	return diag, cl
}

// ------------------------------------------------------------------ properties

func TestPropPair(t *testing.T) {
	rapid.Check(t, func(rt *rapid.T) {
		c := genPair(rt, 300)
		cl := classesOf(c)
		if claimed := claimProbe(c); claimed != "" {
			cl = append(cl, claimed)
		}
		o, err := checkPairAnswer(c)
		diag, acl := answerClasses(c, o)
		evid.Eval("pair", evid.Hash(fmt.Sprintf("%+v", c)), diag && c.overlap() >= 4, c, append(cl, acl...)...)
		if err != nil {
			evid.Fail(rt, "pair", c, err)
		}
	})
}

// claimProbe labels the cases in which oracle (5) is in force.
func claimProbe(c pairCase) string {
	if !c.errorFree() || c.overlap() < max(1, c.MinOverlap) {
		return ""
	}
	la, lb := len(c.A), len(c.B)
	qa, qb := quals(c.QA), quals(c.QB)
	colScore := func(i, j int) int { return obialign.VerifPairScore(c.A[i], qa[i], c.B[j], qb[j], c.Scale) }
	gapPen := obialign.VerifGapPenalty(c.Gap, c.Scale)
	var optL, optR, nL, nR int
	have := false
	optimum := func() {
		if !have {
			optL, nL = ref.PEOptimum(la, lb, colScore, gapPen, true)
			optR, nR = ref.PEOptimum(la, lb, colScore, gapPen, false)
			have = true
		}
	}
	finite := tableFinite || !(hasZero(c.QA) && hasZero(c.QB))
	ok, why := reassemblyClaimed(c, colScore, gapPen, finite, optimum, &optL, &optR, &nL, &nR)
	mode := "exact"
	if c.Fast {
		mode = "fast"
	}
	if ok && c.Fast && strings.Contains(why, "scheme") {
		return "reassembly_claimed:fast_with_penalised_overhang"
	}
	if ok {
		return "reassembly_claimed:" + mode
	}
	return "reassembly_not_claimed:" + mode
}

func TestPropArena(t *testing.T) {
	rapid.Check(t, func(rt *rapid.T) {
		var ac arenaCase
		dims := rapid.SampledFrom([][2]int{{150, 150}, {150, 150}, {1, 1}, {10, 10}, {300, 300}, {40, 5}}).Draw(rt, "arena_dims")
		ac.ArenaA, ac.ArenaB = dims[0], dims[1]
		n := rapid.IntRange(2, 6).Draw(rt, "npairs")
		nontrivial, grown := false, false
		for i := 0; i < n; i++ {
			c := genPair(rt, rapid.SampledFrom([]int{6, 40, 300}).Draw(rt, "maxlen"))
			ac.Pairs = append(ac.Pairs, c)
			if i > 0 {
				p := ac.Pairs[i-1]
				if len(c.A)*len(c.B) < len(p.A)*len(p.B) {
					nontrivial = true
				}
			}
			if (len(c.A)+1)*(len(c.B)+1) > (ac.ArenaA+1)*(ac.ArenaB+1) {
				grown = true
			}
		}
		cl := []string{"arena_sequences"}
		if grown {
			cl = append(cl, "arena_grown")
		}
		if nontrivial {
			cl = append(cl, "arena_smaller_pair_after_larger")
		}
		evid.Eval("arena", evid.Hash(fmt.Sprintf("%+v", ac)), nontrivial, nil, cl...)
		if err := checkArena(ac); err != nil {
			evid.Fail(rt, "arena", ac, err)
		}
	})
}

// ------------------------------------------------------------------ tiny enumeration

func allStrings(alphabet string, maxLen int) []string {
	var out []string
	prev := []string{""}
	for l := 1; l <= maxLen; l++ {
		var cur []string
		for _, p := range prev {
			for i := 0; i < len(alphabet); i++ {
				cur = append(cur, p+string(alphabet[i]))
			}
		}
		out = append(out, cur...)
		prev = cur
	}
	return out
}

// TestExhaustiveTiny runs every pair of very short reads (overlaps shorter than
// a 4-mer, reads shorter than a 4-mer) through the three modes.
func TestExhaustiveTiny(t *testing.T) {
	alphabet := "ac"
	if evid.Thorough() {
		alphabet = "acg"
	}
	strs := allStrings(alphabet, 5)
	shard, n := evid.Shard(), evid.NShards()
	for i, a := range strs {
		if i%n != shard {
			continue
		}
		for _, b := range strs {
			for mode := 0; mode < 3; mode++ {
				for qp := 0; qp < 2; qp++ {
					c := pairCase{A: a, B: b, Fast: mode > 0, Rel: mode == 1, Delta: 1 + 2*qp, Gap: 2 - 1.5*float64(qp), Scale: 1,
						MinOverlap: 1 + qp, MinIdentity: 0.5 * float64(qp), Kind: "tiny"}
					for k := range a {
						c.QA = append(c.QA, []int{30, 10 + 30*(k%2)}[qp])
					}
					for k := range b {
						c.QB = append(c.QB, []int{30, 40 - 30*(k%2)}[qp])
					}
					evid.Eval("pair", evid.Hash(fmt.Sprintf("%+v", c)), len(a) >= 4 && len(b) >= 4, c, "tiny_exhaustive")
					if err := checkPair(c); err != nil {
						evid.Fail(t, "pair", c, err)
					}
				}
			}
		}
	}
	evid.Exhaustive(fmt.Sprintf("all ordered pairs of reads over {%s} of length 1..5 x {exact, fast relative, fast absolute} x 2 quality/settings patterns", alphabet))
}
