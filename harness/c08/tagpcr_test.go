package c08

// The command-level entry points of the assembly kernel: `obipairing` and
// `obitagpcr` (both call obipairing.AssemblePESequences pair by pair, with the
// alignment settings their command lines denote).
//
// A case is a small sequencing run: a generated sample sheet (1-2 primer pairs,
// tags pairwise at Hamming distance >= 3, one-word or forward:reverse tags) and
// read pairs cut from tagged amplicons in either orientation.  The amplicon is
// longer than a read (ordinary overlap), about twice a read (hardly any overlap:
// join), or SHORTER than the reads (read-through pair: each read continues
// beyond the amplicon into an N-masked / adapter / poly-G / low-quality tail);
// reads may be quality-trimmed, their low-quality ends N-masked, and carry
// substitution and indel errors of low quality; negative pairs (tag jump, unknown tag, tag
// error, no priming site, unrelated mate) are mixed in.  The files go through
// the real commands with one generated combination of the options shared by
// both commands ({default, --exact-mode, --fast-absolute, both} x --min-overlap
// x --min-identity x --delta x --gap-penality x --penality-scale x -S), of the
// demultiplexing options (-e, -u / --keep-errors, --reorientate) and of
// --max-cpu x --batch-size.
//
// Oracles:
//
//	(E1) every record written by `obipairing` equals (sequence, qualities,
//	     annotations) the record the package's reference returns for that pair:
//	     obipairing.AssemblePESequences called in-process on a fresh arena with
//	     the settings the options denote (the record oracles (1)-(5) of this
//	     package judge); every pair is written exactly once.
//	(E2) `obitagpcr` "tags raw reads with the identifier of their sample; the
//	     tags added are the same as those added by obimultiplex"
//	     (Release-notes 4.0.3): a pair is assigned by obitagpcr exactly when
//	     `obimultiplex` assigns the consensus written by `obipairing` run with
//	     the same alignment options, with the same sample, experiment,
//	     direction, tags, primer matches and error counts on both reads; the
//	     reads come out unchanged (sequence and qualities), forward and reverse
//	     files in step, no pair twice, none invented; unassigned pairs go where
//	     -u / --keep-errors send them.
//	(E3) constructive: when the reference consensus for the options holds the
//	     generated amplicon verbatim exactly once, consists of acgtn only and an
//	     independent Hamming scan finds no priming site (<= 5 mismatches, either
//	     strand) but the two planted ones, obitagpcr must assign the pair to the
//	     sample, direction and tags it was built from; when the scan finds no
//	     priming site at all in the consensus the pair must stay unassigned.
//
// Domain decisions:
//
//   - pairs for which obimultiplex reports several amplicons in the consensus
//     are not compared (obitagpcr's answer for them is documented nowhere);
//   - the text of obimultiplex_error is not compared, only its presence;
//   - with --reorientate the two reads of a reverse-direction pair may come out
//     in either file (the documentation says "reverse complemente", the command
//     exchanges the mates; both put the forward-primer read first);
//   - -e 0 is not generated (obitagpcr and obimultiplex read it differently:
//     a demultiplexing matter, not the assembly kernel's);
//   - annotations of the sample sheet after '@' are not generated.

import (
	"encoding/json"
	"fmt"
	"os"
	"path/filepath"
	"reflect"
	"sort"
	"strconv"
	"strings"
	"testing"

	"git.metabarcoding.org/obitools/obitools4/obitools4/pkg/obialign"
	"git.metabarcoding.org/obitools/obitools4/obitools4/pkg/obitools/obipairing"
	"pgregory.net/rapid"

	"verifharness/internal/evid"
	"verifharness/internal/fatal"
	"verifharness/internal/ref"
	"verifharness/internal/run"
)

func init() {
	evid.Tests(
		evid.Spec{Name: "TestPropTagPCR", Kind: "rapid", Quick: 160, Thorough: 2400, QuickShards: 8, ThoroughShards: 16, TimeoutS: 3000},
		evid.Spec{Name: "TestPropSequencedPairs", Kind: "rapid", Quick: 64, Thorough: 1600, QuickShards: 8, ThoroughShards: 16, TimeoutS: 3000},
	)
	evid.Commands("obipairing", "obitagpcr", "obimultiplex")
	evid.Reg("tagpcr", checkTagPCR)
	evid.Note("rule_tagpcr", "tagpcr: one generated sequencing run = sample sheet (1-2 primer pairs, 2-5 samples each, tags 6-8 nt pairwise >= 3 apart, one-word or forward:reverse tags) + 8-48 read pairs of 75-250 cycles cut from tagged amplicons in either orientation: amplicon longer than a read / about two reads long / shorter than the reads (read-through, tails N-masked, adapter, poly-G or random low quality), trimmed reads, N-masked read ends, low-quality substitutions and indels, negative pairs (tag jump, unknown tag, tag error, no site, unrelated mate); run through the real obipairing, obimultiplex and obitagpcr with one combination of {default, --exact-mode, --fast-absolute, both} x --min-overlap x --min-identity x --delta x --gap-penality x --penality-scale x -S x -e x {-u, --keep-errors, none} x --reorientate x --max-cpu x --batch-size. Oracles: E1 obipairing record == in-process AssemblePESequences reference with the settings the options denote; E2 obitagpcr assignment (sample, experiment, direction, tags, matches, error counts, unchanged reads, files in step) == obimultiplex on the obipairing consensus made with the same options; E3 constructive assignment when the reference consensus holds the amplicon verbatim and an independent scan finds only the planted priming sites / no assignment when it finds none. Non-trivial = obitagpcr assigned at least one pair AND the case holds a pair whose reference consensus depends on the alignment mode flags (exact / fast relative / fast absolute). Distinct = hash of the case parameters.")
}

// ------------------------------------------------------------------ the case

type tagCase struct {
	Salt        uint64 // seeds the deterministic builder of sheet and reads
	NPairs      int
	ReadLen     int // sequencing cycles
	NMarkers    int
	NSamples    int // per marker
	TagLen      int
	TwoTags     bool   // forward:reverse tags
	Tails       string // what follows a read-through amplicon: n_masked, adapter, polyg, random_lowq, mixed
	ErrPerMille int    // sequencing errors (3/4 substitutions, 1/8 deletions, 1/8 insertions) per 1000 read bases
	// alignment options given to obipairing and to obitagpcr alike
	Exact, Abs  bool    // --exact-mode, --fast-absolute
	MinOverlap  int     // 0: option not given
	MinIdentity float64 // < 0: option not given
	Delta       int     // < 0: option not given
	Gap, Scale  float64 // 0: option not given
	NoStat      bool    // -S
	// demultiplexing options given to obimultiplex and to obitagpcr alike
	Mism int // -e; < 0: not given
	// obitagpcr only
	Unid     string // "", "-u", "--keep-errors"
	Reorient bool
	// execution
	MaxCPU, Batch int // 0: option not given
}

type sm64 uint64

func (s *sm64) next() uint64 {
	*s += 0x9e3779b97f4a7c15
	z := uint64(*s)
	z = (z ^ (z >> 30)) * 0xbf58476d1ce4e5b9
	z = (z ^ (z >> 27)) * 0x94d049bb133111eb
	return z ^ (z >> 31)
}
func (s *sm64) intn(n int) int {
	if n <= 1 {
		return 0
	}
	return int(s.next() % uint64(n))
}
func (s *sm64) between(lo, hi int) int { // inclusive
	if hi <= lo {
		return lo
	}
	return lo + s.intn(hi-lo+1)
}
func (s *sm64) seq(n int) string {
	b := make([]byte, max(0, n))
	for i := range b {
		b[i] = "acgt"[s.intn(4)]
	}
	return string(b)
}

type tagMarker struct{ Fwd, Rev, Exp string }
type tagSample struct {
	Name       string
	Marker     int
	TagF, TagR string
}
type tagLib struct {
	Markers []tagMarker
	Samples []tagSample
	Tags    [][]string // per marker: the tag pool
}

// tagPair is one generated read pair with its construction record.
type tagPair struct {
	ID          string
	A, B        string // as sequenced (B is the reverse read, 5'->3')
	QA, QB      []int
	Kind        string // amplicon, tag_jump, unknown_tag, tag_error, no_site, unrelated_mate
	Geometry    string // read_through, overlap, long, -
	Construct   string // what the forward read starts with (the oriented amplicon incl. flanks); "" when none
	Sample      int    // index in lib.Samples of the sample an "amplicon" pair was built from, else -1
	Reverse     bool   // amplicon sequenced from its reverse primer
	TagF, TagR  string // tags of the construct
	ReadThrough bool
}

func hamming(a, b string) int {
	n := 0
	for i := 0; i < len(a) && i < len(b); i++ {
		if a[i] != b[i] {
			n++
		}
	}
	return n + abs(len(a)-len(b))
}

func buildTagLib(c tagCase, r *sm64) tagLib {
	var lib tagLib
	for m := 0; m < c.NMarkers; m++ {
		var mk tagMarker
		for {
			mk = tagMarker{Fwd: r.seq(r.between(18, 22)), Rev: r.seq(r.between(18, 22)), Exp: fmt.Sprintf("exp%d", m)}
			ok := lowSelfSimilarity(mk.Fwd, mk.Rev)
			for _, o := range lib.Markers {
				for _, x := range []string{o.Fwd, o.Rev} {
					for _, y := range []string{mk.Fwd, mk.Rev} {
						if !lowSelfSimilarity(x, y) {
							ok = false
						}
					}
				}
			}
			if ok {
				break
			}
		}
		lib.Markers = append(lib.Markers, mk)
		// tag pool: pairwise distance >= 3
		need := c.NSamples
		if c.TwoTags {
			need = 2 * c.NSamples
		}
		var pool []string
		for len(pool) < need {
			w := r.seq(c.TagLen)
			ok := true
			for _, o := range pool {
				if hamming(o, w) < 3 {
					ok = false
					break
				}
			}
			if ok {
				pool = append(pool, w)
			}
		}
		lib.Tags = append(lib.Tags, pool)
		for s := 0; s < c.NSamples; s++ {
			sp := tagSample{Name: fmt.Sprintf("m%ds%d", m, s), Marker: m, TagF: pool[s], TagR: pool[s]}
			if c.TwoTags {
				sp.TagF, sp.TagR = pool[2*s], pool[2*s+1]
			}
			lib.Samples = append(lib.Samples, sp)
		}
	}
	return lib
}

// lowSelfSimilarity: no window of x matches y or rc(y) with <= 7 mismatches
// (primers of one sheet must not be mistaken for each other).
func lowSelfSimilarity(x, y string) bool {
	for _, p := range []string{y, ref.RevComp(y)} {
		n := min(len(x), len(p))
		for i := 0; i+n <= len(x); i++ {
			for j := 0; j+n <= len(p); j++ {
				if hamming(x[i:i+n], p[j:j+n]) <= 7 {
					return false
				}
			}
		}
	}
	return true
}

func (lib tagLib) sheet(c tagCase) string {
	var b strings.Builder
	for _, s := range lib.Samples {
		m := lib.Markers[s.Marker]
		tag := s.TagF
		if c.TwoTags {
			tag = s.TagF + ":" + s.TagR
		}
		fmt.Fprintf(&b, "%s\t%s\t%s\t%s\t%s\tF\t@\n", m.Exp, s.Name, tag, m.Fwd, m.Rev)
	}
	return b.String()
}

// primerHits counts the windows of s that match a primer of the sheet (either
// strand) with at most maxMis mismatches; symbols are compared verbatim.
func (lib tagLib) primerHits(s string, maxMis int) int {
	n := 0
	for _, m := range lib.Markers {
		for _, p := range []string{m.Fwd, m.Rev, ref.RevComp(m.Fwd), ref.RevComp(m.Rev)} {
			for i := 0; i+len(p) <= len(s); i++ {
				mis := 0
				for k := 0; k < len(p) && mis <= maxMis; k++ {
					if s[i+k] != p[k] {
						mis++
					}
				}
				if mis <= maxMis {
					n++
				}
			}
		}
	}
	return n
}

const scanMismatches = 5 // the commands allow at most 3 (-e 3) in the generated cases

func (lib tagLib) construct(r *sm64, sp tagSample, tagF, tagR string, barLen int) string {
	m := lib.Markers[sp.Marker]
	var c string
	for try := 0; try < 40; try++ {
		c = r.seq(r.intn(5)) + tagF + m.Fwd + r.seq(barLen) + ref.RevComp(m.Rev) + ref.RevComp(tagR) + r.seq(r.intn(5))
		if lib.primerHits(c, scanMismatches) == 2 {
			break
		}
	}
	return c
}

func buildTagInput(c tagCase) (tagLib, []tagPair) {
	r := sm64(c.Salt*0x2545f4914f6cdd1d + 12345)
	lib := buildTagLib(c, &r)
	adapterA, adapterB := r.seq(34), r.seq(34)
	var pairs []tagPair
	for i := 0; i < c.NPairs; i++ {
		p := tagPair{ID: fmt.Sprintf("p%d", i), Sample: -1, Geometry: "-"}
		sp := lib.Samples[r.intn(len(lib.Samples))]
		pool := lib.Tags[sp.Marker]
		overhead := 2*c.TagLen + len(lib.Markers[sp.Marker].Fwd) + len(lib.Markers[sp.Marker].Rev) + 4
		// amplicon length class
		var target int
		switch g := r.intn(20); {
		case g < 9 && c.ReadLen-overhead >= 8:
			p.Geometry = "read_through"
			target = r.between(overhead+6, c.ReadLen-1)
			if r.intn(6) == 0 {
				target = c.ReadLen - r.intn(3) // amplicon as long as the read, or nearly
			}
		case g < 18:
			p.Geometry = "overlap"
			target = r.between(c.ReadLen+1, 2*c.ReadLen-22)
		default:
			p.Geometry = "long"
			target = r.between(2*c.ReadLen-22, 2*c.ReadLen+30)
		}
		barLen := max(5, target-overhead)
		p.TagF, p.TagR = sp.TagF, sp.TagR
		switch k := r.intn(20); {
		case k == 13 && len(pool) > 1:
			p.Kind = "tag_jump"
			o := pool[r.intn(len(pool))]
			if o == p.TagR {
				o = pool[(indexOfStr(pool, o)+1)%len(pool)]
			}
			p.TagR = o
			if !c.TwoTags && p.TagF == p.TagR { // cannot happen (o != TagR == TagF), kept for clarity
				p.Kind = "amplicon"
			}
			for _, s := range lib.Samples { // a jump that lands on another declared sample is that sample's amplicon
				if s.Marker == sp.Marker && s.TagF == p.TagF && s.TagR == p.TagR {
					p.Kind = "amplicon"
					sp = s
				}
			}
		case k == 14:
			p.Kind = "unknown_tag"
			for {
				w := r.seq(c.TagLen)
				if indexOfStr(pool, w) < 0 {
					p.TagF = w
					break
				}
			}
		case k == 15:
			p.Kind = "tag_error"
			b := []byte(p.TagF)
			j := r.intn(len(b))
			b[j] = "acgt"[(strings.IndexByte("acgt", b[j])+1+r.intn(3))%4]
			p.TagF = string(b)
		case k == 16:
			p.Kind = "no_site"
		case k == 17:
			p.Kind = "unrelated_mate"
		default:
			p.Kind = "amplicon"
		}
		var full string
		if p.Kind == "no_site" {
			full = r.seq(target)
		} else {
			full = lib.construct(&r, sp, p.TagF, p.TagR, barLen)
		}
		if p.Kind == "amplicon" {
			p.Sample = indexOfSample(lib.Samples, sp.Name)
		}
		p.Reverse = r.intn(2) == 0
		if p.Reverse {
			full = ref.RevComp(full)
		}
		p.Construct = full
		mate := ref.RevComp(full)
		if p.Kind == "unrelated_mate" {
			o := lib.Samples[r.intn(len(lib.Samples))]
			mate = ref.RevComp(lib.construct(&r, o, o.TagF, o.TagR, max(5, barLen+r.between(-10, 10))))
			if r.intn(2) == 0 {
				mate = ref.RevComp(mate)
			}
		}
		p.ReadThrough = len(full) < c.ReadLen
		style := c.Tails
		if style == "mixed" {
			style = []string{"n_masked", "n_masked", "adapter", "polyg", "random_lowq"}[r.intn(5)]
		}
		la, lb := c.ReadLen, c.ReadLen
		if r.intn(5) == 0 { // quality-trimmed reads
			la -= r.intn(min(30, c.ReadLen/3))
			lb -= r.intn(min(30, c.ReadLen/3))
		}
		p.A, p.QA = sequenceRead(&r, full, la, style, adapterA, c.ErrPerMille)
		p.B, p.QB = sequenceRead(&r, mate, lb, style, adapterB, c.ErrPerMille)
		if (style == "n_masked") && r.intn(5) == 0 { // low-quality ends masked too
			p.A, p.QA = maskEnd(p.A, p.QA, r.between(3, min(40, len(p.A)/3)))
			p.B, p.QB = maskEnd(p.B, p.QB, r.between(3, min(40, len(p.B)/3)))
		}
		pairs = append(pairs, p)
	}
	return lib, pairs
}

func indexOfStr(l []string, s string) int {
	for i, x := range l {
		if x == s {
			return i
		}
	}
	return -1
}

func indexOfSample(l []tagSample, name string) int {
	for i, x := range l {
		if x.Name == name {
			return i
		}
	}
	return -1
}

func maskEnd(s string, q []int, k int) (string, []int) {
	b := []byte(s)
	for i := max(0, len(b)-k); i < len(b); i++ {
		b[i] = 'n'
		q[i] = 2
	}
	return string(b), q
}

// sequenceRead reads n cycles from the insert: the insert itself, then what the
// sequencer sees beyond its end.
func sequenceRead(r *sm64, insert string, n int, style, adapter string, errPerMille int) (string, []int) {
	b := make([]byte, 0, n)
	q := make([]int, 0, n)
	j := 0 // next base of the insert
	for len(b) < n && j < len(insert) {
		i := len(b)
		x := insert[j]
		j++
		qq := 38 - 12*i/max(1, n) - r.intn(4)
		if errPerMille > 0 && r.intn(1000) < errPerMille {
			switch r.intn(8) {
			case 0: // a base skipped (deletion in the read)
				continue
			case 1: // a base read twice or an extra base (insertion in the read)
				j--
				if r.intn(2) == 0 {
					x = "acgt"[r.intn(4)]
				}
			default:
				x = "acgt"[(strings.IndexByte("acgt", x)+1+r.intn(3))%4]
			}
			qq = r.between(3, 14)
		}
		b, q = append(b, x), append(q, qq)
	}
	start := len(b)
	for i := len(b); i < n; i++ {
		k := i - start
		switch style {
		case "n_masked":
			b, q = append(b, 'n'), append(q, 2)
		case "adapter":
			if k < len(adapter) {
				b, q = append(b, adapter[k]), append(q, 34-r.intn(6))
			} else {
				b, q = append(b, "aaag"[r.intn(4)]), append(q, r.between(2, 20))
			}
		case "polyg":
			b, q = append(b, 'g'), append(q, r.between(2, 14))
		default: // random_lowq
			b, q = append(b, "acgt"[r.intn(4)]), append(q, r.between(2, 12))
		}
	}
	return string(b), q
}

func fastqOf(pairs []tagPair, second bool) []byte {
	var b strings.Builder
	for _, p := range pairs {
		s, q := p.A, p.QA
		if second {
			s, q = p.B, p.QB
		}
		b.WriteString("@" + p.ID + "\n" + s + "\n+\n" + qualString(q) + "\n")
	}
	return []byte(b.String())
}

func qualString(q []int) string {
	b := make([]byte, len(q))
	for i, v := range q {
		b[i] = byte(v + 33)
	}
	return string(b)
}

// ------------------------------------------------------------------ settings and reference

func (c tagCase) settings() (gap, scale float64, delta, minOverlap int, minIdentity float64) {
	gap, scale, delta, minOverlap, minIdentity = 2, 1, 5, 20, 0.9 // documented defaults of the options
	if c.Gap > 0 {
		gap = c.Gap
	}
	if c.Scale > 0 {
		scale = c.Scale
	}
	if c.Delta >= 0 {
		delta = c.Delta
	}
	if c.MinOverlap > 0 {
		minOverlap = c.MinOverlap
	}
	if c.MinIdentity >= 0 {
		minIdentity = c.MinIdentity
	}
	return
}

func ff(x float64) string { return strconv.FormatFloat(x, 'g', -1, 64) }

func (c tagCase) alignArgs() []string {
	var a []string
	if c.Exact {
		a = append(a, "--exact-mode")
	}
	if c.Abs {
		a = append(a, "--fast-absolute")
	}
	if c.MinOverlap > 0 {
		a = append(a, "--min-overlap", strconv.Itoa(c.MinOverlap))
	}
	if c.MinIdentity >= 0 {
		a = append(a, "--min-identity", ff(c.MinIdentity))
	}
	if c.Delta >= 0 {
		a = append(a, "--delta", strconv.Itoa(c.Delta))
	}
	if c.Gap > 0 {
		a = append(a, "--gap-penality", ff(c.Gap))
	}
	if c.Scale > 0 {
		a = append(a, "--penality-scale", ff(c.Scale))
	}
	if c.NoStat {
		a = append(a, "-S")
	}
	return a
}

func (c tagCase) execArgs() []string {
	var a []string
	if c.MaxCPU > 0 {
		a = append(a, "--max-cpu", strconv.Itoa(c.MaxCPU))
	}
	if c.Batch > 0 {
		a = append(a, "--batch-size", strconv.Itoa(c.Batch))
	}
	return a
}

type refRecord struct {
	Seq   string
	Qual  []byte
	Annot map[string]any // JSON-normalised
}

// refAssemble is the reference of the two commands for one pair: the library
// kernel called as the documentation of the options says.
func refAssemble(c tagCase, p tagPair, fast, rel bool) (refRecord, error) {
	gap, scale, delta, minOverlap, minIdentity := c.settings()
	var rr refRecord
	out := fatal.Run(func() {
		a := mkseq(p.ID, p.A, p.QA)
		b := mkseq(p.ID, p.B, p.QB).ReverseComplement(true)
		shifts := map[int]int{}
		cons := obipairing.AssemblePESequences(a, b, gap, scale, delta, minOverlap, minIdentity,
			!c.NoStat, true, fast, rel, obialign.MakePEAlignArena(150, 150), &shifts)
		rr.Seq = string(cons.Sequence())
		rr.Qual = append([]byte{}, cons.Qualities()...)
		raw := map[string]any{}
		for k, v := range cons.Annotations() {
			raw[k] = v
		}
		js, err := json.Marshal(raw)
		if err == nil {
			err = json.Unmarshal(js, &rr.Annot)
		}
		if err != nil {
			panic(fmt.Sprintf("harness: annotations of the reference not JSON-serialisable: %v", err))
		}
	})
	if !out.Completed {
		return rr, fmt.Errorf("reference AssemblePESequences(pair %s) did not return: %v\n%s", p.ID, out, out.Stack)
	}
	return rr, nil
}

// ------------------------------------------------------------------ reading the outputs

type outRec struct {
	ID    string
	Seq   string
	Qual  []byte // phred values
	Annot map[string]any
}

func parseOut(what string, data []byte) ([]outRec, error) {
	recs, err := ref.ParseFastq(data)
	if err != nil {
		return nil, fmt.Errorf("%s: not a FASTQ file: %v", what, err)
	}
	var out []outRec
	for _, r := range recs {
		o := outRec{ID: r.ID, Seq: r.Seq, Annot: map[string]any{}}
		for _, ch := range r.Qual {
			o.Qual = append(o.Qual, ch-33)
		}
		if js, _, ok := ref.SplitJSONTitle(r.Title); ok {
			if err := json.Unmarshal([]byte(js), &o.Annot); err != nil {
				return nil, fmt.Errorf("%s: record %s: title %q is not JSON: %v", what, r.ID, r.Title, err)
			}
		} else if strings.TrimSpace(r.Title) != "" {
			return nil, fmt.Errorf("%s: record %s: title %q does not start with a JSON object", what, r.ID, r.Title)
		}
		out = append(out, o)
	}
	return out, nil
}

func readIfAny(path string) []byte {
	b, err := os.ReadFile(path)
	if err != nil {
		return nil
	}
	return b
}

func tail(b []byte) string {
	s := strings.TrimSpace(string(b))
	if len(s) > 600 {
		s = "…" + s[len(s)-600:]
	}
	return s
}

func describePair(p tagPair) string {
	return fmt.Sprintf("pair %s (%s, %s, reverse=%v, tags %s/%s) A=%s QA=%s B=%s QB=%s", p.ID, p.Kind, p.Geometry, p.Reverse, p.TagF, p.TagR,
		p.A, qualString(p.QA), p.B, qualString(p.QB))
}

func modeName(fast, rel bool) string {
	switch {
	case !fast:
		return "exact"
	case rel:
		return "fast/relative"
	}
	return "fast/absolute"
}

func briefRef(r refRecord) string {
	return fmt.Sprintf("mode=%v score=%v ali_length=%v %q", r.Annot["mode"], r.Annot["score"], r.Annot["ali_length"], r.Seq)
}

// ------------------------------------------------------------------ the check

type tagStats struct {
	assigned, modeSensitive, outcomeSensitive, readThrough, e3pos, e3neg, multi int
	inconclusive                                                               bool
	classes                                                                    map[string]int
}

func checkTagPCR(c tagCase) error {
	_, err := checkTagPCRStats(c)
	return err
}

func onlyACGTN(s string) bool {
	for i := 0; i < len(s); i++ {
		if !isACGT(s[i]) && s[i] != 'n' {
			return false
		}
	}
	return true
}

// decided is the constructive verdict (E3) on a consensus: +1 the pair must be
// assigned to the sample it was built from, -1 it must stay unassigned, 0 not decided.
func (lib tagLib) decided(p tagPair, cons string) int {
	if !onlyACGTN(cons) {
		return 0
	}
	hits := lib.primerHits(cons, scanMismatches)
	if hits == 0 {
		return -1
	}
	if p.Kind == "amplicon" && p.Sample >= 0 && hits == 2 && strings.Count(cons, p.Construct) == 1 {
		return 1
	}
	return 0
}

func checkTagPCRStats(c tagCase) (tagStats, error) {
	st := tagStats{classes: map[string]int{}}
	if c.NPairs < 1 || c.ReadLen < 40 || c.NMarkers < 1 || c.NSamples < 1 || c.TagLen < 4 || c.Mism == 0 {
		return st, fmt.Errorf("malformed case %+v", c)
	}
	lib, pairs := buildTagInput(c)
	fast, rel := !c.Exact, !c.Abs

	// the reference for every pair, under the mode the options denote and under the two others
	refs := make([]refRecord, len(pairs))
	for i, p := range pairs {
		var alt [3]refRecord
		for k, m := range [3][2]bool{{false, true}, {true, true}, {true, false}} {
			r, err := refAssemble(c, p, m[0], m[1])
			if err != nil {
				return st, err
			}
			alt[k] = r
			if m[0] == fast && (!fast || m[1] == rel) {
				refs[i] = r
			}
		}
		if alt[0].Seq != alt[1].Seq || alt[0].Seq != alt[2].Seq {
			st.modeSensitive++
			st.classes["tagpcr_pair:consensus_depends_on_mode"]++
		}
		d0, d1, d2 := lib.decided(p, alt[0].Seq), lib.decided(p, alt[1].Seq), lib.decided(p, alt[2].Seq)
		if d0 != d1 || d0 != d2 {
			st.outcomeSensitive++
			st.classes["tagpcr_pair:decided_assignment_depends_on_mode"]++
		}
		if alt[1].Seq != alt[2].Seq {
			st.classes["tagpcr_pair:consensus_depends_on_fast_score"]++
		}
		if p.ReadThrough {
			st.readThrough++
		}
		st.classes["tagpcr_pair:"+p.Kind]++
		st.classes["tagpcr_pair:geometry_"+p.Geometry]++
		st.classes["tagpcr_pair:ref_mode_"+fmt.Sprint(refs[i].Annot["mode"])]++
	}

	dir, err := os.MkdirTemp(run.WorkDir(), "tagpcr")
	if err != nil {
		return st, fmt.Errorf("harness: %v", err)
	}
	defer os.RemoveAll(dir)
	fwd, rev, sheet := filepath.Join(dir, "fwd.fastq"), filepath.Join(dir, "rev.fastq"), filepath.Join(dir, "sheet.txt")
	os.WriteFile(fwd, fastqOf(pairs, false), 0o644)
	os.WriteFile(rev, fastqOf(pairs, true), 0o644)
	os.WriteFile(sheet, []byte(lib.sheet(c)), 0o644)

	// ---- obipairing
	pargs := append(append(c.execArgs(), c.alignArgs()...), "-F", fwd, "-R", rev)
	pres := run.Cmd(run.Opt{Dir: dir}, "obipairing", pargs...)
	if pres.Inconclusive() {
		st.inconclusive = true
		return st, nil
	}
	pcmd := "obipairing " + strings.Join(pargs, " ")
	if pres.Exit != 0 {
		return st, fmt.Errorf("%s: exit status %d on a well-formed pair of files; stderr: %s", pcmd, pres.Exit, tail(pres.Stderr))
	}
	cons, err := parseOut(pcmd, pres.Stdout)
	if err != nil {
		return st, err
	}
	byID := map[string]int{}
	for i, p := range pairs {
		byID[p.ID] = i
	}
	seen := map[string]bool{}
	for _, r := range cons {
		i, ok := byID[r.ID]
		if !ok || seen[r.ID] {
			return st, fmt.Errorf("%s: wrote a record %q that is not one consensus per input pair (unknown or repeated identifier)", pcmd, r.ID)
		}
		seen[r.ID] = true
		want := refs[i]
		if r.Seq != want.Seq || !reflect.DeepEqual(r.Qual, want.Qual) || !reflect.DeepEqual(r.Annot, want.Annot) {
			var diff []string
			if r.Seq != want.Seq {
				diff = append(diff, fmt.Sprintf("sequence: the command wrote %q, the reference returns %q", r.Seq, want.Seq))
			}
			if !reflect.DeepEqual(r.Qual, want.Qual) {
				diff = append(diff, fmt.Sprintf("qualities: the command wrote %v, the reference returns %v", r.Qual, want.Qual))
			}
			keys := map[string]bool{}
			for k := range r.Annot {
				keys[k] = true
			}
			for k := range want.Annot {
				keys[k] = true
			}
			var ks []string
			for k := range keys {
				ks = append(ks, k)
			}
			sort.Strings(ks)
			for _, k := range ks {
				if !reflect.DeepEqual(r.Annot[k], want.Annot[k]) {
					diff = append(diff, fmt.Sprintf("annotation %s: the command wrote %v, the reference returns %v (<nil> = absent)", k, r.Annot[k], want.Annot[k]))
				}
			}
			return st, fmt.Errorf("%s: %s\n  the record written differs from AssemblePESequences(A, rc(B), %s, settings of the options) = %s\n  %s",
				pcmd, describePair(pairs[i]), modeName(fast, rel), briefRef(want), strings.Join(diff, "\n  "))
		}
	}
	if len(cons) != len(pairs) {
		return st, fmt.Errorf("%s: %d pairs read, %d records written", pcmd, len(pairs), len(cons))
	}
	consFile := filepath.Join(dir, "cons.fastq")
	os.WriteFile(consFile, pres.Stdout, 0o644)

	// ---- obimultiplex on the consensus (second step of the documented two-step procedure)
	margs := []string{"--max-cpu", "2", "-t", sheet, "--keep-errors"}
	if c.Mism > 0 {
		margs = append(margs, "-e", strconv.Itoa(c.Mism))
	}
	margs = append(margs, consFile)
	mres := run.Cmd(run.Opt{Dir: dir}, "obimultiplex", margs...)
	if mres.Inconclusive() {
		st.inconclusive = true
		return st, nil
	}
	mcmd := "obimultiplex " + strings.Join(margs, " ")
	if mres.Exit != 0 {
		return st, fmt.Errorf("%s (on the output of %s): exit status %d; stderr: %s", mcmd, pcmd, mres.Exit, tail(mres.Stderr))
	}
	mrecs, err := parseOut(mcmd, mres.Stdout)
	if err != nil {
		return st, err
	}
	pipeline := map[string][]outRec{}
	for _, r := range mrecs {
		id := r.ID
		if k := strings.Index(id, "_sub["); k >= 0 {
			id = id[:k]
		}
		pipeline[id] = append(pipeline[id], r)
	}

	// ---- obitagpcr
	targs := append(append(c.execArgs(), c.alignArgs()...), "-t", sheet)
	if c.Mism > 0 {
		targs = append(targs, "-e", strconv.Itoa(c.Mism))
	}
	if c.Reorient {
		targs = append(targs, "--reorientate")
	}
	switch c.Unid {
	case "-u":
		targs = append(targs, "-u", filepath.Join(dir, "un.fastq"))
	case "--keep-errors":
		targs = append(targs, "--keep-errors")
	}
	targs = append(targs, "--out", filepath.Join(dir, "o.fastq"), "-F", fwd, "-R", rev)
	tres := run.Cmd(run.Opt{Dir: dir}, "obitagpcr", targs...)
	if tres.Inconclusive() {
		st.inconclusive = true
		return st, nil
	}
	tcmd := "obitagpcr " + strings.Join(targs, " ")
	if tres.Exit != 0 {
		return st, fmt.Errorf("%s: exit status %d on a well-formed run; stderr: %s", tcmd, tres.Exit, tail(tres.Stderr))
	}
	type mates struct{ r1, r2 outRec }
	load := func(stem string) (map[string]mates, error) {
		a, err := parseOut(tcmd+" ["+stem+"_R1.fastq]", readIfAny(filepath.Join(dir, stem+"_R1.fastq")))
		if err != nil {
			return nil, err
		}
		b, err := parseOut(tcmd+" ["+stem+"_R2.fastq]", readIfAny(filepath.Join(dir, stem+"_R2.fastq")))
		if err != nil {
			return nil, err
		}
		if len(a) != len(b) {
			return nil, fmt.Errorf("%s: %s_R1.fastq holds %d records, %s_R2.fastq %d: the two files are not in step", tcmd, stem, len(a), stem, len(b))
		}
		m := map[string]mates{}
		for i := range a {
			if a[i].ID != b[i].ID {
				return nil, fmt.Errorf("%s: record %d of %s_R1.fastq is %q, of %s_R2.fastq %q: the two files are not in step", tcmd, i, stem, a[i].ID, stem, b[i].ID)
			}
			if _, dup := m[a[i].ID]; dup {
				return nil, fmt.Errorf("%s: pair %q written twice in %s_R[12].fastq", tcmd, a[i].ID, stem)
			}
			if _, ok := byID[a[i].ID]; !ok {
				return nil, fmt.Errorf("%s: pair %q of %s_R[12].fastq is not an input pair", tcmd, a[i].ID, stem)
			}
			m[a[i].ID] = mates{a[i], b[i]}
		}
		return m, nil
	}
	outMain, err := load("o")
	if err != nil {
		return st, err
	}
	outUn := map[string]mates{}
	if c.Unid == "-u" {
		if outUn, err = load("un"); err != nil {
			return st, err
		}
	}

	str := func(v any) string { return fmt.Sprint(v) }
	for i, p := range pairs {
		context := func() string {
			s := fmt.Sprintf("%s\n  reference consensus for the options (%s): %s", describePair(p), modeName(fast, rel), briefRef(refs[i]))
			for _, m := range [3][2]bool{{false, true}, {true, true}, {true, false}} {
				if m[0] == fast && (!fast || m[1] == rel) {
					continue
				}
				if r, err := refAssemble(c, p, m[0], m[1]); err == nil && r.Seq != refs[i].Seq {
					s += fmt.Sprintf("\n  (the %s algorithm would give: %s)", modeName(m[0], m[1]), briefRef(r))
				}
			}
			return s
		}
		mm, inMain := outMain[p.ID]
		um, inUn := outUn[p.ID]
		if inMain && inUn {
			return st, fmt.Errorf("%s: pair %s written to the main output and to the -u files", tcmd, p.ID)
		}
		got := mm
		if inUn {
			got = um
		}
		present := inMain || inUn
		hasErr := false
		if present {
			_, e1 := got.r1.Annot["obimultiplex_error"]
			_, e2 := got.r2.Annot["obimultiplex_error"]
			if e1 != e2 {
				return st, fmt.Errorf("%s: pair %s: one mate carries obimultiplex_error, the other does not: R1 %v R2 %v", tcmd, p.ID, got.r1.Annot, got.r2.Annot)
			}
			hasErr = e1
			// the reads themselves are unchanged
			direct := got.r1.Seq == p.A && got.r2.Seq == p.B && reflect.DeepEqual(got.r1.Qual, quals(p.QA)) && reflect.DeepEqual(got.r2.Qual, quals(p.QB))
			swapped := got.r1.Seq == p.B && got.r2.Seq == p.A && reflect.DeepEqual(got.r1.Qual, quals(p.QB)) && reflect.DeepEqual(got.r2.Qual, quals(p.QA))
			if !direct && !(swapped && c.Reorient && str(got.r1.Annot["obimultiplex_direction"]) == "reverse") {
				return st, fmt.Errorf("%s: %s\n  the reads came out changed: R1 %q %v  R2 %q %v", tcmd, describePair(p), got.r1.Seq, got.r1.Qual, got.r2.Seq, got.r2.Qual)
			}
			if (inUn && !hasErr) || (inMain && hasErr && c.Unid != "--keep-errors") {
				return st, fmt.Errorf("%s: pair %s is in the wrong output (main=%v, -u=%v) for obimultiplex_error present=%v", tcmd, p.ID, inMain, inUn, hasErr)
			}
		}
		assigned := present && !hasErr
		if assigned {
			st.assigned++
			if _, ok := got.r1.Annot["sample"]; !ok {
				return st, fmt.Errorf("%s: pair %s written as assigned without a sample: %v", tcmd, p.ID, got.r1.Annot)
			}
		}
		if !present && c.Unid != "" {
			return st, fmt.Errorf("%s: pair %s is in no output file although unassigned pairs are kept (%s)\n  %s", tcmd, p.ID, c.Unid, context())
		}

		// E3: the constructive verdict
		switch lib.decided(p, refs[i].Seq) {
		case 1:
			st.e3pos++
			sp := lib.Samples[p.Sample]
			mk := lib.Markers[sp.Marker]
			wantDir := "forward"
			if p.Reverse {
				wantDir = "reverse"
			}
			if !assigned {
				return st, fmt.Errorf("%s: %s\n  the assembly with the options holds the generated amplicon of sample %s verbatim and no other priming site, yet the pair was not assigned (annotations %v)",
					tcmd, context(), sp.Name, got.r1.Annot)
			}
			for _, r := range []outRec{got.r1, got.r2} {
				a := r.Annot
				if str(a["sample"]) != sp.Name || str(a["experiment"]) != mk.Exp || str(a["obimultiplex_direction"]) != wantDir ||
					str(a["obimultiplex_forward_tag"]) != sp.TagF || str(a["obimultiplex_reverse_tag"]) != sp.TagR ||
					str(a["obimultiplex_forward_match"]) != mk.Fwd || str(a["obimultiplex_reverse_match"]) != mk.Rev ||
					str(a["obimultiplex_forward_mismatches"]) != "0" || str(a["obimultiplex_reverse_mismatches"]) != "0" {
					return st, fmt.Errorf("%s: %s\n  built from sample %s (experiment %s, direction %s, tags %s/%s, exact primers %s / %s) but annotated %v",
						tcmd, context(), sp.Name, mk.Exp, wantDir, sp.TagF, sp.TagR, mk.Fwd, mk.Rev, a)
				}
			}
		case -1:
			st.e3neg++
			if assigned {
				return st, fmt.Errorf("%s: %s\n  the assembly with the options holds no priming site of the sheet (<= %d mismatches, either strand), yet the pair was assigned: %v",
					tcmd, context(), scanMismatches, got.r1.Annot)
			}
		}

		// E2: the two-step procedure
		precs := pipeline[p.ID]
		if len(precs) == 0 {
			return st, fmt.Errorf("%s: no record for the consensus of pair %s although --keep-errors is given", mcmd, p.ID)
		}
		if len(precs) > 1 {
			st.multi++
			continue
		}
		pa := precs[0].Annot
		_, perr := pa["obimultiplex_error"]
		if perr == assigned {
			return st, fmt.Errorf("%s: %s\n  obitagpcr: assigned=%v annotations %v\n  %s | %s: error=%v annotations %v",
				tcmd, context(), assigned, got.r1.Annot, pcmd, mcmd, pa["obimultiplex_error"], pa)
		}
		if assigned {
			for _, r := range []outRec{got.r1, got.r2} {
				a := r.Annot
				for _, k := range [][2]string{{"sample", "sample"}, {"experiment", "experiment"}, {"obimultiplex_direction", "obimultiplex_direction"},
					{"obimultiplex_forward_match", "obimultiplex_forward_match"}, {"obimultiplex_reverse_match", "obimultiplex_reverse_match"},
					{"obimultiplex_forward_tag", "obimultiplex_forward_tag"}, {"obimultiplex_reverse_tag", "obimultiplex_reverse_tag"},
					{"obimultiplex_forward_mismatches", "obimultiplex_forward_error"}, {"obimultiplex_reverse_mismatches", "obimultiplex_reverse_error"}} {
					if !reflect.DeepEqual(a[k[0]], pa[k[1]]) {
						return st, fmt.Errorf("%s: %s\n  obitagpcr annotates %s=%v, %s | %s gives %s=%v\n  obitagpcr: %v\n  two steps: %v",
							tcmd, context(), k[0], a[k[0]], pcmd, mcmd, k[1], pa[k[1]], a, pa)
					}
				}
			}
		}
	}
	return st, nil
}

// ------------------------------------------------------------------ the property

func genTagCase(rt *rapid.T) tagCase {
	var c tagCase
	c.Salt = rapid.Uint64Range(0, 1<<40).Draw(rt, "salt")
	c.NPairs = rapid.SampledFrom([]int{8, 16, 24, 32, 48}).Draw(rt, "npairs")
	c.ReadLen = rapid.SampledFrom([]int{75, 100, 125, 150, 150, 250, 250}).Draw(rt, "readlen")
	c.NMarkers = rapid.SampledFrom([]int{1, 1, 2}).Draw(rt, "nmarkers")
	c.NSamples = rapid.IntRange(2, 5).Draw(rt, "nsamples")
	c.TagLen = rapid.IntRange(6, 8).Draw(rt, "taglen")
	c.TwoTags = rapid.Bool().Draw(rt, "two_tags")
	c.Tails = rapid.SampledFrom([]string{"n_masked", "n_masked", "mixed", "mixed", "adapter", "polyg", "random_lowq"}).Draw(rt, "tails")
	c.ErrPerMille = rapid.SampledFrom([]int{0, 0, 2, 10, 30}).Draw(rt, "err_per_mille")
	switch rapid.IntRange(0, 3).Draw(rt, "mode_options") {
	case 1:
		c.Exact = true
	case 2:
		c.Abs = true
	case 3:
		c.Exact, c.Abs = true, true
	}
	c.MinIdentity, c.Delta, c.Mism = -1, -1, -1
	if rapid.IntRange(0, 2).Draw(rt, "with_min_overlap") == 0 {
		c.MinOverlap = rapid.SampledFrom([]int{1, 10, 20, 30, 60, 100}).Draw(rt, "min_overlap")
	}
	if rapid.IntRange(0, 2).Draw(rt, "with_min_identity") == 0 {
		c.MinIdentity = rapid.SampledFrom([]float64{0, 0.5, 0.8, 0.95, 1}).Draw(rt, "min_identity")
	}
	if rapid.IntRange(0, 2).Draw(rt, "with_delta") == 0 {
		c.Delta = rapid.SampledFrom([]int{0, 1, 5, 10, 20}).Draw(rt, "delta")
	}
	if rapid.IntRange(0, 3).Draw(rt, "with_gap") == 0 {
		c.Gap = rapid.SampledFrom([]float64{0.5, 1, 2.5, 4}).Draw(rt, "gap")
	}
	if rapid.IntRange(0, 3).Draw(rt, "with_scale") == 0 {
		c.Scale = rapid.SampledFrom([]float64{0.5, 1.5, 2}).Draw(rt, "scale")
	}
	c.NoStat = rapid.IntRange(0, 5).Draw(rt, "without_stat") == 0
	if rapid.IntRange(0, 2).Draw(rt, "with_e") == 0 {
		c.Mism = rapid.IntRange(1, 3).Draw(rt, "allowed_mismatches")
	}
	c.Unid = rapid.SampledFrom([]string{"", "-u", "-u", "--keep-errors"}).Draw(rt, "unidentified")
	c.Reorient = rapid.IntRange(0, 3).Draw(rt, "reorientate") == 0
	c.MaxCPU = rapid.SampledFrom([]int{1, 2, 4, 4, 4}).Draw(rt, "max_cpu")
	c.Batch = rapid.SampledFrom([]int{0, 2, 5, 5, 10}).Draw(rt, "batch_size")
	return c
}

func TestPropTagPCR(t *testing.T) {
	if !run.Have("obitagpcr") || !run.Have("obipairing") || !run.Have("obimultiplex") {
		t.Skip("commands not built (run through ./check)")
	}
	rapid.Check(t, func(rt *rapid.T) {
		c := genTagCase(rt)
		st, err := checkTagPCRStats(c)
		if st.inconclusive {
			evid.Class("timeout_inconclusive", 1)
			return
		}
		cl := []string{"tagpcr", "tagpcr_mode:" + modeName(!c.Exact, !c.Abs), "tagpcr_tails:" + c.Tails, "tagpcr_unidentified:" + c.Unid}
		if c.Exact != c.Abs {
			cl = append(cl, "tagpcr_one_mode_option_alone")
		}
		if c.Exact && c.Abs {
			cl = append(cl, "tagpcr_both_mode_options")
		}
		if c.MaxCPU > 1 && c.Batch > 0 && c.Batch < c.NPairs {
			cl = append(cl, "tagpcr_several_workers_several_batches")
		}
		if c.Reorient {
			cl = append(cl, "tagpcr_reorientate")
		}
		if st.outcomeSensitive > 0 {
			cl = append(cl, "tagpcr_case_with_mode_dependent_assignment")
		}
		evid.Eval("tagpcr", evid.Hash(fmt.Sprintf("%+v", c)), st.assigned > 0 && st.modeSensitive > 0, c, cl...)
		keys := make([]string, 0, len(st.classes))
		for k := range st.classes {
			keys = append(keys, k)
		}
		sort.Strings(keys)
		for _, k := range keys {
			evid.Class(k, int64(st.classes[k]))
		}
		evid.Class("tagpcr_pair:assigned_by_obitagpcr", int64(st.assigned))
		evid.Class("tagpcr_pair:constructive_assignment_claimed", int64(st.e3pos))
		evid.Class("tagpcr_pair:constructive_no_assignment_claimed", int64(st.e3neg))
		evid.Class("tagpcr_pair:several_amplicons_not_compared", int64(st.multi))
		if err != nil {
			evid.Fail(rt, "tagpcr", c, err)
		}
	})
}

// ------------------------------------------------------------------ the same reads through the record oracles

// kernelCase turns a sequenced pair into the input of the library kernel
// exactly as both commands do (forward read, reverse-complemented mate) with
// the settings of the case.
func kernelCase(c tagCase, p tagPair, fast, rel, inplace bool) pairCase {
	gap, scale, delta, minOverlap, minIdentity := c.settings()
	qb := make([]int, len(p.QB))
	for i, v := range p.QB {
		qb[len(qb)-1-i] = v
	}
	return pairCase{A: p.A, B: ref.RevComp(p.B), QA: append([]int{}, p.QA...), QB: qb, Fast: fast, Rel: rel, Delta: delta, Gap: gap, Scale: scale,
		MinOverlap: minOverlap, MinIdentity: minIdentity, Inplace: inplace, Kind: "sequenced_" + p.Geometry}
}

// TestPropSequencedPairs: the read pairs of the generated sequencing runs
// (read-through pairs with N-masked / adapter / poly-G / low-quality tails,
// N-masked read ends, trimmed reads, unrelated mates) through oracles (1)-(4)
// of this package, under the three algorithms.
func TestPropSequencedPairs(t *testing.T) {
	rapid.Check(t, func(rt *rapid.T) {
		c := genTagCase(rt)
		c.NPairs = min(c.NPairs, 16)
		_, pairs := buildTagInput(c)
		inplace := rapid.Bool().Draw(rt, "inplace")
		for _, p := range pairs {
			for _, m := range [3][2]bool{{false, true}, {true, true}, {true, false}} {
				pc := kernelCase(c, p, m[0], m[1], inplace)
				o, err := checkPairAnswer(pc)
				diag, acl := answerClasses(pc, o)
				cl := append([]string{"sequenced_pair", "sequenced_pair:" + p.Geometry, "sequenced_pair:" + p.Kind, "sequenced_pair:mode_" + modeName(m[0], m[1])}, acl...)
				if strings.Contains(p.A, "nnnn") || strings.Contains(p.B, "nnnn") {
					cl = append(cl, "sequenced_pair:n_masked")
				}
				evid.Eval("pair", evid.Hash(fmt.Sprintf("%+v", pc)), diag && p.Geometry != "long" && p.Kind != "unrelated_mate", pc, cl...)
				if err != nil {
					evid.Fail(rt, "pair", pc, err)
				}
			}
		}
	})
}
