package c08

import (
	"pgregory.net/rapid"

	"verifharness/internal/gen"
)

var kinds = []string{
	"left", "left", "right", "right", // 3' overlap (A first) / 5' overlap (B first)
	"b_in_a", "a_in_b", // containment, both ways
	"same_start", "same_end", "identical",
	"short_overlap",    // 0..3 shared columns
	"gap", "unrelated", // no overlap
	"min_overlap_edge", // overlap = min-overlap -1 / +0 / +1
}

var someFloats = []float64{0.5, 1, 1, 1.5, 2, 2, 2, 3, 4}

// fragment draws a sequence of length n of the chosen complexity.
func fragment(t *rapid.T, n int) (string, string) {
	style := rapid.SampledFrom([]string{"distinct4", "distinct4", "free", "free", "two_letters", "tandem", "homopolymer_runs"}).Draw(t, "frag_style")
	switch style {
	case "distinct4":
		// a walk that never repeats a 4-mer while it can; completed with free symbols
		pref := rapid.SliceOfN(rapid.IntRange(0, 23), n, n).Draw(t, "frag_walk")
		perms := [24][4]byte{}
		k := 0
		for a := 0; a < 4; a++ {
			for b := 0; b < 4; b++ {
				for c := 0; c < 4; c++ {
					for d := 0; d < 4; d++ {
						if a != b && a != c && a != d && b != c && b != d && c != d {
							perms[k] = [4]byte{gen.ACGT[a], gen.ACGT[b], gen.ACGT[c], gen.ACGT[d]}
							k++
						}
					}
				}
			}
		}
		seen := map[string]bool{}
		s := make([]byte, 0, n)
		for i := 0; i < n; i++ {
			order := perms[pref[i]]
			pick := order[0]
			if len(s) >= 3 {
				for _, x := range order {
					if !seen[string(s[len(s)-3:])+string(x)] {
						pick = x
						break
					}
				}
				seen[string(s[len(s)-3:])+string(pick)] = true
			}
			s = append(s, pick)
		}
		return string(s), style
	case "two_letters":
		return gen.Seq(t, "frag", n, rapid.SampledFrom([]string{"ac", "at", "gt"}).Draw(t, "frag_letters")), style
	case "tandem":
		unit := gen.Seq(t, "frag_unit", rapid.IntRange(1, 7).Draw(t, "frag_unit_len"), gen.ACGT)
		s := make([]byte, n)
		for i := range s {
			s[i] = unit[i%len(unit)]
		}
		k := rapid.IntRange(0, 3).Draw(t, "frag_unit_breaks")
		for i := 0; i < k && n > 0; i++ {
			s[rapid.IntRange(0, n-1).Draw(t, "frag_break_pos")] = gen.ACGT[rapid.IntRange(0, 3).Draw(t, "frag_break_sym")]
		}
		return string(s), style
	case "homopolymer_runs":
		s := make([]byte, 0, n)
		for len(s) < n {
			x := gen.ACGT[rapid.IntRange(0, 3).Draw(t, "run_sym")]
			for r := rapid.IntRange(1, 6).Draw(t, "run_len"); r > 0 && len(s) < n; r-- {
				s = append(s, x)
			}
		}
		return string(s), style
	}
	return gen.Seq(t, "frag", n, gen.ACGT), style
}

// qualities draws one quality per position from a generated profile.
func qualities(t *rapid.T, label string, n int) []int {
	q := make([]int, n)
	switch rapid.SampledFrom([]string{"const", "const", "two_levels", "ramp", "random", "random", "with_zeros"}).Draw(t, label+"_profile") {
	case "const":
		v := rapid.SampledFrom([]int{40, 40, 30, 20, 2, 1, 93, 10}).Draw(t, label+"_q")
		for i := range q {
			q[i] = v
		}
	case "two_levels":
		hi := rapid.IntRange(20, 93).Draw(t, label+"_hi")
		lo := rapid.IntRange(1, 20).Draw(t, label+"_lo")
		cut := rapid.IntRange(0, n).Draw(t, label+"_cut")
		for i := range q {
			q[i] = hi
			if i >= cut {
				q[i] = lo
			}
		}
	case "ramp":
		hi := rapid.IntRange(30, 93).Draw(t, label+"_hi")
		lo := rapid.IntRange(1, 30).Draw(t, label+"_lo")
		for i := range q {
			q[i] = hi - (hi-lo)*i/max(1, n-1)
		}
	case "random":
		high := rapid.Bool().Draw(t, label+"_high")
		for i, v := range rapid.SliceOfN(rapid.IntRange(1, 93), n, n).Draw(t, label+"_q") {
			q[i] = v
			if high {
				q[i] = 94 - v
			}
		}
	default: // with_zeros
		for i, v := range rapid.SliceOfN(rapid.IntRange(0, 93), n, n).Draw(t, label+"_q") {
			q[i] = v
			if v%7 == 0 {
				q[i] = 0
			}
		}
	}
	return q
}

// spread draws an integer of [lo, hi] about uniformly (rapid's own integer
// generators favour small values far too much for lengths and positions).
func spread(t *rapid.T, label string, lo, hi int) int {
	n := hi - lo + 1
	if n <= 1 {
		return lo
	}
	if n <= 12 {
		return lo + rapid.IntRange(0, n-1).Draw(t, label)
	}
	w := (n + 11) / 12
	b := rapid.SampledFrom([]int{7, 2, 11, 0, 5, 9, 3, 10, 1, 6, 8, 4}).Draw(t, label+"_bucket")
	l := lo + b*w
	if l > hi {
		l = hi
	}
	return spread(t, label, l, min(hi, l+w-1))
}

// edit applies k substitutions / insertions / deletions at spread positions and
// returns the positions (in the final string) whose symbol was written by an edit.
func edit(t *rapid.T, label, s string, k int, kinds string) (string, []int) {
	b := []byte(s)
	var touched []int
	for i := 0; i < k; i++ {
		kind := kinds[rapid.IntRange(0, len(kinds)-1).Draw(t, label+"_kind")]
		sym := gen.ACGT[rapid.IntRange(0, 3).Draw(t, label+"_sym")]
		switch {
		case kind == 's' || (kind == 'd' && len(b) <= 1):
			p := spread(t, label+"_pos", 0, len(b)-1)
			if b[p] == sym {
				sym = gen.ACGT[(rapid.IntRange(1, 3).Draw(t, label+"_other")+int(indexACGT(sym)))%4]
			}
			b[p] = sym
			touched = append(touched, p)
		case kind == 'i':
			p := spread(t, label+"_pos", 0, len(b))
			if rapid.Bool().Draw(t, label+"_homopolymer") && p > 0 {
				sym = b[p-1] // lengthen a run: the place of the gap is ambiguous
			}
			b = append(b[:p], append([]byte{sym}, b[p:]...)...)
			for j := range touched {
				if touched[j] >= p {
					touched[j]++
				}
			}
			touched = append(touched, p)
		default: // deletion
			p := spread(t, label+"_pos", 0, len(b)-1)
			b = append(b[:p], b[p+1:]...)
			kept := touched[:0]
			for _, q := range touched {
				if q == p {
					continue
				}
				if q > p {
					q--
				}
				kept = append(kept, q)
			}
			touched = kept
		}
	}
	return string(b), touched
}

func indexACGT(c byte) int {
	for i := 0; i < 4; i++ {
		if gen.ACGT[i] == c {
			return i
		}
	}
	return 0
}

// readLen draws a read length: mostly anywhere in 1..maxLen, sometimes at a boundary.
func readLen(t *rapid.T, label string, maxLen int) int {
	if rapid.IntRange(0, 5).Draw(t, label+"_boundary") == 0 {
		return min(maxLen, rapid.SampledFrom([]int{1, 2, 3, 4, 5, 7, 8, 9, 20, 149, 150, 151, 299, 300}).Draw(t, label))
	}
	return spread(t, label, 1, maxLen)
}

// genPair draws one read pair with its settings (see the rule note).
func genPair(t *rapid.T, maxLen int) pairCase {
	var c pairCase
	c.Fast = rapid.IntRange(0, 2).Draw(t, "fast") > 0
	c.Rel = rapid.Bool().Draw(t, "relative")
	c.Delta = rapid.SampledFrom([]int{0, 0, 1, 2, 5, 5, 5, 10}).Draw(t, "delta")
	c.Gap = rapid.SampledFrom(someFloats).Draw(t, "gap")
	c.Scale = rapid.SampledFrom([]float64{0.5, 1, 1, 1, 1.5, 2}).Draw(t, "scale")
	if rapid.IntRange(0, 5).Draw(t, "odd_floats") == 0 {
		c.Gap = rapid.Float64Range(0.5, 4).Draw(t, "gap_any")
		c.Scale = rapid.Float64Range(0.5, 2).Draw(t, "scale_any")
	}
	c.MinOverlap = rapid.SampledFrom([]int{1, 4, 10, 20, 20}).Draw(t, "min_overlap")
	c.MinIdentity = rapid.SampledFrom([]float64{0, 0.8, 0.9, 0.9, 1}).Draw(t, "min_identity")
	c.Inplace = rapid.Bool().Draw(t, "inplace")
	c.Kind = rapid.SampledFrom(kinds).Draw(t, "kind")

	la := readLen(t, "la", maxLen)
	lb := readLen(t, "lb", maxLen)
	s := 0 // offset of B in A coordinates
	switch c.Kind {
	case "left", "right", "short_overlap", "min_overlap_edge":
		top := min(la, lb)
		if c.Kind == "left" || c.Kind == "right" {
			top = min(la-1, lb-1)
		}
		ov := 0
		switch {
		case c.Kind == "short_overlap":
			ov = min(top, rapid.IntRange(0, 3).Draw(t, "overlap"))
		case c.Kind == "min_overlap_edge":
			ov = max(0, min(top, c.MinOverlap+rapid.IntRange(-1, 1).Draw(t, "overlap_delta")))
		case top >= 1:
			if rapid.IntRange(0, 7).Draw(t, "overlap_biased") == 0 {
				ov = gen.Len(t, "overlap", 1, top, 3, 4, 5, c.MinOverlap)
			} else {
				ov = spread(t, "overlap", min(4, top), top)
			}
		}
		if c.Kind == "right" || (c.Kind != "left" && rapid.Bool().Draw(t, "b_first")) {
			s = -(lb - ov)
		} else {
			s = la - ov
		}
	case "b_in_a":
		if lb > la {
			la, lb = lb, la
		}
		if rapid.Bool().Draw(t, "small_overhang") { // a short penalised overhang can still be optimal
			lb = max(1, la-rapid.IntRange(0, 3).Draw(t, "overhang"))
		}
		s = spread(t, "offset", 0, la-lb)
	case "a_in_b":
		if la > lb {
			la, lb = lb, la
		}
		if rapid.Bool().Draw(t, "small_overhang") {
			la = max(1, lb-rapid.IntRange(0, 3).Draw(t, "overhang"))
		}
		s = -spread(t, "offset", 0, lb-la)
	case "same_start":
		s = 0
	case "same_end":
		s = la - lb
	case "identical":
		lb = la
	case "gap":
		s = la + rapid.IntRange(1, 20).Draw(t, "gap_between")
		if rapid.Bool().Draw(t, "b_first") {
			s = -(lb + s - la)
		}
	}
	if c.Kind == "unrelated" {
		c.A = gen.Seq(t, "a", la, gen.ACGT)
		c.B = gen.Seq(t, "b", lb, gen.ACGT)
	} else {
		c.A0, c.B0 = max(0, -s), max(0, s)
		n := max(c.A0+la, c.B0+lb)
		var style string
		c.Frag, style = fragment(t, n)
		if rapid.IntRange(0, 9).Draw(t, "frag_iupac") == 0 {
			c.Frag = sprinkle(t, "iupac_frag", c.Frag) // both reads carry the same ambiguity code
		}
		c.Kind += "/" + style
		c.A = c.Frag[c.A0 : c.A0+la]
		c.B = c.Frag[c.B0 : c.B0+lb]
	}

	// sequencing errors and ambiguity codes
	var editsA, editsB []int
	if rapid.IntRange(0, 4).Draw(t, "with_errors") < 2 {
		kinds := rapid.SampledFrom([]string{"s", "s", "sid", "id"}).Draw(t, "error_kinds")
		c.A, editsA = edit(t, "err_a", c.A, rapid.SampledFrom([]int{0, 1, 1, 2, 5}).Draw(t, "nerr_a"), kinds)
		c.B, editsB = edit(t, "err_b", c.B, rapid.SampledFrom([]int{0, 1, 1, 2, 5}).Draw(t, "nerr_b"), kinds)
		if len(c.A) > maxLen {
			c.A = c.A[:maxLen]
		}
		if len(c.B) > maxLen {
			c.B = c.B[:maxLen]
		}
		if kinds != "s" {
			c.Kind += "/indels"
		}
	}
	if rapid.IntRange(0, 5).Draw(t, "with_iupac") == 0 {
		c.A = sprinkle(t, "iupac_a", c.A)
		c.B = sprinkle(t, "iupac_b", c.B)
	}
	c.QA = qualities(t, "qa", len(c.A))
	c.QB = qualities(t, "qb", len(c.B))
	for _, p := range editsA {
		if p < len(c.QA) {
			c.QA[p] = min(c.QA[p], rapid.IntRange(0, 15).Draw(t, "err_q"))
		}
	}
	for _, p := range editsB {
		if p < len(c.QB) {
			c.QB[p] = min(c.QB[p], rapid.IntRange(0, 15).Draw(t, "err_q"))
		}
	}

	return c
}

// sprinkle replaces a few symbols by IUPAC ambiguity codes.
func sprinkle(t *rapid.T, label, s string) string {
	b := []byte(s)
	k := rapid.IntRange(0, 1+len(b)/20).Draw(t, label+"_n")
	for i := 0; i < k; i++ {
		b[spread(t, label+"_pos", 0, len(b)-1)] = gen.IUPAC[rapid.IntRange(4, len(gen.IUPAC)-1).Draw(t, label+"_sym")]
	}
	return string(b)
}
