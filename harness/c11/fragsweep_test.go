package c11

// obipcr --fragmented: amplicons of the extreme lengths slid over every offset
// around the fragment borders.
//
// How the command cuts (pkg/obitools/obipcr/pcr.go CLIPCR, pkg/obiiter/fragment.go
// IFragments): a sequence longer than 1000 x L (L = --max-length) is cut into
// fragments of 100 x L symbols starting every step = 100 x L - T symbols, where
// T = L + |forward| + |reverse| is the overlap of two successive fragments = the
// longest product with its two priming sites; fragment k is [k*step, k*step + 100*L),
// the last one is extended to the end of the sequence when less than step
// symbols remain behind it.  An amplicon (with its sites) lying across the end
// of fragment k is found whole in fragment k+1 only if it starts at or after
// (k+1)*step: a product of exactly T symbols fits with no slack at all, one
// offset decides.  The random placements of cli_test.go / long_test.go hit a
// given (length, offset) pair with a probability of the order of 1e-3.
//
// Here a case is a file of W = 3T+7 templates of a little more than 1000 x L
// symbols.  Every template carries one unit (start site + barcode + end site,
// either strand) per usable fragment end e_k = k*step + 100*L, placed at
// e_k + off with off in the window [-(2T+3), T+3] = +-(T+3) around the end of
// fragment k and around the start (k+1)*step = e_k - T of fragment k+1.  Over
// the W templates the units of the first border (k = 0, whose end does not
// depend on the overlap) take every offset of the window exactly once, with the
// barcode length of the case (L, L-1, the minimum, or in between) and sites
// within the error budget; the units of the further borders take every offset
// once as well (other order), with lengths L / L-1 / min / L+1 / random and
// sometimes one mismatch too many (nothing to report).  A few units sit at the
// very beginning / end of a template.  Without --delta, and with --delta 0/1/5.
// L = 2..6 (2..12 in the thorough tier; the file measures W x 1000 x L symbols).
// One case out of four has L = 7..33 (..150 thorough) and a narrow window: only
// the <= 21 offsets at which the unit ends within 3 symbols of the end of the
// fragment, starts within 3 symbols of the start of the next fragment, or starts
// within 3 symbols of the end of the fragment.
//
// Oracle.  Without --delta and with --delta 0: the set of amplicons reported =
// the set the whole templates define (cli_test.go: an amplicon lying in an
// overlap may be reported twice).  With --delta D > 0 a flank may be cut short
// by the end of a fragment, and which copies appear depends on the borders
// (Domain decisions of prop_test.go): every expected amplicon must be reported
// at least once with its priming sites and barcode complete and each flank
// complete or cut short, and every reported record must be such a copy of an
// expected amplicon (same direction, match strings and error counts).
// --only-complete-flanking is not combined with --fragmented --delta (what
// becomes of an amplicon whose flank is cut by a fragment border only is not
// stated), nor is -c (known finding fragmented_circular).

import (
	"fmt"
	"sort"
	"strings"
	"testing"

	"pgregory.net/rapid"

	"verifharness/internal/evid"
	"verifharness/internal/gen"
	"verifharness/internal/ref"
	"verifharness/internal/run"
)

type sweepCase struct {
	Par       params // FwdErr == RevErr, Max = L >= 2, Ext -1/0/1/5, linear, not Full
	Seed      uint64 // backgrounds, template lengths, content of the units
	Alpha     string // alphabet of the backgrounds
	Barcode   int    // barcode length of the units of the first border
	Narrow    bool   // only the offsets within 3 symbols of an alignment of a unit end with a fragment end (larger L)
	Stride    int    // offset index of the first-border unit of template i = (Phase + i*Stride) mod W, gcd(Stride, W) = 1
	Phase     int
	Jump      int // the unit of the j-th further border of template i: index (Phase + i*Stride + j*Jump) mod W
	LineWidth int
	BatchSize int
	MaxCPU    int
}

type sweepUnit struct {
	Tpl, K     int // template, fragment whose end is aimed at
	Off, At    int // At = end of fragment K + Off (or a template end when K < 0)
	Len        int // sites + barcode
	Barcode    int
	Reverse    bool
	Mis1, Mis2 int
}

func (u sweepUnit) String() string {
	strand := "+"
	if u.Reverse {
		strand = "-"
	}
	where := fmt.Sprintf("end of fragment %d %+d", u.K, u.Off)
	if u.K < 0 {
		where = "template end"
	}
	return fmt.Sprintf("{[%d,%d) %s strand %s barcode %d mismatches %d/%d}", u.At, u.At+u.Len, where, strand, u.Barcode, u.Mis1, u.Mis2)
}

// geometry of the fragmentation the command is documented to do, and the
// offsets (unit start - end of a fragment) of the sweep.
type sweepGeom struct {
	L, T, FragLen, Step, W, Every int
	Offsets                       []int
}

func (c sweepCase) geom() sweepGeom {
	g := sweepGeom{L: c.Par.Max}
	g.T = g.L + len(c.Par.Fwd) + len(c.Par.Rev)
	g.FragLen = 100 * g.L
	g.Step = g.FragLen - g.T
	if c.Narrow {
		// the unit (U symbols) ends within 3 symbols of the end e of the fragment, starts within 3
		// symbols of the start e - T of the next one, or starts within 3 symbols of e
		U := len(c.Par.Fwd) + len(c.Par.Rev) + c.Barcode
		seen := map[int]bool{}
		for _, base := range []int{-g.T, -U, 0} {
			for d := -3; d <= 3; d++ {
				if !seen[base+d] {
					seen[base+d] = true
					g.Offsets = append(g.Offsets, base+d)
				}
			}
		}
		sort.Ints(g.Offsets)
	} else {
		for off := -(2*g.T + 3); off <= g.T+3; off++ {
			g.Offsets = append(g.Offsets, off)
		}
	}
	g.W = len(g.Offsets)
	// units of neighbouring borders must not overlap nor pair with each other
	g.Every = 1
	if g.Step > 0 {
		g.Every = (4*g.T+8+g.L)/g.Step + 1
	}
	return g
}

// instanceRng: as instance() of gen_test.go, driven by a splitmix64 state.
func instanceRng(x *uint64, p primer, nmis int) string {
	rnd := func(n int) int { return int((splitmix(x) >> 33) % uint64(n)) }
	b := make([]byte, len(p))
	for i, set := range p {
		var in []byte
		for j, c := range []byte("acgt") {
			if set&(1<<j) != 0 {
				in = append(in, c)
			}
		}
		b[i] = in[rnd(len(in))]
	}
	if nmis > 0 {
		order := seqInts(len(p))
		for i := len(order) - 1; i > 0; i-- {
			j := rnd(i + 1)
			order[i], order[j] = order[j], order[i]
		}
		for _, i := range order {
			if nmis == 0 {
				break
			}
			var out []byte
			for j, c := range []byte("acgt") {
				if p[i]&(1<<j) == 0 {
					out = append(out, c)
				}
			}
			if len(out) == 0 {
				continue
			}
			b[i] = out[rnd(len(out))]
			nmis--
		}
	}
	return string(b)
}

// build rebuilds the templates and the list of planted units from the case.
func (c sweepCase) build() ([]string, []sweepUnit, error) {
	g := c.geom()
	fwd, err := parsePrimer(c.Par.Fwd)
	if err != nil {
		return nil, nil, err
	}
	rev, err := parsePrimer(c.Par.Rev)
	if err != nil {
		return nil, nil, err
	}
	if g.L < 2 || g.Step <= 0 || c.Stride <= 0 || c.Jump < 0 || c.Phase < 0 || c.Par.Circular || c.Par.Full || c.Par.FwdErr != c.Par.RevErr || c.Barcode < 1 {
		return nil, nil, fmt.Errorf("case outside the domain of the fragment-border sweep")
	}
	alpha := c.Alpha
	if alpha == "" {
		alpha = gen.ACGT
	}
	x := c.Seed
	rnd := func(n int) int { return int((splitmix(&x) >> 33) % uint64(n)) }
	budget := c.Par.FwdErr
	lo := max(c.Par.Min, 1)
	if lo > g.L {
		lo = g.L
	}
	var templates []string
	var units []sweepUnit
	for i := 0; i < g.W; i++ {
		extra := []int{1, 2, g.Step, g.FragLen, 1 + rnd(2*g.FragLen)}[rnd(5)]
		n := 1000*g.L + extra
		b := make([]byte, n)
		for j := range b {
			b[j] = alpha[rnd(len(alpha))]
		}
		plantUnit := func(k, off, at, bl, m1, m2 int, reverse bool) {
			first, second := fwd, rev.rc()
			if reverse {
				first, second = rev, fwd.rc()
			}
			s1 := instanceRng(&x, first, m1)
			bc := make([]byte, bl)
			for j := range bc {
				bc[j] = gen.ACGT[rnd(4)]
			}
			s2 := instanceRng(&x, second, m2)
			unit := s1 + string(bc) + s2
			if at < 0 || at+len(unit) > n {
				return
			}
			copy(b[at:], unit)
			units = append(units, sweepUnit{Tpl: i, K: k, Off: off, At: at, Len: len(unit), Barcode: bl, Reverse: reverse, Mis1: m1, Mis2: m2})
		}
		for j := 0; ; j++ {
			k := j * g.Every
			e := k*g.Step + g.FragLen
			if e+g.T+3+g.T+1+g.L > n {
				break
			}
			idx := (c.Phase + i*c.Stride + j*c.Jump) % g.W
			off := g.Offsets[idx]
			bl := c.Barcode
			m1 := []int{0, 0, 0, budget, min(1, budget)}[rnd(5)]
			m2 := []int{0, 0, 0, budget, min(1, budget)}[rnd(5)]
			if j > 0 {
				bl = []int{g.L, g.L, g.L - 1, lo, g.L + 1, lo + rnd(g.L-lo+1), lo + rnd(g.L-lo+1)}[rnd(7)]
				if rnd(8) == 0 {
					m1 = budget + 1
				}
				if rnd(8) == 0 {
					m2 = budget + 1
				}
			}
			if bl < 1 {
				bl = 1
			}
			plantUnit(k, off, e+off, bl, m1, m2, rnd(2) == 0)
		}
		// template ends: a unit on the very first / very last symbols
		switch rnd(6) {
		case 0:
			plantUnit(-1, 0, rnd(2), c.Barcode, 0, 0, rnd(2) == 0)
		case 1:
			plantUnit(-1, 0, n-(len(fwd)+len(rev)+c.Barcode)-rnd(2), c.Barcode, 0, 0, rnd(2) == 0)
		}
		templates = append(templates, string(b))
	}
	return templates, units, nil
}

// flankAmp: an expected amplicon with flanks and the lengths of its two flanks.
type flankAmp struct {
	amp
	lf, rf int
}

// flankPairs lists the amplicons of a linear template for Ext = D >= 0 (flanks
// clipped at the template ends) with the lengths of their flanks.
func flankPairs(par params, fwd, rev primer, template string) []flankAmp {
	var out []flankAmp
	for pass, t := range []string{template, ref.RevComp(template)} {
		n := len(t)
		direction := "forward"
		if pass == 1 {
			direction = "reverse"
		}
		F := sites(fwd, t, par.FwdErr, false)
		R := sites(rev.rc(), t, par.RevErr, false)
		for _, f := range F {
			for _, r := range R {
				L := r.S - f.E
				if L <= 0 || (par.Min > 0 && L < par.Min) || (par.Max > 0 && L > par.Max) {
					continue
				}
				from, to := max(f.S-par.Ext, 0), min(r.E+par.Ext, n)
				out = append(out, flankAmp{amp{Seq: t[from:to], Direction: direction, FwdErr: f.Err, RevErr: r.Err,
					FwdMatch: t[f.S:f.E], RevMatch: ref.RevComp(t[r.S:r.E])}, f.S - from, to - r.E})
			}
		}
	}
	return out
}

// isCopyOf: got is the expected amplicon with each flank complete or cut short.
func isCopyOf(got amp, want flankAmp) bool {
	if got.Direction != want.Direction || got.FwdMatch != want.FwdMatch || got.RevMatch != want.RevMatch || got.FwdErr != want.FwdErr || got.RevErr != want.RevErr {
		return false
	}
	cut := len(want.Seq) - len(got.Seq)
	if cut < 0 || cut > want.lf+want.rf {
		return false
	}
	for a := max(0, cut-want.rf); a <= min(cut, want.lf); a++ {
		if want.Seq[a:a+len(got.Seq)] == got.Seq {
			return true
		}
	}
	return false
}

func checkSweep(c sweepCase) error {
	templates, units, err := c.build()
	if err != nil {
		return err
	}
	g := c.geom()
	cc := cliCase{Par: c.Par, Fragmented: true, Templates: templates, LineWidth: c.LineWidth, BatchSize: c.BatchSize, MaxCPU: c.MaxCPU}
	got, desc, err := runObipcr(cc)
	if err == errInconclusive {
		evid.Class("timeout_inconclusive", 1)
		return nil
	}
	if err != nil {
		return shorten(err)
	}
	fwd, _ := parsePrimer(c.Par.Fwd)
	rev, _ := parsePrimer(c.Par.Rev)
	where := func(i int) string {
		var us []string
		for _, u := range units {
			if u.Tpl == i {
				us = append(us, u.String())
			}
		}
		return fmt.Sprintf("template s%d (%d symbols; documented fragments: [k*%d, k*%d+%d), the last one extended to the end; planted units %s)",
			i, len(templates[i]), g.Step, g.Step, g.FragLen, strings.Join(us, " "))
	}
	// locate: where the product (priming sites + barcode) of an amplicon lies on template i
	locate := func(i int, a amp, flanked bool) string {
		core := a.Seq
		if !flanked {
			core = a.FwdMatch + a.Seq + ref.RevComp(a.RevMatch)
		}
		t := templates[i]
		var p int
		if a.Direction == "forward" {
			p = strings.Index(t, core)
		} else if p = strings.Index(ref.RevComp(t), core); p >= 0 {
			p = len(t) - p - len(core)
		}
		if p < 0 {
			return "?"
		}
		q := p + len(core)
		k := 0
		if q > g.FragLen {
			k = (q - g.FragLen + g.Step - 1) / g.Step // first documented fragment ending at or after q
		}
		return fmt.Sprintf("[%d,%d) of the template (%d symbols; documented fragment %d = [%d,%d), fragment %d starts at %d)", p, q, q-p, k, k*g.Step, k*g.Step+g.FragLen, k+1, (k+1)*g.Step)
	}
	what := fmt.Sprintf("%s (%d templates of a little more than %d symbols)", desc, len(templates), 1000*g.L)
	if c.Par.Ext <= 0 {
		// exact: the set of reported amplicons = the set the whole templates define
		all := multiset{}
		for i, t := range templates {
			ex := expect(c.Par, t)
			if ex.Err != nil {
				return fmt.Errorf("template %d: %v", i, ex.Err)
			}
			for a := range ex.Required {
				if got[a] == 0 {
					return shorten(fmt.Errorf("%s: the amplicon %v is defined by the primer sites (product at %s) but not reported\n%s\nreported: %s", what, a, locate(i, a, c.Par.Ext == 0), where(i), brief(got)))
				}
			}
			all.add(ex.Required)
		}
		for a := range got {
			if all[a] == 0 {
				return shorten(fmt.Errorf("%s: the amplicon %v is reported but no pair of primer sites of any template defines it\nreported: %s\nexpected: %s", what, a, brief(got), brief(all)))
			}
		}
		return nil
	}
	// flanks may be cut short by a fragment border
	type tag struct {
		Direction, FwdMatch, RevMatch string
		FwdErr, RevErr                int
	}
	tagOf := func(a amp) tag { return tag{a.Direction, a.FwdMatch, a.RevMatch, a.FwdErr, a.RevErr} }
	byTag := map[tag][]amp{}
	for a := range got {
		byTag[tagOf(a)] = append(byTag[tagOf(a)], a)
	}
	matched := map[amp]bool{}
	for i, t := range templates {
		for _, w := range flankPairs(c.Par, fwd, rev, t) {
			found := false
			for _, a := range byTag[tagOf(w.amp)] {
				if isCopyOf(a, w) {
					matched[a] = true
					found = true
				}
			}
			if !found {
				return shorten(fmt.Errorf("%s: the amplicon %v (flanks of %d and %d symbols) is defined by the primer sites (amplicon with its flanks at %s) but is not reported, not even with flanks cut short\n%s\nreported: %s", what, w.amp, w.lf, w.rf, locate(i, w.amp, true), where(i), brief(got)))
			}
		}
	}
	var extra []string
	for a := range got {
		if !matched[a] {
			extra = append(extra, a.String())
		}
	}
	if len(extra) > 0 {
		sort.Strings(extra)
		return shorten(fmt.Errorf("%s: the amplicon %s is reported but is no amplicon (priming sites + barcode + flanks of at most %d symbols) of any template\nreported: %s", what, extra[0], c.Par.Ext, brief(got)))
	}
	return nil
}

func init() {
	evid.Reg("obipcr_fragment_border", checkSweep)
}

func gcd(a, b int) int {
	for b != 0 {
		a, b = b, a%b
	}
	return a
}

func genSweepCase(t *rapid.T, maxBytes int, maxL int) sweepCase {
	var par params
	if rapid.IntRange(0, 5).Draw(t, "wide_primers") == 0 {
		par.Fwd, par.Rev = genWidePrimerPair(t)
	} else {
		par.Fwd, par.Rev = genPrimerPair(t)
	}
	par.FwdErr = rapid.SampledFrom([]int{0, 0, 0, 1, 1, 2}).Draw(t, "budget")
	par.RevErr = par.FwdErr
	narrow := rapid.IntRange(0, 3).Draw(t, "narrow") == 0
	P := len(par.Fwd) + len(par.Rev)
	var L int
	if narrow {
		// at most 21 offsets, hence 21 templates of 1000 x L symbols
		top := max(7, min(maxBytes/21000, 150))
		L = rapid.SampledFrom([]int{7, 10, 20, 30, rapid.IntRange(7, top).Draw(t, "max_narrow_rnd"), top}).Draw(t, "max_narrow")
		L = min(L, top)
	} else {
		L = rapid.IntRange(2, maxL).Draw(t, "max")
		// keep the file below maxBytes: W templates of 1000 x L symbols
		for L > 2 && (3*(L+P)+7)*1000*L > maxBytes {
			L--
		}
	}
	par.Max = L
	par.Min = rapid.SampledFrom([]int{0, 0, 0, 1, L, L - 1, L - 1, rapid.IntRange(1, L).Draw(t, "min_rnd")}).Draw(t, "min")
	par.Ext = rapid.SampledFrom([]int{-1, -1, -1, -1, 0, 1, 5}).Draw(t, "delta")
	if rapid.IntRange(0, 3).Draw(t, "would_be_circular") == 0 {
		// known finding fragmented_circular: -c is never combined with --fragmented
		evid.Excluded("fragmented_circular", 1)
	}
	c := sweepCase{Par: par, Narrow: narrow}
	lo := max(par.Min, 1)
	c.Barcode = rapid.SampledFrom([]int{L, L, L, L, L - 1, L - 1, lo, lo, lo, rapid.IntRange(lo, L).Draw(t, "barcode_rnd")}).Draw(t, "barcode")
	c.Barcode = max(c.Barcode, 1)
	g := c.geom()
	c.Seed = rapid.Uint64().Draw(t, "seed")
	c.Alpha = rapid.SampledFrom([]string{gen.ACGT, gen.ACGT, gen.ACGT, "acg", "ct"}).Draw(t, "alpha")
	var strides []int
	for _, s := range []int{1, 2, 3, 5, 7, 11, 13, 17, 19, 23, 29, 31, 37, 41, 43, 47} {
		if gcd(s, g.W) == 1 {
			strides = append(strides, s)
		}
	}
	c.Stride = rapid.SampledFrom(strides).Draw(t, "stride")
	c.Phase = rapid.IntRange(0, g.W-1).Draw(t, "phase")
	c.Jump = rapid.IntRange(0, g.W-1).Draw(t, "jump")
	c.LineWidth = rapid.SampledFrom([]int{0, 60, 80}).Draw(t, "line_width")
	c.BatchSize = rapid.SampledFrom([]int{0, 0, 1, 5}).Draw(t, "batch_size")
	c.MaxCPU = rapid.SampledFrom([]int{0, 1, 2, 4}).Draw(t, "max_cpu")
	return c
}

// sweepClasses: non-trivial = the units of the first border are amplified
// (barcode within the bounds) and measure exactly --max-length or exactly
// --min-length: every offset of the window is then taken by an amplicon of an
// extreme length.
func sweepClasses(c sweepCase) (bool, []string, uint64) {
	g := c.geom()
	amplified := c.Barcode <= g.L && (c.Par.Min == 0 || c.Barcode >= c.Par.Min)
	cl := []string{"sweep"}
	switch {
	case !amplified:
		cl = append(cl, "sweep:units_below_min_length(nothing_expected)")
	case c.Barcode == g.L && c.Par.Min == g.L:
		cl = append(cl, "sweep:units_of_max_length==min_length")
	case c.Barcode == g.L:
		cl = append(cl, "sweep:units_of_max_length")
	case c.Par.Min > 0 && c.Barcode == c.Par.Min:
		cl = append(cl, "sweep:units_of_min_length")
	case c.Barcode == g.L-1:
		cl = append(cl, "sweep:units_of_max_length-1")
	default:
		cl = append(cl, "sweep:units_of_other_length")
	}
	if c.Par.Ext < 0 {
		cl = append(cl, "sweep:no_delta")
		if amplified && c.Barcode == g.L {
			cl = append(cl, "sweep:units_of_max_length_no_delta")
		}
	} else {
		cl = append(cl, fmt.Sprintf("sweep:delta_%d", c.Par.Ext))
		if amplified && c.Barcode == g.L {
			cl = append(cl, "sweep:units_of_max_length_with_delta")
		}
	}
	cl = append(cl, fmt.Sprintf("sweep:budget_%d", c.Par.FwdErr))
	switch {
	case g.L <= 6:
		cl = append(cl, fmt.Sprintf("sweep:max_length_%d", g.L))
	case g.L <= 12:
		cl = append(cl, "sweep:max_length_7-12")
	case g.L <= 40:
		cl = append(cl, "sweep:max_length_13-40")
	default:
		cl = append(cl, "sweep:max_length_41-150")
	}
	if c.Narrow {
		cl = append(cl, "sweep:window_within_3_of_an_alignment")
	} else {
		cl = append(cl, "sweep:window_every_offset")
	}
	if max(len(c.Par.Fwd), len(c.Par.Rev)) > maxPrimer {
		cl = append(cl, "sweep:primer_longer_than_25")
	}
	if g.Every > 1 {
		cl = append(cl, "sweep:overlap_longer_than_a_fifth_of_the_step")
	}
	if c.Par.Min > 0 {
		cl = append(cl, "sweep:min_length_set")
	}
	nontrivial := amplified && (c.Barcode == g.L || (c.Par.Min > 0 && c.Barcode == c.Par.Min))
	return nontrivial, cl, evid.Hash(fmt.Sprint(c))
}

func TestPropCLIFragmentBorder(t *testing.T) {
	if !run.Have("obipcr") {
		t.Fatal("obipcr was not built by the driver")
	}
	maxBytes, maxL := evid.Pick(700_000, 3_000_000), evid.Pick(6, 12)
	rapid.Check(t, func(rt *rapid.T) {
		c := genSweepCase(rt, maxBytes, maxL)
		nt, cl, key := sweepClasses(c)
		evid.Eval("obipcr_fragment_border", key, nt, c, cl...)
		if err := checkSweep(c); err != nil {
			evid.Fail(rt, "obipcr_fragment_border", c, err)
		}
	})
}
