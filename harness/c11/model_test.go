package c11

// Independent model of the in-silico PCR.  Nothing here calls obitools4.
//
// A primer is a string of IUPAC nucleotide codes (either case).  A primer
// position matches a template symbol iff the symbol is one of a, c, g, t and
// belongs to the set of bases the code stands for (an ambiguity code *in the
// template* matches nothing, see C10).  A primer matches at a template position
// with d errors iff d = number of non-matching positions (Hamming) <= budget.

import (
	"fmt"
	"sort"
	"strings"

	"verifharness/internal/ref"
)

type primer []uint8 // per position: set over A=1, C=2, G=4, T=8

func parsePrimer(s string) (primer, error) {
	if len(s) == 0 {
		return nil, fmt.Errorf("empty primer")
	}
	p := make(primer, len(s))
	for i := 0; i < len(s); i++ {
		p[i] = ref.IUPACSet(s[i])
		if p[i] == 0 || s[i] == 'u' || s[i] == 'U' {
			return nil, fmt.Errorf("primer %q: %q is not an IUPAC nucleotide code", s, s[i])
		}
	}
	return p, nil
}

func complementSet(b uint8) uint8 {
	var r uint8
	if b&1 != 0 {
		r |= 8
	}
	if b&8 != 0 {
		r |= 1
	}
	if b&2 != 0 {
		r |= 4
	}
	if b&4 != 0 {
		r |= 2
	}
	return r
}

// rc is the primer that matches the other strand: positions reversed, sets complemented.
func (p primer) rc() primer {
	out := make(primer, len(p))
	for i, b := range p {
		out[len(p)-1-i] = complementSet(b)
	}
	return out
}

func baseBit(c byte) uint8 {
	switch c {
	case 'a':
		return 1
	case 'c':
		return 2
	case 'g':
		return 4
	case 't':
		return 8
	}
	return 0
}

// site is one primer match: the primer lies on template positions
// S, S+1, ..., E-1 (taken modulo the template length on a circular template,
// where 0 <= S < n and E = S+len(primer) may exceed n).
type site struct{ S, E, Err int }

// sites lists every match of p on t within the budget, by increasing start.
func sites(p primer, t string, budget int, circular bool) []site {
	n, m := len(t), len(p)
	var out []site
	last := n - m
	if circular {
		last = n - 1
	}
	for s := 0; s <= last; s++ {
		d := 0
		for i := 0; i < m && d <= budget; i++ {
			if p[i]&baseBit(t[(s+i)%n]) == 0 {
				d++
			}
		}
		if d <= budget {
			out = append(out, site{s, s + m, d})
		}
	}
	return out
}

// window returns length symbols of t from the 0-based position start on, going
// round a circular template as often as needed.
func window(t string, start, length int) string {
	n := len(t)
	start = ((start % n) + n) % n
	if start+length <= n {
		return t[start : start+length]
	}
	var sb strings.Builder
	for i := 0; i < length; i++ {
		sb.WriteByte(t[(start+i)%n])
	}
	return sb.String()
}

// amp is what the property states about one reported amplicon.
type amp struct {
	Seq       string // the amplicon, oriented forward primer -> reverse primer
	Direction string // "forward": found on the given strand; "reverse": on the other one
	FwdMatch  string // template segment under the forward primer, read as the forward primer reads it
	RevMatch  string // template segment under the reverse primer, read as the reverse primer reads it
	FwdErr    int
	RevErr    int
}

func (a amp) String() string {
	return fmt.Sprintf("{%s %s fwd=%s/%d rev=%s/%d}", a.Direction, a.Seq, a.FwdMatch, a.FwdErr, a.RevMatch, a.RevErr)
}

type params struct {
	Fwd, Rev       string
	FwdErr, RevErr int
	Min, Max       int // barcode length bounds, primers excluded; 0 = no bound
	Ext            int // -1: barcode only; >=0: priming sites + Ext flanking symbols on each side
	Full           bool
	Circular       bool
}

type multiset map[amp]int

func (m multiset) total() int {
	n := 0
	for _, k := range m {
		n += k
	}
	return n
}

func (m multiset) sorted() []string {
	var out []string
	for a, k := range m {
		s := a.String()
		if k > 1 {
			s += fmt.Sprintf("x%d", k)
		}
		out = append(out, s)
	}
	sort.Strings(out)
	return out
}

// expectation for one template.
type expectation struct {
	Required multiset // must be reported, with these multiplicities
	Optional multiset // may be reported (see "Domain decisions": circular pairs whose product is longer than the template)
	Loose    multiset // the optional ones involving a primer longer than the circular template, match strings blanked: what the match string of a site lapping the circle more than once is, is not decided either
	Stats    stats
	Err      error // the case is outside the domain of the check
}

type stats struct {
	fwdSites, revSites              int
	touching, overlapping           int // pairs with barcode length 0 / < 0 (linear), 0 (circular)
	atMin, atMax, belowMin, overMax int
	clippedLeft, clippedRight       int
	dropped                         int // incomplete flanks with Full
	site0, siteEnd                  int
	wrapAmplicon, wrapSite          int
	errAtBudget                     int
	mismatched, reverse, forward    int
	optional                        int
}

// onePass lists the amplicons of the strand given as t: forward-primer sites x
// sites of the reverse-complemented reverse primer downstream of them.
func onePass(par params, fwd, rev primer, t, direction string, ex *expectation) {
	n := len(t)
	if n == 0 {
		return
	}
	F := sites(fwd, t, par.FwdErr, par.Circular)
	R := sites(rev.rc(), t, par.RevErr, par.Circular)
	st := &ex.Stats
	st.fwdSites += len(F)
	st.revSites += len(R)
	for _, f := range F {
		for _, r := range R {
			L := r.S - f.E
			if par.Circular {
				L = ((L % n) + n) % n
			}
			if L == 0 {
				st.touching++
			}
			if L < 0 {
				st.overlapping++
			}
			if L <= 0 {
				continue
			}
			if par.Min > 0 && L == par.Min-1 {
				st.belowMin++
			}
			if par.Max > 0 && L == par.Max+1 {
				st.overMax++
			}
			if par.Min > 0 && L < par.Min {
				continue
			}
			if par.Max > 0 && L > par.Max {
				continue
			}
			span := len(fwd) + L + len(rev)
			a := amp{Direction: direction, FwdErr: f.Err, RevErr: r.Err,
				FwdMatch: window(t, f.S, len(fwd)),
				RevMatch: ref.RevComp(window(t, r.S, len(rev)))}
			optional := false
			switch {
			case par.Ext < 0:
				a.Seq = window(t, f.E, L)
				optional = par.Circular && span > n
			case par.Circular:
				total := span + 2*par.Ext
				if total > n {
					ex.Err = fmt.Errorf("outside the domain: circular template of %d symbols, product with flanks of %d", n, total)
					return
				}
				a.Seq = window(t, f.S-par.Ext, total)
			default:
				from, to := f.S-par.Ext, r.E+par.Ext
				if par.Full {
					if from < 0 || to > n {
						st.dropped++
						continue
					}
				} else {
					if from < 0 {
						from = 0
						st.clippedLeft++
					}
					if to > n {
						to = n
						st.clippedRight++
					}
				}
				a.Seq = t[from:to]
			}
			if optional {
				ex.Optional[a]++
				if len(fwd) > n || len(rev) > n {
					b := a
					b.FwdMatch, b.RevMatch = "", ""
					ex.Loose[b]++
				}
				st.optional++
				continue
			}
			ex.Required[a]++
			if par.Min > 0 && L == par.Min {
				st.atMin++
			}
			if par.Max > 0 && L == par.Max {
				st.atMax++
			}
			if f.S == 0 {
				st.site0++
			}
			if !par.Circular && r.E == n {
				st.siteEnd++
			}
			if par.Circular && (f.E > n || r.E > n) {
				st.wrapSite++
			}
			if par.Circular && r.S < f.E {
				st.wrapAmplicon++
			}
			if f.Err > 0 || r.Err > 0 {
				st.mismatched++
			}
			if (par.FwdErr > 0 && f.Err == par.FwdErr) || (par.RevErr > 0 && r.Err == par.RevErr) {
				st.errAtBudget++
			}
			if direction == "forward" {
				st.forward++
			} else {
				st.reverse++
			}
		}
	}
}

// expect gives the amplicons of one template: those of the strand as given,
// and those of the other strand (the reverse complement read the same way).
func expect(par params, template string) expectation {
	ex := expectation{Required: multiset{}, Optional: multiset{}, Loose: multiset{}}
	fwd, err := parsePrimer(par.Fwd)
	if err != nil {
		ex.Err = err
		return ex
	}
	rev, err := parsePrimer(par.Rev)
	if err != nil {
		ex.Err = err
		return ex
	}
	onePass(par, fwd, rev, template, "forward", &ex)
	if ex.Err == nil {
		onePass(par, fwd, rev, ref.RevComp(template), "reverse", &ex)
	}
	return ex
}

func (m multiset) add(o multiset) {
	for a, k := range o {
		m[a] += k
	}
}

// judge: Required <= got <= Required + Optional, as multisets.
func judge(what string, got multiset, ex expectation) error {
	for a, k := range ex.Required {
		if got[a] < k {
			return fmt.Errorf("%s: the amplicon %v is defined by the primer sites %d time(s) but reported %d time(s)\nreported: %s\nexpected: %s\nundecided: %s",
				what, a, k, got[a], brief(got), brief(ex.Required), brief(ex.Optional))
		}
	}
	loose := multiset{}
	for a, k := range got {
		if k > ex.Required[a]+ex.Optional[a] {
			b := a
			b.FwdMatch, b.RevMatch = "", ""
			if loose[b] += k - ex.Required[a] - ex.Optional[a]; loose[b] <= ex.Loose[b] {
				continue
			}
			return fmt.Errorf("%s: the amplicon %v is reported %d time(s) but the primer sites define it %d time(s)\nreported: %s\nexpected: %s\nundecided: %s",
				what, a, k, ex.Required[a]+ex.Optional[a], brief(got), brief(ex.Required), brief(ex.Optional))
		}
	}
	return nil
}

func flipDirection(m multiset) multiset {
	out := multiset{}
	for a, k := range m {
		if a.Direction == "forward" {
			a.Direction = "reverse"
		} else if a.Direction == "reverse" {
			a.Direction = "forward"
		}
		out[a] += k
	}
	return out
}

func equalMultiset(a, b multiset) bool {
	if len(a) != len(b) {
		return false
	}
	for k, v := range a {
		if b[k] != v {
			return false
		}
	}
	return true
}

func equalSet(a, b multiset) bool {
	if len(a) != len(b) {
		return false
	}
	for k := range a {
		if _, ok := b[k]; !ok {
			return false
		}
	}
	return true
}

func rotate(t string, k int) string {
	if len(t) == 0 {
		return t
	}
	k = ((k % len(t)) + len(t)) % len(t)
	return t[k:] + t[:k]
}

// minus is the multiset difference a - b.
func minus(a, b multiset) multiset {
	out := multiset{}
	for k, v := range a {
		if v > b[k] {
			out[k] = v - b[k]
		}
	}
	return out
}

// setMinus lists the elements of a absent from b (multiplicities ignored).
func setMinus(a, b multiset) multiset {
	out := multiset{}
	for k := range a {
		if _, ok := b[k]; !ok {
			out[k] = 1
		}
	}
	return out
}

// brief prints at most 12 elements of a multiset.
func brief(m multiset) string {
	s := m.sorted()
	if len(s) > 12 {
		return fmt.Sprintf("%v ... (%d distinct, %d in all)", s[:12], len(s), m.total())
	}
	return fmt.Sprint(s)
}
