package c11

// Command tier: the real obipcr binary on generated FASTA files, including
// --fragmented with a small --max-length so that obiiter.IFragments cuts the
// templates into overlapping fragments before the search.

import (
	"encoding/json"
	"errors"
	"fmt"
	"os"
	"path/filepath"
	"strconv"
	"strings"
	"testing"

	"pgregory.net/rapid"

	"verifharness/internal/evid"
	"verifharness/internal/gen"
	"verifharness/internal/ref"
	"verifharness/internal/run"
)

type cliCase struct {
	Par        params // FwdErr == RevErr (one -e for both primers); Max >= 1 (-L is mandatory)
	Fragmented bool
	Templates  []string
	LineWidth  int // FASTA line width of the input file (0: one line)
	BatchSize  int // 0: default
	MaxCPU     int // 0: default
}

var errInconclusive = errors.New("inconclusive")

func (c cliCase) args(file string) []string {
	a := []string{"--forward", c.Par.Fwd, "--reverse", c.Par.Rev, "-L", strconv.Itoa(c.Par.Max)}
	if c.Par.FwdErr > 0 {
		a = append(a, "-e", strconv.Itoa(c.Par.FwdErr))
	}
	if c.Par.Min > 0 {
		a = append(a, "-l", strconv.Itoa(c.Par.Min))
	}
	if c.Par.Ext >= 0 {
		a = append(a, "--delta", strconv.Itoa(c.Par.Ext))
	}
	if c.Par.Full {
		a = append(a, "--only-complete-flanking")
	}
	if c.Par.Circular {
		a = append(a, "-c")
	}
	if c.Fragmented {
		a = append(a, "--fragmented")
	}
	if c.BatchSize > 0 {
		a = append(a, "--batch-size", strconv.Itoa(c.BatchSize))
	}
	if c.MaxCPU > 0 {
		a = append(a, "--max-cpu", strconv.Itoa(c.MaxCPU))
	}
	return append(a, "--no-progressbar", file)
}

func fasta(c cliCase) []byte {
	var sb strings.Builder
	for i, t := range c.Templates {
		fmt.Fprintf(&sb, ">s%d\n", i)
		if c.LineWidth <= 0 {
			sb.WriteString(t)
			sb.WriteByte('\n')
			continue
		}
		for j := 0; j < len(t); j += c.LineWidth {
			sb.WriteString(t[j:min(len(t), j+c.LineWidth)])
			sb.WriteByte('\n')
		}
	}
	return []byte(sb.String())
}

func tail(b []byte, n int) string {
	if len(b) > n {
		b = b[len(b)-n:]
	}
	return string(b)
}

// parseAmplicons reads the FASTA output of obipcr with the harness' own parser.
func parseAmplicons(out []byte) (multiset, error) {
	recs, err := ref.ParseFasta(out)
	if err != nil {
		return nil, err
	}
	m := multiset{}
	for _, r := range recs {
		js, _, ok := ref.SplitJSONTitle(r.Title)
		if !ok {
			return nil, fmt.Errorf("record %q: the title %q does not start with a JSON object", r.ID, r.Title)
		}
		var an map[string]any
		if err := json.Unmarshal([]byte(js), &an); err != nil {
			return nil, fmt.Errorf("record %q: annotations %q: %v", r.ID, js, err)
		}
		a := amp{Seq: r.Seq}
		str := func(k string) (string, error) {
			s, ok := an[k].(string)
			if !ok {
				return "", fmt.Errorf("record %q: annotation %s missing or not a string in %s", r.ID, k, js)
			}
			return s, nil
		}
		num := func(k string) (int, error) {
			f, ok := an[k].(float64)
			if !ok || f != float64(int(f)) {
				return 0, fmt.Errorf("record %q: annotation %s missing or not an integer in %s", r.ID, k, js)
			}
			return int(f), nil
		}
		if a.Direction, err = str("direction"); err != nil {
			return nil, err
		}
		if a.FwdMatch, err = str("forward_match"); err != nil {
			return nil, err
		}
		if a.RevMatch, err = str("reverse_match"); err != nil {
			return nil, err
		}
		if a.FwdErr, err = num("forward_error"); err != nil {
			return nil, err
		}
		if a.RevErr, err = num("reverse_error"); err != nil {
			return nil, err
		}
		m[a]++
	}
	return m, nil
}

func runObipcr(c cliCase) (multiset, string, error) {
	dir, err := os.MkdirTemp(run.WorkDir(), "c11cli")
	if err != nil {
		return nil, "", err
	}
	defer os.RemoveAll(dir)
	file := filepath.Join(dir, "templates.fasta")
	if err := os.WriteFile(file, fasta(c), 0o644); err != nil {
		return nil, "", err
	}
	args := c.args(file)
	desc := "obipcr " + strings.Join(args[:len(args)-1], " ") + " <templates.fasta>"
	res := run.Cmd(run.Opt{}, "obipcr", args...)
	if res.Inconclusive() {
		return nil, desc, errInconclusive
	}
	if res.Exit != 0 {
		return nil, desc, fmt.Errorf("%s: exit status %d\nstderr: %s", desc, res.Exit, tail(res.Stderr, 1500))
	}
	got, err := parseAmplicons(res.Stdout)
	if err != nil {
		return nil, desc, fmt.Errorf("%s: output not readable: %v", desc, err)
	}
	return got, desc, nil
}

// checkCLI: the amplicons written by obipcr are those of the model.  Without
// --fragmented they are compared as multisets; with it as sets (an amplicon
// lying in the overlap of two fragments is legitimately found in both).
func checkCLI(c cliCase) error {
	if c.Par.FwdErr != c.Par.RevErr || c.Par.Max < 1 {
		return fmt.Errorf("case outside the command's domain: one error budget for both primers, -L >= 1")
	}
	if c.Fragmented && (c.Par.Circular || c.Par.Ext >= 0) {
		return fmt.Errorf("case outside the domain: --fragmented with -c or --delta")
	}
	all := expectation{Required: multiset{}, Optional: multiset{}, Loose: multiset{}}
	for i, t := range c.Templates {
		ex := expect(c.Par, t)
		if ex.Err != nil {
			return fmt.Errorf("template %d: %v", i, ex.Err)
		}
		all.Required.add(ex.Required)
		all.Optional.add(ex.Optional)
		all.Loose.add(ex.Loose)
	}
	got, desc, err := runObipcr(c)
	if err == errInconclusive {
		evid.Class("timeout_inconclusive", 1)
		return nil
	}
	if err != nil {
		return err
	}
	what := fmt.Sprintf("%s with templates %s", desc, briefTemplates(c.Templates))
	if !c.Fragmented {
		return judge(what, got, all)
	}
	for a := range all.Required {
		if got[a] == 0 {
			return fmt.Errorf("%s: the amplicon %v is defined by the primer sites but not reported\nreported: %s\nexpected: %s", what, a, brief(got), brief(all.Required))
		}
	}
	for a := range got {
		if all.Required[a] == 0 {
			return fmt.Errorf("%s: the amplicon %v is reported but no pair of primer sites defines it\nreported: %s\nexpected: %s", what, a, brief(got), brief(all.Required))
		}
	}
	return nil
}

func briefTemplates(ts []string) string {
	var out []string
	for _, t := range ts {
		if len(t) > 400 {
			out = append(out, fmt.Sprintf("%q...(%d symbols)", t[:60], len(t)))
		} else {
			out = append(out, strconv.Quote(t))
		}
	}
	return "[" + strings.Join(out, " ") + "]"
}

// ------------------------------------------------------------------ generators

func genCLICase(t *rapid.T) cliCase {
	circular := rapid.IntRange(0, 3).Draw(t, "circular") == 0
	par := genParams(t, circular)
	par.RevErr = par.FwdErr
	if par.Max == 0 {
		par.Max = rapid.SampledFrom([]int{1, 10, 30, 100, 1000}).Draw(t, "cli_max")
	}
	fwd, _ := parsePrimer(par.Fwd)
	rev, _ := parsePrimer(par.Rev)
	c := cliCase{Par: par}
	g := genCtx{par, fwd, rev}
	n := rapid.SampledFrom([]int{1, 2, 3, 5, 12, 25}).Draw(t, "n_templates")
	for i := 0; i < n; i++ {
		tpl := genTemplate(t, g, rapid.SampledFrom([]int{3, 10, 40, 150}).Draw(t, "max_background"))
		if circular {
			if need := minCircularLen(par, fwd, rev); len(tpl) < need {
				tpl += gen.Seq(t, "circular_pad", need-len(tpl), gen.ACGT)
			}
			tpl = rotate(tpl, rapid.IntRange(0, max(len(tpl)-1, 0)).Draw(t, "junction"))
		}
		if len(tpl) == 0 {
			// an empty FASTA record is the readers' business (C01)
			tpl = gen.Seq(t, "nonempty", 1, gen.ACGT)
		}
		c.Templates = append(c.Templates, tpl)
	}
	c.LineWidth = rapid.SampledFrom([]int{0, 0, 60, 7}).Draw(t, "line_width")
	c.BatchSize = rapid.SampledFrom([]int{0, 0, 1, 2, 5}).Draw(t, "batch_size")
	c.MaxCPU = rapid.SampledFrom([]int{0, 1, 2, 4}).Draw(t, "max_cpu")
	return c
}

// genFragmentedCase: -L small, one or two templates longer than 1000 x L (the
// threshold above which CLIPCR fragments), priming-site pairs planted around
// the fragment borders (fragment length 100 x L, overlap of the order of
// L + the primers), a few short templates that are not fragmented.
func genFragmentedCase(t *rapid.T) cliCase {
	var par params
	par.Fwd, par.Rev = genPrimerPair(t)
	par.FwdErr = rapid.SampledFrom([]int{0, 0, 0, 1, 1, 2}).Draw(t, "budget")
	par.RevErr = par.FwdErr
	par.Max = rapid.IntRange(2, 8).Draw(t, "max")
	par.Min = rapid.SampledFrom([]int{0, 0, 1, par.Max, par.Max - 1}).Draw(t, "min")
	par.Ext = -1
	if rapid.IntRange(0, 3).Draw(t, "would_be_circular") == 0 {
		// known finding fragmented_circular: -c is never combined with --fragmented
		evid.Excluded("fragmented_circular", 1)
	}
	fwd, _ := parsePrimer(par.Fwd)
	rev, _ := parsePrimer(par.Rev)
	c := cliCase{Par: par, Fragmented: true}
	g := genCtx{par, fwd, rev}
	L, pf, pr := par.Max, len(fwd), len(rev)
	fragLen := 100 * L
	// candidate steps between fragment starts: the overlap is "of the order of"
	// the longest product; both the historical and the full-product overlap are aimed at
	steps := []int{fragLen - (L + max(pf, pr) + min(pf, pr)/2), fragLen - (L + pf + pr)}
	nlong := rapid.SampledFrom([]int{1, 1, 2}).Draw(t, "n_long")
	for i := 0; i < nlong; i++ {
		n := 1000*L + rapid.SampledFrom([]int{1, 2, fragLen, rapid.IntRange(1, 3*fragLen).Draw(t, "extra_rnd")}).Draw(t, "extra")
		alpha := rapid.SampledFrom([]string{gen.ACGT, gen.ACGT, "ct", "acg"}).Draw(t, "long_alpha")
		b := []byte(gen.Seq(t, "long_background", n, alpha))
		nunits := rapid.IntRange(1, 12).Draw(t, "n_units")
		for u := 0; u < nunits; u++ {
			reverse := rapid.Bool().Draw(t, "unit_reverse")
			first, second := fwd, rev.rc()
			if reverse {
				first, second = rev, fwd.rc()
			}
			lo := max(par.Min, 1)
			bl := rapid.SampledFrom([]int{L, L, L, lo, L + 1, rapid.IntRange(lo, L).Draw(t, "barcode_rnd")}).Draw(t, "barcode_len")
			nm := func(label string) int {
				return rapid.SampledFrom([]int{0, 0, 0, par.FwdErr, par.FwdErr, par.FwdErr + 1}).Draw(t, label)
			}
			unit := instance(t, "unit_first", first, nm("mis_first")) + gen.Seq(t, "barcode", bl, gen.ACGT) + instance(t, "unit_second", second, nm("mis_second"))
			var at int
			if rapid.IntRange(0, 9).Draw(t, "unit_anywhere") < 2 {
				at = rapid.IntRange(0, n-len(unit)).Draw(t, "unit_at")
			} else {
				step := rapid.SampledFrom(steps).Draw(t, "step")
				k := rapid.IntRange(0, n/step).Draw(t, "fragment")
				border := k * step // a fragment starts here
				if rapid.Bool().Draw(t, "border_end") {
					border += fragLen // a fragment ends here
				}
				at = border - rapid.IntRange(-2, len(unit)+2).Draw(t, "border_offset")
			}
			at = max(0, min(at, n-len(unit)))
			copy(b[at:], unit)
		}
		c.Templates = append(c.Templates, string(b))
	}
	for i := rapid.IntRange(0, 3).Draw(t, "n_short"); i > 0; i-- {
		tpl := genTemplate(t, g, 40)
		if len(tpl) == 0 {
			tpl = "a"
		}
		pos := rapid.IntRange(0, len(c.Templates)).Draw(t, "short_pos")
		c.Templates = append(c.Templates[:pos], append([]string{tpl}, c.Templates[pos:]...)...)
	}
	c.LineWidth = rapid.SampledFrom([]int{0, 60, 80}).Draw(t, "line_width")
	c.MaxCPU = rapid.SampledFrom([]int{0, 1, 2, 4}).Draw(t, "max_cpu")
	return c
}

func cliClasses(c cliCase) (bool, []string, uint64) {
	pc := pcrCase{Par: c.Par, Templates: c.Templates}
	nt, cl, key := describe(pc)
	out := []string{"cli"}
	for _, s := range cl {
		out = append(out, "cli:"+s)
	}
	if c.Fragmented {
		out = append(out, "cli:fragmented")
	}
	if c.Par.Circular {
		out = append(out, "cli:circular")
	}
	return nt, out, evid.Hash(key, c.Fragmented, c.LineWidth, c.BatchSize, c.MaxCPU)
}

func TestPropCLI(t *testing.T) {
	if !run.Have("obipcr") {
		t.Fatal("obipcr was not built by the driver")
	}
	rapid.Check(t, func(rt *rapid.T) {
		c := genCLICase(rt)
		nt, cl, key := cliClasses(c)
		evid.Eval("obipcr", key, nt, c, cl...)
		if err := checkCLI(c); err != nil {
			evid.Fail(rt, "obipcr", c, err)
		}
	})
}

func TestPropCLIFragmented(t *testing.T) {
	if !run.Have("obipcr") {
		t.Fatal("obipcr was not built by the driver")
	}
	rapid.Check(t, func(rt *rapid.T) {
		c := genFragmentedCase(rt)
		nt, cl, key := cliClasses(c)
		evid.Eval("obipcr_fragmented", key, nt, nil, cl...)
		if err := checkCLI(c); err != nil {
			evid.Fail(rt, "obipcr_fragmented", c, err)
		}
	})
}
