package c11

import (
	"strings"
	"testing"

	"verifharness/internal/evid"
	"verifharness/internal/run"
)

// TestKnownFindings runs the shape recorded as a known finding against the tree
// under test and records in the evidence whether it still reproduces.  It never
// fails: the shape is excluded from the generated checks.
//
// fragmented_circular: obipcr -c --fragmented searches every fragment of a long
// template as if the fragment itself were circular; an amplicon is reported
// between a forward site at the end of a fragment and a reverse site at the
// beginning of the same fragment.
func TestKnownFindings(t *testing.T) {
	if !run.Have("obipcr") {
		t.Fatal("obipcr was not built by the driver")
	}
	const L, fragLen = 10, 1000
	n := 1000*L + 1
	b := []byte(strings.Repeat("tc", n/2+1)[:n])
	start := fragLen - (L + 8 + 8)          // the second fragment starts here (overlap = L + both primers)
	copy(b[start+2:], "taggatcc")           // site of the reverse-complemented reverse primer
	copy(b[start+fragLen-3-8:], "acgttgca") // site of the forward primer, 3 symbols before the end of the fragment
	c := cliCase{Par: params{Fwd: "ACGTTGCA", Rev: "GGATCCTA", Max: L, Ext: -1, Circular: true}, Fragmented: true, Templates: []string{string(b)}}
	got, desc, err := runObipcr(c)
	if err != nil {
		evid.Class("finding_inconclusive:fragmented_circular", 1)
		t.Logf("%s: %v", desc, err)
		return
	}
	ex := expect(c.Par, c.Templates[0])
	if len(got) > 0 && ex.Required.total() == 0 {
		evid.Class("finding_reproduced:fragmented_circular", 1)
	} else {
		evid.Class("finding_not_reproduced:fragmented_circular", 1)
		t.Logf("known finding fragmented_circular does not reproduce any more: %s reports %v", desc, got.sorted())
	}
}
