package c11

import (
	"strings"

	"pgregory.net/rapid"

	"verifharness/internal/gen"
	"verifharness/internal/ref"
)

const (
	minPrimer = 8
	maxPrimer = 25
)

var setLetters = func() map[uint8][]byte {
	m := map[uint8][]byte{}
	for i := 0; i < len(ref.IUPACLetters); i++ {
		l := ref.IUPACLetters[i]
		m[ref.IUPACSet(l)] = append(m[ref.IUPACSet(l)], l)
	}
	return m
}()

// genPrimer draws a primer of n IUPAC letters: over `alpha`, each position
// replaced by an ambiguity code with probability ambRate %.
func genPrimer(t *rapid.T, label string, n int, alpha string, ambRate int) string {
	b := []byte(gen.Seq(t, label, n, alpha))
	if ambRate > 0 {
		r := rapid.SliceOfN(rapid.IntRange(0, 99), n, n).Draw(t, label+"_amb")
		for i := range b {
			if r[i] < ambRate {
				b[i] = gen.IUPAC[4+rapid.IntRange(0, 10).Draw(t, label+"_ambsym")]
			}
		}
	}
	return string(b)
}

func genPrimerPair(t *rapid.T) (fwd, rev string) {
	nf := gen.Len(t, "fwd_len", minPrimer, maxPrimer)
	nr := gen.Len(t, "rev_len", minPrimer, maxPrimer)
	if rapid.IntRange(0, 7).Draw(t, "same_len") == 0 {
		nr = nf
	}
	alpha := rapid.SampledFrom([]string{gen.ACGT, gen.ACGT, gen.ACGT, gen.ACGT, "ac", "at", "a"}).Draw(t, "primer_alpha")
	amb := rapid.SampledFrom([]int{0, 0, 0, 10, 30}).Draw(t, "primer_amb_rate")
	fwd = genPrimer(t, "fwd", nf, alpha, amb)
	switch rapid.IntRange(0, 11).Draw(t, "rev_kind") {
	case 0: // the same primer on both sides
		rev = fwd
	case 1: // the reverse primer is the reverse complement of the forward one: every site serves both
		rev = ref.RevComp(fwd)
	default:
		rev = genPrimer(t, "rev", nr, alpha, amb)
	}
	switch rapid.IntRange(0, 3).Draw(t, "primer_case") {
	case 0:
	default:
		fwd, rev = strings.ToUpper(fwd), strings.ToUpper(rev)
	}
	return
}

// instance writes a sequence the primer p matches exactly, then spoils nmis
// positions (those that can be spoiled: a position written N accepts every base).
func instance(t *rapid.T, label string, p primer, nmis int) string {
	n := len(p)
	pick := rapid.SliceOfN(rapid.IntRange(0, 11), n, n).Draw(t, label+"_pick")
	b := make([]byte, n)
	for i, set := range p {
		var in []byte
		for j, c := range []byte("acgt") {
			if set&(1<<j) != 0 {
				in = append(in, c)
			}
		}
		b[i] = in[pick[i]%len(in)]
	}
	if nmis > 0 {
		pos := rapid.Permutation(seqInts(n)).Draw(t, label+"_mispos")
		for _, i := range pos {
			if nmis == 0 {
				break
			}
			var out []byte
			for j, c := range []byte("acgt") {
				if p[i]&(1<<j) == 0 {
					out = append(out, c)
				}
			}
			if len(out) == 0 {
				continue
			}
			b[i] = out[rapid.IntRange(0, len(out)-1).Draw(t, label+"_misbase")]
			nmis--
		}
	}
	return string(b)
}

func seqInts(n int) []int {
	s := make([]int, n)
	for i := range s {
		s[i] = i
	}
	return s
}

type genCtx struct {
	par      params
	fwd, rev primer
}

// genTemplate assembles one template: random background, 0..5 planted priming
// sites (kinds: forward primer, reverse-complemented reverse primer, reverse
// primer, reverse-complemented forward primer) separated by gaps drawn around
// 0 (touching / overlapping sites) and around the min/max bounds, lead and tail
// drawn around the flank length (sites at position 0 / at the very end).
func genTemplate(t *rapid.T, g genCtx, maxBackground int) string {
	par := g.par
	bgAlpha := rapid.SampledFrom([]string{gen.ACGT, gen.ACGT, gen.ACGT, gen.ACGT, "ac", "at", "a"}).Draw(t, "bg_alpha")
	if rapid.IntRange(0, 11).Draw(t, "plain_random") == 0 {
		// no planted site; includes the empty template and templates shorter than the primers
		return gen.Seq(t, "random_template", gen.Len(t, "random_len", 0, 60, len(g.fwd), len(g.rev)), bgAlpha)
	}
	edge := func(label string) int {
		c := []int{0, 0, 0, 1, 2, rapid.IntRange(0, maxBackground).Draw(t, label+"_rnd")}
		if par.Ext >= 0 {
			c = append(c, par.Ext, par.Ext+1, max(par.Ext-1, 0), par.Ext, par.Ext+1, max(par.Ext-1, 0))
		}
		return rapid.SampledFrom(c).Draw(t, label)
	}
	gap := func(label string) int {
		c := []int{-3, -1, 0, 0, 1, 2, rapid.IntRange(1, 80).Draw(t, label+"_rnd"), rapid.IntRange(1, 30).Draw(t, label+"_rnd2")}
		if par.Min > 0 {
			c = append(c, par.Min-1, par.Min, par.Min, par.Min+1)
		}
		if par.Max > 0 {
			c = append(c, par.Max-1, par.Max, par.Max, par.Max+1)
			if par.Min > 0 && par.Min <= par.Max {
				c = append(c, rapid.IntRange(par.Min, par.Max).Draw(t, label+"_in"), rapid.IntRange(par.Min, par.Max).Draw(t, label+"_in2"))
			}
		}
		return rapid.SampledFrom(c).Draw(t, label)
	}
	type planted struct {
		at  int
		seq string
	}
	var plan []planted
	cursor := edge("lead")
	nsites := rapid.SampledFrom([]int{1, 2, 2, 2, 2, 3, 4, 5}).Draw(t, "nsites")
	prev := -1
	for i := 0; i < nsites; i++ {
		kind := rapid.SampledFrom([]int{0, 0, 0, 1, 2, 2, 2, 3}).Draw(t, "site_kind")
		paired := false
		if rapid.IntRange(0, 9).Draw(t, "site_paired") < 8 {
			switch prev {
			case 0:
				kind, paired = 1, true
			case 2:
				kind, paired = 3, true
			}
		}
		var p primer
		budget := par.FwdErr
		switch kind {
		case 0:
			p = g.fwd
		case 1:
			p, budget = g.rev.rc(), par.RevErr
		case 2:
			p, budget = g.rev, par.RevErr
		default:
			p = g.fwd.rc()
		}
		nmis := rapid.SampledFrom([]int{0, 0, 0, 0, min(1, budget), budget, budget, budget, max(budget-1, 0), budget + 1}).Draw(t, "site_mismatches")
		s := instance(t, "site", p, nmis)
		if i > 0 {
			if paired && rapid.IntRange(0, 9).Draw(t, "gap_good") < 5 {
				// a barcode length the bounds accept
				lo, hi := max(par.Min, 1), par.Max
				if hi == 0 {
					hi = lo + 60
				}
				if hi < lo {
					hi = lo
				}
				cursor += rapid.IntRange(lo, hi).Draw(t, "gap_accepted")
			} else {
				cursor += gap("gap")
			}
			if cursor < 0 {
				cursor = 0
			}
		}
		plan = append(plan, planted{cursor, s})
		cursor += len(s)
		prev = kind
	}
	total := cursor + edge("tail")
	for _, p := range plan {
		total = max(total, p.at+len(p.seq))
	}
	b := []byte(gen.Seq(t, "background", total, bgAlpha))
	for _, p := range plan {
		copy(b[p.at:], p.seq)
	}
	if rapid.IntRange(0, 7).Draw(t, "tmpl_ambiguity") == 0 && len(b) > 0 {
		k := rapid.IntRange(1, 1+len(b)/20).Draw(t, "n_amb")
		for i := 0; i < k; i++ {
			b[rapid.IntRange(0, len(b)-1).Draw(t, "amb_pos")] = gen.IUPAC[4+rapid.IntRange(0, 10).Draw(t, "amb_sym")]
		}
	}
	return string(b)
}

// minCircularLen: what a circular template must at least measure to stay inside
// the domain when flanks are requested (see "Domain decisions").
func minCircularLen(par params, fwd, rev primer) int {
	if par.Ext >= 0 {
		return par.Max + len(fwd) + len(rev) + 2*par.Ext
	}
	return 0
}

func genParams(t *rapid.T, circular bool) params {
	fwd, rev := genPrimerPair(t)
	return genParamsFor(t, circular, fwd, rev)
}

// genParamsFor draws everything but the primers (which the caller drew first).
func genParamsFor(t *rapid.T, circular bool, fwdPrimer, revPrimer string) params {
	var par params
	par.Fwd, par.Rev = fwdPrimer, revPrimer
	par.FwdErr = rapid.SampledFrom([]int{0, 0, 1, 1, 2, 3}).Draw(t, "fwd_budget")
	if rapid.IntRange(0, 2).Draw(t, "same_budget") > 0 {
		par.RevErr = par.FwdErr
	} else {
		par.RevErr = rapid.SampledFrom([]int{0, 1, 2, 3}).Draw(t, "rev_budget")
	}
	par.Min = rapid.SampledFrom([]int{0, 0, 1, 2, 5, 10, 20}).Draw(t, "min")
	switch rapid.IntRange(0, 5).Draw(t, "max_kind") {
	case 0:
		par.Max = 0
	case 1:
		par.Max = max(par.Min, 1)
	case 2:
		par.Max = par.Min + rapid.IntRange(1, 10).Draw(t, "max_delta")
	case 3:
		par.Max = rapid.IntRange(1, 30).Draw(t, "max_small") // may be below Min: nothing can be amplified
	default:
		par.Max = rapid.SampledFrom([]int{30, 60, 100}).Draw(t, "max")
	}
	par.Ext = rapid.SampledFrom([]int{-1, -1, -1, 0, 0, 1, 5, 5, 20}).Draw(t, "extension")
	par.Full = par.Ext >= 0 && rapid.IntRange(0, 2).Draw(t, "full") == 0
	if rapid.IntRange(0, 19).Draw(t, "full_without_ext") == 0 {
		par.Full = true
	}
	par.Circular = circular
	if circular && par.Ext >= 0 && par.Max == 0 {
		// flanks on a circular template: the product must fit the template (domain decision)
		par.Max = rapid.SampledFrom([]int{10, 30, 60}).Draw(t, "max_circular")
	}
	return par
}

func genCase(t *rapid.T, circular bool) pcrCase {
	par := genParams(t, circular)
	fwd, _ := parsePrimer(par.Fwd)
	rev, _ := parsePrimer(par.Rev)
	g := genCtx{par, fwd, rev}
	nb := rapid.SampledFrom([]int{1, 1, 2, 3, 4, 6}).Draw(t, "batch")
	c := pcrCase{Par: par}
	for i := 0; i < nb; i++ {
		maxBg := rapid.SampledFrom([]int{3, 10, 40, 40, 150}).Draw(t, "max_background")
		tpl := genTemplate(t, g, maxBg)
		if i > 0 {
			switch rapid.IntRange(0, 9).Draw(t, "tmpl_related") {
			case 0:
				tpl = c.Templates[i-1]
			case 1:
				tpl = ref.RevComp(c.Templates[i-1])
			}
		}
		rot := 0
		if circular {
			if need := minCircularLen(par, fwd, rev); len(tpl) < need {
				tpl += gen.Seq(t, "circular_pad", need-len(tpl), gen.ACGT)
			}
			if n := len(tpl); n > 0 {
				// move the junction: into a priming site, into the barcode, anywhere
				k := rapid.SampledFrom([]int{0, 1, 3, n - 1, n - 3, rapid.IntRange(0, n-1).Draw(t, "junction_rnd"), rapid.IntRange(0, min(n-1, 60)).Draw(t, "junction_near")}).Draw(t, "junction")
				tpl = rotate(tpl, k)
				rot = rapid.SampledFrom([]int{1, n - 1, rapid.IntRange(0, n-1).Draw(t, "rot_rnd"), rapid.IntRange(0, min(n-1, 40)).Draw(t, "rot_near"), ((n-k)%n + n) % n}).Draw(t, "rot")
			}
		}
		c.Templates = append(c.Templates, tpl)
		c.Rot = append(c.Rot, rot)
	}
	return c
}
