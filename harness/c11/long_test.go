package c11

// Long templates and long amplicons.
//
// The statement quantifies over *all* templates; the generators of gen_test.go
// stay below ~400 symbols so that the brute-force model is cheap on tens of
// thousands of cases.  Here templates measure several kb (up to ~1.5 Mb with
// --fragmented) and the amplicons 1000..5000 symbols, with barcode / cut-out
// lengths drawn around 1024 (the largest slice the obiseq slice pool serves:
// Subsequence, which cuts every amplicon, changes its allocation path there),
// on both strands, several overlapping / nested amplicons per template (two
// start sites before one end site, one start site before two end sites), with
// flanks, linear and circular, alone (PCRSim), in a batch through one recycled C
// buffer (PCRSlice, a short template between two long ones) and through the
// obipcr command, also with --fragmented and -L > 1024.
//
// A long template is described compactly: length, seed and alphabet of a
// pseudo-random background (splitmix64, rebuilt inside the check) + the list of
// planted priming sites (position, string) + reverse-complement flag + rotation.
// The oracles are those of checks_test.go / cli_test.go, unchanged.

import (
	"fmt"
	"regexp"
	"testing"

	"pgregory.net/rapid"

	"verifharness/internal/evid"
	"verifharness/internal/gen"
	"verifharness/internal/ref"
	"verifharness/internal/run"
)

// poolLimit: the largest slice served by the slice pool of obiseq (GetSlice);
// amplicons are cut by Subsequence -> CopySlice, lengths are aimed around it.
const poolLimit = 1024

type plant struct {
	At  int    `json:"at"`
	Seq string `json:"seq"`
}

// longTpl is the compact description of one template.
type longTpl struct {
	N      int     `json:"n"`              // length of the background
	Seed   uint64  `json:"seed"`           // seed of the background
	Alpha  string  `json:"alpha"`          // alphabet of the background
	Plants []plant `json:"plants"`         // written over the background, in this order
	RC     bool    `json:"rc,omitempty"`   // then reverse-complemented
	Rot    int     `json:"rot,omitempty"`  // then rotated (moves the junction of a circular template)
	Lit    string  `json:"lit,omitempty"`  // a short literal template instead of all the above
	Note   string  `json:"note,omitempty"` // how the generator made it (not used by the check)
}

func splitmix(x *uint64) uint64 {
	*x += 0x9e3779b97f4a7c15
	z := *x
	z = (z ^ (z >> 30)) * 0xbf58476d1ce4e5b9
	z = (z ^ (z >> 27)) * 0x94d049bb133111eb
	return z ^ (z >> 31)
}

func (l longTpl) build() string {
	if l.Lit != "" || l.N <= 0 {
		return l.Lit
	}
	alpha := l.Alpha
	if alpha == "" {
		alpha = gen.ACGT
	}
	b := make([]byte, l.N)
	x := l.Seed
	for i := range b {
		b[i] = alpha[int((splitmix(&x)>>33)%uint64(len(alpha)))]
	}
	for _, p := range l.Plants {
		if p.At >= 0 && p.At < len(b) {
			copy(b[p.At:], p.Seq)
		}
	}
	s := string(b)
	if l.RC {
		s = ref.RevComp(s)
	}
	if l.Rot != 0 {
		s = rotate(s, l.Rot)
	}
	return s
}

type longCase struct {
	Par      params
	Tpl      []longTpl
	RotCheck []int // rotation offsets of the rotation check (circular cases)
}

func (c longCase) expand() pcrCase {
	pc := pcrCase{Par: c.Par, Rot: c.RotCheck}
	for _, l := range c.Tpl {
		pc.Templates = append(pc.Templates, l.build())
	}
	return pc
}

var longRun = regexp.MustCompile(`[A-Za-z]{160,}`)

// shorten abbreviates the long sequences quoted in an error message.
func shorten(err error) error {
	if err == nil {
		return nil
	}
	return fmt.Errorf("%s", longRun.ReplaceAllStringFunc(err.Error(), func(s string) string {
		return fmt.Sprintf("%s...(%d symbols)...%s", s[:40], len(s), s[len(s)-40:])
	}))
}

func checkLongAmplicons(c longCase) error { return shorten(checkAmplicons(c.expand())) }
func checkLongStrand(c longCase) error    { return shorten(checkStrand(c.expand())) }
func checkLongSites(c longCase) error     { return shorten(checkSites(c.expand())) }
func checkLongRotation(c longCase) error  { return shorten(checkRotation(c.expand())) }

type cliLongCase struct {
	Par        params
	Fragmented bool
	Tpl        []longTpl
	LineWidth  int
	BatchSize  int
	MaxCPU     int
}

func (c cliLongCase) expand() cliCase {
	cc := cliCase{Par: c.Par, Fragmented: c.Fragmented, LineWidth: c.LineWidth, BatchSize: c.BatchSize, MaxCPU: c.MaxCPU}
	for _, l := range c.Tpl {
		cc.Templates = append(cc.Templates, l.build())
	}
	return cc
}

func checkCLILong(c cliLongCase) error { return shorten(checkCLI(c.expand())) }

func init() {
	evid.Reg("long_amplicons", checkLongAmplicons)
	evid.Reg("long_strand", checkLongStrand)
	evid.Reg("long_sites", checkLongSites)
	evid.Reg("long_rotation", checkLongRotation)
	evid.Reg("obipcr_long", checkCLILong)
	evid.Reg("obipcr_long_fragmented", checkCLILong)
}

// ------------------------------------------------------------------ generators

// genLongPrimerPair: primers of 14..25 letters over acgt (at most a few
// ambiguity codes) so that a random background of several kb holds no chance
// site: every site of a long template is a planted one.
func genLongPrimerPair(t *rapid.T) (fwd, rev string) {
	nf := gen.Len(t, "fwd_len", 14, maxPrimer)
	nr := gen.Len(t, "rev_len", 14, maxPrimer)
	if rapid.IntRange(0, 7).Draw(t, "same_len") == 0 {
		nr = nf
	}
	amb := rapid.SampledFrom([]int{0, 0, 0, 10}).Draw(t, "primer_amb_rate")
	fwd = genPrimer(t, "fwd", nf, gen.ACGT, amb)
	switch rapid.IntRange(0, 11).Draw(t, "rev_kind") {
	case 0:
		rev = fwd
	case 1:
		rev = ref.RevComp(fwd)
	default:
		rev = genPrimer(t, "rev", nr, gen.ACGT, amb)
	}
	if rapid.IntRange(0, 3).Draw(t, "primer_case") != 0 {
		fwd, rev = upper(fwd), upper(rev)
	}
	return
}

func upper(s string) string {
	b := []byte(s)
	for i, c := range b {
		if c >= 'a' && c <= 'z' {
			b[i] = c - 32
		}
	}
	return string(b)
}

func genLongParams(t *rapid.T, circular bool) params {
	var par params
	par.Fwd, par.Rev = genLongPrimerPair(t)
	par.FwdErr = rapid.SampledFrom([]int{0, 0, 1, 2, 2}).Draw(t, "fwd_budget")
	if rapid.IntRange(0, 2).Draw(t, "same_budget") > 0 {
		par.RevErr = par.FwdErr
	} else {
		par.RevErr = rapid.SampledFrom([]int{0, 1, 2}).Draw(t, "rev_budget")
	}
	par.Min = rapid.SampledFrom([]int{0, 0, 0, 1000, poolLimit, poolLimit + 1, 1100}).Draw(t, "min")
	switch rapid.IntRange(0, 5).Draw(t, "max_kind") {
	case 0, 1:
		par.Max = 0
	case 2:
		par.Max = max(par.Min, 1000) + rapid.IntRange(0, 400).Draw(t, "max_delta")
	default:
		par.Max = rapid.SampledFrom([]int{poolLimit, 1500, 3000, 5000}).Draw(t, "max")
	}
	par.Ext = rapid.SampledFrom([]int{-1, -1, -1, 0, 0, 1, 5, 20, 100, 500}).Draw(t, "extension")
	par.Full = par.Ext >= 0 && rapid.IntRange(0, 2).Draw(t, "full") == 0
	par.Circular = circular
	if circular && par.Ext >= 0 && par.Max == 0 {
		par.Max = rapid.SampledFrom([]int{1500, 3000}).Draw(t, "max_circular")
	}
	return par
}

// genLongTemplate: 2..6 planted sites; consecutive sites are a start site and
// its end site (forward primer ... reverse-complemented reverse primer, or the
// same pair as seen on the other strand), the same kind of site again (two
// start sites before an end site, two end sites after a start site: nested
// amplicons sharing most of their symbols) or unrelated; gaps are long
// (around 1024, 1100..5000, around the min/max bounds) or short.
func genLongTemplate(t *rapid.T, g genCtx) longTpl {
	par := g.par
	pf, pr := len(g.fwd), len(g.rev)
	cutExtra := 0
	if par.Ext >= 0 {
		cutExtra = pf + pr + 2*par.Ext
	}
	longGap := func(label string) int {
		c := []int{poolLimit, poolLimit + 1,
			rapid.IntRange(poolLimit+2, 1400).Draw(t, label+"_a"),
			rapid.IntRange(1100, 3000).Draw(t, label+"_b"),
			rapid.IntRange(1100, 3000).Draw(t, label+"_c"),
			rapid.IntRange(3000, 5000).Draw(t, label+"_d")}
		for _, d := range []int{poolLimit - 1, poolLimit, poolLimit + 1} {
			c = append(c, d-cutExtra) // the cut-out segment (with priming sites and flanks) measures d
		}
		if par.Min > 0 {
			c = append(c, par.Min-1, par.Min, par.Min+1)
		}
		if par.Max > 0 {
			c = append(c, par.Max-1, par.Max, par.Max, par.Max+1)
			lo := max(par.Min, 1)
			if lo <= par.Max {
				c = append(c, rapid.IntRange(lo, par.Max).Draw(t, label+"_in"), rapid.IntRange(max(lo, min(par.Max, 1000)), par.Max).Draw(t, label+"_in2"))
			}
		}
		ok := c[:0]
		for _, v := range c {
			if v >= 1 && (par.Max == 0 || v <= par.Max+1) {
				ok = append(ok, v)
			}
		}
		if len(ok) == 0 {
			return 1
		}
		return rapid.SampledFrom(ok).Draw(t, label)
	}
	shortGap := func(label string) int {
		return rapid.SampledFrom([]int{-3, -1, 0, 0, 1, 2, rapid.IntRange(1, 80).Draw(t, label+"_rnd"), rapid.IntRange(1, 400).Draw(t, label+"_rnd2")}).Draw(t, label)
	}
	edge := func(label string) int {
		c := []int{0, 0, 1, 2, rapid.IntRange(0, 600).Draw(t, label+"_rnd"), rapid.IntRange(0, 600).Draw(t, label+"_rnd2")}
		if rapid.IntRange(0, 5).Draw(t, label+"_far") == 0 {
			c = []int{rapid.IntRange(600, 20000).Draw(t, label+"_big")} // sites far inside a long template
		}
		if par.Ext >= 0 {
			c = append(c, par.Ext, par.Ext+1, max(par.Ext-1, 0), par.Ext)
		}
		return rapid.SampledFrom(c).Draw(t, label)
	}
	var l longTpl
	l.Alpha = rapid.SampledFrom([]string{gen.ACGT, gen.ACGT, gen.ACGT, "acg", "ct"}).Draw(t, "bg_alpha")
	l.Seed = rapid.Uint64().Draw(t, "bg_seed")
	cursor := edge("lead")
	nsites := rapid.SampledFrom([]int{2, 2, 3, 3, 4, 5, 6}).Draw(t, "nsites")
	prev := -1
	note := ""
	for i := 0; i < nsites; i++ {
		kind := rapid.SampledFrom([]int{0, 0, 0, 1, 2, 2, 2, 3}).Draw(t, "site_kind")
		relation := 0 // 0 unrelated, 1 partner of the previous site, 2 the previous kind again
		if prev >= 0 {
			r := rapid.IntRange(0, 9).Draw(t, "site_relation")
			switch {
			case (prev == 0 || prev == 2) && r < 5:
				kind, relation = prev+1, 1
			case (prev == 0 || prev == 2) && r < 7:
				kind, relation = prev, 2
			case (prev == 1 || prev == 3) && r < 4:
				kind, relation = prev, 2
			}
		}
		var p primer
		budget := par.FwdErr
		switch kind {
		case 0:
			p = g.fwd
		case 1:
			p, budget = g.rev.rc(), par.RevErr
		case 2:
			p, budget = g.rev, par.RevErr
		default:
			p = g.fwd.rc()
		}
		nmis := rapid.SampledFrom([]int{0, 0, 0, 0, min(1, budget), budget, budget, max(budget-1, 0), budget + 1}).Draw(t, "site_mismatches")
		s := instance(t, "site", p, nmis)
		if i > 0 {
			r := rapid.IntRange(0, 9).Draw(t, "gap_long")
			long := cursor < 9000 && ((relation == 1 && r < 8) || (relation == 2 && r < 5) || (relation == 0 && r < 3))
			if long {
				cursor += longGap("gap")
			} else {
				cursor += shortGap("sgap")
			}
			if cursor < 0 {
				cursor = 0
			}
		}
		l.Plants = append(l.Plants, plant{cursor, s})
		note += fmt.Sprintf("%c@%d ", "FrRf"[kind], cursor)
		cursor += len(s)
		prev = kind
	}
	l.N = cursor + edge("tail")
	for _, p := range l.Plants {
		l.N = max(l.N, p.At+len(p.Seq))
	}
	if rapid.IntRange(0, 7).Draw(t, "tmpl_ambiguity") == 0 {
		for k := rapid.IntRange(1, 6).Draw(t, "n_amb"); k > 0; k-- {
			l.Plants = append(l.Plants, plant{rapid.IntRange(0, l.N-1).Draw(t, "amb_pos"), string(gen.IUPAC[4+rapid.IntRange(0, 10).Draw(t, "amb_sym")])})
		}
	}
	l.RC = rapid.Bool().Draw(t, "tmpl_rc")
	l.Note = "sites (F forward primer, r revcomp reverse primer, R reverse primer, f revcomp forward primer): " + note
	return l
}

// genLongBatch draws n long templates (+ sometimes a short literal one between
// them) and, for circular cases, the place of the junction and the offsets of
// the rotation check.
func genLongBatch(t *rapid.T, g genCtx, n int, withShort bool) (tpl []longTpl, rots []int) {
	par := g.par
	for i := 0; i < n; i++ {
		var l longTpl
		if i > 0 && rapid.IntRange(0, 4).Draw(t, "tmpl_related") == 0 {
			// the previous template again, as seen on the other strand
			l = tpl[len(tpl)-1]
			l.RC, l.Rot = !l.RC, 0
		} else {
			l = genLongTemplate(t, g)
		}
		if l.Lit == "" {
			if need := minCircularLen(par, g.fwd, g.rev); par.Circular && l.N < need {
				l.N = need
			}
		}
		tpl = append(tpl, l)
		if withShort && rapid.IntRange(0, 3).Draw(t, "short_between") == 0 {
			sp := par
			sp.Min, sp.Max = 0, 60
			s := genTemplate(t, genCtx{sp, g.fwd, g.rev}, 40)
			if need := minCircularLen(par, g.fwd, g.rev); par.Circular && len(s) < need {
				// keep the case inside the domain of circular templates with flanks
				s = ""
			}
			if s != "" {
				tpl = append(tpl, longTpl{Lit: s})
			}
		}
	}
	for i := range tpl {
		rot := 0
		if par.Circular && tpl[i].Lit == "" {
			n := tpl[i].N
			c := []int{0, 1, n - 1, rapid.IntRange(0, n-1).Draw(t, "junction_rnd")}
			for _, p := range tpl[i].Plants {
				if len(p.Seq) > 1 {
					c = append(c, p.At+2, p.At+len(p.Seq)+1) // into a priming site, just after it
				}
			}
			k := rapid.SampledFrom(c).Draw(t, "junction")
			if tpl[i].RC {
				k = n - k
			}
			tpl[i].Rot = ((k % n) + n) % n
			rot = rapid.SampledFrom([]int{1, n - 1, rapid.IntRange(0, n-1).Draw(t, "rot_rnd"), (n - tpl[i].Rot) % n}).Draw(t, "rot")
		} else if par.Circular {
			rot = rapid.IntRange(0, max(len(tpl[i].Lit)-1, 0)).Draw(t, "rot_lit")
		}
		rots = append(rots, rot)
	}
	return
}

func genLongCase(t *rapid.T) longCase {
	circular := rapid.IntRange(0, 2).Draw(t, "circular") == 0
	par := genLongParams(t, circular)
	fwd, _ := parsePrimer(par.Fwd)
	rev, _ := parsePrimer(par.Rev)
	g := genCtx{par, fwd, rev}
	n := rapid.SampledFrom([]int{1, 1, 2, 3}).Draw(t, "batch")
	c := longCase{Par: par}
	c.Tpl, c.RotCheck = genLongBatch(t, g, n, true)
	return c
}

// ------------------------------------------------------------------ classes

func lenBucket(n int) string {
	switch {
	case n < 2000:
		return "<2k"
	case n < 5000:
		return "2k-5k"
	case n < 10000:
		return "5k-10k"
	case n < 100000:
		return "10k-100k"
	}
	return ">=100k"
}

// describeLong: classes of a long case; non-trivial = at least one expected
// amplicon is reported with more than 1024 symbols.
func describeLong(pc pcrCase, specs ...any) (bool, []string, uint64) {
	_, base, _ := describe(pc)
	seen := map[string]bool{}
	var cl []string
	add := func(s string) {
		if !seen[s] {
			seen[s] = true
			cl = append(cl, s)
		}
	}
	for _, s := range base {
		add("long:" + s)
	}
	nontrivial := false
	for _, t := range pc.Templates {
		add("long:template_length:" + lenBucket(len(t)))
		ex := expect(pc.Par, t)
		nlong := map[string]int{}
		for a, k := range ex.Required {
			n := len(a.Seq)
			switch {
			case n > poolLimit:
				nontrivial = true
				nlong[a.Direction] += k
				add("long:amplicon>1024_" + a.Direction)
				if n >= 3000 {
					add("long:amplicon>=3000_" + a.Direction)
				}
				if n == poolLimit+1 {
					add("long:amplicon==1025_" + a.Direction)
				}
			case n == poolLimit:
				add("long:amplicon==1024_" + a.Direction)
			case n == poolLimit-1:
				add("long:amplicon==1023_" + a.Direction)
			default:
				add("long:amplicon<1023_" + a.Direction)
			}
			if n > poolLimit && pc.Par.Ext >= 0 {
				add("long:amplicon>1024_with_flanks_" + a.Direction)
			}
		}
		for d, k := range nlong {
			if k >= 2 {
				add("long:template_with_several_amplicons>1024_" + d)
			}
		}
		if nlong["forward"] > 0 && nlong["reverse"] > 0 {
			add("long:template_with_amplicons>1024_on_both_strands")
		}
	}
	return nontrivial, cl, evid.Hash(fmt.Sprint(pc.Par), fmt.Sprint(specs...))
}

// ------------------------------------------------------------------ in-process property

func TestPropLong(t *testing.T) {
	rapid.Check(t, func(rt *rapid.T) {
		c := genLongCase(rt)
		pc := c.expand()
		nt, cl, key := describeLong(pc, c.Tpl, c.RotCheck)
		evid.Eval("long_amplicons", key, nt, c, cl...)
		if err := checkLongAmplicons(c); err != nil {
			evid.Fail(rt, "long_amplicons", c, err)
		}
		evid.Eval("long_strand", key, nt, nil)
		if err := checkLongStrand(c); err != nil {
			evid.Fail(rt, "long_strand", c, err)
		}
		evid.Eval("long_sites", key, nt, nil)
		if err := checkLongSites(c); err != nil {
			evid.Fail(rt, "long_sites", c, err)
		}
		if c.Par.Circular {
			evid.Eval("long_rotation", key, nt, nil)
			if err := checkLongRotation(c); err != nil {
				evid.Fail(rt, "long_rotation", c, err)
			}
		}
	})
}

// ------------------------------------------------------------------ command

func genCLILongCase(t *rapid.T) cliLongCase {
	circular := rapid.IntRange(0, 3).Draw(t, "circular") == 0
	par := genLongParams(t, circular)
	par.RevErr = par.FwdErr
	if par.Max == 0 {
		par.Max = rapid.SampledFrom([]int{1500, 3000, 5000}).Draw(t, "cli_max")
	}
	fwd, _ := parsePrimer(par.Fwd)
	rev, _ := parsePrimer(par.Rev)
	c := cliLongCase{Par: par}
	n := rapid.SampledFrom([]int{1, 2, 3, 5}).Draw(t, "n_templates")
	c.Tpl, _ = genLongBatch(t, genCtx{par, fwd, rev}, n, true)
	c.LineWidth = rapid.SampledFrom([]int{0, 0, 60, 80}).Draw(t, "line_width")
	c.BatchSize = rapid.SampledFrom([]int{0, 0, 1, 2}).Draw(t, "batch_size")
	c.MaxCPU = rapid.SampledFrom([]int{0, 1, 2, 4}).Draw(t, "max_cpu")
	return c
}

// genCLILongFragmented: --fragmented with -L above 1024: templates longer than
// 1000 x L (1..1.5 Mb), fragments of 100 x L; start site / end site pairs (and
// a second end site a little further: nested amplicons) planted around the
// fragment borders, on both strands, barcode lengths around L, 1024 and in
// 1000..L.  Short templates that are not fragmented sit between the long ones.
func genCLILongFragmented(t *rapid.T) cliLongCase {
	var par params
	par.Fwd, par.Rev = genLongPrimerPair(t)
	par.FwdErr = rapid.SampledFrom([]int{0, 0, 1, 2}).Draw(t, "budget")
	par.RevErr = par.FwdErr
	par.Max = rapid.SampledFrom([]int{poolLimit + 1, 1100, rapid.IntRange(1030, 1300).Draw(t, "max_rnd")}).Draw(t, "max")
	par.Min = rapid.SampledFrom([]int{0, 0, 1, 1000, par.Max, par.Max - 1}).Draw(t, "min")
	par.Ext = -1
	if rapid.IntRange(0, 3).Draw(t, "would_be_circular") == 0 {
		// known finding fragmented_circular: -c is never combined with --fragmented
		evid.Excluded("fragmented_circular", 1)
	}
	fwd, _ := parsePrimer(par.Fwd)
	rev, _ := parsePrimer(par.Rev)
	c := cliLongCase{Par: par, Fragmented: true}
	L, pf, pr := par.Max, len(fwd), len(rev)
	fragLen := 100 * L
	steps := []int{fragLen - (L + pf + pr), fragLen - (L + max(pf, pr) + min(pf, pr)/2)}
	nlong := rapid.SampledFrom([]int{1, 1, 2}).Draw(t, "n_long")
	for i := 0; i < nlong; i++ {
		n := 1000*L + rapid.SampledFrom([]int{1, 2, fragLen, rapid.IntRange(1, 2*fragLen).Draw(t, "extra_rnd")}).Draw(t, "extra")
		l := longTpl{N: n, Seed: rapid.Uint64().Draw(t, "bg_seed"),
			Alpha: rapid.SampledFrom([]string{gen.ACGT, gen.ACGT, "acg"}).Draw(t, "long_alpha")}
		for u := rapid.IntRange(1, 12).Draw(t, "n_units"); u > 0; u-- {
			first, second := fwd, rev.rc()
			if rapid.Bool().Draw(t, "unit_reverse") {
				first, second = rev, fwd.rc()
			}
			lo := max(par.Min, 1)
			bl := rapid.SampledFrom([]int{L, L, L - 1, lo, L + 1, poolLimit, poolLimit - 1,
				rapid.IntRange(lo, L).Draw(t, "barcode_rnd"), rapid.IntRange(max(lo, 1000), L).Draw(t, "barcode_rnd2")}).Draw(t, "barcode_len")
			nm := func(label string) int {
				return rapid.SampledFrom([]int{0, 0, 0, par.FwdErr, par.FwdErr, par.FwdErr + 1}).Draw(t, label)
			}
			s1 := instance(t, "unit_first", first, nm("mis_first"))
			s2 := instance(t, "unit_second", second, nm("mis_second"))
			unitLen := len(s1) + bl + len(s2)
			s3, gap3 := "", 0
			if rapid.IntRange(0, 9).Draw(t, "unit_nested") < 3 {
				// a second end site: two amplicons sharing the start site
				s3 = instance(t, "unit_third", second, nm("mis_third"))
				gap3 = rapid.SampledFrom([]int{0, 1, 5, rapid.IntRange(0, 60).Draw(t, "gap3_rnd")}).Draw(t, "gap3")
				unitLen += gap3 + len(s3)
			}
			var at int
			if rapid.IntRange(0, 9).Draw(t, "unit_anywhere") < 2 {
				at = rapid.IntRange(0, n-unitLen).Draw(t, "unit_at")
			} else {
				step := rapid.SampledFrom(steps).Draw(t, "step")
				k := rapid.IntRange(0, n/step).Draw(t, "fragment")
				border := k * step // a fragment starts here
				if rapid.Bool().Draw(t, "border_end") {
					border += fragLen // a fragment ends here
				}
				at = border - rapid.SampledFrom([]int{-2, 0, unitLen, unitLen + 2, rapid.IntRange(-2, unitLen+2).Draw(t, "border_offset_rnd"),
					rapid.IntRange(-2, 60).Draw(t, "border_offset_near"), unitLen - rapid.IntRange(-2, 60).Draw(t, "border_offset_far")}).Draw(t, "border_offset")
			}
			at = max(0, min(at, n-unitLen))
			l.Plants = append(l.Plants, plant{at, s1}, plant{at + len(s1) + bl, s2})
			if s3 != "" {
				l.Plants = append(l.Plants, plant{at + len(s1) + bl + len(s2) + gap3, s3})
			}
		}
		c.Tpl = append(c.Tpl, l)
	}
	sp := par
	sp.Min, sp.Max = 0, 60
	for i := rapid.IntRange(0, 2).Draw(t, "n_short"); i > 0; i-- {
		s := genTemplate(t, genCtx{sp, fwd, rev}, 40)
		if s == "" {
			s = "a"
		}
		pos := rapid.IntRange(0, len(c.Tpl)).Draw(t, "short_pos")
		c.Tpl = append(c.Tpl[:pos], append([]longTpl{{Lit: s}}, c.Tpl[pos:]...)...)
	}
	c.LineWidth = rapid.SampledFrom([]int{0, 60, 80}).Draw(t, "line_width")
	c.MaxCPU = rapid.SampledFrom([]int{0, 1, 2, 4}).Draw(t, "max_cpu")
	return c
}

func cliLongClasses(c cliLongCase, cc cliCase) (bool, []string, uint64) {
	nt, cl, key := describeLong(pcrCase{Par: cc.Par, Templates: cc.Templates}, c.Tpl, c.Fragmented, c.LineWidth, c.BatchSize, c.MaxCPU)
	out := []string{"cli_long"}
	for _, s := range cl {
		out = append(out, "cli:"+s)
	}
	if c.Fragmented {
		out = append(out, "cli:long:fragmented")
	}
	return nt, out, key
}

func TestPropCLILong(t *testing.T) {
	if !run.Have("obipcr") {
		t.Fatal("obipcr was not built by the driver")
	}
	rapid.Check(t, func(rt *rapid.T) {
		c := genCLILongCase(rt)
		nt, cl, key := cliLongClasses(c, c.expand())
		evid.Eval("obipcr_long", key, nt, c, cl...)
		if err := checkCLILong(c); err != nil {
			evid.Fail(rt, "obipcr_long", c, err)
		}
	})
}

func TestPropCLILongFragmented(t *testing.T) {
	if !run.Have("obipcr") {
		t.Fatal("obipcr was not built by the driver")
	}
	rapid.Check(t, func(rt *rapid.T) {
		c := genCLILongFragmented(rt)
		nt, cl, key := cliLongClasses(c, c.expand())
		evid.Eval("obipcr_long_fragmented", key, nt, c, cl...)
		if err := checkCLILong(c); err != nil {
			evid.Fail(rt, "obipcr_long_fragmented", c, err)
		}
	})
}
