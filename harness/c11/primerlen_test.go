package c11

// Primer lengths over the whole range the pattern matcher supports.
//
// The generators of gen_test.go / long_test.go draw primers of 8..25 letters.
// The statement quantifies over all primer pairs, and the matcher keeps one bit
// of state per primer position in a machine word (pkg/obiapat/apat.h:
// patword_t = uint64_t, MAX_PAT_LEN = 64; the masks are 1 << patlen), with a
// different scanning kernel for "no error allowed" (ManberNoErr) and for
// "substitutions allowed" (ManberSub).  Here the two primers measure 8..63
// letters, independently, with a bias to 31/32/33 (a 32-bit word) and 62/63
// (the 64-bit word), crossed with the error budgets 0..3 of each primer, linear
// and circular templates (a circular template is extended by MAX_PAT_LEN
// symbols: a site of a 63-letter primer starting on the last symbol needs all
// but two of them), min/max bounds and flanks, in-process (PCRSim, PCRSlice,
// the sites themselves, strand symmetry, rotation: the oracles of
// checks_test.go, unchanged) and through the obipcr command (oracle of
// cli_test.go, unchanged).
//
// Not generated: a primer of exactly 64 letters (known finding of C10, key
// patlen64: such a pattern never matches); primers with indels (the PCR
// builds its patterns with MakeApatPattern(.., false)).

import (
	"fmt"
	"testing"

	"pgregory.net/rapid"

	"verifharness/internal/evid"
	"verifharness/internal/gen"
	"verifharness/internal/ref"
	"verifharness/internal/run"
)

const (
	// maxWidePrimer: MAX_PAT_LEN - 1 (64 itself is the excluded shape patlen64 of C10).
	maxWidePrimer = 63
)

func init() {
	evid.Reg("primerlen_amplicons", checkAmplicons)
	evid.Reg("primerlen_strand", checkStrand)
	evid.Reg("primerlen_sites", checkSites)
	evid.Reg("primerlen_rotation", checkRotation)
	evid.Reg("obipcr_primerlen", checkCLI)
}

// genWideLen: a primer length in 8..63; 4 times out of 10 one of the word-size
// boundaries, 2 out of 10 above the range of the other generators, else anywhere.
func genWideLen(t *rapid.T, label string) int {
	switch rapid.IntRange(0, 9).Draw(t, label+"_kind") {
	case 0, 1, 2, 3:
		return rapid.SampledFrom([]int{31, 32, 33, 62, 63, 31, 32, 33, 62, 63, 30, 34, 61, 47, 48}).Draw(t, label)
	case 4, 5:
		return rapid.IntRange(maxPrimer+1, maxWidePrimer).Draw(t, label)
	}
	return rapid.IntRange(minPrimer, maxWidePrimer).Draw(t, label)
}

// genWidePrimerPair: as genPrimerPair, with the lengths of genWideLen drawn
// independently for the two primers (1 time out of 8 the same length).
func genWidePrimerPair(t *rapid.T) (fwd, rev string) {
	nf := genWideLen(t, "fwd_len")
	nr := genWideLen(t, "rev_len")
	if rapid.IntRange(0, 7).Draw(t, "same_len") == 0 {
		nr = nf
	}
	// no homopolymer primers here (gen_test.go has them): on a homopolymer background every position is a
	// site, and templates of 5 sites of 63 symbols would define hundreds of thousands of amplicons
	alpha := rapid.SampledFrom([]string{gen.ACGT, gen.ACGT, gen.ACGT, gen.ACGT, gen.ACGT, gen.ACGT, "ac", "at", "acg"}).Draw(t, "primer_alpha")
	amb := rapid.SampledFrom([]int{0, 0, 0, 10, 30}).Draw(t, "primer_amb_rate")
	fwd = genPrimer(t, "fwd", nf, alpha, amb)
	switch rapid.IntRange(0, 11).Draw(t, "rev_kind") {
	case 0:
		rev = fwd
	case 1:
		rev = ref.RevComp(fwd)
	default:
		rev = genPrimer(t, "rev", nr, alpha, amb)
	}
	if rapid.IntRange(0, 3).Draw(t, "primer_case") != 0 {
		fwd, rev = upper(fwd), upper(rev)
	}
	return
}

// genWideParams: budgets 0..3 for each primer (0 half of the time: the
// exact-match kernel), the rest as genParamsFor.
func genWideParams(t *rapid.T, circular bool) params {
	fwd, rev := genWidePrimerPair(t)
	par := genParamsFor(t, circular, fwd, rev)
	par.FwdErr = rapid.SampledFrom([]int{0, 0, 0, 1, 2, 3}).Draw(t, "wide_fwd_budget")
	if rapid.IntRange(0, 1).Draw(t, "wide_same_budget") == 0 {
		par.RevErr = par.FwdErr
	} else {
		par.RevErr = rapid.SampledFrom([]int{0, 0, 1, 2, 3}).Draw(t, "wide_rev_budget")
	}
	return par
}

func genWideCase(t *rapid.T) pcrCase {
	circular := rapid.IntRange(0, 2).Draw(t, "circular") == 0
	par := genWideParams(t, circular)
	fwd, _ := parsePrimer(par.Fwd)
	rev, _ := parsePrimer(par.Rev)
	g := genCtx{par, fwd, rev}
	nb := rapid.SampledFrom([]int{1, 1, 2, 3, 4}).Draw(t, "batch")
	c := pcrCase{Par: par}
	for i := 0; i < nb; i++ {
		maxBg := rapid.SampledFrom([]int{3, 10, 40, 40, 150}).Draw(t, "max_background")
		tpl := genTemplate(t, g, maxBg)
		if i > 0 {
			switch rapid.IntRange(0, 9).Draw(t, "tmpl_related") {
			case 0:
				tpl = c.Templates[i-1]
			case 1:
				tpl = ref.RevComp(c.Templates[i-1])
			}
		}
		rot := 0
		if circular {
			if need := minCircularLen(par, fwd, rev); len(tpl) < need {
				tpl += gen.Seq(t, "circular_pad", need-len(tpl), gen.ACGT)
			}
			if n := len(tpl); n > 0 {
				k := rapid.SampledFrom([]int{0, 1, 3, n - 1, n - 3, rapid.IntRange(0, n-1).Draw(t, "junction_rnd"), rapid.IntRange(0, min(n-1, 130)).Draw(t, "junction_near")}).Draw(t, "junction")
				tpl = rotate(tpl, k)
				rot = rapid.SampledFrom([]int{1, n - 1, rapid.IntRange(0, n-1).Draw(t, "rot_rnd"), rapid.IntRange(0, min(n-1, 70)).Draw(t, "rot_near"), ((n-k)%n + n) % n}).Draw(t, "rot")
			}
		}
		c.Templates = append(c.Templates, tpl)
		c.Rot = append(c.Rot, rot)
	}
	return c
}

func lenClass(n int) string {
	switch {
	case n <= 25:
		return "8-25"
	case n <= 30:
		return "26-30"
	case n <= 33:
		return fmt.Sprint(n)
	case n <= 61:
		return "34-61"
	}
	return fmt.Sprint(n)
}

// wideClasses: classes of describe + the primer-length classes.  Non-trivial =
// at least one amplicon is expected and one of the primers has more than 25
// letters (the range the other generators never reach).
func wideClasses(par params, templates []string) (bool, []string, uint64) {
	_, base, key := describe(pcrCase{Par: par, Templates: templates})
	cl := make([]string, 0, len(base)+8)
	for _, s := range base {
		cl = append(cl, "primerlen:"+s)
	}
	nf, nr := len(par.Fwd), len(par.Rev)
	expected := 0
	for _, t := range templates {
		expected += expect(par, t).Required.total()
	}
	amp := "no_amplicon"
	if expected > 0 {
		amp = "with_amplicon"
	}
	cl = append(cl,
		"primerlen:forward:"+lenClass(nf),
		"primerlen:reverse:"+lenClass(nr),
		fmt.Sprintf("primerlen:forward:%s_budget:%d_%s", lenClass(nf), par.FwdErr, amp),
		fmt.Sprintf("primerlen:reverse:%s_budget:%d_%s", lenClass(nr), par.RevErr, amp))
	if nf >= 32 && nr >= 32 {
		cl = append(cl, "primerlen:both_primers>=32_"+amp)
	}
	if (nf >= 32) != (nr >= 32) {
		cl = append(cl, "primerlen:one_primer>=32_"+amp)
	}
	if par.Circular {
		cl = append(cl, "primerlen:circular")
	} else {
		cl = append(cl, "primerlen:linear")
	}
	return expected > 0 && max(nf, nr) > maxPrimer, cl, key
}

func TestPropPrimerLength(t *testing.T) {
	rapid.Check(t, func(rt *rapid.T) {
		c := genWideCase(rt)
		nt, cl, key := wideClasses(c.Par, c.Templates)
		evid.Eval("primerlen_amplicons", key, nt, c, cl...)
		if err := checkAmplicons(c); err != nil {
			evid.Fail(rt, "primerlen_amplicons", c, err)
		}
		evid.Eval("primerlen_strand", key, nt, nil)
		if err := checkStrand(c); err != nil {
			evid.Fail(rt, "primerlen_strand", c, err)
		}
		evid.Eval("primerlen_sites", key, nt, nil)
		if err := checkSites(c); err != nil {
			evid.Fail(rt, "primerlen_sites", c, err)
		}
		if c.Par.Circular {
			evid.Eval("primerlen_rotation", evid.Hash(key, fmt.Sprint(c.Rot)), nt, nil)
			if err := checkRotation(c); err != nil {
				evid.Fail(rt, "primerlen_rotation", c, err)
			}
		}
	})
}

// genCLIWideCase: genCLICase with the primers and budgets of genWideParams.
func genCLIWideCase(t *rapid.T) cliCase {
	circular := rapid.IntRange(0, 3).Draw(t, "circular") == 0
	par := genWideParams(t, circular)
	par.RevErr = par.FwdErr
	if par.Max == 0 {
		par.Max = rapid.SampledFrom([]int{1, 10, 30, 100, 1000}).Draw(t, "cli_max")
	}
	fwd, _ := parsePrimer(par.Fwd)
	rev, _ := parsePrimer(par.Rev)
	c := cliCase{Par: par}
	g := genCtx{par, fwd, rev}
	n := rapid.SampledFrom([]int{1, 2, 3, 5, 12}).Draw(t, "n_templates")
	for i := 0; i < n; i++ {
		tpl := genTemplate(t, g, rapid.SampledFrom([]int{3, 10, 40, 150}).Draw(t, "max_background"))
		if circular {
			if need := minCircularLen(par, fwd, rev); len(tpl) < need {
				tpl += gen.Seq(t, "circular_pad", need-len(tpl), gen.ACGT)
			}
			tpl = rotate(tpl, rapid.IntRange(0, max(len(tpl)-1, 0)).Draw(t, "junction"))
		}
		if len(tpl) == 0 {
			tpl = gen.Seq(t, "nonempty", 1, gen.ACGT)
		}
		c.Templates = append(c.Templates, tpl)
	}
	c.LineWidth = rapid.SampledFrom([]int{0, 0, 60, 7}).Draw(t, "line_width")
	c.BatchSize = rapid.SampledFrom([]int{0, 0, 1, 2, 5}).Draw(t, "batch_size")
	c.MaxCPU = rapid.SampledFrom([]int{0, 1, 2, 4}).Draw(t, "max_cpu")
	return c
}

func TestPropCLIPrimerLength(t *testing.T) {
	if !run.Have("obipcr") {
		t.Fatal("obipcr was not built by the driver")
	}
	rapid.Check(t, func(rt *rapid.T) {
		c := genCLIWideCase(rt)
		nt, cl, key := wideClasses(c.Par, c.Templates)
		out := []string{"cli_primerlen"}
		for _, s := range cl {
			out = append(out, "cli:"+s)
		}
		evid.Eval("obipcr_primerlen", evid.Hash(key, c.LineWidth, c.BatchSize, c.MaxCPU), nt, c, out...)
		if err := checkCLI(c); err != nil {
			evid.Fail(rt, "obipcr_primerlen", c, err)
		}
	})
}
