package c11

// Templates that carry annotations, and two-step histories (nested PCR).
//
// The statement: every amplicon is reported "with the reported match strings and
// error counts" of the two matches it lies between, "oriented forward-to-reverse"
// with the matching direction.  Nothing in it depends on what the template record
// already carries.  The templates of the other tests are bare sequences; here
//
//   - templates carry arbitrary annotations, among them keys named like the tags
//     the PCR writes (forward_primer, forward_match, forward_error, reverse_primer,
//     reverse_match, reverse_error, direction) with values that are those of
//     another experiment;
//   - the output of one PCR (the real records, with the real tags) is the input
//     of a second one with an inner primer pair (nested / semi-nested PCR, the
//     reference database extracted with an outer pair re-amplified with an inner
//     one): in-process PCRSim -> PCRSim / PCRSlice, and obipcr | obipcr.
//
// Oracle: at every step the multiset of (sequence, direction, forward_match,
// reverse_match, forward_error, reverse_error) is the one the model derives from
// the sequence of the step's template and the step's options alone; the
// forward_primer / reverse_primer tags are the primers of this step (compared
// case-insensitively, their spelling is not stated); every other annotation of
// the template (the book: the reference database is built from "the putatively
// amplified barcodes and their recorded taxonomic information"; Release notes:
// `obiuniq -m taxid` on obipcr output) is found unchanged on its amplicons.
// pairing_mismatches is left out (position dependent, rewritten by Subsequence:
// C07).  That the amplicon carries nothing else is not asserted.
//
// Amplicons are attributed to their template through the inherited annotation
// c11_tpl (the index of the template, set by the generator) where the interface
// gives no other way (PCRSlice on a batch, the command).

import (
	"encoding/json"
	"fmt"
	"os"
	"path/filepath"
	"sort"
	"strings"
	"testing"

	"git.metabarcoding.org/obitools/obitools4/obitools4/pkg/obiapat"
	"git.metabarcoding.org/obitools/obitools4/obitools4/pkg/obiseq"
	"pgregory.net/rapid"

	"verifharness/internal/evid"
	"verifharness/internal/fatal"
	"verifharness/internal/gen"
	"verifharness/internal/ref"
	"verifharness/internal/run"
)

const tplKey = "c11_tpl"

// maxSecond: how many records of the first PCR are given to the second one.
const maxSecond = 24

var pcrTags = []string{"forward_primer", "forward_match", "forward_error", "reverse_primer", "reverse_match", "reverse_error", "direction"}

func isPcrTag(k string) bool {
	for _, t := range pcrTags {
		if t == k {
			return true
		}
	}
	return false
}

// annCase: Templates[i] carries Annots[i]; Par is the first PCR; Par2, when
// set, is a second PCR run on every amplicon of the first one.
type annCase struct {
	Par       params
	Templates []string
	Annots    []map[string]any
	Par2      *params `json:",omitempty"`
}

// normValue gives annotation values the Go types obitools4 uses in memory
// (a case read back from a replay file holds float64 / map[string]any).
func normValue(v any) any {
	switch x := v.(type) {
	case float64:
		if x == float64(int(x)) {
			return int(x)
		}
	case map[string]any:
		m := map[string]int{}
		for k, e := range x {
			switch y := e.(type) {
			case int:
				m[k] = y
			case float64:
				m[k] = int(y)
			default:
				return x
			}
		}
		return m
	}
	return v
}

func canon(v any) string {
	b, err := json.Marshal(v)
	if err != nil {
		return fmt.Sprintf("%#v", v)
	}
	return string(b)
}

func canonMap(m map[string]any) string {
	keys := make([]string, 0, len(m))
	for k := range m {
		keys = append(keys, k)
	}
	sort.Strings(keys)
	var sb strings.Builder
	for _, k := range keys {
		fmt.Fprintf(&sb, "%s=%s ", k, canon(m[k]))
	}
	return sb.String()
}

// checkTags: the primers reported are those of this PCR; every annotation of the
// template that is not a PCR tag is found unchanged.
func checkTags(who string, an map[string]any, par params, inherited map[string]any) error {
	for _, kv := range [][2]string{{"forward_primer", par.Fwd}, {"reverse_primer", par.Rev}} {
		v, ok := an[kv[0]].(string)
		if !ok || !strings.EqualFold(v, kv[1]) {
			return fmt.Errorf("%s: %s = %v, but the PCR was run with the primer %s\nannotations of the amplicon: %s\nannotations of its template: %s",
				who, kv[0], an[kv[0]], kv[1], canonMap(an), canonMap(inherited))
		}
	}
	for k, v := range inherited {
		if isPcrTag(k) || k == "pairing_mismatches" {
			continue
		}
		got, ok := an[k]
		if !ok {
			return fmt.Errorf("%s: the annotation %s = %s of the template is not found on the amplicon\nannotations of the amplicon: %s\nannotations of its template: %s",
				who, k, canon(v), canonMap(an), canonMap(inherited))
		}
		if canon(got) != canon(v) {
			return fmt.Errorf("%s: the annotation %s of the template is %s, on the amplicon it is %s\nannotations of the amplicon: %s\nannotations of its template: %s",
				who, k, canon(v), canon(got), canonMap(an), canonMap(inherited))
		}
	}
	return nil
}

func annSeq(i int, t string, an map[string]any) *obiseq.BioSequence {
	s := obiseq.NewBioSequence(fmt.Sprintf("tpl%d", i), []byte(t), "")
	for k, v := range an {
		s.SetAttribute(k, normValue(v))
	}
	return s
}

func copyAnn(an map[string]any) map[string]any {
	out := make(map[string]any, len(an))
	for k, v := range an {
		out[k] = v
	}
	return out
}

func staleNote(an map[string]any) string {
	var stale []string
	for _, k := range pcrTags {
		if v, ok := an[k]; ok {
			stale = append(stale, fmt.Sprintf("%s=%s", k, canon(v)))
		}
	}
	if len(stale) == 0 {
		return ""
	}
	return "\nthe template record itself carries (from another experiment): " + strings.Join(stale, " ")
}

// simAnnotated runs PCRSim on one annotated template, compares with the model,
// checks the tags, and returns the amplicon records.
func simAnnotated(what string, par params, seq *obiseq.BioSequence) (obiseq.BioSequenceSlice, error) {
	t := seq.String()
	before := copyAnn(seq.Annotations())
	ex := expect(par, t)
	if ex.Err != nil {
		return nil, fmt.Errorf("%s: %v", what, ex.Err)
	}
	var res obiseq.BioSequenceSlice
	out := fatal.Run(func() { res = obiapat.PCRSim(seq, options(par)...) })
	if !out.Completed {
		return nil, fmt.Errorf("%s: PCRSim did not return: %v\n%s", what, out, out.Stack)
	}
	got, err := collect(res)
	if err != nil {
		return nil, fmt.Errorf("%s: %v%s", what, err, staleNote(before))
	}
	if err := judge(what, got, ex); err != nil {
		return nil, fmt.Errorf("%v%s", err, staleNote(before))
	}
	for _, r := range res {
		if err := checkTags(fmt.Sprintf("%s, amplicon %s", what, r.Id()), r.Annotations(), par, before); err != nil {
			return nil, err
		}
	}
	if seq.String() != t {
		return nil, fmt.Errorf("%s: PCRSim changed its template from %q to %q", what, t, seq.String())
	}
	return res, nil
}

// sliceAnnotated runs PCRSlice on a batch of annotated templates; the amplicons
// are attributed to their template through the inherited annotation `key`.
func sliceAnnotated(what string, par params, seqs obiseq.BioSequenceSlice, key string) error {
	var exs []expectation
	var before []map[string]any
	for i, s := range seqs {
		ex := expect(par, s.String())
		if ex.Err != nil {
			return fmt.Errorf("%s, template %d: %v", what, i, ex.Err)
		}
		exs = append(exs, ex)
		before = append(before, copyAnn(s.Annotations()))
	}
	var res obiseq.BioSequenceSlice
	out := fatal.Run(func() { res = obiapat.PCRSlice(seqs, options(par)...) })
	if !out.Completed {
		return fmt.Errorf("%s: PCRSlice did not return: %v\n%s", what, out, out.Stack)
	}
	groups := make([]obiseq.BioSequenceSlice, len(seqs))
	for _, r := range res {
		if r == nil {
			return fmt.Errorf("%s: nil record among the amplicons", what)
		}
		idx, ok := r.Annotations()[key].(int)
		if !ok || idx < 0 || idx >= len(seqs) {
			return fmt.Errorf("%s: amplicon %s does not carry the annotation %s of its template (every template has one, 0..%d): %s",
				what, r.Id(), key, len(seqs)-1, canonMap(r.Annotations()))
		}
		groups[idx] = append(groups[idx], r)
	}
	for i := range seqs {
		w := fmt.Sprintf("%s, template %d %q of the batch", what, i, seqs[i].String())
		got, err := collect(groups[i])
		if err != nil {
			return fmt.Errorf("%s: %v%s", w, err, staleNote(before[i]))
		}
		if err := judge(w, got, exs[i]); err != nil {
			return fmt.Errorf("%v%s", err, staleNote(before[i]))
		}
		for _, r := range groups[i] {
			if err := checkTags(fmt.Sprintf("%s, amplicon %s", w, r.Id()), r.Annotations(), par, before[i]); err != nil {
				return err
			}
		}
	}
	return nil
}

func checkAnnotated(c annCase) error {
	if len(c.Annots) != len(c.Templates) {
		return fmt.Errorf("case: %d templates, %d annotation sets", len(c.Templates), len(c.Annots))
	}
	var firstProducts obiseq.BioSequenceSlice
	for i, t := range c.Templates {
		what := fmt.Sprintf("PCRSim(%v) on template %d %q annotated %s", pcrCase{Par: c.Par}, i, t, canonMap(c.Annots[i]))
		res, err := simAnnotated(what, c.Par, annSeq(i, t, c.Annots[i]))
		if err != nil {
			return err
		}
		firstProducts = append(firstProducts, res...)
	}
	batch := make(obiseq.BioSequenceSlice, len(c.Templates))
	for i, t := range c.Templates {
		batch[i] = annSeq(i, t, c.Annots[i])
		batch[i].SetAttribute(tplKey, i)
	}
	if err := sliceAnnotated(fmt.Sprintf("PCRSlice(%v) on annotated templates", pcrCase{Par: c.Par}), c.Par, batch, tplKey); err != nil {
		return err
	}
	if c.Par2 == nil {
		return nil
	}
	// second PCR on the records the first one returned (the first maxSecond of them:
	// low-complexity primers on low-complexity templates give thousands)
	if len(firstProducts) > maxSecond {
		firstProducts = firstProducts[:maxSecond]
	}
	for j, a := range firstProducts {
		what := fmt.Sprintf("second PCR: PCRSim(%v) on amplicon %d (%s %q) of the first PCR (%v)", pcrCase{Par: *c.Par2}, j, a.Id(), a.String(), pcrCase{Par: c.Par})
		if _, err := simAnnotated(what, *c.Par2, a); err != nil {
			return err
		}
	}
	for j, a := range firstProducts {
		a.SetAttribute("c11_amplicon", j)
	}
	return sliceAnnotated(fmt.Sprintf("second PCR: PCRSlice(%v) on the %d amplicons of the first PCR (%v)", pcrCase{Par: *c.Par2}, len(firstProducts), pcrCase{Par: c.Par}),
		*c.Par2, firstProducts, "c11_amplicon")
}

func init() {
	evid.Reg("annotated", checkAnnotated)
	evid.Reg("obipcr_nested", checkCLINested)
}

// ------------------------------------------------------------------ generators

// genAnnotations: generic annotations + (most of the time) some or all of the
// PCR tags with values of another experiment.  cli: only strings, integers and
// booleans under names no reader or writer gives a meaning to.
func genAnnotations(t *rapid.T, par params, cli bool) map[string]any {
	an := map[string]any{}
	word := func(label string) string {
		return gen.Seq(t, label, rapid.IntRange(1, 8).Draw(t, label+"_n"), "abcdefgh_XYZ019")
	}
	if rapid.IntRange(0, 9).Draw(t, "ann_generic") < 7 {
		for k := rapid.IntRange(1, 4).Draw(t, "n_generic"); k > 0; k-- {
			names := []string{"sample", "experiment", "weight", "k_" + word("key")}
			if !cli {
				names = append(names, "taxid", "count", "scientific_name", "merged_sample")
			}
			name := rapid.SampledFrom(names).Draw(t, "ann_key")
			switch {
			case name == "merged_sample":
				an[name] = map[string]any{word("ms1"): rapid.IntRange(1, 9).Draw(t, "ms1v"), "z" + word("ms2"): rapid.IntRange(1, 9).Draw(t, "ms2v")}
			case name == "taxid" || name == "count" || name == "weight":
				an[name] = rapid.IntRange(1, 100000).Draw(t, "ann_int")
			default:
				switch rapid.IntRange(0, 3).Draw(t, "ann_type") {
				case 0:
					an[name] = rapid.IntRange(-5, 5000).Draw(t, "ann_int")
				case 1:
					an[name] = rapid.Bool().Draw(t, "ann_bool")
				default:
					an[name] = word("ann_str")
				}
			}
		}
	}
	mode := rapid.IntRange(0, 9).Draw(t, "ann_stale")
	if mode < 2 {
		return an
	}
	for _, k := range pcrTags {
		if mode >= 6 || rapid.Bool().Draw(t, "stale_"+k) { // mode >= 6: all of them, as a previous obipcr leaves them
			switch k {
			case "forward_primer", "forward_match":
				an[k] = gen.Seq(t, "stale_seq", len(par.Fwd), gen.ACGT)
			case "reverse_primer", "reverse_match":
				an[k] = gen.Seq(t, "stale_seq", len(par.Rev), gen.ACGT)
			case "direction":
				an[k] = rapid.SampledFrom([]string{"forward", "reverse", "reverse", "forward", "both"}).Draw(t, "stale_direction")
			default:
				if rapid.IntRange(0, 5).Draw(t, "stale_err_type") == 0 {
					an[k] = "none"
				} else {
					an[k] = rapid.IntRange(0, 9).Draw(t, "stale_err")
				}
			}
		}
	}
	return an
}

// genNestedPrimerPair: as genPrimerPair, without the one-letter alphabet (a
// poly-a primer pair on the poly-a stretches genTemplate writes gives tens of
// thousands of products per template, and the second PCR is run on each product).
func genNestedPrimerPair(t *rapid.T, label string) (fwd, rev string) {
	nf := gen.Len(t, label+"_fwd_len", minPrimer, maxPrimer)
	nr := gen.Len(t, label+"_rev_len", minPrimer, maxPrimer)
	alpha := rapid.SampledFrom([]string{gen.ACGT, gen.ACGT, gen.ACGT, gen.ACGT, "acg", "ac", "at"}).Draw(t, label+"_alpha")
	amb := rapid.SampledFrom([]int{0, 0, 0, 10, 30}).Draw(t, label+"_amb_rate")
	fwd = genPrimer(t, label+"_fwd", nf, alpha, amb)
	switch rapid.IntRange(0, 11).Draw(t, label+"_rev_kind") {
	case 0:
		rev = fwd
	case 1:
		rev = ref.RevComp(fwd)
	default:
		rev = genPrimer(t, label+"_rev", nr, alpha, amb)
	}
	if rapid.IntRange(0, 3).Draw(t, label+"_case") != 0 {
		fwd, rev = strings.ToUpper(fwd), strings.ToUpper(rev)
	}
	return
}

// genNested: an outer and an inner primer pair; every template is
// lead + outer start site + gap + [inner region: 0..5 sites of the inner pair,
// as genTemplate plants them] + gap + outer end site + tail, as given or
// reverse-complemented; the bounds of the outer PCR are drawn around the length
// of the outer barcodes.
func genNested(t *rapid.T, cli bool) (par1, par2 params, templates []string) {
	par2 = genParams(t, false)
	par2.Fwd, par2.Rev = genNestedPrimerPair(t, "inner")
	if cli {
		par2.RevErr = par2.FwdErr
		if par2.Max == 0 {
			par2.Max = rapid.SampledFrom([]int{10, 30, 100, 1000}).Draw(t, "cli_max2")
		}
	}
	f2, _ := parsePrimer(par2.Fwd)
	r2, _ := parsePrimer(par2.Rev)
	g2 := genCtx{par2, f2, r2}
	par1.Fwd, par1.Rev = genNestedPrimerPair(t, "outer")
	if rapid.IntRange(0, 5).Draw(t, "semi_nested") == 0 {
		par1.Fwd = par2.Fwd // semi-nested: the forward primer is kept
	}
	par1.FwdErr = rapid.SampledFrom([]int{0, 0, 1, 2}).Draw(t, "outer_budget")
	par1.RevErr = par1.FwdErr
	if !cli && rapid.IntRange(0, 2).Draw(t, "outer_budget_differs") == 0 {
		par1.RevErr = rapid.SampledFrom([]int{0, 1, 2}).Draw(t, "outer_rev_budget")
	}
	par1.Ext = rapid.SampledFrom([]int{-1, -1, 0, 0, 3, 10}).Draw(t, "outer_extension")
	par1.Full = par1.Ext >= 0 && rapid.IntRange(0, 3).Draw(t, "outer_full") == 0
	f1, _ := parsePrimer(par1.Fwd)
	r1, _ := parsePrimer(par1.Rev)
	lmin, lmax := 1<<30, 1
	n := rapid.SampledFrom([]int{1, 1, 2, 3, 4}).Draw(t, "n_templates")
	for i := 0; i < n; i++ {
		inner := genTemplate(t, g2, rapid.SampledFrom([]int{3, 10, 40}).Draw(t, "max_background"))
		gl := rapid.SampledFrom([]int{0, 0, 1, 3, rapid.IntRange(0, 30).Draw(t, "gap_left_rnd")}).Draw(t, "gap_left")
		gr := rapid.SampledFrom([]int{0, 0, 1, 3, rapid.IntRange(0, 30).Draw(t, "gap_right_rnd")}).Draw(t, "gap_right")
		nm := func(label string, b int) int { return rapid.SampledFrom([]int{0, 0, 0, b, b, b + 1}).Draw(t, label) }
		tpl := gen.Seq(t, "lead", rapid.SampledFrom([]int{0, 1, max(par1.Ext, 0), max(par1.Ext, 0) + 1, rapid.IntRange(0, 30).Draw(t, "lead_rnd")}).Draw(t, "lead_len"), gen.ACGT) +
			instance(t, "outer_start", f1, nm("outer_start_mis", par1.FwdErr)) +
			gen.Seq(t, "gap_left_seq", gl, gen.ACGT) + inner + gen.Seq(t, "gap_right_seq", gr, gen.ACGT) +
			instance(t, "outer_end", r1.rc(), nm("outer_end_mis", par1.RevErr)) +
			gen.Seq(t, "tail", rapid.SampledFrom([]int{0, 1, max(par1.Ext, 0), max(par1.Ext, 0) + 1, rapid.IntRange(0, 30).Draw(t, "tail_rnd")}).Draw(t, "tail_len"), gen.ACGT)
		if rapid.Bool().Draw(t, "tmpl_rc") {
			tpl = ref.RevComp(tpl)
		}
		l := gl + len(inner) + gr
		lmin, lmax = min(lmin, l), max(lmax, l)
		templates = append(templates, tpl)
	}
	par1.Max = rapid.SampledFrom([]int{0, lmax, lmax, lmax + rapid.IntRange(1, 30).Draw(t, "outer_max_delta"), max(lmax-1, 1)}).Draw(t, "outer_max")
	if cli && par1.Max == 0 {
		par1.Max = lmax + 10
	}
	par1.Min = rapid.SampledFrom([]int{0, 0, 1, max(lmin, 0), max(lmin, 0) + 1}).Draw(t, "outer_min")
	return
}

func genAnnCase(t *rapid.T) annCase {
	var c annCase
	if rapid.IntRange(0, 9).Draw(t, "nested") < 5 {
		var p2 params
		c.Par, p2, c.Templates = genNested(t, false)
		c.Par2 = &p2
	} else {
		pc := genCase(t, rapid.IntRange(0, 3).Draw(t, "circular") == 0)
		c.Par, c.Templates = pc.Par, pc.Templates
	}
	for range c.Templates {
		c.Annots = append(c.Annots, genAnnotations(t, c.Par, false))
	}
	return c
}

// describeAnn: classes; non-trivial = at least one amplicon is expected, at the
// last step of the history, from a template record that carries at least one
// annotation named like a PCR tag.
func describeAnn(par params, templates []string, annots []map[string]any, par2 *params) (bool, []string) {
	seen := map[string]bool{}
	var cl []string
	add := func(s string) {
		if !seen[s] {
			seen[s] = true
			cl = append(cl, s)
		}
	}
	nontrivial := false
	for i, t := range templates {
		stale, generic := 0, 0
		for k := range annots[i] {
			if isPcrTag(k) {
				stale++
			} else if k != tplKey {
				generic++
			}
		}
		switch {
		case stale == len(pcrTags):
			add("ann:template_with_all_pcr_tags")
		case stale > 0:
			add("ann:template_with_some_pcr_tags")
		default:
			add("ann:template_without_pcr_tags")
		}
		if generic > 0 {
			add("ann:template_with_other_annotations")
		}
		ex := expect(par, t)
		if ex.Required.total() > 0 {
			add("ann:first_pcr_amplifies")
			if stale > 0 {
				add("ann:first_pcr_amplifies_template_with_pcr_tags")
				if par2 == nil {
					nontrivial = true
				}
			}
			for a := range ex.Required {
				add("ann:first_pcr_direction_" + a.Direction)
			}
		}
		if par2 != nil {
			for a := range ex.Required {
				ex2 := expect(*par2, a.Seq)
				if ex2.Required.total() > 0 {
					nontrivial = true
					add("ann:second_pcr_amplifies")
					for b := range ex2.Required {
						add("ann:second_pcr_direction_" + b.Direction + "_after_" + a.Direction)
						if b.FwdErr != a.FwdErr || b.RevErr != a.RevErr {
							add("ann:second_pcr_error_counts_differ_from_first")
						}
					}
				} else {
					add("ann:second_pcr_amplifies_nothing")
				}
			}
		}
	}
	if par2 != nil {
		add("ann:two_steps")
		add(fmt.Sprintf("ann:first_extension:%d", par.Ext))
	} else {
		add("ann:one_step")
		if par.Circular {
			add("ann:circular")
		}
	}
	return nontrivial, cl
}

func TestPropAnnotated(t *testing.T) {
	rapid.Check(t, func(rt *rapid.T) {
		c := genAnnCase(rt)
		nt, cl := describeAnn(c.Par, c.Templates, c.Annots, c.Par2)
		second := "one step"
		if c.Par2 != nil {
			second = fmt.Sprint(*c.Par2)
		}
		evid.Eval("annotated", evid.Hash(fmt.Sprint(c.Par), fmt.Sprint(c.Templates), fmt.Sprint(c.Annots), second), nt, c, cl...)
		if err := checkAnnotated(c); err != nil {
			evid.Fail(rt, "annotated", c, err)
		}
	})
}

// ------------------------------------------------------------------ command: obipcr | obipcr

// cliNestCase: the templates, with their annotations as JSON titles, go through
// obipcr with Steps[0]; the output, byte for byte, goes through obipcr with
// Steps[1] (if any), as a file or on standard input.
type cliNestCase struct {
	Steps      []params
	Templates  []string
	Annots     []map[string]any // every set holds c11_tpl = index of the template
	LineWidth  int
	MaxCPU     int
	StdinStep2 bool
}

type outRec struct {
	ID, Seq string
	An      map[string]any
	A       amp
}

func parseRecs(out []byte) ([]outRec, error) {
	recs, err := ref.ParseFasta(out)
	if err != nil {
		return nil, err
	}
	var res []outRec
	for _, r := range recs {
		js, _, ok := ref.SplitJSONTitle(r.Title)
		if !ok {
			return nil, fmt.Errorf("record %q: the title %q does not start with a JSON object", r.ID, r.Title)
		}
		var an map[string]any
		if err := json.Unmarshal([]byte(js), &an); err != nil {
			return nil, fmt.Errorf("record %q: annotations %q: %v", r.ID, js, err)
		}
		a := amp{Seq: r.Seq}
		str := func(k string) (string, error) {
			s, ok := an[k].(string)
			if !ok {
				return "", fmt.Errorf("record %q: annotation %s missing or not a string in %s", r.ID, k, js)
			}
			return s, nil
		}
		num := func(k string) (int, error) {
			f, ok := an[k].(float64)
			if !ok || f != float64(int(f)) {
				return 0, fmt.Errorf("record %q: annotation %s missing or not an integer in %s", r.ID, k, js)
			}
			return int(f), nil
		}
		if a.Direction, err = str("direction"); err != nil {
			return nil, err
		}
		if a.FwdMatch, err = str("forward_match"); err != nil {
			return nil, err
		}
		if a.RevMatch, err = str("reverse_match"); err != nil {
			return nil, err
		}
		if a.FwdErr, err = num("forward_error"); err != nil {
			return nil, err
		}
		if a.RevErr, err = num("reverse_error"); err != nil {
			return nil, err
		}
		res = append(res, outRec{r.ID, r.Seq, an, a})
	}
	return res, nil
}

func fastaAnnotated(c cliNestCase) []byte {
	var sb strings.Builder
	for i, t := range c.Templates {
		fmt.Fprintf(&sb, ">s%d", i)
		if len(c.Annots[i]) > 0 {
			sb.WriteString(" " + canon(c.Annots[i]))
		}
		sb.WriteByte('\n')
		if c.LineWidth <= 0 {
			sb.WriteString(t + "\n")
			continue
		}
		for j := 0; j < len(t); j += c.LineWidth {
			sb.WriteString(t[j:min(len(t), j+c.LineWidth)] + "\n")
		}
	}
	return []byte(sb.String())
}

func checkCLINested(c cliNestCase) error {
	if len(c.Steps) < 1 || len(c.Steps) > 2 || len(c.Annots) != len(c.Templates) {
		return fmt.Errorf("case outside the domain: 1 or 2 steps, one annotation set per template")
	}
	for _, p := range c.Steps {
		if p.FwdErr != p.RevErr || p.Max < 1 {
			return fmt.Errorf("case outside the command's domain: one error budget for both primers, -L >= 1")
		}
	}
	for i, an := range c.Annots {
		if idx, ok := normValue(an[tplKey]).(int); !ok || idx != i {
			return fmt.Errorf("case: template %d must carry %s = %d", i, tplKey, i)
		}
	}
	dir, err := os.MkdirTemp(run.WorkDir(), "c11nest")
	if err != nil {
		return err
	}
	defer os.RemoveAll(dir)
	input := fastaAnnotated(c)
	tplSeqs := c.Templates
	history := ""
	for step, par := range c.Steps {
		cc := cliCase{Par: par, MaxCPU: c.MaxCPU}
		file := filepath.Join(dir, fmt.Sprintf("step%d.fasta", step))
		args := cc.args(file)
		opt := run.Opt{}
		if step == 1 && c.StdinStep2 {
			args = args[:len(args)-1]
			opt.Stdin = input
		} else if err := os.WriteFile(file, input, 0o644); err != nil {
			return err
		}
		desc := fmt.Sprintf("%sobipcr %s", history, strings.Join(cc.args("<input>"), " "))
		if step == 1 && c.StdinStep2 {
			desc = fmt.Sprintf("%sobipcr %s", history, strings.Join(args, " "))
		}
		res := run.Cmd(opt, "obipcr", args...)
		if res.Inconclusive() {
			evid.Class("timeout_inconclusive", 1)
			return nil
		}
		if res.Exit != 0 {
			return fmt.Errorf("%s: exit status %d\nstderr: %s\ninput:\n%s", desc, res.Exit, tail(res.Stderr, 1500), tail(input, 3000))
		}
		recs, err := parseRecs(res.Stdout)
		if err != nil {
			return fmt.Errorf("%s: output not readable: %v\ninput:\n%s", desc, err, tail(input, 3000))
		}
		all := expectation{Required: multiset{}, Optional: multiset{}, Loose: multiset{}}
		for i, t := range tplSeqs {
			ex := expect(par, t)
			if ex.Err != nil {
				return fmt.Errorf("step %d, template %d: %v", step+1, i, ex.Err)
			}
			all.Required.add(ex.Required)
			all.Optional.add(ex.Optional)
			all.Loose.add(ex.Loose)
		}
		got := multiset{}
		for _, r := range recs {
			got[r.A]++
		}
		what := fmt.Sprintf("step %d of %d: %s, its input being\n%s\n", step+1, len(c.Steps), desc, tail(input, 6000))
		if err := judge(what, got, all); err != nil {
			note := ""
			for _, an := range c.Annots {
				if step > 0 || staleNote(an) != "" {
					note = "\n(the records read by this step carry forward_primer/forward_match/forward_error/reverse_primer/reverse_match/reverse_error/direction annotations of another PCR, see the input above; the tags reported must describe this step)"
				}
			}
			return fmt.Errorf("%v%s", err, note)
		}
		for _, r := range recs {
			f, ok := r.An[tplKey].(float64)
			if !ok || f != float64(int(f)) || int(f) < 0 || int(f) >= len(c.Templates) {
				return fmt.Errorf("%s: the amplicon %s does not carry the annotation %s every input record has (0..%d): %s",
					what, r.ID, tplKey, len(c.Templates)-1, canonMap(r.An))
			}
			if err := checkTags(fmt.Sprintf("%s: amplicon %s", what, r.ID), r.An, par, c.Annots[int(f)]); err != nil {
				return err
			}
		}
		if len(recs) == 0 {
			if step == 0 && len(c.Steps) == 2 {
				evid.Class("cli_nested:first_step_amplifies_nothing", 1)
			}
			return nil // nothing to feed into a second step
		}
		// the next step reads what this one wrote (its first maxSecond records, byte for byte)
		input = res.Stdout
		if len(recs) > maxSecond {
			recs = recs[:maxSecond]
			at := 0
			for k := 0; k < maxSecond; k++ {
				at += 1 + strings.Index(string(input[at+1:]), "\n>")
			}
			input = input[:at+1]
		}
		tplSeqs = tplSeqs[:0:0]
		for _, r := range recs {
			tplSeqs = append(tplSeqs, r.Seq)
		}
		history = desc + " | "
	}
	return nil
}

func genCLINestCase(t *rapid.T) cliNestCase {
	var c cliNestCase
	if rapid.IntRange(0, 9).Draw(t, "nested") < 7 {
		p1, p2, tpls := genNested(t, true)
		c.Steps, c.Templates = []params{p1, p2}, tpls
	} else {
		cc := genCLICase(t)
		c.Steps, c.Templates = []params{cc.Par}, cc.Templates
	}
	for i := range c.Templates {
		an := genAnnotations(t, c.Steps[0], true)
		an[tplKey] = i
		c.Annots = append(c.Annots, an)
	}
	c.LineWidth = rapid.SampledFrom([]int{0, 0, 60}).Draw(t, "line_width")
	c.MaxCPU = rapid.SampledFrom([]int{0, 1, 2}).Draw(t, "max_cpu")
	c.StdinStep2 = rapid.Bool().Draw(t, "stdin_step2")
	return c
}

func TestPropCLINested(t *testing.T) {
	if !run.Have("obipcr") {
		t.Fatal("obipcr was not built by the driver")
	}
	rapid.Check(t, func(rt *rapid.T) {
		c := genCLINestCase(rt)
		var p2 *params
		if len(c.Steps) == 2 {
			p2 = &c.Steps[1]
		}
		nt, cl := describeAnn(c.Steps[0], c.Templates, c.Annots, p2)
		out := []string{"cli_nested"}
		for _, s := range cl {
			out = append(out, "cli:"+s)
		}
		if c.StdinStep2 && p2 != nil {
			out = append(out, "cli:ann:second_step_reads_stdin")
		}
		evid.Eval("obipcr_nested", evid.Hash(fmt.Sprint(c.Steps), fmt.Sprint(c.Templates), fmt.Sprint(c.Annots), c.LineWidth, c.MaxCPU, c.StdinStep2), nt, c, out...)
		if err := checkCLINested(c); err != nil {
			evid.Fail(rt, "obipcr_nested", c, err)
		}
	})
}
