// Property C11 — in-silico PCR returns exactly the amplicons the primers define,
// on either strand.
//
// What is asserted, and where it comes from
//
//   - A primer position matches a template symbol iff the symbol is one of
//     a/c/g/t and belongs to the IUPAC set of the primer letter (C10); a primer
//     matches at a position with d errors iff d = Hamming distance <= budget
//     (mismatch-only primers, obiapat.Option{Forward,Reverse}Primer -> MakeApatPattern(.., false)).
//   - An amplicon is defined by a site f of the forward primer and a site r of the
//     reverse-complemented reverse primer with barcode length L = r.start - f.end,
//     L > 0 (touching and overlapping priming sites give nothing: "For when primers
//     touch or overlap" in _Pcr; an empty sequence cannot be reported), min <= L <= max
//     where min/max are lengths *without the primers* and 0 means "no bound"
//     (obipcr: "-l/-L Minimum/Maximum length of the barcode (primers excluded)";
//     pcr.go: "length of the primers excluded").
//   - Output sequence (Release-notes, option -D): no extension: the barcode without the
//     priming sites; extension 0: with the priming sites; extension d: plus d flanking
//     symbols on each side, clipped at the template ends, or the amplicon dropped when
//     a flank is incomplete and --only-complete-flanking / OptionOnlyFullExtension is set.
//   - Annotations: direction "forward" (found as given) / "reverse" (found on the other
//     strand, sequence reverse-complemented so that it reads forward primer -> reverse
//     primer); forward_match / reverse_match = the template segment under the primer,
//     written in the orientation of that primer; forward_error / reverse_error = their
//     Hamming distances.  The reverse orientation is modelled as the forward
//     orientation of the reverse-complemented template.
//   - Comparison: multisets of (sequence, direction, forward_match, reverse_match,
//     forward_error, reverse_error), nothing missing and nothing extra, for every
//     template alone (PCRSim), for the batch through one recycled C buffer (PCRSlice)
//     and for the obipcr command; revcomp(template) -> same multiset with directions
//     flipped; rotation of a circular template -> same set.
//
// Domain decisions (sub-cases the statement does not decide; not generated / not asserted)
//
//   - Primers are plain strings of IUPAC letters, 8..25 long (8..63 in primerlen_test.go
//     and in part of fragsweep_test.go; never 64 = MAX_PAT_LEN: known finding patlen64 of
//     C10, such a pattern matches nothing), either case (no
//     '#', '!' or [..]: those belong to C10); budgets 0..3, possibly different for the
//     two primers in the library checks (one -e for both in the command).
//   - Templates: lower-case acgt plus some IUPAC ambiguity codes (which match nothing),
//     length 0..~400 (in-process; 1..35 kb and up to 1.5 Mb in long_test.go), empty FASTA records are not given to the command
//     (the readers' business, C01).
//   - Circular templates: every pair (f, r) is "downstream" on a circle.  Pairs whose
//     product with its two priming sites is longer than the template (the two priming
//     sites overlap on the circle, or a primer is longer than the circle) are neither
//     required nor forbidden: the amplicon check accepts them if reported with the
//     model's values; the strand and rotation checks still require that they be
//     treated the same way whatever the strand / the position of the junction.
//     When a primer is longer than the circular template the site laps the circle more
//     than once; what its "match string" is, is not asserted.
//   - Circular templates with flanks (extension >= 0): generated only with max > 0 and
//     a template at least as long as max + both primers + 2 x extension, so that the
//     product with its flanks fits the circle once (Subsequence cannot return more
//     than one lap; what a longer product should be is not stated).  The
//     only-complete-flanking flag has no meaning on a circle (flanks are always complete).
//   - max = 0 means "no maximum" for the library; the command requires -L and is given
//     -L >= 1 only.  min > max is generated (nothing can be amplified).
//   - The identifier of an amplicon (<template id>_sub[from..to]) and the order of the
//     amplicons are not asserted (not in the statement).  forward_primer /
//     reverse_primer and the copy of the template's annotations are asserted only
//     by the annotated / nested checks (nested_test.go, see there what and why).
//   - --fragmented: the statement only says that long templates are cut into overlapping
//     fragments before the search.  Asserted: the *set* of amplicons equals the set the
//     whole template defines (an amplicon lying inside the overlap of two fragments is
//     found in both, so multiplicities are not compared).  Not combined with --delta
//     (flanks are clipped at fragment borders by design of the fragmentation; which
//     clipped copies appear depends on the borders) nor with -c (known finding
//     fragmented_circular: every fragment is searched as if it were itself circular).
//     -L 2..8 so that templates of 1000 x L + 1 .. symbols are fragmented (fragments
//     of 100 x L); sites planted around the fragment borders.
//     fragsweep_test.go combines --fragmented with --delta 0/1/5 under a weaker oracle
//     that does not decide the clipping: every expected amplicon reported at least once
//     with each flank complete or cut short, every reported record such a copy of an
//     expected amplicon (--delta 0: no flank, hence the exact set).  Still not combined
//     with --only-complete-flanking nor -c.  -L 1 is not combined with --fragmented
//     (fragments of 100 symbols; with primers totalling 99 symbols or more the step
//     100 x L - overlap of IFragments is <= 0).
package c11

import (
	"fmt"
	"testing"

	"pgregory.net/rapid"

	"verifharness/internal/evid"
)

func TestMain(m *testing.M) {
	evid.Tests(
		evid.Spec{Name: "TestReplay", Kind: "plain", QuickShards: 1, ThoroughShards: 1},
		evid.Spec{Name: "TestKnownFindings", Kind: "plain", QuickShards: 1, ThoroughShards: 1},
		evid.Spec{Name: "TestPropLinear", Kind: "rapid", Quick: 16000, Thorough: 600000, QuickShards: 8, ThoroughShards: 16},
		evid.Spec{Name: "TestPropCircular", Kind: "rapid", Quick: 12000, Thorough: 400000, QuickShards: 8, ThoroughShards: 16},
		evid.Spec{Name: "TestPropCLI", Kind: "rapid", Quick: 160, Thorough: 6000, QuickShards: 4, ThoroughShards: 16},
		evid.Spec{Name: "TestPropCLIFragmented", Kind: "rapid", Quick: 80, Thorough: 3000, QuickShards: 4, ThoroughShards: 16},
		// long templates / long amplicons (long_test.go)
		evid.Spec{Name: "TestPropLong", Kind: "rapid", Quick: 2400, Thorough: 60000, QuickShards: 4, ThoroughShards: 16},
		evid.Spec{Name: "TestPropCLILong", Kind: "rapid", Quick: 64, Thorough: 2000, QuickShards: 4, ThoroughShards: 16},
		evid.Spec{Name: "TestPropCLILongFragmented", Kind: "rapid", Quick: 12, Thorough: 400, QuickShards: 4, ThoroughShards: 16},
		// annotated templates, nested PCR (nested_test.go)
		evid.Spec{Name: "TestPropAnnotated", Kind: "rapid", Quick: 8000, Thorough: 250000, QuickShards: 4, ThoroughShards: 16},
		evid.Spec{Name: "TestPropCLINested", Kind: "rapid", Quick: 160, Thorough: 5000, QuickShards: 4, ThoroughShards: 16},
		// primers of 8..63 letters (primerlen_test.go)
		evid.Spec{Name: "TestPropPrimerLength", Kind: "rapid", Quick: 10000, Thorough: 300000, QuickShards: 4, ThoroughShards: 16},
		evid.Spec{Name: "TestPropCLIPrimerLength", Kind: "rapid", Quick: 160, Thorough: 4000, QuickShards: 4, ThoroughShards: 16},
		// --fragmented: amplicons of the extreme lengths at every offset around the fragment borders (fragsweep_test.go)
		evid.Spec{Name: "TestPropCLIFragmentBorder", Kind: "rapid", Quick: 40, Thorough: 640, QuickShards: 4, ThoroughShards: 16},
	)
	evid.Commands("obipcr")
	evid.Note("rule", "A case = one primer pair (8..25 IUPAC letters, either case, different lengths, sometimes the same primer twice or a primer and its reverse complement) + budgets 0..3 + min/max barcode length + extension -1/0/1/5/20 + only-full flag + linear|circular + a batch of 1..6 templates, each assembled from a random background (acgt, low-complexity, sprinkled ambiguity codes) and 0..5 planted priming sites (instances of the forward primer, of the reverse-complemented reverse primer, of the reverse primer, of the reverse-complemented forward primer, with 0..budget+1 spoiled positions) separated by gaps drawn around 0 (touching/overlapping sites) and around min-1/min/max/max+1, lead and tail drawn around the flank length (sites at position 0 and at the very end); circular templates are rotated so that the junction falls into a site or into the barcode, and may be shorter than 64 or than the primers. Oracle: brute-force Hamming/IUPAC sites of the forward primer x sites of the reverse-complemented reverse primer on the template and on its reverse complement (positions modulo n on a circular template), amplicons cut with flanks clipped/dropped, compared as multisets of (sequence, direction, forward_match, reverse_match, forward_error, reverse_error) in both directions with PCRSim (each template alone), PCRSlice (the batch, one recycled C buffer) [check amplicons]; the sites themselves through one recycled ApatSequence [sites]; PCRSim(revcomp(template)) = same multiset with flipped directions [strand]; PCRSim(rotated circular template) = same set [rotation]; the obipcr command on FASTA files with -e/-l/-L/--delta/--only-complete-flanking/-c/--batch-size/--max-cpu [obipcr] and with --fragmented, -L 2..8, templates longer than 1000 x L with site pairs planted around the fragment borders, compared as sets [obipcr_fragmented]. Non-trivial = at least one expected amplicon has a mismatched primer or the reverse direction. Distinct = hash of (options, templates[, rotation offsets | command-line shape]). "+
		"LONG [long_amplicons, long_strand, long_sites, long_rotation, obipcr_long, obipcr_long_fragmented]: the same oracles on templates of 1..35 kb described compactly (length + seed + alphabet of a splitmix64 background, planted sites, reverse-complement flag, rotation) with primers of 14..25 letters, 2..6 planted sites per template whose consecutive sites are start/end partners, the same kind again (two start sites before an end site, two end sites after a start site: nested amplicons) or unrelated, gaps around 1024 (barcode or cut-out segment of 1023/1024/1025 symbols: the limit of the obiseq slice pool), 1100..5000 and the min/max bounds, or short; min 0/1000/1024/1025/1100, max 0/1024/1500/3000/5000, extension -1/0/1/5/20/100/500; batches of 1..3 long templates with short ones in between, a template and its reverse complement in one batch; circular with the junction inside a site or next to it; the obipcr command on such files, and with --fragmented and -L 1025..1300 on templates of 1..1.5 Mb with units (start site, barcode of ~L/1024/1000..L symbols, end site[, second end site]) planted around the fragment borders on both strands. Non-trivial = at least one expected amplicon is reported with more than 1024 symbols. "+
		"PRIMER LENGTH [primerlen_amplicons, primerlen_strand, primerlen_sites, primerlen_rotation, obipcr_primerlen]: the generators and oracles of the first paragraph with the two primers measuring 8..63 letters independently (4 times out of 10 one of 31/32/33/62/63 - the matcher keeps one state bit per primer position in a 64-bit word and has one scanning kernel for budget 0 and another for budgets > 0 -, 2 out of 10 in 26..63, else 8..63; alphabets acgt, ac, at, acg + ambiguity codes), budgets 0..3 for each primer (0 half of the time), linear 2/3 and circular 1/3, batches of 1..4 templates; the obipcr command on such files (one -e, 0 half of the time). Non-trivial = at least one amplicon is expected and a primer has more than 25 letters. Classes primerlen:<forward|reverse>:<length class>_budget:<e>_<with|no>_amplicon. "+
		"FRAGMENT BORDER [obipcr_fragment_border]: obipcr --fragmented without --delta and with --delta 0/1/5, -L 2..6 (..12 thorough), -e 0..2, -l 0/1/L-1/L/random, primers of 8..25 letters (8..63 one time out of 6): a file of W = 3T+7 templates (T = L + both primers = the overlap of two successive fragments) of 1000 x L + 1 .. symbols described compactly (seed of a splitmix64 stream for the backgrounds, template lengths and unit contents + stride/phase/jump of the offset permutation); every template carries one unit (start site + barcode + end site, either strand, 0..budget mismatches) per usable fragment end e_k = k x (100 x L - T) + 100 x L, starting at e_k + off; over the W templates the units of the first fragment end take every off in [-(2T+3), T+3] exactly once with the barcode length of the case (L 4/10, L-1 2/10, the minimum 3/10, random), the units of each further fragment end take every off once too with lengths L/L-1/min/L+1/random and sometimes budget+1 mismatches; some units on the first/last symbols of a template; one case out of 4 uses L = 7..33 (..150 thorough) and only the <= 21 offsets within 3 symbols of an alignment (unit end on fragment end, unit start on next fragment start, unit start on fragment end). Oracle: brute-force model on the whole templates; without --delta and with --delta 0 the set reported = the set expected; with --delta 1/5 every expected amplicon is reported at least once with each flank complete or cut short and every record is such a copy of an expected amplicon. Non-trivial = the first-border units are amplified and measure exactly --max-length or exactly --min-length. "+
		"ANNOTATED [annotated, obipcr_nested]: templates carrying generic annotations (strings, integers, booleans, a map) and, 8 times out of 10, some or all of forward_primer/forward_match/forward_error/reverse_primer/reverse_match/reverse_error/direction with values of another experiment; half of the in-process cases (7/10 of the command cases) are two-step histories: outer start site + gap + inner region (0..5 sites of the inner pair) + gap + outer end site, either strand, first PCR with the outer pair (extension -1/0/3/10, bounds around the outer barcode lengths), second PCR with the inner pair on the records the first one returned (PCRSim -> PCRSim and PCRSlice; obipcr | obipcr with the bytes of the first output as file or standard input of the second). Oracle at every step: the model's multiset from the step's template sequence and options alone; forward_primer/reverse_primer = the step's primers (case-insensitive); every non-PCR annotation of the template found unchanged on its amplicons (attribution through the inherited annotation c11_tpl for PCRSlice and the command). Non-trivial = at least one amplicon is expected at the last step from a template record that carries an annotation named like a PCR tag.")
	evid.Main(m, "C11")
}

func TestReplay(t *testing.T) { evid.Replay(t) }

func init() {
	evid.Reg("amplicons", checkAmplicons)
	evid.Reg("strand", checkStrand)
	evid.Reg("rotation", checkRotation)
	evid.Reg("sites", checkSites)
	evid.Reg("obipcr", checkCLI)
	evid.Reg("obipcr_fragmented", checkCLI)
}

func bucket(n int) string {
	switch {
	case n == 0:
		return "0"
	case n == 1:
		return "1"
	case n <= 4:
		return "2-4"
	}
	return "5+"
}

// describe computes the class labels and the non-trivial verdict of a case.
func describe(c pcrCase) (nontrivial bool, cl []string, key uint64) {
	var st stats
	required := 0
	seen := map[string]bool{}
	add := func(s string) {
		if !seen[s] {
			seen[s] = true
			cl = append(cl, s)
		}
	}
	for _, t := range c.Templates {
		ex := expect(c.Par, t)
		s := ex.Stats
		required += ex.Required.total()
		st.touching += s.touching
		st.overlapping += s.overlapping
		st.atMin += s.atMin
		st.atMax += s.atMax
		st.belowMin += s.belowMin
		st.overMax += s.overMax
		st.clippedLeft += s.clippedLeft
		st.clippedRight += s.clippedRight
		st.dropped += s.dropped
		st.site0 += s.site0
		st.siteEnd += s.siteEnd
		st.wrapAmplicon += s.wrapAmplicon
		st.wrapSite += s.wrapSite
		st.errAtBudget += s.errAtBudget
		st.mismatched += s.mismatched
		st.reverse += s.reverse
		st.forward += s.forward
		st.optional += s.optional
		st.fwdSites += s.fwdSites
		st.revSites += s.revSites
		add("template_amplicons:" + bucket(ex.Required.total()))
		n := len(t)
		switch {
		case n == 0:
			add("template_empty")
		case n < max(len(c.Par.Fwd), len(c.Par.Rev)):
			add("template_shorter_than_a_primer")
		case c.Par.Circular && n < 64:
			add("circular_template_shorter_than_64")
		}
		for i := 0; i < n; i++ {
			if baseBit(t[i]) == 0 {
				add("template_ambiguity_code")
				break
			}
		}
	}
	flag := func(v int, name string) {
		if v > 0 {
			add(name)
		}
	}
	flag(st.touching, "pair_touching_sites")
	flag(st.overlapping, "pair_overlapping_sites")
	flag(st.atMin, "amplicon_length==min")
	flag(st.atMax, "amplicon_length==max")
	flag(st.belowMin, "pair_length==min-1")
	flag(st.overMax, "pair_length==max+1")
	flag(st.clippedLeft, "flank_clipped_left")
	flag(st.clippedRight, "flank_clipped_right")
	flag(st.dropped, "incomplete_flank_dropped")
	flag(st.site0, "forward_site_at_position_0")
	flag(st.siteEnd, "reverse_site_at_the_very_end")
	flag(st.wrapAmplicon, "circular_amplicon_over_junction")
	flag(st.wrapSite, "circular_site_over_junction")
	flag(st.errAtBudget, "site_errors==budget")
	flag(st.mismatched, "amplicon_with_mismatched_primer")
	flag(st.reverse, "amplicon_direction_reverse")
	flag(st.forward, "amplicon_direction_forward")
	flag(st.optional, "circular_product_longer_than_template(undecided)")
	if st.forward > 0 && st.reverse > 0 {
		add("both_directions_in_case")
	}
	add(fmt.Sprintf("budget:%d/%d", c.Par.FwdErr, c.Par.RevErr)[:8])
	add(fmt.Sprintf("extension:%d", c.Par.Ext))
	if c.Par.Full {
		add("only_full_extension")
	}
	if c.Par.Min > 0 {
		add("min_length_set")
	}
	if c.Par.Max > 0 {
		add("max_length_set")
	}
	if len(c.Par.Fwd) != len(c.Par.Rev) {
		add("primers_of_different_lengths")
	}
	for _, p := range []string{c.Par.Fwd, c.Par.Rev} {
		pp, _ := parsePrimer(p)
		for _, s := range pp {
			if s&(s-1) != 0 {
				add("primer_with_ambiguity_code")
			}
		}
	}
	add("batch:" + bucket(len(c.Templates)))
	add("case_amplicons:" + bucket(required))
	nontrivial = st.mismatched > 0 || st.reverse > 0
	key = evid.Hash(fmt.Sprint(c.Par), fmt.Sprint(c.Templates))
	return
}

func runCase(rt *rapid.T, c pcrCase) {
	nt, cl, key := describe(c)
	evid.Eval("amplicons", key, nt, c, cl...)
	if err := checkAmplicons(c); err != nil {
		evid.Fail(rt, "amplicons", c, err)
	}
	evid.Eval("strand", key, nt, nil)
	if err := checkStrand(c); err != nil {
		evid.Fail(rt, "strand", c, err)
	}
	evid.Eval("sites", key, nt, nil)
	if err := checkSites(c); err != nil {
		evid.Fail(rt, "sites", c, err)
	}
	if c.Par.Circular {
		evid.Eval("rotation", evid.Hash(key, fmt.Sprint(c.Rot)), nt, nil)
		if err := checkRotation(c); err != nil {
			evid.Fail(rt, "rotation", c, err)
		}
	}
}

func TestPropLinear(t *testing.T) {
	rapid.Check(t, func(rt *rapid.T) { runCase(rt, genCase(rt, false)) })
}

func TestPropCircular(t *testing.T) {
	rapid.Check(t, func(rt *rapid.T) { runCase(rt, genCase(rt, true)) })
}
