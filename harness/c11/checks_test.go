package c11

import (
	"fmt"

	"git.metabarcoding.org/obitools/obitools4/obitools4/pkg/obiapat"
	"git.metabarcoding.org/obitools/obitools4/obitools4/pkg/obiseq"

	"verifharness/internal/fatal"
	"verifharness/internal/ref"
)

// pcrCase is the complete input of the in-process checks: one primer pair and
// option set, a batch of templates, one rotation offset per template (used by
// the rotation check only).
type pcrCase struct {
	Par       params
	Templates []string
	Rot       []int
}

func (c pcrCase) String() string {
	return fmt.Sprintf("forward=%s/%d reverse=%s/%d min=%d max=%d extension=%d full=%v circular=%v",
		c.Par.Fwd, c.Par.FwdErr, c.Par.Rev, c.Par.RevErr, c.Par.Min, c.Par.Max, c.Par.Ext, c.Par.Full, c.Par.Circular)
}

func options(p params) []obiapat.WithOption {
	opts := []obiapat.WithOption{
		obiapat.OptionForwardPrimer(p.Fwd, p.FwdErr),
		obiapat.OptionReversePrimer(p.Rev, p.RevErr),
		obiapat.OptionMinLength(p.Min),
		obiapat.OptionMaxLength(p.Max),
		obiapat.OptionWithExtension(p.Ext),
		obiapat.OptionOnlyFullExtension(p.Full),
		obiapat.OptionCircular(p.Circular),
	}
	return opts
}

// readAmplicon extracts what the property talks about from one returned record.
func readAmplicon(s *obiseq.BioSequence) (amp, error) {
	a := amp{Seq: s.String()}
	an := s.Annotations()
	str := func(key string) (string, error) {
		v, ok := an[key]
		if !ok {
			return "", fmt.Errorf("amplicon %q has no %s annotation (annotations: %v)", s.Id(), key, an)
		}
		x, ok := v.(string)
		if !ok {
			return "", fmt.Errorf("amplicon %q: annotation %s is %T, not a string", s.Id(), key, v)
		}
		return x, nil
	}
	num := func(key string) (int, error) {
		v, ok := an[key]
		if !ok {
			return 0, fmt.Errorf("amplicon %q has no %s annotation (annotations: %v)", s.Id(), key, an)
		}
		switch x := v.(type) {
		case int:
			return x, nil
		case float64:
			if x == float64(int(x)) {
				return int(x), nil
			}
		}
		return 0, fmt.Errorf("amplicon %q: annotation %s = %v (%T) is not an integer", s.Id(), key, v, v)
	}
	var err error
	if a.Direction, err = str("direction"); err != nil {
		return a, err
	}
	if a.FwdMatch, err = str("forward_match"); err != nil {
		return a, err
	}
	if a.RevMatch, err = str("reverse_match"); err != nil {
		return a, err
	}
	if a.FwdErr, err = num("forward_error"); err != nil {
		return a, err
	}
	if a.RevErr, err = num("reverse_error"); err != nil {
		return a, err
	}
	return a, nil
}

func collect(res obiseq.BioSequenceSlice) (multiset, error) {
	m := multiset{}
	for _, s := range res {
		if s == nil {
			return nil, fmt.Errorf("nil record among the amplicons")
		}
		a, err := readAmplicon(s)
		if err != nil {
			return nil, err
		}
		m[a]++
	}
	return m, nil
}

func newSeq(i int, t string) *obiseq.BioSequence {
	return obiseq.NewBioSequence(fmt.Sprintf("tpl%d", i), []byte(t), "")
}

// pcrOne runs PCRSim on one template.
func pcrOne(p params, t string) (multiset, error) {
	var res obiseq.BioSequenceSlice
	out := fatal.Run(func() { res = obiapat.PCRSim(newSeq(0, t), options(p)...) })
	if !out.Completed {
		return nil, fmt.Errorf("PCRSim did not return: %v\n%s", out, out.Stack)
	}
	return collect(res)
}

// pcrBatch runs PCRSlice on all templates (one recycled C buffer).
func pcrBatch(p params, ts []string) (multiset, error) {
	var res obiseq.BioSequenceSlice
	seqs := make(obiseq.BioSequenceSlice, len(ts))
	for i, t := range ts {
		seqs[i] = newSeq(i, t)
	}
	out := fatal.Run(func() { res = obiapat.PCRSlice(seqs, options(p)...) })
	if !out.Completed {
		return nil, fmt.Errorf("PCRSlice did not return: %v\n%s", out, out.Stack)
	}
	// the templates must be left untouched
	for i, t := range ts {
		if seqs[i].String() != t {
			return nil, fmt.Errorf("PCRSlice changed template %d from %q to %q", i, t, seqs[i].String())
		}
	}
	return collect(res)
}

// checkAmplicons: every template alone through PCRSim and the whole batch
// through PCRSlice give exactly the amplicons of the brute-force model.
func checkAmplicons(c pcrCase) error {
	all := expectation{Required: multiset{}, Optional: multiset{}, Loose: multiset{}}
	for i, t := range c.Templates {
		ex := expect(c.Par, t)
		if ex.Err != nil {
			return fmt.Errorf("template %d: %v", i, ex.Err)
		}
		got, err := pcrOne(c.Par, t)
		if err != nil {
			return fmt.Errorf("%v, template %d %q: %v", c, i, t, err)
		}
		if err := judge(fmt.Sprintf("PCRSim(%v) on template %d %q", c, i, t), got, ex); err != nil {
			return err
		}
		all.Required.add(ex.Required)
		all.Optional.add(ex.Optional)
		all.Loose.add(ex.Loose)
	}
	got, err := pcrBatch(c.Par, c.Templates)
	if err != nil {
		return fmt.Errorf("%v, templates %q: %v", c, c.Templates, err)
	}
	return judge(fmt.Sprintf("PCRSlice(%v) on the batch %q", c, c.Templates), got, all)
}

// checkStrand: the reverse-complemented template gives the same multiset with
// the direction flipped.
func checkStrand(c pcrCase) error {
	for i, t := range c.Templates {
		a, err := pcrOne(c.Par, t)
		if err != nil {
			return fmt.Errorf("%v, template %d %q: %v", c, i, t, err)
		}
		rc := ref.RevComp(t)
		b, err := pcrOne(c.Par, rc)
		if err != nil {
			return fmt.Errorf("%v, reverse complement %q of template %d: %v", c, rc, i, err)
		}
		if fb := flipDirection(b); !equalMultiset(a, fb) {
			return fmt.Errorf("PCRSim(%v): template %d %q and its reverse complement %q do not give the same amplicons with flipped directions\nonly from the template: %v\nonly from the reverse complement (directions already flipped): %v\ncommon: %d",
				c, i, t, rc, minus(a, fb).sorted(), minus(fb, a).sorted(), a.total()-minus(a, fb).total())
		}
	}
	return nil
}

// checkRotation: rotating a circular template does not change the set of amplicons.
func checkRotation(c pcrCase) error {
	if !c.Par.Circular {
		return fmt.Errorf("rotation check on a linear case")
	}
	for i, t := range c.Templates {
		a, err := pcrOne(c.Par, t)
		if err != nil {
			return fmt.Errorf("%v, template %d %q: %v", c, i, t, err)
		}
		k := 0
		if i < len(c.Rot) {
			k = c.Rot[i]
		}
		rt := rotate(t, k)
		b, err := pcrOne(c.Par, rt)
		if err != nil {
			return fmt.Errorf("%v, template %d rotated by %d %q: %v", c, i, k, rt, err)
		}
		if !equalSet(a, b) {
			return fmt.Errorf("PCRSim(%v): circular template %d %q and its rotation by %d %q do not give the same set of amplicons\nonly from the template: %v\nonly from the rotated template: %v\ncommon: %d",
				c, i, t, k, rt, setMinus(a, b).sorted(), setMinus(b, a).sorted(), len(a)-len(setMinus(a, b)))
		}
	}
	return nil
}

// checkSites: the matches of both primers and of their reverse complements on
// every template of the batch, read through one recycled ApatSequence (as
// _PCRSlice does), are the matches of the model: on a circular template the
// primer is read round the circle from every start position 0..n-1.
func checkSites(c pcrCase) error {
	type pat struct {
		name   string
		model  primer
		budget int
		real   obiapat.ApatPattern
	}
	fwd, err := parsePrimer(c.Par.Fwd)
	if err != nil {
		return err
	}
	rev, err := parsePrimer(c.Par.Rev)
	if err != nil {
		return err
	}
	var pats []pat
	var got [][][]site // template, pattern
	out := fatal.Run(func() {
		f, e1 := obiapat.MakeApatPattern(c.Par.Fwd, c.Par.FwdErr, false)
		r, e2 := obiapat.MakeApatPattern(c.Par.Rev, c.Par.RevErr, false)
		if e1 != nil || e2 != nil {
			err = fmt.Errorf("MakeApatPattern: %v %v", e1, e2)
			return
		}
		cf, e1 := f.ReverseComplement()
		cr, e2 := r.ReverseComplement()
		if e1 != nil || e2 != nil {
			err = fmt.Errorf("ReverseComplement of a primer: %v %v", e1, e2)
			return
		}
		pats = []pat{{"forward primer", fwd, c.Par.FwdErr, f}, {"reverse primer", rev, c.Par.RevErr, r},
			{"reverse-complemented forward primer", fwd.rc(), c.Par.FwdErr, cf}, {"reverse-complemented reverse primer", rev.rc(), c.Par.RevErr, cr}}
		var aseq obiapat.ApatSequence
		for i, t := range c.Templates {
			var e error
			if i == 0 {
				aseq, e = obiapat.MakeApatSequence(newSeq(i, t), c.Par.Circular)
			} else {
				aseq, e = obiapat.MakeApatSequence(newSeq(i, t), c.Par.Circular, aseq)
			}
			if e != nil {
				err = fmt.Errorf("MakeApatSequence(template %d): %v", i, e)
				return
			}
			var row [][]site
			for _, p := range pats {
				var ss []site
				for _, h := range p.real.FindAllIndex(aseq, 0, -1) {
					if h[0] < len(t) { // starts beyond the end repeat the starts 0.. of a circular sequence
						ss = append(ss, site{h[0], h[1], h[2]})
					}
				}
				row = append(row, ss)
			}
			got = append(got, row)
		}
		if len(c.Templates) > 0 {
			aseq.Free()
		}
	})
	if !out.Completed {
		return fmt.Errorf("%v, templates %q: matching did not return: %v\n%s", c, c.Templates, out, out.Stack)
	}
	if err != nil {
		return err
	}
	for i, t := range c.Templates {
		for j, p := range pats {
			var want []site
			if len(t) > 0 {
				want = sites(p.model, t, p.budget, c.Par.Circular)
			}
			if fmt.Sprint(want) != fmt.Sprint(got[i][j]) {
				return fmt.Errorf("matches {start end errors} of the %s of (%v) on template %d %q (number %d through a recycled ApatSequence):\nreported %v\nexpected %v",
					p.name, c, i, t, i, got[i][j], want)
			}
		}
	}
	return nil
}
