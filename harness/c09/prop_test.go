// Property C09 — LCS and one-difference kernels are exact within their error bound.
package c09

import (
	"fmt"
	"strings"
	"testing"

	"git.metabarcoding.org/obitools/obitools4/obitools4/pkg/obialign"
	"git.metabarcoding.org/obitools/obitools4/obitools4/pkg/obiseq"
	"pgregory.net/rapid"

	"verifharness/internal/evid"
	"verifharness/internal/fatal"
	"verifharness/internal/gen"
	"verifharness/internal/ref"
)

func TestMain(m *testing.M) {
	evid.Tests(
		evid.Spec{Name: "TestReplay", Kind: "plain", QuickShards: 1, ThoroughShards: 1},
		evid.Spec{Name: "TestExhaustivePairs", Kind: "plain", QuickShards: 16, ThoroughShards: 16, TimeoutS: 3000},
		evid.Spec{Name: "TestPropLCSRandom", Kind: "rapid", Quick: 40000, Thorough: 800000, QuickShards: 8, ThoroughShards: 16},
		evid.Spec{Name: "TestPropD1Random", Kind: "rapid", Quick: 64000, Thorough: 800000, QuickShards: 8, ThoroughShards: 16},
		evid.Spec{Name: "FuzzLCS", Kind: "fuzz", Thorough: 90, ThoroughOnly: true, QuickShards: 1, ThoroughShards: 1},
		evid.Spec{Name: "TestPropConcurrentCalls", Kind: "rapid", Quick: 1600, Thorough: 40000, QuickShards: 8, ThoroughShards: 16},
		evid.Spec{Name: "TestPropVeryLong", Kind: "rapid", Quick: 160, Thorough: 4000, QuickShards: 8, ThoroughShards: 16},
		evid.Spec{Name: "TestPropBufferReuse", Kind: "rapid", Quick: 4000, Thorough: 100000, QuickShards: 4, ThoroughShards: 16},
	)
	evid.Note("rule", "exhaustive: every ordered pair of strings over {a,c,g,t} up to length 4 (quick) / 5 (thorough), empty string included, x bounds -1..3, for FastLCSScore, FastLCSEGFScore and D1Or0; random: pairs up to 300 nt with IUPAC codes built by mutation so that the true number of differences lies within +-2 of the bound; buffer-reuse: generated call sequences sharing one scratch buffer; concurrent: 2..8 goroutines repeating a generated call list with no buffer / a buffer of their own at the same time, each answer compared with the answer obtained alone. Oracle: independent full-matrix DP (LCS with shortest-alignment tie-break, IUPAC table written from the documentation; Levenshtein). Non-trivial = the two lengths differ and the true difference is within +-1 of the bound (lcs checks) / edit distance 1 or 2 (one-difference checks). Distinct = hash of (check, a, b, bound).")
	evid.Main(m, "C09")
}

func TestReplay(t *testing.T) { evid.Replay(t) }

func init() {
	evid.Reg("lcs", checkLCS)
	evid.Reg("lcs_egf", checkEGF)
	evid.Reg("d1or0", checkD1)
	evid.Reg("lcs_buffer", checkCalls)
}

func bs(s string) *obiseq.BioSequence { return obiseq.NewBioSequence("s", []byte(s), "") }

// ------------------------------------------------------------------ FastLCSScore

type lcsCase struct {
	A, B  string
	Bound int
}

// judgeLCS compares one kernel answer with the oracle.
func judgeLCS(c lcsCase, score, alilen int) error {
	L, AL := ref.LCS(c.A, c.B, ref.IUPACCompatible)
	diff := AL - L
	if c.Bound < 0 || diff <= c.Bound {
		if score != L || alilen != AL {
			return fmt.Errorf("FastLCSScore(%q,%q,bound=%d) = (%d,%d); reference LCS=%d, shortest alignment=%d (differences %d are within the bound)",
				c.A, c.B, c.Bound, score, alilen, L, AL, diff)
		}
		return nil
	}
	// beyond the bound: "not found" or an answer that is itself beyond the bound
	if score == -1 && alilen == -1 {
		return nil
	}
	if score < 0 || alilen < score || alilen-score <= c.Bound {
		return fmt.Errorf("FastLCSScore(%q,%q,bound=%d) = (%d,%d): a within-bound answer although the true difference is %d (LCS=%d, alignment=%d)",
			c.A, c.B, c.Bound, score, alilen, diff, L, AL)
	}
	return nil
}

func checkLCS(c lcsCase) error {
	var s1, l1, s2, l2 int
	out := fatal.Run(func() {
		s1, l1 = obialign.FastLCSScore(bs(c.A), bs(c.B), c.Bound, nil)
		s2, l2 = obialign.FastLCSScore(bs(c.B), bs(c.A), c.Bound, nil)
	})
	if !out.Completed {
		return fmt.Errorf("FastLCSScore(%q,%q,bound=%d) did not return: %v\n%s", c.A, c.B, c.Bound, out, out.Stack)
	}
	if err := judgeLCS(c, s1, l1); err != nil {
		return err
	}
	if s1 != s2 || l1 != l2 {
		return fmt.Errorf("FastLCSScore not symmetric on (%q,%q,bound=%d): (%d,%d) vs swapped (%d,%d)", c.A, c.B, c.Bound, s1, l1, s2, l2)
	}
	return nil
}

func lcsNontrivial(c lcsCase) (bool, int) {
	L, AL := ref.LCS(c.A, c.B, ref.IUPACCompatible)
	diff := AL - L
	near := c.Bound >= 0 && diff >= c.Bound-1 && diff <= c.Bound+1
	return len(c.A) != len(c.B) && near, diff
}

// ------------------------------------------------------------------ FastLCSEGFScore

// The end-gap-free variant has no caller in the tree and no independent
// specification of its alignment length; what the documentation and the
// property state is checked: the LCS component is the true LCS when no bound is
// given, and when an answer is given its alignment length lies between the LCS
// and the global shortest-alignment length; a bounded call never invents an LCS
// larger than the true one.
func checkEGF(c lcsCase) error {
	var s, l, e int
	out := fatal.Run(func() {
		s, l, e = obialign.FastLCSEGFScore(bs(c.A), bs(c.B), c.Bound, nil)
	})
	if !out.Completed {
		return fmt.Errorf("FastLCSEGFScore(%q,%q,bound=%d) did not return: %v\n%s", c.A, c.B, c.Bound, out, out.Stack)
	}
	_ = e
	L, AL := ref.LCS(c.A, c.B, ref.IUPACCompatible)
	if s == -1 {
		if c.Bound < 0 {
			return fmt.Errorf("FastLCSEGFScore(%q,%q,no bound) answered not found", c.A, c.B)
		}
		return nil
	}
	if s > L {
		return fmt.Errorf("FastLCSEGFScore(%q,%q,bound=%d) LCS=%d exceeds the true LCS %d", c.A, c.B, c.Bound, s, L)
	}
	// the answer is exact when no bound is given or when the global alignment
	// itself is within the bound (its path then lies inside the band)
	if c.Bound < 0 || AL-L <= c.Bound {
		if s != L {
			return fmt.Errorf("FastLCSEGFScore(%q,%q,bound=%d) LCS=%d, reference %d", c.A, c.B, c.Bound, s, L)
		}
		if l < s || l > AL {
			return fmt.Errorf("FastLCSEGFScore(%q,%q,bound=%d) = (lcs %d, alilen %d): alilen outside [lcs, global shortest alignment %d]", c.A, c.B, c.Bound, s, l, AL)
		}
	}
	if l < s {
		return fmt.Errorf("FastLCSEGFScore(%q,%q,bound=%d) = (lcs %d, alilen %d): alignment shorter than its LCS", c.A, c.B, c.Bound, s, l)
	}
	return nil
}

// ------------------------------------------------------------------ D1Or0

type d1Case struct{ A, B string }

func applyD1(s1, s2 string, pos int, a1, a2 byte) error {
	switch {
	case a1 != '-' && a2 != '-': // substitution
		if len(s1) != len(s2) || pos < 0 || pos >= len(s1) {
			return fmt.Errorf("substitution at %d does not fit lengths %d/%d", pos, len(s1), len(s2))
		}
		if s1[pos] != a1 || s2[pos] != a2 || a1 == a2 {
			return fmt.Errorf("substitution %c->%c at %d does not describe the sequences", a1, a2, pos)
		}
		if s1[:pos]+string(a2)+s1[pos+1:] != s2 {
			return fmt.Errorf("substitution %c->%c at %d applied to the first sequence does not give the second", a1, a2, pos)
		}
	case a2 == '-' && a1 != '-': // symbol of seq1 absent from seq2
		if pos < 0 || pos >= len(s1) || s1[pos] != a1 {
			return fmt.Errorf("deletion of %c at %d: first sequence does not carry it there", a1, pos)
		}
		if s1[:pos]+s1[pos+1:] != s2 {
			return fmt.Errorf("deleting position %d of the first sequence does not give the second", pos)
		}
	case a1 == '-' && a2 != '-': // symbol of seq2 absent from seq1
		if pos < 0 || pos >= len(s2) || s2[pos] != a2 {
			return fmt.Errorf("insertion of %c at %d: second sequence does not carry it there", a2, pos)
		}
		if s2[:pos]+s2[pos+1:] != s1 {
			return fmt.Errorf("removing position %d of the second sequence does not give the first", pos)
		}
	default:
		return fmt.Errorf("both symbols are gaps")
	}
	return nil
}

func checkD1(c d1Case) error {
	var d, pos int
	var a1, a2 byte
	var dr int
	out := fatal.Run(func() {
		d, pos, a1, a2 = obialign.D1Or0(bs(c.A), bs(c.B))
		dr, _, _, _ = obialign.D1Or0(bs(c.B), bs(c.A))
	})
	if !out.Completed {
		return fmt.Errorf("D1Or0(%q,%q) did not return: %v\n%s", c.A, c.B, out, out.Stack)
	}
	lev := ref.Levenshtein(c.A, c.B)
	want := -1
	if lev == 0 {
		want = 0
	} else if lev == 1 {
		want = 1
	}
	if d != want {
		return fmt.Errorf("D1Or0(%q,%q) = %d, edit distance is %d so %d expected", c.A, c.B, d, lev, want)
	}
	if dr != d {
		return fmt.Errorf("D1Or0 verdict not symmetric on (%q,%q): %d vs swapped %d", c.A, c.B, d, dr)
	}
	if d == 1 {
		if err := applyD1(c.A, c.B, pos, a1, a2); err != nil {
			return fmt.Errorf("D1Or0(%q,%q) = (1, pos %d, %q, %q): %v", c.A, c.B, pos, string(a1), string(a2), err)
		}
	}
	return nil
}

// ------------------------------------------------------------------ buffer reuse

type callsCase struct{ Calls []lcsCase }

func checkCalls(c callsCase) error {
	var buffer []uint64
	for i, call := range c.Calls {
		var s, l int
		out := fatal.Run(func() { s, l = obialign.FastLCSScore(bs(call.A), bs(call.B), call.Bound, &buffer) })
		if !out.Completed {
			return fmt.Errorf("call %d with shared buffer did not return: %v\n%s", i, out, out.Stack)
		}
		if err := judgeLCS(call, s, l); err != nil {
			return fmt.Errorf("call %d of %d with a shared scratch buffer: %v", i, len(c.Calls), err)
		}
		var s0, l0 int
		fatal.Run(func() { s0, l0 = obialign.FastLCSScore(bs(call.A), bs(call.B), call.Bound, nil) })
		if s0 != s || l0 != l {
			return fmt.Errorf("call %d: shared buffer gives (%d,%d), fresh buffer gives (%d,%d) on (%q,%q,%d)", i, s, l, s0, l0, call.A, call.B, call.Bound)
		}
	}
	return nil
}

// ------------------------------------------------------------------ enumeration

func allStrings(maxLen int) []string {
	out := []string{""}
	prev := []string{""}
	for l := 1; l <= maxLen; l++ {
		var cur []string
		for _, p := range prev {
			for _, c := range gen.ACGT {
				cur = append(cur, p+string(c))
			}
		}
		out = append(out, cur...)
		prev = cur
	}
	return out
}

func TestExhaustivePairs(t *testing.T) {
	maxLen := evid.Pick(4, 5)
	strs := allStrings(maxLen)
	shard, n := evid.Shard(), evid.NShards()
	for i, a := range strs {
		if i%n != shard {
			continue
		}
		for _, b := range strs {
			dc := d1Case{a, b}
			lev := ref.Levenshtein(a, b)
			evid.Eval("d1or0", evid.Hash(a, b), lev == 1 || lev == 2, dc, "exhaustive")
			if err := checkD1(dc); err != nil {
				evid.Fail(t, "d1or0", dc, err)
			}
			for bound := -1; bound <= 3; bound++ {
				c := lcsCase{a, b, bound}
				nt, _ := lcsNontrivial(c)
				evid.Eval("lcs", evid.Hash(a, b, bound), nt, c, "exhaustive")
				if err := checkLCS(c); err != nil {
					evid.Fail(t, "lcs", c, err)
				}
				evid.Eval("lcs_egf", evid.Hash(a, b, bound), nt, c, "exhaustive")
				if err := checkEGF(c); err != nil {
					evid.Fail(t, "lcs_egf", c, err)
				}
			}
		}
	}
	evid.Exhaustive(fmt.Sprintf("all ordered pairs over {a,c,g,t} up to length %d x bounds -1..3 (lcs, lcs_egf), all such pairs (d1or0)", maxLen))
}

// ------------------------------------------------------------------ generators

// genPair builds two related sequences: b is a copied and edited a, the number
// of edits being chosen around the bound.
func genPair(t *rapid.T, maxLen int) lcsCase {
	bound := rapid.SampledFrom([]int{-1, 0, 1, 2, 3, 4, 6, 10}).Draw(t, "bound")
	n := gen.Len(t, "len", 0, maxLen, 1, 2, 3, 4, 64)
	alphabet := gen.ACGT
	a := gen.SeqMix(t, "a", n, alphabet, gen.IUPAC, rapid.SampledFrom([]int{0, 0, 8, 3}).Draw(t, "iupac_rate"))
	if rapid.IntRange(0, 7).Draw(t, "rna") == 0 {
		a = strings.ReplaceAll(a, "t", "u") // RNA spelling (u is t in the documented code table)
	}
	center := bound
	if center < 0 {
		center = rapid.IntRange(0, 8).Draw(t, "edits_nobound")
	}
	k := center + rapid.IntRange(-2, 2).Draw(t, "edits_delta")
	if k < 0 {
		k = 0
	}
	var b string
	if rapid.IntRange(0, 9).Draw(t, "unrelated") == 0 {
		b = gen.Seq(t, "b", gen.Len(t, "lenb", 0, maxLen), alphabet)
	} else {
		b, _ = gen.Mutate(t, "mut", a, k, gen.IUPAC[:4+rapid.SampledFrom([]int{0, 0, 11}).Draw(t, "mut_alpha")], "sid")
	}
	if rapid.Bool().Draw(t, "swap") {
		a, b = b, a
	}
	return lcsCase{a, b, bound}
}

func classesOf(c lcsCase, diff int) []string {
	cl := []string{}
	if c.Bound < 0 {
		cl = append(cl, "bound:none")
	} else if diff <= c.Bound {
		cl = append(cl, "within_bound")
	} else {
		cl = append(cl, "beyond_bound")
	}
	if diff == c.Bound {
		cl = append(cl, "diff==bound")
	}
	if diff == c.Bound+1 {
		cl = append(cl, "diff==bound+1")
	}
	for i := 0; i < len(c.A)+len(c.B); i++ {
		var x byte
		if i < len(c.A) {
			x = c.A[i]
		} else {
			x = c.B[i-len(c.A)]
		}
		if ref.IUPACSet(x)&(ref.IUPACSet(x)-1) != 0 {
			cl = append(cl, "iupac_ambiguity")
			break
		}
	}
	if len(c.A) == 0 || len(c.B) == 0 {
		cl = append(cl, "empty_sequence")
	}
	return cl
}

func TestPropLCSRandom(t *testing.T) {
	rapid.Check(t, func(rt *rapid.T) {
		maxLen := 300
		if rapid.IntRange(0, 199).Draw(rt, "long") == 0 {
			maxLen = 2000 // full-length markers / mitochondrial fragments; the band stays narrow, the oracle is O(nm)
		}
		c := genPair(rt, maxLen)
		if maxLen > 300 && c.Bound < 0 {
			c.Bound = 10
		}
		nt, diff := lcsNontrivial(c)
		cl := classesOf(c, diff)
		if len(c.A) > 1000 || len(c.B) > 1000 {
			cl = append(cl, "longer_than_1000")
		}
		evid.Eval("lcs", evid.Hash(c.A, c.B, c.Bound), nt, c, cl...)
		if err := checkLCS(c); err != nil {
			evid.Fail(rt, "lcs", c, err)
		}
		evid.Eval("lcs_egf", evid.Hash(c.A, c.B, c.Bound), nt, c)
		if err := checkEGF(c); err != nil {
			evid.Fail(rt, "lcs_egf", c, err)
		}
	})
}

func TestPropD1Random(t *testing.T) {
	rapid.Check(t, func(rt *rapid.T) {
		n := gen.Len(rt, "len", 0, 300, 1, 2, 3)
		// low-complexity alphabets make homopolymer indels (ambiguous positions) frequent
		alphabet := rapid.SampledFrom([]string{"acgt", "ac", "a", gen.IUPAC}).Draw(rt, "alphabet")
		a := gen.Seq(rt, "a", n, alphabet)
		k := rapid.SampledFrom([]int{0, 1, 1, 1, 2, 2, 3}).Draw(rt, "edits")
		b, edits := gen.Mutate(rt, "mut", a, k, alphabet+"t", "sid")
		if rapid.Bool().Draw(rt, "swap") {
			a, b = b, a
		}
		c := d1Case{a, b}
		lev := ref.Levenshtein(a, b)
		cl := []string{fmt.Sprintf("lev:%d", min(lev, 3))}
		if len(edits) == 2 && lev == 2 && len(a) == len(b) {
			cl = append(cl, "two_edits_same_length")
		}
		evid.Eval("d1or0", evid.Hash(a, b), lev == 1 || lev == 2, c, cl...)
		if err := checkD1(c); err != nil {
			evid.Fail(rt, "d1or0", c, err)
		}
	})
}

func TestPropBufferReuse(t *testing.T) {
	rapid.Check(t, func(rt *rapid.T) {
		n := rapid.IntRange(2, 8).Draw(rt, "ncalls")
		var c callsCase
		nontrivial := false
		for i := 0; i < n; i++ {
			// alternate large and small problems so that the buffer is first grown, then reused
			call := genPair(rt, rapid.SampledFrom([]int{6, 40, 200}).Draw(rt, "maxlen"))
			c.Calls = append(c.Calls, call)
			if i > 0 && len(call.A)+len(call.B) < len(c.Calls[i-1].A)+len(c.Calls[i-1].B) {
				nontrivial = true
			}
		}
		evid.Eval("lcs_buffer", evid.Hash(fmt.Sprint(c.Calls)), nontrivial, nil, "buffer_reuse_sequences")
		if err := checkCalls(c); err != nil {
			evid.Fail(rt, "lcs_buffer", c, err)
		}
	})
}

// ------------------------------------------------------------------ concurrent callers

// Several callers (obiconsensus, obicleandb, obirefidx run one goroutine per
// worker) call the kernels at the same time, with no buffer or with a buffer of
// their own: every answer must still be the exact one.  Inputs are a pure
// function of the seed; the interleaving is not.
type concCase struct {
	Calls   []lcsCase
	Workers int
	Rounds  int
}

func init() { evid.Reg("lcs_concurrent", checkConcurrent) }

func checkConcurrent(c concCase) error {
	type res struct{ s, l, d int }
	want := make([]res, len(c.Calls))
	for i, call := range c.Calls {
		s, l := obialign.FastLCSScore(bs(call.A), bs(call.B), call.Bound, nil)
		if err := judgeLCS(call, s, l); err != nil {
			return fmt.Errorf("sequential call %d: %v", i, err)
		}
		d, _, _, _ := obialign.D1Or0(bs(call.A), bs(call.B))
		want[i] = res{s, l, d}
	}
	nw := max(2, c.Workers)
	errs := make(chan error, nw)
	start := make(chan struct{})
	for w := 0; w < nw; w++ {
		go func(w int) {
			var own []uint64
			<-start
			for r := 0; r < max(1, c.Rounds); r++ {
				for i, call := range c.Calls {
					var buf *[]uint64
					if (i+w+r)%2 == 0 {
						buf = &own
					}
					s, l := obialign.FastLCSScore(bs(call.A), bs(call.B), call.Bound, buf)
					d, _, _, _ := obialign.D1Or0(bs(call.A), bs(call.B))
					if (res{s, l, d}) != want[i] {
						errs <- fmt.Errorf("with %d concurrent callers, call %d (%q,%q,bound=%d, own buffer=%v) answered (%d,%d) d1=%d; alone it answers (%d,%d) d1=%d",
							nw, i, call.A, call.B, call.Bound, buf != nil, s, l, d, want[i].s, want[i].l, want[i].d)
						return
					}
				}
			}
			errs <- nil
		}(w)
	}
	close(start)
	var first error
	for w := 0; w < nw; w++ {
		if err := <-errs; err != nil && first == nil {
			first = err
		}
	}
	return first
}

func TestPropConcurrentCalls(t *testing.T) {
	rapid.Check(t, func(rt *rapid.T) {
		var c concCase
		n := rapid.IntRange(4, 24).Draw(rt, "ncalls")
		for i := 0; i < n; i++ {
			c.Calls = append(c.Calls, genPair(rt, rapid.SampledFrom([]int{30, 120, 300}).Draw(rt, "maxlen")))
		}
		c.Workers = rapid.IntRange(2, 8).Draw(rt, "workers")
		c.Rounds = rapid.IntRange(1, 6).Draw(rt, "rounds")
		evid.Eval("lcs_concurrent", evid.Hash(fmt.Sprint(c)), c.Workers >= 4, nil, "concurrent_callers")
		if err := checkConcurrent(c); err != nil {
			evid.Fail(rt, "lcs_concurrent", c, err)
		}
	})
}

// ------------------------------------------------------------------ very long sequences

// Sequences of tens of kilobases (whole mitochondrial genomes) that differ by a
// few edits: alignment lengths beyond 32767 columns.  The full-matrix oracle is
// out of reach there; a banded DP is exact because two sequences k edits apart
// have every alignment of score >= n-k within 2k of the main diagonal.  The
// kernel is called with a bound (an unbounded call costs ~8*L^2 cell updates).
type longLCSCase struct {
	Unit   string
	N      int
	Edits  []gen.Edit
	Bound  int
	Swap   bool
	Shared bool // one scratch buffer for the two calls
}

func init() { evid.Reg("lcs_very_long", checkVeryLong) }

func (c longLCSCase) pair() (string, string) {
	a := []byte(strings.Repeat(c.Unit, c.N/len(c.Unit)+1)[:c.N])
	// break the periodicity so that shifted alignments do not tie with the true one
	x := uint32(len(c.Unit))*2654435761 + uint32(c.N)
	for i := 0; i < len(a); i += 7 {
		x = x*1664525 + 1013904223
		a[i] = "acgt"[(x>>24)&3]
	}
	b := append([]byte{}, a...)
	for _, e := range c.Edits {
		p := e.Pos % max(1, len(b))
		switch e.Kind {
		case 's':
			b[p] = "acgt"[(strings.IndexByte("acgt", b[p])+1+int(e.Sym)%3)%4]
		case 'i':
			b = append(b[:p], append([]byte{"acgt"[int(e.Sym)%4]}, b[p:]...)...)
		case 'd':
			b = append(b[:p], b[p+1:]...)
		}
	}
	if c.Swap {
		return string(b), string(a)
	}
	return string(a), string(b)
}

func checkVeryLong(c longLCSCase) error {
	if len(c.Unit) == 0 || c.N < 1 {
		return nil
	}
	a, b := c.pair()
	k := len(c.Edits)
	L, AL := ref.LCSBanded(a, b, 2*k+4, ref.IUPACCompatible)
	if L < 0 {
		return fmt.Errorf("harness: banded oracle not applicable")
	}
	var buf []uint64
	var pbuf *[]uint64
	if c.Shared {
		pbuf = &buf
	}
	var s, l int
	out := fatal.Run(func() { s, l = obialign.FastLCSScore(bs(a), bs(b), c.Bound, pbuf) })
	if !out.Completed {
		return fmt.Errorf("FastLCSScore on two sequences of %d/%d nt (%d edits apart, bound %d) did not return: %v", len(a), len(b), k, c.Bound, out)
	}
	diff := AL - L
	if diff <= c.Bound {
		if s != L || l != AL {
			return fmt.Errorf("FastLCSScore on two sequences of %d/%d nt, %d edits apart, bound %d = (%d,%d); reference LCS=%d, shortest alignment=%d (differences %d are within the bound)", len(a), len(b), k, c.Bound, s, l, L, AL, diff)
		}
		return nil
	}
	if s == -1 && l == -1 {
		return nil
	}
	if s < 0 || l < s || l-s <= c.Bound {
		return fmt.Errorf("FastLCSScore on two sequences of %d/%d nt, bound %d = (%d,%d): a within-bound answer although the true difference is %d", len(a), len(b), c.Bound, s, l, diff)
	}
	return nil
}

func TestPropVeryLong(t *testing.T) {
	rapid.Check(t, func(rt *rapid.T) {
		var c longLCSCase
		c.Unit = gen.Seq(rt, "unit", rapid.SampledFrom([]int{97, 251, 1009}).Draw(rt, "unit_len"), gen.ACGT)
		c.N = rapid.SampledFrom([]int{8000, 16383, 16384, 20000, 32767, 32768, 40000, 60000}).Draw(rt, "n")
		k := rapid.IntRange(0, 8).Draw(rt, "edits")
		for i := 0; i < k; i++ {
			c.Edits = append(c.Edits, gen.Edit{Kind: "sid"[rapid.IntRange(0, 2).Draw(rt, "kind")], Pos: rapid.IntRange(0, c.N-1).Draw(rt, "pos"), Sym: byte(rapid.IntRange(0, 3).Draw(rt, "sym"))})
		}
		c.Bound = k + rapid.IntRange(-2, 4).Draw(rt, "bound_delta")
		if c.Bound < 0 {
			c.Bound = 0
		}
		c.Swap = rapid.Bool().Draw(rt, "swap")
		c.Shared = rapid.Bool().Draw(rt, "shared")
		evid.Eval("lcs_very_long", evid.Hash(fmt.Sprintf("%+v", c)), 2*c.N >= 32768, c, fmt.Sprintf("very_long:n=%d", c.N))
		if err := checkVeryLong(c); err != nil {
			evid.Fail(rt, "lcs_very_long", c, err)
		}
	})
}
