package c09

import (
	"testing"

	"verifharness/internal/evid"
)

// Native coverage-guided fuzzing of the LCS kernel against the reference DP
// (thorough tier only; the driver runs it with -test.fuzz for a bounded time).
func FuzzLCS(f *testing.F) {
	f.Add("acgt", "acvgt", 1)
	f.Add("aaaaaaaaaaaaaaaaaaaac", "acaaaaaaaaaaaaaaaaaaav", 2)
	f.Add("", "a", -1)
	f.Fuzz(func(t *testing.T, a, b string, bound int) {
		if len(a) > 400 || len(b) > 400 {
			return
		}
		clean := func(s string) string {
			out := make([]byte, 0, len(s))
			for i := 0; i < len(s); i++ {
				out = append(out, "acgtrymkwsbdhvn"[int(s[i])%15])
			}
			return string(out)
		}
		c := lcsCase{clean(a), clean(b), ((bound%12)+12)%12 - 1}
		if err := checkLCS(c); err != nil {
			evid.Fail(t, "lcs", c, err)
		}
		if err := checkD1(d1Case{c.A, c.B}); err != nil {
			evid.Fail(t, "d1or0", d1Case{c.A, c.B}, err)
		}
	})
}
