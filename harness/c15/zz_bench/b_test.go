package zz
import ("testing";"math/rand";"verifharness/internal/ref";"time")
func TestB(t *testing.T){
 r:=rand.New(rand.NewSource(1))
 mk:=func(n int)string{b:=make([]byte,n);for i:=range b{b[i]="acgt"[r.Intn(4)]};return string(b)}
 q:=mk(60)
 refs:=make([]string,130000)
 for i:=range refs{refs[i]=mk(40+r.Intn(41))}
 t0:=time.Now()
 s:=0
 eq:=func(x,y byte)bool{return x==y}
 for _,x:=range refs{l,a:=ref.LCS(q,x,eq);s+=a-l}
 t.Log(time.Since(t0),s)
}
