package c15

import (
	"fmt"
	"sort"

	"verifharness/internal/ref"
)

// ------------------------------------------------------------------ the case

// dbCase is one reference database (sequences + the taxonomy node of each), one
// query, and the list of references whose index is examined.
type dbCase struct {
	Refs []string // reference sequences (acgt, length 20..150); reference i has id "r<i>"
	Node []int    // Node[i] = node of Tree carrying reference i
	Tree ref.Tree // taxonomy (root = node 0, taxid 1)

	Query string // query sequence (acgt)

	// PreIndexed lists references that carry their obitag_ref_index before
	// Identify is called (as in a database written by obirefidx or by
	// obitag --save-db); the others are indexed lazily by Identify.
	PreIndexed []int `json:",omitempty"`
	// Targets lists the references whose IndexSequence map is examined.
	Targets []int `json:",omitempty"`
	// Stale lists references that carry, when IndexSequence is called, an
	// obitag_ref_index left by the indexing of another database (here: "distance 0
	// -> the root", what a database holding this reference and a distant copy of it
	// gives).  Building the index of a reference never reads such annotations.
	Stale []int `json:",omitempty"`
}

func (c *dbCase) validate() error {
	if len(c.Refs) < 1 || len(c.Refs) != len(c.Node) {
		return fmt.Errorf("harness: %d references, %d nodes", len(c.Refs), len(c.Node))
	}
	if err := c.Tree.Validate(); err != nil {
		return fmt.Errorf("harness: %v", err)
	}
	if c.Tree.Taxid[0] != 1 {
		return fmt.Errorf("harness: root taxid is %d, not 1", c.Tree.Taxid[0])
	}
	for i, n := range c.Node {
		if n < 0 || n >= c.Tree.N() {
			return fmt.Errorf("harness: reference %d on node %d out of range", i, n)
		}
		if len(c.Refs[i]) < 4 {
			return fmt.Errorf("harness: reference %d shorter than a 4-mer", i)
		}
	}
	if len(c.Query) < 4 {
		return fmt.Errorf("harness: query shorter than a 4-mer")
	}
	for _, l := range [][]int{c.PreIndexed, c.Targets, c.Stale} {
		for _, i := range l {
			if i < 0 || i >= len(c.Refs) {
				return fmt.Errorf("harness: reference index %d out of range", i)
			}
		}
	}
	return nil
}

func refID(i int) string { return fmt.Sprintf("r%d", i) }

// ------------------------------------------------------------------ distances (brute force)

func eq(x, y byte) bool { return x == y }

type ali struct{ d, lcs, al int }

// align is the distance the property speaks of: the independent full-matrix LCS
// (largest LCS, then shortest alignment realising it); distance = alignment
// length - LCS.
func align(a, b string) ali {
	l, al := ref.LCS(a, b, eq)
	return ali{al - l, l, al}
}

// model holds the brute-force answers for one case; pairwise reference
// alignments are computed on demand and kept.
type model struct {
	c    *dbCase
	q    []ali          // query against every reference
	rr   map[[2]int]ali // reference against reference
	dmin int
	best []int // references at the minimum, increasing index
}

func newModel(c *dbCase) *model {
	m := &model{c: c, rr: map[[2]int]ali{}}
	m.q = make([]ali, len(c.Refs))
	m.dmin = -1
	for i, r := range c.Refs {
		m.q[i] = align(c.Query, r)
		if m.dmin < 0 || m.q[i].d < m.dmin {
			m.dmin = m.q[i].d
		}
	}
	for i := range c.Refs {
		if m.q[i].d == m.dmin {
			m.best = append(m.best, i)
		}
	}
	return m
}

func (m *model) refDist(i, j int) int {
	if i == j {
		return 0
	}
	if i > j {
		i, j = j, i
	}
	k := [2]int{i, j}
	a, ok := m.rr[k]
	if !ok {
		a = align(m.c.Refs[i], m.c.Refs[j])
		m.rr[k] = a
	}
	return a.d
}

// bestIdentity is the largest LCS/alignment-length ratio among the best references.
func (m *model) bestIdentity() float64 {
	id := 0.0
	for _, b := range m.best {
		if v := float64(m.q[b].lcs) / float64(m.q[b].al); v > id {
			id = v
		}
	}
	return id
}

// lcaWithin is the tree LCA of the nodes of all references within distance d of
// reference r (r itself included).
func (m *model) lcaWithin(r, d int) (node int, members int) {
	node = m.c.Node[r]
	for j := range m.c.Refs {
		if m.refDist(r, j) <= d {
			node = m.c.Tree.LCA(node, m.c.Node[j])
			members++
		}
	}
	return
}

// expectedIndex is the index of reference r computed without any prefilter, by
// comparing r with every reference: distance 0, and every distance smaller than
// the length of r at which the LCA of the taxa of all references within that
// distance changes, each mapped to that LCA (a tree node).
func (m *model) expectedIndex(r int) map[int]int {
	n := len(m.c.Refs)
	order := make([]int, n)
	for i := range order {
		order[i] = i
	}
	dist := make([]int, n) // dist[j] = distance of reference j to r (looked up once per reference)
	for j := range dist {
		dist[j] = m.refDist(r, j)
	}
	sort.SliceStable(order, func(a, b int) bool { return dist[order[a]] < dist[order[b]] })
	idx := map[int]int{}
	cur := m.c.Node[r]
	prev := -1
	for i := 0; i < n; {
		d := dist[order[i]]
		for i < n && dist[order[i]] == d {
			cur = m.c.Tree.LCA(cur, m.c.Node[order[i]])
			i++
		}
		if (d == 0 || cur != prev) && d < len(m.c.Refs[r]) {
			idx[d] = cur
		}
		prev = cur
	}
	return idx
}

// selectEntry mirrors how Identify reads an index: the entry of the largest
// recorded distance <= d.
func selectEntry(idx map[int]int, d int) (node int, ok bool) {
	bestKey := -1
	for k := range idx {
		if k <= d && k > bestKey {
			bestKey = k
		}
	}
	if bestKey < 0 {
		return -1, false
	}
	return idx[bestKey], true
}

// expectedAssignment is the node Identify must assign: the root when the best
// identity is below 0.5 (the documented acceptance rule, mirrored), otherwise the
// LCA over the best references b of the LCA of all references within the best
// distance of b.
func (m *model) expectedAssignment() (node int, accepted bool) {
	if m.bestIdentity() < 0.5 {
		return 0, false
	}
	node = -1
	for _, b := range m.best {
		e, ok := selectEntry(m.expectedIndex(b), m.dmin)
		if !ok {
			e = 0
		}
		if node < 0 {
			node = e
		} else {
			node = m.c.Tree.LCA(node, e)
		}
	}
	return node, true
}

// ------------------------------------------------------------------ 4-mers (the harness' own count)

func kmers4(s string) map[string]int {
	m := map[string]int{}
	for i := 0; i+4 <= len(s); i++ {
		m[s[i:i+4]]++
	}
	return m
}

// shared4 is the number of shared 4-mer occurrences: sum over words of the smaller count.
func shared4(a, b map[string]int) int {
	s := 0
	for w, x := range a {
		if y := b[w]; y < x {
			s += y
		} else {
			s += x
		}
	}
	return s
}

// scanInfo describes, from the harness' own 4-mer counts and brute-force
// distances, how a decreasing-shared-4-mer scan behaves on the query.
type scanInfo struct {
	cw          []int
	skippable   int  // references sharing fewer than len(query)-3-4*dmin words: a sound scan stops before them
	firstLonger bool // the reference sharing most words (first scanned, first "current best") is longer than the query
	// a best reference shares fewer words than the bound computed from the length of
	// another, longer, best-or-earlier reference: the shape of the pinned-tree defect
	lengthBoundLoses bool
	shortAfterLong   bool // some best reference is >= 8 shorter than a reference scanned before it
}

func (m *model) scan() scanInfo {
	c := m.c
	qk := kmers4(c.Query)
	si := scanInfo{cw: make([]int, len(c.Refs))}
	for i, r := range c.Refs {
		si.cw[i] = shared4(qk, kmers4(r))
	}
	lq := len(c.Query)
	bound := lq - 3 - 4*m.dmin
	first := 0
	for i := range c.Refs {
		if si.cw[i] < bound {
			si.skippable++
		}
		if si.cw[i] > si.cw[first] {
			first = i
		}
	}
	si.firstLonger = len(c.Refs[first]) > lq
	for _, b := range m.best {
		for j := range c.Refs {
			if j == b || si.cw[j] < si.cw[b] {
				continue
			}
			// j is scanned no later than b (ties apart)
			dj := m.q[j].d
			if si.cw[b] < max(lq, len(c.Refs[j]))-3-4*dj {
				si.lengthBoundLoses = true
			}
			if len(c.Refs[j]) >= len(c.Refs[b])+8 {
				si.shortAfterLong = true
			}
		}
	}
	return si
}
