package c15

import (
	"fmt"
	"strings"
	"testing"

	"pgregory.net/rapid"

	"verifharness/internal/evid"
)

func caseKey(c *dbCase) uint64 {
	return evid.Hash(c.Query, strings.Join(c.Refs, ","), fmt.Sprint(c.Node), fmt.Sprint(c.Tree.Parent), fmt.Sprint(c.Tree.Taxid))
}

func bucket(n int, cuts ...int) string {
	for _, c := range cuts {
		if n <= c {
			return fmt.Sprintf("<=%d", c)
		}
	}
	return fmt.Sprintf(">%d", cuts[len(cuts)-1])
}

// searchClasses labels a case and tells whether it is non-trivial: at least two
// references tie at the minimal distance and at least one reference lies beyond
// the point where a sound decreasing-shared-4-mer scan stops.
func searchClasses(c *dbCase, m *model, info genInfo) (bool, []string) {
	si := m.scan()
	cl := []string{
		"query:" + info.QueryMode,
		"alphabet:" + info.Alphabet,
		"nrefs:" + bucket(len(c.Refs), 8, 25, 60),
		"ties:" + bucket(len(m.best), 1, 2, 4),
		"dmin:" + bucket(m.dmin, 0, 1, 2, 4, 8),
	}
	if si.skippable > 0 {
		cl = append(cl, "scan_stops_before_some_reference")
	}
	if si.firstLonger {
		cl = append(cl, "first_scanned_longer_than_query")
	}
	if si.lengthBoundLoses {
		cl = append(cl, "best_below_length_bound_of_earlier_longer_reference")
	}
	if si.shortAfterLong {
		cl = append(cl, "best_much_shorter_than_earlier_reference")
	}
	longer, shorter := false, false
	for _, b := range m.best {
		if len(c.Refs[b]) > len(c.Query) {
			longer = true
		}
		if len(c.Refs[b]) < len(c.Query) {
			shorter = true
		}
	}
	if longer {
		cl = append(cl, "best_longer_than_query")
	}
	if shorter {
		cl = append(cl, "best_shorter_than_query")
	}
	if longer && shorter {
		cl = append(cl, "bests_longer_and_shorter_than_query")
	}
	if m.bestIdentity() < 0.5 {
		cl = append(cl, "identity_below_0.5")
	}
	return len(m.best) >= 2 && si.skippable > 0, cl
}

// TestPropSearch: FindClosests (obitag and obitag2) and Identify against the brute force.
func TestPropSearch(t *testing.T) {
	rapid.Check(t, func(rt *rapid.T) {
		c, info := genDB(rt, 60, 25)
		propSearch(rt, c, info)
	})
}

// TestPropLong: the same checks (search, identify, index) on sequences of 150..560 nt:
// more than 255 4-mers per sequence, up to 500 occurrences of one word in tandem repeats.
func TestPropLong(t *testing.T) {
	rapid.Check(t, func(rt *rapid.T) {
		c, info := genDBLim(rt, 10, 12, longLimits)
		if rapid.Bool().Draw(rt, "index") {
			propIndex(rt, c, info, "lengths:long")
		} else {
			propSearch(rt, c, info, "lengths:long")
		}
	})
}

func propSearch(rt *rapid.T, c dbCase, info genInfo, more ...string) {
	{
		// references carrying their index beforehand: none, some, or all
		switch rapid.IntRange(0, 3).Draw(rt, "preindexed") {
		case 0:
			for i := range c.Refs {
				if len(c.Refs) <= 25 {
					c.PreIndexed = append(c.PreIndexed, i)
				}
			}
		case 1:
			c.PreIndexed = rapid.SliceOfN(rapid.IntRange(0, len(c.Refs)-1), 0, 8).Draw(rt, "preindexed_refs")
		}
		m := newModel(&c)
		nt, cl := searchClasses(&c, m, info)
		cl = append(cl, more...)
		key := caseKey(&c)

		evid.Eval("findclosests", key, nt, c, cl...)
		if err := findM(&c, m); err != nil {
			evid.Fail(rt, "findclosests", c, err)
		}
		evid.Eval("findclosests_obitag2", key, nt, c)
		if err := find2M(&c, m); err != nil {
			evid.Fail(rt, "findclosests_obitag2", c, err)
		}
		icl := []string{"identify_tree:" + info.TreeShape}
		if node, acc := m.expectedAssignment(); acc {
			deeper := false
			for _, b := range m.best {
				if c.Node[b] != node {
					deeper = true
				}
			}
			if deeper {
				icl = append(icl, "identify_assigns_strict_ancestor_of_a_best")
			}
			if node == 0 {
				icl = append(icl, "identify_assigns_root")
			}
		} else {
			icl = append(icl, "identify_rejects")
		}
		if len(c.PreIndexed) > 0 {
			icl = append(icl, "identify_preindexed_refs")
		}
		evid.Eval("identify", evid.Hash(key, fmt.Sprint(c.PreIndexed)), nt, c, icl...)
		if err := identifyM(&c, m); err != nil {
			evid.Fail(rt, "identify", c, err)
		}
	}
}

// TestPropIndex: IndexSequence of several references of a database against the
// index computed by comparing the reference with every reference.
func TestPropIndex(t *testing.T) {
	rapid.Check(t, func(rt *rapid.T) {
		c, info := genDB(rt, 30, 25)
		propIndex(rt, c, info)
	})
}

func propIndex(rt *rapid.T, c dbCase, info genInfo, more ...string) {
	{
		c.Targets = rapid.SliceOfN(rapid.IntRange(0, len(c.Refs)-1), 1, 6).Draw(rt, "targets")
		// one case in four: some references (the indexed ones among them, or all) carry the index of another database
		switch rapid.IntRange(0, 7).Draw(rt, "stale") {
		case 0:
			c.Stale = rapid.SliceOfN(rapid.IntRange(0, len(c.Refs)-1), 1, 8).Draw(rt, "stale_refs")
			c.Stale = append(c.Stale, c.Targets[0])
		case 1:
			for i := range c.Refs {
				c.Stale = append(c.Stale, i)
			}
		}
		m := newModel(&c)
		key := evid.Hash(caseKey(&c), fmt.Sprint(c.Stale))
		for _, r := range c.Targets {
			want := m.expectedIndex(r)
			maxKey := 0
			for d := range want {
				maxKey = max(maxKey, d)
			}
			// a reference that no bound in play can keep: a sound scan skips it
			rk := kmers4(c.Refs[r])
			skipped, hidden := 0, false
			for j, s := range c.Refs {
				cw := shared4(rk, kmers4(s))
				if cw < max(len(c.Refs[r]), len(s))-3-4*maxKey {
					skipped++
				}
				// a longer reference sharing as many words as the indexed one shares with itself
				if j != r && cw >= len(c.Refs[r])-3 && len(s) > len(c.Refs[r]) {
					hidden = true
				}
			}
			cl := append([]string{"index_entries:" + bucket(len(want), 1, 2, 3), "index_tree:" + info.TreeShape}, more...)
			if skipped > 0 {
				cl = append(cl, "index_scan_skips_some_reference")
			}
			if hidden {
				cl = append(cl, "index_longer_reference_contains_all_words")
			}
			if len(c.Stale) > 0 {
				cl = append(cl, "index_references_carry_index_of_another_database")
			}
			one := c
			one.Targets = []int{r}
			evid.Eval("indexsequence", evid.Hash(key, r), len(want) >= 2 && skipped > 0, one, cl...)
		}
		if err := indexM(&c, m); err != nil {
			evid.Fail(rt, "indexsequence", c, err)
		}
	}
}
