package c15

// The life of a reference database, through the real commands.
//
// The statement speaks of "the index built for a reference by obirefidx" and of
// "the search used by obitag": here both are the commands themselves, and the
// input of obirefidx is what a maintained database looks like - the output of an
// earlier indexing (obirefidx, or obitag --save-db which stores the indices
// obitag computed lazily for the best references of its queries) to which
// references were added, from which references were removed, whose taxids or
// sequences were corrected.  Such records enter the run carrying an
// obitag_ref_index computed for ANOTHER database.
//
// A case is a history: a list of database versions, each run through obirefidx
// (or obitag --save-db); every record of a version that exists in the output of
// the previous step enters with the annotation found there.  Judged:
//   - the output of EVERY obirefidx step: same records (id, sequence, taxid), each
//     carrying the index of the brute-force model on the database of that step
//     (judgeIndex: each recorded distance -> LCA of all references within it, and
//     the recorded distances of the prefilter-free computation);
//   - obitag -R <last output> on a few queries: taxid, obitag_match_count,
//     obitag_bestid and obitag_bestmatch equal the brute-force answers on the last
//     version (the same oracle as identifyM).
// The indices obitag --save-db leaves in an intermediate file are not judged
// (obitag trusts the indices it finds, by design; only obirefidx claims to build
// the index of the database it is given).

import (
	"bytes"
	"encoding/json"
	"errors"
	"fmt"
	"math"
	"os"
	"path/filepath"
	"sort"
	"strconv"
	"strings"
	"testing"

	"pgregory.net/rapid"

	"verifharness/internal/evid"
	"verifharness/internal/gen"
	"verifharness/internal/ref"
	"verifharness/internal/run"
)

func init() {
	evid.Reg("history", checkHist)
}

const ruleHist = "history: 2..3 versions of a database of 1..25 references (last version = the generator of the small cases; each earlier version = the next one with references left out (added later), taxids changed, sequences changed by 1..4 edits, and 0..3 close relatives present only then (removed later); record order permuted), each version run through the real obirefidx command (earlier versions also through obitag --save-db with one query), --max-cpu 1/2/4 and --batch-size default/1/3; every record already present in the previous output enters the next run with the obitag_ref_index annotation it received there. " +
	"Oracle: the output of every obirefidx step holds the records of its version, each with the brute-force index of THAT version (judgeIndex); obitag -R <last output> on 1..3 queries gives the brute-force taxid, obitag_match_count, obitag_bestid (tolerance 1e-12 on the printed decimal) and a best match among the brute-force best references. A command killed by its timer or by resource exhaustion = inconclusive, counted, not judged. " +
	"One evaluation = one history. Non-trivial = at least one record enters the LAST obirefidx run carrying an index that differs from the brute-force index it must leave with. Distinct = hash of (versions, step kinds and options, queries, taxonomy)."

// ------------------------------------------------------------------ the case

type hRec struct {
	ID   string
	Seq  string
	Node int
}

type hStep struct {
	Kind   string // "obirefidx": index the file; "obitag_save": obitag --save-db (indexes the best references of Query only)
	Recs   []hRec // the database at this step, in file order
	Query  string `json:",omitempty"`
	MaxCPU int    // --max-cpu
	Batch  int    // --batch-size (0 = default)
}

type histCase struct {
	Tree    ref.Tree
	Steps   []hStep  // the last step is an obirefidx step; record i of its version has id r<i>
	Queries []string // assigned by obitag with the last output
	TagCPU  int      // --max-cpu of the final obitag
}

func (c *histCase) validate() error {
	if err := c.Tree.Validate(); err != nil {
		return fmt.Errorf("harness: %v", err)
	}
	if len(c.Steps) < 1 || c.Steps[len(c.Steps)-1].Kind != "obirefidx" {
		return fmt.Errorf("harness: the last step must be an obirefidx step")
	}
	for k, s := range c.Steps {
		if len(s.Recs) == 0 {
			return fmt.Errorf("harness: step %d has no record", k)
		}
		if s.Kind != "obirefidx" && s.Kind != "obitag_save" {
			return fmt.Errorf("harness: step kind %q", s.Kind)
		}
		ids := map[string]bool{}
		for _, r := range s.Recs {
			if ids[r.ID] || r.ID == "" || strings.ContainsAny(r.ID, " \t\n{}\"") {
				return fmt.Errorf("harness: step %d: id %q empty, unsafe or used twice", k, r.ID)
			}
			ids[r.ID] = true
			if r.Node < 0 || r.Node >= c.Tree.N() || len(r.Seq) < 4 {
				return fmt.Errorf("harness: step %d: record %s node %d / length %d", k, r.ID, r.Node, len(r.Seq))
			}
		}
	}
	for i, r := range c.Steps[len(c.Steps)-1].Recs {
		if r.ID != refID(i) {
			return fmt.Errorf("harness: record %d of the last version is named %q", i, r.ID)
		}
	}
	return nil
}

// asDB is the version of step k as a case of the in-process checks (position = file order).
func (c *histCase) asDB(k int, query string) dbCase {
	db := dbCase{Tree: c.Tree, Query: query}
	for _, r := range c.Steps[k].Recs {
		db.Refs = append(db.Refs, r.Seq)
		db.Node = append(db.Node, r.Node)
	}
	return db
}

// ------------------------------------------------------------------ files

var errInconclusive = errors.New("inconclusive")

type outRec struct {
	seq   string
	annot map[string]json.RawMessage
}

// parseOut reads a FASTA file written by obirefidx / obitag: id -> sequence + annotations.
func parseOut(data []byte) (map[string]outRec, []string, error) {
	recs, err := ref.ParseFasta(data)
	if err != nil {
		return nil, nil, err
	}
	out := map[string]outRec{}
	var order []string
	for _, r := range recs {
		if _, dup := out[r.ID]; dup {
			return nil, nil, fmt.Errorf("record %s written twice", r.ID)
		}
		o := outRec{seq: strings.ToLower(r.Seq), annot: map[string]json.RawMessage{}}
		if js, _, ok := ref.SplitJSONTitle(r.Title); ok {
			if err := json.Unmarshal([]byte(js), &o.annot); err != nil {
				return nil, nil, fmt.Errorf("record %s: title %q: %v", r.ID, r.Title, err)
			}
		} else if strings.TrimSpace(r.Title) != "" {
			return nil, nil, fmt.Errorf("record %s: title %q does not start with a JSON object", r.ID, r.Title)
		}
		out[r.ID] = o
		order = append(order, r.ID)
	}
	return out, order, nil
}

// parseIndex decodes an obitag_ref_index annotation ({"<distance>": "taxid@name@rank", ...}).
func parseIndex(raw json.RawMessage) (map[int]string, error) {
	var m map[string]string
	if err := json.Unmarshal(raw, &m); err != nil {
		return nil, fmt.Errorf("obitag_ref_index %s: %v", raw, err)
	}
	idx := make(map[int]string, len(m))
	for k, v := range m {
		d, err := strconv.Atoi(k)
		if err != nil {
			return nil, fmt.Errorf("obitag_ref_index %s: key %q is not a distance", raw, k)
		}
		idx[d] = v
	}
	return idx, nil
}

func fastaIn(c *histCase, recs []hRec, carried map[string]json.RawMessage) []byte {
	var b bytes.Buffer
	for _, r := range recs {
		fmt.Fprintf(&b, ">%s {", r.ID)
		if raw, ok := carried[r.ID]; ok {
			fmt.Fprintf(&b, "\"obitag_ref_index\":%s,", raw)
		}
		fmt.Fprintf(&b, "\"taxid\":%d}\n", c.Tree.Taxid[r.Node])
		for s := r.Seq; len(s) > 0; {
			n := min(60, len(s))
			b.WriteString(s[:n] + "\n")
			s = s[n:]
		}
	}
	return b.Bytes()
}

// ------------------------------------------------------------------ the check

type histStats struct {
	staleAtLast  int // records entering the last run with an index that is not the one they must leave with
	carriedLast  int // records entering the last run with an index
	inconclusive bool
}

func checkHist(c histCase) error {
	_, err := runHist(&c)
	if errors.Is(err, errInconclusive) {
		return nil
	}
	return err
}

func cliArgs(maxCPU, batch int) []string {
	a := []string{"--no-progressbar", "--max-cpu", strconv.Itoa(max(1, maxCPU))}
	if batch > 0 {
		a = append(a, "--batch-size", strconv.Itoa(batch))
	}
	return append(a, "-t", "tax")
}

func runHist(c *histCase) (st histStats, err error) {
	if err := c.validate(); err != nil {
		return st, err
	}
	dir, e := os.MkdirTemp(run.WorkDir(), "hist")
	if e != nil {
		return st, fmt.Errorf("harness: %v", e)
	}
	defer os.RemoveAll(dir)
	write := func(name string, body []byte) error {
		if err := os.WriteFile(filepath.Join(dir, name), body, 0o644); err != nil {
			return fmt.Errorf("harness: %v", err)
		}
		return nil
	}
	if err := os.Mkdir(filepath.Join(dir, "tax"), 0o755); err != nil {
		return st, fmt.Errorf("harness: %v", err)
	}
	nodes, names, merged := c.Tree.NCBIDump(ref.DumpStyle{})
	for n, body := range map[string]string{"nodes.dmp": nodes, "names.dmp": names, "merged.dmp": merged} {
		if err := write(filepath.Join("tax", n), []byte(body)); err != nil {
			return st, err
		}
	}

	var history strings.Builder // what was run, for the error messages
	carried := map[string]json.RawMessage{}
	last := len(c.Steps) - 1
	var lastOut []byte
	for k, s := range c.Steps {
		in := fmt.Sprintf("db%d.in.fasta", k)
		input := fastaIn(c, s.Recs, carried)
		if err := write(in, input); err != nil {
			return st, err
		}
		ncarried := 0
		for _, r := range s.Recs {
			if _, ok := carried[r.ID]; ok {
				ncarried++
			}
		}
		var res run.Result
		var out []byte
		var cmdline string
		switch s.Kind {
		case "obirefidx":
			args := append(cliArgs(s.MaxCPU, s.Batch), in)
			cmdline = "obirefidx " + strings.Join(args, " ")
			res = run.Cmd(run.Opt{Dir: dir}, "obirefidx", args...)
			out = res.Stdout
		default:
			q := fmt.Sprintf("q%d.fasta", k)
			if err := write(q, []byte(">qs\n"+s.Query+"\n")); err != nil {
				return st, err
			}
			saved := fmt.Sprintf("db%d.saved.fasta", k)
			args := append(cliArgs(s.MaxCPU, s.Batch), "-R", in, "--save-db", saved, q)
			cmdline = "obitag " + strings.Join(args, " ")
			res = run.Cmd(run.Opt{Dir: dir}, "obitag", args...)
			if res.Exit == 0 && !res.Inconclusive() {
				out, e = os.ReadFile(filepath.Join(dir, saved))
				if e != nil {
					return st, fmt.Errorf("step %d: %s exited 0 but did not write %s: %v\nstderr: %s\n%s", k, cmdline, saved, e, tail(res.Stderr), history.String())
				}
			}
		}
		fmt.Fprintf(&history, "step %d: %s   (%d records, %d of them carrying the obitag_ref_index of the previous step)\n--- %s\n%s", k, cmdline, len(s.Recs), ncarried, in, input)
		if res.Inconclusive() {
			st.inconclusive = true
			return st, errInconclusive
		}
		if res.Exit != 0 {
			return st, fmt.Errorf("step %d: %s: exit status %d\nstderr: %s\n%s", k, cmdline, res.Exit, tail(res.Stderr), history.String())
		}
		recs, _, perr := parseOut(out)
		if perr != nil {
			return st, fmt.Errorf("step %d: %s: output not understood: %v\n%s--- output\n%s", k, cmdline, perr, history.String(), out)
		}
		if s.Kind == "obirefidx" {
			db := c.asDB(k, s.Recs[0].Seq)
			m := newModel(&db)
			if k == last {
				// how many records came in with an index that is not the right one (non-triviality)
				for i, r := range s.Recs {
					raw, ok := carried[r.ID]
					if !ok {
						continue
					}
					st.carriedLast++
					old, perr := parseIndex(raw)
					if perr != nil || judgeIndex(&db, m, i, old) != nil {
						st.staleAtLast++
					}
				}
			}
			fail := func(format string, a ...any) error {
				return fmt.Errorf("step %d: %s: %s\n%s--- output\n%s", k, cmdline, fmt.Sprintf(format, a...), history.String(), out)
			}
			if len(recs) != len(s.Recs) {
				return st, fail("%d records written for %d references with a taxid of the taxonomy", len(recs), len(s.Recs))
			}
			for i, r := range s.Recs {
				o, ok := recs[r.ID]
				if !ok {
					return st, fail("reference %s is missing from the output", r.ID)
				}
				if o.seq != r.Seq {
					return st, fail("reference %s is written with the sequence %s", r.ID, o.seq)
				}
				if string(o.annot["taxid"]) != strconv.Itoa(c.Tree.Taxid[r.Node]) {
					return st, fail("reference %s (taxid %d) is written with taxid %s", r.ID, c.Tree.Taxid[r.Node], o.annot["taxid"])
				}
				raw, ok := o.annot["obitag_ref_index"]
				if !ok {
					return st, fail("reference %s is written without obitag_ref_index", r.ID)
				}
				idx, perr := parseIndex(raw)
				if perr != nil {
					return st, fail("reference %s: %v", r.ID, perr)
				}
				if jerr := judgeIndex(&db, m, i, idx); jerr != nil {
					came := "it entered the run without index"
					if old, ok := carried[r.ID]; ok {
						came = fmt.Sprintf("it entered the run carrying obitag_ref_index %s", old)
					}
					return st, fail("reference %s (position %d, written r%d below): %s; the index written by obirefidx is not the index of this database:\n%v", r.ID, i, i, came, jerr)
				}
			}
		}
		carried = map[string]json.RawMessage{}
		for id, o := range recs {
			if raw, ok := o.annot["obitag_ref_index"]; ok {
				carried[id] = raw
			}
		}
		lastOut = out
	}

	// ---- obitag with the database obirefidx wrote
	if len(c.Queries) == 0 {
		return st, nil
	}
	if err := write("final.fasta", lastOut); err != nil {
		return st, err
	}
	var qb bytes.Buffer
	for i, q := range c.Queries {
		fmt.Fprintf(&qb, ">q%d\n%s\n", i, q)
	}
	if err := write("queries.fasta", qb.Bytes()); err != nil {
		return st, err
	}
	args := append(cliArgs(c.TagCPU, 0), "-R", "final.fasta", "queries.fasta")
	cmdline := "obitag " + strings.Join(args, " ")
	res := run.Cmd(run.Opt{Dir: dir}, "obitag", args...)
	if res.Inconclusive() {
		st.inconclusive = true
		return st, errInconclusive
	}
	if res.Exit != 0 {
		return st, fmt.Errorf("%s (final.fasta = output of the last step): exit status %d\nstderr: %s\n%s", cmdline, res.Exit, tail(res.Stderr), history.String())
	}
	tagged, _, perr := parseOut(res.Stdout)
	if perr != nil {
		return st, fmt.Errorf("%s: output not understood: %v\n--- output\n%s", cmdline, perr, res.Stdout)
	}
	for i, q := range c.Queries {
		db := c.asDB(last, q)
		m := newModel(&db)
		wantNode, _ := m.expectedAssignment()
		fail := func(format string, a ...any) error {
			return fmt.Errorf("%s (final.fasta = output of the last step), query q%d: %s\nbrute force on the last version: minimal distance %d reached by %s, best identity %v, expected taxid %d\n%staxonomy parents (by node): %v taxids: %v\n%s--- final.fasta\n%s--- obitag output\n%s",
				cmdline, i, fmt.Sprintf(format, a...), m.dmin, idsOf(m.best), m.bestIdentity(), c.Tree.Taxid[wantNode], describe(&db, m), c.Tree.Parent, c.Tree.Taxid, history.String(), lastOut, res.Stdout)
		}
		o, ok := tagged[fmt.Sprintf("q%d", i)]
		if !ok {
			return st, fail("the query is missing from the output")
		}
		taxid, e := strconv.Atoi(string(o.annot["taxid"]))
		if e != nil {
			return st, fail("taxid annotation is %s", o.annot["taxid"])
		}
		node, _, ok := c.Tree.Resolve(taxid)
		if !ok {
			return st, fail("the assigned taxid %d is not in the taxonomy", taxid)
		}
		for _, b := range m.best {
			if !c.Tree.IsAncestorOrSelf(node, db.Node[b]) {
				return st, fail("the assigned taxid %d is not an ancestor-or-self of taxid %d, the taxon of best reference %s", taxid, c.Tree.Taxid[db.Node[b]], refID(b))
			}
		}
		if node != wantNode {
			return st, fail("the assigned taxid is %d", taxid)
		}
		if string(o.annot["obitag_match_count"]) != strconv.Itoa(len(m.best)) {
			return st, fail("obitag_match_count is %s, %d references are at the minimal distance", o.annot["obitag_match_count"], len(m.best))
		}
		bid, e := strconv.ParseFloat(string(o.annot["obitag_bestid"]), 64)
		if e != nil || math.Abs(bid-m.bestIdentity()) > 1e-12 {
			return st, fail("obitag_bestid is %s", o.annot["obitag_bestid"])
		}
		var bm string
		okMatch := false
		if json.Unmarshal(o.annot["obitag_bestmatch"], &bm) == nil {
			for _, b := range m.best {
				if refID(b) == bm {
					okMatch = true
				}
			}
		}
		if !okMatch {
			return st, fail("obitag_bestmatch is %s, not a reference at the minimal distance", o.annot["obitag_bestmatch"])
		}
	}
	return st, nil
}

func tail(b []byte) string {
	if len(b) > 3000 {
		b = b[len(b)-3000:]
	}
	return string(b)
}

// ------------------------------------------------------------------ the generator

// earlierVersion derives the version that preceded cur: references added since are
// left out, taxids and sequences corrected since are changed back, references
// removed since (close relatives of kept ones) are present.
func earlierVersion(t *rapid.T, label string, cur []hRec, ntax int, alphabet string, extraID *int) ([]hRec, []string) {
	var prev []hRec
	var cl []string
	for i, r := range cur {
		switch op := rapid.IntRange(0, 19).Draw(t, fmt.Sprintf("%s_op%d", label, i)); {
		case op < 9: // unchanged
			prev = append(prev, r)
		case op < 13: // added later
			cl = append(cl, "history_reference_added")
		case op < 16: // taxid corrected later
			r.Node = rapid.IntRange(0, ntax-1).Draw(t, fmt.Sprintf("%s_node%d", label, i))
			prev = append(prev, r)
			cl = append(cl, "history_taxid_changed")
		default: // sequence corrected later
			k := rapid.IntRange(1, 4).Draw(t, fmt.Sprintf("%s_k%d", label, i))
			s, _ := gen.Mutate(t, fmt.Sprintf("%s_mut%d", label, i), r.Seq, k, alphabet, "sid")
			r.Seq = clip(t, fmt.Sprintf("%s_clip%d", label, i), s, minRefLen, maxRefLen, alphabet)
			prev = append(prev, r)
			cl = append(cl, "history_sequence_changed")
		}
	}
	for x := rapid.IntRange(0, 3).Draw(t, label+"_nextra"); x > 0; x-- {
		lab := fmt.Sprintf("%s_extra%d", label, x)
		p := cur[rapid.IntRange(0, len(cur)-1).Draw(t, lab+"_of")]
		s, _ := gen.Mutate(t, lab, p.Seq, rapid.IntRange(0, 3).Draw(t, lab+"_k"), alphabet, "sid")
		s = clip(t, lab+"_clip", s, minRefLen, maxRefLen, alphabet)
		prev = append(prev, hRec{ID: fmt.Sprintf("x%d", *extraID), Seq: s, Node: rapid.IntRange(0, ntax-1).Draw(t, lab+"_node")})
		*extraID++
		cl = append(cl, "history_reference_removed")
	}
	if len(prev) == 0 {
		prev = append(prev, cur[0])
	}
	perm := rapid.Permutation(prev).Draw(t, label+"_order")
	if rapid.Bool().Draw(t, label+"_keep_order") {
		perm = prev
	}
	return perm, cl
}

func genHist(t *rapid.T) (histCase, []string) {
	var c histCase
	db, info := genDB(t, 25, 12)
	c.Tree = db.Tree
	final := make([]hRec, len(db.Refs))
	for i := range db.Refs {
		final[i] = hRec{ID: refID(i), Seq: db.Refs[i], Node: db.Node[i]}
	}
	cl := []string{"history_alphabet:" + info.Alphabet, "history_tree:" + info.TreeShape, "history_nrefs:" + bucket(len(final), 3, 8, 25)}

	cpus := []int{1, 2, 2, 4}
	batches := []int{0, 0, 1, 3}
	versions := [][]hRec{final}
	nprev := rapid.SampledFrom([]int{1, 1, 1, 2}).Draw(t, "nprev")
	extra := 0
	for v := 0; v < nprev; v++ {
		p, pcl := earlierVersion(t, fmt.Sprintf("v%d", v), versions[0], c.Tree.N(), info.Alphabet, &extra)
		versions = append([][]hRec{p}, versions...)
		if v == 0 {
			cl = append(cl, pcl...)
		}
	}
	cl = append(cl, fmt.Sprintf("history_steps:%d", len(versions)))
	for k, recs := range versions {
		s := hStep{Kind: "obirefidx", Recs: recs,
			MaxCPU: rapid.SampledFrom(cpus).Draw(t, fmt.Sprintf("cpu%d", k)),
			Batch:  rapid.SampledFrom(batches).Draw(t, fmt.Sprintf("batch%d", k))}
		if k < len(versions)-1 && rapid.IntRange(0, 3).Draw(t, fmt.Sprintf("kind%d", k)) == 0 {
			s.Kind = "obitag_save"
			p := recs[rapid.IntRange(0, len(recs)-1).Draw(t, fmt.Sprintf("saveq%d_of", k))]
			q, _ := gen.Mutate(t, fmt.Sprintf("saveq%d", k), p.Seq, rapid.IntRange(0, 3).Draw(t, fmt.Sprintf("saveq%d_k", k)), info.Alphabet, "sid")
			s.Query = clip(t, fmt.Sprintf("saveq%d_clip", k), q, 8, 180, info.Alphabet)
			cl = append(cl, "history_step_obitag_save_db")
		}
		c.Steps = append(c.Steps, s)
	}
	c.Queries = []string{db.Query}
	for x := rapid.IntRange(0, 2).Draw(t, "nqueries"); x > 0; x-- {
		lab := fmt.Sprintf("query%d", x)
		p := final[rapid.IntRange(0, len(final)-1).Draw(t, lab+"_of")]
		q, _ := gen.Mutate(t, lab, p.Seq, rapid.IntRange(0, 4).Draw(t, lab+"_k"), info.Alphabet, "sid")
		c.Queries = append(c.Queries, clip(t, lab+"_clip", q, 8, 180, info.Alphabet))
	}
	c.TagCPU = rapid.SampledFrom(cpus).Draw(t, "tagcpu")
	return c, cl
}

func histKey(c *histCase) uint64 {
	b, _ := json.Marshal(c)
	return evid.Hash(string(b))
}

// TestPropHistory: obirefidx on databases whose records carry the index of an
// earlier version, then obitag with the result, against the brute force.
func TestPropHistory(t *testing.T) {
	if !run.Have("obirefidx") || !run.Have("obitag") {
		t.Fatalf("the driver did not build obirefidx / obitag (VERIF_BIN=%q)", os.Getenv("VERIF_BIN"))
	}
	rapid.Check(t, func(rt *rapid.T) {
		c, cl := genHist(rt)
		st, err := runHist(&c)
		if errors.Is(err, errInconclusive) {
			evid.Class("timeout_inconclusive", 1)
			return
		}
		if st.carriedLast > 0 {
			cl = append(cl, "history_last_run_gets_indexed_records")
		}
		if st.staleAtLast > 0 {
			cl = append(cl, "history_last_run_gets_stale_index:"+bucket(st.staleAtLast, 1, 3, 8))
		}
		sort.Strings(cl)
		cl = dedup(cl)
		evid.Eval("history", histKey(&c), st.staleAtLast > 0, c, cl...)
		if err != nil {
			evid.Fail(rt, "history", c, err)
		}
	})
}

func dedup(sorted []string) []string {
	out := sorted[:0]
	for i, s := range sorted {
		if i == 0 || s != sorted[i-1] {
			out = append(out, s)
		}
	}
	return out
}
