package c15

// Big reference databases: more references than any 16-bit (or 17-bit) counter
// holds.  The statement quantifies over "every reference database"; real ones
// hold 10^5..10^6 sequences, the small cases of TestPropSearch stop at 60.
//
// A case stores only what is needed to rebuild the database: the seed of the
// background references (short random sequences, rebuilt by a splitmix64
// stream), the number of references, the query and a few planted references
// (relatives of the query: copies, 1..3 edits, ends changed) with the position
// each takes in the database - in particular positions beyond 65536 and 131072,
// the last position, and pairs of positions 65536 apart.  The oracle is the same
// brute force as everywhere in the package (the query, and every reference whose
// index is examined, is aligned with EVERY reference of the database); only the
// inner loop is a faster transcription of ref.LCS, cross-checked against ref.LCS
// itself on the planted references, on every reference near the minimum and on a
// regular sample of the others.

import (
	"fmt"
	"sort"
	"testing"

	"pgregory.net/rapid"

	"verifharness/internal/evid"
	"verifharness/internal/gen"
	"verifharness/internal/ref"
)

func init() {
	evid.Reg("bigdb", checkBig)
}

const ruleBigDB = "bigdb: a database of 65537..140000 (thorough: up to 200000) references = background of random sequences (acgt or acg, lengths in a drawn window inside 30..60) rebuilt from a stored seed, in which 1..4 planted relatives of the query (0..3 edits of a drawn kind mix, ends possibly changed, exact duplicates of each other) replace the references at drawn positions (the first one always at 65536 or beyond and among the closest): anywhere below 65536, 65535/65536/65537, anywhere beyond 65536, 131071/131072/131073 and beyond, the last position, and pairs of positions exactly 65536 apart; taxonomy of 1..12 nodes. " +
	"Oracle: the query and every planted reference are aligned with EVERY reference (full-matrix LCS, cross-checked against ref.LCS); obitag.FindClosests (distance, set of positions both directions, no duplicate, best identity, best match), obirefidx.IndexSequence of every planted reference, obitag.Identify (taxid, obitag_match_count, obitag_bestid, obitag2 BestConsensus on the indices) are judged exactly as in the small cases. obitag2.FindClosests is left out (it stops after 1000 candidates on purpose). " +
	"One evaluation = one database judged. Non-trivial = more than 65536 references and at least one brute-force best reference at a position >= 65536. Distinct = hash of (seed, size, length window, alphabet, query, planted references, taxonomy)."

// ------------------------------------------------------------------ the case

type plant struct {
	Index int    // position taken in the database
	Seq   string // the planted reference
	Node  int    // its taxonomy node
}

type bigCase struct {
	Seed     uint64 // seed of the background references
	N        int    // number of references
	MinLen   int    // background lengths: MinLen..MaxLen
	MaxLen   int
	Alphabet string
	Query    string
	Plants   []plant
	Tree     ref.Tree
	// PreIndex: the planted references carry their obitag_ref_index before
	// Identify is called (otherwise Identify indexes its best references itself)
	PreIndex bool `json:",omitempty"`
}

func splitmix(x *uint64) uint64 {
	*x += 0x9e3779b97f4a7c15
	z := *x
	z = (z ^ (z >> 30)) * 0xbf58476d1ce4e5b9
	z = (z ^ (z >> 27)) * 0x94d049bb133111eb
	return z ^ (z >> 31)
}

func (c *bigCase) validate() error {
	if c.N < 2 || c.N > 300000 {
		return fmt.Errorf("harness: %d references", c.N)
	}
	if c.MinLen < 4 || c.MaxLen < c.MinLen || c.MaxLen > 1000 || len(c.Alphabet) < 2 {
		return fmt.Errorf("harness: background lengths %d..%d over %q", c.MinLen, c.MaxLen, c.Alphabet)
	}
	seen := map[int]bool{}
	for _, p := range c.Plants {
		if p.Index < 0 || p.Index >= c.N || seen[p.Index] {
			return fmt.Errorf("harness: planted position %d out of range or used twice", p.Index)
		}
		seen[p.Index] = true
	}
	return nil
}

// expand rebuilds the database: a pure function of the case.
func (c *bigCase) expand() dbCase {
	db := dbCase{Refs: make([]string, c.N), Node: make([]int, c.N), Tree: c.Tree, Query: c.Query}
	ntax := max(1, c.Tree.N())
	na := uint64(len(c.Alphabet))
	buf := make([]byte, c.MaxLen)
	for i := 0; i < c.N; i++ {
		st := c.Seed ^ (uint64(i)+1)*0xd1342543de82ef95
		r := splitmix(&st)
		n := c.MinLen + int(r%uint64(c.MaxLen-c.MinLen+1))
		db.Node[i] = int((r >> 32) % uint64(ntax))
		var w uint64
		for k := 0; k < n; k++ {
			if k%12 == 0 {
				w = splitmix(&st)
			}
			buf[k] = c.Alphabet[w%na]
			w /= na
		}
		db.Refs[i] = string(buf[:n])
	}
	for _, p := range c.Plants {
		db.Refs[p.Index] = p.Seq
		db.Node[p.Index] = p.Node
		db.Targets = append(db.Targets, p.Index)
		if c.PreIndex {
			db.PreIndexed = append(db.PreIndexed, p.Index)
		}
	}
	return db
}

// ------------------------------------------------------------------ brute force, fast transcription

// fastAlign is ref.LCS with strict equality, transcribed for speed: a cell
// (score s, path length l) is packed as s<<16 - l, so that "higher score, then
// shorter path" is the order of the integers.  Lengths stay far below 32768.
func fastAlign(a, b string, bufp *[]int32) ali {
	n, m := len(a), len(b)
	if cap(*bufp) < 2*(m+1) {
		*bufp = make([]int32, 2*(m+1))
	}
	buf := (*bufp)[:2*(m+1)]
	prev, cur := buf[:m+1], buf[m+1:]
	for j := 0; j <= m; j++ {
		prev[j] = int32(-j)
	}
	for i := 1; i <= n; i++ {
		cur[0] = int32(-i)
		ai := a[i-1]
		for j := 1; j <= m; j++ {
			d := prev[j-1] - 1
			if ai == b[j-1] {
				d += 1 << 16
			}
			if u := prev[j] - 1; u > d {
				d = u
			}
			if l := cur[j-1] - 1; l > d {
				d = l
			}
			cur[j] = d
		}
		prev, cur = cur, prev
	}
	v := prev[m]
	s := (v + 0xFFFF) >> 16
	l := s<<16 - v
	return ali{int(l - s), int(s), int(l)}
}

// bigModel is newModel for a big database: the query against every reference
// by fastAlign; the fast transcription is cross-checked against ref.LCS on every
// reference within 2 of the minimum, on the planted references and on one
// reference in 2048.
func bigModel(c *dbCase) (*model, error) {
	if len(c.Query) > 30000 {
		return nil, fmt.Errorf("harness: query too long for the packed cells")
	}
	var buf []int32
	m := &model{c: c, rr: map[[2]int]ali{}}
	m.q = make([]ali, len(c.Refs))
	m.dmin = -1
	for i, r := range c.Refs {
		m.q[i] = fastAlign(c.Query, r, &buf)
		if m.dmin < 0 || m.q[i].d < m.dmin {
			m.dmin = m.q[i].d
		}
	}
	planted := map[int]bool{}
	for _, t := range c.Targets {
		planted[t] = true
	}
	for i, r := range c.Refs {
		if m.q[i].d == m.dmin {
			m.best = append(m.best, i)
		}
		if m.q[i].d <= m.dmin+2 || planted[i] || i%2048 == 7 {
			if slow := align(c.Query, r); slow != m.q[i] {
				return nil, fmt.Errorf("harness: fast LCS %+v differs from ref.LCS %+v on query %s / reference %s", m.q[i], slow, c.Query, r)
			}
		}
	}
	return m, nil
}

// bigPairs fills the reference-against-reference table of the model for every
// reference of `indexed` (against EVERY reference), with the same cross-check.
func bigPairs(m *model, indexed []int) error {
	c := m.c
	var buf []int32
	planted := map[int]bool{}
	for _, t := range c.Targets {
		planted[t] = true
	}
	for _, r := range indexed {
		for j := range c.Refs {
			if j == r {
				continue
			}
			lo, hi := min(r, j), max(r, j)
			k := [2]int{lo, hi}
			if _, ok := m.rr[k]; ok {
				continue
			}
			a := fastAlign(c.Refs[lo], c.Refs[hi], &buf)
			if a.d <= 3 || planted[j] || j%2048 == 11 {
				if slow := align(c.Refs[lo], c.Refs[hi]); slow != a {
					return fmt.Errorf("harness: fast LCS %+v differs from ref.LCS %+v on references %s / %s", a, slow, c.Refs[lo], c.Refs[hi])
				}
			}
			m.rr[k] = a
		}
	}
	return nil
}

// ------------------------------------------------------------------ the check

func checkBig(c bigCase) error {
	db, m, err := c.model()
	if err != nil {
		return err
	}
	return judgeBig(db, m)
}

// model rebuilds the database of the case and the brute-force answers for the query.
func (c *bigCase) model() (*dbCase, *model, error) {
	if err := c.validate(); err != nil {
		return nil, nil, err
	}
	db := c.expand()
	if err := db.validate(); err != nil {
		return nil, nil, err
	}
	m, err := bigModel(&db)
	return &db, m, err
}

func judgeBig(db *dbCase, m *model) error {
	// the references whose index is examined: the planted ones, and whatever else
	// ties at the minimum (beyond 8 of them the slow path of the model still answers)
	indexed := append([]int{}, db.Targets...)
	for _, b := range m.best {
		isTarget := false
		for _, t := range db.Targets {
			isTarget = isTarget || t == b
		}
		if !isTarget && len(indexed) < len(db.Targets)+8 {
			indexed = append(indexed, b)
		}
	}
	if err := bigPairs(m, indexed); err != nil {
		return err
	}
	if err := findM(db, m); err != nil {
		return err
	}
	// identifyM judges the index of every best reference; the other planted
	// references are indexed here
	rest := *db
	rest.Targets = nil
	for _, t := range db.Targets {
		if m.q[t].d != m.dmin {
			rest.Targets = append(rest.Targets, t)
		}
	}
	if len(rest.Targets) > 0 {
		if err := indexM(&rest, m); err != nil {
			return err
		}
	}
	return identifyM(db, m)
}

// ------------------------------------------------------------------ the generator

// bigPositions draws the positions of np planted references in a database of n.
func bigPositions(t *rapid.T, n, np int) ([]int, []string) {
	used := map[int]bool{}
	var pos []int
	var kinds []string
	add := func(p int, kind string) bool {
		if p < 0 || p >= n || used[p] {
			return false
		}
		used[p] = true
		pos = append(pos, p)
		kinds = append(kinds, kind)
		return true
	}
	for k := 0; len(pos) < np; k++ {
		label := fmt.Sprintf("pos%d", k)
		kind := rapid.IntRange(0, 15).Draw(t, label+"_kind")
		if k == 0 && kind < 4 {
			kind += 4 // the first planted reference is always beyond 65536
		}
		switch {
		case kind <= 1: // anywhere in the first 65536
			add(rapid.IntRange(0, min(n, 65536)-1).Draw(t, label), "low")
		case kind == 2:
			add(0, "first")
		case kind == 3:
			add(65535, "65535")
		case kind == 4:
			add(65536, "65536")
		case kind == 5:
			add(65537, "65537")
		case kind <= 8: // anywhere beyond 65536
			if n > 65536 {
				add(rapid.IntRange(65536, n-1).Draw(t, label), "high")
			}
		case kind == 9:
			add(n-1, "last")
		case kind == 10:
			add(131071, "131071")
		case kind == 11:
			add(131072, "131072")
		case kind == 12:
			if n > 131072 {
				add(rapid.IntRange(131072, n-1).Draw(t, label), "beyond_131072")
			} else {
				add(n-2, "last_but_one")
			}
		default: // a pair of positions exactly 65536 apart (both planted when room is left)
			if n > 65536 {
				p := rapid.IntRange(0, n-65537).Draw(t, label)
				if !used[p] && !used[p+65536] {
					add(p+65536, "pair_high")
					if len(pos) < np {
						add(p, "pair_low")
					}
				}
			}
		}
		if k > 200 { // positions are plentiful: never reached, keeps the loop finite by construction
			for p := n - 1; len(pos) < np; p-- {
				add(p, "fill")
			}
		}
	}
	return pos, kinds
}

func genBig(t *rapid.T) (bigCase, []string) {
	var c bigCase
	var cl []string
	c.Seed = rapid.Uint64().Draw(t, "seed")
	hi := evid.Pick(140000, 200000)
	switch rapid.IntRange(0, 7).Draw(t, "size") {
	case 0:
		c.N = rapid.IntRange(65537, 65600).Draw(t, "n")
	case 1, 2, 3:
		c.N = rapid.IntRange(65601, 100000).Draw(t, "n")
	case 4:
		c.N = rapid.IntRange(100001, 131080).Draw(t, "n")
	case 5, 6:
		c.N = rapid.IntRange(131073, 140000).Draw(t, "n")
	default:
		c.N = rapid.IntRange(131073, hi).Draw(t, "n")
	}
	c.Alphabet = rapid.SampledFrom([]string{"acgt", "acgt", "acgt", "acg"}).Draw(t, "alphabet")
	c.MinLen = rapid.IntRange(30, 45).Draw(t, "minlen")
	c.MaxLen = c.MinLen + rapid.IntRange(0, 15).Draw(t, "lenspan")
	c.Query = gen.Seq(t, "query", rapid.IntRange(c.MinLen, c.MaxLen).Draw(t, "query_len"), c.Alphabet)

	ntax := gen.Len(t, "ntax", 1, 12, 2, 3)
	shape := rapid.SampledFrom(gen.TreeShapes).Draw(t, "shape")
	c.Tree, _ = gen.Tree(t, "tax", ntax, shape, 0, 0)
	rootTaxid1(&c.Tree)
	clade := []int{}
	anchor := rapid.IntRange(0, ntax-1).Draw(t, "anchor")
	for x := 0; x < ntax; x++ {
		if c.Tree.IsAncestorOrSelf(anchor, x) {
			clade = append(clade, x)
		}
	}

	np := rapid.SampledFrom([]int{1, 2, 2, 3, 3, 4}).Draw(t, "nplants")
	pos, kinds := bigPositions(t, c.N, np)
	// every planted reference is a relative of the query; the first edit count drawn is
	// shared by some of the others so that ties at the minimum are frequent
	k0 := rapid.SampledFrom([]int{0, 0, 1, 1, 2, 3}).Draw(t, "k0")
	for i, p := range pos {
		label := fmt.Sprintf("plant%d", i)
		var s string
		mode := rapid.IntRange(0, 5).Draw(t, label+"_mode")
		if i == 0 {
			mode = 1 // the first planted reference (always beyond 65536) is among the closest
		}
		switch {
		case mode == 0: // exact duplicate of an earlier planted reference
			s = c.Plants[rapid.IntRange(0, i-1).Draw(t, label+"_dup")].Seq
		case mode <= 3: // k0 edits of a drawn kind mix: ties with the other such relatives
			kindsMix := rapid.SampledFrom(editKinds).Draw(t, label+"_kinds")
			s, _ = gen.Mutate(t, label, c.Query, k0, c.Alphabet, kindsMix)
			s = clip(t, label+"_clip", s, minRefLen, maxRefLen, c.Alphabet)
		default: // farther away, ends possibly changed
			s, _ = derive(t, label, c.Query, []int{k0, k0 + 1, k0 + 1, k0 + 2, k0 + 3}, c.Alphabet, minRefLen, maxRefLen)
		}
		c.Plants = append(c.Plants, plant{Index: p, Seq: s, Node: drawNode(t, label, clade, ntax)})
		cl = append(cl, "bigdb_planted_at:"+kinds[i])
	}
	sort.Slice(c.Plants, func(a, b int) bool { return c.Plants[a].Index < c.Plants[b].Index })
	c.PreIndex = rapid.IntRange(0, 2).Draw(t, "preindex") == 0
	if c.PreIndex {
		cl = append(cl, "bigdb_planted_preindexed")
	}
	cl = append(cl, "bigdb_alphabet:"+c.Alphabet, "bigdb_tree:"+shape)
	return c, cl
}

func bigKey(c *bigCase) uint64 {
	return evid.Hash(c.Seed, c.N, c.MinLen, c.MaxLen, c.Alphabet, c.Query, fmt.Sprint(c.Plants), c.PreIndex, fmt.Sprint(c.Tree.Parent), fmt.Sprint(c.Tree.Taxid))
}

// TestPropBigDB: FindClosests, IndexSequence and Identify on databases of more
// than 65536 references against the brute force.
func TestPropBigDB(t *testing.T) {
	rapid.Check(t, func(rt *rapid.T) {
		c, cl := genBig(rt)
		// labels that need the brute force: where the best references sit
		db, m, err := c.model()
		if err != nil {
			rt.Fatalf("%v", err)
		}
		dmin, best := m.dmin, m.best
		beyond := false
		for _, b := range best {
			switch {
			case b >= 131072:
				cl = append(cl, "bigdb_best_beyond_131072")
				beyond = true
			case b >= 65536:
				cl = append(cl, "bigdb_best_beyond_65536")
				beyond = true
			default:
				cl = append(cl, "bigdb_best_below_65536")
			}
			if b == c.N-1 {
				cl = append(cl, "bigdb_best_is_last")
			}
			for _, o := range best {
				if o == b+65536 {
					cl = append(cl, "bigdb_bests_65536_apart")
				}
			}
		}
		cl = append(cl, "bigdb_n:"+bucket(c.N, 65536, 100000, 131072, 140000), "bigdb_ties:"+bucket(len(best), 1, 2, 4), "bigdb_dmin:"+bucket(dmin, 0, 1, 2, 4))
		evid.Eval("bigdb", bigKey(&c), c.N > 65536 && beyond, c, cl...)
		if err := judgeBig(db, m); err != nil {
			evid.Fail(rt, "bigdb", c, err)
		}
	})
}
