package c15

import (
	"fmt"
	"sort"
	"strconv"
	"strings"

	"git.metabarcoding.org/obitools/obitools4/obitools4/pkg/obikmer"
	"git.metabarcoding.org/obitools/obitools4/obitools4/pkg/obiseq"
	"git.metabarcoding.org/obitools/obitools4/obitools4/pkg/obitax"
	"git.metabarcoding.org/obitools/obitools4/obitools4/pkg/obitools/obirefidx"
	"git.metabarcoding.org/obitools/obitools4/obitools4/pkg/obitools/obitag"
	"git.metabarcoding.org/obitools/obitools4/obitools4/pkg/obitools/obitag2"

	"verifharness/internal/evid"
	"verifharness/internal/fatal"
)

func init() {
	fatal.Install()
	evid.Reg("findclosests", checkFind)
	evid.Reg("findclosests_obitag2", checkFind2)
	evid.Reg("indexsequence", checkIndex)
	evid.Reg("identify", checkIdentify)
}

// ------------------------------------------------------------------ the real database

// realDB is the reference database prepared exactly as obitag.CLIAssignTaxonomy and
// obirefidx.IndexReferenceDB prepare it: one 4-mer table per reference
// (obikmer.Count4Mer with a shared scratch buffer), one taxon per reference
// (Taxonomy.Taxon(seq.Taxid())) in a TaxonSet keyed by the reference position.
type realDB struct {
	refs   obiseq.BioSequenceSlice
	counts []*obikmer.Table4mer
	taxa   obitax.TaxonSet
	taxo   *obitax.Taxonomy
	memo   map[int]map[int]string // big databases only, see index
}

func buildTaxonomy(c *dbCase) (*obitax.Taxonomy, error) {
	t := &c.Tree
	tax := obitax.NewTaxonomy()
	for i := 0; i < t.N(); i++ {
		node, err := tax.AddNewTaxa(t.Taxid[i], t.Taxid[t.Parent[i]], t.Rank[i], false, false)
		if err != nil || node == nil {
			return nil, fmt.Errorf("AddNewTaxa(%d, parent %d, %q): node=%v err=%v", t.Taxid[i], t.Taxid[t.Parent[i]], t.Rank[i], node, err)
		}
	}
	if err := tax.ReindexParent(); err != nil {
		return nil, fmt.Errorf("ReindexParent on a complete tree: %v", err)
	}
	sn := "scientific name"
	for i := 0; i < t.N(); i++ {
		name := t.Name[i]
		if err := tax.AddNewName(t.Taxid[i], &name, &sn); err != nil {
			return nil, fmt.Errorf("AddNewName(%d, %q): %v", t.Taxid[i], name, err)
		}
	}
	return tax, nil
}

func buildDB(c *dbCase) (*realDB, error) {
	if err := c.validate(); err != nil {
		return nil, err
	}
	var db *realDB
	var err error
	out := fatal.Run(func() {
		var taxo *obitax.Taxonomy
		taxo, err = buildTaxonomy(c)
		if err != nil {
			return
		}
		n := len(c.Refs)
		d := &realDB{taxo: taxo, refs: make(obiseq.BioSequenceSlice, n), counts: make([]*obikmer.Table4mer, n), taxa: make(obitax.TaxonSet, n)}
		buffer := make([]byte, 0, 1000)
		for i, s := range c.Refs {
			seq := obiseq.NewBioSequence(refID(i), []byte(s), "")
			seq.SetTaxid(c.Tree.Taxid[c.Node[i]])
			d.refs[i] = seq
			d.counts[i] = obikmer.Count4Mer(seq, &buffer, nil)
			d.taxa[i], err = taxo.Taxon(seq.Taxid())
			if err != nil {
				err = fmt.Errorf("Taxonomy.Taxon(%d) on a taxonomy holding it: %v", seq.Taxid(), err)
				return
			}
		}
		db = d
	})
	if !out.Completed {
		return nil, fmt.Errorf("preparing the reference database (NewTaxonomy/AddNewTaxa/Count4Mer/Taxon) did not return: %v\n%s", out, out.Stack)
	}
	return db, err
}

func (db *realDB) query(c *dbCase) *obiseq.BioSequence {
	return obiseq.NewBioSequence("query", []byte(c.Query), "")
}

// ------------------------------------------------------------------ helpers

func idsOf(idx []int) string {
	s := make([]string, len(idx))
	for i, v := range idx {
		s[i] = refID(v)
	}
	return "[" + strings.Join(s, " ") + "]"
}

// describe prints the part of the case needed to understand a failure.
func describe(c *dbCase, m *model) string {
	var b strings.Builder
	fmt.Fprintf(&b, "query (len %d) %s\n", len(c.Query), c.Query)
	si := m.scan()
	shown, near := 0, 0
	head := 70
	if len(c.Refs) > 200 {
		head = 7
	}
	for i, r := range c.Refs {
		// big databases: the first references, then only those near the minimum
		if i > head {
			if m.q[i].d > m.dmin+2 || near >= 60 {
				continue
			}
			near++
		}
		mark := " "
		if m.q[i].d == m.dmin {
			mark = "*"
		}
		fmt.Fprintf(&b, " %s %-4s len %3d taxid %-6d shared4mers %3d  distance %3d (lcs %d, alignment %d)  %s\n",
			mark, refID(i), len(r), c.Tree.Taxid[c.Node[i]], si.cw[i], m.q[i].d, m.q[i].lcs, m.q[i].al, r)
		shown++
	}
	if shown < len(c.Refs) {
		fmt.Fprintf(&b, " (%d of %d references shown: the first %d and those within 2 of the minimal distance)\n", shown, len(c.Refs), head+1)
	}
	return b.String()
}

type finder func(*obiseq.BioSequence, obiseq.BioSequenceSlice, []*obikmer.Table4mer, bool) (obiseq.BioSequenceSlice, int, float64, string, []int)

// ------------------------------------------------------------------ FindClosests

func findWith(cp *dbCase, m *model, name string, find finder) error {
	c := *cp
	db, err := buildDB(&c)
	if err != nil {
		return err
	}

	var bests obiseq.BioSequenceSlice
	var maxe int
	var bestID float64
	var bestmatch string
	var idxs []int
	out := fatal.Run(func() {
		bests, maxe, bestID, bestmatch, idxs = find(db.query(&c), db.refs, db.counts, false)
	})
	if !out.Completed {
		return fmt.Errorf("%s(query, %d references) did not return: %v\n%s\n%s", name, len(c.Refs), out, out.Stack, describe(&c, m))
	}
	fail := func(format string, a ...any) error {
		return fmt.Errorf("%s(query, %d references) returned distance %d, references %v, best identity %v, best match %q: %s\nbrute force over all references: minimal distance %d reached by %s\n%s",
			name, len(c.Refs), maxe, idsOf(idxs), bestID, bestmatch, fmt.Sprintf(format, a...), m.dmin, idsOf(m.best), describe(&c, m))
	}
	if maxe != m.dmin {
		return fail("the distance is not the minimal LCS distance")
	}
	if len(bests) != len(idxs) {
		return fail("%d sequences but %d positions returned", len(bests), len(idxs))
	}
	got := append([]int(nil), idxs...)
	sort.Ints(got)
	for i := 1; i < len(got); i++ {
		if got[i] == got[i-1] {
			return fail("reference %s returned twice", refID(got[i]))
		}
	}
	for i, p := range idxs {
		if p < 0 || p >= len(c.Refs) {
			return fail("position %d out of range", p)
		}
		if bests[i] != db.refs[p] {
			return fail("returned sequence %d (%s) is not the reference at the returned position %d", i, bests[i].Id(), p)
		}
	}
	// both directions
	for _, b := range m.best {
		if k := sort.SearchInts(got, b); k == len(got) || got[k] != b {
			return fail("reference %s (len %d) is at the minimal distance %d but is not returned", refID(b), len(c.Refs[b]), m.dmin)
		}
	}
	for _, g := range got {
		if m.q[g].d != m.dmin {
			return fail("reference %s is returned but its distance is %d", refID(g), m.q[g].d)
		}
	}
	if want := m.bestIdentity(); bestID != want {
		return fail("best identity should be %v (largest LCS/alignment length among the best references)", want)
	}
	okMatch := false
	for _, b := range m.best {
		if refID(b) == bestmatch && float64(m.q[b].lcs)/float64(m.q[b].al) == bestID {
			okMatch = true
		}
	}
	if !okMatch {
		return fail("the best match is not a best reference reaching the best identity")
	}
	return nil
}

func findM(c *dbCase, m *model) error {
	return findWith(c, m, "obitag.FindClosests", obitag.FindClosests)
}
func find2M(c *dbCase, m *model) error {
	return findWith(c, m, "obitag2.FindClosests", obitag2.FindClosests)
}
func checkFind(c dbCase) error     { return withModel(c, findM) }
func checkFind2(c dbCase) error    { return withModel(c, find2M) }
func checkIndex(c dbCase) error    { return withModel(c, indexM) }
func checkIdentify(c dbCase) error { return withModel(c, identifyM) }

func withModel(c dbCase, f func(*dbCase, *model) error) error {
	if err := c.validate(); err != nil {
		return err
	}
	return f(&c, newModel(&c))
}

// ------------------------------------------------------------------ IndexSequence

func parseEntry(e string) (taxid int, err error) {
	parts := strings.Split(e, "@")
	if len(parts) < 1 || parts[0] == "" {
		return 0, fmt.Errorf("entry %q has no taxid", e)
	}
	return strconv.Atoi(parts[0])
}

func fmtIndex(idx map[int]string) string {
	keys := make([]int, 0, len(idx))
	for k := range idx {
		keys = append(keys, k)
	}
	sort.Ints(keys)
	var b strings.Builder
	b.WriteString("{")
	for i, k := range keys {
		if i > 0 {
			b.WriteString(", ")
		}
		fmt.Fprintf(&b, "%d: %q", k, idx[k])
	}
	b.WriteString("}")
	return b.String()
}

func fmtExpected(c *dbCase, idx map[int]int) string {
	keys := make([]int, 0, len(idx))
	for k := range idx {
		keys = append(keys, k)
	}
	sort.Ints(keys)
	var b strings.Builder
	b.WriteString("{")
	for i, k := range keys {
		if i > 0 {
			b.WriteString(", ")
		}
		fmt.Fprintf(&b, "%d: taxid %d", k, c.Tree.Taxid[idx[k]])
	}
	b.WriteString("}")
	return b.String()
}

func describeRef(c *dbCase, m *model, r int) string {
	var b strings.Builder
	rk := kmers4(c.Refs[r])
	fmt.Fprintf(&b, "indexed reference %s (len %d, taxid %d) %s\n", refID(r), len(c.Refs[r]), c.Tree.Taxid[c.Node[r]], c.Refs[r])
	shown := 0
	for j, s := range c.Refs {
		// big databases: only the closest references of each taxonomic level are of interest
		if len(c.Refs) > 200 && (m.refDist(r, j) > 12 || shown >= 80) {
			continue
		}
		shown++
		fmt.Fprintf(&b, "   %-4s len %3d taxid %-6d lca-with-indexed taxid %-6d shared4mers %3d distance %3d  %s\n",
			refID(j), len(s), c.Tree.Taxid[c.Node[j]], c.Tree.Taxid[c.Tree.LCA(c.Node[r], c.Node[j])], shared4(rk, kmers4(s)), m.refDist(r, j), s)
	}
	if shown < len(c.Refs) {
		fmt.Fprintf(&b, "   (%d of %d references shown: those within 12 of the indexed reference)\n", shown, len(c.Refs))
	}
	fmt.Fprintf(&b, "taxonomy parents (by node): %v taxids: %v\n", c.Tree.Parent, c.Tree.Taxid)
	return b.String()
}

// judgeIndex compares one IndexSequence map with the brute force.
func judgeIndex(c *dbCase, m *model, r int, idx map[int]string) error {
	want := m.expectedIndex(r)
	fail := func(format string, a ...any) error {
		return fmt.Errorf("IndexSequence(%s of %d references) = %s: %s\nindex computed by comparing the reference with every reference: %s\n%s",
			refID(r), len(c.Refs), fmtIndex(idx), fmt.Sprintf(format, a...), fmtExpected(c, want), describeRef(c, m, r))
	}
	// (a) every recorded distance maps to the LCA of the taxa of all references within that distance
	keys := make([]int, 0, len(idx))
	for k := range idx {
		keys = append(keys, k)
	}
	sort.Ints(keys)
	for _, d := range keys {
		taxid, err := parseEntry(idx[d])
		if err != nil {
			return fail("distance %d: %v", d, err)
		}
		if d < 0 {
			return fail("negative distance %d recorded", d)
		}
		node, members := m.lcaWithin(r, d)
		if taxid != c.Tree.Taxid[node] {
			return fail("distance %d is mapped to taxid %d; the LCA of the taxa of the %d references within distance %d is taxid %d", d, taxid, members, d, c.Tree.Taxid[node])
		}
		parts := strings.Split(idx[d], "@")
		if len(parts) != 3 || parts[1] != c.Tree.Name[node] || parts[2] != c.Tree.Rank[node] {
			return fail("distance %d: entry is not taxid@scientific name@rank of taxid %d (%q, %q)", d, taxid, c.Tree.Name[node], c.Tree.Rank[node])
		}
	}
	// (b) the 4-mer prefilter did not change the map: same recorded distances as without prefilter
	for d := range want {
		if _, ok := idx[d]; !ok {
			return fail("distance %d (LCA of the references within it: taxid %d) is not recorded, although the LCA changes there", d, c.Tree.Taxid[want[d]])
		}
	}
	for _, d := range keys {
		if _, ok := want[d]; !ok {
			return fail("distance %d is recorded although the LCA of the references within it is the same as for the next smaller recorded distance (or it is not smaller than the sequence length)", d)
		}
	}
	return nil
}

// bigDBSize is the size from which one realDB keeps the maps IndexSequence
// returned (a copy is handed out): on a database of 10^5 unrelated references one
// call aligns nearly every reference, and identifyM asks for the same map up to
// three times.  Small databases are indexed afresh at every request.
const bigDBSize = 20000

func (db *realDB) index(r int) (map[int]string, fatal.Outcome) {
	if len(db.refs) >= bigDBSize {
		if idx, ok := db.memo[r]; ok {
			cp := make(map[int]string, len(idx))
			for k, v := range idx {
				cp[k] = v
			}
			return cp, fatal.Outcome{Completed: true}
		}
	}
	var idx map[int]string
	out := fatal.Run(func() { idx = obirefidx.IndexSequence(r, db.refs, &db.counts, &db.taxa, db.taxo) })
	if out.Completed && len(db.refs) >= bigDBSize {
		if db.memo == nil {
			db.memo = map[int]map[int]string{}
		}
		cp := make(map[int]string, len(idx))
		for k, v := range idx {
			cp[k] = v
		}
		db.memo[r] = cp
	}
	return idx, out
}

func indexM(cp *dbCase, m *model) error {
	c := *cp
	db, err := buildDB(&c)
	if err != nil {
		return err
	}
	for _, r := range c.Stale {
		db.refs[r].SetOBITagRefIndex(map[int]string{0: fmt.Sprintf("%d@%s@%s", c.Tree.Taxid[0], c.Tree.Name[0], c.Tree.Rank[0])})
	}
	for _, r := range c.Targets {
		idx, out := db.index(r)
		if !out.Completed {
			return fmt.Errorf("IndexSequence(%s of %d references) did not return: %v\n%s\n%s", refID(r), len(c.Refs), out, out.Stack, describeRef(&c, m, r))
		}
		if err := judgeIndex(&c, m, r, idx); err != nil {
			if len(c.Stale) > 0 {
				return fmt.Errorf("(references %s carried the obitag_ref_index {0: root} of another database when IndexSequence was called) %w", idsOf(c.Stale), err)
			}
			return err
		}
	}
	return nil
}

// ------------------------------------------------------------------ Identify

func identifyM(cp *dbCase, m *model) error {
	c := *cp
	db, err := buildDB(&c)
	if err != nil {
		return err
	}

	// References indexed beforehand, as obirefidx does (IndexSequence on every
	// reference, SetOBITagRefIndex), and every reference the search can return:
	// their maps are judged first (Identify cannot work on a wrong or empty map).
	pre := map[int]bool{}
	for _, r := range c.PreIndexed {
		pre[r] = true
	}
	for _, b := range m.best {
		idx, out := db.index(b)
		if !out.Completed {
			return fmt.Errorf("IndexSequence(%s) did not return: %v\n%s\n%s", refID(b), out, out.Stack, describeRef(&c, m, b))
		}
		if err := judgeIndex(&c, m, b, idx); err != nil {
			return fmt.Errorf("index of best reference %s, needed by Identify: %w", refID(b), err)
		}
	}
	for r := range c.Refs {
		if pre[r] {
			idx, out := db.index(r)
			if !out.Completed {
				return fmt.Errorf("IndexSequence(%s) did not return: %v\n%s", refID(r), out, out.Stack)
			}
			if len(idx) == 0 {
				return fmt.Errorf("IndexSequence(%s) returned an empty map\n%s", refID(r), describeRef(&c, m, r))
			}
			db.refs[r].SetOBITagRefIndex(idx)
		}
	}
	// the search as Identify will run it: a reference it returns must have a usable index
	var ridx []int
	out := fatal.Run(func() { _, _, _, _, ridx = obitag.FindClosests(db.query(&c), db.refs, db.counts, false) })
	if !out.Completed {
		return fmt.Errorf("obitag.FindClosests did not return: %v\n%s\n%s", out, out.Stack, describe(&c, m))
	}
	for _, r := range ridx {
		if r < 0 || r >= len(c.Refs) {
			return fmt.Errorf("obitag.FindClosests returned position %d out of range\n%s", r, describe(&c, m))
		}
		idx, o := db.index(r)
		if !o.Completed || len(idx) == 0 {
			return fmt.Errorf("IndexSequence(%s) (a reference returned by FindClosests): outcome %v, map %s\n%s", refID(r), o, fmtIndex(idx), describeRef(&c, m, r))
		}
	}

	q := db.query(&c)
	var res *obiseq.BioSequence
	out = fatal.Run(func() { res = obitag.Identify(q, db.refs, db.counts, db.taxa, db.taxo, false) })
	if !out.Completed {
		return fmt.Errorf("obitag.Identify(query, %d references, %d pre-indexed) did not return: %v\n%s\n%s", len(c.Refs), len(pre), out, out.Stack, describe(&c, m))
	}
	if res == nil {
		return fmt.Errorf("obitag.Identify returned nil\n%s", describe(&c, m))
	}
	taxid := res.Taxid()
	wantNode, accepted := m.expectedAssignment()
	fail := func(format string, a ...any) error {
		return fmt.Errorf("obitag.Identify(query, %d references, %d pre-indexed) assigned taxid %d (annotations %v): %s\nbrute force: minimal distance %d reached by %s, best identity %v, expected taxid %d\n%staxonomy parents (by node): %v taxids: %v",
			len(c.Refs), len(pre), taxid, res.Annotations(), fmt.Sprintf(format, a...), m.dmin, idsOf(m.best), m.bestIdentity(), c.Tree.Taxid[wantNode], describe(&c, m), c.Tree.Parent, c.Tree.Taxid)
	}
	node, _, ok := c.Tree.Resolve(taxid)
	if !ok {
		return fail("the assigned taxid is not in the taxonomy")
	}
	// the statement: ancestor-or-self of the taxon of every best-matching reference
	for _, b := range m.best {
		if !c.Tree.IsAncestorOrSelf(node, c.Node[b]) {
			return fail("it is not an ancestor-or-self of taxid %d, the taxon of best reference %s", c.Tree.Taxid[c.Node[b]], refID(b))
		}
	}
	// the same answer as without prefilter
	if node != wantNode {
		if accepted {
			return fail("the LCA over the best references of (the LCA of all references within distance %d of it) is taxid %d", m.dmin, c.Tree.Taxid[wantNode])
		}
		return fail("the best identity is below 0.5: the documented answer is the root")
	}
	if v, ok := res.GetIntAttribute("obitag_match_count"); !ok || v != len(m.best) {
		return fail("obitag_match_count is %v, %d references are at the minimal distance", v, len(m.best))
	}
	if v, ok := res.GetAttribute("obitag_bestid"); !ok || v != m.bestIdentity() {
		return fail("obitag_bestid is %v, the best identity is %v", v, m.bestIdentity())
	}

	// obitag2 reads the indices through Obitag2RefDB.BestConsensus
	if accepted {
		for _, b := range m.best {
			if db.refs[b].OBITagRefIndex() == nil {
				return fail("best reference %s carries no obitag_ref_index after Identify", refID(b))
			}
		}
		bs := make(obiseq.BioSequenceSlice, len(m.best))
		for i, b := range m.best {
			bs[i] = db.refs[b]
		}
		db2 := &obitag2.Obitag2RefDB{Taxonomy: db.taxo}
		var t2 *obitax.TaxNode
		out = fatal.Run(func() { t2 = db2.BestConsensus(bs, m.dmin, "obitag_ref_index") })
		if !out.Completed || t2 == nil {
			return fmt.Errorf("obitag2 BestConsensus(%s, distance %d) did not return a taxon: %v\n%s", idsOf(m.best), m.dmin, out, out.Stack)
		}
		if t2.Taxid() != c.Tree.Taxid[wantNode] {
			return fmt.Errorf("obitag2 BestConsensus(%s, distance %d) = taxid %d, expected %d\n%s", idsOf(m.best), m.dmin, t2.Taxid(), c.Tree.Taxid[wantNode], describe(&c, m))
		}
	}
	return nil
}
