package c15

import (
	"fmt"

	"pgregory.net/rapid"

	"verifharness/internal/gen"
	"verifharness/internal/ref"
)

const (
	minRefLen = 20
	maxRefLen = 150
)

// limits are the length bounds of one generator: references, query, and the
// lengths the founders are biased to.
type limits struct {
	minRef, maxRef int
	minQ, maxQ     int
	magic          []int
}

var smallLimits = limits{minRefLen, maxRefLen, 8, 180, []int{32, 64, 100}}

// longLimits: sequences holding more than 255 4-mers (a shared-word count, and in
// tandem repeats the count of a single word, no longer fits in 8 bits), up to the
// length of the usual long barcodes.
var longLimits = limits{150, 520, 100, 560, []int{255, 258, 259, 260, 300}}

var editKinds = []string{"sid", "sid", "s", "i", "d", "si", "sd", "id"}

// clip forces a length into [lo, hi] by construction: cut the tail, or append drawn symbols.
func clip(t *rapid.T, label, s string, lo, hi int, alphabet string) string {
	if len(s) > hi {
		return s[:hi]
	}
	if len(s) < lo {
		return s + gen.Seq(t, label+"_pad", lo-len(s), alphabet)
	}
	return s
}

// center draws a family founder: random over the alphabet, or a tandem repeat of
// a short motif (many repeated 4-mers: the shared-word count is a sum of minima).
func center(t *rapid.T, label, alphabet string, lim limits) string {
	minRefLen, maxRefLen := lim.minRef, lim.maxRef
	n := gen.Len(t, label+"_len", minRefLen, maxRefLen, lim.magic...)
	if rapid.IntRange(0, 7).Draw(t, label+"_repeat") == 0 {
		motif := gen.Seq(t, label+"_motif", rapid.IntRange(1, 7).Draw(t, label+"_motiflen"), alphabet)
		b := make([]byte, n)
		for i := range b {
			b[i] = motif[i%len(motif)]
		}
		s, _ := gen.Mutate(t, label+"_rmut", string(b), rapid.IntRange(0, 3).Draw(t, label+"_rk"), alphabet, "sid")
		return clip(t, label, s, minRefLen, maxRefLen, alphabet)
	}
	return gen.Seq(t, label, n, alphabet)
}

// derive builds a relative of parent: k edits of the drawn kinds, then possibly
// a flank added (longer) or an end removed (shorter).
func derive(t *rapid.T, label, parent string, edits []int, alphabet string, lo, hi int) (string, string) {
	k := rapid.SampledFrom(edits).Draw(t, label+"_k")
	kinds := rapid.SampledFrom(editKinds).Draw(t, label+"_kinds")
	s, _ := gen.Mutate(t, label, parent, k, alphabet, kinds)
	shape := "mut"
	switch rapid.IntRange(0, 9).Draw(t, label+"_ends") {
	case 0, 1: // longer: a flank at one end or both
		shape = "ext"
		n := rapid.SampledFrom([]int{1, 2, 3, 4, 5, 8, 12, 20, 40}).Draw(t, label+"_flank")
		f := gen.Seq(t, label+"_flankseq", n, alphabet)
		switch rapid.IntRange(0, 2).Draw(t, label+"_side") {
		case 0:
			s = f + s
		case 1:
			s = s + f
		default:
			s = f[:n/2] + s + f[n/2:]
		}
	case 2, 3: // shorter: an end removed
		shape = "trunc"
		n := rapid.SampledFrom([]int{1, 2, 3, 4, 5, 8, 12, 20, 40}).Draw(t, label+"_cut")
		if n > len(s)-lo {
			n = len(s) - lo
		}
		if n > 0 {
			if rapid.Bool().Draw(t, label+"_cutside") {
				s = s[n:]
			} else {
				s = s[:len(s)-n]
			}
		}
	}
	return clip(t, label, s, lo, hi, alphabet), shape
}

type genInfo struct {
	QueryMode string
	TreeShape string
	Alphabet  string
}

// genDB draws a reference database of 2..maxRefs sequences with its taxonomy and a query.
func genDB(t *rapid.T, maxRefs, maxTax int) (dbCase, genInfo) {
	return genDBLim(t, maxRefs, maxTax, smallLimits)
}

func genDBLim(t *rapid.T, maxRefs, maxTax int, lim limits) (dbCase, genInfo) {
	minRefLen, maxRefLen := lim.minRef, lim.maxRef
	var c dbCase
	var info genInfo
	alphabet := rapid.SampledFrom([]string{"acgt", "acgt", "acgt", "acgt", "acg", "ac"}).Draw(t, "alphabet")
	info.Alphabet = alphabet

	var n int
	switch rapid.IntRange(0, 4).Draw(t, "size") {
	case 0, 1:
		n = rapid.IntRange(2, min(8, maxRefs)).Draw(t, "nrefs")
	case 2, 3:
		n = rapid.IntRange(min(9, maxRefs), min(25, maxRefs)).Draw(t, "nrefs")
	default:
		n = rapid.IntRange(min(26, maxRefs), maxRefs).Draw(t, "nrefs")
	}
	nfam := rapid.IntRange(1, min(4, n)).Draw(t, "nfam")
	centers := make([]string, nfam)
	for f := range centers {
		centers[f] = center(t, fmt.Sprintf("center%d", f), alphabet, lim)
	}

	// the query: a relative of the founder of family 0 (0..6 edits, ends possibly
	// changed), or an unrelated sequence
	if rapid.IntRange(0, 11).Draw(t, "query_unrelated") == 0 {
		info.QueryMode = "unrelated"
		c.Query = gen.Seq(t, "query", gen.Len(t, "query_len", lim.minQ, lim.maxQ, minRefLen, maxRefLen), alphabet)
	} else {
		q, shape := derive(t, "query", centers[0], []int{0, 0, 1, 1, 2, 2, 3, 3, 4, 5, 6}, alphabet, lim.minQ, lim.maxQ)
		c.Query, info.QueryMode = q, "derived_"+shape
	}

	// the taxonomy
	ntax := gen.Len(t, "ntax", 1, maxTax, 2, 3)
	info.TreeShape = rapid.SampledFrom(gen.TreeShapes).Draw(t, "shape")
	c.Tree, _ = gen.Tree(t, "tax", ntax, info.TreeShape, 0, 0)
	rootTaxid1(&c.Tree)
	anchors := make([][]int, nfam) // nodes of the clade of each family
	for f := range anchors {
		a := rapid.IntRange(0, ntax-1).Draw(t, fmt.Sprintf("anchor%d", f))
		for x := 0; x < ntax; x++ {
			if c.Tree.IsAncestorOrSelf(a, x) {
				anchors[f] = append(anchors[f], x)
			}
		}
	}

	// the references
	members := make([][]int, nfam)
	pending := ""
	refEdits := []int{0, 1, 1, 1, 2, 2, 2, 3, 3, 4, 5, 6, 8, 10}
	for i := 0; i < n; i++ {
		label := fmt.Sprintf("ref%d", i)
		f := rapid.IntRange(0, nfam-1).Draw(t, label+"_fam")
		var s string
		if pending != "" { // second member of a tie pair
			s, pending = pending, ""
			c.Refs = append(c.Refs, clip(t, label+"_clip", s, minRefLen, maxRefLen, alphabet))
			c.Node = append(c.Node, drawNode(t, label, anchors[0], ntax))
			continue
		}
		switch mode := rapid.IntRange(0, 19).Draw(t, label+"_mode"); {
		case mode >= 17 && info.QueryMode != "unrelated":
			// a tie pair around the query: one relative made longer by k insertions or a
			// k-symbol flank (keeps nearly all the words of the query), one of the same or
			// smaller length made by k substitutions / deletions (loses up to 4 words per
			// edit) - both at distance ~k
			k := rapid.IntRange(1, 6).Draw(t, label+"_pair_k")
			if rapid.Bool().Draw(t, label+"_pair_flank") {
				f := gen.Seq(t, label+"_pair_flankseq", k, alphabet)
				if rapid.Bool().Draw(t, label+"_pair_side") {
					s = f + c.Query
				} else {
					s = c.Query + f
				}
			} else {
				s, _ = gen.Mutate(t, label+"_pair_ins", c.Query, k, alphabet, "i")
			}
			pending, _ = gen.Mutate(t, label+"_pair_sub", c.Query, k, alphabet, rapid.SampledFrom([]string{"s", "s", "d", "sd"}).Draw(t, label+"_pair_kinds"))
			f = 0
		case mode == 0 && i > 0: // exact duplicate of an earlier reference
			s = c.Refs[rapid.IntRange(0, i-1).Draw(t, label+"_dup")]
		case mode <= 2: // unrelated
			s = gen.Seq(t, label, gen.Len(t, label+"_len", minRefLen, maxRefLen), alphabet)
		default:
			parent := centers[f]
			switch p := rapid.IntRange(0, 5).Draw(t, label+"_parent"); {
			case p <= 1 && len(members[f]) > 0:
				parent = c.Refs[members[f][rapid.IntRange(0, len(members[f])-1).Draw(t, label+"_sib")]]
			case p <= 3 && f == 0: // a relative of the query itself: references at a chosen small distance, ties
				parent = c.Query
			}
			s, _ = derive(t, label, parent, refEdits, alphabet, minRefLen, maxRefLen)
			members[f] = append(members[f], i)
		}
		s = clip(t, label+"_clip", s, minRefLen, maxRefLen, alphabet)
		c.Refs = append(c.Refs, s)
		c.Node = append(c.Node, drawNode(t, label, anchors[f], ntax))
	}
	return c, info
}

// drawNode places a reference: mostly inside the clade of its family, sometimes anywhere.
func drawNode(t *rapid.T, label string, clade []int, ntax int) int {
	r := rapid.IntRange(0, 1<<20).Draw(t, label+"_node")
	if r%4 != 0 {
		return clade[(r/4)%len(clade)]
	}
	return (r / 4) % ntax
}

// rootTaxid1 gives the root the taxid 1, as in the NCBI taxonomy every caller loads
// (Identify answers "taxid 1" when it rejects a match).
func rootTaxid1(tr *ref.Tree) {
	for i, v := range tr.Taxid {
		if v == 1 {
			tr.Taxid[i], tr.Taxid[0] = tr.Taxid[0], 1
			return
		}
	}
	tr.Taxid[0] = 1
}
