// Property C15 — assignment search is lossless: k-mer prefilters never change the answer.
//
// What is called (exactly as obitag.CLIAssignTaxonomy / obirefidx.IndexReferenceDB /
// IndexFamilyDB call it): obikmer.Count4Mer(seq, &buffer, nil) per reference,
// Taxonomy.Taxon(seq.Taxid()) per reference into a TaxonSet keyed by position, then
// obitag.FindClosests / obitag2.FindClosests (query, references, counts, runExact=false),
// obirefidx.IndexSequence(i, references, &counts, &taxa, taxonomy),
// obitag.Identify(query, references, counts, taxa, taxonomy, false) and
// obitag2.Obitag2RefDB.BestConsensus(bests, distance, "obitag_ref_index").
//
// Oracle: brute force.  The query (resp. the indexed reference) is aligned with
// EVERY reference by the harness' own full-matrix LCS (ref.LCS: largest LCS, then
// shortest alignment); distance = alignment length - LCS; taxonomy answers come
// from ref.Tree (naive parent walks).  4-mer counts used for labelling cases are the
// harness' own (substring map).
//
// Domain decisions (sub-cases the statement does not decide are not generated):
//
//   - Alphabet acgt, lower case (also the sub-alphabets acg / ac and tandem repeats, to
//     stress the "sum of minima" shared-word count).  No IUPAC codes: Encode4mer maps
//     every other letter to 'a' and the LCS kernel has its own ambiguity table (C09).
//   - References 20..150 nt, queries 8..180 nt, 2..60 references: every sequence holds
//     at least one 4-mer; obitag2.FindClosests stops after 1000 candidates on purpose,
//     databases that large are not generated.
//   - runExact is false (the option is commented out in the command; the parameter is unused).
//   - The taxonomy is one rooted tree whose root has taxid 1 (Identify answers taxid 1 and
//     looks taxon 1 up when it rejects a match; every real caller loads an NCBI taxonomy).
//     Every reference carries a taxid of the taxonomy (the callers drop the others), every
//     node has a scientific name.  Names and ranks hold no '@' (the index entry separator).
//   - The acceptance rule of Identify (best identity >= 0.5, else root) is mirrored, not judged.
//   - How Identify selects the index entry for an observed distance D is mirrored from the
//     code: the entry of the largest recorded distance <= D.  With the statement's meaning of
//     an entry (d -> LCA of all references within d) this is the LCA of all references
//     within D of the best reference, which is what the brute force computes.
//   - Which distances IndexSequence records is mirrored from the code: distance 0 and every
//     distance smaller than the length of the indexed reference at which the LCA of the
//     references within that distance changes.  The check requires (a) what the statement says
//     of each recorded distance and (b) that the set of recorded distances is the one obtained
//     WITHOUT prefilter (comparing the reference with every reference): "prefilters never
//     change the answer".
//   - obitag.MatchDistanceIndex is only used by the geometric mode (obigeomtag) on another
//     kind of index; obitag2.Identify needs a family-indexed database (clusters, family_taxid
//     annotations written by other commands): neither is part of the statement.  obitag2 is
//     covered through its own FindClosests and through BestConsensus.
//   - Reference files holding records the commands discard or treat specially (raw_test.go):
//     what the database is, record by record, is read off the code and its messages - unknown
//     taxid (also 0 and negative): discarded with a warning (obitag) / a count (obirefidx);
//     old identifier of merged.dmp: reference of the taxon it was merged into; no taxid
//     attribute: reference of the root (BioSequence.Taxid documents the default 1); 1..3 nt,
//     repeated identifiers: ordinary references.  Only the answers on the database so defined
//     are asserted.  Left out: an empty sequence (the FASTA reader of the pinned tree is fatal
//     on it), taxids written as JSON strings or floats ("1011", "TX:1011": read as "no taxid"),
//     a file without any kept record, and what obitag --save-db writes for such a file (the
//     statement is about answers; on the pinned tree the saved file repeats the last kept
//     record once per discarded record).  NOT RUN (reported, not a generator limit): obitag on
//     an un-indexed file whose LAST record is a discarded one - on the pinned tree the command
//     aborts ("Try to get LCA of nil taxon": CLIAssignTaxonomy leaves a nil entry in the TaxonSet
//     at the position after the last kept reference, IndexSequence ranges over the set) as soon
//     as it has to index a best reference; the same file with the kept records already indexed
//     is run.
//   - Lazy indexing by concurrent workers (Identify storing obitag_ref_index on shared
//     references) is a scheduling matter, not checked here: Identify is called from one goroutine.
package c15

import (
	"testing"

	"verifharness/internal/evid"
)

func TestMain(m *testing.M) {
	evid.Tests(
		evid.Spec{Name: "TestReplay", Kind: "plain", QuickShards: 1, ThoroughShards: 1},
		evid.Spec{Name: "TestPropSearch", Kind: "rapid", Quick: 8000, Thorough: 240000, QuickShards: 8, ThoroughShards: 16, TimeoutS: 3000},
		evid.Spec{Name: "TestPropIndex", Kind: "rapid", Quick: 6000, Thorough: 160000, QuickShards: 8, ThoroughShards: 16, TimeoutS: 3000},
		evid.Spec{Name: "TestPropLong", Kind: "rapid", Quick: 160, Thorough: 4000, QuickShards: 8, ThoroughShards: 16, TimeoutS: 3000},
		evid.Spec{Name: "TestPropHistory", Kind: "rapid", Quick: 120, Thorough: 2400, QuickShards: 8, ThoroughShards: 16, TimeoutS: 3000},
		evid.Spec{Name: "TestPropBigDB", Kind: "rapid", Quick: 4, Thorough: 64, QuickShards: 4, ThoroughShards: 16, TimeoutS: 3000},
		evid.Spec{Name: "TestPropRawDB", Kind: "rapid", Quick: 160, Thorough: 3200, QuickShards: 8, ThoroughShards: 16, TimeoutS: 3000},
	)
	evid.Note("rule", "A case is a reference database of 2..60 sequences (20..150 nt over acgt, also acg/ac and tandem repeats; 1..4 families built by mutation of a founder, of a sibling or of the query itself: 0..10 substitutions/insertions/deletions of a drawn kind mix, flanks added (longer) or ends removed (shorter), exact duplicates, unrelated sequences), a taxonomy of 1..25 nodes (C14 generator: random, deep, chain, star, caterpillar, broom, binary; root taxid 1) with each family mostly inside one clade, and a query (8..180 nt: 0..6 edits from the founder of family 0, ends possibly changed, or unrelated). "+
		"Oracle: the query (resp. the indexed reference) is aligned with EVERY reference by an independent full-matrix LCS; distance = alignment length - LCS; best set = all references at the minimum. "+
		"findclosests / findclosests_obitag2: returned distance, set of returned references (nothing missing, nothing extra, sequences consistent with positions), best identity and best match. "+
		"indexsequence: every recorded distance d maps to taxid@name@rank of the tree LCA of the taxa of all references within d, and the recorded distances are those of the prefilter-free computation; in one case out of four some or all references carry, when IndexSequence is called, an obitag_ref_index left by another database. "+
		"identify: assigned taxid is an ancestor-or-self of the taxon of every brute-force best reference, and equals the LCA over the best references of the LCA of all references within the best distance (root when the best identity < 0.5); match count and best identity annotations; references pre-indexed (none/some/all) or indexed lazily; obitag2 BestConsensus on the same indices. "+
		"One evaluation = one call judged (one FindClosests, one IndexSequence map, one Identify). Non-trivial (search, identify) = at least 2 references tie at the minimal distance and at least one reference shares fewer 4-mers with the query than len(query)-3-4*dmin (a sound scan stops before it); non-trivial (index) = the index has at least 2 entries and at least one reference is below every 4-mer bound in play. Distinct = hash of (check, query, references, nodes, tree[, indexed reference / pre-indexed list]). "+
		"long: the same generator, checks, oracles and non-trivial rules with 2..10 references of 150..520 nt and queries of 100..560 nt (lengths biased to 255..260 and 300: more than 255 4-mers per sequence, tandem repeats holding one word several hundred times), each case judged either as a search/identify case or as an index case. "+
		ruleBigDB+" "+ruleHist+" "+ruleRaw)
	evid.Commands("obirefidx", "obitag")
	evid.Main(m, "C15")
}

func TestReplay(t *testing.T) { evid.Replay(t) }
